(* Proofs about the generic stable sort: a strict weak order has exactly one stable sorted
   permutation of every list, [ssort] computes it, Go's insertion sort computes it too. *)
From Coq Require Import List Bool Arith Permutation Lia.
From YK Require Import Sort.Sort.
Import ListNotations.
Set Default Timeout 30.

Section Facts.
  Context {A : Type}.
  Variable lt : A -> A -> bool.
  Variable P : A -> Prop.
  Hypothesis Hswo : swo_on P lt.

  Lemma swo_irrefl a : P a -> lt a a = false.
  Proof. destruct Hswo as [H _]. auto. Qed.
  Lemma swo_trans a b c : P a -> P b -> P c -> lt a b = true -> lt b c = true -> lt a c = true.
  Proof. destruct Hswo as [_ [H _]]. eauto. Qed.
  Lemma swo_asym a b : P a -> P b -> lt a b = true -> lt b a = false.
  Proof.
    intros Pa Pb Hab. destruct (lt b a) eqn:Hba; [|reflexivity].
    pose proof (swo_trans a b a Pa Pb Pa Hab Hba) as H. rewrite (swo_irrefl a Pa) in H. discriminate.
  Qed.
  Lemma swo_negtrans a b c : P a -> P b -> P c -> lt a b = false -> lt b c = false -> lt a c = false.
  Proof.
    intros Pa Pb Pc Hab Hbc. destruct (lt a c) eqn:Hac; [|reflexivity].
    destruct (lt b a) eqn:Hba.
    { rewrite (swo_trans b a c Pb Pa Pc Hba Hac) in Hbc. discriminate. }
    destruct (lt c b) eqn:Hcb.
    { rewrite (swo_trans a c b Pa Pc Pb Hac Hcb) in Hab. discriminate. }
    destruct Hswo as [_ [_ H]]. destruct (H a b c Pa Pb Pc Hab Hba Hbc Hcb) as [H1 _]. congruence.
  Qed.
  Lemma swo_equiv_trans a b c : P a -> P b -> P c ->
    equivb lt a b = true -> equivb lt b c = true -> equivb lt a c = true.
  Proof.
    unfold equivb. intros Pa Pb Pc H1 H2.
    apply andb_true_iff in H1 as [H1a H1b]. apply andb_true_iff in H2 as [H2a H2b].
    apply negb_true_iff in H1a, H1b, H2a, H2b.
    rewrite (swo_negtrans a b c), (swo_negtrans c b a); auto.
  Qed.
  Lemma equivb_sym a b : equivb lt a b = equivb lt b a.
  Proof. unfold equivb. apply andb_comm. Qed.

  (* ---- insert / ssort ---- *)
  Lemma insert_perm x l : Permutation (insert lt x l) (x :: l).
  Proof.
    induction l as [|y t IH]; simpl; [reflexivity|].
    destruct (lt y x); [|reflexivity].
    rewrite IH. apply perm_swap.
  Qed.
  Lemma ssort_perm l : Permutation (ssort lt l) l.
  Proof.
    induction l as [|x t IH]; simpl; [reflexivity|].
    unfold ssort in *. simpl. rewrite insert_perm. constructor. exact IH.
  Qed.
  Lemma ssort_Forall l : Forall P l -> Forall P (ssort lt l).
  Proof. intros H. eapply Permutation_Forall; [symmetry; apply ssort_perm|exact H]. Qed.

  Lemma forallb_insert (f : A -> bool) x l : forallb f (insert lt x l) = f x && forallb f l.
  Proof.
    induction l as [|y t IH]; simpl; [reflexivity|].
    destruct (lt y x); simpl; [|reflexivity].
    rewrite IH. destruct (f x), (f y); reflexivity.
  Qed.

  Lemma insert_sorted x l : P x -> Forall P l -> sortedb lt l = true -> sortedb lt (insert lt x l) = true.
  Proof.
    intros Px. induction l as [|y t IH]; intros HP Hs; simpl; [reflexivity|].
    inversion HP as [|? ? Py HPt]; subst.
    simpl in Hs. apply andb_true_iff in Hs as [Hy Ht].
    destruct (lt y x) eqn:Hyx; simpl.
    - rewrite forallb_insert, Hy, (IH HPt Ht), (swo_asym y x Py Px Hyx). reflexivity.
    - rewrite Hyx, Hy, Ht. simpl. rewrite andb_true_r.
      apply forallb_forall. intros z Hz.
      rewrite forallb_forall in Hy. specialize (Hy z Hz). apply negb_true_iff in Hy.
      rewrite Forall_forall in HPt.
      rewrite (swo_negtrans z y x (HPt z Hz) Py Px Hy Hyx). reflexivity.
  Qed.
  Lemma ssort_sorted l : Forall P l -> sortedb lt (ssort lt l) = true.
  Proof.
    induction l as [|x t IH]; intros HP; [reflexivity|].
    inversion HP; subst. change (ssort lt (x :: t)) with (insert lt x (ssort lt t)).
    apply insert_sorted; auto using ssort_Forall.
  Qed.

  Lemma insert_stable z x l : P z -> P x -> Forall P l ->
    filter (equivb lt z) (insert lt x l) = filter (equivb lt z) (x :: l).
  Proof.
    intros Pz Px. induction l as [|y t IH]; intros HP; [reflexivity|].
    inversion HP as [|? ? Py HPt]; subst. simpl.
    destruct (lt y x) eqn:Hyx; [|reflexivity].
    simpl. rewrite (IH HPt). simpl.
    destruct (equivb lt z x) eqn:Hzx; [|reflexivity].
    (* z ~ x and y < x: y cannot be equivalent to z *)
    destruct (equivb lt z y) eqn:Hzy; [|reflexivity].
    exfalso. rewrite equivb_sym in Hzy.
    pose proof (swo_equiv_trans y z x Py Pz Px Hzy Hzx) as H.
    unfold equivb in H. rewrite Hyx in H. discriminate.
  Qed.
  Lemma ssort_stable z l : P z -> Forall P l ->
    filter (equivb lt z) (ssort lt l) = filter (equivb lt z) l.
  Proof.
    intros Pz. induction l as [|x t IH]; intros HP; [reflexivity|].
    inversion HP; subst. change (ssort lt (x :: t)) with (insert lt x (ssort lt t)).
    rewrite insert_stable; auto using ssort_Forall. simpl. rewrite IH; auto.
  Qed.

  (* ---- uniqueness: only irreflexivity is needed ---- *)
  Lemma sorted_stable_unique l1 : forall l2,
    Forall P l1 -> Forall P l2 -> sortedb lt l1 = true -> sortedb lt l2 = true ->
    (forall z, P z -> filter (equivb lt z) l1 = filter (equivb lt z) l2) -> l1 = l2.
  Proof.
    assert (Hrefl : forall a, P a -> equivb lt a a = true).
    { intros a Pa. unfold equivb. rewrite (swo_irrefl a Pa). reflexivity. }
    induction l1 as [|a t1 IH]; intros l2 HP1 HP2 Hs1 Hs2 Hf.
    - destruct l2 as [|b t2]; [reflexivity|]. inversion HP2; subst.
      specialize (Hf b H1). simpl in Hf. rewrite (Hrefl b H1) in Hf. discriminate.
    - inversion HP1 as [|? ? Pa HPt1]; subst.
      destruct l2 as [|b t2].
      { specialize (Hf a Pa). simpl in Hf. rewrite (Hrefl a Pa) in Hf. discriminate. }
      inversion HP2 as [|? ? Pb HPt2]; subst.
      simpl in Hs1, Hs2. apply andb_true_iff in Hs1 as [Ha Hs1]. apply andb_true_iff in Hs2 as [Hb Hs2].
      assert (Hab : a = b).
      { pose proof (Hf a Pa) as Fa. simpl in Fa. rewrite (Hrefl a Pa) in Fa.
        destruct (equivb lt a b) eqn:Eab; [congruence|].
        exfalso.
        assert (In a t2) as Ia.
        { assert (In a (filter (equivb lt a) t2)) as I by (rewrite <- Fa; left; reflexivity).
          apply filter_In in I. tauto. }
        pose proof (Hf b Pb) as Fb. simpl in Fb. rewrite (Hrefl b Pb) in Fb.
        rewrite equivb_sym, Eab in Fb.
        assert (In b t1) as Ib.
        { assert (In b (filter (equivb lt b) t1)) as I by (rewrite Fb; left; reflexivity).
          apply filter_In in I. tauto. }
        rewrite forallb_forall in Ha, Hb.
        pose proof (Ha b Ib) as H1. pose proof (Hb a Ia) as H2.
        apply negb_true_iff in H1, H2. unfold equivb in Eab. rewrite H1, H2 in Eab. discriminate. }
      subst b. f_equal. apply IH; auto.
      intros z Pz. specialize (Hf z Pz). simpl in Hf.
      destruct (equivb lt z a); [injection Hf; auto|exact Hf].
  Qed.

  (* any stable sorted permutation of l is ssort l *)
  Theorem stable_sort_unique_on l l' :
    Forall P l -> Permutation l l' -> sortedb lt l' = true ->
    (forall z, P z -> filter (equivb lt z) l' = filter (equivb lt z) l) -> l' = ssort lt l.
  Proof.
    intros HP Hp Hs Hf. apply sorted_stable_unique; auto.
    - eapply Permutation_Forall; eauto.
    - apply ssort_Forall; auto.
    - apply ssort_sorted; auto.
    - intros z Pz. rewrite Hf, ssort_stable; auto.
  Qed.

  (* a sorted list has no pair in the wrong order *)
  Lemma sortedb_no_inversion s1 b s2 a s3 :
    sortedb lt (s1 ++ b :: s2 ++ a :: s3) = true -> lt a b = false.
  Proof.
    induction s1 as [|x t IH]; simpl; intros H; apply andb_true_iff in H as [H1 H2]; [|auto].
    rewrite forallb_forall in H1. specialize (H1 a). apply negb_true_iff. apply H1.
    apply in_or_app. right. left. reflexivity.
  Qed.

  Lemma sortedb_app l1 l2 :
    sortedb lt (l1 ++ l2) = sortedb lt l1 && sortedb lt l2 &&
                            forallb (fun a => forallb (fun b => negb (lt b a)) l2) l1.
  Proof.
    induction l1 as [|a t IH]; simpl.
    - rewrite andb_true_r. reflexivity.
    - rewrite forallb_app, IH.
      destruct (forallb (fun b => negb (lt b a)) t), (sortedb lt t), (sortedb lt l2),
        (forallb (fun b => negb (lt b a)) l2); reflexivity.
  Qed.
End Facts.

Lemma swo_on_flip {A} (P : A -> Prop) (lt : A -> A -> bool) : swo_on P lt -> swo_on P (flip_lt lt).
Proof.
  intros [H1 [H2 H3]]. unfold flip_lt. repeat split.
  - auto.
  - intros a b c Pa Pb Pc Hab Hbc. eauto.
  - destruct (H3 c b a) as [X Y]; auto.
  - destruct (H3 c b a) as [X Y]; auto.
Qed.

Lemma filter_rev' {A} (f : A -> bool) l : filter f (rev l) = rev (filter f l).
Proof.
  induction l as [|a t IH]; simpl; [reflexivity|].
  rewrite filter_app, IH. simpl. destruct (f a); simpl; [reflexivity|apply app_nil_r].
Qed.

Lemma sortedb_rev_flip {A} (lt : A -> A -> bool) s : sortedb (flip_lt lt) s = true -> sortedb lt (rev s) = true.
Proof.
  induction s as [|a t IH]; simpl; intros H; [reflexivity|].
  apply andb_true_iff in H as [H1 H2].
  rewrite sortedb_app. simpl. rewrite (IH H2). simpl.
  apply forallb_forall. intros x Hx. rewrite andb_true_r.
  rewrite forallb_forall in H1. apply in_rev in Hx. exact (H1 x Hx).
Qed.

(* Go's insertion sort (one block of sort.SliceStable) is the stable sort for a strict weak order *)
Theorem go_isort_ssort {A} (P : A -> Prop) (lt : A -> A -> bool) l :
  swo_on P lt -> Forall P l -> go_isort lt l = ssort lt l.
Proof.
  intros Hswo HP. unfold go_isort.
  pose proof (swo_on_flip P lt Hswo) as Hf.
  assert (HPr : Forall P (rev l)).
  { apply Forall_forall. intros x Hx. rewrite Forall_forall in HP. apply HP. apply in_rev. exact Hx. }
  apply (stable_sort_unique_on lt P Hswo); auto.
  - transitivity (rev l); [apply Permutation_rev|].
    transitivity (ssort (flip_lt lt) (rev l)); [symmetry; apply ssort_perm|apply Permutation_rev].
  - apply sortedb_rev_flip. apply (ssort_sorted (flip_lt lt) P Hf). exact HPr.
  - intros z Pz. rewrite filter_rev'.
    rewrite (filter_ext (equivb lt z) (equivb (flip_lt lt) z)).
    2:{ intros a. unfold equivb, flip_lt. apply andb_comm. }
    rewrite (ssort_stable (flip_lt lt) P Hf z (rev l) Pz HPr).
    rewrite filter_rev', rev_involutive.
    apply filter_ext. intros a. unfold equivb, flip_lt. apply andb_comm.
Qed.

(* the headline statements for the whole type (P = True) *)
Theorem stable_sort_unique {A} (lt : A -> A -> bool) :
  swo lt -> forall l l', Permutation l l' -> sortedb lt l' = true ->
  (forall z, filter (equivb lt z) l' = filter (equivb lt z) l) -> l' = ssort lt l.
Proof.
  intros H l l' Hp Hs Hf.
  apply (stable_sort_unique_on lt (fun _ => True) H); auto.
  apply Forall_forall. auto.
Qed.
