(* sortedRequests (sorted_asks.go): after any sequence of insert / remove the slice is sorted by
   (priority descending, creation time ascending) and holds exactly the asks that were inserted
   and not removed.  The insert path is modelled with the real binary search (sort.Search). *)
From Coq Require Import List ZArith NArith Bool Lia Arith Permutation.
From YK Require Import Sort.Sort Sort.SortProofs Sort.Cmp Sort.CmpProofs Sort.Spec.
Import ListNotations.
Open Scope nat_scope.
Set Default Timeout 60.

Local Notation ab := askBefore.
Lemma ab_negtrans a b c : ab a b = false -> ab b c = false -> ab a c = false.
Proof. apply (swo_negtrans ab (fun _ => True) swo_askBefore); exact I. Qed.
Lemma ab_asym a b : ab a b = true -> ab b a = false.
Proof. apply (swo_asym ab (fun _ => True) swo_askBefore); exact I. Qed.

(* ---- sort.Search ---- *)
Lemma search_go_spec (f : nat -> bool) (n : nat) :
  (forall h k, h <= k -> k < n -> f h = true -> f k = true) ->
  forall fuel i j, j - i < fuel -> i <= j -> j <= n ->
    (forall k, k < i -> f k = false) -> (forall k, j <= k -> k < n -> f k = true) ->
    let r := search_go fuel f i j in
    r <= n /\ (forall k, k < r -> f k = false) /\ (forall k, r <= k -> k < n -> f k = true).
Proof.
  intros Hmono. induction fuel as [|fu IH]; intros i j Hf Hij Hjn Hlo Hhi; [lia|].
  cbn [search_go]. cbv zeta. destruct (Nat.ltb_spec i j) as [Hlt|Hge].
  - assert (Hh1 : i <= Nat.div (i + j) 2) by (apply Nat.div_le_lower_bound; lia).
    assert (Hh2 : Nat.div (i + j) 2 < j) by (apply Nat.div_lt_upper_bound; lia).
    remember (Nat.div (i + j) 2) as h eqn:Eh. clear Eh.
    destruct (f h) eqn:Fh.
    + apply IH; try lia; auto.
      intros k Hk Hkn. apply (Hmono h); auto.
    + apply IH; try lia; auto.
      intros k Hk. destruct (f k) eqn:Fk; auto.
      rewrite (Hmono k h) in Fh; [discriminate|lia|lia|exact Fk].
  - assert (i = j) by lia. subst. repeat split; auto.
Qed.

(* ---- sortedness is kept ---- *)
Lemma sortedb_forall (s : list ask) :
  sortedb ab s = true <-> (forall i j, i < j -> j < length s -> ab (nth j s dummyAsk) (nth i s dummyAsk) = false).
Proof.
  induction s as [|a t IH]; simpl.
  - split; auto. intros _ i j _ H. lia.
  - rewrite andb_true_iff, IH, forallb_forall. split.
    + intros [H1 H2] i j Hij Hj. destruct j as [|j]; [lia|]. destruct i as [|i].
      * apply negb_true_iff, H1, nth_In. lia.
      * apply H2; lia.
    + intros H. split.
      * intros x Hx. apply (In_nth _ _ dummyAsk) in Hx as [j [Hj Ej]].
        specialize (H 0 (S j) ltac:(lia) ltac:(lia)). simpl in H. rewrite Ej in H. rewrite H. reflexivity.
      * intros i j Hij Hj. apply (H (S i) (S j)); lia.
Qed.

Lemma sortedb_In_tail a t x : sortedb ab (a :: t) = true -> In x t -> ab x a = false.
Proof.
  simpl. rewrite andb_true_iff, forallb_forall. intros [H _] Hx. apply negb_true_iff, H, Hx.
Qed.

Lemma sorted_insert_at (s1 s2 : list ask) (a : ask) :
  sortedb ab (s1 ++ s2) = true ->
  (forall x, In x s1 -> ab a x = false) -> (forall x, In x s2 -> ab x a = false) ->
  sortedb ab (s1 ++ a :: s2) = true.
Proof.
  rewrite !sortedb_app. simpl. intros H H1 H2.
  apply andb_true_iff in H as [H Hc]. apply andb_true_iff in H as [Hs1 Hs2].
  rewrite Hs1, Hs2. simpl. rewrite andb_true_r.
  apply andb_true_iff. split.
  - apply forallb_forall. intros x Hx. rewrite (H2 x Hx). reflexivity.
  - apply forallb_forall. intros x Hx. rewrite (H1 x Hx). simpl.
    rewrite forallb_forall in Hc. apply (Hc x Hx).
Qed.

Lemma nth_firstn_lt {A} (l : list A) : forall i n d, i < n -> nth i (firstn n l) d = nth i l d.
Proof.
  induction l as [|a t IH]; intros i n d H; destruct n, i; simpl; try reflexivity; try lia.
  apply IH. lia.
Qed.
Lemma nth_skipn_add {A} (l : list A) : forall i n d, nth i (skipn n l) d = nth (n + i) l d.
Proof.
  induction l as [|a t IH]; intros i n d; destruct n; simpl; try reflexivity.
  - destruct i; reflexivity.
  - apply IH.
Qed.

Lemma insertAt_split {A} i (x : A) l : insertAt i x l = firstn i l ++ x :: skipn i l.
Proof. reflexivity. Qed.

Lemma req_insert_sorted a s : req_sorted s = true -> req_sorted (req_insert a s) = true.
Proof.
  unfold req_sorted, req_insert. intros Hs.
  destruct (Nat.ltb 0 (length s) && LessThan a (nth (length s - 1) s dummyAsk)) eqn:Fast.
  - (* fast path: append *)
    apply andb_true_iff in Fast as [Hlen Hl]. apply Nat.ltb_lt in Hlen.
    rewrite LessThan_askBefore in Hl. apply negb_true_iff in Hl.
    rewrite insertAt_split, firstn_all, skipn_all.
    apply sorted_insert_at; [rewrite app_nil_r; exact Hs| |intros x []].
    intros x Hx. apply (In_nth _ _ dummyAsk) in Hx as [i [Hi Ei]]. subst x.
    destruct (Nat.eq_dec i (length s - 1)) as [->|Hne]; [exact Hl|].
    apply (ab_negtrans a (nth (length s - 1) s dummyAsk)); [exact Hl|].
    apply (proj1 (sortedb_forall s) Hs); lia.
  - (* binary search *)
    clear Fast.
    set (f := fun i => LessThan (nth i s dummyAsk) a).
    assert (Hmono : forall h k, h <= k -> k < length s -> f h = true -> f k = true).
    { intros h k Hhk Hk. unfold f. rewrite !LessThan_askBefore, !negb_true_iff. intros Fh.
      destruct (Nat.eq_dec h k) as [->|Hne]; [exact Fh|].
      apply (ab_negtrans _ (nth h s dummyAsk)); [|exact Fh].
      apply (proj1 (sortedb_forall s) Hs); lia. }
    destruct (search_go_spec f (length s) Hmono (S (length s)) 0 (length s)) as [Hr [Hlo Hhi]]; try lia.
    set (r := search_go (S (length s)) f 0 (length s)) in *.
    rewrite insertAt_split. apply sorted_insert_at; [rewrite firstn_skipn; exact Hs| |].
    + intros x Hx. apply (In_nth _ _ dummyAsk) in Hx as [i [Hi Ei]].
      rewrite firstn_length in Hi. rewrite nth_firstn_lt in Ei by lia.
      assert (Hir : i < r) by lia. subst x.
      specialize (Hlo i Hir). unfold f in Hlo. rewrite LessThan_askBefore in Hlo.
      apply negb_false_iff in Hlo. apply ab_asym. exact Hlo.
    + intros x Hx. apply (In_nth _ _ dummyAsk) in Hx as [i [Hi Ei]].
      rewrite skipn_length in Hi. rewrite nth_skipn_add in Ei. subst x.
      specialize (Hhi (r + i) ltac:(lia) ltac:(lia)). unfold f in Hhi.
      rewrite LessThan_askBefore in Hhi. apply negb_true_iff in Hhi. exact Hhi.
Qed.

Lemma forallb_req_remove (f : ask -> bool) k s : forallb f s = true -> forallb f (req_remove k s) = true.
Proof.
  induction s as [|a t IH]; simpl; auto. intros H. apply andb_true_iff in H as [H1 H2].
  destruct (N.eqb (k_id a) k); auto. simpl. rewrite H1. auto.
Qed.
Lemma req_remove_sorted k s : req_sorted s = true -> req_sorted (req_remove k s) = true.
Proof.
  unfold req_sorted. induction s as [|a t IH]; simpl; auto. intros H. apply andb_true_iff in H as [H1 H2].
  destruct (N.eqb (k_id a) k); auto. simpl. rewrite (forallb_req_remove _ k t H1). auto.
Qed.

Lemma req_step_sorted s o : req_sorted s = true -> req_sorted (req_step s o) = true.
Proof. destruct o; simpl; auto using req_insert_sorted, req_remove_sorted. Qed.

(* ---- content ---- *)
Lemma insertAt_perm {A} i (x : A) l : Permutation (insertAt i x l) (x :: l).
Proof.
  rewrite insertAt_split. rewrite <- (firstn_skipn i l) at 3.
  symmetry. apply Permutation_middle.
Qed.
Lemma req_insert_perm a s : Permutation (req_insert a s) (a :: s).
Proof. unfold req_insert. destruct (_ && _); apply insertAt_perm. Qed.

Lemma filter_all {A} (f : A -> bool) l : forallb f l = true -> filter f l = l.
Proof.
  induction l as [|a t IH]; simpl; auto. intros H. apply andb_true_iff in H as [H1 H2].
  rewrite H1, IH; auto.
Qed.
Definition key_is (k : N) (a : ask) : bool := N.eqb (k_id a) k.
Lemma req_remove_filter k s : NoDup (map k_id s) -> req_remove k s = filter (fun a => negb (key_is k a)) s.
Proof.
  induction s as [|a t IH]; simpl; auto. intros H. inversion H as [|? ? Hn Ht]; subst.
  unfold key_is at 1. destruct (N.eqb_spec (k_id a) k) as [E|E]; simpl.
  - symmetry. apply filter_all. apply forallb_forall. intros x Hx.
    unfold key_is. destruct (N.eqb_spec (k_id x) k) as [E2|E2]; [|reflexivity].
    exfalso. apply Hn. rewrite E, <- E2. apply in_map. exact Hx.
  - f_equal. apply IH. exact Ht.
Qed.
Lemma filter_perm {A} (f : A -> bool) l l' : Permutation l l' -> Permutation (filter f l) (filter f l').
Proof.
  induction 1; simpl.
  - constructor.
  - destruct (f x); auto.
  - destruct (f x), (f y); auto. apply perm_swap.
  - etransitivity; eauto.
Qed.
Lemma NoDup_keys_perm s s' : Permutation s s' -> NoDup (map k_id s) -> NoDup (map k_id s').
Proof. intros P. apply Permutation_NoDup. apply Permutation_map. exact P. Qed.
Lemma NoDup_filter_keys (f : ask -> bool) s : NoDup (map k_id s) -> NoDup (map k_id (filter f s)).
Proof.
  induction s as [|a t IH]; simpl; auto. intros H. inversion H as [|? ? Hn Ht]; subst.
  destruct (f a); simpl; auto. constructor; auto.
  intros I. apply Hn. apply in_map_iff in I as [x [E Hx]]. apply filter_In in Hx as [Hx _].
  rewrite <- E. apply in_map. exact Hx.
Qed.

Lemma req_content ops : forall s sp,
  Permutation s sp -> NoDup (map k_id sp) -> wf_req sp ops = true ->
  Permutation (fold_left req_step ops s) (fold_left spec_step ops sp) /\ NoDup (map k_id (fold_left spec_step ops sp)).
Proof.
  induction ops as [|o t IH]; intros s sp Hp Hn Hwf; simpl; [auto|].
  simpl in Hwf. apply andb_true_iff in Hwf as [Hw1 Hw2].
  apply IH; auto.
  - destruct o as [a|k]; simpl.
    + rewrite req_insert_perm. constructor. exact Hp.
    + rewrite (req_remove_filter k s), (req_remove_filter k sp); auto.
      * apply filter_perm. exact Hp.
      * apply (NoDup_keys_perm sp s); auto. symmetry. exact Hp.
  - destruct o as [a|k]; simpl.
    + constructor; auto. simpl in Hw1. apply negb_true_iff in Hw1.
      intros I. apply in_map_iff in I as [x [E Hx]].
      assert (existsb (fun x => N.eqb (k_id x) (k_id a)) sp = true) as X.
      { apply existsb_exists. exists x. split; auto. rewrite E. apply N.eqb_refl. }
      congruence.
    + rewrite (req_remove_filter k sp); auto. apply NoDup_filter_keys. exact Hn.
Qed.

Lemma req_sorted_run ops : forall s, req_sorted s = true -> req_sorted (fold_left req_step ops s) = true.
Proof. induction ops as [|o t IH]; intros s H; simpl; auto using req_step_sorted. Qed.

Theorem sorted_requests_inv (ops : list req_op) :
  req_sorted (req_run ops) = true /\ (wf_req [] ops = true ->
   Permutation (req_run ops) (spec_asks ops) /\ NoDup (map k_id (req_run ops))).
Proof.
  split.
  - apply req_sorted_run. reflexivity.
  - intros Hwf. destruct (req_content ops [] [] (perm_nil _) (NoDup_nil _) Hwf) as [Hp Hn].
    split; [exact Hp|]. apply (NoDup_keys_perm (spec_asks ops)); auto. symmetry. exact Hp.
Qed.

(* the hypotheses are satisfiable on a non-trivial history (fast path, slow path, removal) *)
Example sorted_requests_example :
  let ops := [RIns (mkAsk 1 0 10); RIns (mkAsk 2 0 20); RIns (mkAsk 3 5 30); RIns (mkAsk 4 0 5); RRem 2; RIns (mkAsk 5 5 30)] in
  wf_req [] ops = true /\ map k_id (req_run ops) = [5; 3; 4; 1]%N.
Proof. vm_compute. auto. Qed.
