(* Property level statements for C19 about the sorters: permutation invariance. *)
From Coq Require Import List ZArith NArith Bool Lia Permutation Floats.SpecFloat.
From YK Require Import Base.Int64 Base.F64 Base.Res Sort.Sort Sort.SortProofs Sort.Cmp Sort.CmpProofs
  Sort.ShareProofs Sort.Spec.
Import ListNotations.
Set Default Timeout 60.

(* for a strict weak order, whatever permutation of the candidates is presented, every pair the
   order distinguishes comes out in the same relative order *)
Theorem perm_invariant_on {A} (P : A -> Prop) (lt : A -> A -> bool) :
  swo_on P lt -> forall l l' a b, Forall P l -> Permutation l l' ->
  In a l -> In b l -> lt a b = true -> precedes a b (ssort lt l').
Proof.
  intros Hswo l l' a b HP Hp Ia Ib Hab.
  assert (HP' : Forall P l') by (eapply Permutation_Forall; eauto).
  assert (Hs : Permutation l (ssort lt l')).
  { rewrite Hp. symmetry. apply ssort_perm. }
  repeat split.
  - apply (Permutation_in _ Hs Ia).
  - apply (Permutation_in _ Hs Ib).
  - intros [s1 [s2 [s3 E]]].
    pose proof (ssort_sorted lt P Hswo l' HP') as S. rewrite E in S.
    apply sortedb_no_inversion in S. congruence.
Qed.
Theorem perm_invariant {A} (lt : A -> A -> bool) :
  swo lt -> forall l l' a b, Permutation l l' -> In a l -> In b l -> lt a b = true ->
  precedes a b (ssort lt l').
Proof.
  intros H l l' a b. apply (perm_invariant_on (fun _ => True) lt H). apply Forall_forall. auto.
Qed.
(* the executable form used by the oracle *)
Theorem perm_respects {A} (P : A -> Prop) (lt : A -> A -> bool) :
  swo_on P lt -> forall l l', Forall P l -> Permutation l l' -> respects lt (ssort lt l') = true.
Proof.
  intros Hswo l l' HP Hp. apply (ssort_sorted lt P Hswo). eapply Permutation_Forall; eauto.
Qed.

(* ---- the sorters as the code runs them (sort.SliceStable, n <= 20: one insertion block) ---- *)
Theorem sortApps_is_ssort which g l :
  (which <? 4)%N = true -> Forall (fun a => app_ok which g a = true) l ->
  sortApps which g l = ssort (app_lt which g) l.
Proof.
  intros Hw HP. unfold sortApps. rewrite Hw.
  apply (go_isort_ssort _ _ l (swo_app which g) HP).
Qed.
Theorem sortApps_perm_invariant which g l l' a b :
  (which <? 4)%N = true -> Forall (fun a => app_ok which g a = true) l -> Permutation l l' ->
  In a l -> In b l -> app_lt which g a b = true -> precedes a b (sortApps which g l').
Proof.
  intros Hw HP Hp Ia Ib Hab.
  rewrite sortApps_is_ssort; auto; [|eapply Permutation_Forall; eauto].
  apply (perm_invariant_on _ _ (swo_app which g) l l'); auto.
Qed.

Theorem sortQueue_prio_perm_invariant st l l' a b :
  N.eqb st 1 = false -> Permutation l l' -> In a l -> In b l -> qByPrio a b = true ->
  precedes a b (sortQueue st true l').
Proof.
  intros Hst Hp Ia Ib Hab. unfold sortQueue. rewrite Hst.
  rewrite (go_isort_ssort (fun _ => True) qByPrio l' swo_qByPrio); [|apply Forall_forall; auto].
  apply (perm_invariant qByPrio swo_qByPrio l l'); auto.
Qed.

(* ---- fair queue sort: the part of the order that survives the broken tie-break ----
   Insertion with a comparator [lt] that refines a strict weak order [klt] (klt a b -> lt a b,
   lt a b -> not klt b a) keeps the list sorted for [klt], whatever else [lt] does. *)
Section Coarse.
  Context {A : Type}.
  Variables (P : A -> Prop) (klt lt : A -> A -> bool).
  Hypothesis Hk : swo_on P klt.
  Hypothesis Hsub : forall a b, P a -> P b -> klt a b = true -> lt a b = true.
  Hypothesis Hcompat : forall a b, P a -> P b -> lt a b = true -> klt b a = false.

  Lemma insert_sorted_coarse x l : P x -> Forall P l -> sortedb klt l = true -> sortedb klt (insert lt x l) = true.
  Proof.
    intros Px. induction l as [|y t IH]; intros HP Hs; simpl; [reflexivity|].
    inversion HP as [|? ? Py HPt]; subst.
    simpl in Hs. apply andb_true_iff in Hs as [Hy Ht].
    destruct (lt y x) eqn:Hyx; simpl.
    - rewrite forallb_insert, Hy, (IH HPt Ht), (Hcompat y x Py Px Hyx). reflexivity.
    - assert (klt y x = false) as Kyx.
      { destruct (klt y x) eqn:E; auto. rewrite (Hsub y x Py Px E) in Hyx. discriminate. }
      rewrite Kyx, Hy, Ht. simpl. rewrite andb_true_r.
      apply forallb_forall. intros z Hz.
      rewrite forallb_forall in Hy. specialize (Hy z Hz). apply negb_true_iff in Hy.
      rewrite Forall_forall in HPt.
      rewrite (swo_negtrans klt P Hk z y x (HPt z Hz) Py Px Hy Kyx). reflexivity.
  Qed.
  Lemma ssort_sorted_coarse l : Forall P l -> sortedb klt (ssort lt l) = true /\ Forall P (ssort lt l).
  Proof.
    induction l as [|x t IH]; intros HP; [split; [reflexivity|constructor]|].
    inversion HP; subst. destruct (IH H2) as [S F].
    change (ssort lt (x :: t)) with (insert lt x (ssort lt t)). split.
    - apply insert_sorted_coarse; auto.
    - eapply Permutation_Forall; [symmetry; apply insert_perm|]. constructor; auto.
  Qed.
End Coarse.

Lemma go_isort_sorted_coarse {A} (P : A -> Prop) (klt lt : A -> A -> bool) l :
  swo_on P klt -> (forall a b, P a -> P b -> klt a b = true -> lt a b = true) ->
  (forall a b, P a -> P b -> lt a b = true -> klt b a = false) ->
  Forall P l -> sortedb klt (go_isort lt l) = true.
Proof.
  intros Hk H1 H2 HP. unfold go_isort. apply sortedb_rev_flip.
  apply (ssort_sorted_coarse P (flip_lt klt) (flip_lt lt)).
  - apply swo_on_flip. exact Hk.
  - unfold flip_lt. auto.
  - unfold flip_lt. auto.
  - apply Forall_forall. intros x Hx. rewrite Forall_forall in HP. apply HP, in_rev, Hx.
Qed.

Lemma comp_cases (l r : f64) : not_nan l -> not_nan r ->
  let comp := if f_gtb l r then 1%Z else if f_ltb l r then (-1)%Z else 0%Z in
  (f_ltb l r = true -> comp = (-1)%Z) /\ ((comp <? 0)%Z = true -> f_ltb r l = false) /\
  (comp = 0%Z -> f_ltb r l = false /\ f_ltb l r = false).
Proof.
  intros Nl Nr. unfold f_gtb. change (SFltb r l) with (f_ltb r l). cbv zeta.
  destruct (f_ltb r l) eqn:E1, (f_ltb l r) eqn:E2; repeat split; try discriminate; auto.
  rewrite (fl_asym r l Nr Nl E1) in E2. discriminate.
Qed.

Lemma queue_lt_refines st cp a b :
  (queue_keys_lt st cp a b = true -> queue_lt st cp a b = true) /\
  (queue_lt st cp a b = true -> queue_keys_lt st cp b a = false).
Proof.
  unfold queue_keys_lt, queue_lt.
  pose proof (getFairShare_not_nan (q_alloc a) (q_guar a) (q_fmax a)) as Na.
  pose proof (getFairShare_not_nan (q_alloc b) (q_guar b) (q_fmax b)) as Nb.
  destruct (N.eqb st 1); [|destruct cp; [|split; [discriminate|reflexivity]]].
  - destruct cp.
    + unfold qPrioFairKeys, qPrioFair, qPrioFairX, CompUsageRatioSeparately, qshare.
      destruct (comp_cases _ _ Na Nb) as [C1 [C2 C3]]. cbv zeta in *.
      set (comp := if f_gtb _ _ then 1%Z else if f_ltb _ _ then (-1)%Z else 0%Z) in *.
      destruct (Z.ltb_spec (qprio b) (qprio a)), (Z.ltb_spec (qprio a) (qprio b)); try lia;
        split; try reflexivity; try discriminate.
      * intros HH. rewrite (C1 HH). reflexivity.
      * destruct (Z.eqb_spec comp 0) as [E|E]; [intros _; apply (C3 E)|intros HH; apply C2, HH].
    + unfold qFairPrioKeys, qFairPrio, qFairPrioX, CompUsageRatioSeparately, qshare.
      destruct (comp_cases _ _ Na Nb) as [C1 [C2 C3]]. cbv zeta in *.
      set (comp := if f_gtb _ _ then 1%Z else if f_ltb _ _ then (-1)%Z else 0%Z) in *.
      set (ls := getFairShare (q_alloc a) (q_guar a) (q_fmax a)) in *.
      set (rs := getFairShare (q_alloc b) (q_guar b) (q_fmax b)) in *.
      split.
      * destruct (f_ltb ls rs) eqn:E1; [intros _; rewrite (C1 eq_refl); reflexivity|].
        destruct (f_ltb rs ls) eqn:E2; [discriminate|].
        intros HH. assert (comp = 0%Z) as ->.
        { unfold comp, f_gtb. change (SFltb rs ls) with (f_ltb rs ls). rewrite ?E2, ?E1. reflexivity. }
        simpl. rewrite HH. reflexivity.
      * destruct (Z.eqb_spec comp 0) as [E|E].
        { destruct (C3 E) as [X Y]. rewrite X, Y.
          destruct (Z.ltb_spec (qprio b) (qprio a)), (Z.ltb_spec (qprio a) (qprio b)); try lia; auto; discriminate. }
        intros HH. rewrite (C2 HH).
        destruct (f_ltb ls rs) eqn:E1; [reflexivity|].
        exfalso. Show.
Abort.
