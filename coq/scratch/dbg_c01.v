(* C02 at the level of scheduler steps: a scheduling decision the model accepts leaves every ancestor of the
   application's queue within its maximum on the requested types (the oracle [queue_max_ok_after]), and usage above a
   maximum appears only in steps the oracle classifies as forced changes ([forced_queue_change] of Oracles/CoreC01.v). *)
From Coq Require Import List ZArith NArith Bool Lia ZifyBool.
From YK Require Import Base.Int64 Base.Int64Laws Base.Res Base.ResSpec Base.ResLemmas Base.ResLaws Base.ResLaws2
  Base.ResLawsPred Core.Obs Core.Model Core.Ledger Core.NodeProofs Core.QueueProofs Core.StepProofs Oracles.CoreC01.
Import ListNotations.
Open Scope Z_scope.

Ltac sm := unfold small, lim, in_range, MIN, MAX in *; lia.

Lemma sgtz_positive r : StrictlyGreaterThanZero (Some r) = true -> has_positive r.
Proof. unfold StrictlyGreaterThanZero. rewrite andb_true_iff. intros [_ H]. apply existsb_exists in H.
  destruct H as ([k v] & Hin & Hv). exists k, v. cbn [snd] in Hv. split; [assumption|lia]. Qed.

(* C02.9 *)
Theorem sched_queue_max_ok deny s a k nid s' : m_sched_alloc deny s a k nid = Some s' -> In a (s_apps s) ->
  SInv s -> Bounded s -> PathOK s (ap_queue a) ->
  exists ask, find_alloc (ap_requests a) k = Some ask /\ queue_max_ok_after s' (ap_queue a) (oa_res ask) = true.
Proof. intros H Hina HI HB HP.
  destruct (m_sched_alloc_inv _ _ _ _ _ _ H) as (ask & n & n' & s1 & a2 & Eask & En & _ & _ & _ & _ & _ & Eg & _ & Etry & _ & _ & _ & (g & Eq & Hg)).
  exists ask. split; [assumption|]. destruct (find_alloc_some _ _ _ Eask) as [Hask Ek].
  assert (Rk : req_ok ask) by (eapply (si_reqs _ HI); eassumption). destruct Rk as [Wr _].
  assert (Sr : rsmall (oa_res ask)) by (eapply (bd_reqs _ HB); eassumption).
  rewrite (queue_max_ok_after_map s1 s' g _ _ Eq Hg). eapply q_try_inc_sound; try eassumption.
  apply sgtz_positive. unfold m_node_guard in Eg. rewrite !andb_true_iff in Eg. tauto. Qed.

(* ------------------------------------------------------------------ C02.10 *)
Record QInv (s : ostate) : Prop := mkQI {
  qi_wf : forall q, In q (s_queues s) -> wf (q_alloc q);
  qi_max : forall q, In q (s_queues s) -> max_nonneg q;
  qi_allocs : forall a x, In a (s_apps s) -> In x (ap_allocs a) -> wf (oa_res x) /\ rsmall (oa_res x) }.

Lemma find_queue_same s s' id : s_queues s' = s_queues s -> find_queue s' id = find_queue s id.
Proof. unfold find_queue. intros ->. reflexivity. Qed.

Lemma find_queue_limits s s' g id q0 q1 : s_queues s' = map g (s_queues s) -> limits_same g ->
  find_queue s id = Some q0 -> find_queue s' id = Some q1 -> forall k, over_max_at q1 k = over_max_at q0 k.
Proof. intros Eq Hg E0 E1 k. rewrite (find_queue_map s s' g Eq (fun q => proj1 (Hg q))), E0 in E1. cbn [option_map] in E1.
  inversion E1; subst q1. destruct (Hg q0) as (_ & _ & Em & Ea). apply over_max_at_ext; assumption. Qed.

(* updatePartitionResource touches the root maximum only *)
Lemma part_update_total_queue s d id q0 q1 : find_queue s id = Some q0 -> find_queue (part_update_total s d) id = Some q1 ->
  (q_parent q1 =? 0)%N = false -> q1 = q0.
Proof. intros E0 E1 Hp. unfold part_update_total in E1.
  rewrite (find_queue_map (set_total s (Some (Prune match s_total s with Some t0 => addTo t0 d | None => d end))) _
             (fun q => if (q_parent q =? 0)%N then q_with q (Some (Prune match s_total s with Some t0 => addTo t0 d | None => d end)) (q_alloc q) (q_pending q) else q)) in E1.
  - change (find_queue (set_total s _) id) with (find_queue s id) in E1. rewrite E0 in E1. cbn [option_map] in E1.
    inversion E1 as [E]. destruct (q_parent q0 =? 0)%N eqn:Ep; [|reflexivity]. subst q1. cbn [q_with q_parent] in Hp. congruence.
  - reflexivity.
  - intros q. destruct (q_parent q =? 0)%N; reflexivity. Qed.

Definition q_minus (r : res) (q : oqueue) : oqueue := q_with q (q_max q) (Prune (Sub (Some (q_alloc q)) (Some r))) (q_pending q).
Lemma q_minus_not_over q r k : wf (q_alloc q) -> wf r -> rsmall (q_alloc q) -> rsmall r -> res_nonnegP r ->
  over_max_at q k = false -> over_max_at (q_minus r q) k = false.
Proof. intros Wa Wr Sa Sr Nr H. unfold over_max_at, q_minus in *. cbn [q_with q_max q_alloc].
  destruct (q_max q) as [m|]; [|reflexivity]. destruct (get m k) as [l|]; [|reflexivity].
  cbn [Sub oget]. rewrite Prune_getz by (apply subFrom_wf; assumption). specialize (Sa k); specialize (Sr k); specialize (Nr k).
  rewrite subFrom_getz; try assumption; try sm. Qed.

Lemma q_dec_queue s leaf r id q0 q1 : find_queue s id = Some q0 -> find_queue (q_dec s leaf r) id = Some q1 ->
  q1 = q0 \/ q1 = q_minus r q0.
Proof. unfold q_dec. intros E0 E1. destruct (forallb _ _); [|left; congruence].
  rewrite (find_queue_map s _ (on_path_fn s leaf (q_minus r))) in E1.
  - rewrite E0 in E1. cbn [option_map] in E1. inversion E1. unfold on_path_fn. destruct (memN _ _); auto.
  - reflexivity.
  - intros q. unfold on_path_fn. destruct (memN _ _); reflexivity. Qed.

Theorem over_max_only_forced deny s st s' id q0 q1 k : m_step deny s st = Some s' ->
  SInv s -> Bounded s -> QInv s ->
  find_queue s id = Some q0 -> find_queue s' id = Some q1 -> over_max_at q0 k = false -> over_max_at q1 k = true ->
  forced_queue_change (q_parent q1 =? 0)%N (st_op st) = true.
Proof. unfold m_step. intros H HI HB HQ E0 E1 H0 H1.
  assert (Same : s_queues s' = s_queues s -> forced_queue_change (q_parent q1 =? 0)%N (st_op st) = true).
  { intros Eq. rewrite (find_queue_same _ _ _ Eq) in E1. congruence. }
  assert (Lim : forall s0 g, s_queues s0 = s_queues s -> s_queues s' = map g (s_queues s0) -> limits_same g ->
                             forced_queue_change (q_parent q1 =? 0)%N (st_op st) = true).
  { intros s0 g Eq0 Eq Hg. rewrite <- (find_queue_same _ _ id Eq0) in E0.
    rewrite (find_queue_limits s0 s' g id q0 q1 Eq Hg E0 E1 k) in H1. congruence. }
  destruct (st_panic st); [discriminate|]. revert H Same Lim.
  destruct (st_op st) as [nid cap drain|nid cap|nid|nid|nid| | |r|app key ttype| | | | |]; intros H Same Lim; try discriminate;
    cbn [forced_queue_change] in *; try reflexivity.
  - unfold m_node_add in H. destruct (find_node s nid); apply Some_inj in H; subst s'; [apply Same; reflexivity|].
    destruct (q_parent q1 =? 0)%N eqn:Ep; [reflexivity|]. exfalso.
    change (find_queue (part_update_total (set_nodes s (s_nodes s ++ [new_node nid cap drain])) cap) id = Some q1) in E1.
    apply (part_update_total_queue _ _ _ q0) in E1; [congruence|exact E0|exact Ep].
  - unfold m_node_update in H. destruct (find_node s nid) as [n|]; [|apply Some_inj in H; subst s'; apply Same; reflexivity].
    destruct cap as [c|]; [|apply Some_inj in H; subst s'; apply Same; reflexivity].
    destruct (n_set_capacity n c) as [n' [d|]]; apply Some_inj in H; subst s'; [|apply Same; reflexivity].
    destruct (q_parent q1 =? 0)%N eqn:Ep; [reflexivity|]. exfalso.
    apply (part_update_total_queue _ _ _ q0) in E1; [congruence|exact E0|exact Ep].
  - unfold m_node_sched in H. apply Some_inj in H; subst s'. apply Same; reflexivity.
  - unfold m_node_sched in H. apply Some_inj in H; subst s'. apply Same; reflexivity.
  - unfold m_release in H. destruct (app =? 0)%N.
    + destruct (find_alloc (s_foreign s) key) as [f|]; apply Some_inj in H; subst s'; [|apply Same; reflexivity].
      destruct (find_node _ (oa_node f)); apply Same; reflexivity.
    + destruct (find_app s app) as [a|] eqn:Eapp; [|apply Some_inj in H; subst s'; apply Same; reflexivity].
      destruct (find_app_some _ _ _ Eapp) as [Hina _].
      destruct ((key =? 0)%N || (ttype =? TT_PlaceholderReplaced)%N); [discriminate|].
      destruct (find_alloc (ap_allocs a) key) as [x|] eqn:Ex.
      * unfold m_release_alloc in H.
        destruct (oa_ph x || negb (oa_release x =? 0)%N || negb match ap_reservations a with [] => true | _ => false end); [discriminate|].
        destruct (find_node s (oa_node x)) as [n|]; [|discriminate]. apply Some_inj in H; subst s'.
        destruct (StrictlyGreaterThanZero (Some (oa_res x))) eqn:Epos; [|apply Same; reflexivity]. exfalso.
        destruct (find_alloc_some _ _ _ Ex) as [Hx _]. destruct (qi_allocs _ HQ a x Hina Hx) as [Wx Sx].
        destruct (find_queue_some _ _ _ E0) as [Hq0 _].
        cbn [add_counts] in E1. Set Printing Depth 16. match type of E1 with ?T => idtac T end.
Abort.
