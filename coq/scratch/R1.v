From Coq Require Import List NArith Bool Lia ZifyN ZifyNat ZifyBool PeanoNat.
From YK Require Import Events.Ring Events.RingSpec Events.RingLemmas Events.RingProofs.
Import ListNotations.
Open Scope N_scope.
Set Default Timeout 60.

Lemma resize_inv r n k :
  Inv r n -> size_ok k ->
  exists r', resize r k = Ok r' /\ Inv r' n /\ abs r' = fst (spec_step (abs r) (RResize k)).
Proof.
  intros I [Hk Hkm].
  unfold resize. destruct (N.eqb_spec k (capacity r)) as [->|Hne].
  { exists r. split; [reflexivity|]. split; [exact I|].
    destruct I. unfold abs, spec_step. cbn [h_n h_ret h_cap fst]. f_equal. lia. }
  destruct I as [Hc Hcm Hlen Hrid Hnw Hol Hlr Hret Hfull Hlf Hlnf Hhead Hev].
  destruct r as [evs cap hd fl id low off].
  cbn [events capacity head full rid lowestId resizeOffset] in *.
  pose proof MAXLEN_W64 as HM. subst id.
  pose proof (mod_lt' (n - off) cap Hc) as Hhd. rewrite <- Hhead in Hhd.
  destruct (N.eqb_spec cap 0) as [Hx|_]; [lia|].
  rewrite (make_len_ok k Hkm).
  unfold updateLowestID. cbn [events capacity head full rid lowestId resizeOffset].
  rewrite (sub64_small n low) by lia.
  rewrite (add64_small hd cap) by lia.
  set (m := N.min (n - low) k).
  assert (Hm1 : m <= cap) by lia. assert (Hm2 : m <= k) by lia. assert (Hm3 : m <= n - low) by lia.
  rewrite (sub64_small (hd + cap) m) by lia.
  assert (Hsi : (hd + cap - m) mod cap = (n - m - off) mod cap).
  { rewrite Hhead. replace (n - off) with ((n - m - off) + m) by lia.
    rewrite mod_head_back by lia. reflexivity. }
  set (si := (hd + cap - m) mod cap) in *.
  assert (Hsi_lt : si < cap) by (apply mod_lt'; exact Hc).
  rewrite (add64_small si m) by lia.
  set (ei := sub64 (si + m) 1 mod cap).
  assert (Hei_lt : ei < cap) by (apply mod_lt'; exact Hc).
  rewrite (add64_small ei 1) by lia.
  rewrite (sub64_small cap si) by lia.
  set (new := repeat None (N.to_nat k)).
  assert (Hnew : length new = N.to_nat k) by apply repeat_length.
  assert (Hold : forall j, j < m ->
            nth (N.to_nat ((n - m - off + j) mod cap)) evs None = Some (n - m + j)).
  { intros j Hj. replace (n - m - off + j) with (n - m + j - off) by lia. apply Hev; lia. }
  set (copied := if si <=? ei then _ else _).
  assert (Hcopied : exists out, copied = Ok out /\ length out = N.to_nat k /\
            forall j, j < m -> nth (N.to_nat j) out None = Some (n - m + j)).
  { subst copied. destruct (N.eq_dec m 0) as [Hm0|Hm0].
    - (* empty buffer: nothing to copy *)
      assert (Hsi0 : si = 0).
      { rewrite Hsi. destruct fl; [specialize (Hlf eq_refl)|specialize (Hlnf eq_refl)].
        - lia.
        - replace (n - m - off) with 0 by lia. apply N.mod_0_l. lia. }
      destruct (N.leb_spec si ei) as [_|Hx]; [|lia].
      rewrite slice_ok by lia.
      eexists; split; [reflexivity|]. split; [rewrite length_copy_into; exact Hnew|].
      intros j Hj. lia.
    - assert (Hei : ei = (si + m - 1) mod cap).
      { subst ei. rewrite sub64_small by lia. reflexivity. }
      destruct (N.lt_ge_cases (si + m - 1) cap) as [Hw|Hw].
      + (* one contiguous range *)
        rewrite N.mod_small in Hei by exact Hw.
        destruct (N.leb_spec si ei) as [_|Hx]; [|lia].
        rewrite slice_ok by lia.
        eexists; split; [reflexivity|]. split; [rewrite length_copy_into; exact Hnew|].
        intros j Hj.
        rewrite nth_copy_lt; [| lia | rewrite length_subl by lia; lia].
        rewrite nth_subl by lia.
        rewrite <- (Hold j Hj). f_equal.
        rewrite mod_add_small by lia. lia.
      + (* wrapped: two ranges *)
        assert (Hei' : ei = si + m - 1 - cap).
        { rewrite Hei. symmetry. apply N.mod_unique with (q := 1); lia. }
        destruct (N.leb_spec si ei) as [Hx|_]; [lia|].
        rewrite !slice_ok by lia.
        rewrite length_copy_into.
        destruct (N.ltb_spec (N.of_nat (length new)) (cap - si)) as [Hx|_]; [lia|].
        eexists; split; [reflexivity|].
        split; [rewrite length_copy2; rewrite length_copy_into; lia|].
        intros j Hj.
        destruct (N.lt_ge_cases j (cap - si)) as [Hj1|Hj1].
        * rewrite nth_copy2_lt; [| rewrite length_copy_into; lia | lia].
          rewrite nth_copy_lt; [| lia | rewrite length_subl by lia; lia].
          rewrite nth_subl by lia.
          rewrite <- (Hold j Hj). f_equal.
          rewrite mod_add_small by lia. lia.
        * rewrite nth_copy2_ge;
            [| lia | rewrite length_copy_into; lia | rewrite length_subl by lia; lia].
          rewrite nth_subl by lia.
          rewrite <- (Hold j Hj). f_equal.
          rewrite mod_add_wrap by lia. lia. }
  destruct Hcopied as (out & -> & Hlo & Hnth).
  destruct (N.eqb_spec k 0) as [Hx|_]; [lia|].
  assert (Hlow' : (if cap <? k then low else if n - low <=? k then low else sub64 n k) = n - m).
  { destruct (N.ltb_spec cap k); [lia|].
    destruct (N.leb_spec (n - low) k); [lia|]. rewrite sub64_small by lia. lia. }
  rewrite Hlow'.
  eexists; split; [reflexivity|]. split.
  - assert (Hev' : forall i, n - m <= i -> i < n ->
              nth (N.to_nat ((i - (n - m)) mod k)) out None = Some i).
    { intros i Hi1 Hi2. rewrite N.mod_small by lia.
      rewrite (Hnth (i - (n - m))) by lia. f_equal. lia. }
    assert (Hhd' : m mod k = (n - (n - m)) mod k) by (f_equal; lia).
    constructor; cbn [events capacity head full rid lowestId resizeOffset]; try lia; assumption.
  - unfold abs, spec_step. cbn [events capacity head full rid lowestId resizeOffset h_n h_ret h_cap fst].
    f_equal. lia.
Qed.
