From Coq Require Import List NArith Bool Lia ZifyN ZifyNat ZifyBool PeanoNat.
From YK Require Import Events.Ring Events.RingSpec Events.RingLemmas Events.RingProofs.
Import ListNotations.
Open Scope N_scope.
Set Default Timeout 60.

(* ---- getEntriesFromRanges ---- *)
Lemma entries_one r s e :
  s <= e -> e <= N.of_nat (length (events r)) -> e < W64 -> e - s <= MAXLEN ->
  exists l, entriesFromRanges r s e None = Ok l /\ length l = N.to_nat (e - s) /\
    forall j, (j < N.to_nat (e - s))%nat -> nth j l None = nth (N.to_nat s + j) (events r) None.
Proof.
  intros H1 H2 H3 H4. unfold entriesFromRanges.
  rewrite sub64_small by lia. rewrite make_len_ok by exact H4.
  rewrite slice_ok by lia.
  eexists; split; [reflexivity|]. split.
  - rewrite length_copy_into. apply repeat_length.
  - intros j Hj. rewrite nth_copy_lt.
    + apply nth_subl. lia.
    + rewrite repeat_length. exact Hj.
    + rewrite length_subl by lia. lia.
Qed.

Lemma entries_two r s e2 (L := N.of_nat (length (events r))) :
  s <= L -> e2 <= L -> L < W64 -> L - s + e2 <= MAXLEN ->
  exists l, entriesFromRanges r s L (Some (0, e2)) = Ok l /\
    length l = N.to_nat (L - s + e2) /\
    (forall j, (j < N.to_nat (L - s))%nat -> nth j l None = nth (N.to_nat s + j) (events r) None) /\
    (forall j, (N.to_nat (L - s) <= j)%nat -> (j < N.to_nat (L - s + e2))%nat ->
               nth j l None = nth (j - N.to_nat (L - s)) (events r) None).
Proof.
  intros H1 H2 H3 H4. pose proof MAXLEN_W64 as HM. unfold entriesFromRanges. fold L.
  rewrite (sub64_small L s) by lia. rewrite (sub64_small e2 0) by lia.
  rewrite N.sub_0_r. rewrite add64_small by lia.
  rewrite make_len_ok by exact H4.
  rewrite !slice_ok by (unfold L; lia).
  set (dst := repeat None (N.to_nat (L - s + e2))).
  assert (Hdst : length dst = N.to_nat (L - s + e2)) by apply repeat_length.
  rewrite length_copy_into.
  destruct (N.ltb_spec (N.of_nat (length dst)) (L - s)) as [Hx|_]; [lia|].
  assert (Hs1 : length (subl s L (events r)) = N.to_nat (L - s))
    by (apply length_subl; unfold L; lia).
  assert (Hs2 : length (subl 0 L (events r)) = N.to_nat L)
    by (rewrite length_subl by (unfold L; lia); lia).
  eexists; split; [reflexivity|]. split; [|split].
  - rewrite length_copy2; rewrite length_copy_into; lia.
  - intros j Hj. rewrite nth_copy2_lt; [| rewrite length_copy_into; lia | lia].
    rewrite nth_copy_lt by lia. apply nth_subl. lia.
  - intros j Hj1 Hj2.
    rewrite nth_copy2_ge; [| lia | rewrite length_copy_into; lia | lia].
    rewrite nth_subl by lia. f_equal.
Qed.

(* ---- getEventsFromID inside the retained window ---- *)
Lemma query_in_window r n id count :
  Inv r n -> lowestId r <= id -> id < n ->
  getEventsFromID r id count =
    Ok (mkQ (nseq id (N.to_nat (N.min count (n - id)))) (lowestId r) (lastEventID r)).
Proof.
  intros I Hid1 Hid2.
  destruct I as [Hc Hcm Hlen Hrid Hnw Hol Hlr Hret Hfull Hlf Hlnf Hhead Hev].
  unfold getEventsFromID, id2pos, lastEventID.
  destruct r as [evs cap hd fl rid' low off].
  cbn [events capacity head full rid lowestId resizeOffset] in *.
  pose proof MAXLEN_W64 as HM. subst rid'.
  destruct (N.ltb_spec id low) as [Hx|_]; [lia|].
  destruct (N.leb_spec n id) as [Hx|_]; [lia|].
  cbn [orb].
  destruct (N.eqb_spec cap 0) as [Hx|_]; [lia|].
  rewrite (sub64_small id off) by lia.
  set (r := mkRing evs cap hd fl n low off).
  assert (HL : N.of_nat (length (events r)) = cap) by (cbn [r events]; lia).
  assert (Hevr : events r = evs) by reflexivity.
  remember (n - id) as d eqn:Hd.
  assert (Hp_lt : (id - off) mod cap < cap) by (apply mod_lt'; exact Hc).
  (* where the head is relative to the position of id *)
  assert (HheadA : (id - off) mod cap + d < cap -> hd = (id - off) mod cap + d).
  { intros H. rewrite Hhead. replace (n - off) with (id - off + d) by lia.
    apply mod_add_small; assumption. }
  assert (HheadB : cap <= (id - off) mod cap + d -> hd = (id - off) mod cap + d - cap).
  { intros H. rewrite Hhead. replace (n - off) with (id - off + d) by lia.
    apply mod_add_wrap; [assumption|assumption|]. clear Hhead. lia. }
  assert (Hnf : fl = false -> (id - off) mod cap + d < cap).
  { intros ->. rewrite N.mod_small; symmetry in Hfull; apply N.leb_gt in Hfull;
      clear Hhead HheadA HheadB Hp_lt; lia. }
  assert (Hpos : forall j, j < d ->
            nth (N.to_nat (if (id - off) mod cap + j <? cap then (id - off) mod cap + j
                           else (id - off) mod cap + j - cap)) evs None = Some (id + j)).
  { intros j Hj. rewrite <- (Hev (id + j)) by lia. f_equal. f_equal.
    replace (id + j - off) with (id - off + j) by lia.
    destruct (N.ltb_spec ((id - off) mod cap + j) cap) as [H|H].
    - symmetry. apply mod_add_small; assumption.
    - symmetry. apply mod_add_wrap; [assumption|assumption|].
      clear Hhead HheadA HheadB Hnf. lia. }
  clear Hhead Hev.
  remember ((id - off) mod cap) as p eqn:Ep. clear Ep.
  remember (N.min count cap) as cnt eqn:Hcnt.
  rewrite (add64_small p cnt) by lia.
  assert (Hlenres : N.min count d = N.min cnt d) by lia.
  rewrite Hlenres.
  destruct fl; cbn [andb]; [destruct (N.leb_spec hd p) as [Hhp|Hhp]|].
  - (* full, position on or after the head: the window wraps at the end of the slice *)
    assert (HB : cap <= p + d) by (destruct (N.lt_ge_cases (p + d) cap) as [H|H]; [specialize (HheadA H); lia|exact H]).
    specialize (HheadB HB). clear HheadA Hnf.
    destruct (N.ltb_spec cap (p + cnt)) as [Hw|Hw].
    + rewrite (sub64_small (p + cnt) cap) by lia.
      replace (N.min (p + cnt) cap) with (N.of_nat (length (events r))) by lia.
      destruct (entries_two r p (N.min (p + cnt - cap) hd)) as (l & -> & Hl & Hn1 & Hn2); try lia.
      f_equal. f_equal. apply list_eq_nseq; [lia|].
      intros j Hj. rewrite HL in *. rewrite Hevr in *.
      destruct (Nat.lt_ge_cases j (N.to_nat (cap - p))) as [Hj1|Hj1].
      * rewrite Hn1 by exact Hj1.
        specialize (Hpos (N.of_nat j) ltac:(lia)).
        destruct (N.ltb_spec (p + N.of_nat j) cap) as [_|Hx]; [|lia].
        rewrite <- Hpos. f_equal. lia.
      * rewrite Hn2 by lia.
        specialize (Hpos (N.of_nat j) ltac:(lia)).
        destruct (N.ltb_spec (p + N.of_nat j) cap) as [Hx|_]; [lia|].
        rewrite <- Hpos. f_equal. lia.
    + replace (N.min (p + cnt) cap) with (p + cnt) by lia.
      destruct (entries_one r p (p + cnt)) as (l & -> & Hl & Hn1); try lia.
      f_equal. f_equal. apply list_eq_nseq; [lia|].
      intros j Hj. rewrite Hevr in *.
      rewrite Hn1 by lia.
      specialize (Hpos (N.of_nat j) ltac:(lia)).
      destruct (N.ltb_spec (p + N.of_nat j) cap) as [_|Hx]; [|lia].
      rewrite <- Hpos. f_equal. lia.
  - (* full, position before the head *)
    assert (HA : p + d < cap) by (destruct (N.lt_ge_cases (p + d) cap) as [H|H]; [exact H|specialize (HheadB H); lia]).
    specialize (HheadA HA). clear HheadB Hnf.
    destruct (entries_one r p (N.min (p + cnt) hd)) as (l & -> & Hl & Hn1); try lia.
    f_equal. f_equal. apply list_eq_nseq; [lia|].
    intros j Hj. rewrite Hevr in *.
    rewrite Hn1 by lia.
    specialize (Hpos (N.of_nat j) ltac:(lia)).
    destruct (N.ltb_spec (p + N.of_nat j) cap) as [_|Hx]; [|lia].
    rewrite <- Hpos. f_equal. lia.
  - (* not full *)
    specialize (Hnf eq_refl). specialize (HheadA Hnf). clear HheadB.
    destruct (entries_one r p (N.min (p + cnt) hd)) as (l & -> & Hl & Hn1); try lia.
    f_equal. f_equal. apply list_eq_nseq; [lia|].
    intros j Hj. rewrite Hevr in *.
    rewrite Hn1 by lia.
    specialize (Hpos (N.of_nat j) ltac:(lia)).
    destruct (N.ltb_spec (p + N.of_nat j) cap) as [_|Hx]; [|lia].
    rewrite <- Hpos. f_equal. lia.
Qed.

Lemma query_outside r n id count :
  Inv r n -> (id < lowestId r \/ n <= id) ->
  getEventsFromID r id count = Ok (mkQ [] (lowestId r) (lastEventID r)).
Proof.
  intros I H. destruct I as [Hc Hcm Hlen Hrid Hnw Hol Hlr Hret Hfull Hlf Hlnf Hhead Hev].
  unfold getEventsFromID, id2pos. rewrite Hrid.
  destruct (N.ltb_spec id (lowestId r)); destruct (N.leb_spec n id); cbn [orb]; try reflexivity.
  clear Hhead. lia.
Qed.

Lemma spec_low_abs r n : Inv r n -> spec_low (abs r) = lowestId r.
Proof. intros I. destruct I. unfold spec_low, abs. cbn [h_n h_ret]. lia. Qed.

Lemma spec_high_abs r : spec_high (abs r) = lastEventID r.
Proof. reflexivity. Qed.

(* GetEventsFromID returns exactly what the specification says *)
Theorem query_exact r n id count :
  Inv r n ->
  snd (rstep (r, n) (RQuery id count)) = spec_query (abs r) id count.
Proof.
  intros I. unfold rstep, spec_query.
  rewrite (spec_low_abs r n I), spec_high_abs.
  assert (Hn : h_n (abs r) = n) by (destruct I; assumption). rewrite Hn.
  destruct (N.leb_spec (lowestId r) id) as [H1|H1]; destruct (N.ltb_spec id n) as [H2|H2]; cbn [andb].
  - rewrite (query_in_window r n id count I H1 H2). reflexivity.
  - rewrite (query_outside r n id count I) by (right; exact H2). reflexivity.
  - rewrite (query_outside r n id count I) by (left; exact H1). reflexivity.
  - rewrite (query_outside r n id count I) by (left; exact H1). reflexivity.
Qed.

(* GetRecentEvents *)
Theorem recent_exact r n count :
  Inv r n ->
  snd (rstep (r, n) (RRecent count)) = spec_recent (abs r) count.
Proof.
  intros I. unfold rstep, spec_recent, getRecentEvents.
  pose proof I as [Hc Hcm Hlen Hrid Hnw Hol Hlr Hret Hfull Hlf Hlnf Hhead Hev]. clear Hhead Hev.
  unfold abs. cbn [h_n h_ret]. unfold lastEventID at 1 2. rewrite Hrid.
  set (low := lowestId r) in *.
  destruct (N.eqb_spec n 0) as [Hn0|Hn0].
  { (* empty *)
    rewrite (query_outside r n _ count I).
    - cbn [q_events]. replace (N.min count (n - low)) with 0 by lia. reflexivity.
    - right. destruct (N.ltb_spec 0 count); lia. }
  destruct (N.ltb_spec (n - 1) count) as [Hc1|Hc1].
  - (* asked for at least everything *)
    replace (N.max 0 low) with low by lia.
    destruct (N.eq_dec low n) as [E|E].
    + rewrite (query_outside r n low count I) by (right; lia).
      cbn [q_events]. replace (N.min count (n - low)) with 0 by lia. reflexivity.
    + rewrite (query_in_window r n low count I) by (fold low; lia).
      cbn [q_events]. replace (N.min count (n - low)) with (n - low) by lia.
      replace (n - (n - low)) with low by lia. reflexivity.
  - rewrite (sub64_small (n - 1) count) by lia.
    rewrite add64_small by lia.
    set (st := N.max (n - 1 - count + 1) low).
    destruct (N.lt_ge_cases st n) as [Hs|Hs].
    + rewrite (query_in_window r n st count I) by (fold low; lia).
      cbn [q_events].
      replace (N.min count (n - st)) with (N.min count (n - low)) by lia.
      replace (n - N.min count (n - low)) with st by lia. reflexivity.
    + rewrite (query_outside r n st count I) by (right; lia).
      cbn [q_events]. replace (N.min count (n - low)) with 0 by lia. reflexivity.
Qed.

(* ---- refinement of whole runs ---- *)
Definition op_fits (o : rop) : bool := match o with RResize k => k <=? MAXLEN | _ => true end.
Fixpoint nadds (ops : list rop) : N :=
  match ops with [] => 0 | RAdd :: t => 1 + nadds t | _ :: t => nadds t end.

Lemma nadds_le_length ops : nadds ops <= N.of_nat (length ops).
Proof. induction ops as [|[| | |] t IH]; cbn [nadds length]; lia. Qed.

Definition rfinal (s : rstate) (ops : list rop) : rstate :=
  fold_left (fun s o => fst (rstep s o)) ops s.
Definition spec_final (s : hspec) (ops : list rop) : hspec :=
  fold_left (fun s o => fst (spec_step s o)) ops s.

(* one step: the invariant is kept, outputs and abstract states agree, nothing crashes *)
Lemma rstep_refines r n o :
  Inv r n -> op_ok o = true -> op_fits o = true -> n + nadds [o] < W64 ->
  let '(r', n') := fst (rstep (r, n) o) in
  Inv r' n' /\ abs r' = fst (spec_step (abs r) o) /\ n' = n + nadds [o] /\
  snd (rstep (r, n) o) = snd (spec_step (abs r) o).
Proof.
  intros I Hok Hfit Hn. destruct o as [|k|id c|c].
  - cbn [nadds] in Hn. destruct (add_inv r n I) as (r' & E & I' & Ha & _); [lia|].
    cbn [rstep]. rewrite E. cbn [fst snd]. refine (conj _ (conj _ (conj _ _))); try assumption; try reflexivity; cbn [nadds]; lia.
  - cbn [op_ok op_fits] in *. apply N.ltb_lt in Hok. apply N.leb_le in Hfit.
    destruct (resize_inv r n k I) as (r' & E & I' & Ha); [split; assumption|].
    cbn [rstep]. rewrite E. cbn [fst snd]. refine (conj _ (conj _ (conj _ _))); try assumption; try reflexivity; cbn [nadds]; lia.
  - pose proof (query_exact r n id c I) as Hq.
    assert (Hs : fst (rstep (r, n) (RQuery id c)) = (r, n))
      by (cbn [rstep]; destruct (getEventsFromID r id c); reflexivity).
    rewrite Hs. refine (conj _ (conj _ (conj _ _))); try assumption; try reflexivity; cbn [nadds]; lia.
  - pose proof (recent_exact r n c I) as Hq.
    assert (Hs : fst (rstep (r, n) (RRecent c)) = (r, n))
      by (cbn [rstep]; destruct (getRecentEvents r c); reflexivity).
    rewrite Hs. refine (conj _ (conj _ (conj _ _))); try assumption; try reflexivity; cbn [nadds]; lia.
Qed.

Lemma nadds_cons o t : nadds (o :: t) = nadds [o] + nadds t.
Proof. destruct o; cbn [nadds]; lia. Qed.

Lemma rrun_refines ops : forall r n,
  Inv r n -> forallb op_ok ops = true -> forallb op_fits ops = true -> n + nadds ops < W64 ->
  rrun (r, n) ops = spec_run (abs r) ops /\
  (let '(r', n') := rfinal (r, n) ops in
   Inv r' n' /\ abs r' = spec_final (abs r) ops /\ n' = n + nadds ops).
Proof.
  induction ops as [|o t IH]; intros r n I Hok Hfit Hn.
  - cbn. repeat split; try assumption; lia.
  - cbn [forallb] in Hok, Hfit. apply andb_prop in Hok, Hfit.
    destruct Hok as [Hok1 Hok2]. destruct Hfit as [Hfit1 Hfit2].
    rewrite nadds_cons in Hn.
    pose proof (rstep_refines r n o I Hok1 Hfit1 ltac:(lia)) as Hstep.
    cbn [rrun spec_run rfinal spec_final fold_left].
    destruct (rstep (r, n) o) as [[r' n'] out]. destruct (spec_step (abs r) o) as [s' out'].
    cbn [fst snd] in Hstep. destruct Hstep as (I' & Ha & Hn' & Hout). subst s' out' n'.
    destruct (IH r' (n + nadds [o]) I' Hok2 Hfit2 ltac:(lia)) as [IH1 IH2].
    split.
    + rewrite IH1. reflexivity.
    + fold (rfinal (r', n + nadds [o]) t). fold (spec_final (abs r') t).
      destruct (rfinal (r', n + nadds [o]) t) as [r'' n''].
      destruct IH2 as (I'' & Ha'' & Hn''). repeat split; try assumption.
      rewrite nadds_cons. lia.
Qed.

(* MAIN THEOREM (ring): for every capacity 0 < cap <= MaxInt64, every sequence of add / resize /
   query / recent operations whose resize targets are in the same range and with fewer than 2^64
   adds, the ring buffer model answers exactly like the abstract history. *)
Theorem ring_refines cap ops :
  size_ok cap -> forallb op_ok ops = true -> forallb op_fits ops = true -> nadds ops < W64 ->
  ring_run cap ops = spec_run (spec_init cap) ops.
Proof.
  intros Hcap Hok Hfit Hn. unfold ring_run.
  rewrite <- newRing_abs. apply rrun_refines; auto using newRing_inv.
Qed.

Corollary ring_refines_len cap ops :
  size_ok cap -> forallb op_ok ops = true -> forallb op_fits ops = true ->
  N.of_nat (length ops) < W64 ->
  ring_run cap ops = spec_run (spec_init cap) ops.
Proof.
  intros Hcap Hok Hfit Hn. apply ring_refines; auto.
  pose proof (nadds_le_length ops). lia.
Qed.

Theorem ring_reach cap ops :
  size_ok cap -> forallb op_ok ops = true -> forallb op_fits ops = true -> nadds ops < W64 ->
  let '(r, n) := rfinal (newRing cap, 0) ops in
  Inv r n /\ abs r = spec_final (spec_init cap) ops /\ n = nadds ops.
Proof.
  intros Hcap Hok Hfit Hn.
  pose proof (rrun_refines ops (newRing cap) 0 (newRing_inv cap Hcap) Hok Hfit ltac:(lia)) as [_ H].
  destruct (rfinal (newRing cap, 0) ops) as [r n]. rewrite newRing_abs in H.
  destruct H as (I & Ha & Hn'). repeat split; try assumption. lia.
Qed.

(* ---- corollaries ---- *)
Lemma spec_run_no_crash ops : forall s, ~ In OCrash (spec_run s ops).
Proof.
  induction ops as [|o t IH]; intros s; cbn [spec_run]; [tauto|].
  destruct (spec_step s o) as [s' out] eqn:E. cbn [In]. intros [H|H]; [|exact (IH s' H)].
  destruct o; cbn [spec_step] in E; inversion E; subst; try discriminate.
  - unfold spec_query in H. destruct (_ && _); discriminate.
Qed.

Corollary ring_no_crash cap ops :
  size_ok cap -> forallb op_ok ops = true -> forallb op_fits ops = true -> nadds ops < W64 ->
  ~ In OCrash (ring_run cap ops).
Proof.
  intros Hcap Hok Hfit Hn. rewrite ring_refines by assumption. apply spec_run_no_crash.
Qed.

(* every recorded event gets the next consecutive id: the id counter equals the number of events
   added so far, and (payload i = i-th event added) id i designates the i-th event *)
Corollary ring_ids_consecutive cap ops :
  size_ok cap -> forallb op_ok ops = true -> forallb op_fits ops = true -> nadds ops < W64 ->
  let '(r, n) := rfinal (newRing cap, 0) ops in
  rid r = nadds ops /\ n = nadds ops /\
  forall i pos, id2pos r i = Ok (Some pos) -> nth (N.to_nat pos) (events r) None = Some i.
Proof.
  intros Hcap Hok Hfit Hn. pose proof (ring_reach cap ops Hcap Hok Hfit Hn) as H.
  destruct (rfinal (newRing cap, 0) ops) as [r n]. destruct H as (I & Ha & Hn').
  destruct I as [Hc Hcm Hlen Hrid Hnw Hol Hlr Hret Hfull Hlf Hlnf Hhead Hev].
  repeat split; try congruence.
  intros i pos. unfold id2pos.
  destruct (N.ltb_spec i (lowestId r)); destruct (N.leb_spec (rid r) i); cbn [orb]; try discriminate.
  destruct (N.eqb_spec (capacity r) 0); [discriminate|].
  intros E. inversion E; subst pos. rewrite sub64_small by (clear Hhead; lia).
  apply Hev; assumption.
Qed.

(* the buffer holds exactly the most recent [h_ret] events, where h_ret follows the abstract
   recurrence (min (ret+1) cap on add, min ret k on resize to k) *)
Corollary ring_holds_recent cap ops :
  size_ok cap -> forallb op_ok ops = true -> forallb op_fits ops = true -> nadds ops < W64 ->
  let '(r, n) := rfinal (newRing cap, 0) ops in
  let s := spec_final (spec_init cap) ops in
  h_n s = nadds ops /\ h_ret s <= h_n s /\ h_ret s <= h_cap s /\
  (forall i, h_n s - h_ret s <= i -> i < h_n s ->
     exists pos, id2pos r i = Ok (Some pos) /\ nth (N.to_nat pos) (events r) None = Some i) /\
  (forall i, i < h_n s - h_ret s \/ h_n s <= i -> id2pos r i = Ok None).
Proof.
  intros Hcap Hok Hfit Hn. pose proof (ring_reach cap ops Hcap Hok Hfit Hn) as H.
  destruct (rfinal (newRing cap, 0) ops) as [r n]. destruct H as (I & Ha & Hn').
  cbv zeta. rewrite <- Ha. unfold abs. cbn [h_n h_ret h_cap].
  destruct I as [Hc Hcm Hlen Hrid Hnw Hol Hlr Hret Hfull Hlf Hlnf Hhead Hev]. clear Hhead.
  replace (rid r - (rid r - lowestId r)) with (lowestId r) by lia.
  repeat split; try lia.
  - intros i Hi1 Hi2. unfold id2pos.
    destruct (N.ltb_spec i (lowestId r)); [lia|]. destruct (N.leb_spec (rid r) i); [lia|].
    cbn [orb]. destruct (N.eqb_spec (capacity r) 0); [lia|].
    eexists; split; [reflexivity|]. rewrite sub64_small by lia. apply Hev; assumption.
  - intros i Hi. unfold id2pos.
    destruct (N.ltb_spec i (lowestId r)); destruct (N.leb_spec (rid r) i); cbn [orb]; try reflexivity.
    lia.
Qed.

(* without resizes the number of retained events is min(#added, capacity) *)
Lemma spec_ret_no_resize cap ops :
  (forall k, ~ In (RResize k) ops) ->
  let s := spec_final (spec_init cap) ops in
  h_n s = nadds ops /\ h_cap s = cap /\ h_ret s = N.min (nadds ops) cap.
Proof.
  intros Hnr. cbv zeta.
  assert (G : forall s, (forall k, ~ In (RResize k) ops) ->
            let s' := spec_final s ops in
            h_n s' = h_n s + nadds ops /\ h_cap s' = h_cap s /\
            (h_ret s = N.min (h_n s) (h_cap s) -> h_ret s' = N.min (h_n s + nadds ops) (h_cap s))).
  { clear Hnr. induction ops as [|o t IH]; intros s Hnr; cbv zeta.
    - cbn. repeat split; try lia. intros ->. f_equal. lia.
    - assert (Hnr' : forall k, ~ In (RResize k) t) by (intros k Hk; apply (Hnr k); right; exact Hk).
      cbn [spec_final fold_left]. fold (spec_final (fst (spec_step s o)) t).
      specialize (IH (fst (spec_step s o)) Hnr'). cbv zeta in IH.
      destruct IH as (IH1 & IH2 & IH3). rewrite nadds_cons.
      destruct o as [|k|id c|c]; cbn [spec_step fst h_n h_ret h_cap nadds] in *.
      + repeat split; try lia. intros E. rewrite IH3 by lia. lia.
      + exfalso. apply (Hnr k). left. reflexivity.
      + repeat split; try lia. intros E. rewrite IH3 by lia. lia.
      + repeat split; try lia. intros E. rewrite IH3 by lia. lia. }
  specialize (G (spec_init cap) Hnr). cbv zeta in G. cbn [spec_init h_n h_ret h_cap] in G.
  destruct G as (G1 & G2 & G3). repeat split; try lia. rewrite G3; lia.
Qed.
