(* C03: every operation of the operational model preserves the books and the invariant.
   Part 3: release of a bound allocation (removeAllocation), then the dispatchers m_alloc / m_release, the node
   operations, foreign allocations and m_step. *)
From Coq Require Import List ZArith NArith Bool Lia ZifyBool.
From YK Require Import Base.Int64 Base.Res Base.ResSpec Base.ResLemmas Base.ResLaws Base.ResLaws2 Base.ResLawsPred
  Core.Obs Core.Model Core.Ledger
  Core.BooksLemmas Core.BooksDefs Core.BooksTree Core.BooksQueue Core.BooksApp Core.BooksState Core.BooksDrain Core.BooksStep
  Core.BooksOps Core.BooksOps2.
Import ListNotations.
Open Scope Z_scope.

(* ------------------------------------------------------------------ unbinding an allocation on application and node *)
Section Unbind.
  Variables (s s' : ostate) (a a' : oapp) (n : onode) (x : oalloc) (F : oqueue -> oqueue).
  Hypothesis HI : Inv s.
  Hypothesis HB : Books0 s.
  Hypothesis HBd : Bounded s.
  Hypothesis Ha : In a (s_apps s).
  Hypothesis Hn : In n (s_nodes s).
  Hypothesis Hx : In x (ap_allocs a).
  Hypothesis Xnode : oa_node x = on_id n.
  Hypothesis Eapps : s_apps s' = updk ap_id (s_apps s) (ap_id a) (fun _ => a').
  Hypothesis Enodes : s_nodes s' = updk on_id (s_nodes s) (on_id n) (fun _ => node_unbound n x).
  Hypothesis Eq : s_queues s' = map (fun q => if memN (q_id q) (path_ids s (ap_queue a)) then F q else q) (s_queues s).
  Hypothesis Ef : s_foreign s' = s_foreign s.
  Hypothesis Ec : s_nallocs s' = s_nallocs s + -1.
  Hypothesis Fid : forall q, q_id (F q) = q_id q.
  Hypothesis Fpar : forall q, q_parent (F q) = q_parent q.
  Hypothesis Fleaf : forall q, q_leaf (F q) = q_leaf q.
  Hypothesis QF : forall q, In q (s_queues s) -> In (q_id q) (path_ids s (ap_queue a)) ->
      (wf (q_alloc (F q)) /\ wf (q_pending (F q))) /\
      (forall k, getz (q_alloc (F q)) k = getz (q_alloc q) k + - getz (oa_res x) k) /\
      (forall k, getz (q_pending (F q)) k = getz (q_pending q) k + 0) /\
      (rnonneg (q_alloc (F q)) /\ rnonneg (q_pending (F q))).
  Hypothesis Eid : ap_id a' = ap_id a.
  Hypothesis Equeue : ap_queue a' = ap_queue a.
  Hypothesis Ba' : AppBooks a'.
  Hypothesis Wa' : AppWF a'.
  Hypothesis Hkeys : ReqKeysOK s a a'.
  Hypothesis Ealloc : ap_allocs a' = del_alloc (oa_key x) (ap_allocs a).
  Hypothesis HdA : forall k, getz (ap_allocated a') k + getz (ap_phalloc a') k =
                             getz (ap_allocated a) k + getz (ap_phalloc a) k + - getz (oa_res x) k.
  Hypothesis HdP : forall k, getz (ap_pending a') k = getz (ap_pending a) k + 0.
  Hypothesis Hxn : find_alloc (on_allocs n) (oa_key x) = Some x.

  Lemma unbind_core : Inv s' /\ Books s'.
  Proof.
    pose proof (inv_nodes s HI n Hn) as K. pose proof (owned_P_of s HI (bk_owned s HB)) as HO. pose proof (onnode_P_of s (bk_onnode s HB)) as HP.
    pose proof (inv_app_wf s HI a Ha) as W. pose proof (aw_alloc a W x Hx) as Xok. pose proof (abd_alloc a (bd_apps s HBd a Ha) x Hx) as Xb.
    assert (G : forall k, getz (on_allocated (node_unbound n x)) k = getz (on_allocated n) k - getz (oa_res x) k).
    { intros k. cbn [node_unbound n_with on_allocated]. rewrite Prune_getz by (apply subFrom_wf, (nk_wf s n K)).
      apply subFrom_getz; [apply (ao_wf _ x Xok)|apply (bd_nodes s HBd n Hn)|exact Xb]. }
    assert (Hled : forall k, getz (on_allocated (node_unbound n x)) k = asum (on_allocs (node_unbound n x)) k).
    { intros k. rewrite G. cbn [node_unbound n_with on_allocs]. rewrite asum_del by apply (nk_keys s n K). rewrite Hxn, (nk_ledger s n K k). lia. }
    assert (Hwf : wf (on_allocated (node_unbound n x))) by (cbn [node_unbound n_with on_allocated]; apply Prune_wf, subFrom_wf, (nk_wf s n K)).
    apply (native_step s s' a a' F (fun k => - getz (oa_res x) k) (fun _ => 0) HI HB Ha Eapps Eq Ef); auto.
    - intros q Hq Hin. apply (QF q Hq Hin).
    - intros q Hq Hin. apply (QF q Hq Hin).
    - intros q Hq Hin. apply (QF q Hq Hin).
    - intros q Hq Hin. apply (QF q Hq Hin).
    - apply (node_ids' s s' n (node_unbound n x) HI Enodes eq_refl).
    - apply (del_nodes_ok s s' a a' n (node_unbound n x) HI Ha Hn Eapps Enodes eq_refl x Ealloc eq_refl Hled Hwf).
    - apply (count_step s s' a a' (-1) HI Ha Eapps); [|assumption]. rewrite Ealloc.
      pose proof (length_del_alloc (ap_allocs a) (oa_key x) x (aw_alloc_keys a W) (find_alloc_in _ x (aw_alloc_keys a W) Hx)). lia.
    - apply (del_owned s s' a a' n (node_unbound n x) HI HO Ha Hn Eapps Enodes Eid x Hx Ealloc eq_refl Xnode).
    - apply (del_onnode s s' a a' n (node_unbound n x) HI HP Ha Hn Eapps Enodes eq_refl x Hx Ealloc eq_refl).
    - intros k. rewrite Enodes. rewrite (sumz_updk on_id on_allocated (s_nodes s) (on_id n) _ n k (inv_node_ids s HI) Hn eq_refl).
      rewrite G. lia.
  Qed.
End Unbind.

(* the node an application's allocation names lists the very same record *)
Lemma alloc_on_its_node s a x n : Inv s -> Books0 s -> In a (s_apps s) -> In x (ap_allocs a) -> find_node s (oa_node x) = Some n ->
  In n (s_nodes s) /\ on_id n = oa_node x /\ find_alloc (on_allocs n) (oa_key x) = Some x.
Proof. intros HI HB Ha Hx En. apply find_node_some in En. destruct En as [Hn Eid]. split; [assumption|]. split; [assumption|].
  destruct (onnode_P_of s (bk_onnode s HB) a x Ha Hx) as (m & Hm & Em & Hk).
  assert (m = n) by (apply (nodup_key_inj on_id (s_nodes s)); auto; [apply (inv_node_ids s HI)|congruence]). subst m.
  destruct (find_alloc (on_allocs n) (oa_key x)) as [y|] eqn:E; [|apply find_alloc_none in E; contradiction].
  apply find_alloc_some in E. destruct E as [Hy Ek]. f_equal. symmetry.
  apply (nk_same s n (inv_nodes s HI n Hn) y a x Hy Ha Hx). congruence. Qed.

Theorem release_alloc_step s s' a x ttype : Inv s -> Books0 s -> Bounded s -> In a (s_apps s) -> In x (ap_allocs a) ->
  m_release_alloc s a x ttype = Some s' -> Inv s' /\ Books s'.
Proof. intros HI HB HBd Ha Hx H. unfold m_release_alloc in H. destruct (oa_ph x) eqn:Xph; [discriminate|]. cbn [orb] in H.
  match type of H with (if ?c then None else _) = _ => destruct c; [discriminate|] end.
  destruct (find_node s (oa_node x)) as [n|] eqn:En; [|discriminate].
  destruct (alloc_on_its_node s a x n HI HB Ha Hx En) as (Hn & Enid & Hxn).
  fold (release_alloc_app a x ttype) in H. unfold n_remove in H. rewrite Hxn in H. fold (node_unbound n x) in H.
  pose proof (inv_app_wf s HI a Ha) as W. pose proof (bk_apps s HB a Ha) as B. pose proof (bd_apps s HBd a Ha) as Bd.
  pose proof (aw_alloc a W x Hx) as Xok. pose proof (abd_alloc a Bd x Hx) as Xb.
  set (a' := release_alloc_app a x ttype) in *.
  set (s2 := upd_node (upd_app s (ap_id a) (fun _ => a')) (on_id n) (fun _ => node_unbound n x)) in *.
  assert (Hdom : forall q k, In q (s_queues s) -> In (q_id q) (path_ids s (ap_queue a)) -> getz (oa_res x) k <= getz (q_alloc q) k).
  { intros q k Hq Hin. pose proof (alloc_le_allocated a x W B Hx Xph k). pose proof (app_allocated_dominated s a HI HB Ha q k Hq Hin). lia. }
  assert (Common : forall F,
    (forall q, q_id (F q) = q_id q) -> (forall q, q_parent (F q) = q_parent q) -> (forall q, q_leaf (F q) = q_leaf q) ->
    (forall q, In q (s_queues s) -> In (q_id q) (path_ids s (ap_queue a)) ->
      (wf (q_alloc (F q)) /\ wf (q_pending (F q))) /\
      (forall k, getz (q_alloc (F q)) k = getz (q_alloc q) k + - getz (oa_res x) k) /\
      (forall k, getz (q_pending (F q)) k = getz (q_pending q) k + 0) /\
      (rnonneg (q_alloc (F q)) /\ rnonneg (q_pending (F q)))) ->
    forall s3, s_apps s3 = s_apps s2 -> s_nodes s3 = s_nodes s2 -> s_foreign s3 = s_foreign s2 -> s_nallocs s3 = s_nallocs s2 ->
    s_queues s3 = map (fun q => if memN (q_id q) (path_ids s (ap_queue a)) then F q else q) (s_queues s) ->
    Inv (add_counts s3 (-1) 0) /\ Books (add_counts s3 (-1) 0)).
  { intros F F1 F2 F3 QF s3 E1 E2 E3 E4 E5.
    apply (unbind_core s _ a a' n x F HI HB HBd Ha Hn Hx (eq_sym Enid)); auto.
    - change (s_nallocs s3 + -1 = s_nallocs s + -1). rewrite E4. reflexivity.
    - apply rel_alloc_id.
    - apply rel_alloc_queue.
    - apply rel_alloc_books; assumption.
    - apply rel_alloc_wf; assumption.
    - intros r' Hr'. unfold a' in Hr'. rewrite rel_alloc_requests in Hr'. left. exists r'. split; [|reflexivity].
      destruct (ttype =? TT_Timeout)%N; [assumption|]. apply in_del_alloc in Hr'. tauto.
    - apply rel_alloc_allocs.
    - intros k. unfold a'. rewrite rel_alloc_allocated, rel_alloc_phalloc by assumption. lia.
    - intros k. unfold a'. rewrite rel_alloc_pending_eq. lia. }
  destruct (StrictlyGreaterThanZero (Some (oa_res x))) eqn:Esg.
  - (* DecAllocatedResource *)
    unfold q_dec in H.
    assert (Ep : path_ids s2 (ap_queue a) = path_ids s (ap_queue a)) by (apply path_ids_ext; reflexivity).
    rewrite Ep in H.
    match type of H with Some (add_counts (if ?c then _ else _) _ _) = _ => assert (Hc : c = true) end.
    { apply forallb_forall. intros qid Hqid. destruct (path_member s qid _ Hqid) as (oc & Eoc & Hoc & Eid).
      rewrite (find_queue_ext s2 s qid eq_refl), Eoc. apply FitInActual_spec; [apply (ao_wf _ x Xok)|].
      cbn [oget]. intros k v l Ev El. subst qid. pose proof (Hdom oc k Hoc Hqid) as D. unfold getz in D. rewrite Ev, El in D. exact D. }
    rewrite Hc in H. inversion H; subst s'; clear H.
    apply (Common (F_dec (oa_res x))); try reflexivity.
    intros q Hq Hin. destruct (inv_q_wf s HI q Hq). destruct (bd_queues s HBd q Hq). pose proof (bk_queues s HB q Hq) as QB.
    apply F_dec_facts; auto; try apply (ao_wf _ x Xok); try apply (qb_nn_alloc s q QB); try apply (qb_nn_pend s q QB).
    all: try (intros k; apply Hdom; assumption).
  - (* nothing to subtract: the resource is zero everywhere *)
    inversion H; subst s'; clear H.
    pose proof (not_sgtz_zero (oa_res x) (ao_nn _ x Xok) Esg) as Z.
    apply (Common (fun q => q)); try reflexivity.
    + intros q Hq Hin. pose proof (bk_queues s HB q Hq) as QB. split; [apply (inv_q_wf s HI q Hq)|].
      split; [intros k; rewrite Z; lia|]. split; [intros k; lia|]. split; [apply (qb_nn_alloc s q QB)|apply (qb_nn_pend s q QB)].
    + change (s_queues s2) with (s_queues s). rewrite <- (map_id (s_queues s)) at 1. apply map_ext. intros q. destruct (memN _ _); reflexivity.
Qed.
