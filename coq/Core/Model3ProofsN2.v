(* C01 over the gang fragment, part 2: the per-step hypotheses [step_ok3]; application add, the allocation requests
   (new placeholder ask, recovered placeholder, update of a placeholder in place / RM placement) and the scheduling
   cycle with gang activity (cancelled placeholders, replacement start, placeholder allocation, normal allocation). *)
From Coq Require Import List ZArith NArith Bool Lia ZifyBool.
From YK Require Import Base.Int64 Base.Int64Laws Base.Res Base.ResSpec Base.ResLemmas Base.ResLaws Base.ResLaws2
  Base.ResLawsPred Core.Obs Core.Model Core.Model2 Core.Ledger Core.Model3 Core.NodeProofs Core.QueueProofs Core.StepProofs
  Core.Model2ProofsN Core.Model3ProofsN1 Oracles.CoreC01.
Import ListNotations.
Open Scope Z_scope.
Set Default Timeout 30.

(* ------------------------------------------------------------------ the step hypotheses of the gang fragment *)
(* the replacement the scheduler decided, read from the observed post-state exactly as [g_swap_start] reads it:
   the placeholder's link names the real ask, the node of the real ask's copy is the target *)
Definition swap_target (obs : ostate) (app phk : N) : option (N * N) :=
  match find_app obs app with
  | Some a' => match find_alloc (ap_allocs a') phk with
               | Some ph' => match find_alloc (ap_requests a') (oa_release ph') with
                             | Some real' => Some (oa_release ph', oa_node real')
                             | None => None end
               | None => None end
  | None => None
  end.
(* [swap_fresh]: the real ask a replacement binds to its target node is not yet listed by that node
   (allocation keys are pod UIDs; a pending ask is on no node: C03 clause "everything a node lists is allocated").
   Used when the target is another node than the placeholder's (TryAddAllocation). *)
Definition swap_fresh (s : ostate) (st : ostep) : Prop :=
  match st_op st with
  | OpSched => forall phk app t rk target n, In (phk, app, t) (releases_of (st_events st)) -> t = TT_PlaceholderReplaced ->
      swap_target (st_obs st) app phk = Some (rk, target) -> find_node s target = Some n -> ~ In rk (akeys (on_allocs n))
  | _ => True
  end.
(* [confirm_listed]: when the shim confirms a replacement on the placeholder's own node (Node.ReplaceAllocation), the
   copy of the placeholder the node lists carries the resource of the application's copy (Go: ONE Allocation object;
   C03: allocations of an application are the ones its node lists), and the real allocation's key is not listed by
   the node (it was never added there: same-node replacements reuse the placeholder's slot). *)
Definition confirm_listed (s : ostate) (st : ostep) : Prop :=
  match st_op st with
  | OpRelease app key ttype => ttype = TT_PlaceholderReplaced ->
      forall a x n real0, find_app s app = Some a -> find_alloc (ap_allocs a) key = Some x -> oa_release x <> 0%N ->
        find_node s (oa_node x) = Some n -> find_alloc (ap_requests a) (oa_release x) = Some real0 -> oa_node real0 = oa_node x ->
        (forall old, find_alloc (on_allocs n) key = Some old -> oa_res old = oa_res x) /\
        (oa_release x = key \/ ~ In (oa_release x) (akeys (on_allocs n)))
  | _ => True
  end.
(* [remove_nonneg3]: as [remove_nonneg]: application removal and the release of all allocations of an application
   (empty allocation key) walk over several allocations; the bound of the pre-state survives the walk because
   listed allocations are non-negative (UpdateAllocation rejects others), so ledgers only shrink *)
Definition remove_nonneg3 (s : ostate) (st : ostep) : Prop :=
  match st_op st with
  | OpAppRemove _ => allocs_nonneg s
  | OpRelease _ key _ => key = 0%N -> allocs_nonneg s
  | _ => True
  end.
(* [node_remove_objs]: node removal may confirm a replacement whose real half is looked up in the application's
   allocation map first and written back to the request map: the records of the allocation map are well formed too
   (Go: both maps hold the same objects; C03 invariant ap_allocs within ap_requests) *)
Definition node_remove_objs (s : ostate) (st : ostep) : Prop :=
  match st_op st with
  | OpNodeRemove _ => forall a x, In a (s_apps s) -> In x (ap_allocs a) -> req_ok x
  | _ => True
  end.

(* inputs_ok, bind_key_fresh2 (a key bound by a request or by the ENewAlloc of a cycle is new on its node; in-place
   updates exempt), update_listed, delta_small are those of [step_ok2]: recovered / RM-placed / updated placeholders
   go through the same node operations as real allocations *)
Record step_ok3 (s : ostate) (st : ostep) : Prop := mkSO3 {
  so3_inputs : inputs_ok st; so3_fresh : bind_key_fresh2 s st; so3_listed : update_listed s st; so3_delta : delta_small s st;
  so3_swap : swap_fresh s st; so3_confirm : confirm_listed s st; so3_nonneg : remove_nonneg3 s st;
  so3_objs : node_remove_objs s st }.

(* ------------------------------------------------------------------ small tools *)
Definition req_lists (s : ostate) : list (list oalloc) := map ap_requests (s_apps s).
Lemma reqs_from_lists (P : oalloc -> Prop) s s' : req_lists s' = req_lists s -> reqs_from P s -> reqs_from P s'.
Proof. intros E H a' x Ha' Hx. apply (in_map ap_requests) in Ha'. fold (req_lists s') in Ha'. rewrite E in Ha'.
  apply in_map_iff in Ha'. destruct Ha' as (a & Er & Ha). rewrite <- Er in Hx. eapply H; eassumption. Qed.
Lemma SInv_transfer s s' : s_nodes s' = s_nodes s -> req_lists s' = req_lists s -> SInv s -> SInv s'.
Proof. intros En Er HI. apply SInv_of; [rewrite En; apply SInv_LOK; exact HI|]. eapply reqs_from_lists; [exact Er|apply HI]. Qed.

Lemma reqs_set_app' (P : oalloc -> Prop) s s' id a2 : s_apps s' = s_apps (upd_app s id (fun _ => a2)) ->
  LP P (ap_requests a2) -> reqs_from P s -> reqs_from P s'.
Proof. intros E H2 H. eapply reqs_same; [exact E|]. apply reqs_upd_app; [assumption|]. intros b x _ _ Hx. apply H2. assumption. Qed.
Lemma LP_app (P : oalloc -> Prop) s a : reqs_from P s -> In a (s_apps s) -> LP P (ap_requests a).
Proof. intros H Ha y Hy. eapply H; eassumption. Qed.

(* ------------------------------------------------------------------ AddApplication with a gang request *)
Lemma g_app_add_fstep s evs id queue user forced nougi phask tagmaxapps tagmax s' :
  g_app_add s evs id queue user forced nougi phask tagmaxapps tagmax = Some s' -> fstep s s'.
Proof. unfold g_app_add. intros H. destruct (find_app s id); [discriminate|].
  destruct (nougi || forced || _ || _ || _); [discriminate|]. destruct (find_queue s queue) as [q|]; [|discriminate].
  destruct (q_leaf q && _ && _); [|discriminate]. destruct (has_accept evs id).
  - destruct (match max_queue_set s (path_ids s queue) with Some m => _ | None => true end); [|discriminate].
    apply Some_inj in H. subst s'. split; [apply lflag_refl|]. intros P _ HR a x Ha Hx. cbn [set_apps s_apps] in Ha.
    apply in_app_or in Ha. destruct Ha as [Ha|[<-|[]]]; [eapply HR; eassumption|]. cbn in Hx. contradiction.
  - destruct (has_reject evs id); [|discriminate]. apply Some_inj in H. subst. apply fstep_refl. Qed.

(* ------------------------------------------------------------------ AddAllocationAsk *)
Lemma g_new_ask_reqs (P : oalloc -> Prop) s a x : rv_stable P -> In a (s_apps s) -> P x -> reqs_from P s -> reqs_from P (g_new_ask s a x).
Proof. intros HP Ha Hx HR. unfold g_new_ask. cbv zeta.
  match goal with |- reqs_from P (q_inc_pending (upd_app s _ (fun _ => ?A)) _ _) => set (a4 := A) end.
  apply (reqs_set_app' P s _ (ap_id a) a4); [reflexivity| |exact HR].
  unfold a4. cbn [ap_set_ledgers ap_with ap_requests].
  assert (G : LP P (put_alloc x (ap_requests (if (ap_state a =? ST_New)%N || (ap_state a =? ST_Completing)%N then app_fire a AvRun else a)))).
  { apply LP_put; [exact Hx|]. destruct (_ || _); [eapply LP_incl; [apply app_fire_reqs|]|]; eapply LP_app; eassumption. }
  destruct (oa_ph x); exact G. Qed.
Lemma g_new_ask_sinv s a x : In a (s_apps s) -> req_ok x -> SInv s -> SInv (g_new_ask s a x).
Proof. intros Ha Hx HI. apply SInv_of; [change (LOK (s_nodes s)); apply SInv_LOK; exact HI|]. apply g_new_ask_reqs; [apply rv_req_ok|exact Ha|exact Hx|apply HI]. Qed.

(* ------------------------------------------------------------------ recovered placeholder *)
Lemma g_recovered_sinv s a n x s' : g_recovered s a n x = Some s' -> In a (s_apps s) -> In n (s_nodes s) -> SInv s -> Bounded s ->
  req_ok x -> rsmall (oa_res x) -> ~ In (oa_key x) (akeys (on_allocs n)) -> SInv s'.
Proof. unfold g_recovered. intros H Ha Hn HI HB [Wx Fx] Sx Hfresh.
  destruct (n_add n x true) as [n'|] eqn:Eadd; [|discriminate]. apply Some_inj in H. subst s'.
  eapply (SInv_set_node s _ (on_id n) n'); [reflexivity| | | |exact HI].
  - eapply n_add_ledger; [exact Eadd|apply HI; assumption|apply HI; assumption|apply HB; assumption|exact Wx|exact Sx|].
    unfold alloc_list_of. rewrite Fx. exact Hfresh.
  - eapply n_add_wf; [exact Eadd|apply HI; assumption|exact Wx].
  - eapply (reqs_set_app' req_ok s _ (ap_id a)); [reflexivity| |apply HI].
    eapply LP_incl; [apply app_add_alloc_reqs|].
    assert (G : LP req_ok (put_alloc x (ap_requests a))) by (apply LP_put; [split; assumption|eapply LP_app; [apply HI|exact Ha]]).
    match goal with |- LP _ (ap_requests (if ?c then app_fire ?A _ else _)) => destruct c; [eapply LP_incl; [apply app_fire_reqs|]|]; exact G end. Qed.

(* ------------------------------------------------------------------ UpdateAllocation for a placeholder the application holds *)
(* the state after the resource update *)
Definition g_mid (s : ostate) (a : oapp) (x : oalloc) (r : oreq) : ostate :=
  let newres := oget (rq_res r) in
  let delta := Prune (Sub (Some newres) (Some (oa_res x))) in
  let changed := negb (IsZero (Some delta)) && negb (IsZero (Some newres)) in
  if negb changed then s else
  if oa_allocated x then
    let a1 := ap_set_lists (ap_set_ledgers a (ap_pending a) (ap_allocated a) (Prune (Add (Some (ap_phalloc a)) (Some delta))))
                           (map_key (oa_key x) (fun y => oa_with_res y newres) (ap_requests a))
                           (map_key (oa_key x) (fun y => oa_with_res y newres) (ap_allocs a)) in
    let s0 := q_inc (upd_app s (ap_id a) (fun _ => a1)) (ap_queue a) delta in
    match find_node s0 (oa_node x) with
    | Some n => upd_node s0 (on_id n) (fun _ => n_update_alloc n (oa_key x) newres delta)
    | None => s0 end
  else
    let a1 := ap_set_lists (ap_set_ledgers a (Prune (Add (Some (ap_pending a)) (Some delta))) (ap_allocated a) (ap_phalloc a))
                           (map_key (oa_key x) (fun y => oa_with_res y newres) (ap_requests a)) (ap_allocs a) in
    q_inc_pending (upd_app s (ap_id a) (fun _ => a1)) (ap_queue a) delta.

Lemma g_update_existing_unfold s a x r : g_update_existing s a x r =
  if negb (oa_ph x) || negb (no_res a) then None else
  if oa_allocated x && match find_node s (oa_node x) with None => true | _ => false end then Some s else
  let s1 := g_mid s a x r in
  if oa_allocated x || (rq_node r =? 0)%N then Some s1 else
  match find_app s1 (ap_id a), find_node s1 (rq_node r) with
  | Some a1, Some n =>
      match find_alloc (ap_requests a1) (oa_key x) with
      | None => None
      | Some ask =>
          let bound := oa_bound ask (rq_node r) in
          match n_add n bound true with
          | None => None
          | Some n' =>
              let a2 := ap_set_lists (ap_set_ledgers a1 (Prune (Sub (Some (ap_pending a1)) (Some (oa_res ask)))) (ap_allocated a1) (ap_phalloc a1))
                                     (put_alloc bound (ap_requests a1)) (ap_allocs a1) in
              let s2 := q_dec_pending (upd_app s1 (ap_id a) (fun _ => a2)) (ap_queue a) (oa_res ask) in
              let s3 := q_inc s2 (ap_queue a) (oa_res ask) in
              let s4 := upd_node s3 (on_id n) (fun _ => n') in
              Some (add_counts (upd_app s4 (ap_id a) (fun b => app_add_alloc b false bound)) 1 1)
          end
      end
  | _, _ => None
  end.
Proof. reflexivity. Qed.

(* same nodes and same request lists as the state Model2's [ue_mid] (only application ledgers differ) *)
Lemma g_mid_like s a x r : s_nodes (g_mid s a x r) = s_nodes (ue_mid s a x r) /\ req_lists (g_mid s a x r) = req_lists (ue_mid s a x r).
Proof. unfold g_mid, ue_mid. cbv zeta. destruct (negb _); [split; reflexivity|]. destruct (oa_allocated x).
  - repeat match goal with |- context [find_node (q_inc ?S ?Q ?D) ?I] => change (find_node (q_inc S Q D) I) with (find_node s I) end.
    destruct (find_node s (oa_node x)) as [n|].
    + split; [reflexivity|]. unfold req_lists. cbn [upd_node upd_app q_inc on_path upd_queues s_apps]. rewrite !map_map. apply map_ext.
      intros b. destruct (ap_id b =? ap_id a)%N; reflexivity.
    + split; [reflexivity|]. unfold req_lists. cbn [upd_node upd_app q_inc on_path upd_queues s_apps]. rewrite !map_map. apply map_ext.
      intros b. destruct (ap_id b =? ap_id a)%N; reflexivity.
  - split; [reflexivity|]. unfold req_lists. cbn [upd_app q_inc_pending on_path upd_queues s_apps]. rewrite !map_map. apply map_ext.
    intros b. destruct (ap_id b =? ap_id a)%N; reflexivity. Qed.

Lemma g_update_existing_sinv s a x r s' : SInv s -> Bounded s ->
  find_app s (rq_app r) = Some a -> find_alloc (ap_requests a) (rq_key r) = Some x -> rq_foreign r = false ->
  wf (oget (rq_res r)) -> rsmall (oget (rq_res r)) ->
  (oa_allocated x = true -> forall n, find_node s (oa_node x) = Some n ->
     exists old, find_alloc (on_allocs n) (rq_key r) = Some old /\ oa_res old = oa_res x) ->
  (oa_allocated x = true -> forall k, small (getz (oget (rq_res r)) k - getz (oa_res x) k)) ->
  (oa_allocated x = false -> forall n, find_node s (rq_node r) = Some n -> ~ In (rq_key r) (akeys (on_allocs n))) ->
  g_update_existing s a x r = Some s' -> SInv s'.
Proof. intros HI HB Ha Hx Hnf Wr Sr Hl Hd Hf H. rewrite g_update_existing_unfold in H.
  destruct (negb (oa_ph x) || negb (no_res a)); [discriminate|].
  destruct (oa_allocated x && _); [apply Some_inj in H; subst; exact HI|]. cbv zeta in H.
  destruct (ue_mid_facts s a x r HI HB Ha Hx Hnf Wr Sr Hl Hd Hf) as (HIu & HSu & Hnu). destruct (g_mid_like s a x r) as [En Er].
  assert (HI1 : SInv (g_mid s a x r)) by (eapply SInv_transfer; eassumption).
  assert (HS1 : reqs_from req_small (g_mid s a x r)) by (eapply reqs_from_lists; eassumption).
  assert (Hn1 : oa_allocated x = false -> s_nodes (g_mid s a x r) = s_nodes s) by (intros E; rewrite En; apply Hnu; exact E).
  clear HIu HSu Hnu En Er. revert H HI1 HS1 Hn1. generalize (g_mid s a x r). intros s1 H HI1 HS1 Hn1.
  destruct (oa_allocated x) eqn:Eal; [apply Some_inj in H; subst; exact HI1|]. cbn [orb] in H.
  destruct (rq_node r =? 0)%N; [apply Some_inj in H; subst; exact HI1|]. specialize (Hn1 eq_refl).
  destruct (find_app s1 (ap_id a)) as [a1|] eqn:Ea1; [|discriminate].
  destruct (find_node s1 (rq_node r)) as [n|] eqn:En; [|discriminate].
  destruct (find_alloc (ap_requests a1) (oa_key x)) as [ask|] eqn:Eask; [|discriminate].
  destruct (n_add n (oa_bound ask (rq_node r)) true) as [n'|] eqn:Eadd; [|discriminate]. apply Some_inj in H. subst s'.
  destruct (find_app_some _ _ _ Ea1) as [Hina1 _]. destruct (find_alloc_some _ _ _ Eask) as [Hask Ek].
  destruct (find_node_some _ _ _ En) as [Hn Hid]. destruct (find_alloc_some _ _ _ Hx) as [_ Ekx].
  destruct (si_reqs _ HI1 a1 ask Hina1 Hask) as [Wk Fk]. pose proof (HS1 a1 ask Hina1 Hask) as Sk.
  assert (Hn0 : In n (s_nodes s)) by (rewrite <- Hn1; exact Hn).
  assert (En0 : find_node s (rq_node r) = Some n) by (rewrite <- (find_node_ext s s1 _ Hn1); exact En).
  eapply (SInv_set_node s1 _ (on_id n) n'); [reflexivity| | | |exact HI1].
  - eapply n_add_ledger; [exact Eadd|apply HI; assumption|apply HI; assumption|apply HB; assumption|exact Wk|exact Sk|].
    unfold alloc_list_of. cbn [oa_bound oa_foreign oa_key]. rewrite Fk, Ek, Ekx. apply (Hf eq_refl n En0).
  - eapply n_add_wf; [exact Eadd|apply HI; assumption|exact Wk].
  - match goal with |- reqs_from _ (add_counts (upd_app ?S4 _ _) _ _) => set (s4 := S4) end.
    eapply (reqs_same req_ok (upd_app s4 (ap_id a) (fun b => app_add_alloc b false (oa_bound ask (rq_node r))))); [reflexivity|].
    apply (rpres_upd_app_incl s4 (ap_id a) _ (fun b _ _ => app_add_alloc_reqs b false _) req_ok rv_req_ok).
    eapply (reqs_set_app' req_ok s1 s4 (ap_id a)); [reflexivity| |apply HI1].
    cbn [ap_set_lists ap_set_ledgers ap_with ap_requests]. apply LP_put; [split; [exact Wk|exact Fk]|]. eapply LP_app; [apply HI1|exact Hina1]. Qed.

(* ------------------------------------------------------------------ g_alloc *)
Lemma g_alloc_sinv s r s' st : st_op st = OpAlloc r -> g_alloc s r = Some s' -> SInv s -> Bounded s -> step_ok3 s st -> SInv s'.
Proof. intros Eop H HI HB [Hi Hf Hl Hd _ _ _ _]. unfold inputs_ok, bind_key_fresh2, update_listed, delta_small in *. rewrite Eop in *.
  destruct Hi as [Wr Sr]. unfold g_alloc in H.
  destruct (rq_foreign r) eqn:Hnf; [rewrite orb_true_r in H; discriminate|]. destruct (negb (rq_partition_ok r)); [discriminate|]. cbn [orb] in H.
  destruct (rq_ph r && (rq_tg r =? 0)%N); [apply Some_inj in H; subst; exact HI|].
  destruct (find_app s (rq_app r)) as [a|] eqn:Ea; [|discriminate]. destruct (find_app_some _ _ _ Ea) as [Hina _].
  destruct (negb (rq_node r =? 0)%N && _); [discriminate|]. destruct (IsZero (rq_res r) || _); [discriminate|]. cbv zeta in H.
  destruct (find_alloc (ap_requests a) (rq_key r)) as [x0|] eqn:Ex.
  - destruct (negb (oa_ph x0) && _ && _ && _ && _); [apply Some_inj in H; subst; exact HI|].
    assert (Ee : existing_ask s r = Some (a, x0)) by (unfold existing_ask; rewrite Ea, Ex; reflexivity).
    assert (Eu : upd_allocated s r = oa_allocated x0) by (unfold upd_allocated; rewrite Hnf, Ee; reflexivity).
    apply (g_update_existing_sinv s a x0 r s' HI HB Ea Ex Hnf Wr Sr); [| | |exact H].
    + intros Hal n En. rewrite Eu in Hl. apply (Hl Hal a x0 n Ee En).
    + intros Hal. rewrite Eu in Hd. apply (Hd Hal a x0 Ee).
    + intros Hal n En. rewrite Eu, Hal in Hf. unfold bind_key_fresh in Hf. rewrite Eop in Hf. specialize (Hf n En). rewrite Hnf in Hf. exact Hf.
  - assert (Eu : upd_allocated s r = false) by (unfold upd_allocated, existing_ask; rewrite Hnf, Ea, Ex; reflexivity).
    rewrite Eu in Hf. unfold bind_key_fresh in Hf. rewrite Eop in Hf.
    assert (Rx : req_ok (alloc_of_req r)) by (split; [exact Wr|exact Hnf]).
    destruct (rq_node r =? 0)%N.
    + destruct (live_for_ask (ap_state a) && _); [|discriminate]. apply Some_inj in H. subst s'. apply g_new_ask_sinv; assumption.
    + destruct (rq_ph r); [|discriminate]. destruct (find_node s (rq_node r)) as [n|] eqn:En; [|discriminate].
      destruct (find_node_some _ _ _ En) as [Hn _]. specialize (Hf n eq_refl). rewrite Hnf in Hf.
      eapply g_recovered_sinv; try eassumption. Qed.

(* ------------------------------------------------------------------ scheduling of a placeholder ask *)
Lemma g_sched_ph_sinv deny s a k nid s' : g_sched_ph deny s a k nid = Some s' -> In a (s_apps s) -> SInv s -> Bounded s ->
  (forall n, find_node s nid = Some n -> ~ In k (akeys (on_allocs n))) -> SInv s'.
Proof. unfold g_sched_ph. intros H Hina HI HB Hf.
  destruct (find_alloc (ap_requests a) k) as [ask|] eqn:Eask; [|discriminate]. destruct (find_node s nid) as [n|] eqn:En; [|discriminate].
  destruct (oa_allocated ask || _ || _ || _ || _); [discriminate|]. destruct (negb (m_node_guard deny n ask)); [discriminate|]. cbv zeta in H.
  destruct (n_add n (oa_bound ask nid) false) as [n'|] eqn:Eadd; [|discriminate].
  destruct (q_try_inc s (ap_queue a) (oa_res ask)) as [s1|] eqn:Eq; [|discriminate]. apply Some_inj in H. subst s'.
  destruct (same_na_q_try_inc _ _ _ _ Eq) as [Hn1 Ha1].
  destruct (find_node_some _ _ _ En) as [Hin Hid]. destruct (find_alloc_some _ _ _ Eask) as [Hask Ek].
  destruct (si_reqs _ HI a ask Hina Hask) as [Wr Efor]. pose proof (bd_reqs _ HB a ask Hina Hask) as Sr.
  eapply (SInv_set_node s _ nid n'); [cbn [add_counts upd_app q_dec_pending on_path upd_queues upd_node s_nodes]; rewrite Hn1; reflexivity| | | |exact HI].
  - eapply n_add_ledger; [exact Eadd|apply HI; assumption|apply HI; assumption|apply HB; assumption|exact Wr|exact Sr|].
    unfold alloc_list_of. cbn [oa_bound oa_foreign oa_key]. rewrite Efor, Ek. apply Hf. reflexivity.
  - eapply n_add_wf; [exact Eadd|apply HI; assumption|exact Wr].
  - eapply (reqs_set_app' req_ok s _ (ap_id a)); [cbn [add_counts upd_app q_dec_pending on_path upd_queues upd_node s_apps]; rewrite Ha1; reflexivity| |apply HI].
    eapply LP_incl; [apply app_add_alloc_reqs|]. cbn [ap_set_lists ap_set_ledgers ap_with ap_requests].
    apply LP_put; [split; [exact Wr|exact Efor]|]. eapply LP_app; [apply HI|exact Hina]. Qed.

(* ------------------------------------------------------------------ the start of a replacement *)
Lemma g_swap_start_sinv deny s obs app phk s' : g_swap_start deny s obs app phk = Some s' -> SInv s -> Bounded s ->
  (forall rk target n, swap_target obs app phk = Some (rk, target) -> find_node s target = Some n -> ~ In rk (akeys (on_allocs n))) -> SInv s'.
Proof. unfold g_swap_start. intros H HI HB Hf.
  destruct (find_app s app) as [a|] eqn:Ea; [|discriminate]. destruct (find_app obs app) as [a'|] eqn:Ea'; [|discriminate].
  destruct (negb (no_res a)); [discriminate|].
  destruct (find_alloc (ap_allocs a) phk) as [ph|] eqn:Eph; [|discriminate]. destruct (find_alloc (ap_allocs a') phk) as [ph'|] eqn:Eph'; [|discriminate].
  cbv zeta in H. destruct (find_alloc (ap_requests a) (oa_release ph')) as [real|] eqn:Ereal; [|discriminate].
  destruct (find_alloc (ap_requests a') (oa_release ph')) as [real'|] eqn:Ereal'; [|discriminate].
  assert (Et : swap_target obs app phk = Some (oa_release ph', oa_node real')) by (unfold swap_target; rewrite Ea', Eph', Ereal'; reflexivity).
  pose proof (fun n => Hf _ _ n Et) as Hf'. clear Hf Et. rename Hf' into Hf.
  destruct (IsZero (Some (ap_phalloc a))); [discriminate|]. destruct (oa_ph real || _ || _); [discriminate|].
  destruct (negb (oa_ph ph) || _ || _ || _); [discriminate|]. destruct (HasNegativeValue _); [discriminate|].
  destruct (find_app_some _ _ _ Ea) as [Hina _]. destruct (find_alloc_some _ _ _ Ereal) as [Hreal Ekr].
  destruct (si_reqs _ HI a real Hina Hreal) as [Wr Efor]. pose proof (bd_reqs _ HB a real Hina Hreal) as Sr.
  set (rk := oa_release ph') in *. set (target := oa_node real') in *. set (real1 := oa_set_link (oa_bound real target) phk) in *.
  match type of H with context [obj_upd ?S1 app phk ?F] => set (s2 := obj_upd S1 app phk F) in * end.
  assert (F2 : fstep s s2).
  { unfold s2. eapply fstep_trans; [|apply fstep_obj_upd, flagf_rel_link].
    eapply fstep_trans; [|apply same_na_fstep, same_na_q_dec_pending].
    apply (fstep_upd_app_const s app a _ Hina). intros P HP HL. cbn [ap_set_lists ap_set_ledgers ap_with ap_requests].
    apply LP_map_key; [|exact HL]. intros y _. apply (HP real real1); [reflexivity|reflexivity|]. apply HL. exact Hreal. }
  assert (HI2 : SInv s2) by (eapply fstep_sinv; eassumption).
  destruct (target =? oa_node ph)%N.
  - destruct (find_node s target); [|discriminate]. destruct (denied deny rk target); [discriminate|]. apply Some_inj in H. subst s'. exact HI2.
  - destruct (match find_node s (oa_node ph) with Some _ => _ | None => false end); [discriminate|].
    destruct (find_node s target) as [n|] eqn:En; [|discriminate]. destruct (negb _); [discriminate|].
    destruct (n_add n real1 false) as [n'|] eqn:Eadd; [|discriminate]. apply Some_inj in H. subst s'.
    destruct (find_node_some _ _ _ En) as [Hin Hid].
    eapply (SInv_set_node s2 _ target n'); [reflexivity| | | |exact HI2].
    + eapply n_add_ledger; [exact Eadd|apply HI; assumption|apply HI; assumption|apply HB; assumption|exact Wr|exact Sr|].
      unfold alloc_list_of. cbn [real1 oa_set_link oa_bound oa_foreign oa_key]. rewrite Efor, Ekr. apply Hf. reflexivity.
    + eapply n_add_wf; [exact Eadd|apply HI; assumption|exact Wr].
    + eapply reqs_same; [|apply HI2]. reflexivity. Qed.

(* ------------------------------------------------------------------ the scheduling cycle with gang activity *)
Definition new_proj (e : oevent) : N * N * N := match e with ENewAlloc k a n _ _ => (k, a, n) | _ => (0, 0, 0)%N end.
Definition is_new (e : oevent) : bool := match e with ENewAlloc _ _ _ _ _ => true | _ => false end.
Lemma newallocs_filter evs : newallocs_of evs = map new_proj (filter is_new evs).
Proof. unfold newallocs_of. induction evs as [|e t IH]; [reflexivity|]. cbn [flat_map filter]. rewrite IH. destruct e; reflexivity. Qed.
Lemma newallocs_single evs k a n : newallocs_of evs = [(k, a, n)] -> is_new_alloc_for evs = Some (k, a, n).
Proof. rewrite newallocs_filter. unfold is_new_alloc_for. fold is_new. intros H.
  destruct (filter is_new evs) as [|e [|e2 t]] eqn:E; try discriminate.
  assert (He : is_new e = true) by (assert (In e (filter is_new evs)) by (rewrite E; left; reflexivity); apply filter_In in H0; tauto).
  destruct e; try discriminate. cbn in H. inversion H. reflexivity. Qed.

Lemma g_sched_sinv deny s st s' : st_op st = OpSched -> g_sched deny s st = Some s' -> SInv s -> Bounded s -> step_ok3 s st -> SInv s'.
Proof. intros Eop H HI HB [_ Hf _ _ Hs _ _ _]. unfold bind_key_fresh2, bind_key_fresh, swap_fresh in *. rewrite Eop in *.
  unfold g_sched in H. cbv zeta in H. destruct (negb (Nat.eqb _ _)); [discriminate|].
  destruct (g_cancel_all s _) as [s1|] eqn:Ec; [|discriminate]. destruct (g_cancel_all_fstep _ _ _ Ec) as [F1 Q1].
  assert (HI1 : SInv s1) by (eapply fstep_sinv; eassumption). assert (HB1 : Bounded s1) by (eapply fstep_bounded; eassumption).
  assert (Hfind : forall id n1 k, find_node s1 id = Some n1 -> (forall n, find_node s id = Some n -> ~ In k (akeys (on_allocs n))) -> ~ In k (akeys (on_allocs n1))).
  { intros id n1 k E1 Hk. destruct (lflag_find s s1 id n1 (proj1 F1) E1) as (n & En & Hsim). rewrite (nsim_keys _ _ Hsim). apply Hk. exact En. }
  destruct (filter (fun p => (snd p =? TT_PlaceholderReplaced)%N) (releases_of (st_events st))) as [|[[phk app] t] [|p2 rest]] eqn:Erepl;
    destruct (newallocs_of (st_events st)) as [|[[k app'] nid] [|q2 rest']] eqn:Enew; try discriminate.
  - destruct (filter _ _); [discriminate|]. destruct (Z.eqb _ _); [|discriminate]. apply Some_inj in H. subst. exact HI1.
  - destruct (find_app s1 app') as [a|] eqn:Ea; [|discriminate]. destruct (find_app_some _ _ _ Ea) as [Hina _].
    destruct (find_alloc (ap_requests a) k) as [ask|]; [|discriminate].
    pose proof (newallocs_single _ _ _ _ Enew) as Enew'.
    assert (Hfr : forall n1, find_node s1 nid = Some n1 -> ~ In k (akeys (on_allocs n1))).
    { intros n1 E1. apply (Hfind nid n1 k E1). intros n En. eapply Hf; eassumption. }
    destruct (oa_ph ask).
    + eapply g_sched_ph_sinv; eassumption.
    + destruct (filter _ _); [discriminate|]. eapply m_sched_sinv; eassumption.
  - assert (Hin : In (phk, app, t) (filter (fun p => (snd p =? TT_PlaceholderReplaced)%N) (releases_of (st_events st)))) by (rewrite Erepl; left; reflexivity).
    apply filter_In in Hin. destruct Hin as [Hin Ht]. cbn [snd] in Ht. apply N.eqb_eq in Ht.
    eapply g_swap_start_sinv; [exact H|exact HI1|exact HB1|]. intros rk target n1 Et E1. apply (Hfind target n1 rk E1).
    intros n En. eapply Hs; eassumption. Qed.
