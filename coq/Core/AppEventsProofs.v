(* Proofs for Core/AppEvents.v (property C10): the release path only makes documented moves; the clause
   "Completed implies no live real allocation" holds for the release path without a swap in flight and is refuted
   with a swap in flight (finding C10-completed-live-alloc). *)
From Coq Require Import List ZArith NArith Bool Lia.
From YK Require Import Base.Res Core.Obs Generated.AppFsm Core.AppLife Core.AppLifeProofs Core.AppEvents.
Import ListNotations.
Open Scope N_scope.

(* ---- documented reachability ---- *)
Definition dstar (a b : N) : Prop := exists l, doc_path a l b = true.

Lemma dstar_refl : forall a, dstar a a.
Proof. intros a. exists []. cbn. apply N.eqb_refl. Qed.

Lemma doc_path_app : forall l1 l2 a b c, doc_path a l1 b = true -> doc_path b l2 c = true -> doc_path a (l1 ++ l2) c = true.
Proof.
  induction l1 as [|x t IH]; intros l2 a b c H1 H2; cbn [doc_path app] in *.
  - apply N.eqb_eq in H1. now subst.
  - apply andb_true_iff in H1 as [Hd Hp]. rewrite Hd. cbn [andb]. eapply IH; eassumption.
Qed.

Lemma dstar_trans : forall a b c, dstar a b -> dstar b c -> dstar a c.
Proof. intros a b c [l1 H1] [l2 H2]. exists (l1 ++ l2). eapply doc_path_app; eassumption. Qed.

Lemma dstar_step : forall a b, documented a b = true -> dstar a b.
Proof. intros a b H. exists [b]. cbn [doc_path]. now rewrite H, N.eqb_refl. Qed.

Lemma fire_dstar : forall r e, dstar (rs_state r) (rs_state (fire r e)).
Proof.
  intros r e. unfold fire. pose proof (handle_event_documented (rs_state r) e) as H.
  destruct (handle_event (rs_state r) e) as [d res]. destruct res; try apply dstar_refl.
  cbn. apply dstar_step. apply H.
Qed.

Lemma fire_fields : forall r e,
  rs_pending (fire r e) = rs_pending r /\ rs_allocated (fire r e) = rs_allocated r /\ rs_phalloc (fire r e) = rs_phalloc r /\
  rs_requests (fire r e) = rs_requests r /\ rs_allocs (fire r e) = rs_allocs r.
Proof. intros r e. unfold fire. destruct (handle_event (rs_state r) e) as [d res]. destruct res; cbn; auto. Qed.

Lemma remove_alloc_dstar : forall r x, dstar (rs_state r) (rs_state (remove_alloc r x)).
Proof.
  intros r x. unfold remove_alloc. cbn [rs_state].
  destruct (oa_ph x).
  - destruct (zero _); [|apply dstar_refl]. destruct (_ || _ || _ || _); [|apply dstar_refl].
    match goal with |- dstar _ (rs_state (fire ?r0 ?e)) => apply (fire_dstar r0 e) end.
  - destruct (_ && _); [|apply dstar_refl].
    match goal with |- dstar _ (rs_state (fire ?r0 ?e)) => apply (fire_dstar r0 e) end.
Qed.

Lemma add_replaced_dstar : forall r x, dstar (rs_state r) (rs_state (add_replaced r x)).
Proof.
  intros r x. unfold add_replaced. cbn [rs_state]. destruct (_ || _); [apply fire_dstar|apply dstar_refl].
Qed.

Lemma remove_ask_dstar : forall r k, dstar (rs_state r) (rs_state (remove_ask r k)).
Proof.
  intros r k. unfold remove_ask. destruct (rs_requests r) as [|q t] eqn:E; [apply dstar_refl|].
  destruct (find_alloc (q :: t) k) as [ask|].
  - destruct (_ && _ && _ && _ && _); [|apply dstar_refl].
    match goal with |- dstar _ (rs_state (fire ?r0 ?e)) => apply (fire_dstar r0 e) end.
  - destruct (_ && _ && _ && _ && _); [apply fire_dstar|apply dstar_refl].
Qed.

(* whatever a single-key release does to the state of an application is a sequence of documented moves *)
Theorem release_documented : forall r key ty, dstar (rs_state r) (rs_state (release_key r key ty)).
Proof.
  intros r key ty. unfold release_key.
  set (r1 := match find_alloc (rs_allocs r) key with
             | Some x => if (ty =? TT_PlaceholderReplaced) && negb (oa_release x =? 0)
                         then match find_alloc (rs_requests r) (oa_release x) with Some real => add_replaced (remove_alloc r x) real | None => remove_alloc r x end
                         else remove_alloc r x
             | None => r end).
  assert (H1 : dstar (rs_state r) (rs_state r1)).
  { subst r1. destruct (find_alloc (rs_allocs r) key) as [x|]; [|apply dstar_refl].
    destruct (_ && _); [|apply remove_alloc_dstar].
    destruct (find_alloc (rs_requests r) (oa_release x)) as [real|]; [|apply remove_alloc_dstar].
    eapply dstar_trans; [apply remove_alloc_dstar|apply add_replaced_dstar]. }
  destruct (ty =? TT_Timeout); [exact H1|]. eapply dstar_trans; [exact H1|apply remove_ask_dstar].
Qed.

(* ---- Completed is clean: refuted with a swap in flight ... ---- *)
Theorem completed_clean_refuted :
  let r := release_key w13 7 TT_PlaceholderReplaced in
  rs_state w13 = ST_Completing /\ rs_state r = ST_Completed /\ existsb (fun x => negb (oa_ph x)) (rs_allocs r) = true /\
  zero (rs_allocated r) = false.
Proof. vm_compute. repeat split; reflexivity. Qed.

(* ---- ... and true of the release path without one ---- *)
Definition into_completed_table (t : list (N * N * N)) : bool :=
  forallb (fun x => let '(s, e, d) := x in negb (d =? ST_Completed) || (s =? ST_Completing)) t.
Lemma into_completed_ok : into_completed_table app_fsm_table = true.
Proof. vm_compute. reflexivity. Qed.

Lemma fire_into_completed : forall r e, rs_state (fire r e) = ST_Completed -> rs_state r = ST_Completed \/ rs_state r = ST_Completing.
Proof.
  intros r e H. unfold fire in H. unfold handle_event, handle_event_with in H.
  destruct (fsm_lookup app_fsm_table (rs_state r) e) as [d|] eqn:L; [|now left].
  destruct (d =? rs_state r) eqn:E; [now left|]. cbn in H. subst d. right.
  apply fsm_lookup_in in L. pose proof into_completed_ok as T. unfold into_completed_table in T.
  rewrite forallb_forall in T. specialize (T _ L). cbn beta iota in T. rewrite N.eqb_refl in T. cbn in T. now apply N.eqb_eq.
Qed.

Lemma remove_alloc_completed : forall r x,
  (rs_state r = ST_Completing -> zero (rs_allocated r) = true) ->
  rs_state r <> ST_Completed ->
  rs_state (remove_alloc r x) = ST_Completed ->
  zero (rs_allocated (remove_alloc r x)) = true.
Proof.
  intros r x Hinv Hne. unfold remove_alloc. cbn [rs_state rs_allocated]. destruct (oa_ph x).
  - destruct (zero (Prune (Sub (Some (rs_phalloc r)) (Some (oa_res x))))); [|intros Hc; cbn in Hc; congruence].
    destruct (_ || _ || _ || _); [|intros Hc; cbn in Hc; congruence].
    match goal with |- rs_state (fire ?r0 ?e) = _ -> _ => intros Hc; destruct (fire_fields r0 e) as [_ [Hal _]];
      apply fire_into_completed in Hc as [Hc|Hc]; cbn in Hc; [congruence|rewrite Hal; cbn; now apply Hinv] end.
  - destruct (zero (rs_pending r) && zero (Prune (Sub (Some (rs_allocated r)) (Some (oa_res x))))) eqn:C.
    + match goal with |- rs_state (fire ?r0 ?e) = _ -> _ => intros _; destruct (fire_fields r0 e) as [_ [Hal _]]; rewrite Hal; cbn end.
      now apply andb_true_iff in C as [_ C].
    + intros Hc. cbn in Hc. congruence.
Qed.

Lemma remove_ask_completed : forall q k,
  rs_allocated (remove_ask q k) = rs_allocated q /\ (rs_state (remove_ask q k) = ST_Completed -> rs_state q = ST_Completed).
Proof.
  intros q k. unfold remove_ask. destruct (rs_requests q) as [|a0 t]; [auto|].
  set (q1 := match find_alloc (a0 :: t) k with
             | Some ask => mkRS (rs_state q) (rs_timer q) (if oa_allocated ask then rs_pending q else Prune (Sub (Some (rs_pending q)) (Some (oa_res ask))))
                                (rs_allocated q) (rs_phalloc q) (drop_key k (a0 :: t)) (rs_allocs q)
             | None => q end).
  assert (Hq1 : rs_state q1 = rs_state q /\ rs_allocated q1 = rs_allocated q) by (subst q1; destruct (find_alloc (a0 :: t) k); cbn; auto).
  destruct Hq1 as [Hs Ha].
  destruct (zero (rs_pending q1) && zero (rs_allocated q1) && negb (rs_state q1 =? ST_Failing) && negb (rs_state q1 =? ST_Completing) &&
            negb (existsb oa_ph (rs_allocs q1))) eqn:C.
  - destruct (fire_fields q1 EV_Complete) as [_ [Hal _]]. split; [now rewrite Hal|].
    intros Hc. apply fire_into_completed in Hc as [Hc|Hc]; [now rewrite <- Hs|].
    apply andb_true_iff in C as [C _]. apply andb_true_iff in C as [_ C]. apply negb_true_iff in C. apply N.eqb_neq in C. congruence.
  - split; [exact Ha|]. intros Hc. now rewrite <- Hs.
Qed.

(* the release path without a swap in flight: if the application becomes Completed by the release, and Completing
   applications have no real allocation booked (the ledger invariant of the Completing state: both ledgers are zero when
   it is entered and any new ask or allocation moves the application back to Running), then no real allocation is
   booked afterwards.
   Full clause of the property: `state = Completed -> no outstanding ask /\ no live real allocation` for every history;
   what is missing here: the other writers of the state (ask addition, scheduling, timers, node and application removal)
   and the link between the allocated ledger and the allocation list (C03). With a swap in flight the clause is false:
   completed_clean_refuted. *)
Theorem completed_clean_partial : forall r key ty,
  (rs_state r = ST_Completing -> zero (rs_allocated r) = true) ->
  (forall x, find_alloc (rs_allocs r) key = Some x -> (ty =? TT_PlaceholderReplaced) && negb (oa_release x =? 0) = false) ->
  rs_state r <> ST_Completed ->
  rs_state (release_key r key ty) = ST_Completed ->
  zero (rs_allocated (release_key r key ty)) = true.
Proof.
  intros r key ty Hinv Hnoswap Hne Hfin. unfold release_key in *.
  destruct (find_alloc (rs_allocs r) key) as [x|] eqn:Ex.
  - rewrite (Hnoswap x eq_refl) in *.
    destruct (ty =? TT_Timeout).
    + now apply remove_alloc_completed.
    + destruct (remove_ask_completed (remove_alloc r x) key) as [Ha Hs]. rewrite Ha.
      apply remove_alloc_completed; auto.
  - destruct (ty =? TT_Timeout); [congruence|].
    destruct (remove_ask_completed r key) as [_ Hs]. exfalso. auto.
Qed.

(* the hypotheses are satisfiable: a Completing application whose last placeholder is released by the shim *)
Example completed_clean_example :
  let r := mkRS ST_Completing false [] [] [(1, 2%Z)] [w13_ph] [mkOA 7 5 1 [(1, 2%Z)] true 8 true false false 0 0 0%Z false false true false] in
  rs_state (release_key r 7 TT_StoppedByRM) = ST_Completed /\ zero (rs_allocated (release_key r 7 TT_StoppedByRM)) = true.
Proof. vm_compute. split; reflexivity. Qed.
