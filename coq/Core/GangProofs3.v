(* C06 - proofs about the component model Core/Gang.v, part 3: per task group replaced <= count as an
   invariant over all operation sequences.
   Idea: count[tg] counts the placeholder asks ever added for tg; every one of them that can still be removed
   from the allocations map ("live": allocated, or pending) is counted by [cnt]; a removal with
   PLACEHOLDER_REPLACED moves one from [cnt] to replaced.  Invariant: replaced + cnt <= count. *)
From Coq Require Import List ZArith NArith Bool Lia ZifyBool ZifyNat ZifyN.
From YK Require Import Base.Res Core.Obs Core.GangPred Core.MaxApps Core.Gang Core.GangProofs Core.ReserveLemmas.
Import ListNotations.
Open Scope N_scope.
Set Default Timeout 60.

Definition live (o : gal) : bool := g_alloc o || (g_req o && negb (g_allocated o)).
Definition cph (tg : N) (o : gal) : bool := g_ph o && (g_tg o =? tg) && live o.
Definition cnt (tg : N) (l : list gal) : Z := Z.of_nat (length (filter (cph tg) l)).

Lemma present_cnt s tg : present s tg = cnt tg (gs_objs s).
Proof. reflexivity. Qed.

(* pointwise relation between object lists: same key, kind and task group; a placeholder that is live
   afterwards was live before; a placeholder that is in the allocations map afterwards was there before with
   the same allocated flag, or is marked allocated *)
Definition Shr (o o' : gal) : Prop :=
  g_key o' = g_key o /\ g_ph o' = g_ph o /\ g_tg o' = g_tg o /\
  (g_ph o = true -> (live o' = true -> live o = true) /\
                    (g_alloc o' = true -> (g_alloc o = true /\ g_allocated o' = g_allocated o) \/ g_allocated o' = true)).
Definition LS (l l' : list gal) : Prop := Forall2 Shr l l'.

Lemma Shr_refl o : Shr o o. Proof. unfold Shr. repeat split; auto. Qed.
Lemma Shr_trans a b c : Shr a b -> Shr b c -> Shr a c.
Proof.
  intros [A0 [A1 [A2 A3]]] [B0 [B1 [B2 B3]]]. unfold Shr. repeat split; try congruence.
  - intros Hl. destruct (A3 H) as [A3a _]. apply A3a. assert (g_ph b = true) as Hb by congruence. destruct (B3 Hb) as [B3a _]. auto.
  - intros Ha. assert (g_ph b = true) as Hb by congruence. destruct (B3 Hb) as [_ B3b]. destruct (A3 H) as [_ A3b].
    destruct (B3b Ha) as [[X1 X2]|X]; [|right; exact X]. destruct (A3b X1) as [[Y1 Y2]|Y]; [left; split; congruence|right; congruence].
Qed.
Lemma Shr_real o o' : g_ph o = false -> g_key o' = g_key o -> g_ph o' = g_ph o -> g_tg o' = g_tg o -> Shr o o'.
Proof. intros H K P T. unfold Shr. repeat split; auto; congruence. Qed.
Lemma LS_refl l : LS l l.
Proof. induction l; constructor; [apply Shr_refl|assumption]. Qed.
Lemma LS_trans a b c : LS a b -> LS b c -> LS a c.
Proof.
  intro H. revert c. induction H as [|x y l l' Hxy Hl IH]; intros c Hc; inversion Hc; subst; [constructor|].
  constructor; [eapply Shr_trans; eauto|apply IH; assumption].
Qed.
Lemma LS_map f l : (forall o, Shr o (f o)) -> LS l (map f l).
Proof. intro H. induction l; cbn [map]; constructor; auto. Qed.
(* upd_first changes the element find returns, nothing else *)
Lemma LS_upd sel f l : (forall x, find sel l = Some x -> Shr x (f x)) -> LS l (upd_first sel f l).
Proof.
  induction l as [|h t IH]; cbn [upd_first find]; intro H; [constructor|].
  destruct (sel h) eqn:E; constructor; [apply H; reflexivity|apply LS_refl|apply Shr_refl|apply IH; exact H].
Qed.
Lemma LS_find k l l' x : LS l l' -> find (fun o => g_key o =? k) l = Some x ->
  exists x', find (fun o => g_key o =? k) l' = Some x' /\ Shr x x'.
Proof.
  intro H. induction H as [|o o' l l' Ho Hl IH]; cbn [find]; intro Hf; [discriminate|].
  destruct Ho as [K R]. rewrite K. destruct (g_key o =? k).
  - inversion Hf; subst. exists o'. split; [reflexivity|split; assumption].
  - apply IH. exact Hf.
Qed.

(* the elementary flag updates *)
Lemma Shr_set_req o : Shr o (o_set_req false o).
Proof.
  unfold Shr, live. cbn. repeat split; auto. intro H0. rewrite orb_false_r in H0. rewrite H0. reflexivity.
Qed.
Lemma Shr_set_alloc_false o : Shr o (o_set_alloc false o).
Proof.
  unfold Shr, live. cbn. repeat split; auto; try discriminate. intro H0. rewrite H0. apply orb_true_r.
Qed.
Lemma Shr_set_released b o : Shr o (o_set_released b o).
Proof. unfold Shr, live. cbn. repeat split; auto. Qed.
Lemma Shr_set_link x o : Shr o (o_set_link x o).
Proof. unfold Shr, live. cbn. repeat split; auto. Qed.

Lemma cph_le tg o o' : Shr o o' -> cph tg o' = true -> cph tg o = true.
Proof.
  intros [_ [H1 [H2 H3]]]. unfold cph. rewrite H1, H2. intro H. apply andb_true_iff in H. destruct H as [H Hl].
  apply andb_true_iff in H. destruct H as [Hp Ht]. rewrite Hp, Ht. cbn [andb]. apply H3; [exact Hp|exact Hl].
Qed.

Lemma cnt_LS tg l l' : LS l l' -> (cnt tg l' <= cnt tg l)%Z.
Proof.
  unfold cnt. intro H. induction H as [|o o' l l' Ho Hl IH]; [lia|]. cbn [filter].
  destruct (cph tg o') eqn:E'.
  - rewrite (cph_le tg o o' Ho E'). cbn [length]. lia.
  - destruct (cph tg o); cbn [length]; lia.
Qed.

(* exactly one selected element stops being counted *)
Lemma cnt_upd_strict tg sel f l o :
  find sel l = Some o -> cph tg o = true -> cph tg (f o) = false -> (cnt tg (upd_first sel f l) + 1 = cnt tg l)%Z.
Proof.
  unfold cnt. induction l as [|h t IH]; cbn [find upd_first]; intros Hf Ho Hfo; [discriminate|].
  destruct (sel h) eqn:E.
  - inversion Hf; subst h. cbn [filter]. rewrite Ho, Hfo. cbn [length]. lia.
  - cbn [filter]. specialize (IH Hf Ho Hfo). destruct (cph tg h); cbn [length]; lia.
Qed.

Lemma cnt_app tg l1 l2 : cnt tg (l1 ++ l2) = (cnt tg l1 + cnt tg l2)%Z.
Proof. unfold cnt. rewrite filter_app, app_length. lia. Qed.

Lemma cnt_filter_dead tg (p : gal -> bool) l :
  (forall o, In o l -> p o = false -> live o = false) -> cnt tg (filter p l) = cnt tg l.
Proof.
  unfold cnt. induction l as [|h t IH]; intro H; [reflexivity|]. cbn [filter].
  assert (forall o, In o t -> p o = false -> live o = false) as H' by (intros o Ho; apply H; right; exact Ho).
  specialize (IH H'). destruct (p h) eqn:E; cbn [filter].
  - destruct (cph tg h); cbn [length]; lia.
  - assert (cph tg h = false) as X. { unfold cph. rewrite (H h (or_introl eq_refl) E). apply andb_false_r. }
    rewrite X. exact IH.
Qed.

(* ---------- placeholder data ---------- *)
(* entries of d' correspond to entries of d with the same count and replaced *)
Definition PdLe (d d' : phdata) : Prop :=
  map fst d' = map fst d /\
  forall e', In e' d' -> exists e, In e d /\ fst e' = fst e /\ pd_count e' = pd_count e /\ pd_replaced e' = pd_replaced e.

Lemma PdLe_refl d : PdLe d d.
Proof. split; [reflexivity|]. intros e He. exists e. auto. Qed.
Lemma PdLe_trans a b c : PdLe a b -> PdLe b c -> PdLe a c.
Proof.
  intros [A1 A2] [B1 B2]. split; [congruence|]. intros e He. destruct (B2 e He) as [e1 [H1 [H2 [H3 H4]]]].
  destruct (A2 e1 H1) as [e0 [G1 [G2 [G3 G4]]]]. exists e0. repeat split; congruence.
Qed.

Lemma pd_upd_keys tg f d : map fst (pd_upd tg f d) = map fst d.
Proof. unfold pd_upd. rewrite map_map. apply map_ext. intro e. destruct (fst e =? tg); reflexivity. Qed.

Lemma pd_upd_in tg f d e' : In e' (pd_upd tg f d) ->
  exists e, In e d /\ fst e' = fst e /\ snd e' = (if fst e =? tg then f (snd e) else snd e).
Proof.
  unfold pd_upd. rewrite in_map_iff. intros [e [He Hi]]. exists e. split; [exact Hi|].
  destruct (fst e =? tg); subst e'; auto.
Qed.

Lemma PdLe_timedout tg d : PdLe d (pd_timedout_inc tg d).
Proof.
  split; [apply pd_upd_keys|]. intros e' He'. apply pd_upd_in in He'. destruct He' as [e [He [H1 H2]]]. exists e.
  split; [exact He|]. split; [exact H1|]. unfold pd_count, pd_replaced. rewrite H2. destruct (fst e =? tg); auto.
Qed.

Lemma PdLe_fold_timedout (g : phdata -> gal -> bool) l : forall d,
  PdLe d (fold_left (fun d o => if g d o then pd_timedout_inc (g_tg o) d else d) l d).
Proof.
  induction l as [|o t IH]; intro d; cbn [fold_left]; [apply PdLe_refl|].
  eapply PdLe_trans; [|apply IH]. destruct (g d o); [apply PdLe_timedout|apply PdLe_refl].
Qed.

(* ---------- the invariant ---------- *)
Definition Inv (s : gst) : Prop :=
  NoDup (map fst (gs_pd s)) /\
  (forall e, In e (gs_pd s) -> (pd_replaced e + cnt (fst e) (gs_objs s) <= pd_count e)%Z) /\
  (forall o, In o (gs_objs s) -> g_ph o = true -> g_alloc o = true -> g_allocated o = true).

(* a helper step that only shrinks *)
Definition Mono (s s' : gst) : Prop := LS (gs_objs s) (gs_objs s') /\ PdLe (gs_pd s) (gs_pd s').

Lemma Mono_refl s : Mono s s. Proof. split; [apply LS_refl|apply PdLe_refl]. Qed.
Lemma Mono_trans a b c : Mono a b -> Mono b c -> Mono a c.
Proof. intros [A1 A2] [B1 B2]. split; [eapply LS_trans; eauto|eapply PdLe_trans; eauto]. Qed.

Lemma J_LS l l' :
  (forall o, In o l -> g_ph o = true -> g_alloc o = true -> g_allocated o = true) -> LS l l' ->
  forall o', In o' l' -> g_ph o' = true -> g_alloc o' = true -> g_allocated o' = true.
Proof.
  intros HJ H. induction H as [|o o' l l' [K [P [T R]]] Hl IH]; intros x Hx Hp Ha; [contradiction|].
  destruct Hx as [Hx|Hx].
  - subst x. assert (g_ph o = true) as Hpo by congruence. destruct (R Hpo) as [_ R2].
    destruct (R2 Ha) as [[A1 A2]|A]; [|exact A]. rewrite A2. apply HJ; [left; reflexivity|exact Hpo|exact A1].
  - apply IH; auto. intros y Hy. apply HJ. right. exact Hy.
Qed.

Lemma Inv_Mono s s' : Inv s -> Mono s s' -> Inv s'.
Proof.
  intros [Hnd [Hc Hj]] [Hls [Hk Hpd]]. split; [rewrite Hk; exact Hnd|]. split; [|eapply J_LS; eauto].
  intros e' He'. destruct (Hpd e' He') as [e [He [E1 [E2 E3]]]]. specialize (Hc e He).
  pose proof (cnt_LS (fst e) _ _ Hls). rewrite E1, E2, E3. lia.
Qed.

(* ---------- steps that move one placeholder from [cnt] to replaced ---------- *)
Definition PdRepl (tg : N) (d d' : phdata) : Prop :=
  map fst d' = map fst d /\
  forall e', In e' d' -> exists e, In e d /\ fst e' = fst e /\ pd_count e' = pd_count e /\
                                  pd_replaced e' = (pd_replaced e + (if N.eqb (fst e) tg then 1 else 0))%Z.
Definition Repl (s s' : gst) : Prop :=
  LS (gs_objs s) (gs_objs s') /\ exists tg, PdRepl tg (gs_pd s) (gs_pd s') /\ (cnt tg (gs_objs s') + 1 <= cnt tg (gs_objs s))%Z.
Definition Step (s s' : gst) : Prop := Mono s s' \/ Repl s s'.

Lemma PdRepl_inc tg d : PdRepl tg d (pd_replaced_inc tg d).
Proof.
  split; [apply pd_upd_keys|]. intros e' He'. apply pd_upd_in in He'. destruct He' as [e [He [H1 H2]]]. exists e.
  split; [exact He|]. split; [exact H1|]. unfold pd_count, pd_replaced. rewrite H2. destruct (fst e =? tg); cbn; split; lia.
Qed.
Lemma PdLe_Repl tg a b c : PdLe a b -> PdRepl tg b c -> PdRepl tg a c.
Proof.
  intros [A1 A2] [B1 B2]. split; [congruence|]. intros e He. destruct (B2 e He) as [e1 [H1 [H2 [H3 H4]]]].
  destruct (A2 e1 H1) as [e0 [G1 [G2 [G3 G4]]]]. exists e0. rewrite <- G2. repeat split; congruence.
Qed.
Lemma PdRepl_Le tg a b c : PdRepl tg a b -> PdLe b c -> PdRepl tg a c.
Proof.
  intros [A1 A2] [B1 B2]. split; [congruence|]. intros e He. destruct (B2 e He) as [e1 [H1 [H2 [H3 H4]]]].
  destruct (A2 e1 H1) as [e0 [G1 [G2 [G3 G4]]]]. exists e0. repeat split; congruence.
Qed.

Lemma Mono_Step a b c : Mono a b -> Step b c -> Step a c.
Proof.
  intros Hab [Hbc|[L [tg [P C]]]]; [left; eapply Mono_trans; eauto|]. right. destruct Hab as [L0 P0].
  split; [eapply LS_trans; eauto|]. exists tg. split; [eapply PdLe_Repl; eauto|]. pose proof (cnt_LS tg _ _ L0). lia.
Qed.
Lemma Step_Mono a b c : Step a b -> Mono b c -> Step a c.
Proof.
  intros [Hab|[L [tg [P C]]]] Hbc; [left; eapply Mono_trans; eauto|]. right. destruct Hbc as [L0 P0].
  split; [eapply LS_trans; eauto|]. exists tg. split; [eapply PdRepl_Le; eauto|]. pose proof (cnt_LS tg _ _ L0). lia.
Qed.

(* a live placeholder has a data entry *)
Definition HasEntry (s : gst) : Prop := forall o, In o (gs_objs s) -> g_ph o = true -> live o = true -> pd_has (gs_pd s) (g_tg o) = true.

Lemma LS_in l l' o' : LS l l' -> In o' l' -> exists o, In o l /\ Shr o o'.
Proof.
  intro H. induction H as [|x y l l' Hxy Hl IH]; intro Hi; [contradiction|]. destruct Hi as [Hi|Hi].
  - subst. exists x. split; [left; reflexivity|exact Hxy].
  - destruct (IH Hi) as [o [Ho Hs]]. exists o. split; [right; exact Ho|exact Hs].
Qed.

Lemma pd_has_keys d d' tg : map fst d' = map fst d -> pd_has d' tg = pd_has d tg.
Proof.
  unfold pd_has. intro H. assert (forall l : phdata, existsb (fun e => fst e =? tg) l = existsb (fun x => x =? tg) (map fst l)) as X.
  { induction l as [|h t IH]; cbn; [reflexivity|]. rewrite IH. reflexivity. }
  rewrite !X, H. reflexivity.
Qed.

Lemma HasEntry_keys s s' : HasEntry s -> LS (gs_objs s) (gs_objs s') -> map fst (gs_pd s') = map fst (gs_pd s) -> HasEntry s'.
Proof.
  intros HE L K o' Ho' Hp Hl. destruct (LS_in _ _ _ L Ho') as [o [Ho [K0 [P [T R]]]]].
  assert (g_ph o = true) as Hpo by congruence. destruct (R Hpo) as [R1 _].
  rewrite (pd_has_keys _ _ _ K), T. apply HE; auto.
Qed.

Definition Inv2 (s : gst) : Prop := Inv s /\ HasEntry s.

Lemma Inv2_Step s s' : Inv2 s -> Step s s' -> Inv2 s'.
Proof.
  intros [HI HE] [HM|[L [tg [[K P] C]]]].
  - split; [eapply Inv_Mono; eauto|]. destruct HM as [L [K _]]. eapply HasEntry_keys; eauto.
  - split; [|eapply HasEntry_keys; eauto]. destruct HI as [Hnd [Hc Hj]].
    split; [rewrite K; exact Hnd|]. split; [|eapply J_LS; eauto].
    intros e' He'. destruct (P e' He') as [e [He [E1 [E2 E3]]]]. specialize (Hc e He).
    pose proof (cnt_LS (fst e) _ _ L). rewrite E1, E2, E3. destruct (fst e =? tg) eqn:Et; [|lia].
    apply N.eqb_eq in Et. rewrite Et in *. lia.
Qed.

(* ---------- the helpers ---------- *)
Lemma gfire_Mono s e s' evs : gfire s e = (s', evs) -> Mono s s'.
Proof.
  intro H. destruct (gfire_frame _ _ _ _ H) as [Hpd [_ [_ [_ [_ [_ Ho]]]]]]. split; [|rewrite Hpd; apply PdLe_refl].
  destruct Ho as [Ho|Ho]; rewrite Ho; [apply LS_refl|apply LS_map; apply Shr_set_req].
Qed.
Lemma gfire_opt_Mono s e s' evs : gfire_opt s e = (s', evs) -> Mono s s'.
Proof. destruct e; cbn [gfire_opt]; intro H; [eapply gfire_Mono; eauto|inversion H; apply Mono_refl]. Qed.
Lemma asks_check_Mono s s' evs : asks_state_check s = (s', evs) -> Mono s s'.
Proof. unfold asks_state_check. destruct (_ && _); intro H; [eapply gfire_Mono; eauto|inversion H; apply Mono_refl]. Qed.
Lemma remove_ask_Mono s k s' evs : remove_ask s k = (s', evs) -> Mono s s'.
Proof.
  unfold remove_ask. destruct (negb (existsb g_req (gs_objs s))); intro H; [inversion H; apply Mono_refl|].
  eapply Mono_trans; [|eapply asks_check_Mono; eauto]. split; [|apply PdLe_refl].
  cbn [set_objs gs_objs]. apply LS_upd. intros x _. apply Shr_set_req.
Qed.
Lemma remove_all_asks_Mono s s' evs : remove_all_asks_g s = (s', evs) -> Mono s s'.
Proof.
  unfold remove_all_asks_g. destruct (negb (existsb g_req (gs_objs s))); intro H; [inversion H; apply Mono_refl|].
  eapply Mono_trans; [|eapply asks_check_Mono; eauto]. split; [|apply PdLe_refl].
  cbn [set_objs gs_objs]. apply LS_map. apply Shr_set_req.
Qed.

(* addAllocationInternal for a real allocation *)
Lemma aai_real_Mono s b o full s' evs :
  find_obj s (g_key o) = Some o -> g_ph o = false -> add_alloc_internal s b o full = (s', evs) -> Mono s s'.
Proof.
  intros Hf Hp. unfold add_alloc_internal. rewrite Hp.
  destruct (if negb b || has_real_alloc s || (gs_state s =? ST_Completing) then gfire s EvRun else (s, [])) as [s1 ev] eqn:E1.
  intro H. inversion H; subst s' evs. clear H.
  assert (Mono s s1) as M1. { destruct (negb b || has_real_alloc s || (gs_state s =? ST_Completing)); [eapply gfire_Mono; eauto|inversion E1; apply Mono_refl]. }
  eapply Mono_trans; [exact M1|]. split; [|apply PdLe_refl]. cbn [set_objs set_ledgers gs_objs].
  apply LS_upd. intros x Hx. destruct M1 as [L _]. unfold find_obj in Hf.
  destruct (LS_find _ _ _ _ L Hf) as [x' [Hx' [K [P [T _]]]]]. rewrite Hx in Hx'. inversion Hx'; subst x'.
  apply Shr_real; [congruence|reflexivity|reflexivity|reflexivity].
Qed.

(* removeAllocationInternal *)
Lemma rai_Step s k ty s' evs r :
  Inv s -> remove_alloc_internal s k ty = (s', evs, r) -> Step s s'.
Proof.
  intros [_ [_ HJ]]. unfold remove_alloc_internal. destruct (find_obj s k) as [o|] eqn:Ef; [|intro H; inversion H; left; apply Mono_refl].
  destruct (g_alloc o) eqn:Ea; cbn [negb]; [|intro H; inversion H; left; apply Mono_refl].
  destruct (g_ph o) eqn:Ep.
  - set (d := if pd_has (gs_pd s) (g_tg o) then (if ty =? TT_PlaceholderReplaced then pd_replaced_inc (g_tg o) (gs_pd s) else pd_timedout_inc (g_tg o) (gs_pd s)) else gs_pd s).
    match goal with |- context [gfire_opt ?a ?b] => destruct (gfire_opt a b) as [s4 ev4] eqn:E4 end.
    intro H. inversion H; subst s' evs r. clear H.
    pose proof (gfire_opt_Mono _ _ _ _ E4) as [L4 P4].
    assert (gs_objs (set_ledgers (if existsb (fun x => g_alloc x && g_ph x && negb (g_key x =? k)) (gs_objs (set_pd s d)) then set_pd s d else set_timers (set_pd s d) false (gs_statetimer (set_pd s d)))
              (gs_nodes (if existsb (fun x => g_alloc x && g_ph x && negb (g_key x =? k)) (gs_objs (set_pd s d)) then set_pd s d else set_timers (set_pd s d) false (gs_statetimer (set_pd s d))))
              (gs_queue (if existsb (fun x => g_alloc x && g_ph x && negb (g_key x =? k)) (gs_objs (set_pd s d)) then set_pd s d else set_timers (set_pd s d) false (gs_statetimer (set_pd s d))))
              (lsub (gs_user (if existsb (fun x => g_alloc x && g_ph x && negb (g_key x =? k)) (gs_objs (set_pd s d)) then set_pd s d else set_timers (set_pd s d) false (gs_statetimer (set_pd s d)))) (g_res o))
              (gs_nodeuse (if existsb (fun x => g_alloc x && g_ph x && negb (g_key x =? k)) (gs_objs (set_pd s d)) then set_pd s d else set_timers (set_pd s d) false (gs_statetimer (set_pd s d))))) = gs_objs s) as O3
      by (destruct (existsb _ _); reflexivity).
    assert (gs_pd (set_ledgers (if existsb (fun x => g_alloc x && g_ph x && negb (g_key x =? k)) (gs_objs (set_pd s d)) then set_pd s d else set_timers (set_pd s d) false (gs_statetimer (set_pd s d)))
              (gs_nodes (if existsb (fun x => g_alloc x && g_ph x && negb (g_key x =? k)) (gs_objs (set_pd s d)) then set_pd s d else set_timers (set_pd s d) false (gs_statetimer (set_pd s d))))
              (gs_queue (if existsb (fun x => g_alloc x && g_ph x && negb (g_key x =? k)) (gs_objs (set_pd s d)) then set_pd s d else set_timers (set_pd s d) false (gs_statetimer (set_pd s d))))
              (lsub (gs_user (if existsb (fun x => g_alloc x && g_ph x && negb (g_key x =? k)) (gs_objs (set_pd s d)) then set_pd s d else set_timers (set_pd s d) false (gs_statetimer (set_pd s d)))) (g_res o))
              (gs_nodeuse (if existsb (fun x => g_alloc x && g_ph x && negb (g_key x =? k)) (gs_objs (set_pd s d)) then set_pd s d else set_timers (set_pd s d) false (gs_statetimer (set_pd s d))))) = d) as P3
      by (destruct (existsb _ _); reflexivity).
    rewrite O3 in L4. rewrite P3 in P4.
    (* the removed placeholder in the list after the state event *)
    unfold find_obj in Ef. destruct (LS_find _ _ _ _ L4 Ef) as [o4 [Hf4 S4]].
    assert (LU : LS (gs_objs s4) (upd_obj k (o_set_alloc false) (gs_objs s4))) by (apply LS_upd; intros x _; apply Shr_set_alloc_false).
    assert (LT : LS (gs_objs s) (upd_obj k (o_set_alloc false) (gs_objs s4))) by (eapply LS_trans; eauto).
    cbn [set_objs gs_objs gs_pd].
    destruct (pd_has (gs_pd s) (g_tg o)) eqn:Eh; [destruct (ty =? TT_PlaceholderReplaced) eqn:Et|].
    + right. split; [exact LT|]. exists (g_tg o). split; [eapply PdRepl_Le; [apply PdRepl_inc|exact P4]|].
      cbn [set_objs gs_objs].
      assert (cph (g_tg o) o = true) as C0. { unfold cph, live. rewrite Ep, Ea, N.eqb_refl. reflexivity. }
      (* o4 is still allocated: gfire only clears request flags *)
      assert (g_alloc o4 = true /\ g_allocated o4 = true /\ g_ph o4 = true /\ g_tg o4 = g_tg o) as [A4 [B4 [P5 T4]]].
      { assert (gs_objs s4 = gs_objs s \/ gs_objs s4 = map (o_set_req false) (gs_objs s)) as Ho.
        { destruct (if existsb (fun x => g_alloc x && g_ph x && negb (g_key x =? k)) (gs_objs (set_pd s d)) then None else _) as [ev|] eqn:Eev in E4;
          cbn [gfire_opt] in E4.
          - destruct (gfire_frame _ _ _ _ E4) as [_ [_ [_ [_ [_ [_ X]]]]]]. rewrite O3 in X. exact X.
          - inversion E4; subst s4. left. exact O3. }
        assert (g_allocated o = true) as HA by (apply HJ; [eapply find_some; exact Ef|exact Ep|exact Ea]).
        destruct Ho as [Ho|Ho]; rewrite Ho in Hf4.
        - rewrite Ef in Hf4. inversion Hf4; subst o4. auto.
        - assert (find (fun x => g_key x =? k) (map (o_set_req false) (gs_objs s)) = option_map (o_set_req false) (find (fun x => g_key x =? k) (gs_objs s))) as X.
          { generalize (gs_objs s). induction l as [|h t IH]; cbn [map find option_map]; [reflexivity|].
            change (g_key (o_set_req false h)) with (g_key h). destruct (g_key h =? k); [reflexivity|exact IH]. }
          rewrite X, Ef in Hf4. cbn in Hf4. inversion Hf4; subst o4. cbn. auto. }
      pose proof (cnt_LS (g_tg o) _ _ L4) as C4.
      pose proof (cnt_upd_strict (g_tg o) (fun x => g_key x =? k) (o_set_alloc false) (gs_objs s4) o4 Hf4) as CS.
      assert (cph (g_tg o) o4 = true) as X1 by (unfold cph, live; rewrite P5, A4, T4, N.eqb_refl; reflexivity).
      assert (cph (g_tg o) (o_set_alloc false o4) = false) as X2.
      { unfold cph, live. cbn. rewrite B4. cbn. rewrite !andb_false_r. reflexivity. }
      specialize (CS X1 X2). unfold upd_obj. lia.
    + left. split; [exact LT|]. eapply PdLe_trans; [apply PdLe_timedout|exact P4].
    + left. split; [exact LT|exact P4].
  - match goal with |- context [gfire_opt ?a ?b] => destruct (gfire_opt a b) as [s4 ev4] eqn:E4 end.
    intro H. inversion H; subst s' evs r. clear H. left.
    pose proof (gfire_opt_Mono _ _ _ _ E4) as [L4 P4]. cbn [set_ledgers gs_objs gs_pd] in L4, P4.
    split; [|exact P4]. cbn [set_objs gs_objs]. eapply LS_trans; [exact L4|]. apply LS_upd. intros x _. apply Shr_set_alloc_false.
Qed.

Lemma Mono_ledgers s nodes q u nu : Mono s (set_ledgers s nodes q u nu).
Proof. split; [apply LS_refl|apply PdLe_refl]. Qed.
Lemma Mono_timers s a b : Mono s (set_timers s a b).
Proof. split; [apply LS_refl|apply PdLe_refl]. Qed.

Lemma find_obj_key s k o : find_obj s k = Some o -> g_key o = k.
Proof. unfold find_obj. intro H. apply find_some in H. destruct H as [_ H]. apply N.eqb_eq in H. exact H. Qed.

(* PartitionContext.removeAllocation *)
Lemma release_step_Step s k ty s' evs : Inv s -> release_step s k ty = (s', evs) -> Step s s'.
Proof.
  intros HI. unfold release_step.
  assert (H1 : forall s1 ev1 removed,
    (if ty =? TT_PlaceholderReplaced then
      let '(sa, eva, ph) := remove_alloc_internal s k TT_PlaceholderReplaced in
      match ph with
      | None => (sa, eva, None)
      | Some p =>
          if g_link p =? 0 then (sa, eva, Some p) else
          match find_obj sa (g_link p) with
          | None => (sa, eva, Some p)
          | Some r =>
              if g_ph r then (sa, eva, Some p) else
              let '(sb, evb) := add_alloc_internal sa true r false in
              (set_objs sb (upd_obj (g_key r) (o_set_link 0) (gs_objs sb)), eva ++ evb, Some p)
          end
      end
    else remove_alloc_internal s k ty) = (s1, ev1, removed) -> Step s s1).
  { intros s1 ev1 removed. destruct (ty =? TT_PlaceholderReplaced).
    - destruct (remove_alloc_internal s k TT_PlaceholderReplaced) as [[sa eva] ph] eqn:Ea.
      pose proof (rai_Step _ _ _ _ _ _ HI Ea) as Sa.
      destruct ph as [p|]; [|intro H; inversion H; subst; exact Sa].
      destruct (g_link p =? 0); [intro H; inversion H; subst; exact Sa|].
      destruct (find_obj sa (g_link p)) as [r|] eqn:Er; [|intro H; inversion H; subst; exact Sa].
      destruct (g_ph r) eqn:Ep; [intro H; inversion H; subst; exact Sa|].
      destruct (add_alloc_internal sa true r false) as [sb evb] eqn:Eb.
      intro H. inversion H; subst s1 ev1 removed. clear H.
      pose proof (find_obj_key _ _ _ Er) as Ek. rewrite <- Ek in Er.
      pose proof (aai_real_Mono _ _ _ _ _ _ Er Ep Eb) as Mb.
      eapply Step_Mono; [exact Sa|]. eapply Mono_trans; [exact Mb|]. split; [|apply PdLe_refl].
      cbn [set_objs gs_objs]. apply LS_upd. intros x _. apply Shr_set_link.
    - intro H. eapply rai_Step; eauto. }
  destruct (if ty =? TT_PlaceholderReplaced then _ else remove_alloc_internal s k ty) as [[s1 ev1] removed] eqn:E1.
  specialize (H1 _ _ _ eq_refl). destruct removed as [p|].
  - destruct (match (if (ty =? TT_PlaceholderReplaced) && negb (g_link p =? 0) then _ else None) with Some r => _ | None => _ end) as [s2 announce] eqn:E2.
    assert (Mono s1 s2) as M2.
    { destruct (if (ty =? TT_PlaceholderReplaced) && negb (g_link p =? 0) then _ else None) as [r|] in E2.
      - destruct (g_node r =? g_node p); inversion E2; subst; apply Mono_ledgers.
      - destruct (on_node s1 (g_node p) k); inversion E2; subst; [apply Mono_ledgers|apply Mono_refl]. }
    destruct (ty =? TT_Timeout).
    + intro H. inversion H; subst. eapply Step_Mono; eauto.
    + destruct (remove_ask s2 k) as [s3 ev3] eqn:E3. intro H. inversion H; subst.
      eapply Step_Mono; [eapply Step_Mono; eauto|]. eapply remove_ask_Mono; eauto.
  - destruct (ty =? TT_Timeout).
    + intro H. inversion H; subst. exact H1.
    + destruct (remove_ask s1 k) as [s2 ev2] eqn:E2. intro H. inversion H; subst.
      eapply Step_Mono; [exact H1|]. eapply remove_ask_Mono; eauto.
Qed.

(* the timers *)
Lemma timeout_step_Mono s s' evs : timeout_step s = (s', evs) -> Mono s s'.
Proof.
  unfold timeout_step. destruct (((gs_state s =? ST_Running) || (gs_state s =? ST_Completing)) && has_ph_alloc s).
  - intro H. inversion H; subst. split; [|apply PdLe_refl]. cbn [set_timers set_objs gs_objs].
    apply LS_map. intro o. destruct (_ && _); [apply Shr_set_released|apply Shr_refl].
  - destruct (gfire s (if gs_hard s then EvFail else EvResume)) as [s1 ev1] eqn:E1.
    match goal with |- context [remove_all_asks_g ?x] => destruct (remove_all_asks_g x) as [s3 ev3] eqn:E3 end.
    intro H. inversion H; subst s' evs. clear H.
    eapply Mono_trans; [eapply gfire_Mono; eauto|]. eapply Mono_trans; [|eapply Mono_trans; [eapply remove_all_asks_Mono; eauto|apply Mono_timers]].
    split; cbn [set_pd set_objs gs_objs gs_pd].
    + apply LS_map. intro o. destruct (_ && _); [apply Shr_set_released|apply Shr_refl].
    + apply (PdLe_fold_timedout (fun d o => pd_has d (g_tg o))).
Qed.

Lemma state_timeout_step_Mono s s' evs : state_timeout_step s = (s', evs) -> Mono s s'.
Proof.
  unfold state_timeout_step. destruct (negb (gs_state s =? ST_Completing)); [intro H; inversion H; apply Mono_refl|].
  destruct (has_ph_alloc s).
  - intro H. inversion H; subst. split; [|apply PdLe_refl]. cbn [set_timers set_objs gs_objs].
    apply LS_map. intro o. destruct (_ && _); [apply Shr_set_released|apply Shr_refl].
  - intro H. eapply gfire_Mono; eauto.
Qed.

Lemma remove_app_step_Mono s s' evs : remove_app_step s = (s', evs) -> Mono s s'.
Proof.
  unfold remove_app_step. destruct (remove_all_asks_g s) as [s1 ev1] eqn:E1.
  set (s2 := set_pd (set_objs s1 (map (o_set_alloc false) (gs_objs s1)))
               (fold_left (fun d o => if g_ph o && pd_has d (g_tg o) then pd_timedout_inc (g_tg o) d else d)
                          (filter g_alloc (gs_objs s1)) (gs_pd s1))).
  destruct (if negb (has_pending s2) then gfire s2 EvComplete else (s2, [])) as [s3 ev3] eqn:E3.
  intro H. inversion H; subst s' evs. clear H.
  assert (Mono s s1) as M1 by (eapply remove_all_asks_Mono; eauto).
  assert (Mono s1 s2) as M2.
  { split; cbn [s2 set_pd set_objs gs_objs gs_pd]; [apply LS_map; intro o; apply Shr_set_alloc_false|].
    apply (PdLe_fold_timedout (fun d o => g_ph o && pd_has d (g_tg o))). }
  assert (Mono s2 s3) as M3.
  { destruct (negb (has_pending s2)); [eapply gfire_Mono; eauto|inversion E3; apply Mono_refl]. }
  eapply Mono_trans; [exact M1|]. eapply Mono_trans; [exact M2|]. eapply Mono_trans; [exact M3|].
  eapply Mono_trans; [apply (Mono_timers s3 false false)|apply Mono_ledgers].
Qed.

(* removeNodeAllocations, one key *)
Lemma node_remove_one_Step n acc k : Inv (fst acc) -> Step (fst acc) (fst (node_remove_one n acc k)).
Proof.
  destruct acc as [s evs]. cbn [fst]. intro HI. unfold node_remove_one.
  destruct (find_obj s k) as [o|] eqn:Eo; [|left; apply Mono_refl].
  destruct (if g_link o =? 0 then None else find_obj s (g_link o)) as [x|] eqn:Ex.
  - destruct (g_ph o && negb (g_node o =? g_node x)).
    + destruct (release_step s k TT_PlaceholderReplaced) as [s1 ev1] eqn:E1. cbn [fst]. eapply release_step_Step; eauto.
    + set (objs := upd_obj (if g_ph o then g_key x else g_key o) (fun y => if g_ph y then y else o_set_allocated false y)
                     (upd_obj (g_key x) (o_set_link 0) (upd_obj k (o_set_link 0) (gs_objs s)))).
      assert (Mono s (set_objs s objs)) as M0.
      { split; [|apply PdLe_refl]. cbn [set_objs gs_objs]. unfold objs.
        eapply LS_trans; [apply LS_upd; intros y _; apply Shr_set_link|].
        eapply LS_trans; [apply LS_upd; intros y _; apply Shr_set_link|].
        apply LS_upd. intros y _. destruct (g_ph y) eqn:Ey; [apply Shr_refl|]. apply Shr_real; auto. }
      destruct (g_alloc o).
      * destruct (remove_alloc_internal (set_objs s objs) k TT_Unknown) as [[s1 ev1] r1] eqn:E1. cbn [fst].
        assert (Inv (set_objs s objs)) as HI0 by (eapply Inv_Mono; eauto).
        eapply Mono_Step; [exact M0|]. eapply Step_Mono; [eapply rai_Step; eauto|apply Mono_ledgers].
      * cbn [fst]. left. eapply Mono_trans; [exact M0|apply Mono_ledgers].
  - destruct (g_alloc o).
    + destruct (remove_alloc_internal s k TT_Unknown) as [[s1 ev1] r1] eqn:E1. cbn [fst].
      eapply Step_Mono; [eapply rai_Step; eauto|apply Mono_ledgers].
    + cbn [fst]. left. apply Mono_ledgers.
Qed.

(* ---------- placeholder data: addPlaceholderData ---------- *)
Lemma pd_add_keys tg d : map fst (pd_add tg d) = if pd_has d tg then map fst d else map fst d ++ [tg].
Proof. unfold pd_add. rewrite pd_upd_keys. destruct (pd_has d tg); [reflexivity|]. rewrite map_app. reflexivity. Qed.

Lemma pd_has_in d tg : pd_has d tg = true <-> In tg (map fst d).
Proof.
  unfold pd_has. rewrite existsb_exists, in_map_iff. split.
  - intros [e [He Ee]]. apply N.eqb_eq in Ee. exists e. auto.
  - intros [e [Ee He]]. exists e. split; [exact He|apply N.eqb_eq; exact Ee].
Qed.

Lemma pd_add_nodup tg d : NoDup (map fst d) -> NoDup (map fst (pd_add tg d)).
Proof.
  intro H. rewrite pd_add_keys. destruct (pd_has d tg) eqn:E; [exact H|].
  apply NoDup_snoc; [exact H|]. intro Hi. apply pd_has_in in Hi. congruence.
Qed.

Lemma pd_add_in tg d e' : In e' (pd_add tg d) ->
  (exists e, In e d /\ fst e' = fst e /\ pd_replaced e' = pd_replaced e /\
             pd_count e' = (pd_count e + (if N.eqb (fst e) tg then 1 else 0))%Z) \/
  (pd_has d tg = false /\ fst e' = tg /\ pd_replaced e' = 0%Z /\ pd_count e' = 1%Z).
Proof.
  unfold pd_add. intro H. apply pd_upd_in in H. destruct H as [e [He [H1 H2]]].
  destruct (pd_has d tg) eqn:Eh.
  - left. exists e. split; [exact He|]. split; [exact H1|]. unfold pd_replaced, pd_count. rewrite H2.
    destruct (fst e =? tg); cbn; split; lia.
  - apply in_app_or in He. destruct He as [He|[He|[]]].
    + left. exists e. split; [exact He|]. split; [exact H1|]. unfold pd_replaced, pd_count. rewrite H2.
      destruct (fst e =? tg); cbn; split; lia.
    + right. subst e. cbn [fst snd] in *. rewrite N.eqb_refl in H2. unfold pd_replaced, pd_count. rewrite H2. cbn. auto.
Qed.

Lemma cnt_zero tg l : (forall o, In o l -> cph tg o = false) -> cnt tg l = 0%Z.
Proof.
  intro H. unfold cnt. rewrite (filter_all_false _ _ H). reflexivity.
Qed.

Lemma cnt_filter_cph tg (p : gal -> bool) l :
  (forall o, In o l -> p o = false -> cph tg o = false) -> cnt tg (filter p l) = cnt tg l.
Proof.
  unfold cnt. induction l as [|h t IH]; intro H; [reflexivity|]. cbn [filter].
  assert (forall o, In o t -> p o = false -> cph tg o = false) as H' by (intros o Ho; apply H; right; exact Ho).
  specialize (IH H'). destruct (p h) eqn:E; cbn [filter].
  - destruct (cph tg h); cbn [length]; lia.
  - rewrite (H h (or_introl eq_refl) E). exact IH.
Qed.

Lemma upd_upd {A} (sel : A -> bool) f1 f2 l :
  (forall y, sel (f1 y) = sel y) -> upd_first sel f2 (upd_first sel f1 l) = upd_first sel (fun y => f2 (f1 y)) l.
Proof.
  intro H. induction l as [|h t IH]; cbn [upd_first]; [reflexivity|].
  destruct (sel h) eqn:E; cbn [upd_first]; [rewrite H, E; reflexivity|rewrite E, IH; reflexivity].
Qed.

Lemma LS_find_rev k l l' x' : LS l l' -> find (fun o => g_key o =? k) l' = Some x' ->
  exists x, find (fun o => g_key o =? k) l = Some x /\ Shr x x'.
Proof.
  intro H. induction H as [|o o' l l' Ho Hl IH]; cbn [find]; intro Hf; [discriminate|].
  destruct Ho as [K R]. rewrite K in Hf. destruct (g_key o =? k).
  - inversion Hf; subst. exists o. split; [reflexivity|split; assumption].
  - apply IH. exact Hf.
Qed.

(* ---------- every operation preserves the invariant ---------- *)
Lemma Inv2_init hard : Inv2 (g_init hard).
Proof.
  split; [split; [constructor|split; [intros e []|intros o []]]|intros o []].
Qed.

Lemma fold_node_remove_Inv2 n ks : forall acc, Inv2 (fst acc) -> Inv2 (fst (fold_left (node_remove_one n) ks acc)).
Proof.
  induction ks as [|k t IH]; intros acc HI; [exact HI|]. cbn [fold_left]. apply IH.
  eapply Inv2_Step; [exact HI|]. apply node_remove_one_Step. exact (proj1 HI).
Qed.

Lemma Shr_link_released rk y : Shr y (o_set_released true (o_set_link rk y)).
Proof. eapply Shr_trans; [apply Shr_set_link|apply Shr_set_released]. Qed.

Lemma gstep_Inv2 s o s' evs : Inv2 s -> gstep s o = GOk s' evs -> Inv2 s'.
Proof.
  intros HI2. pose proof HI2 as [HI HE]. destruct o; cbn [gstep].
  - (* GAddAsk *)
    destruct (existsb (fun x => (g_key x =? k) && (g_req x || g_alloc x)) (gs_objs s)) eqn:Eg; [discriminate|].
    destruct (if (gs_state s =? ST_New) || (gs_state s =? ST_Completing) then gfire s EvRun else (s, [])) as [s1 ev] eqn:E1.
    assert (Mono s s1) as M1 by (destruct ((gs_state s =? ST_New) || (gs_state s =? ST_Completing)); [eapply gfire_Mono; eauto|inversion E1; apply Mono_refl]).
    assert (Inv2 s1) as [[Hnd [Hc Hj]] HE1] by (eapply Inv2_Step; [exact HI2|left; exact M1]).
    set (n0 := new_obj k tg r ph). set (lf := filter (fun x => negb (g_key x =? k)) (gs_objs s1)).
    (* objects with the key are dead *)
    assert (Hdead : forall tg0 o', In o' (gs_objs s1) -> negb (g_key o' =? k) = false -> cph tg0 o' = false).
    { intros tg0 o' Ho' Hk. apply negb_false_iff, N.eqb_eq in Hk. destruct M1 as [L _].
      destruct (LS_in _ _ _ L Ho') as [o [Ho [K [P [T R]]]]].
      assert ((g_key o =? k) && (g_req o || g_alloc o) = false) as X.
      { destruct ((g_key o =? k) && (g_req o || g_alloc o)) eqn:E; [|reflexivity].
        assert (existsb (fun x => (g_key x =? k) && (g_req x || g_alloc x)) (gs_objs s) = true) as Y; [|congruence].
        apply existsb_exists. exists o. auto. }
      assert (g_key o =? k = true) as Kk by (apply N.eqb_eq; congruence). rewrite Kk in X. cbn [andb] in X.
      apply orb_false_iff in X. destruct X as [X1 X2].
      unfold cph. destruct (g_ph o') eqn:Ep; [|reflexivity]. assert (g_ph o = true) as Hpo by congruence.
      destruct (R Hpo) as [R1 _]. destruct (live o') eqn:El; [|apply andb_false_r].
      specialize (R1 eq_refl). unfold live in R1. rewrite X1, X2 in R1. discriminate. }
    assert (Hcnt : forall tg0, cnt tg0 (lf ++ [n0]) = (cnt tg0 (gs_objs s1) + (if ph && N.eqb tg tg0 then 1 else 0))%Z).
    { intro tg0. rewrite cnt_app. unfold lf. rewrite (cnt_filter_cph tg0 _ _ (Hdead tg0)).
      assert (cph tg0 n0 = ph && N.eqb tg tg0) as Cn by (unfold n0, new_obj, cph, live; cbn; rewrite andb_true_r; reflexivity).
      unfold cnt at 2. cbn [filter]. rewrite Cn. destruct (ph && N.eqb tg tg0); reflexivity. }
    intro H. inversion H; subst s' evs. clear H.
    assert (HJ2 : forall o, In o (lf ++ [n0]) -> g_ph o = true -> g_alloc o = true -> g_allocated o = true).
    { intros o Ho. apply in_app_or in Ho. destruct Ho as [Ho|[Ho|[]]].
      - apply Hj. unfold lf in Ho. apply filter_In in Ho. tauto.
      - subst o. cbn. discriminate. }
    destruct ph.
    + split; [split; [|split]|]; cbn [set_pd set_objs gs_pd gs_objs].
      * apply pd_add_nodup. exact Hnd.
      * intros e' He'. rewrite Hcnt. cbn [andb]. destruct (pd_add_in _ _ _ He') as [[e [He [F1 [F2 F3]]]]|[Hn [F1 [F2 F3]]]].
        -- specialize (Hc e He). rewrite F1, F2, F3. rewrite (N.eqb_sym tg (fst e)). destruct (fst e =? tg); lia.
        -- rewrite F1, F2, F3, N.eqb_refl.
           assert (cnt tg (gs_objs s1) = 0%Z) as Z0; [|lia]. apply cnt_zero. intros o Ho.
           unfold cph. destruct (g_ph o) eqn:Ep; [|reflexivity]. destruct (g_tg o =? tg) eqn:Et; [|reflexivity].
           destruct (live o) eqn:El; [|reflexivity]. apply N.eqb_eq in Et. rewrite <- Et in Hn.
           rewrite (HE1 o Ho Ep El) in Hn. discriminate.
      * exact HJ2.
      * unfold HasEntry. cbn [set_pd set_objs gs_pd gs_objs]. intros o Ho Hp Hl. apply pd_has_in. rewrite pd_add_keys. apply in_app_or in Ho. destruct Ho as [Ho|[Ho|[]]].
        -- unfold lf in Ho. apply filter_In in Ho. destruct Ho as [Ho _]. specialize (HE1 o Ho Hp Hl). apply pd_has_in in HE1.
           destruct (pd_has (gs_pd s1) tg); [exact HE1|apply in_or_app; left; exact HE1].
        -- subst o. cbn [n0 new_obj g_tg]. destruct (pd_has (gs_pd s1) tg) eqn:E; [apply pd_has_in; exact E|apply in_or_app; right; left; reflexivity].
    + split; [split; [|split]|]; cbn [set_pd set_objs gs_pd gs_objs].
      * exact Hnd.
      * intros e He. rewrite Hcnt. cbn [andb]. specialize (Hc e He). lia.
      * exact HJ2.
      * unfold HasEntry. cbn [set_pd set_objs gs_pd gs_objs]. intros o Ho Hp Hl. apply in_app_or in Ho. destruct Ho as [Ho|[Ho|[]]].
        -- unfold lf in Ho. apply filter_In in Ho. apply HE1; tauto.
        -- subst o. cbn in Hp. discriminate.
  - (* GAllocate *)
    destruct (find_obj s k) as [x|] eqn:Ex; [|discriminate].
    destruct (negb (g_req x) || g_allocated x) eqn:Eg; [discriminate|].
    apply orb_false_iff in Eg. destruct Eg as [Eq Eal]. apply negb_false_iff in Eq.
    pose proof (find_obj_key _ _ _ Ex) as Kx.
    match goal with |- context [add_alloc_internal ?a false x full] => destruct (add_alloc_internal a false x full) as [s2 ev] eqn:E2 end.
    intro H. inversion H; subst s' evs. clear H.
    eapply Inv2_Step; [exact HI2|]. left.
    unfold add_alloc_internal in E2. destruct (g_ph x) eqn:Ep.
    + (* placeholder: the two updates of the object compose to a live, allocated one *)
      set (F := fun y => o_set_alloc true (o_set_node node (o_set_allocated true y))).
      assert (LF : LS (gs_objs s) (upd_obj k F (gs_objs s))).
      { apply LS_upd. intros y Hy. unfold find_obj in Ex. rewrite Ex in Hy. inversion Hy; subst y.
        unfold Shr. split; [reflexivity|]. split; [reflexivity|]. split; [reflexivity|]. intros _. split.
        - intros _. unfold live. rewrite Eq, Eal. apply orb_true_r.
        - intros _. right. reflexivity. }
      match type of E2 with (if full then gfire ?a EvRun else _) = _ => set (s3 := a) in E2 end.
      assert (M3 : Mono s s3).
      { split; [|unfold s3; destruct (_ && _); apply PdLe_refl].
        assert (gs_objs s3 = upd_obj k F (gs_objs s)) as X.
        { unfold s3. rewrite Kx. destruct (_ && _); cbn [set_objs set_ledgers set_timers gs_objs]; unfold upd_obj; rewrite upd_upd; reflexivity. }
        rewrite X. exact LF. }
      destruct full; [eapply Mono_trans; [exact M3|eapply gfire_Mono; eauto]|inversion E2; subst; exact M3].
    + (* real ask *)
      match type of E2 with (let '(s1, ev0) := ?c in _) = _ => destruct c as [s1 ev1] eqn:E1 end.
      inversion E2; subst s2 ev. clear E2.
      match type of E1 with (if _ then gfire ?a EvRun else _) = _ => set (s0 := a) in * end.
      assert (M0 : Mono s s0).
      { split; [|apply PdLe_refl]. cbn [s0 set_ledgers set_objs gs_objs]. apply LS_upd. intros y Hy. unfold find_obj in Ex. rewrite Ex in Hy.
        inversion Hy; subst y. apply Shr_real; auto. }
      assert (M1 : Mono s0 s1) by (destruct (_ || _ || _); [eapply gfire_Mono; eauto|inversion E1; apply Mono_refl]).
      eapply Mono_trans; [exact M0|]. eapply Mono_trans; [exact M1|]. split; [|apply PdLe_refl].
      cbn [set_objs set_ledgers gs_objs]. apply LS_upd. intros y Hy.
      destruct (Mono_trans _ _ _ M0 M1) as [L _]. destruct (LS_find_rev _ _ _ _ L Hy) as [y0 [Hy0 [K0 [P0 [T0 _]]]]].
      rewrite Kx in Hy0. unfold find_obj in Ex. rewrite Ex in Hy0. inversion Hy0; subst y0.
      apply Shr_real; [congruence|reflexivity|reflexivity|reflexivity].
  - (* GSwap *)
    destruct (find_obj s real) as [r|] eqn:Er; [|discriminate]. destruct (find_obj s ph) as [p|] eqn:Ep; [|discriminate].
    destruct (negb (has_ph_alloc s)); [discriminate|].
    destruct (negb (g_req r) || g_ph r || (g_tg r =? 0) || g_allocated r) eqn:E1; [discriminate|].
    destruct (negb (g_alloc p) || negb (g_ph p) || g_released p || g_preempted p || negb (g_tg r =? g_tg p)); [discriminate|].
    destruct (negb (swap_size_ok (g_res p) (g_res r))); [discriminate|].
    assert (g_ph r = false) as Hr.
    { destruct (g_ph r); [|reflexivity]. rewrite orb_true_r in E1. cbn in E1. discriminate. }
    intro H. eapply Inv2_Step; [exact HI2|]. left.
    assert (M : Mono s (set_objs s (upd_obj ph (fun y => o_set_released true (o_set_link real y))
                         (upd_obj real (fun y => o_set_node (match other with Some n => n | None => g_node p end) (o_set_link ph (o_set_allocated true y))) (gs_objs s))))).
    { split; [|apply PdLe_refl]. cbn [set_objs gs_objs].
      apply LS_trans with (b := upd_obj real (fun y => o_set_node (match other with Some n => n | None => g_node p end) (o_set_link ph (o_set_allocated true y))) (gs_objs s)).
      - apply LS_upd. intros y Hy. unfold find_obj in Er. rewrite Er in Hy. inversion Hy; subst y. apply Shr_real; auto.
      - apply LS_upd. intros y _. apply Shr_link_released. }
    destruct other; inversion H; subst; [eapply Mono_trans; [exact M|apply Mono_ledgers]|exact M].
  - (* GCancelLarger *)
    destruct (find_obj s real) as [r|]; [|discriminate]. destruct (find_obj s ph) as [p|]; [|discriminate].
    destruct (_ || _ || _ || _); [discriminate|]. destruct (_ || _ || _ || _ || _); [discriminate|].
    destruct (swap_size_ok (g_res p) (g_res r)); [discriminate|]. intro H. inversion H; subst.
    eapply Inv2_Step; [exact HI2|]. left. split; [|apply PdLe_refl]. cbn [set_objs gs_objs].
    apply LS_upd. intros y _. apply Shr_set_released.
  - (* GRelease *)
    destruct (release_step s k ty) as [s1 ev] eqn:E. intro H. inversion H; subst.
    eapply Inv2_Step; [exact HI2|]. eapply release_step_Step; eauto.
  - destruct (gs_phtimer s); [|discriminate]. destruct (timeout_step s) as [s1 ev] eqn:E. intro H. inversion H; subst.
    eapply Inv2_Step; [exact HI2|]. left. eapply timeout_step_Mono; eauto.
  - destruct (gs_statetimer s); [|discriminate]. destruct (state_timeout_step s) as [s1 ev] eqn:E. intro H. inversion H; subst.
    eapply Inv2_Step; [exact HI2|]. left. eapply state_timeout_step_Mono; eauto.
  - destruct (remove_app_step s) as [s1 ev] eqn:E. intro H. inversion H; subst.
    eapply Inv2_Step; [exact HI2|]. left. eapply remove_app_step_Mono; eauto.
  - destruct (fold_left (node_remove_one n) (map snd (filter (fun p => fst p =? n) (gs_nodes s))) (s, [])) as [s1 ev] eqn:E.
    intro H. inversion H; subst. pose proof (fold_node_remove_Inv2 n (map snd (filter (fun p => fst p =? n) (gs_nodes s))) (s, []) HI2) as X.
    rewrite E in X. exact X.
Qed.

Lemma grun_Inv2 ops : forall s s', Inv2 s -> grun s ops = Some s' -> Inv2 s'.
Proof.
  induction ops as [|o t IH]; cbn [grun]; intros s s' HI H; [inversion H; subst; exact HI|].
  destruct (gstep s o) as [s1 ev| |] eqn:E; try discriminate. eapply IH; [|exact H]. eapply gstep_Inv2; eauto.
Qed.

(* replaced_le_count: for every sequence of operations, per task group replaced <= count
   (indeed replaced + placeholders still present <= count) *)
Lemma replaced_le_count_l hard ops s : grun (g_init hard) ops = Some s ->
  replaced_le_count (gs_pd s) = true /\
  forall e, In e (gs_pd s) -> (pd_replaced e + present s (fst e) <= pd_count e)%Z.
Proof.
  intro H. pose proof (grun_Inv2 ops _ _ (Inv2_init hard) H) as [[_ [Hc _]] _].
  split; [|exact Hc]. unfold replaced_le_count. apply forallb_forall. intros e He. apply Z.leb_le.
  specialize (Hc e He). assert (0 <= cnt (fst e) (gs_objs s))%Z by (unfold cnt; lia). lia.
Qed.

(* ---------- the hypotheses are satisfiable on non-trivial states ---------- *)
Definition rr (m : Z) : res := [(1, m)].
(* two placeholders of task group 7 allocated (application Running), a smaller real ask swapped with the
   first one and confirmed, a second swap in flight *)
Definition ex_ops : list gop :=
  [GAddAsk 1 7 (rr 4) true; GAllocate 1 1 false; GAddAsk 2 7 (rr 4) true; GAllocate 2 1 true;
   GAddAsk 3 7 (rr 3) false; GSwap 3 1 None; GRelease 1 TT_PlaceholderReplaced;
   GAddAsk 4 7 (rr 4) false; GSwap 4 2 (Some 2)].
Example ex_reachable :
  exists s, grun (g_init false) ex_ops = Some s /\
    gs_state s = ST_Running /\ gs_pd s = [(7, (2%Z, (1%Z, 0%Z)))] /\
    map (fun o => (g_key o, g_alloc o, g_released o, g_link o)) (gs_objs s) =
      [(1, false, true, 3); (2, true, true, 4); (3, true, false, 0); (4, false, false, 2)] /\
    gs_queue s 1 = 7%Z /\ gs_nodeuse s 1 1 = 7%Z /\ gs_nodeuse s 2 1 = 4%Z /\
    (exists s' evs, gstep s (GRelease 2 TT_PlaceholderReplaced) = GOk s' evs /\
                    gs_queue s' 1 = 7%Z /\ gs_nodeuse s' 1 1 = 3%Z /\ gs_nodeuse s' 2 1 = 4%Z /\
                    gs_pd s' = [(7, (2%Z, (2%Z, 0%Z)))] /\ evs = [GNew 4 2]).
Proof.
  eexists. repeat (split; [vm_compute; reflexivity|]). eexists. eexists. repeat (split; [vm_compute; reflexivity|]). vm_compute; reflexivity.
Qed.
(* hard style: timeout before any real allocation, then the confirmations: Failing ... Failed *)
Example ex_hard :
  exists s, grun (g_init true) [GAddAsk 1 7 (rr 4) true; GAllocate 1 1 false; GAddAsk 2 7 (rr 4) true; GTimeout; GRelease 1 TT_Timeout] = Some s /\
    gs_state s = ST_Failed /\ gs_pd s = [(7, (2%Z, (0%Z, 2%Z)))] /\ no_placeholder_left s = true.
Proof. eexists. repeat (split; [vm_compute; reflexivity|]). vm_compute; reflexivity. Qed.
