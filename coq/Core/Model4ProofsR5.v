(* C09 over the operational model, part 5: releases of a bound allocation / a pending ask and the in-place update of
   an existing key ([m_release_alloc4], [m_release_ask4], [m_alloc4]) preserve the reservation invariant. *)
From Coq Require Import List ZArith NArith Bool Lia ZifyBool ZifyN.
From YK Require Import Base.Int64 Base.Res Core.Obs Core.Model Core.Model2 Core.Ledger Core.Model4 Core.NodeProofs Core.QueueProofs Core.StepProofs
  Core.Model4ProofsF Core.Model4ProofsR1 Core.Model4ProofsR2 Core.Model4ProofsR3 Core.Model4ProofsR4.
Import ListNotations.
Open Scope N_scope.
Set Default Timeout 30.

Lemma ap_event_fields a st : ap_id (ap_event a st) = ap_id a /\ ap_queue (ap_event a st) = ap_queue a /\
  ap_reservations (ap_event a st) = ap_reservations a /\ ap_requests (ap_event a st) = ap_requests a /\ ap_allocs (ap_event a st) = ap_allocs a.
Proof. unfold ap_event. destruct (st =? ap_state a); auto 10. Qed.

Lemma QKeep_id : QKeep (fun q => q). Proof. intros q. auto. Qed.
Lemma QKeep_comp f g : QKeep f -> QKeep g -> QKeep (fun q => g (f q)).
Proof. intros F G q. destruct (F q) as [F1 F2], (G (f q)) as [G1 G2]. split; congruence. Qed.
Lemma QKeep_path (path : list N) f : QKeep f -> QKeep (fun q => if memN (q_id q) path then f q else q).
Proof. intros F q. destruct (memN _ _); [apply F|auto]. Qed.
Lemma q_dec_shape s leaf r : exists g, s_queues (q_dec s leaf r) = map g (s_queues s) /\ QKeep g /\
  s_apps (q_dec s leaf r) = s_apps s /\ s_nodes (q_dec s leaf r) = s_nodes s.
Proof. unfold q_dec. destruct (forallb _ _).
  - eexists. split; [apply on_path_queues|]. split; [apply QKeep_path; intros q; split; reflexivity|split; reflexivity].
  - exists (fun q => q). split; [symmetry; apply map_id|]. split; [apply QKeep_id|split; reflexivity]. Qed.
Lemma q_dec_pending_shape s leaf r : exists g, s_queues (q_dec_pending s leaf r) = map g (s_queues s) /\ QKeep g.
Proof. unfold q_dec_pending. eexists. split; [apply on_path_queues|]. apply QKeep_path. intros q. destruct (SubErrorNegative _ _). split; reflexivity. Qed.
Lemma q_inc_shape s leaf r : exists g, s_queues (q_inc s leaf r) = map g (s_queues s) /\ QKeep g.
Proof. unfold q_inc. eexists. split; [apply on_path_queues|]. apply QKeep_path. intros q. split; reflexivity. Qed.
Lemma q_inc_pending_shape s leaf r : exists g, s_queues (q_inc_pending s leaf r) = map g (s_queues s) /\ QKeep g.
Proof. unfold q_inc_pending. eexists. split; [apply on_path_queues|]. apply QKeep_path. intros q. split; reflexivity. Qed.

Lemma n_remove_res n key : on_reservations (n_remove n key) = on_reservations n.
Proof. unfold n_remove. destruct (find_alloc (on_allocs n) key); [reflexivity|]. destruct (find_alloc (on_foreign n) key); reflexivity. Qed.

(* ------------------------------------------------------------------ a generic neutral step: one application record and one node record
   replaced, queues mapped *)
Lemma one_app_one_node e' s s' (a a2 : oapp) (nid : N) (n2 : onode) g :
  Ids s -> In a (s_apps s) ->
  s_apps s' = map (fun b => if ap_id b =? ap_id a then a2 else b) (s_apps s) ->
  s_nodes s' = map (fun m => if on_id m =? nid then n2 else m) (s_nodes s) ->
  s_queues s' = map g (s_queues s) -> QKeep g ->
  app_keeps e' a a2 ->
  (forall m, In m (s_nodes s) -> on_id m = nid -> on_id n2 = on_id m /\ on_reservations n2 = on_reservations m) ->
  NF None e' s s'.
Proof. intros HI Ha Ea En Eq G Ka Kn. exists (fun b => if ap_id b =? ap_id a then a2 else b), (fun m => if on_id m =? nid then n2 else m), g.
  assert (Sa : forall b, In b (s_apps s) -> ap_id b = ap_id a -> b = a) by (intros b Hb E; apply (nodup_key_eq ap_id (s_apps s)); auto; apply (id_apps s HI)).
  destruct Ka as (K1 & K2 & K3 & K4 & K5).
  constructor; auto.
  - intros b Hb. destruct (N.eqb_spec (ap_id b) (ap_id a)); congruence.
  - intros b Hb. destruct (N.eqb_spec (ap_id b) (ap_id a)) as [E|E]; [rewrite (Sa b Hb E); exact K2|reflexivity].
  - intros b Hb. destruct (N.eqb_spec (ap_id b) (ap_id a)) as [E|E]; [rewrite (Sa b Hb E); exact K3|reflexivity].
  - intros m Hm. destruct (N.eqb_spec (on_id m) nid) as [E|E]; [apply (Kn m Hm E)|reflexivity].
  - intros m Hm. destruct (N.eqb_spec (on_id m) nid) as [E|E]; [apply (Kn m Hm E)|reflexivity].
  - intros q _. apply G.
  - intros q _. apply G.
  - intros b nid0 k0 Hb Hr Hne Ho. destruct (N.eqb_spec (ap_id b) (ap_id a)) as [E|E]; [|exact Ho].
    assert (b = a) by (apply Sa; assumption). subst b. apply K4; assumption.
  - intros a0 k0 [].
  - intros p (b & x & Hb & E1 & Hx & E2 & E3) (b0 & nid0 & Hb0 & E4 & Hr).
    assert (b0 = b) by (apply (nodup_key_eq ap_id (s_apps s)); auto; [apply (id_apps s HI)|congruence]). subst b0.
    destruct (N.eqb_spec (ap_id b) (ap_id a)) as [E|E].
    + assert (b = a) by (apply Sa; assumption). subst b. rewrite <- E2 in Hr. destruct (K5 x nid0 Hx E3 Hr) as (x' & Hx' & Ek & Er).
      exists a2, x'. rewrite Ea. split; [apply in_map_iff; exists a; rewrite N.eqb_refl; auto|]. rewrite K1. split; [exact E1|]. split; [exact Hx'|]. split; congruence.
    + exists b, x. rewrite Ea. split; [apply in_map_iff; exists b; apply N.eqb_neq in E; rewrite E; auto|auto]. Qed.

Lemma one_app_only e' s s' (a a2 : oapp) g :
  Ids s -> In a (s_apps s) ->
  s_apps s' = map (fun b => if ap_id b =? ap_id a then a2 else b) (s_apps s) -> s_nodes s' = s_nodes s ->
  s_queues s' = map g (s_queues s) -> QKeep g -> app_keeps e' a a2 -> NF None e' s s'.
Proof. intros HI Ha Ea En Eq G Ka. destruct (s_nodes s) as [|n0 t] eqn:Enodes.
  - apply (one_app_one_node e' s s' a a2 0 (new_node 0 [] false) g HI Ha Ea); auto; rewrite Enodes; [rewrite En; reflexivity|intros m []].
  - (* replace the first node by itself *)
    apply (one_app_one_node e' s s' a a2 (on_id n0) n0 g HI Ha Ea); auto.
    + rewrite En, Enodes. rewrite <- (map_id (n0 :: t)) at 1. apply map_ext_in. intros m Hm.
      destruct (N.eqb_spec (on_id m) (on_id n0)) as [E|E]; [|reflexivity].
      apply (nodup_key_eq on_id (s_nodes s)); [apply (id_nodes s HI)|rewrite Enodes; exact Hm|rewrite Enodes; left; reflexivity|exact E].
    + intros m Hm E. rewrite Enodes in Hm.
      assert (m = n0) by (apply (nodup_key_eq on_id (s_nodes s)); [apply (id_nodes s HI)|rewrite Enodes; exact Hm|rewrite Enodes; left; reflexivity|exact E]). subst m. auto. Qed.

(* ------------------------------------------------------------------ release of a bound allocation *)
Definition rel_app (a : oapp) (x : oalloc) (ttype : N) : oapp :=
  let allocated' := Prune (Sub (Some (ap_allocated a)) (Some (oa_res x))) in
  let zero := IsZero (Some (ap_pending a)) && IsZero (Some allocated') in
  let a1 := ap_event a (if zero then fsm_complete (ap_state a) else ap_state a) in
  let reqs := if ttype =? TT_Timeout then ap_requests a1 else del_alloc (oa_key x) (ap_requests a1) in
  ap_with a1 (ap_state a1) (ap_pending a1) allocated' (ap_phalloc a1) reqs (del_alloc (oa_key x) (ap_allocs a1)) (ap_statelog a1).

Lemma m_release_alloc_shape s a x ttype s' : m_release_alloc s a x ttype = Some s' ->
  exists n g, find_node s (oa_node x) = Some n /\
    s_apps s' = map (fun b => if ap_id b =? ap_id a then rel_app a x ttype else b) (s_apps s) /\
    s_nodes s' = map (fun m => if on_id m =? on_id n then n_remove n (oa_key x) else m) (s_nodes s) /\
    s_queues s' = map g (s_queues s) /\ QKeep g.
Proof. unfold m_release_alloc. intros H. destruct (_ || _); [discriminate|]. destruct (find_node s (oa_node x)) as [n|] eqn:En; [|discriminate].
  fold (rel_app a x ttype) in H. apply Some_inj in H. subst s'. exists n.
  destruct (StrictlyGreaterThanZero (Some (oa_res x))).
  - match goal with |- context [q_dec ?S ?L ?R] => set (S0 := S); destruct (q_dec_shape S0 L R) as (g & Eg & Kg & Ea & En') end.
    exists g. split; [reflexivity|].
    split; [change (s_apps (q_dec S0 (ap_queue a) (oa_res x)) = map (fun b => if ap_id b =? ap_id a then rel_app a x ttype else b) (s_apps s)); rewrite Ea; reflexivity|].
    split; [change (s_nodes (q_dec S0 (ap_queue a) (oa_res x)) = map (fun m => if on_id m =? on_id n then n_remove n (oa_key x) else m) (s_nodes s)); rewrite En'; reflexivity|].
    split; [change (s_queues (q_dec S0 (ap_queue a) (oa_res x)) = map g (s_queues s)); rewrite Eg; reflexivity|exact Kg].
  - exists (fun q => q). split; [reflexivity|]. cbn [add_counts upd_node upd_app s_apps s_nodes s_queues]. split; [reflexivity|]. split; [reflexivity|].
    split; [symmetry; apply map_id|apply QKeep_id]. Qed.

Lemma rel_app_fields a x ttype : ap_id (rel_app a x ttype) = ap_id a /\ ap_queue (rel_app a x ttype) = ap_queue a /\
  ap_reservations (rel_app a x ttype) = ap_reservations a /\
  ap_requests (rel_app a x ttype) = if ttype =? TT_Timeout then ap_requests a else del_alloc (oa_key x) (ap_requests a).
Proof. unfold rel_app. cbv zeta. cbn [ap_with ap_id ap_queue ap_reservations ap_requests].
  match goal with |- context [ap_event a ?st] => destruct (ap_event_fields a st) as (E1 & E2 & E3 & E4 & E5) end. rewrite E1, E2, E3, E4. auto. Qed.

(* the wrapper: reservation list hidden, frozen function, list put back *)
Lemma release_alloc_wrapped_nf s a x ttype s1 : Ids s -> In a (s_apps s) -> (forall p, In p (ap_reservations a) -> snd p <> oa_key x) ->
  m_release_alloc (hide_res s (ap_id a)) (ap_set_res a []) x ttype = Some s1 ->
  NF None None s (show_res s1 (ap_id a) (ap_reservations a)).
Proof. intros HI Ha Hk H. destruct (m_release_alloc_shape _ _ _ _ _ H) as (n & g & En & Ea & Enn & Eq & G).
  change (find_node (hide_res s (ap_id a)) (oa_node x)) with (find_node s (oa_node x)) in En. destruct (find_node_in _ _ _ En) as [Hn Enid].
  destruct (rel_app_fields (ap_set_res a []) x ttype) as (F1 & F2 & F3 & F4). cbn [ap_set_res ap_id ap_queue ap_requests] in F1, F2, F4.
  apply (one_app_one_node None s _ a (ap_set_res (rel_app (ap_set_res a []) x ttype) (ap_reservations a)) (on_id n) (n_remove n (oa_key x)) g HI Ha).
  - cbn [show_res upd_app s_apps]. rewrite Ea. cbn [hide_res upd_app s_apps ap_set_res ap_id]. rewrite !map_map. apply map_ext. intros b.
    destruct (N.eqb_spec (ap_id b) (ap_id a)) as [E|E]; cbn [ap_set_res ap_id]; rewrite ?E, ?N.eqb_refl; cbn [ap_set_res ap_id]; rewrite ?F1, ?N.eqb_refl; [reflexivity|].
    apply N.eqb_neq in E. rewrite !E. reflexivity.
  - exact Enn.
  - exact Eq.
  - exact G.
  - apply app_keeps_sub; cbn [ap_set_res ap_id ap_queue ap_reservations ap_requests]; auto.
    + intros y Hy (nid0 & Hr) _. exists y. rewrite F4. split; [|auto]. destruct (ttype =? TT_Timeout); [exact Hy|].
      apply filter_In. split; [exact Hy|]. apply negb_true_iff, N.eqb_neq. intros C. apply (Hk _ Hr). cbn [snd]. exact C.
    + intros y nid0 Hy Hq Hr. exists y. rewrite F4. split; [|auto]. destruct (ttype =? TT_Timeout); [exact Hy|].
      apply filter_In. split; [exact Hy|]. apply negb_true_iff, N.eqb_neq. intros C. apply (Hk _ Hr). cbn [snd]. exact C.
  - intros m Hm E. assert (m = n) by (apply (nodup_key_eq on_id (s_nodes s)); auto; apply (id_nodes s HI)). subst m.
    split; [apply n_remove_id|apply n_remove_res]. Qed.

Lemma NF_ids0 e e' s s' : NF e e' s s' -> Ids0 s -> Ids0 s'.
Proof. intros (fa & fn & fq & [A1 A2 A3 A4 A5 A6 A7 A8 A9 A10 A11 A12 A13]) [H1 H2]. constructor.
  - rewrite A1, map_map. erewrite map_ext_in; [exact H1|]. intros a Ha. apply (A4 a Ha).
  - rewrite A2, map_map. erewrite map_ext_in; [exact H2|]. intros n Hn. apply (A7 n Hn). Qed.
Lemma LFrame_ids0 s s' : LFrame s s' -> Ids0 s -> Ids0 s'.
Proof. intros (f & fa & fn & fq & F & A & Nn & Q & L) [H1 H2]. destruct L as [Ea En Eq _ _ _]. constructor.
  - rewrite Ea, map_map. erewrite map_ext; [exact H1|]. intros a. apply (as_id _ _ _ (A a)).
  - rewrite En, map_map. erewrite map_ext; [exact H2|]. intros n. apply (ns_id _ _ _ (Nn n)). Qed.

Lemma NF_dec_preempting e s leaf r : NF e e s (q_dec_preempting s leaf r).
Proof. unfold q_dec_preempting. eapply NF_queues; [reflexivity|reflexivity|apply on_path_queues|]. apply QKeep_path. intros q. split; reflexivity. Qed.

(* C09d.2: the release of a bound allocation.  [Hk]: the released key holds no reservation (an allocation the application lists
   is an ALLOCATED request - invariant [Inv] of C03 - and a reservation needs an unallocated one) *)
Theorem m_release_alloc4_rinv s a x ttype s' : Ids s -> RInv s -> In a (s_apps s) -> (forall p, In p (ap_reservations a) -> snd p <> oa_key x) ->
  m_release_alloc4 s a x ttype = Some s' -> RInv s'.
Proof. intros HI HR Ha Hk H. unfold m_release_alloc4 in H.
  destruct (m_release_alloc (hide_res s (ap_id a)) (ap_set_res a []) x ttype) as [s1|] eqn:E; [|discriminate]. apply Some_inj in H. subst s'.
  pose proof (release_alloc_wrapped_nf s a x ttype s1 HI Ha Hk E) as F2. set (s2 := show_res s1 (ap_id a) (ap_reservations a)) in *.
  assert (F3 : NF None None s (if oa_preempted x && StrictlyGreaterThanZero (Some (oa_res x)) then q_dec_preempting s2 (ap_queue a) (oa_res x) else s2)).
  { destruct (_ && _); [eapply NF_trans; [exact F2|apply NF_dec_preempting]|exact F2]. }
  match type of F3 with NF _ _ _ ?S3 => set (s3 := S3) in * end.
  destruct (ttype =? TT_Timeout); [eapply NF_rinv; eassumption|].
  apply r_cancel_rinv; [eapply NF_ids0; [exact F3|apply ids_ids0; exact HI]|eapply NF_rinv; eassumption]. Qed.

(* ------------------------------------------------------------------ release of a pending ask *)
Definition rel_ask_app (a : oapp) (x : oalloc) : oapp :=
  ap_with a (ap_state a) (Prune (Sub (Some (ap_pending a)) (Some (oa_res x)))) (ap_allocated a) (ap_phalloc a)
          (del_alloc (oa_key x) (ap_requests a)) (ap_allocs a) (ap_statelog a).

Lemma m_release_ask_shape s a x s' : m_release_ask s a x = Some s' ->
  exists a2 g, s_apps s' = map (fun b => if ap_id b =? ap_id a then a2 else b) (s_apps s) /\ s_nodes s' = s_nodes s /\
    s_queues s' = map g (s_queues s) /\ QKeep g /\
    ap_id a2 = ap_id a /\ ap_queue a2 = ap_queue a /\ ap_reservations a2 = ap_reservations a /\ ap_requests a2 = del_alloc (oa_key x) (ap_requests a).
Proof. unfold m_release_ask. intros H. destruct (_ || _); [discriminate|]. fold (rel_ask_app a x) in H. cbv zeta in H. apply Some_inj in H. subst s'.
  destruct (q_dec_pending_shape (upd_app s (ap_id a) (fun _ => rel_ask_app a x)) (ap_queue a) (oa_res x)) as (g & Eg & Kg).
  destruct (_ && _).
  - exists (ap_event (rel_ask_app a x) (fsm_complete (ap_state (rel_ask_app a x)))), g.
    destruct (ap_event_fields (rel_ask_app a x) (fsm_complete (ap_state (rel_ask_app a x)))) as (E1 & E2 & E3 & E4 & _).
    split; [|split; [reflexivity|split; [exact Eg|split; [exact Kg|rewrite E1, E2, E3, E4; auto]]]].
    cbn [upd_app q_dec_pending on_path upd_queues s_apps]. rewrite map_map. apply map_ext. intros b.
    destruct (N.eqb_spec (ap_id b) (ap_id a)) as [E|E]; [|apply N.eqb_neq in E; rewrite E; reflexivity].
    change (ap_id (rel_ask_app a x)) with (ap_id a). rewrite N.eqb_refl. reflexivity.
  - exists (rel_ask_app a x), g. split; [reflexivity|]. split; [reflexivity|]. split; [exact Eg|]. split; [exact Kg|auto]. Qed.

Lemma r_cancel_no_key s aid k a1 : Ids0 s -> RInv s -> find_app (fst (r_cancel s aid k)) aid = Some a1 -> forall p, In p (ap_reservations a1) -> snd p <> k.
Proof. intros HI HR E p Hp. destruct (find_app s aid) as [a|] eqn:Ea; [|unfold r_cancel in E; rewrite Ea in E; cbn [fst] in E; congruence].
  destruct (find_app_in _ _ _ Ea) as [Ha Eid]. subst aid.
  destruct (find (key_is k) (ap_reservations a)) as [q|] eqn:Ef.
  - apply find_some in Ef. destruct Ef as [Hq Ek]. unfold key_is in Ek. apply N.eqb_eq in Ek. destruct q as [nid k']. cbn [snd] in Ek. subst k'.
    rewrite (r_cancel_rm s a nid k Ea Hq (r_akeys _ s HR a Ha)) in E. cbn [fst] in E. unfold rm_state in E.
    unfold find_app in E. cbn [r_queue_unreserve upd_queues upd_app upd_node s_apps] in E. rewrite (find_map ap_id) in E.
    2: { intros b. destruct (ap_id b =? ap_id a); reflexivity. }
    fold (find_app s (ap_id a)) in E. rewrite Ea in E. cbn [option_map] in E. rewrite N.eqb_refl in E. apply Some_inj in E. subst a1.
    cbn [ap_set_res ap_reservations] in Hp. apply in_drop_key in Hp. apply Hp.
  - unfold r_cancel in E. rewrite Ea, Ef in E. cbn [fst] in E. rewrite Ea in E. apply Some_inj in E. subst a1.
    pose proof (find_none _ _ Ef p Hp) as C. unfold key_is in C. apply N.eqb_neq in C. exact C. Qed.

Theorem m_release_ask4_rinv s a x s' : Ids s -> RInv s -> find_app s (ap_id a) = Some a -> m_release_ask4 s a x = Some s' -> RInv s'.
Proof. intros HI HR Ea0 H. unfold m_release_ask4 in H. set (s1 := fst (r_cancel s (ap_id a) (oa_key x))) in *.
  assert (HI1 : Ids s1) by (eapply LFrame_ids; [apply LFrame_cancel|exact HI]).
  assert (HR1 : RInv s1) by (apply r_cancel_rinv; [apply ids_ids0; exact HI|exact HR]).
  destruct (find_app s1 (ap_id a)) as [a1|] eqn:Ea; [|discriminate].
  pose proof (r_cancel_no_key s (ap_id a) (oa_key x) a1 (ids_ids0 _ HI) HR Ea) as Hk. destruct (find_app_in _ _ _ Ea) as [Ha1 Eid1].
  destruct (m_release_ask (hide_res s1 (ap_id a)) (ap_set_res a1 []) x) as [s2|] eqn:E; [|discriminate]. apply Some_inj in H. subst s'.
  destruct (m_release_ask_shape _ _ _ _ E) as (a2 & g & Eap & Enn & Eq & G & F1 & F2 & F3 & F4).
  cbn [ap_set_res ap_id ap_queue ap_requests] in Eap, F1, F2, F4.
  eapply NF_rinv; [|exact HR1].
  apply (one_app_only None s1 _ a1 (ap_set_res a2 (ap_reservations a1)) g HI1 Ha1).
  - cbn [show_res upd_app s_apps]. rewrite Eap. cbn [hide_res upd_app s_apps]. rewrite !map_map. apply map_ext. intros b. rewrite <- Eid1.
    destruct (N.eqb_spec (ap_id b) (ap_id a1)) as [Eb|Eb]; cbn [ap_set_res ap_id]; rewrite ?Eb, ?N.eqb_refl; cbn [ap_set_res ap_id]; rewrite ?F1, ?Eid1, ?N.eqb_refl; [reflexivity|].
    apply N.eqb_neq in Eb. rewrite <- Eid1, !Eb. reflexivity.
  - change (s_nodes (show_res s2 (ap_id a) (ap_reservations a1))) with (s_nodes s2). rewrite Enn. reflexivity.
  - exact Eq.
  - exact G.
  - apply app_keeps_sub; cbn [ap_set_res ap_id ap_queue ap_reservations ap_requests]; auto; try congruence.
    + intros y Hy (nid0 & Hr) _. exists y. rewrite F4. split; [|auto]. apply filter_In. split; [exact Hy|].
      apply negb_true_iff, N.eqb_neq. intros C. apply (Hk _ Hr). cbn [snd]. exact C.
    + intros y nid0 Hy Hq Hr. exists y. rewrite F4. split; [|auto]. apply filter_In. split; [exact Hy|].
      apply negb_true_iff, N.eqb_neq. intros C. apply (Hk _ Hr). cbn [snd]. exact C. Qed.
