(* C03 over the gang fragment: boolean (sound) forms of the side hypotheses of [g_app_remove_step] (Core/Model3ProofsO5.v)
   and [g_node_remove_step] (Core/Model3ProofsO5d.v), and the theorems applied to the node removal of the worked history
   [nr3_steps] of Core/Model3ProofsEx.v (removeNodeAllocations confirms an in-flight replacement across nodes, then the
   application is removed): the hypotheses are satisfiable, the theorems are not vacuous. *)
From Coq Require Import List ZArith NArith Bool Lia ZifyBool.
From YK Require Import Base.Int64 Base.Res Base.ResSpec Base.ResLemmas Core.Obs Core.Model Core.Model2 Core.Model3 Core.Ledger
  Core.BooksLemmas Core.BooksDefs Core.BooksCheck Core.Model3ProofsD Core.Model3ProofsD2 Core.Model3ProofsC1 Core.Model3ProofsEx
  Core.Model3ProofsO5 Core.Model3ProofsO5b Core.Model3ProofsO5d.
Import ListNotations.
Open Scope Z_scope.

Definition keysnz_b (s : ostate) : bool := forallb (fun m => forallb (fun z => negb (oa_key z =? 0)%N) (on_allocs m)) (s_nodes s).
Lemma keysnz_b_spec s : keysnz_b s = true -> KeysNZ s.
Proof. intros H m z Hm Hz. unfold keysnz_b in H. rewrite forallb_forall in H. specialize (H m Hm). rewrite forallb_forall in H.
  specialize (H z Hz). apply negb_true_iff, N.eqb_neq in H. exact H. Qed.

Definition noterm_b (s : ostate) : bool := forallb (fun a => negb (is_terminal (ap_state a))) (s_apps s).
Lemma noterm_b_spec s : noterm_b s = true -> NoTerminal s.
Proof. intros H b Hb. unfold noterm_b in H. rewrite forallb_forall in H. apply negb_true_iff. apply (H b Hb). Qed.

Definition quota_ok_b (μ : ostate) (y : oalloc) : bool :=
  match find_app μ (oa_app y) with
  | Some a =>
      match find_alloc (ap_requests a) (oa_release y) with
      | Some r =>
          let delta := Sub (Some (oa_res r)) (Some (oa_res y)) in
          if oa_ph y && negb (oa_release y =? 0)%N && negb (oa_node r =? oa_node y)%N && HasNegativeValue (Some delta)
          then match q_try_inc μ (ap_queue a) delta with Some _ => true | None => false end
          else true
      | None => true
      end
  | None => true
  end.
Lemma quota_ok_b_spec μ y : quota_ok_b μ y = true -> QuotaOK μ y.
Proof. intros H a r Ea Er Py Ly En Hneg. unfold quota_ok_b in H. rewrite Ea, Er in H. cbv zeta in H. rewrite Py, Hneg in H.
  destruct (N.eqb_spec (oa_release y) 0); [contradiction|]. destruct (N.eqb_spec (oa_node r) (oa_node y)); [contradiction|]. cbn [negb andb] in H.
  destruct (q_try_inc μ (ap_queue a) _); [discriminate|discriminate H]. Qed.

Fixpoint rna_ok_b (s : ostate) (l : list oalloc) : bool :=
  bounded3_b s && noterm_b s &&
  match l with
  | [] => true
  | y :: t => quota_ok_b s y && match g_remove_node_allocs s [y] with Some (s2, _, _) => rna_ok_b s2 t | None => true end
  end.
Lemma rna_ok_b_spec : forall l s, rna_ok_b s l = true -> rna_ok PLoop QuotaOK s l.
Proof. induction l as [|y t IH]; intros s H; cbn [rna_ok_b rna_ok] in *; rewrite !andb_true_iff in H.
  - destruct H as [[H1 H2] _]. split; [split; [apply bounded3_b_spec|apply noterm_b_spec]; assumption|exact I].
  - destruct H as [[H1 H2] [H3 H4]]. split; [split; [apply bounded3_b_spec|apply noterm_b_spec]; assumption|].
    split; [apply quota_ok_b_spec; exact H3|]. destruct (g_remove_node_allocs s [y]) as [[[s2 da] dph]|]; [apply IH; exact H4|exact I]. Qed.

(* all side hypotheses of [g_node_remove_step] *)
Definition node_remove_ok_b (s : ostate) (evs : list oevent) (id : N) : bool :=
  keysnz_b s && nodupN (release_keys evs) &&
  match find_node s id with
  | Some n => match node_remove_order evs (on_allocs n) with
              | Some order => rna_ok_b (set_nodes s (filter (fun m => negb (on_id m =? id)%N) (s_nodes s))) order
              | None => true end
  | None => true
  end.
Theorem g_node_remove_step_b s evs id s' : InvG2 s -> BooksG s -> Bounded3 s -> node_remove_ok_b s evs id = true ->
  g_node_remove s evs id = Some s' -> InvG2 s' /\ BooksG s'.
Proof. intros HI2 HB HBd H. unfold node_remove_ok_b in H. rewrite !andb_true_iff in H. destruct H as [[H1 H2] H3].
  apply (g_node_remove_step s evs id s' HI2 HB HBd (keysnz_b_spec s H1) (nodupN_spec _ H2)).
  intros n order En Eo. rewrite En, Eo in H3. apply rna_ok_b_spec. exact H3. Qed.

(* the side hypothesis of [g_app_remove_step] *)
Definition app_remove_ok_b (s : ostate) (id : N) : bool :=
  match find_app s id with Some a => match xnode_inflight_reals a with [] => true | _ => false end | None => true end.
Theorem g_app_remove_step_b s id s' : InvG2 s -> BooksG s -> Bounded3 s -> app_remove_ok_b s id = true ->
  g_app_remove s id = Some s' -> InvG2 s' /\ BooksG s'.
Proof. intros HI2 HB HBd H. apply (g_app_remove_step s s' id HI2 HB HBd). intros a Ea. unfold app_remove_ok_b in H. rewrite Ea in H.
  destruct (xnode_inflight_reals a); [reflexivity|discriminate]. Qed.

(* ------------------------------------------------------------------ the worked history *)
Definition nr3_s9 : ostate := Eval vm_compute in m_run3 ex3_deny ex3_s0 (firstn 9 nr3_steps).
Definition nr3_evs : list oevent := [ERelease 11 1 TT_PlaceholderReplaced].
Example nr3_pre : invg2_b nr3_s9 = true /\ books_b nr3_s9 = true /\ rootg_b nr3_s9 = true /\ bounded3_b nr3_s9 = true /\
  node_remove_ok_b nr3_s9 nr3_evs 2 = true.
Proof. vm_compute. repeat split. Qed.
Example nr3_node_removed : exists s10, g_node_remove nr3_s9 nr3_evs 2 = Some s10 /\ InvG2 s10 /\ BooksG s10 /\
  app_remove_ok_b s10 1 = true /\ exists s11, g_app_remove s10 1 = Some s11 /\ s_apps s11 = [].
Proof. destruct nr3_pre as (H1 & H2 & H3 & H4 & H5).
  destruct (g_node_remove nr3_s9 nr3_evs 2) as [s10|] eqn:E; [|vm_compute in E; discriminate]. exists s10. split; [reflexivity|].
  destruct (g_node_remove_step_b nr3_s9 nr3_evs 2 s10 (invg2_b_spec _ H1) (booksg_b_spec _ H2 H3) (bounded3_b_spec _ H4) H5 E) as [R1 R2].
  split; [exact R1|]. split; [exact R2|]. vm_compute in E. inversion E; subst s10. vm_compute. split; [reflexivity|]. eexists. split; reflexivity. Qed.
