(* C03 over the gang fragment (Core/Model3.v): UpdateAllocation for a key the application holds as a placeholder
   ([g_update_existing]) and the branches of [g_alloc] that bind an allocation.
     [link_frame_reqs]   LinkOK is kept when the nodes and the allocation list of the one changed application are untouched
                         and no allocated request appears;
     [upd_pend_stepG]    (i) the resource of a PENDING ask changes in place (pending of application and queue path move by
                         new - old, a signed vector);
     [g_place_stepG]     (iii) the RM places a pending ask: requested -> allocated (AllocateAsk, IncAllocatedResource,
                         Node.AddAllocation forced, AddAllocation);
     [upd_alloc_stepG]   (ii) in-place resize of an ALLOCATED placeholder: allocatedPlaceholder, queue path, node, and the
                         three copies of the record (requests, allocations, node) change together.
                         ITS HYPOTHESIS [Xl] (no in-flight link) IS NECESSARY: resizing a placeholder whose replacement is in
                         flight breaks the size clause of LinkL2 (real <= placeholder) and, at the confirmation, the books
                         (the lead reproduced it on the real scheduler);
     [g_update_existing_step]  the dispatcher over the cases of [g_update_existing] (early exits, (i), (ii), (iii), (i)+(iii));
     [UpdOK3], [RecOK3]  the environment assumptions of a request for a known placeholder key / an unknown key with a node;
     [g_alloc_update_step], [g_alloc_recovered_step]  the two branches of [g_alloc]. *)
From Coq Require Import List ZArith NArith Bool Lia ZifyBool.
From YK Require Import Base.Int64 Base.Res Base.ResSpec Base.ResLemmas Base.ResLaws Base.ResLaws2 Base.ResLawsPred
  Core.Obs Core.Model Core.Model2 Core.Model3 Core.Ledger
  Core.BooksLemmas Core.BooksDefs Core.BooksTree Core.BooksQueue Core.BooksApp Core.BooksState Core.BooksDrain Core.BooksOps
  Core.BooksOps2 Core.Model2ProofsB2 Core.Model3ProofsD Core.Model3ProofsD2 Core.Model3ProofsG1 Core.Model3ProofsG2
  Core.Model3ProofsG5 Core.Model3ProofsG6 Core.Model3ProofsA1 Core.Model3ProofsA2 Core.Model3ProofsA3 Core.Model3ProofsO2.
Import ListNotations.
Open Scope Z_scope.
Set Default Timeout 30.

(* ================================================================== LinkOK: a frame *)
Section LinkFrameReq.
  Variables (s s' : ostate) (a a' : oapp).
  Hypothesis HI2 : InvG2 s.
  Hypothesis Ha : In a (s_apps s).
  Hypothesis Eapps : s_apps s' = updk ap_id (s_apps s) (ap_id a) (fun _ => a').
  Hypothesis Eid : ap_id a' = ap_id a.
  Hypothesis Enodes : s_nodes s' = s_nodes s.
  Hypothesis Eal : ap_allocs a' = ap_allocs a.
  (* no allocated request appears *)
  Hypothesis Hreq : forall r, In r (ap_requests a') -> oa_allocated r = true -> In r (ap_requests a).

  Lemma link_frame_reqs : LinkOK s'.
  Proof. pose proof (ig2_inv s HI2) as HI. pose proof (ig2_link s HI2) as HL. constructor.
    - intros m y Hm Hy Hi. rewrite Enodes in Hm. destruct (lk_1 s HL m y Hm Hy Hi) as (b & ph & Hb & Eb & Hph & Rest).
      destruct (N.eq_dec (ap_id b) (ap_id a)) as [E|E].
      + assert (b = a) by (apply (g_same_app s a b HI Ha Hb E)). subst b. exists a', ph.
        split; [apply (g_in_apps' s s' a a' HI Ha Eapps); auto|]. split; [congruence|]. split; [rewrite Eal; assumption|exact Rest].
      + exists b, ph. split; [apply (g_in_apps' s s' a a' HI Ha Eapps); auto|]. split; [assumption|]. split; assumption.
    - intros b ph r Hb Hph Pph Hl Hr Ek Pr Ar. rewrite Enodes. apply (g_in_apps' s s' a a' HI Ha Eapps) in Hb. destruct Hb as [->|[Hb _]].
      + rewrite Eal in Hph. apply (lk_2 s HL a ph r Ha Hph Pph Hl (Hreq r Hr Ar) Ek Pr Ar).
      + apply (lk_2 s HL b ph r Hb Hph Pph Hl Hr Ek Pr Ar). Qed.
End LinkFrameReq.

Lemma akeys_app (l1 l2 : list oalloc) : akeys (l1 ++ l2) = akeys l1 ++ akeys l2. Proof. apply map_app. Qed.

(* ================================================================== (i) a pending ask changes size *)
Definition g_upd_pend_state (s : ostate) (a : oapp) (x : oalloc) (nr : res) : ostate :=
  q_inc_pending (upd_app s (ap_id a) (fun _ => upd_res_ask_app a x nr)) (ap_queue a) (res_delta nr (oa_res x)).

Section UpdPendG.
  Variables (s : ostate) (a : oapp) (x : oalloc) (nr : res).
  Hypothesis HI2 : InvG2 s.
  Hypothesis HB : BooksG s.
  Hypothesis HBd : Bounded3 s.
  Hypothesis Ha : In a (s_apps s).
  Hypothesis Hx : In x (ap_requests a).
  Hypothesis Xna : oa_allocated x = false.
  Hypothesis Wn : wf nr.
  Hypothesis Bn : rb nr.
  Hypothesis Nn : rnonneg nr.
  Hypothesis Pn : positive nr.

  Theorem upd_pend_stepG : InvG2 (g_upd_pend_state s a x nr) /\ BooksG (g_upd_pend_state s a x nr).
  Proof. pose proof (ig2_inv s HI2) as HI. pose proof (ig_app_wf s HI a Ha) as W. pose proof (bg_apps s HB a Ha) as B.
    pose proof (bd_apps s (b3_base s HBd) a Ha) as Bd. assert (BdP : PendBd a) by (split; [apply (abd_pending a Bd)|apply (abd_req a Bd)]).
    set (s' := g_upd_pend_state s a x nr). set (a' := upd_res_ask_app a x nr). set (d := res_delta nr (oa_res x)).
    destruct (w3_req a W x Hx) as [Wx Nx _ _ _]. pose proof (abd_req a Bd x Hx) as Bx.
    destruct (res_delta_ok nr (oa_res x) Wn Wx Bn Bx Nn Nx) as (Wd & Bdd & Gd). fold d in Wd, Bdd, Gd.
    destruct (upd_res_ask_ok a x nr W (AppBooks_pend a B) BdP Hx Xna Wn Bn Nn Pn) as (_ & W' & (S1 & S2 & S3) & D'). fold a' in W', S1, S2, S3, D'.
    pose proof (upd_res_ask_books a x nr W B BdP Hx Xna Wn Bn Nn Pn) as B'. fold a' in B'.
    assert (Eapps : s_apps s' = updk ap_id (s_apps s) (ap_id a) (fun _ => a')) by reflexivity.
    assert (Enodes : s_nodes s' = s_nodes s) by reflexivity.
    assert (Ereq : ap_requests a' = map_key (oa_key x) (fun y => oa_with_res y nr) (ap_requests a)) by reflexivity.
    assert (Hkeep : forall y, In y (ap_requests a) -> oa_allocated y = true -> In y (ap_requests a')).
    { intros y Hy Hal. rewrite Ereq. apply in_map_key. exists y. split; [assumption|].
      destruct (N.eqb_spec (oa_key y) (oa_key x)) as [E|E]; [|reflexivity].
      assert (y = x) by (apply (nodup_key_inj oa_key (ap_requests a)); auto; apply (w3_req_keys a W)). congruence. }
    assert (Hback : forall y, In y (ap_requests a') -> oa_allocated y = true -> In y (ap_requests a)).
    { intros y Hy Hal. rewrite Ereq in Hy. apply in_map_key in Hy. destruct Hy as (z & Hz & ->).
      destruct (N.eqb_spec (oa_key z) (oa_key x)) as [E|E]; [|assumption].
      assert (z = x) by (apply (nodup_key_inj oa_key (ap_requests a)); auto; apply (w3_req_keys a W)). subst z.
      cbn [oa_with_res oa_allocated] in Hal. congruence. }
    assert (G : InvG s' /\ BooksG s').
    { apply (gang_step s s' a a' (F_inc_pending d) zero3 (getz d) HI HB Ha Eapps); try reflexivity; auto.
      - unfold s', g_upd_pend_state. apply g_q_inc_pending_queues. reflexivity.
      - intros q Hq Hp. apply F_inc_pending_Q; [apply (g_qok s q HI HB HBd Hq)|exact Wd|exact Bdd|].
        intros k. rewrite Gd. pose proof (sched_le s a x q HI HB Ha Hx Xna Hq Hp k). pose proof (rnonneg_fnonneg _ Nn k). lia.
      - apply rec_keys_incl. unfold app_records. rewrite !akeys_app, S3, Ereq, akeys_map_key by (intros y E; exact E). apply incl_refl.
      - intros k. rewrite S1, S2. unfold zero3. lia.
      - intros k. rewrite D', Gd. reflexivity.
      - rewrite Enodes. apply (ig_node_ids s HI).
      - rewrite Enodes. apply (ig_nodes s HI).
      - apply (owned_nodes_same s s' a a' HI Ha Eapps eq_refl Enodes). intros m y Hm Hy. apply (ownedby_reqs a a' y S3).
        intros Hyr _ Hal. apply (Hkeep y Hyr Hal).
      - apply (onnode_nodes_same s s' a a' HI Ha Eapps Enodes). rewrite S3. apply incl_refl.
      - apply (g_count_step s s' a a' HI Ha Eapps 0); [rewrite S3; lia|change (s_nallocs s') with (s_nallocs s); lia].
      - intros k. rewrite (node_records_same s s' Enodes). unfold zero3. lia. }
    destruct G as [I' B'']. split; [|exact B'']. constructor; [exact I'|].
    apply (link_frame_reqs s s' a a' HI2 Ha Eapps eq_refl Enodes S3 Hback). Qed.
End UpdPendG.

(* ================================================================== (iii) requested -> allocated *)
Definition g_place_state (s : ostate) (a : oapp) (ask : oalloc) (n : onode) : ostate :=
  let bound := oa_bound ask (on_id n) in
  let s2 := q_dec_pending (upd_app s (ap_id a) (fun _ => alloc_ask_app a ask (on_id n))) (ap_queue a) (oa_res ask) in
  let s3 := q_inc s2 (ap_queue a) (oa_res ask) in
  let s4 := upd_node s3 (on_id n) (fun _ => node_bound n bound) in
  add_counts (upd_app s4 (ap_id a) (fun b => app_add_alloc b false bound)) 1 1.

Lemma g_place_apps s a ask n :
  s_apps (g_place_state s a ask n) = updk ap_id (s_apps s) (ap_id a) (fun _ => sched_ph_app a ask (on_id n)).
Proof. unfold g_place_state. cbn [add_counts upd_app upd_node q_inc q_dec_pending on_path upd_queues s_apps]. unfold updk. rewrite map_map.
  apply map_ext. intros b. destruct (N.eqb_spec (ap_id b) (ap_id a)) as [E|E].
  - change (ap_id (alloc_ask_app a ask (on_id n))) with (ap_id a). rewrite N.eqb_refl. reflexivity.
  - destruct (N.eqb_spec (ap_id b) (ap_id a)); [contradiction|reflexivity]. Qed.

(* Side hypotheses as for a scheduling decision ([g_sched_ph_step]): the pending ask carries no link and no placeholder
   of the application is linked to its key. *)
Theorem g_place_stepG s a ask n : InvG2 s -> BooksG s -> Bounded3 s -> In a (s_apps s) -> In n (s_nodes s) ->
  In ask (ap_requests a) -> oa_allocated ask = false -> oa_release ask = 0%N -> unlinked (ap_allocs a) (oa_key ask) ->
  InvG2 (g_place_state s a ask n) /\ BooksG (g_place_state s a ask n).
Proof. intros HI2 HB HBd Ha Hn Hin Hna Hl Hu. pose proof (ig2_inv s HI2) as HI.
  apply (sched_core_step s _ a (sched_ph_app a ask (on_id n)) n ask (fun q => F_inc (oa_res ask) (F_dec_pending (oa_res ask) q))
           HI2 HB HBd Ha Hn Hin Hna Hl Hu (same_ledgers_refl _)); try reflexivity.
  - apply g_place_apps.
  - unfold g_place_state. cbn [add_counts upd_app upd_node s_queues]. apply q_inc_after; [|reflexivity|reflexivity].
    apply g_q_dec_pending_queues. reflexivity.
  - intros q Hq Hp. apply (sched_qf_id s a ask q HI HB HBd Ha Hin Hna Hq Hp). Qed.

(* ================================================================== (ii) an allocated placeholder changes size *)
Definition g_upd_alloc_state (s : ostate) (a : oapp) (x : oalloc) (nr : res) (n : onode) : ostate :=
  let d := res_delta nr (oa_res x) in
  upd_node (q_inc (upd_app s (ap_id a) (fun _ => upd_res_alloc_app a x nr)) (ap_queue a) d) (on_id n)
           (fun _ => n_update_alloc n (oa_key x) nr d).

Section UpdAllocG.
  Variables (s : ostate) (a : oapp) (x : oalloc) (nr : res) (n : onode).
  Hypothesis HI2 : InvG2 s.
  Hypothesis HB : BooksG s.
  Hypothesis HBd : Bounded3 s.
  Hypothesis Ha : In a (s_apps s).
  (* the placeholder is an allocation of the application (record identity with the addressed request) ... *)
  Hypothesis Hxa : In x (ap_allocs a).
  Hypothesis Xph : oa_ph x = true.
  (* ... whose replacement is not in flight *)
  Hypothesis Xl : oa_release x = 0%N.
  Hypothesis Wn : wf nr.
  Hypothesis Bn : rb nr.
  Hypothesis Nn : rnonneg nr.
  Hypothesis Pn : positive nr.
  Hypothesis Hn : In n (s_nodes s).
  Hypothesis Enx : on_id n = oa_node x.

  Let HI : InvG s := ig2_inv s HI2.
  Let HL : LinkOK s := ig2_link s HI2.
  Let W := ig_app_wf s HI a Ha.
  Let B := bg_apps s HB a Ha.
  Let key := oa_key x.
  Let f := fun y : oalloc => oa_with_res y nr.
  Let img := fun z : oalloc => if (oa_key z =? key)%N then f z else z.
  Let d := res_delta nr (oa_res x).
  Let a' := upd_res_alloc_app a x nr.
  Let n' := n_update_alloc n key nr d.
  Let s' := g_upd_alloc_state s a x nr n.

  Lemma ua3_apps : s_apps s' = updk ap_id (s_apps s) (ap_id a) (fun _ => a'). Proof. reflexivity. Qed.
  Lemma ua3_nodes : s_nodes s' = updk on_id (s_nodes s) (on_id n) (fun _ => n'). Proof. reflexivity. Qed.
  Lemma ua3_nid : on_id n' = on_id n. Proof. reflexivity. Qed.
  Lemma ua3_nallocs : on_allocs n' = map_key key f (on_allocs n). Proof. reflexivity. Qed.
  Lemma ua3_allocs : ap_allocs a' = map_key key f (ap_allocs a). Proof. reflexivity. Qed.
  Lemma ua3_requests : ap_requests a' = map_key key f (ap_requests a). Proof. reflexivity. Qed.

  Lemma ua3_img_key z : oa_key (img z) = oa_key z. Proof. unfold img. destruct (_ =? _)%N; reflexivity. Qed.
  Lemma ua3_img_other z : oa_key z <> key -> img z = z.
  Proof. intros H. unfold img. destruct (N.eqb_spec (oa_key z) key); [contradiction|reflexivity]. Qed.
  Lemma ua3_img_x : img x = f x. Proof. unfold img, key. rewrite N.eqb_refl. reflexivity. Qed.
  Lemma ua3_img_fields z : oa_app (img z) = oa_app z /\ oa_node (img z) = oa_node z /\ oa_ph (img z) = oa_ph z /\
    oa_release (img z) = oa_release z /\ oa_allocated (img z) = oa_allocated z /\ infl (img z) = infl z.
  Proof. unfold img. destruct (_ =? _)%N; repeat split. Qed.
  Lemma ua3_in_img l z : In z l -> In (img z) (map_key key f l).
  Proof. intros H. apply in_map_key. exists z. auto. Qed.
  Lemma ua3_in_img_inv l y : In y (map_key key f l) -> exists z, In z l /\ y = img z.
  Proof. intros H. apply in_map_key in H. exact H. Qed.

  Lemma ua3_x_on_n : In x (on_allocs n).
  Proof. destruct (ig_onnode s HI a x Ha Hxa) as (m & Hm & Em & Hxm).
    assert (m = n) by (apply (g_same_node s n m HI Hn Hm); congruence). subst m. assumption. Qed.
  (* a record on a node with x's key is x on n *)
  Lemma ua3_key_x m y : In m (s_nodes s) -> In y (on_allocs m) -> oa_key y = key -> y = x /\ m = n.
  Proof. intros Hm Hy E. apply (g_record_one_node s m n y x HI Hm Hn Hy ua3_x_on_n E). Qed.
  (* a record of the application with x's key in the allocation list is x *)
  Lemma ua3_alloc_x z : In z (ap_allocs a) -> oa_key z = key -> z = x.
  Proof. intros Hz E. apply (nodup_key_inj oa_key (ap_allocs a)); auto. apply (w3_alloc_keys a W). Qed.
  (* records of other applications have other keys *)
  Lemma ua3_key_other b z : In b (s_apps s) -> ap_id b <> ap_id a -> In z (app_records b) -> oa_key z <> key.
  Proof. intros Hb Hne Hz E. apply Hne. f_equal. apply (g_key_owner s b a z x HI Hb Ha Hz); [apply in_records; auto|exact E]. Qed.
  (* where the records of the nodes of s' come from *)
  Lemma ua3_orig m' y' : In m' (s_nodes s') -> In y' (on_allocs m') ->
    exists m z, In m (s_nodes s) /\ In z (on_allocs m) /\ y' = img z /\ on_id m' = on_id m.
  Proof. intros Hm' Hy'. apply (g_in_nodes' s s' n n' HI Hn ua3_nodes) in Hm'. destruct Hm' as [->|[Hm Hne]].
    - rewrite ua3_nallocs in Hy'. apply ua3_in_img_inv in Hy'. destruct Hy' as (z & Hz & ->). exists n, z. auto.
    - exists m', y'. split; [assumption|]. split; [assumption|]. split; [|reflexivity]. symmetry. apply ua3_img_other.
      intros E. destruct (ua3_key_x m' y' Hm Hy' E) as [_ ->]. contradiction. Qed.
  (* ... and where the records of the nodes of s go *)
  Lemma ua3_kept m z : In m (s_nodes s) -> In z (on_allocs m) ->
    exists m', In m' (s_nodes s') /\ on_id m' = on_id m /\ In (img z) (on_allocs m').
  Proof. intros Hm Hz. destruct (N.eq_dec (on_id m) (on_id n)) as [E|E].
    - assert (m = n) by (apply (g_same_node s n m HI Hn Hm E)). subst m. exists n'.
      split; [apply (g_in_nodes' s s' n n' HI Hn ua3_nodes); auto|]. split; [reflexivity|]. rewrite ua3_nallocs. apply ua3_in_img. assumption.
    - exists m. split; [apply (g_in_nodes' s s' n n' HI Hn ua3_nodes); auto|]. split; [reflexivity|]. rewrite ua3_img_other; [assumption|].
      intros Ek. destruct (ua3_key_x m z Hm Hz Ek) as [_ ->]. contradiction. Qed.

  Lemma ua3_ownedby z : OwnedBy a z -> OwnedBy a' (img z).
  Proof. intros [Ho|(H1 & H2 & H3 & H4)].
    - left. rewrite ua3_allocs. apply ua3_in_img. assumption.
    - assert (Hne : oa_key z <> key). { intros E. apply H4. rewrite E. apply in_akeys. exact Hxa. }
      rewrite (ua3_img_other z Hne). right. split; [assumption|]. split; [|split; [assumption|]].
      + rewrite ua3_requests. rewrite <- (ua3_img_other z Hne). apply ua3_in_img. assumption.
      + rewrite ua3_allocs, akeys_map_key by (intros y E; exact E). assumption. Qed.

  Lemma ua3_delta : wf d /\ rb d /\ forall k, getz d k = getz nr k - getz (oa_res x) k.
  Proof. destruct (w3_alloc a W x Hxa) as [Wx Nx _ _ _]. pose proof (abd_alloc a (bd_apps s (b3_base s HBd) a Ha) x Hxa) as Bx.
    apply (res_delta_ok nr (oa_res x) Wn Wx Bn Bx Nn Nx). Qed.

  Lemma ua3_node_ok : NodeOK3 n'.
  Proof. destruct ua3_delta as (Wd & Bdd & Gd). pose proof (ig_nodes s HI n Hn) as [K1 K2 K3 K4]. constructor.
    - rewrite ua3_nallocs, akeys_map_key by (intros y E; exact E). assumption.
    - intros y Hy. rewrite ua3_nallocs in Hy. apply ua3_in_img_inv in Hy. destruct Hy as (z & Hz & ->).
      destruct (ua3_img_fields z) as (_ & -> & _). apply (K2 z Hz).
    - intros k. change (on_allocated n') with (Prune (addTo (on_allocated n) d)). rewrite Prune_getz by (apply addTo_wf; exact K4).
      rewrite addTo_getz by (try assumption; apply (bd_nodes s (b3_base s HBd) n Hn)).
      change (on_allocs n') with (set_res key nr (on_allocs n)). rewrite (asum_set_res key nr (on_allocs n) x k K1 ua3_x_on_n eq_refl), K3, Gd. reflexivity.
    - change (on_allocated n') with (Prune (addTo (on_allocated n) d)). apply Prune_wf, addTo_wf. exact K4. Qed.

  Lemma ua3_inv : InvG s' /\ BooksG s'.
  Proof. destruct ua3_delta as (Wd & Bdd & Gd).
    assert (Bd3 : AppBounded3 a) by (split; [apply (bd_apps s (b3_base s HBd) a Ha)|apply (b3_ph s HBd a Ha)]).
    destruct (upd_res_alloc_ok a x nr W B Bd3 Hxa Xph Wn Bn Nn Pn) as (B' & W' & E1 & E2 & D').
    apply (gang_step s s' a a' (F_inc d) (getz d) zero3 HI HB Ha ua3_apps); try reflexivity; auto.
    - exact (g_q_inc_queues s (upd_app s (ap_id a) (fun _ => a')) (ap_queue a) d eq_refl).
    - intros q Hq Hp. apply F_inc_Q; [apply (g_qok s q HI HB HBd Hq)|exact Wd|exact Bdd|].
      intros k. rewrite Gd. pose proof (g_ph_le_phalloc a x k W B Hxa Xph). pose proof (g_phalloc_dominated s a HI HB Ha q k Hq Hp).
      pose proof (rnonneg_fnonneg _ Nn k). lia.
    - apply rec_keys_incl. unfold app_records. rewrite !(map_app oa_key). fold (akeys (ap_requests a')) (akeys (ap_allocs a')) (akeys (ap_requests a)) (akeys (ap_allocs a)).
      rewrite ua3_allocs, ua3_requests, !akeys_map_key by (intros y E; exact E). apply incl_refl.
    - intros k. fold a' in E2, D'. rewrite E2, D', Gd. lia.
    - intros k. fold a' in E1. rewrite E1. unfold zero3. lia.
    - apply (g_node_ids' s s' n n' HI ua3_nodes ua3_nid).
    - apply (g_nodes_ok' s s' n n' HI Hn ua3_nodes ua3_node_ok).
    - apply (owned_step s s' a a' HI Ha ua3_apps eq_refl). intros m' y' Hm' Hy'.
      destruct (ua3_orig m' y' Hm' Hy') as (m & z & Hm & Hz & -> & _). destruct (ua3_img_fields z) as (Eapp & _). rewrite Eapp.
      destruct (N.eq_dec (oa_app z) (ap_id a)) as [E|E].
      + right. split; [assumption|]. apply ua3_ownedby. apply (g_owner s m z a HI Hm Hz Ha). congruence.
      + left. split; [assumption|]. exists m. split; [assumption|]. rewrite ua3_img_other; [assumption|].
        intros Ek. destruct (ua3_key_x m z Hm Hz Ek) as [-> _]. apply E. apply (g_record_app s a x HI Ha). apply in_records. auto.
    - apply (onnode_step s s' a a' HI Ha ua3_apps).
      + intros z' Hz'. rewrite ua3_allocs in Hz'. apply ua3_in_img_inv in Hz'. destruct Hz' as (z & Hz & ->).
        destruct (ig_onnode s HI a z Ha Hz) as (m & Hm & Em & Hzm). destruct (ua3_kept m z Hm Hzm) as (m' & Hm' & Em' & Hzm').
        exists m'. split; [assumption|]. split; [|assumption]. destruct (ua3_img_fields z) as (_ & -> & _). congruence.
      + intros m y Hm Hy Hne. destruct (ua3_kept m y Hm Hy) as (m' & Hm' & Em' & Hym'). exists m'. split; [assumption|]. split; [assumption|].
        rewrite ua3_img_other in Hym'; [assumption|]. intros Ek. destruct (ua3_key_x m y Hm Hy Ek) as [-> _]. apply Hne.
        apply (g_record_app s a x HI Ha). apply in_records. auto.
    - apply (g_count_step s s' a a' HI Ha ua3_apps 0); [|change (s_nallocs s') with (s_nallocs s); lia].
      rewrite ua3_allocs. unfold map_key. rewrite map_length. lia.
    - intros k. rewrite (records_sum_upd s s' n n' HI Hn ua3_nodes ninfl k), ua3_nallocs.
      rewrite (asum_filter_map_key_one ninfl key f (on_allocs n) x k (k3_keys n (ig_nodes s HI n Hn)) ua3_x_on_n eq_refl).
      assert (Ex : ninfl x = true) by (unfold ninfl; rewrite (infl_ph x Xph); reflexivity).
      assert (Efx : ninfl (f x) = true) by (unfold ninfl; rewrite (infl_ph (f x) Xph); reflexivity).
      rewrite Ex, Efx, Gd. cbn [f oa_with_res oa_res]. lia. Qed.

  Lemma ua3_link : LinkOK s'.
  Proof. constructor.
    - intros m' y' Hm' Hy' Hi. destruct (ua3_orig m' y' Hm' Hy') as (m & z & Hm & Hz & -> & _).
      destruct (ua3_img_fields z) as (Eapp & Enode & _ & Erel & _ & Einfl). rewrite Einfl in Hi.
      destruct (lk_1 s HL m z Hm Hz Hi) as (b & ph & Hb & Eb & Hph & Pph & Ek & Er & Hnn). rewrite ua3_img_key, Eapp, Enode, Erel.
      destruct (N.eq_dec (ap_id b) (ap_id a)) as [E|E].
      + assert (b = a) by (apply (g_same_app s a b HI Ha Hb E)). subst b. exists a', (img ph).
        destruct (ua3_img_fields ph) as (_ & Enp & Epp & Erp & _). rewrite ua3_img_key, Enp, Epp, Erp.
        split; [apply (g_in_apps' s s' a a' HI Ha ua3_apps); auto|]. split; [exact Eb|]. split; [rewrite ua3_allocs; apply ua3_in_img; assumption|].
        repeat split; assumption.
      + exists b, ph. split; [apply (g_in_apps' s s' a a' HI Ha ua3_apps); auto|]. repeat split; assumption.
    - assert (Tr : forall b ph r, In b (s_apps s) -> In ph (ap_allocs b) -> oa_ph ph = true -> oa_release ph <> 0%N ->
                 In r (ap_requests b) -> oa_key r = oa_release ph -> oa_ph r = false -> oa_allocated r = true -> oa_key r <> key ->
                 oa_release r = oa_key ph /\ (forall k, getz (oa_res r) k <= getz (oa_res ph) k) /\
                 (oa_node r = oa_node ph -> forall m y, In m (s_nodes s') -> In y (on_allocs m) -> oa_key y <> oa_key r) /\
                 (oa_node r <> oa_node ph -> exists m, In m (s_nodes s') /\ on_id m = oa_node r /\ In r (on_allocs m))).
      { intros b ph r Hb Hph Pph Hl Hr Ek Pr Ar Hne. destruct (lk_2 s HL b ph r Hb Hph Pph Hl Hr Ek Pr Ar) as (C1 & C2 & C3 & C4).
        split; [exact C1|]. split; [exact C2|]. split.
        - intros E m' y' Hm' Hy'. destruct (ua3_orig m' y' Hm' Hy') as (m & z & Hm & Hz & -> & _). rewrite ua3_img_key. apply (C3 E m z Hm Hz).
        - intros E. destruct (C4 E) as (m & Hm & Em & Hrm). destruct (ua3_kept m r Hm Hrm) as (m' & Hm' & Em' & Hrm').
          rewrite (ua3_img_other r Hne) in Hrm'. exists m'. split; [assumption|]. split; [congruence|assumption]. }
      intros b ph' r' Hb Hph' Pph Hl Hr' Ek Pr Ar. apply (g_in_apps' s s' a a' HI Ha ua3_apps) in Hb. destruct Hb as [->|[Hb Hne]].
      + rewrite ua3_allocs in Hph'. apply ua3_in_img_inv in Hph'. destruct Hph' as (ph & Hph & ->).
        destruct (ua3_img_fields ph) as (_ & _ & Epp & Erp & _). rewrite Epp in Pph. rewrite Erp in Hl, Ek.
        assert (Hpk : oa_key ph <> key). { intros E. apply Hl. rewrite (ua3_alloc_x ph Hph E). exact Xl. }
        rewrite (ua3_img_other ph Hpk). rewrite ua3_requests in Hr'. apply ua3_in_img_inv in Hr'. destruct Hr' as (r & Hr & ->).
        destruct (ua3_img_fields r) as (_ & _ & Epr & _ & Ear & _). rewrite Epr in Pr. rewrite Ear in Ar. rewrite ua3_img_key in Ek.
        assert (Hrk : oa_key r <> key). { intros E. apply (w3_link a W ph Hph Pph Hl). rewrite <- Ek, E. apply in_akeys. exact Hxa. }
        rewrite (ua3_img_other r Hrk). apply (Tr a ph r Ha Hph Pph Hl Hr Ek Pr Ar Hrk).
      + apply (Tr b ph' r' Hb Hph' Pph Hl Hr' Ek Pr Ar). apply (ua3_key_other b r' Hb Hne). apply in_records. auto. Qed.

  Theorem upd_alloc_stepG : InvG2 (g_upd_alloc_state s a x nr n) /\ BooksG (g_upd_alloc_state s a x nr n).
  Proof. destruct ua3_inv as [I' B']. split; [|exact B']. constructor; [exact I'|exact ua3_link]. Qed.
End UpdAllocG.

(* ================================================================== the dispatcher *)
(* UpdateAllocationResources is called: the resource differs and the new one is not zero *)
Definition res_changed (nr : res) (x : oalloc) : bool := negb (IsZero (Some (res_delta nr (oa_res x)))) && negb (IsZero (Some nr)).
(* the state after the resource part of an update of a pending ask *)
Definition g_upd_mid (s : ostate) (a : oapp) (x : oalloc) (nr : res) : ostate :=
  if negb (res_changed nr x) then s else g_upd_pend_state s a x nr.

Lemma upd_mid_step s a x nr : InvG2 s -> BooksG s -> Bounded3 s -> In a (s_apps s) -> In x (ap_requests a) -> oa_allocated x = false ->
  wf nr -> rb nr -> rnonneg nr -> positive nr -> InvG2 (g_upd_mid s a x nr) /\ BooksG (g_upd_mid s a x nr).
Proof. intros HI2 HB HBd Ha Hx Xna Wn Bn Nn Pn. unfold g_upd_mid. destruct (negb _); [split; assumption|].
  apply (upd_pend_stepG s a x nr HI2 HB HBd Ha Hx Xna Wn Bn Nn Pn). Qed.

(* the application record and the ask in the intermediate state *)
Lemma upd_mid_app3 s a x nr a1 ask : InvG s -> In a (s_apps s) -> In x (ap_requests a) ->
  find_app (g_upd_mid s a x nr) (ap_id a) = Some a1 -> find_alloc (ap_requests a1) (oa_key x) = Some ask ->
  ap_id a1 = ap_id a /\ ap_queue a1 = ap_queue a /\ ap_allocs a1 = ap_allocs a /\
  oa_allocated ask = oa_allocated x /\ oa_release ask = oa_release x /\ oa_key ask = oa_key x.
Proof. intros HI Ha Hx E1 E2. pose proof (ig_app_wf s HI a Ha) as W. unfold g_upd_mid in E1. destruct (negb _).
  - rewrite (g_find_app_in s a HI Ha) in E1. inversion E1; subst a1. rewrite (find_alloc_in _ x (w3_req_keys a W) Hx) in E2. inversion E2; subst ask. repeat split.
  - rewrite (g_find_app' s (g_upd_pend_state s a x nr) a (upd_res_ask_app a x nr) HI Ha eq_refl eq_refl) in E1. inversion E1; subst a1.
    change (ap_requests (upd_res_ask_app a x nr)) with (map_key (oa_key x) (fun y => oa_with_res y nr) (ap_requests a)) in E2.
    rewrite find_alloc_map_key in E2 by (intros y E; exact E). rewrite (find_alloc_in _ x (w3_req_keys a W) Hx) in E2. cbn [option_map] in E2.
    rewrite N.eqb_refl in E2. inversion E2; subst ask. repeat split. Qed.

(* [g_update_existing] in terms of the named intermediate states *)
Lemma g_update_existing_eq s a x r : g_update_existing s a x r =
  if negb (oa_ph x) || negb (no_res a) then None else
  let nr := oget (rq_res r) in
  if oa_allocated x then
    match find_node s (oa_node x) with
    | None => Some s
    | Some n => Some (if negb (res_changed nr x) then s else g_upd_alloc_state s a x nr n)
    end
  else
    let s1 := g_upd_mid s a x nr in
    if (rq_node r =? 0)%N then Some s1 else
    match find_app s1 (ap_id a), find_node s1 (rq_node r) with
    | Some a1, Some n =>
        match find_alloc (ap_requests a1) (oa_key x) with
        | None => None
        | Some ask =>
            match n_add n (oa_bound ask (rq_node r)) true with
            | None => None
            | Some n' =>
                Some (add_counts (upd_app (upd_node (q_inc (q_dec_pending (upd_app s1 (ap_id a) (fun _ => alloc_ask_app a1 ask (rq_node r)))
                                                                        (ap_queue a) (oa_res ask)) (ap_queue a) (oa_res ask))
                                                    (on_id n) (fun _ => n'))
                                          (ap_id a) (fun b => app_add_alloc b false (oa_bound ask (rq_node r)))) 1 1)
            end
        end
    | _, _ => None
    end.
Proof. unfold g_update_existing. destruct (negb (oa_ph x) || negb (no_res a)); [reflexivity|]. cbv zeta.
  destruct (oa_allocated x); cbn [andb orb].
  - destruct (find_node s (oa_node x)) as [n|] eqn:En; [|reflexivity]. unfold res_changed, res_delta.
    destruct (negb (negb (IsZero _) && negb (IsZero _))); [reflexivity|].
    change (find_node (q_inc (upd_app s (ap_id a) (fun _ => _)) (ap_queue a) _) (oa_node x)) with (find_node s (oa_node x)).
    rewrite En. reflexivity.
  - reflexivity. Qed.

(* Side hypotheses (all about the pre-state and the request; [nr] = the new resource):
   - wf / rb / StrictlyGreaterThanZero of the new resource: ReqOK3 and the guard of [g_alloc];
   - [Hal] (ii): an ALLOCATED placeholder that is resized is listed as allocation of the application - the very record
     (Go: one shared object; an allocated request without allocation is the known finding "stale allocated ask", trigger 6) -
     and its replacement is NOT in flight ([oa_release x = 0]).  The second part is necessary: [g_update_existing] resizes a
     placeholder whose real ask is already allocated against it; afterwards real <= placeholder (LinkL2) can fail and the
     confirmation books the wrong difference (reproduced on the real scheduler by the lead).
   - [Hpl] (iii): a PENDING ask that is placed carries no link, no placeholder of the application is linked to its key (see
     [g_sched_ph_step]), and the intermediate state after the resource change is bounded (int64 head-room, like UpdOK (ii) of
     Core/Model2ProofsB3.v). *)
Theorem g_update_existing_step s s' a x r : InvG2 s -> BooksG s -> Bounded3 s ->
  wf (oget (rq_res r)) -> rb (oget (rq_res r)) -> StrictlyGreaterThanZero (rq_res r) = true ->
  In a (s_apps s) -> In x (ap_requests a) ->
  (oa_allocated x = true -> res_changed (oget (rq_res r)) x = true -> In x (ap_allocs a) /\ oa_release x = 0%N) ->
  (oa_allocated x = false -> rq_node r <> 0%N ->
     oa_release x = 0%N /\ unlinked (ap_allocs a) (oa_key x) /\ Bounded3 (g_upd_mid s a x (oget (rq_res r)))) ->
  g_update_existing s a x r = Some s' -> InvG2 s' /\ BooksG s'.
Proof. intros HI2 HB HBd Wn Bn Hs Ha Hx Hal Hpl H. pose proof (ig2_inv s HI2) as HI.
  assert (Same : InvG2 s /\ BooksG s) by (split; assumption).
  assert (Nn : rnonneg (oget (rq_res r))) by (destruct (rq_res r) as [rr|]; [apply sgtz_rnonneg; exact Hs|discriminate]).
  assert (Pn : positive (oget (rq_res r))) by (destruct (rq_res r) as [rr|]; [apply sgtz_positive; exact Hs|discriminate]).
  rewrite g_update_existing_eq in H. destruct (oa_ph x) eqn:Xph; [|discriminate]. cbn [negb orb] in H.
  destruct (negb (no_res a)); [discriminate|]. cbv zeta in H. set (nr := oget (rq_res r)) in *.
  destruct (oa_allocated x) eqn:Xal.
  - (* allocated: in place *) destruct (find_node s (oa_node x)) as [n|] eqn:En; [|inversion H; subst; exact Same].
    destruct (res_changed nr x) eqn:Ech; cbn [negb] in H; [|inversion H; subst; exact Same].
    inversion H; subst s'; clear H. destruct (Hal eq_refl eq_refl) as [Hxa Xl].
    apply find_node_some in En. destruct En as [Hn Enid].
    exact (upd_alloc_stepG s a x nr n HI2 HB HBd Ha Hxa Xph Xl Wn Bn Nn Pn Hn Enid).
  - 
    pose proof (upd_mid_step s a x nr HI2 HB HBd Ha Hx Xal Wn Bn Nn Pn) as Hm.
    destruct (N.eqb_spec (rq_node r) 0) as [E0|E0]; [inversion H; subst; exact Hm|].
    destruct (Hpl eq_refl E0) as (Xl & Xu & HBd1). fold nr in HBd1. destruct Hm as [HI21 HB1]. pose proof (ig2_inv _ HI21) as HI1.
    destruct (find_app (g_upd_mid s a x nr) (ap_id a)) as [a1|] eqn:Ea1; [|discriminate].
    destruct (find_node (g_upd_mid s a x nr) (rq_node r)) as [n|] eqn:En; [|discriminate].
    destruct (find_alloc (ap_requests a1) (oa_key x)) as [ask|] eqn:Eask; [|discriminate].
    destruct (upd_mid_app3 s a x nr a1 ask HI Ha Hx Ea1 Eask) as (Eid1 & Eq1 & Eal1 & Eall & Erel & Ekey).
    destruct (find_app_some _ _ _ Ea1) as [Ha1 _]. destruct (find_alloc_some _ _ _ Eask) as [Hask _].
    destruct (find_node_some _ _ _ En) as [Hn Enid].
    destruct (n_add n (oa_bound ask (rq_node r)) true) as [n'|] eqn:Eadd; [|discriminate].
    apply n_add_native in Eadd; [|apply (a3_native _ _ (w3_req a1 (ig_app_wf _ HI1 a1 Ha1) ask Hask))]. subst n'.
    inversion H; subst s'; clear H. rewrite <- Eid1, <- Eq1, <- Enid.
    apply (g_place_stepG _ a1 ask n HI21 HB1 HBd1 Ha1 Hn Hask); [congruence|congruence|]. rewrite Eal1, Ekey. exact Xu. Qed.

(* ------------------------------------------------------------------ the environment assumptions of a request for a known placeholder key *)
Definition UpdOK3 (s : ostate) (r : oreq) : Prop :=
  forall a x, find_app s (rq_app r) = Some a -> find_alloc (ap_requests a) (rq_key r) = Some x -> oa_ph x = true ->
    (oa_allocated x = true -> res_changed (oget (rq_res r)) x = true -> In x (ap_allocs a) /\ oa_release x = 0%N) /\
    (oa_allocated x = false -> rq_node r <> 0%N ->
       oa_release x = 0%N /\ unlinked (ap_allocs a) (oa_key x) /\ Bounded3 (g_upd_mid s a x (oget (rq_res r)))).
(* ... and for an unknown key reported with a node *)
Definition RecOK3 (s : ostate) (r : oreq) : Prop :=
  forall a, find_app s (rq_app r) = Some a -> find_alloc (ap_requests a) (rq_key r) = None -> rq_node r <> 0%N ->
    unlinked (ap_allocs a) (rq_key r).

(* ------------------------------------------------------------------ the branches of [g_alloc] that bind an allocation *)
(* the key is known to the application (and the request is not the unchanged real ask of an in-flight replacement, which
   returns the state unchanged - that early exit is included here since it is trivial) *)
Theorem g_alloc_update_step s s' r a x0 : InvG2 s -> BooksG s -> Bounded3 s -> ReqOK3 s r -> UpdOK3 s r ->
  find_app s (rq_app r) = Some a -> find_alloc (ap_requests a) (rq_key r) = Some x0 ->
  g_alloc s r = Some s' -> InvG2 s' /\ BooksG s'.
Proof. intros HI2 HB HBd RO UO Ea Ex H. unfold g_alloc in H.
  destruct (negb (rq_partition_ok r) || rq_foreign r); [discriminate|].
  destruct (rq_ph r && (rq_tg r =? 0)%N); [inversion H; subst; split; assumption|]. rewrite Ea in H.
  match type of H with (if ?c then None else _) = _ => destruct c; [discriminate|] end.
  destruct (IsZero (rq_res r) || negb (StrictlyGreaterThanZero (rq_res r))) eqn:Ez; [discriminate|].
  apply orb_false_iff in Ez. destruct Ez as [_ Ez]. apply negb_false_iff in Ez. rewrite Ex in H.
  match type of H with (if ?c then Some s else _) = _ => destruct c; [inversion H; subst; split; assumption|] end.
  destruct (find_app_some _ _ _ Ea) as [Ha _]. destruct (find_alloc_some _ _ _ Ex) as [Hx _]. destruct RO as (Wn & Bn & _).
  destruct (oa_ph x0) eqn:Xph; [|unfold g_update_existing in H; rewrite Xph in H; discriminate].
  destruct (UO a x0 Ea Ex Xph) as [U1 U2].
  apply (g_update_existing_step s s' a x0 r HI2 HB HBd Wn Bn Ez Ha Hx U1 U2 H). Qed.

(* the key is unknown and the shim reports a node: a recovered placeholder *)
Theorem g_alloc_recovered_step s s' r a : InvG2 s -> BooksG s -> Bounded3 s -> ReqOK3 s r -> RecOK3 s r ->
  find_app s (rq_app r) = Some a -> find_alloc (ap_requests a) (rq_key r) = None -> rq_node r <> 0%N ->
  g_alloc s r = Some s' -> InvG2 s' /\ BooksG s'.
Proof. intros HI2 HB HBd RO RK Ea Ex Hnode H. unfold g_alloc in H.
  destruct (rq_foreign r) eqn:Hfo; [rewrite orb_true_r in H; discriminate|].
  destruct (negb (rq_partition_ok r) || false); [discriminate|].
  destruct (rq_ph r && (rq_tg r =? 0)%N); [inversion H; subst; split; assumption|]. rewrite Ea in H.
  match type of H with (if ?c then None else _) = _ => destruct c; [discriminate|] end.
  destruct (IsZero (rq_res r) || negb (StrictlyGreaterThanZero (rq_res r))) eqn:Ez; [discriminate|].
  apply orb_false_iff in Ez. destruct Ez as [_ Ez]. apply negb_false_iff in Ez. rewrite Ex in H.
  destruct (N.eqb_spec (rq_node r) 0) as [E0|E0]; [contradiction|]. destruct (rq_ph r); [|discriminate].
  destruct (find_node s (rq_node r)) as [n|] eqn:En; [|discriminate].
  apply (g_recovered_alloc_step s s' r a n HI2 HB HBd RO Hfo Ea Ex); auto. apply N.eqb_neq. exact E0. Qed.
