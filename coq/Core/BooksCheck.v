(* C03: executable (boolean) forms of the carried hypotheses [Bounded], [StepOK], [RunOK], sound for the
   propositions.  They make the hypotheses of the theorems checkable by vm_compute on concrete states and
   histories (used for the satisfiability examples in Core/BooksExamples.v). *)
From Coq Require Import List ZArith NArith Bool Lia ZifyBool.
From YK Require Import Base.Int64 Base.Res Base.ResSpec Base.ResLemmas Core.Obs Core.Model Core.Ledger
  Core.BooksLemmas Core.BooksDefs Core.BooksOps Core.BooksOps4 Core.BooksProofs.
Import ListNotations.
Open Scope Z_scope.

Definition rb_b (r : res) : bool := forallb (fun kv : tid * Z => (- 2^62 <=? snd kv) && (snd kv <? 2^62)) r.
Lemma rb_b_spec r : rb_b r = true -> rb r.
Proof. intros H k. unfold rb_b in H. rewrite forallb_forall in H. unfold getz. destruct (get r k) as [v|] eqn:E; [|apply bnd_0].
  apply get_some_in in E. specialize (H (k, v) E). cbn [snd] in H. unfold bnd. lia. Qed.

Definition app_bounded_b (a : oapp) : bool :=
  rb_b (ap_pending a) && rb_b (ap_allocated a) &&
  forallb (fun x => rb_b (oa_res x)) (ap_requests a) && forallb (fun x => rb_b (oa_res x)) (ap_allocs a).
Definition bounded_b (s : ostate) : bool :=
  forallb app_bounded_b (s_apps s) &&
  forallb (fun q => rb_b (q_alloc q) && rb_b (q_pending q)) (s_queues s) &&
  forallb (fun n => rb_b (on_allocated n)) (s_nodes s).
Lemma bounded_b_spec s : bounded_b s = true -> Bounded s.
Proof. unfold bounded_b. rewrite !andb_true_iff, !forallb_forall. intros [[H1 H2] H3]. constructor.
  - intros a Ha. specialize (H1 a Ha). unfold app_bounded_b in H1. rewrite !andb_true_iff, !forallb_forall in H1.
    destruct H1 as [[[A1 A2] A3] A4]. constructor; try (apply rb_b_spec; assumption); intros x Hx; apply rb_b_spec; auto.
  - intros q Hq. specialize (H2 q Hq). rewrite andb_true_iff in H2. destruct H2. split; apply rb_b_spec; assumption.
  - intros n Hn. apply rb_b_spec. auto. Qed.

Fixpoint nodupN (l : list N) : bool :=
  match l with [] => true | x :: t => negb (memN x t) && nodupN t end.
Lemma nodupN_spec l : nodupN l = true -> NoDup l.
Proof. induction l as [|x t IH]; [constructor|]. cbn [nodupN]. rewrite andb_true_iff, negb_true_iff. intros [H1 H2].
  constructor; [apply memN_false; assumption|auto]. Qed.

Definition no_request_key_b (s : ostate) (key : N) : bool :=
  forallb (fun b => forallb (fun z => negb (oa_key z =? key)%N) (ap_requests b)) (s_apps s).
Lemma no_request_key_b_spec s key : no_request_key_b s key = true ->
  forall b z, In b (s_apps s) -> In z (ap_requests b) -> oa_key z <> key.
Proof. unfold no_request_key_b. rewrite forallb_forall. intros H b z Hb Hz. specialize (H b Hb). rewrite forallb_forall in H.
  specialize (H z Hz). apply negb_true_iff, N.eqb_neq in H. assumption. Qed.
Definition key_fresh_b (s : ostate) (key : N) : bool :=
  no_request_key_b s key && forallb (fun f => negb (oa_key f =? key)%N) (s_foreign s).
Lemma key_fresh_b_spec s key : key_fresh_b s key = true -> KeyFresh s key.
Proof. unfold key_fresh_b. rewrite andb_true_iff, forallb_forall. intros [H1 H2]. split; [apply no_request_key_b_spec; assumption|].
  intros f Hf. specialize (H2 f Hf). apply negb_true_iff, N.eqb_neq in H2. assumption. Qed.

Definition req_ok_b (s : ostate) (r : oreq) : bool :=
  nodupN (keys (oget (rq_res r))) && rb_b (oget (rq_res r)) &&
  (if rq_foreign r
   then match find_alloc (s_foreign s) (rq_key r) with None => no_request_key_b s (rq_key r) | Some _ => true end
   else match find_app s (rq_app r) with
        | Some a => match find_alloc (ap_requests a) (rq_key r) with None => key_fresh_b s (rq_key r) | Some _ => true end
        | None => true
        end).
Lemma req_ok_b_spec s r : req_ok_b s r = true -> ReqOK s r.
Proof. unfold req_ok_b. rewrite !andb_true_iff. intros [[H1 H2] H3]. constructor.
  - apply nodupN_spec. assumption.
  - apply rb_b_spec. assumption.
  - intros Hf a Ea En. rewrite Hf, Ea, En in H3. apply key_fresh_b_spec. assumption.
  - intros Hf En. rewrite Hf, En in H3. intros a y Ha Hy. apply (no_request_key_b_spec s _ H3 a y Ha Hy). Qed.

Definition step_ok_b (s : ostate) (st : ostep) : bool :=
  match st_op st with OpAlloc r => req_ok_b s r | _ => true end.
Lemma step_ok_b_spec s st : step_ok_b s st = true -> StepOK s st.
Proof. unfold step_ok_b, StepOK. destruct (st_op st); auto. apply req_ok_b_spec. Qed.

Fixpoint run_ok_b (deny : list (N * N)) (s : ostate) (steps : list ostep) : bool :=
  match steps with
  | [] => true
  | st :: t => bounded_b s && step_ok_b s st &&
               match m_step deny s st with Some s' => run_ok_b deny s' t | None => true end
  end.
Lemma run_ok_b_spec deny : forall steps s, run_ok_b deny s steps = true -> RunOK deny s steps.
Proof. induction steps as [|st t IH]; intros s H; [exact I|]. cbn [run_ok_b RunOK] in *. rewrite !andb_true_iff in H.
  destruct H as [[H1 H2] H3]. split; [apply bounded_b_spec; assumption|]. split; [apply step_ok_b_spec; assumption|].
  destruct (m_step deny s st); auto. Qed.

(* number of steps of a history the model covers before it stops *)
Fixpoint m_run_len (deny : list (N * N)) (s : ostate) (steps : list ostep) : nat :=
  match steps with
  | [] => O
  | st :: t => match m_step deny s st with Some s' => S (m_run_len deny s' t) | None => O end
  end.
