(* C03, queue clause: one lemma for every ledger update of the model.  An operation changes one application
   (allocated + placeholder total by dA, pending by dP) and applies the same change to every queue on the
   ancestor path of the application's queue ([on_path]); then every queue's books still agree: the leaf holds
   the sum over its applications and every parent the sum over its children. *)
From Coq Require Import List ZArith NArith Bool Lia ZifyBool.
From YK Require Import Base.Int64 Base.Res Base.ResSpec Base.ResLemmas Core.Obs Core.Model Core.Ledger
  Core.BooksLemmas Core.BooksDefs Core.BooksTree.
Import ListNotations.
Open Scope Z_scope.

Lemma filter_map_comm_in {A} (P : A -> bool) (g : A -> A) l : (forall x, In x l -> P (g x) = P x) ->
  filter P (map g l) = map g (filter P l).
Proof. induction l as [|x t IH]; intros H; [reflexivity|]. cbn [map filter]. rewrite (H x (or_introl eq_refl)).
  rewrite IH by (intros y Hy; apply H; right; assumption). destruct (P x); reflexivity. Qed.

Section QueueStep.
  Variables (s s' : ostate) (a a' : oapp) (F : oqueue -> oqueue) (dA dP : tid -> Z).
  Hypothesis HI : Inv s.
  Hypothesis HB : forall q, In q (s_queues s) -> QueueBooks s q.
  Hypothesis Ha : In a (s_apps s).
  Hypothesis Eapps : s_apps s' = updk ap_id (s_apps s) (ap_id a) (fun _ => a').
  Hypothesis Equeues : s_queues s' =
    map (fun q => if memN (q_id q) (path_ids s (ap_queue a)) then F q else q) (s_queues s).
  Hypothesis Fid : forall q, q_id (F q) = q_id q.
  Hypothesis Fpar : forall q, q_parent (F q) = q_parent q.
  Hypothesis Fleaf : forall q, q_leaf (F q) = q_leaf q.
  Hypothesis Eq : ap_queue a' = ap_queue a.
  Hypothesis HdA : forall k, getz (ap_allocated a') k + getz (ap_phalloc a') k =
                             getz (ap_allocated a) k + getz (ap_phalloc a) k + dA k.
  Hypothesis HdP : forall k, getz (ap_pending a') k = getz (ap_pending a) k + dP k.
  Hypothesis FA : forall q, In q (s_queues s) -> In (q_id q) (path_ids s (ap_queue a)) ->
                  forall k, getz (q_alloc (F q)) k = getz (q_alloc q) k + dA k.
  Hypothesis FP : forall q, In q (s_queues s) -> In (q_id q) (path_ids s (ap_queue a)) ->
                  forall k, getz (q_pending (F q)) k = getz (q_pending q) k + dP k.
  Hypothesis Fnn : forall q, In q (s_queues s) -> In (q_id q) (path_ids s (ap_queue a)) ->
                   rnonneg (q_alloc (F q)) /\ rnonneg (q_pending (F q)).

  Let path := path_ids s (ap_queue a).
  Let g := fun q => if memN (q_id q) path then F q else q.
  Let HT := inv_tree s HI.

  Lemma Equeues' : s_queues s' = map g (s_queues s). Proof. exact Equeues. Qed.
  Lemma g_id q : q_id (g q) = q_id q. Proof. unfold g. destruct (memN _ _); auto. Qed.
  Lemma g_par q : q_parent (g q) = q_parent q. Proof. unfold g. destruct (memN _ _); auto. Qed.
  Lemma g_leaf q : q_leaf (g q) = q_leaf q. Proof. unfold g. destruct (memN _ _); auto. Qed.

  Lemma apps_of_queue_step id :
    apps_of_queue s' id = updk ap_id (apps_of_queue s id) (ap_id a) (fun _ => a').
  Proof. unfold apps_of_queue. rewrite Eapps. unfold updk. apply filter_map_comm_in. intros b Hb.
    destruct (N.eqb_spec (ap_id b) (ap_id a)) as [E|E]; [|reflexivity].
    assert (b = a) by (apply (nodup_key_inj ap_id (s_apps s)); auto; apply (inv_app_ids s HI)). subst b. rewrite Eq. reflexivity. Qed.
  Lemma children_step id : children_of s' id = map g (children_of s id).
  Proof. unfold children_of. rewrite Equeues'. apply filter_map_comm. intros x. rewrite g_par. reflexivity. Qed.
  Lemma apps_of_queue_nodup id : NoDup (map ap_id (apps_of_queue s id)).
  Proof. apply NoDup_map_filter. apply (inv_app_ids s HI). Qed.

  Theorem queue_books_step : forall q', In q' (s_queues s') -> QueueBooks s' q'.
  Proof.
    intros q' Hq'. rewrite Equeues' in Hq'. apply in_map_iff in Hq'. destruct Hq' as (q & Eg & Hq). subst q'.
    destruct (inv_app_leaf s HI a Ha) as (lq & Elq & Hlq).
    destruct (path_facts s HT _ lq Elq) as (Hch & Hcomp & Hnd & t & Ep).
    pose proof (HB q Hq) as [B1 B2 B3 B4 B5 B6].
    constructor.
    - unfold g. destruct (memN (q_id q) path) eqn:Em; [|assumption]. apply memN_in in Em. apply (Fnn q Hq Em).
    - unfold g. destruct (memN (q_id q) path) eqn:Em; [|assumption]. apply memN_in in Em. apply (Fnn q Hq Em).
    - (* leaf, allocated *)
      rewrite g_leaf, g_id. intros Hl k. unfold app_usage. rewrite apps_of_queue_step, sumz_app.
      destruct (N.eq_dec (q_id q) (ap_queue a)) as [E|E].
      + assert (Hin : In a (apps_of_queue s (q_id q))).
        { unfold apps_of_queue. apply filter_In. split; [assumption|]. apply N.eqb_eq. congruence. }
        rewrite !(sumz_updk ap_id _ _ _ _ a k (apps_of_queue_nodup _) Hin eq_refl).
        assert (Em : In (q_id q) path) by (unfold path; rewrite Ep, E; left; reflexivity).
        unfold g. rewrite (proj2 (memN_in _ _) Em). rewrite (FA q Hq Em k), (B3 Hl k). unfold app_usage. rewrite sumz_app.
        specialize (HdA k). lia.
      + assert (Hni : ~ In (ap_id a) (map ap_id (apps_of_queue s (q_id q)))).
        { intros C. apply in_map_iff in C. destruct C as (b & Eb & Hb). unfold apps_of_queue in Hb. apply filter_In in Hb.
          destruct Hb as [Hb Eqb]. apply N.eqb_eq in Eqb.
          assert (b = a) by (apply (nodup_key_inj ap_id (s_apps s)); auto; apply (inv_app_ids s HI)). subst b. congruence. }
        rewrite (updk_fresh ap_id _ _ _ Hni).
        assert (Em : ~ In (q_id q) path) by (intros C; apply E; apply (leaf_only_head s HT q _ Hq Hl C)).
        unfold g. rewrite (proj2 (memN_false _ _) Em). rewrite (B3 Hl k). unfold app_usage. rewrite sumz_app. reflexivity.
    - (* leaf, pending *)
      rewrite g_leaf, g_id. intros Hl k. rewrite apps_of_queue_step.
      destruct (N.eq_dec (q_id q) (ap_queue a)) as [E|E].
      + assert (Hin : In a (apps_of_queue s (q_id q))).
        { unfold apps_of_queue. apply filter_In. split; [assumption|]. apply N.eqb_eq. congruence. }
        rewrite (sumz_updk ap_id _ _ _ _ a k (apps_of_queue_nodup _) Hin eq_refl).
        assert (Em : In (q_id q) path) by (unfold path; rewrite Ep, E; left; reflexivity).
        unfold g. rewrite (proj2 (memN_in _ _) Em). rewrite (FP q Hq Em k), (B4 Hl k).
        specialize (HdP k). lia.
      + assert (Hni : ~ In (ap_id a) (map ap_id (apps_of_queue s (q_id q)))).
        { intros C. apply in_map_iff in C. destruct C as (b & Eb & Hb). unfold apps_of_queue in Hb. apply filter_In in Hb.
          destruct Hb as [Hb Eqb]. apply N.eqb_eq in Eqb.
          assert (b = a) by (apply (nodup_key_inj ap_id (s_apps s)); auto; apply (inv_app_ids s HI)). subst b. congruence. }
        rewrite (updk_fresh ap_id _ _ _ Hni).
        assert (Em : ~ In (q_id q) path) by (intros C; apply E; apply (leaf_only_head s HT q _ Hq Hl C)).
        unfold g. rewrite (proj2 (memN_false _ _) Em). apply (B4 Hl k).
    - (* parent, allocated *)
      rewrite g_leaf, g_id. intros Hl k. rewrite children_step.
      destruct (in_dec N.eq_dec (q_id q) path) as [Em|Em].
      + destruct (child_on_path s HT _ lq q Elq Hlq Hq Hl Em) as (c0 & Hc0 & Hc0p & Huniq).
        unfold g at 2. rewrite (sumz_map_cond_one (fun c => memN (q_id c) path) F q_alloc (children_of s (q_id q)) c0 k).
        * unfold g. rewrite (proj2 (memN_in _ _) Em). apply in_children in Hc0.
          rewrite (FA q Hq Em k), (FA c0 (proj1 Hc0) Hc0p k), (B5 Hl k). lia.
        * apply (nodup_map_nodup q_id). apply (children_nodup s HT).
        * assumption.
        * apply memN_in. assumption.
        * intros c Hc Pc. apply memN_in in Pc. apply Huniq; assumption.
      + unfold g at 2. rewrite map_cond_none.
        * unfold g. rewrite (proj2 (memN_false _ _) Em). apply (B5 Hl k).
        * intros c Hc. apply memN_false. apply (child_off_path s HT _ lq q c Elq Hq Em Hc).
    - (* parent, pending *)
      rewrite g_leaf, g_id. intros Hl k. rewrite children_step.
      destruct (in_dec N.eq_dec (q_id q) path) as [Em|Em].
      + destruct (child_on_path s HT _ lq q Elq Hlq Hq Hl Em) as (c0 & Hc0 & Hc0p & Huniq).
        unfold g at 2. rewrite (sumz_map_cond_one (fun c => memN (q_id c) path) F q_pending (children_of s (q_id q)) c0 k).
        * unfold g. rewrite (proj2 (memN_in _ _) Em). apply in_children in Hc0.
          rewrite (FP q Hq Em k), (FP c0 (proj1 Hc0) Hc0p k), (B6 Hl k). lia.
        * apply (nodup_map_nodup q_id). apply (children_nodup s HT).
        * assumption.
        * apply memN_in. assumption.
        * intros c Hc Pc. apply memN_in in Pc. apply Huniq; assumption.
      + unfold g at 2. rewrite map_cond_none.
        * unfold g. rewrite (proj2 (memN_false _ _) Em). apply (B6 Hl k).
        * intros c Hc. apply memN_false. apply (child_off_path s HT _ lq q c Elq Hq Em Hc).
  Qed.
End QueueStep.
