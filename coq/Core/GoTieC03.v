(* Tie theorems (C03): the per-queue steps of Queue.IncAllocatedResource, DecAllocatedResource (with its
   resourceFitsAllocated guard) and incPendingResource GENERATED from pkg/scheduler/objects/queue.go
   (Generated/GoObjects.v) equal the per-queue functions of q_inc / q_dec / q_inc_pending of Core/Model.v (the
   recursion over the ancestors is the model's on_path; the skipped parent recursion is pinned). An error is `true`.
   NOTE (model/code difference made visible by this tie): the code's guard is allocatedResource.FitIn(res)
   (missing type = 0, negative = 0) while Model.q_dec tests FitInActual; the theorem is stated with what the code does,
   [fit_guards_agree] gives the condition under which the two agree. decPendingResource is not translated
   (SubErrorNegative builds its message by string concatenation). *)
From Coq Require Import String List ZArith NArith Bool Lia.
From YK Require Import Base.Int64 Base.F64 Base.Res Base.ResSpec Base.ResLemmas Core.Obs Core.Model
  Generated.GoPrelude Generated.GoResources Generated.GoObjects Base.GoTieLib Base.GoTieRep Base.GoTieClone Base.GoTieRes Base.GoTieFit Core.GoTieQ.
Import ListNotations.
Open Scope Z_scope.

Theorem gotie_resourceFitsAllocated sq q r : qres_rep sq q ->
  GoObjects.resourceFitsAllocated sq (toR r) = GOk (Res.FitIn (Some (q_alloc q)) r).
Proof.
  intros (Hm & Ha & Hp & Hr). unfold GoObjects.resourceFitsAllocated. rewrite Ha.
  pose proof (gotie_FitIn (Some (q_alloc q)) r) as E. cbn [toR option_map] in E. now rewrite E.
Qed.

(* IncAllocatedResource: allocated := Add allocated alloc (no limit checked) *)
Theorem gotie_IncAllocatedResource_step sq q r : qres_rep sq q -> wf (q_alloc q) ->
  exists sq', GoObjects.IncAllocatedResource_frag sq (Some (mkR r)) = GOk sq' /\
              qres_rep sq' (q_with q (q_max q) (Res.Add (Some (q_alloc q)) (Some r)) (q_pending q)).
Proof.
  intros (Hm & Ha & Hp & Hr) Hwa. unfold GoObjects.IncAllocatedResource_frag. rewrite Ha.
  pose proof (gotie_Add (Some (q_alloc q)) (Some r) Hwa) as E. cbn [toR option_map] in E. rewrite E.
  cbn [gbind]. unfold GoObjects.updateAllocatedResourceMetrics.
  destruct sq; cbn in *. eexists; split; [reflexivity|]. unfold qres_rep, q_with; cbn. auto.
Qed.

(* DecAllocatedResource: nil queue: error; guard; allocated := Prune (Sub allocated alloc) *)
Theorem gotie_DecAllocatedResource_step sq q r : qres_rep sq q -> wf (q_alloc q) ->
  let ok := Res.FitIn (Some (q_alloc q)) (Some r) in
  exists sq', GoObjects.DecAllocatedResource_step (Some sq) (Some (mkR r)) = GOk (Some sq', negb ok) /\
              qres_rep sq' (if ok then q_with q (q_max q) (Res.Prune (Res.Sub (Some (q_alloc q)) (Some r))) (q_pending q) else q).
Proof.
  intros Hrep Hwa ok. unfold GoObjects.DecAllocatedResource_step. cbn [is_nil negb deref gbind].
  pose proof (gotie_resourceFitsAllocated sq q (Some r) Hrep) as EF. cbn [toR option_map] in EF. rewrite EF.
  cbn [gbind]. fold ok. destruct Hrep as (Hm & Ha & Hp & Hr).
  destruct ok; cbn [negb].
  - rewrite Ha. pose proof (gotie_Sub (Some (q_alloc q)) (Some r) Hwa) as E. cbn [toR option_map] in E. rewrite E.
    cbn [gbind deref]. unfold GoObjects.updateAllocatedResourceMetrics.
    cbn [set_Queue_allocatedResource Queue_allocatedResource deref gbind].
    assert (Hw2 : wf (Res.Sub (Some (q_alloc q)) (Some r))).
    { unfold Res.Sub, subFrom. cbn [oget]. clear -Hwa. revert Hwa. generalize (q_alloc q). induction r as [|e t IH]; intros m H; cbn; [exact H|].
      apply IH. now apply wf_set. }
    pose proof (gotie_Prune (Some (Res.Sub (Some (q_alloc q)) (Some r))) Hw2) as EP. cbn [toR option_map] in EP.
    rewrite EP. cbn [gbind]. destruct sq; cbn in *. eexists; split; [reflexivity|]. unfold qres_rep, q_with; cbn. auto.
  - eexists; split; [reflexivity|]. unfold qres_rep; auto.
Qed.
Theorem gotie_DecAllocatedResource_nil r : GoObjects.DecAllocatedResource_step None r = GOk (None, true).
Proof. reflexivity. Qed.

(* when do the code's guard (FitIn) and the model's guard (FitInActual) agree: every requested type is listed by the
   queue with a non-negative quantity *)
Theorem fit_guards_agree (a r : res) :
  (forall k v, In (k, v) r -> exists lv, get a k = Some lv /\ 0 <= lv) ->
  Res.FitIn (Some a) (Some r) = Res.FitInActual (Some a) (Some r).
Proof.
  intros H. unfold Res.FitIn, Res.FitInActual, Res.fitIn. cbn [oget].
  apply forallb_ext_in. intros [k v] Hin. cbn. destruct (H k v Hin) as (lv & -> & Hlv).
  unfold zmax. destruct (Z.ltb_spec 0 lv); [reflexivity|]. replace lv with 0 by lia. reflexivity.
Qed.

(* incPendingResource: pending := Add pending delta *)
Theorem gotie_incPendingResource_step sq q r : qres_rep sq q -> wf (q_pending q) ->
  exists sq', GoObjects.incPendingResource_step sq (Some (mkR r)) = GOk sq' /\
              qres_rep sq' (q_with q (q_max q) (q_alloc q) (Res.Add (Some (q_pending q)) (Some r))).
Proof.
  intros (Hm & Ha & Hp & Hr) Hwp. unfold GoObjects.incPendingResource_step. rewrite Hp.
  pose proof (gotie_Add (Some (q_pending q)) (Some r) Hwp) as E. cbn [toR option_map] in E. rewrite E.
  cbn [gbind]. unfold GoObjects.updatePendingResourceMetrics.
  destruct sq; cbn in *. eexists; split; [reflexivity|]. unfold qres_rep, q_with; cbn. auto.
Qed.

Example DecAllocatedResource_skipped_pinned : GoObjects.DecAllocatedResource_step_skipped =
"if sq.parent != nil {
	if err := sq.parent.DecAllocatedResource(alloc); err != nil {
		if sq.isLeaf {
		}
		return err
	}
}"%string.
Proof. reflexivity. Qed.
Example incPendingResource_skipped_pinned : GoObjects.incPendingResource_step_skipped =
"if sq.parent != nil {
	sq.parent.incPendingResource(delta)
}"%string.
Proof. reflexivity. Qed.
