(* C03 over the gang fragment (Core/Model3.v): removeNode ([g_node_remove]), part 2b: the iterations of
   [g_remove_node_allocs] that dissolve an in-flight replacement without confirming it (case (c)):
     [step_unlink_real]  the record is the REAL half of a cross-node replacement sitting on the removed node: both links
                         are cleared, the ask is given back (pending +res on application and queue path), the record
                         disappears with the node; nothing is released (the plain part finds no allocation);
     [step_unlink_ph]    the record is a PLACEHOLDER whose real half is not bound on another node (same-node replacement):
                         both links cleared, the real ask given back, then the placeholder is removed like any allocation.
   Each is a chain of certified ghost states (Core/Model3ProofsO5c.v). *)
From Coq Require Import List ZArith NArith Bool Lia ZifyBool.
From YK Require Import Base.Int64 Base.Res Base.ResSpec Base.ResLemmas Base.ResLaws Base.ResLaws2 Base.ResLawsPred
  Core.Obs Core.Model Core.Model2 Core.Model3 Core.Ledger
  Core.BooksLemmas Core.BooksDefs Core.BooksTree Core.BooksQueue Core.BooksApp Core.BooksState Core.BooksDrain Core.BooksOps
  Core.BooksOps2 Core.BooksOps3 Core.BooksOps4 Core.Model2ProofsB1 Core.Model2ProofsB2 Core.Model2ProofsB4
  Core.Model3ProofsD Core.Model3ProofsD2 Core.Model3ProofsG1 Core.Model3ProofsG2 Core.Model3ProofsG3 Core.Model3ProofsG4
  Core.Model3ProofsG6 Core.Model3ProofsA1 Core.Model3ProofsA2 Core.Model3ProofsO1 Core.Model3ProofsO4 Core.Model3ProofsO5 Core.Model3ProofsO5b Core.Model3ProofsO5c.
Import ListNotations.
Open Scope Z_scope.
Set Default Timeout 30.

(* ------------------------------------------------------------------ the application record after obj_upd *)
Lemma find_app_obj_upd s app k f : find_app (obj_upd s app k f) app = option_map (fun a => flag_app a k f) (find_app s app).
Proof. rewrite !find_app_findk, Model3ProofsG3.obj_upd_apps. rewrite (findk_updk ap_id) by (intros a _; reflexivity).
  destruct (findk ap_id (s_apps s) app) as [a|] eqn:E; [|reflexivity]. cbn [option_map]. apply (findk_some ap_id) in E. destruct E as [_ ->].
  rewrite N.eqb_refl. reflexivity. Qed.
Lemma flag2_requests a k1 k2 f : ap_requests (flag_app (flag_app a k1 f) k2 f) = map_key k2 f (map_key k1 f (ap_requests a)). Proof. reflexivity. Qed.
Lemma flag2_allocs a k1 k2 f : ap_allocs (flag_app (flag_app a k1 f) k2 f) = map_key k2 f (map_key k1 f (ap_allocs a)). Proof. reflexivity. Qed.
Lemma akeys_flag2 k1 k2 l : akeys (map_key k2 ul (map_key k1 ul l)) = akeys l.
Proof. rewrite !akeys_map_key by (intros y E; exact E). reflexivity. Qed.
(* a record whose key is neither k1 nor k2 is untouched; the record under k2 (<> k1) becomes [ul] of itself *)
Lemma in_flag2_other k1 k2 l z : In z l -> oa_key z <> k1 -> oa_key z <> k2 -> In z (map_key k2 ul (map_key k1 ul l)).
Proof. intros Hz N1 N2. apply in_map_key. exists z. split; [apply in_map_key; exists z; split; [exact Hz|]|].
  - destruct (N.eqb_spec (oa_key z) k1); [contradiction|reflexivity].
  - destruct (N.eqb_spec (oa_key z) k2); [contradiction|reflexivity]. Qed.
Lemma in_flag2_hit k1 k2 l z : In z l -> oa_key z = k1 \/ oa_key z = k2 -> In (ul z) (map_key k2 ul (map_key k1 ul l)).
Proof. intros Hz Hk. apply in_map_key. destruct (N.eqb_spec (oa_key z) k1) as [E1|E1].
  - exists (ul z). split; [apply in_map_key; exists z; split; [exact Hz|]; rewrite (proj2 (N.eqb_eq _ _) E1); reflexivity|].
    cbn [ul oa_set_link oa_key]. destruct (oa_key z =? k2)%N; reflexivity.
  - exists z. split; [apply in_map_key; exists z; split; [exact Hz|]; destruct (N.eqb_spec (oa_key z) k1); [contradiction|reflexivity]|].
    destruct Hk as [Hk|Hk]; [contradiction|]. rewrite (proj2 (N.eqb_eq _ _) Hk). reflexivity. Qed.
Lemma flag2_from k1 k2 l z' : In z' (map_key k2 ul (map_key k1 ul l)) -> exists z, In z l /\ oa_key z = oa_key z' /\ (z' = z \/ z' = ul z).
Proof. intros H. apply in_map_key in H. destruct H as (z1 & H1 & ->). apply in_map_key in H1. destruct H1 as (z & Hz & ->).
  exists z. split; [exact Hz|]. destruct (oa_key z =? k1)%N; cbn [ul oa_set_link oa_key]; destruct (_ =? k2)%N; auto. Qed.

(* the nodes of a state after the two unlinks: images of the old records *)
Lemma nodes_flag2 s app k1 k2 m' z' : In m' (s_nodes (obj_upd (obj_upd s app k1 ul) app k2 ul)) -> In z' (on_allocs m') ->
  exists m z, In m (s_nodes s) /\ In z (on_allocs m) /\ on_id m' = on_id m /\ z' = hk app k2 ul (hk app k1 ul z).
Proof. intros Hm' Hz'. rewrite !Model3ProofsG3.obj_upd_nodes, map_map in Hm'. apply in_map_iff in Hm'. destruct Hm' as (m & <- & Hm).
  cbn [rmap_node n_with on_allocs on_id] in *. rewrite map_map in Hz'. apply in_map_iff in Hz'. destruct Hz' as (z & <- & Hz). exists m, z. auto. Qed.
Lemma hk2_key app k1 k2 z : oa_key (hk app k2 ul (hk app k1 ul z)) = oa_key z.
Proof. unfold hk. destruct (_ && _); cbn [ul oa_set_link oa_key oa_app]; destruct (_ && _); reflexivity. Qed.
Lemma hk2_fix app k1 k2 z : oa_key z <> k1 -> oa_key z <> k2 -> hk app k2 ul (hk app k1 ul z) = z.
Proof. intros N1 N2. rewrite (hk_other app k1 ul z (or_introl N1)). apply hk_other. left. exact N2. Qed.

Lemma nodes_sub_obj_upd s app k f m' z' : (forall z, oa_key (f z) = oa_key z) -> In m' (s_nodes (obj_upd s app k f)) -> In z' (on_allocs m') ->
  exists m z, In m (s_nodes s) /\ In z (on_allocs m) /\ oa_key z = oa_key z'.
Proof. intros Hf Hm' Hz'. rewrite Model3ProofsG3.obj_upd_nodes in Hm'. apply in_map_iff in Hm'. destruct Hm' as (m & <- & Hm).
  cbn [rmap_node n_with on_allocs] in Hz'. apply in_map_iff in Hz'. destruct Hz' as (z & <- & Hz). exists m, z. split; [exact Hm|]. split; [exact Hz|].
  unfold hk. destruct (_ && _); [symmetry; apply Hf|reflexivity]. Qed.
Lemma nodes_sub_dealloc s a k m' z' : In m' (s_nodes (app_deallocate s a k)) -> In z' (on_allocs m') ->
  exists m z, In m (s_nodes s) /\ In z (on_allocs m) /\ oa_key z = oa_key z'.
Proof. unfold app_deallocate. destruct (find_alloc (ap_requests a) k) as [r|]; [|eauto]. destruct (oa_allocated r); [|eauto].
  apply (nodes_sub_obj_upd s (ap_id a) k (fun z => oa_set_allocated z false)). reflexivity. Qed.

Lemma rmap_node2_allocs h1 h2 m : on_allocs (rmap_node h2 (rmap_node h1 m)) = map (fun z => h2 (h1 z)) (on_allocs m).
Proof. cbn [rmap_node n_with on_allocs]. apply map_map. Qed.

(* the ghost node after a record is dropped and records under other keys are mapped *)
Lemma rb_node_unbound s n y : InvG s -> Bounded3 s -> In n (s_nodes s) -> In y (on_allocs n) -> rb (on_allocated (node_unbound n y)).
Proof. intros HI HBd Hn Hy. pose proof (ig_nodes s HI n Hn) as K. destruct (g_node_record_app s n y HI Hn Hy) as (b & Hb & _ & Hob & [Y1 Y2 _ _ _]).
  assert (Yb : rb (oa_res y)).
  { pose proof (bd_apps s (b3_base s HBd) b Hb) as [_ _ D3 D4]. apply ownedby_record, in_records in Hob. destruct Hob; auto. }
  assert (Hnn : forall z, In z (on_allocs n) -> rnonneg (oa_res z)).
  { intros z Hz. destruct (g_node_record_app s n z HI Hn Hz) as (_ & _ & _ & _ & [_ Z2 _ _ _]). exact Z2. }
  intros j. cbn [node_unbound n_with on_allocated]. rewrite Prune_getz by (apply subFrom_wf, (k3_wf n K)).
  rewrite subFrom_getz by (try exact Y1; try exact Yb; apply (bd_nodes s (b3_base s HBd) n Hn)).
  pose proof (bd_nodes s (b3_base s HBd) n Hn j). pose proof (asum_ge_member (on_allocs n) y j Hnn Hy). rewrite <- (k3_ledger n K j) in *.
  pose proof (rnonneg_fnonneg _ Y2 j). unfold bnd in *. lia. Qed.

(* ================================================================== case (c), real half on the removed node *)
Lemma step_unlink_real id μ n y t c μ2 da dph : GI id μ n (y :: t) c -> Bounded3 μ -> Bounded3 μ2 ->
  oa_release y <> 0%N -> oa_ph y = false ->
  g_remove_node_allocs μ [y] = Some (μ2, da, dph) -> exists n', GI id μ2 n' t (c + da).
Proof. intros G HBd HBd2 Lrel Py H. pose proof G as [G1 G2 G3 G4 G5 G6 G7]. set (σ := ghost μ n c) in *. pose proof (ig2_inv _ G1) as HI.
  pose proof (ghost_bounded μ n c HBd G6) as HBdσ. pose proof (ghost_node_in μ n c) as Hn.
  destruct (ghost_owner id μ n _ c y G (or_introl eq_refl)) as (Hyn & a & Ha & Ea & Efa & Ho).
  pose proof (ig_app_wf σ HI a Ha) as W.
  destruct Ho as [Hy|(Hi & Hyr & Hyal & Hyf)]; [exfalso; apply Lrel; apply (w3_real_nolink a W y Hy Py)|].
  destruct (lk_1 _ (ig2_link _ G1) n y Hn Hyn Hi) as (b & ph & Hb & Eb & Hph & Pph & Kph & Rph & Nph).
  assert (b = a) by (apply (g_same_app σ a b HI Ha Hb); congruence). subst b.
  assert (Lph : oa_release ph <> 0%N) by (rewrite Rph; apply (G7 n y Hn Hyn)).
  assert (Eyn : oa_node y = on_id n) by (apply (k3_node n (ig_nodes σ HI n Hn) y Hyn)).
  (* ---- the model *)
  cbn [g_remove_node_allocs] in H. rewrite Efa in H. destruct (negb (no_res a) || oa_preempted y); [discriminate|].
  destruct (N.eqb_spec (oa_release y) 0) as [C|_]; [contradiction|].
  unfold find_obj in H. rewrite <- Kph, (find_alloc_in _ ph (w3_alloc_keys a W) Hph), Py in H. cbn [andb] in H.
  change (fun z : oalloc => oa_set_link z 0) with ul in H.
  set (aid := ap_id a) in *. set (kp := oa_key ph) in *. set (ky := oa_key y) in *.
  assert (Nk : ky <> kp) by (intros E; apply Hyf; rewrite E; apply (in_map oa_key _ ph Hph)).
  set (s1 := obj_upd (obj_upd μ aid kp ul) aid ky ul) in *. set (a1 := flag_app (flag_app a kp ul) ky ul).
  assert (Ef1 : find_app s1 aid = Some a1).
  { unfold s1. rewrite find_app_obj_upd, find_app_obj_upd. change (find_app μ aid) with (find_app σ aid). unfold aid. rewrite (g_find_app_in σ a HI Ha). reflexivity. }
  rewrite Ef1 in H.
  (* ---- the ghost chain: drop the record, clear both links, give the ask back *)
  set (n0 := node_unbound n y). destruct (drop_infl_inv μ n c y HI G2 HBdσ Hyn Hi) as [HI0 HB0]. fold n0 in HI0, HB0. set (σ0 := ghost μ n0 c) in *.
  assert (Hsub0 : forall m z, In m (s_nodes σ0) -> In z (on_allocs m) -> oa_key z <> ky /\ exists m0, In m0 (s_nodes σ) /\ In z (on_allocs m0)).
  { intros m z [<-|Hm] Hz.
    - cbn [n0 node_unbound n_with on_allocs] in Hz. apply in_del_alloc in Hz. split; [tauto|]. exists n. tauto.
    - split; [|exists m; split; [right; exact Hm|exact Hz]]. intros E. destruct (g_record_one_node σ m n z y HI (or_intror Hm) Hn Hz Hyn E) as [_ Em].
      apply (ghost_fresh (on_id n) μ n c HI eq_refl). rewrite <- Em. apply in_map. exact Hm. }
  assert (Hph_rec : forall m0 z, In m0 (s_nodes σ) -> In z (on_allocs m0) -> oa_key z = kp -> oa_app z = aid -> z = ph).
  { intros m0 z Hm0 Hz Ek Eapp. destruct (g_owner σ m0 z a HI Hm0 Hz Ha (eq_sym Eapp)) as [Hza|(_ & _ & _ & Hzf)].
    - apply (nodup_key_inj oa_key (ap_allocs a)); auto. apply (w3_alloc_keys a W).
    - exfalso. apply Hzf. rewrite Ek. apply in_map. exact Hph. }
  destruct (unlink_inv σ0 aid kp HI0 HB0) as [HI0a HB0a].
  { intros m z Hm Hz Ek Eapp. destruct (Hsub0 m z Hm Hz) as (_ & m0 & Hm0 & Hz0). rewrite (Hph_rec m0 z Hm0 Hz0 Ek Eapp).
    unfold infl. rewrite Pph. reflexivity. }
  destruct (unlink_inv (obj_upd σ0 aid kp ul) aid ky HI0a HB0a) as [HI1 HB1].
  { intros m z Hm Hz Ek _. exfalso. rewrite Model3ProofsG3.obj_upd_nodes in Hm. apply in_map_iff in Hm. destruct Hm as (m0 & <- & Hm0).
    cbn [rmap_node n_with on_allocs] in Hz. apply in_map_iff in Hz. destruct Hz as (z0 & <- & Hz0).
    apply (proj1 (Hsub0 m0 z0 Hm0 Hz0)). rewrite <- Ek. unfold hk. destruct (_ && _); reflexivity. }
  set (n1 := rmap_node (hk aid ky ul) (rmap_node (hk aid kp ul) n0)).
  change (obj_upd (obj_upd σ0 aid kp ul) aid ky ul) with (ghost s1 n1 c) in HI1, HB1. set (σ1 := ghost s1 n1 c) in *.
  assert (HL1 : LinkOK σ1).
  { set (n1' := rmap_node (hk aid ky ul) (rmap_node (hk aid kp ul) n)).
    assert (En' : s_nodes (obj_upd (obj_upd σ aid kp ul) aid ky ul) = n1' :: s_nodes s1) by reflexivity.
    apply (drop_linkok (obj_upd (obj_upd σ aid kp ul) aid ky ul) σ1 eq_refl).
    - intros m' z [<-|Hm'] Hz.
      + exists n1'. split; [rewrite En'; left; reflexivity|].
        unfold n1 in Hz. unfold n1'. rewrite rmap_node2_allocs in *. apply in_map_iff in Hz. destruct Hz as (z0 & <- & Hz0).
        apply (in_map (fun z => hk aid ky ul (hk aid kp ul z))). cbn [n0 node_unbound n_with on_allocs] in Hz0. apply in_del_alloc in Hz0. tauto.
      + exists m'. split; [rewrite En'; right; exact Hm'|exact Hz].
    - intros m z Hm Hz Hrel. rewrite En' in Hm. destruct Hm as [<-|Hm].
      + exists n1. split; [left; reflexivity|]. split; [reflexivity|]. unfold n1. unfold n1' in Hz. rewrite rmap_node2_allocs in *.
        apply in_map_iff in Hz. destruct Hz as (z0 & <- & Hz0). apply (in_map (fun z => hk aid ky ul (hk aid kp ul z))). cbn [n0 node_unbound n_with on_allocs]. apply in_del_alloc. split; [exact Hz0|]. intros E.
        assert (z0 = y) by (apply (nodup_key_inj oa_key (on_allocs n)); auto; apply (k3_keys n (ig_nodes σ HI n Hn))). subst z0.
        apply Hrel. rewrite (hk_other aid kp ul y (or_introl Nk)), (hk_hit aid ky ul y eq_refl (eq_sym Ea)). reflexivity.
      + exists m. split; [right; exact Hm|auto].
    - intros a' p' Ha' Hp'. pose proof (up_rmap σ a kp ky G1) as Eup. fold aid in Eup. rewrite Eup in Ha'. apply in_rmap_apps in Ha'. destruct Ha' as (a0 & Ha0 & ->).
      cbn [rmap_app ap_set_lists ap_with ap_allocs] in Hp'. apply in_map_iff in Hp'. destruct Hp' as (p0 & <- & Hp0). rewrite hk2_key.
      destruct (ig_onnode σ HI a0 p0 Ha0 Hp0) as (m & Hm & _ & Hpm). apply (G7 m p0 Hm Hpm).
    - apply (unlink_pair_linkok σ a ph kp ky G1 Ha Hph Pph Lph). left. split; [reflexivity|]. symmetry. exact Rph. }
  assert (HI21 : InvG2 σ1) by (split; assumption).
  assert (HBd0 : Bounded3 σ0) by (apply (ghost_bounded μ n0 c HBd); apply (rb_node_unbound σ n y HI HBdσ Hn Hyn)).
  assert (HBd1 : Bounded3 σ1) by (apply (unlink_bounded3 _ aid ky HI0a), (unlink_bounded3 _ aid kp HI0), HBd0).
  assert (Ha1 : In a1 (s_apps σ1)) by (apply (find_app_some s1 aid a1 Ef1)).
  assert (Hy1 : In (ul y) (ap_requests a1)) by (unfold a1; rewrite flag2_requests; apply in_flag2_hit; auto).
  assert (Hnonode1 : forall m z, In m (s_nodes σ1) -> In z (on_allocs m) -> oa_key z <> ky).
  { intros m z Hm Hz. destruct (nodes_flag2 σ0 aid kp ky m z Hm Hz) as (m0 & z0 & Hm0 & Hz0 & _ & ->). rewrite hk2_key. apply (Hsub0 m0 z0 Hm0 Hz0). }
  destruct (dealloc_step σ1 a1 ky (ul y) HI21 HB1 HBd1 Ha1 Hy1 eq_refl Hyal) as [HI22 HB2].
  { unfold a1. rewrite flag2_allocs, akeys_flag2. exact Hyf. }
  { intros m z Hm Hz _. apply (Hnonode1 m z Hm Hz). }
  destruct (app_deallocate_ghost s1 n1 c a1 ky) as (n2 & E2 & Nid2 & Nal2 & Nrec2). unfold σ1 in HI22, HB2. rewrite E2 in HI22, HB2.
  set (s1' := app_deallocate s1 a1 ky) in *.
  (* ---- the plain part finds no allocation *)
  assert (Hplain : g_node_remove_plain s1' (oa_app y) ky = (s1', 0, 0)).
  { unfold g_node_remove_plain. destruct (find_app s1' (oa_app y)) as [a2|] eqn:Ef2; [|reflexivity].
    destruct (find_alloc (ap_allocs a2) ky) as [x|] eqn:Ex; [exfalso|reflexivity].
    destruct (find_app_some _ _ _ Ef2) as [Ha2 Eid2]. destruct (find_alloc_some _ _ _ Ex) as [Hx Ekx].
    destruct (ig_onnode _ (ig2_inv _ HI22) a2 x Ha2 Hx) as (m & Hm & _ & Hxm).
    rewrite <- E2 in Hm. destruct (nodes_sub_dealloc (ghost s1 n1 c) a1 ky m x Hm Hxm) as (m1 & z & Hm1 & Hz & Ekz).
    apply (Hnonode1 m1 z Hm1 Hz). congruence. }
  rewrite Hplain in H. cbn [g_remove_node_allocs] in H. inversion H; subst μ2 da dph; clear H.
  (* ---- the invariant *)
  exists n2. rewrite Z.add_0_r.
  assert (Hfix : forall z, In z (on_allocs n0) -> hk aid ky ul (hk aid kp ul z) = z).
  { intros z Hz. destruct (Hsub0 n0 z (or_introl eq_refl) Hz) as [N2 _]. apply hk2_fix; [|exact N2]. intros E.
    cbn [n0 node_unbound n_with on_allocs] in Hz. apply in_del_alloc in Hz. destruct Hz as [Hz _].
    destruct (N.eq_dec (oa_app z) aid) as [Eapp|Eapp].
    - rewrite (Hph_rec n z Hn Hz E Eapp) in Hz. apply Nph. rewrite Eyn. apply (k3_node n (ig_nodes σ HI n Hn) ph Hz).
    - destruct (g_node_record_app σ n z HI Hn Hz) as (b0 & Hb0 & Eb0 & Hob & _).
      apply Eapp. rewrite <- Eb0. unfold aid. f_equal. apply (g_key_owner σ b0 a z ph HI Hb0 Ha); [apply ownedby_record; exact Hob|apply in_records; auto|exact E]. }
  assert (Hrec1 : on_allocs n1 = on_allocs n0).
  { unfold n1. rewrite rmap_node2_allocs. apply map_id_in. exact Hfix. }
  assert (Hrec2 : on_allocs n2 = on_allocs n0).
  { destruct Nrec2 as [->|Er2]; [exact Hrec1|]. rewrite Er2, Hrec1. apply map_id_in. intros z Hz. apply hk_other. left.
    apply (Hsub0 n0 z (or_introl eq_refl) Hz). }
  apply (GI_next id μ n y t c s1' n2 c G HI22 HB2).
  - apply (ghost_bounded s1' n2 c HBd2). rewrite Nal2. apply (rb_node_unbound σ n y HI HBdσ Hn Hyn).
  - rewrite Nid2. reflexivity.
  - intros z. rewrite Hrec2. cbn [n0 node_unbound n_with on_allocs]. apply in_del_alloc.
  - rewrite <- E2. apply keysnz_dealloc. change (KeysNZ (obj_upd (obj_upd σ0 aid kp ul) aid ky ul)). apply keysnz_obj_upd; [reflexivity|]. apply keysnz_obj_upd; [reflexivity|].
    apply (keysnz_sub σ); [|exact G7]. intros m z Hm Hz. destruct (Hsub0 m z Hm Hz) as (_ & m0 & Hm0 & Hz0). exists m0, z. auto. Qed.

(* ================================================================== case (c), placeholder whose real half is on no other node *)
(* the state between DeallocateAsk and the plain part is bounded: its usage ledgers are those before the iteration, its
   pending ledgers those after it *)
Lemma mid_bounded σ1 σ2 μ2 a1 a2 a3 (leaf : N) (rr : res) Fq :
  Bounded3 σ1 -> Bounded3 μ2 -> InvG σ1 -> In a1 (s_apps σ1) ->
  s_apps σ2 = updk ap_id (s_apps σ1) (ap_id a1) (fun _ => a2) -> ap_id a2 = ap_id a1 ->
  s_queues σ2 = path_map σ1 leaf Fq -> (forall q, q_alloc (Fq q) = q_alloc q) ->
  (forall n2, In n2 (s_nodes σ2) -> exists n1, In n1 (s_nodes σ1) /\ on_allocated n2 = on_allocated n1) ->
  ap_allocated a2 = ap_allocated a1 -> ap_phalloc a2 = ap_phalloc a1 -> ap_allocs a2 = ap_allocs a1 ->
  (forall x, In x (ap_requests a2) -> exists x1, In x1 (ap_requests a1) /\ oa_res x = oa_res x1) ->
  s_apps μ2 = updk ap_id (s_apps σ2) (ap_id a1) (fun _ => a3) -> ap_pending a3 = ap_pending a2 ->
  (forall q, In q (s_queues σ2) -> exists q3, In q3 (s_queues μ2) /\ q_pending q = q_pending q3) ->
  Bounded3 σ2.
Proof. intros B1 B3 HI1 Ha1 Eapps Eid Eq Fal Hnodes E1 E2 E3 Hreq Eapps3 Ep Hq.
  assert (Hin2 : forall b, In b (s_apps σ2) <-> b = a2 \/ (In b (s_apps σ1) /\ ap_id b <> ap_id a1)).
  { intros b. rewrite Eapps. apply in_updk_const; [apply (ig_app_ids σ1 HI1)|exact Ha1]. }
  assert (Ha2 : In a2 (s_apps σ2)) by (apply Hin2; auto).
  assert (Hnd2 : NoDup (map ap_id (s_apps σ2))) by (rewrite Eapps, updk_keys; [apply (ig_app_ids σ1 HI1)|intros b Hb; congruence]).
  assert (Hin3 : forall b, In b (s_apps μ2) <-> b = a3 \/ (In b (s_apps σ2) /\ ap_id b <> ap_id a2)).
  { intros b. rewrite Eapps3, <- Eid. apply in_updk_const; assumption. }
  apply (bounded3_mix σ2 σ1 μ2 B1 B3).
  - intros b Hb. apply Hin2 in Hb. destruct Hb as [->|[Hb Hne]].
    + exists a1, a3. split; [exact Ha1|]. split; [apply Hin3; auto|]. split; [symmetry; exact Ep|]. split; [exact E1|]. split; [exact E2|]. split.
      * intros x Hx. destruct (Hreq x Hx) as (x1 & Hx1 & E). exists x1. split; [apply in_records; auto|exact E].
      * intros x Hx. rewrite E3 in Hx. exists x. split; [apply in_records; auto|reflexivity].
    + exists b, b. split; [exact Hb|]. split; [apply Hin3; right; split; [apply Hin2; auto|congruence]|].
      repeat split; auto; intros x Hx; exists x; (split; [apply in_records; auto|reflexivity]).
  - intros q Hq2. destruct (Hq q Hq2) as (q3 & Hq3 & E). rewrite Eq in Hq2. unfold path_map in Hq2. apply in_map_iff in Hq2. destruct Hq2 as (q0 & <- & Hq0).
    exists q0, q3. split; [exact Hq0|]. split; [exact Hq3|]. split; [|exact E]. destruct (memN _ _); [apply Fal|reflexivity].
  - exact Hnodes. Qed.

(* DeallocateAsk for a request that may or may not carry the allocated flag *)
Lemma dealloc_any s a k r : InvG2 s -> BooksG s -> Bounded3 s -> In a (s_apps s) -> In r (ap_requests a) -> oa_key r = k ->
  ~ In k (akeys (ap_allocs a)) -> (forall m z, In m (s_nodes s) -> In z (on_allocs m) -> oa_app z = ap_id a -> oa_key z <> k) ->
  exists a2 Fq, InvG2 (app_deallocate s a k) /\ BooksG (app_deallocate s a k) /\
    s_apps (app_deallocate s a k) = updk ap_id (s_apps s) (ap_id a) (fun _ => a2) /\
    s_queues (app_deallocate s a k) = path_map s (ap_queue a) Fq /\ (forall q, q_alloc (Fq q) = q_alloc q) /\
    s_nodes (app_deallocate s a k) = s_nodes s /\ s_nallocs (app_deallocate s a k) = s_nallocs s /\
    ap_id a2 = ap_id a /\ ap_queue a2 = ap_queue a /\ ap_allocated a2 = ap_allocated a /\ ap_phalloc a2 = ap_phalloc a /\ ap_allocs a2 = ap_allocs a /\
    (forall x, In x (ap_requests a2) -> exists x1, In x1 (ap_requests a) /\ oa_res x = oa_res x1).
Proof. intros HI2 HB HBd Ha Hr Ek Hfr Hno. pose proof (ig2_inv s HI2) as HI. destruct (oa_allocated r) eqn:Hal.
  - exists (dealloc_app a k r), (F_inc_pending (oa_res r)). destruct (dealloc_step s a k r HI2 HB HBd Ha Hr Ek Hal Hfr Hno) as [R1 R2].
    split; [exact R1|]. split; [exact R2|]. split; [apply (da_apps s a k r HI2 Ha Hr Ek Hal)|]. split; [apply (da_queues s a k r HI2 Ha Hr Ek Hal)|].
    split; [reflexivity|]. split; [apply (da_nodes s a k r HI2 Ha Hr Ek Hal Hno)|]. split; [apply (da_other s a k r HI2 Ha Hr Ek Hal)|].
    split; [reflexivity|]. split; [reflexivity|]. split; [reflexivity|]. split; [reflexivity|]. split; [apply (da_allocs a k r Hfr)|].
    intros x Hx. rewrite da_requests in Hx. apply in_map_key in Hx. destruct Hx as (z & Hz & ->). exists z. split; [exact Hz|]. destruct (_ =? _)%N; reflexivity.
  - assert (E : app_deallocate s a k = s) by (unfold app_deallocate; rewrite <- Ek, (g_find_req_in s a r HI Ha Hr), Hal; reflexivity).
    rewrite E. exists a, (fun q => q). split; [exact HI2|]. split; [exact HB|].
    split; [symmetry; apply updk_self; [apply (ig_app_ids s HI)|exact Ha]|]. split; [symmetry; apply path_map_id|].
    repeat split; auto. intros x Hx. exists x. auto. Qed.

Lemma hk2_app app k1 k2 z : oa_app (hk app k2 ul (hk app k1 ul z)) = oa_app z.
Proof. unfold hk. destruct (_ && _); cbn [ul oa_set_link oa_key oa_app]; destruct (_ && _); reflexivity. Qed.
Lemma hk2_ph app k1 k2 z : oa_ph (hk app k2 ul (hk app k1 ul z)) = oa_ph z.
Proof. unfold hk. destruct (_ && _); cbn [ul oa_set_link oa_key oa_app oa_ph]; destruct (_ && _); reflexivity. Qed.
Lemma q_dec_pending_kept s leaf r q : In q (s_queues s) -> exists q3, In q3 (s_queues (q_dec s leaf r)) /\ q_pending q = q_pending q3.
Proof. intros Hq. unfold q_dec. destruct (forallb _ _); [|exists q; auto]. rewrite on_path_queues.
  set (g := fun q0 : oqueue => if memN (q_id q0) (path_ids s leaf) then F_dec r q0 else q0).
  exists (g q). split; [apply (in_map g _ q Hq)|]. unfold g. destruct (memN _ _); reflexivity. Qed.

Lemma step_unlink_ph id μ n y t c μ2 da dph : GI id μ n (y :: t) c -> Bounded3 μ -> Bounded3 μ2 -> NoTerminal μ2 ->
  oa_release y <> 0%N -> oa_ph y = true ->
  (forall a r, find_app μ (oa_app y) = Some a -> find_alloc (ap_requests a) (oa_release y) = Some r -> oa_node r = oa_node y) ->
  g_remove_node_allocs μ [y] = Some (μ2, da, dph) -> exists n', GI id μ2 n' t (c + da).
Proof. intros G HBd HBd2 HT2 Lrel Py Hsame H. pose proof G as [G1 G2 G3 G4 G5 G6 G7]. set (σ := ghost μ n c) in *. pose proof (ig2_inv _ G1) as HI.
  pose proof (ghost_bounded μ n c HBd G6) as HBdσ. pose proof (ghost_node_in μ n c) as Hn.
  destruct (ghost_owner id μ n _ c y G (or_introl eq_refl)) as (Hyn & a & Ha & Ea & Efa & Ho).
  pose proof (ig_app_wf σ HI a Ha) as W.
  destruct Ho as [Hy|(Hi & _)]; [|unfold infl in Hi; rewrite Py in Hi; discriminate].
  pose proof (w3_link a W y Hy Py Lrel) as Hlk.
  (* ---- the model *)
  cbn [g_remove_node_allocs] in H. rewrite Efa in H. destruct (negb (no_res a) || oa_preempted y); [discriminate|].
  destruct (N.eqb_spec (oa_release y) 0) as [C|_]; [contradiction|].
  unfold find_obj in H. rewrite (proj2 (find_alloc_none _ _) Hlk) in H.
  destruct (find_alloc (ap_requests a) (oa_release y)) as [r|] eqn:Er; [|discriminate].
  pose proof (Hsame a r Efa Er) as Enr. destruct (find_alloc_some _ _ _ Er) as [Hr Ekr].
  rewrite Py, Enr, N.eqb_refl, Ekr in H. cbn [negb andb] in H. change (fun z : oalloc => oa_set_link z 0) with ul in H.
  set (aid := ap_id a) in *. set (kr := oa_release y) in *. set (ky := oa_key y) in *.
  assert (Nk : ky <> kr) by (intros E; apply Hlk; rewrite <- E; apply (in_map oa_key _ y Hy)).
  set (s1 := obj_upd (obj_upd μ aid kr ul) aid ky ul) in *. set (a1 := flag_app (flag_app a kr ul) ky ul).
  assert (Ef1 : find_app s1 aid = Some a1).
  { unfold s1. rewrite find_app_obj_upd, find_app_obj_upd. change (find_app μ aid) with (find_app σ aid). unfold aid. rewrite (g_find_app_in σ a HI Ha). reflexivity. }
  rewrite Ef1 in H.
  (* ---- no node lists the real half *)
  assert (Hnokr : forall m z, In m (s_nodes σ) -> In z (on_allocs m) -> oa_app z = aid -> oa_key z <> kr).
  { intros m z Hm Hz Eapp Ek. destruct (g_owner σ m z a HI Hm Hz Ha (eq_sym Eapp)) as [Hza|(Hzi & Hzr & Hzal & _)].
    - apply Hlk. rewrite <- Ek. apply in_map. exact Hza.
    - assert (z = r) by (apply (nodup_key_inj oa_key (ap_requests a)); auto; [apply (w3_req_keys a W)|congruence]). subst z.
      assert (Pr : oa_ph r = false) by (unfold infl in Hzi; apply andb_true_iff in Hzi; destruct Hzi as [Hzi _]; apply negb_true_iff in Hzi; exact Hzi).
      destruct (lk_2 _ (ig2_link _ G1) a y r Ha Hy Py Lrel Hr Ekr Pr Hzal) as (_ & _ & R3 & _). apply (R3 Enr m r Hm Hz eq_refl). }
  (* ---- the ghost chain: clear both links, give the ask back, remove the placeholder *)
  destruct (unlink_inv σ aid kr HI G2) as [HIa HBa]. { intros m z Hm Hz Ek Eapp. exfalso. apply (Hnokr m z Hm Hz Eapp Ek). }
  destruct (unlink_inv (obj_upd σ aid kr ul) aid ky HIa HBa) as [HI1 HB1].
  { intros m z Hm Hz Ek _. rewrite Model3ProofsG3.obj_upd_nodes in Hm. apply in_map_iff in Hm. destruct Hm as (m0 & <- & Hm0).
    cbn [rmap_node n_with on_allocs] in Hz. apply in_map_iff in Hz. destruct Hz as (z0 & <- & Hz0).
    assert (Ek0 : oa_key z0 = ky) by (rewrite <- Ek; unfold hk; destruct (_ && _); reflexivity).
    destruct (g_record_one_node σ m0 n z0 y HI Hm0 Hn Hz0 Hyn Ek0) as [-> _]. unfold infl.
    assert (Ep : oa_ph (hk aid kr ul y) = true) by (unfold hk; destruct (_ && _); exact Py). rewrite Ep. reflexivity. }
  set (n1 := rmap_node (hk aid ky ul) (rmap_node (hk aid kr ul) n)).
  change (obj_upd (obj_upd σ aid kr ul) aid ky ul) with (ghost s1 n1 c) in HI1, HB1.
  assert (HL1 : LinkOK (ghost s1 n1 c)) by (apply (unlink_pair_linkok σ a y kr ky G1 Ha Hy Py Lrel); right; auto).
  assert (HI21 : InvG2 (ghost s1 n1 c)) by (split; assumption).
  assert (HBd1 : Bounded3 (ghost s1 n1 c)) by (apply (unlink_bounded3 _ aid ky HIa), (unlink_bounded3 _ aid kr HI), HBdσ).
  assert (Hnz1 : KeysNZ (ghost s1 n1 c)).
  { change (KeysNZ (obj_upd (obj_upd σ aid kr ul) aid ky ul)). apply keysnz_obj_upd; [reflexivity|]. apply keysnz_obj_upd; [reflexivity|exact G7]. }
  assert (Ha1 : In a1 (s_apps (ghost s1 n1 c))) by (apply (find_app_some s1 aid a1 Ef1)).
  assert (Hr1 : In (ul r) (ap_requests a1)) by (unfold a1; rewrite flag2_requests; apply in_flag2_hit; auto).
  assert (Hy1 : In (ul y) (ap_allocs a1)) by (unfold a1; rewrite flag2_allocs; apply in_flag2_hit; auto).
  assert (Hnonode1 : forall m z, In m (s_nodes (ghost s1 n1 c)) -> In z (on_allocs m) -> oa_app z = ap_id a1 -> oa_key z <> kr).
  { intros m z Hm Hz Eapp. destruct (nodes_flag2 σ aid kr ky m z Hm Hz) as (m0 & z0 & Hm0 & Hz0 & _ & ->). rewrite hk2_key. rewrite hk2_app in Eapp.
    apply (Hnokr m0 z0 Hm0 Hz0 Eapp). }
  destruct (dealloc_any (ghost s1 n1 c) a1 kr (ul r) HI21 HB1 HBd1 Ha1 Hr1 Ekr) as (a2 & Fq & D1 & D2 & D3 & D4 & D5 & D6 & D7 & D8 & D9 & D10 & D11 & D12 & D13).
  { unfold a1. rewrite flag2_allocs, akeys_flag2. exact Hlk. } { exact Hnonode1. }
  destruct (app_deallocate_ghost s1 n1 c a1 kr) as (n2 & E2 & Nid2 & Nal2 & _). rewrite E2 in D1, D2, D3, D4, D6, D7.
  set (s1' := app_deallocate s1 a1 kr) in *. change (n2 :: s_nodes s1' = n1 :: s_nodes s1) in D6.
  pose proof (f_equal (@tl onode) D6) as Ens. change (s_nodes s1' = s_nodes s1) in Ens.
  pose proof (f_equal (hd n1) D6) as En2. change (n2 = n1) in En2. subst n2. clear Nid2 Nal2 D6.
  change (s_apps s1' = updk ap_id (s_apps s1) (ap_id a1) (fun _ => a2)) in D3.
  change (s_queues s1' = path_map (ghost s1 n1 c) (ap_queue a1) Fq) in D4.
  assert (Ha2 : In a2 (s_apps s1')) by (rewrite D3; apply (in_updk_const ap_id _ a1 a2 a2 (ig_app_ids _ HI1) Ha1); auto).
  assert (Hy2 : In (ul y) (ap_allocs a2)) by (rewrite D12; exact Hy1).
  assert (Hy1n : In (ul y) (on_allocs n1)).
  { unfold n1. rewrite rmap_node2_allocs. apply in_map_iff. exists y. split; [|exact Hyn].
    rewrite (hk_other aid kr ul y (or_introl Nk)). apply (hk_hit aid ky ul y eq_refl (eq_sym Ea)). }
  assert (Hnz2 : KeysNZ (ghost s1' n1 c)) by (rewrite <- E2; apply keysnz_dealloc; exact Hnz1).
  set (a3 := app_remove_alloc a2 (ul y) TT_Unknown). set (μ3 := q_dec (upd_app s1' (ap_id a2) (fun _ => a3)) (ap_queue a2) (oa_res (ul y))).
  pose proof (ps_plain s1' n1 c a2 (ul y) D1 Ha2 Hy2) as Hplain. fold a3 μ3 in Hplain.
  change (oa_key (ul y)) with ky in Hplain. rewrite D8 in Hplain. change (ap_id a1) with aid in Hplain. rewrite Ea in Hplain.
  rewrite Hplain in H. cbn [g_remove_node_allocs] in H. inversion H; subst μ2 da dph; clear H.
  assert (Eapps3 : s_apps μ3 = updk ap_id (s_apps s1') (ap_id a1) (fun _ => a3)).
  { unfold μ3. rewrite (sq_apps _ _ (q_dec_same _ _ _)). cbn [upd_app s_apps]. rewrite D8. reflexivity. }
  assert (Hlive : is_terminal (ap_state a3) = false).
  { apply HT2. rewrite Eapps3. rewrite <- D8. apply (in_updk_const ap_id (s_apps s1') a2 a3 a3); [apply (ig_app_ids _ (ig2_inv _ D1))|exact Ha2|auto]. }
  assert (HBdσ2 : Bounded3 (ghost s1' n1 c)).
  { apply (mid_bounded (ghost s1 n1 c) (ghost s1' n1 c) μ3 a1 a2 a3 (ap_queue a1) [] Fq HBd1 HBd2 HI1 Ha1 D3 D8 D4 D5); auto.
    - intros m Hm. exists m. split; [|reflexivity]. destruct Hm as [<-|Hm]; [left; reflexivity|right; rewrite <- Ens; exact Hm].
    - apply app_remove_alloc_pending.
    - intros q Hq. apply (q_dec_pending_kept (upd_app s1' (ap_id a2) (fun _ => a3)) (ap_queue a2) (oa_res (ul y)) q Hq). }
  assert (NoPartner : forall m z, In m (s_nodes (ghost s1' n1 c)) -> In z (on_allocs m) -> infl z = true -> oa_app z = ap_id a2 -> oa_release z <> oa_key (ul y)).
  { intros m z Hm Hz Hiz Eapp Ek. destruct (partner_link _ a2 (ul y) m z D1 Ha2 Hy2 Hm Hz Hiz Eapp Ek) as (E & _). apply (Hnz2 m z Hm Hz). rewrite <- E. reflexivity. }
  destruct (plain_step s1' n1 c a2 (ul y) D1 D2 HBdσ2 Ha2 Hy2 Hy1n NoPartner Hlive) as (R1 & R2 & R3). fold a3 μ3 in R1, R2, R3.
  destruct (ps_node s1' n1 c a2 (ul y) D1 HBdσ2 Ha2 Hy2 Hy1n) as (N1 & N2 & _).
  exists (n_remove n1 (oa_key (ul y))). apply (GI_next id μ n y t c μ3 _ _ G R1 R2 R3).
  - rewrite N1. reflexivity.
  - intros z. rewrite N2. change (oa_key (ul y)) with ky. rewrite in_del_alloc. unfold n1. rewrite rmap_node2_allocs, in_map_iff.
    assert (Hfix : forall z0, In z0 (on_allocs n) -> oa_key z0 <> ky -> hk aid ky ul (hk aid kr ul z0) = z0).
    { intros z0 Hz0 Hne. rewrite (hk_other aid ky ul _); [|left; unfold hk; destruct (_ && _); exact Hne]. apply hk_other.
      destruct (N.eq_dec (oa_app z0) aid) as [Eapp|Eapp]; [left; apply (Hnokr n z0 Hn Hz0 Eapp)|right; exact Eapp]. }
    split.
    + intros [(z0 & <- & Hz0) Hne]. rewrite hk2_key in Hne. rewrite (Hfix z0 Hz0 Hne). auto.
    + intros [Hz Hne]. split; [exists z; split; [apply (Hfix z Hz Hne)|exact Hz]|exact Hne].
  - apply (keysnz_sub (ghost s1' n1 c)); [|exact Hnz2]. intros m' z' [<-|Hm'] Hz'.
    + rewrite N2 in Hz'. apply in_del_alloc in Hz'. exists n1, z'. split; [left; reflexivity|tauto].
    + unfold μ3 in Hm'. rewrite (sq_nodes _ _ (q_dec_same _ _ _)) in Hm'. exists m', z'. split; [right; exact Hm'|auto]. Qed.
