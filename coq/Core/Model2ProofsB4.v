(* C03 over the second fragment, part 4: removeApplication (Core/Model2.v [m_app_remove]).  The pending and the
   allocated total of the application are taken from every ancestor queue, every allocation of the application is
   removed from its node, the application leaves the live list, the partition counter drops by the number of
   allocations: exactly what the application held is returned, the books still agree.
   Proof: (1) an invariant over the walk [remove_allocs_from_nodes]; (2) the master lemma [native_step] for the
   state in which the application is emptied; (3) [drop_app_step] for the empty application leaving the list. *)
From Coq Require Import List ZArith NArith Bool Lia ZifyBool.
From YK Require Import Base.Int64 Base.Res Base.ResSpec Base.ResLemmas Base.ResLaws Base.ResLaws2 Base.ResLawsPred
  Core.Obs Core.Model Core.Model2 Core.Ledger
  Core.BooksLemmas Core.BooksDefs Core.BooksTree Core.BooksQueue Core.BooksApp Core.BooksState Core.BooksDrain Core.BooksStep
  Core.BooksOps Core.BooksOps2 Core.BooksOps3 Core.BooksOps4 Core.Model2ProofsB1.
Import ListNotations.
Open Scope Z_scope.
Set Default Timeout 30.

Lemma fit_actual_dom l r : wf r -> (forall k, getz r k <= getz l k) -> FitInActual (Some l) (Some r) = true.
Proof. intros W H. apply FitInActual_spec; [exact W|]. cbn [oget]. intros k v l0 Ev El. specialize (H k). unfold getz in H.
  rewrite Ev, El in H. exact H. Qed.

Lemma filter_updk_out {A} (key : A -> N) l id (f : A -> A) : (forall b, key b = id -> key (f b) = id) ->
  filter (fun b => negb (key b =? id)%N) (updk key l id f) = filter (fun b => negb (key b =? id)%N) l.
Proof. intros Hf. induction l as [|b t IH]; [reflexivity|]. unfold updk in *. cbn [map filter].
  destruct (N.eqb_spec (key b) id) as [E|E].
  - rewrite (Hf b E), N.eqb_refl. cbn [negb]. apply IH.
  - destruct (N.eqb_spec (key b) id); [contradiction|]. cbn [negb]. f_equal. apply IH. Qed.

Lemma filter_all {A} (P : A -> bool) l : (forall y, In y l -> P y = true) -> filter P l = l.
Proof. induction l as [|y t IH]; intros H; [reflexivity|]. cbn [filter]. rewrite (H y (or_introl eq_refl)). f_equal. apply IH.
  intros z Hz. apply H. right. assumption. Qed.

Lemma alloc_on_node_rec s a x : Inv s -> Books0 s -> In a (s_apps s) -> In x (ap_allocs a) ->
  exists m, In m (s_nodes s) /\ on_id m = oa_node x /\ In x (on_allocs m).
Proof. intros HI HB Ha Hx. destruct (onnode_P_of s (bk_onnode s HB) a x Ha Hx) as (m & Hm & Em & _).
  assert (En : find_node s (oa_node x) = Some m) by (rewrite <- Em; apply find_node_in; assumption).
  destruct (alloc_on_its_node s a x m HI HB Ha Hx En) as (_ & _ & Hf). exists m. split; [assumption|]. split; [assumption|].
  apply (find_alloc_some _ _ _ Hf). Qed.

(* the walk touches nothing but the node list *)
Lemma rafn_other l : forall s, s_apps (remove_allocs_from_nodes s l) = s_apps s /\ s_queues (remove_allocs_from_nodes s l) = s_queues s /\
  s_foreign (remove_allocs_from_nodes s l) = s_foreign s /\ s_nallocs (remove_allocs_from_nodes s l) = s_nallocs s.
Proof. induction l as [|x t IH]; intros s; [auto|]. cbn [remove_allocs_from_nodes].
  destruct (IH (match find_node s (oa_node x) with Some n => upd_node s (on_id n) (fun _ => n_remove n (oa_key x)) | None => s end)) as (E1 & E2 & E3 & E4).
  rewrite E1, E2, E3, E4. destruct (find_node s (oa_node x)); auto. Qed.

(* ================================================================== (1) the walk over the nodes *)
Section Walk.
  Variables (s0 : ostate) (a : oapp) (C : tid -> Z).
  Hypothesis HI : Inv s0.
  Hypothesis HB : Books0 s0.
  Hypothesis HBd : Bounded s0.
  Hypothesis Ha : In a (s_apps s0).

  Definition listed (y : oalloc) : Prop := exists b, In b (s_apps s0) /\ In y (ap_allocs b).
  Lemma listed_ok y : listed y -> wf (oa_res y) /\ rnonneg (oa_res y) /\ rb (oa_res y).
  Proof. intros (b & Hb & Hy). pose proof (aw_alloc b (inv_app_wf s0 HI b Hb) y Hy) as [O1 O2 _ _ _]. split; [assumption|]. split; [assumption|].
    apply (abd_alloc b (bd_apps s0 HBd b Hb) y Hy). Qed.

  Record NQ (m : onode) : Prop := mkNQ {
    nq_keys : NoDup (akeys (on_allocs m));
    nq_mem : forall y, In y (on_allocs m) -> oa_node y = on_id m /\ oa_release y = 0%N /\ listed y;
    nq_ledger : forall k, getz (on_allocated m) k = asum (on_allocs m) k;
    nq_wf : wf (on_allocated m);
    nq_rb : rb (on_allocated m) }.

  Lemma NQ_init m : In m (s_nodes s0) -> NQ m.
  Proof. intros Hm. destruct (inv_nodes s0 HI m Hm) as [K1 K2 K3 K4 K5]. constructor; auto; [|apply (bd_nodes s0 HBd m Hm)].
    intros y Hy. destruct (K2 y Hy). split; [assumption|]. split; [assumption|].
    destruct (node_alloc_listed s0 m y HI HB Hm Hy) as (b & Hb & Hyb & _). exists b. auto. Qed.

  Lemma NQ_unbound m x : NQ m -> find_alloc (on_allocs m) (oa_key x) = Some x ->
    NQ (node_unbound m x) /\ forall k, getz (on_allocated (node_unbound m x)) k = getz (on_allocated m) k - getz (oa_res x) k.
  Proof. intros [Q1 Q2 Q3 Q4 Q5] Hf. destruct (find_alloc_some _ _ _ Hf) as [Hx _].
    destruct (listed_ok x (proj2 (proj2 (Q2 x Hx)))) as (Wx & Nx & Bx).
    assert (Hnn : forall y, In y (on_allocs m) -> rnonneg (oa_res y)) by (intros y Hy; apply (listed_ok y (proj2 (proj2 (Q2 y Hy))))).
    assert (G : forall k, getz (on_allocated (node_unbound m x)) k = getz (on_allocated m) k - getz (oa_res x) k).
    { intros k. cbn [node_unbound n_with on_allocated]. rewrite Prune_getz by (apply subFrom_wf; assumption). apply subFrom_getz; assumption. }
    split; [|exact G]. constructor.
    - cbn [node_unbound n_with on_allocs]. apply akeys_del_nodup. assumption.
    - intros y Hy. cbn [node_unbound n_with on_allocs on_id] in *. apply in_del_alloc in Hy. apply Q2. tauto.
    - intros k. rewrite G. cbn [node_unbound n_with on_allocs]. rewrite asum_del, Hf, (Q3 k) by assumption. reflexivity.
    - cbn [node_unbound n_with on_allocated]. apply Prune_wf, subFrom_wf. assumption.
    - intros k. rewrite G. pose proof (Q5 k). pose proof (rnonneg_fnonneg _ Nx k). pose proof (asum_ge_member (on_allocs m) x k Hnn Hx).
      rewrite <- (Q3 k) in *. bn. Qed.

  Lemma key_other_app b z x : In b (s_apps s0) -> ap_id b <> ap_id a -> In z (ap_allocs b) -> In x (ap_allocs a) -> oa_key z <> oa_key x.
  Proof. intros Hb Hne Hz Hx Ek. apply Hne. destruct (aw_allocreq b (inv_app_wf s0 HI b Hb) z Hz) as (r1 & Hr1 & E1 & _).
    destruct (aw_allocreq a (inv_app_wf s0 HI a Ha) x Hx) as (r2 & Hr2 & E2 & _). apply (inv_keys s0 HI b a r1 r2); auto. congruence. Qed.

  Record RQ (σ : ostate) (L : list oalloc) : Prop := mkRQ {
    rq_ids : NoDup (map on_id (s_nodes σ));
    rq_nodes : forall m, In m (s_nodes σ) -> NQ m;
    rq_L : NoDup (akeys L);
    rq_Lin : forall x, In x L -> In x (ap_allocs a) /\ exists m, In m (s_nodes σ) /\ on_id m = oa_node x /\ In x (on_allocs m);
    rq_gone : forall m y, In m (s_nodes σ) -> In y (on_allocs m) -> In y (ap_allocs a) -> In y L;
    rq_others : forall b z, In b (s_apps s0) -> ap_id b <> ap_id a -> In z (ap_allocs b) ->
                exists m, In m (s_nodes σ) /\ on_id m = oa_node z /\ In z (on_allocs m);
    rq_sum : forall k, sumz (map on_allocated (s_nodes σ)) k - asum L k = C k }.

  Lemma RQ_step σ x t : RQ σ (x :: t) ->
    exists n, find_node σ (oa_node x) = Some n /\ RQ (upd_node σ (on_id n) (fun _ => n_remove n (oa_key x))) t.
  Proof. intros [R1 R2 R3 R4 R5 R6 R7]. destruct (R4 x (or_introl eq_refl)) as (Hxa & m & Hm & Em & Hxm).
    pose proof (R2 m Hm) as QM.
    assert (Efn : find_node σ (oa_node x) = Some m) by (rewrite <- Em, find_node_findk; apply (findk_in on_id); assumption).
    assert (Hf : find_alloc (on_allocs m) (oa_key x) = Some x) by (apply find_alloc_in; [apply (nq_keys m QM)|assumption]).
    exists m. split; [exact Efn|]. unfold n_remove. rewrite Hf. fold (node_unbound m x). set (n' := node_unbound m x).
    destruct (NQ_unbound m x QM Hf) as [QN GN]. fold n' in QN, GN.
    assert (Enodes : s_nodes (upd_node σ (on_id m) (fun _ => n')) = updk on_id (s_nodes σ) (on_id m) (fun _ => n')) by reflexivity.
    assert (Hin : forall m', In m' (s_nodes (upd_node σ (on_id m) (fun _ => n'))) <-> m' = n' \/ (In m' (s_nodes σ) /\ on_id m' <> on_id m)).
    { intros m'. rewrite Enodes. apply in_updk_const; assumption. }
    assert (Same : forall m0, In m0 (s_nodes σ) -> on_id m0 = on_id m -> m0 = m) by (intros m0 H0 E0; apply (nodup_key_inj on_id (s_nodes σ)); auto).
    inversion R3 as [|? ? Hkx Hkt]; subst.
    constructor.
    - rewrite Enodes, updk_keys; [assumption|]. intros m0 E0. symmetry. exact E0.
    - intros m' Hm'. apply Hin in Hm'. destruct Hm' as [->|[Hm' _]]; auto.
    - assumption.
    - intros x' Hx'. destruct (R4 x' (or_intror Hx')) as (Hxa' & m0 & Hm0 & Em0 & Hxm0). split; [assumption|].
      destruct (N.eq_dec (on_id m0) (on_id m)) as [E|E].
      + pose proof (Same m0 Hm0 E). subst m0. exists n'. split; [apply Hin; auto|]. split; [exact Em0|].
        cbn [n' node_unbound n_with on_allocs]. apply in_del_alloc. split; [assumption|]. intros Ck. apply Hkx. rewrite <- Ck. apply in_map. assumption.
      + exists m0. split; [apply Hin; auto|auto].
    - intros m' y Hm' Hy Hya. apply Hin in Hm'. destruct Hm' as [->|[Hm' Hne]].
      + cbn [n' node_unbound n_with on_allocs] in Hy. apply in_del_alloc in Hy. destruct Hy as [Hy Hk].
        destruct (R5 m y Hm Hy Hya) as [<-|Hin']; [congruence|assumption].
      + destruct (R5 m' y Hm' Hy Hya) as [<-|Hin']; [|assumption]. exfalso. apply Hne.
        rewrite Em. symmetry. apply (nq_mem m' (R2 m' Hm') x Hy).
    - intros b z Hb Hne Hz. destruct (R6 b z Hb Hne Hz) as (m0 & Hm0 & Em0 & Hzm0).
      destruct (N.eq_dec (on_id m0) (on_id m)) as [E|E].
      + pose proof (Same m0 Hm0 E). subst m0. exists n'. split; [apply Hin; auto|]. split; [exact Em0|].
        cbn [n' node_unbound n_with on_allocs]. apply in_del_alloc. split; [assumption|]. apply (key_other_app b z x Hb Hne Hz Hxa).
      + exists m0. split; [apply Hin; auto|auto].
    - intros k. rewrite Enodes. rewrite (sumz_updk on_id on_allocated (s_nodes σ) (on_id m) _ m k R1 Hm eq_refl).
      rewrite GN. specialize (R7 k). rewrite asum_cons in R7. lia. Qed.

  Lemma RQ_run : forall L σ, RQ σ L -> RQ (remove_allocs_from_nodes σ L) [].
  Proof. induction L as [|x t IH]; intros σ HR; [exact HR|]. cbn [remove_allocs_from_nodes].
    destruct (RQ_step σ x t HR) as (n & En & HR'). rewrite En. apply IH. exact HR'. Qed.
End Walk.

(* ================================================================== (2) + (3) removeApplication *)
Definition emptied (a : oapp) : oapp := ap_with a (ap_state a) [] [] [] [] [] (ap_statelog a).

Section AppRemove.
  Variables (s : ostate) (a : oapp).
  Hypothesis HI : Inv s.
  Hypothesis HB : Books0 s.
  Hypothesis HBd : Bounded s.
  Hypothesis Ha : In a (s_apps s).
  Hypothesis Hplain : plain_allocs a = true.

  Let W := inv_app_wf s HI a Ha.
  Let B := bk_apps s HB a Ha.
  Let Bd := bd_apps s HBd a Ha.
  Let path := path_ids s (ap_queue a).

  Lemma ar_no_ph : ph_allocs a = [] /\ real_allocs a = ap_allocs a.
  Proof. unfold plain_allocs in Hplain. apply andb_true_iff in Hplain. destruct Hplain as [H1 _]. rewrite forallb_forall in H1.
    assert (Hnp : forall y, In y (ap_allocs a) -> oa_ph y = false).
    { intros y Hy. specialize (H1 y Hy). apply andb_true_iff in H1. destruct H1 as [H1 _]. apply negb_true_iff in H1. exact H1. }
    split; [apply filter_nil; assumption|]. unfold real_allocs. apply filter_all. intros y Hy. rewrite (Hnp y Hy). reflexivity. Qed.
  Lemma ar_ph_zero k : getz (ap_phalloc a) k = 0.
  Proof. rewrite (ab_ph a B k), (proj1 ar_no_ph). reflexivity. Qed.
  Lemma ar_alloc_sum k : getz (ap_allocated a) k = asum (ap_allocs a) k.
  Proof. rewrite (ab_alloc a B k), (proj2 ar_no_ph). reflexivity. Qed.

  (* the queue updates *)
  Definition Fp : oqueue -> oqueue := if IsZero (Some (ap_pending a)) then (fun q => q) else F_dec_pending (ap_pending a).
  Definition Fa : oqueue -> oqueue := if IsZero (Some (ap_allocated a)) then (fun q => q) else F_dec (ap_allocated a).
  Definition s1 : ostate := if IsZero (Some (ap_pending a)) then s else q_dec_pending s (ap_queue a) (ap_pending a).
  Definition s2 : ostate := if IsZero (Some (ap_allocated a)) then s1 else q_dec s1 (ap_queue a) (ap_allocated a).

  Lemma Fp_keep q : q_id (Fp q) = q_id q /\ q_parent (Fp q) = q_parent q /\ q_leaf (Fp q) = q_leaf q /\ q_alloc (Fp q) = q_alloc q.
  Proof. unfold Fp. destruct (IsZero _); auto. Qed.
  Lemma Fa_keep q : q_id (Fa q) = q_id q /\ q_parent (Fa q) = q_parent q /\ q_leaf (Fa q) = q_leaf q /\ q_pending (Fa q) = q_pending q.
  Proof. unfold Fa. destruct (IsZero _); auto. Qed.

  Lemma ar_s1_queues : s_queues s1 = map (fun q => if memN (q_id q) path then Fp q else q) (s_queues s).
  Proof. unfold s1, Fp. destruct (IsZero _); [|apply q_dec_pending_queues].
    rewrite <- (map_id (s_queues s)) at 1. apply map_ext. intros q. destruct (memN _ _); reflexivity. Qed.
  Lemma ar_s1_other : s_apps s1 = s_apps s /\ s_nodes s1 = s_nodes s /\ s_foreign s1 = s_foreign s /\ s_nallocs s1 = s_nallocs s.
  Proof. unfold s1. destruct (IsZero _); auto. Qed.
  Lemma ar_s1_path : path_ids s1 (ap_queue a) = path.
  Proof. apply (path_ids_map s s1 _ _ ar_s1_queues); intros q; destruct (memN _ _); try reflexivity; apply Fp_keep. Qed.

  Lemma ar_dominated q k : In q (s_queues s) -> In (q_id q) path ->
    getz (ap_pending a) k <= getz (q_pending q) k /\ getz (ap_allocated a) k <= getz (q_alloc q) k.
  Proof. intros Hq Hin. split; [apply (app_pending_dominated s a HI HB Ha q k Hq Hin)|apply (app_allocated_dominated s a HI HB Ha q k Hq Hin)]. Qed.

  Lemma ar_s2 : s_queues s2 = map (fun q => if memN (q_id q) path then Fa (Fp q) else q) (s_queues s) /\
    s_apps s2 = s_apps s /\ s_nodes s2 = s_nodes s /\ s_foreign s2 = s_foreign s /\ s_nallocs s2 = s_nallocs s.
  Proof. destruct ar_s1_other as (O1 & O2 & O3 & O4). unfold s2, Fa. destruct (IsZero (Some (ap_allocated a))) eqn:Ez.
    - split; [exact ar_s1_queues|auto].
    - unfold q_dec. rewrite ar_s1_path.
      match goal with |- context [if ?c then _ else _] => assert (Hc : c = true) end.
      { apply forallb_forall. intros qid Hqid. destruct (path_member s qid _ Hqid) as (oc & Eoc & Hoc & Eid).
        rewrite (find_queue_map s s1 _ qid ar_s1_queues) by (intros q; destruct (memN _ _); try reflexivity; apply Fp_keep).
        rewrite Eoc. cbn [option_map]. subst qid. fold path in Hqid. rewrite (proj2 (memN_in _ _) Hqid).
        rewrite (proj2 (proj2 (proj2 (Fp_keep oc)))). apply fit_actual_dom; [apply (aw_allocated a W)|].
        intros k. apply (ar_dominated oc k Hoc Hqid). }
      rewrite Hc. split; [|auto]. rewrite on_path_queues, ar_s1_queues, map_map. apply map_ext. intros q.
      destruct (memN (q_id q) path) eqn:Em; [rewrite (proj1 (Fp_keep q)), Em|rewrite Em]; reflexivity. Qed.

  Lemma ar_queue_facts q : In q (s_queues s) -> In (q_id q) path ->
    (wf (q_alloc (Fa (Fp q))) /\ wf (q_pending (Fa (Fp q)))) /\
    (forall k, getz (q_alloc (Fa (Fp q))) k = getz (q_alloc q) k + - getz (ap_allocated a) k) /\
    (forall k, getz (q_pending (Fa (Fp q))) k = getz (q_pending q) k + - getz (ap_pending a) k) /\
    (rnonneg (q_alloc (Fa (Fp q))) /\ rnonneg (q_pending (Fa (Fp q)))).
  Proof. intros Hq Hin. destruct (inv_q_wf s HI q Hq) as [Wqa Wqp]. destruct (bd_queues s HBd q Hq) as [Bqa Bqp].
    pose proof (bk_queues s HB q Hq) as QB.
    assert (P : (wf (q_alloc (Fp q)) /\ wf (q_pending (Fp q))) /\ (forall k, getz (q_alloc (Fp q)) k = getz (q_alloc q) k + 0) /\
                (forall k, getz (q_pending (Fp q)) k = getz (q_pending q) k + - getz (ap_pending a) k) /\
                (rnonneg (q_alloc (Fp q)) /\ rnonneg (q_pending (Fp q)))).
    { unfold Fp. destruct (IsZero (Some (ap_pending a))) eqn:Ez.
      - pose proof (IsZero_getz _ Ez) as Z. split; [auto|]. split; [intros; lia|]. split; [intros k; rewrite Z; lia|].
        split; [apply (qb_nn_alloc s q QB)|apply (qb_nn_pend s q QB)].
      - apply F_dec_pending_facts; auto; [apply (aw_pending a W)|apply (abd_pending a Bd)|apply (qb_nn_alloc s q QB)|].
        intros k. apply (ar_dominated q k Hq Hin). }
    destruct P as ((P1 & P2) & P3 & P4 & P5 & P6).
    unfold Fa. destruct (IsZero (Some (ap_allocated a))) eqn:Ez.
    - pose proof (IsZero_getz _ Ez) as Z. split; [auto|]. split; [intros k; rewrite P3, Z; lia|]. split; [exact P4|]. auto.
    - assert (Bqa' : rb (q_alloc (Fp q))) by (rewrite (proj2 (proj2 (proj2 (Fp_keep q)))); exact Bqa).
      assert (Bqp' : rb (q_pending (Fp q))).
      { intros k. rewrite P4. pose proof (Bqp k). pose proof (proj1 (ar_dominated q k Hq Hin)). pose proof (rnonneg_fnonneg _ (ab_nn_pend a B) k). bn. }
      destruct (F_dec_facts (Fp q) (ap_allocated a) P1 P2 (aw_allocated a W) Bqa' (abd_allocated a Bd) P6) as ((D1 & D2) & D3 & D4 & D5 & D6).
      { intros k. rewrite P3. pose proof (proj2 (ar_dominated q k Hq Hin)). lia. }
      split; [auto|]. split; [intros k; rewrite D3, P3; lia|]. split; [intros k; rewrite D4, P4; lia|]. auto. Qed.

  (* the result of the walk *)
  Let s3 := remove_allocs_from_nodes s2 (ap_allocs a).
  Let Cz := fun k => sumz (map on_allocated (s_nodes s)) k - getz (ap_allocated a) k.

  Lemma ar_walk : RQ s a Cz s3 [].
  Proof. apply (RQ_run s a Cz HI HBd Ha). destruct ar_s2 as (_ & _ & En & _). constructor.
    - rewrite En. apply (inv_node_ids s HI).
    - rewrite En. apply (NQ_init s HI HB HBd).
    - apply (aw_alloc_keys a W).
    - intros x Hx. split; [assumption|]. rewrite En. apply (alloc_on_node_rec s a x HI HB Ha Hx).
    - auto.
    - intros b z Hb _ Hz. rewrite En. apply (alloc_on_node_rec s b z HI HB Hb Hz).
    - intros k. unfold Cz. rewrite En, ar_alloc_sum. reflexivity. Qed.

  Definition app_removed_state : ostate :=
    add_counts (set_apps s3 (filter (fun b => negb (ap_id b =? ap_id a)%N) (s_apps s3))) (- Z.of_nat (length (ap_allocs a))) 0.

  Theorem app_remove_core : Inv app_removed_state /\ Books app_removed_state.
  Proof. destruct ar_walk as [R1 R2 _ _ R5 R6 R7]. destruct ar_s2 as (Q2 & A2 & N2 & F2 & C2).
    destruct (rafn_other (ap_allocs a) s2) as (A3 & Q3 & F3 & C3). fold s3 in A3, Q3, F3, C3.
    set (a0 := emptied a).
    set (smid := mkOS (s_nodes s3) (updk ap_id (s_apps s) (ap_id a) (fun _ => a0)) (s_queues s3) (s_total s3)
                      (s_nallocs s - Z.of_nat (length (ap_allocs a))) (s_nph s3) (s_nres s3) (s_foreign s3) (s_completed s3) (s_rejected s3) (s_ugm s3)).
    assert (Eapps : s_apps smid = updk ap_id (s_apps s) (ap_id a) (fun _ => a0)) by reflexivity.
    assert (Eq : s_queues smid = map (fun q => if memN (q_id q) (path_ids s (ap_queue a)) then Fa (Fp q) else q) (s_queues s)).
    { change (s_queues smid) with (s_queues s3). rewrite Q3. exact Q2. }
    assert (Ef : s_foreign smid = s_foreign s) by (change (s_foreign smid) with (s_foreign s3); rewrite F3; exact F2).
    assert (Hin : forall b', In b' (s_apps smid) <-> b' = a0 \/ (In b' (s_apps s) /\ ap_id b' <> ap_id a)).
    { intros b'. rewrite Eapps. apply in_updk_const; [apply (inv_app_ids s HI)|assumption]. }
    assert (Hmid : Inv smid /\ Books smid).
    { apply (native_step s smid a a0 (fun q => Fa (Fp q)) (fun k => - getz (ap_allocated a) k) (fun k => - getz (ap_pending a) k) HI HB Ha Eapps Eq Ef).
      - intros q. rewrite (proj1 (Fa_keep _)). apply Fp_keep.
      - intros q. rewrite (proj1 (proj2 (Fa_keep _))). apply Fp_keep.
      - intros q. rewrite (proj1 (proj2 (proj2 (Fa_keep _)))). apply Fp_keep.
      - intros q Hq Hi. apply (ar_queue_facts q Hq Hi).
      - intros q Hq Hi. apply (ar_queue_facts q Hq Hi).
      - intros q Hq Hi. apply (ar_queue_facts q Hq Hi).
      - intros q Hq Hi. apply (ar_queue_facts q Hq Hi).
      - reflexivity.
      - reflexivity.
      - constructor; try (intros k; reflexivity); apply rnonneg_nil.
      - constructor; cbn [a0 emptied ap_with ap_requests ap_allocs ap_pending ap_allocated]; try constructor; intros; contradiction.
      - intros r' Hr'. contradiction.
      - intros k. cbn [a0 emptied ap_with ap_allocated ap_phalloc]. rewrite ar_ph_zero. cbn. lia.
      - intros k. cbn [a0 emptied ap_with ap_pending]. cbn. lia.
      - exact R1.
      - intros m Hm. destruct (R2 m Hm) as [K1 K2 K3 K4 K5]. constructor; auto.
        + intros y Hy. destruct (K2 y Hy) as (E1 & E2 & _). auto.
        + intros y b' z Hy Hb' Hz Ek. apply Hin in Hb'. destruct Hb' as [->|[Hb' Hne]]; [contradiction|].
          destruct (K2 y Hy) as (_ & _ & by_ & Hby & Hyb).
          destruct (aw_allocreq b' (inv_app_wf s HI b' Hb') z Hz) as (r1 & Hr1 & E1 & _).
          destruct (aw_allocreq by_ (inv_app_wf s HI by_ Hby) y Hyb) as (r2 & Hr2 & E2 & _).
          assert (Eid : ap_id b' = ap_id by_) by (apply (inv_keys s HI b' by_ r1 r2); auto; congruence).
          assert (b' = by_) by (apply (nodup_key_inj ap_id (s_apps s)); auto; apply (inv_app_ids s HI)). subst by_.
          apply (nodup_key_inj oa_key (ap_allocs b')); auto. apply (aw_alloc_keys b' (inv_app_wf s HI b' Hb')).
      - apply (count_step s smid a a0 (- Z.of_nat (length (ap_allocs a))) HI Ha Eapps); [cbn; lia|]. cbn [smid s_nallocs]. lia.
      - intros m y Hm Hy. destruct (nq_mem s m (R2 m Hm) y Hy) as (_ & _ & b & Hb & Hyb).
        destruct (N.eq_dec (ap_id b) (ap_id a)) as [E|E].
        + assert (b = a) by (apply (nodup_key_inj ap_id (s_apps s)); auto; apply (inv_app_ids s HI)). subst b.
          exfalso. apply (R5 m y Hm Hy Hyb).
        + exists b. split; [apply Hin; auto|]. split; [symmetry; apply (ao_app _ y (aw_alloc b (inv_app_wf s HI b Hb) y Hyb))|apply in_map; assumption].
      - intros b' z Hb' Hz. apply Hin in Hb'. destruct Hb' as [->|[Hb' Hne]]; [contradiction|].
        destruct (R6 b' z Hb' Hne Hz) as (m & Hm & Em & Hzm). exists m. split; [assumption|]. split; [assumption|apply in_map; assumption].
      - intros k. specialize (R7 k). cbn [asum map sumz fold_right] in R7. cbn [smid s_nodes]. unfold Cz in R7. lia. }
    destruct Hmid as [HIm [HBm _]].
    apply (drop_app_step smid app_removed_state (ap_id a) HIm HBm); try reflexivity.
    - change (s_apps app_removed_state) with (filter (fun b => negb (ap_id b =? ap_id a)%N) (s_apps s3)). rewrite A3, A2, Eapps.
      symmetry. apply filter_updk_out. intros b _. reflexivity.
    - cbn [app_removed_state add_counts set_apps s_nallocs smid]. rewrite C3, C2. lia.
    - intros b Hb Eb. apply Hin in Hb. destruct Hb as [->|[_ Hne]]; [|contradiction]. constructor; intros; reflexivity. Qed.
End AppRemove.

Theorem app_remove_step s s' id : Inv s -> Books s -> Bounded s -> m_app_remove s id = Some s' -> Inv s' /\ Books s'.
Proof. intros HI [HB D] HBd H. unfold m_app_remove in H. destruct (find_app s id) as [a|] eqn:Ea; [|inversion H; subst; split; [assumption|split; assumption]].
  destruct (negb (no_res a)); [discriminate|]. cbn [orb] in H. destruct (plain_allocs a) eqn:Hp; [|discriminate]. cbn [negb] in H.
  destruct (find_app_some _ _ _ Ea) as [Ha Eid]. subst id. inversion H; subst s'; clear H.
  apply (app_remove_core s a HI HB HBd Ha Hp). Qed.
