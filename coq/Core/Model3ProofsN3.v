(* C01 over the gang fragment, part 3: releases (one key incl. the confirmation of a replacement, all allocations of
   an application), the placeholder / state timers, application removal. *)
From Coq Require Import List ZArith NArith Bool Lia ZifyBool.
From YK Require Import Base.Int64 Base.Int64Laws Base.Res Base.ResSpec Base.ResLemmas Base.ResLaws Base.ResLaws2
  Base.ResLawsPred Core.Obs Core.Model Core.Model2 Core.Ledger Core.Model3 Core.NodeProofs Core.QueueProofs Core.StepProofs
  Core.Model2ProofsN Core.Model3ProofsN1 Core.Model3ProofsN2 Oracles.CoreC01.
Import ListNotations.
Open Scope Z_scope.
Set Default Timeout 30.

(* ------------------------------------------------------------------ the common tail of removeAllocation *)
Lemma release_tail s2 (c t : bool) q tot da dph app key s' :
  match (if t then Some (add_counts (if c then q_dec s2 q tot else s2) da dph)
         else app_remove_ask (add_counts (if c then q_dec s2 q tot else s2) da dph) app key) with
  | Some s5 => Some (terminate_if_done s5 app) | None => None end = Some s' -> fstep s2 s'.
Proof. intros H. set (s4 := add_counts (if c then q_dec s2 q tot else s2) da dph) in *.
  assert (F4 : fstep s2 s4) by (apply same_na_fstep; unfold s4; sna).
  destruct t.
  - apply Some_inj in H. subst s'. eapply fstep_trans; [exact F4|apply terminate_fstep].
  - destruct (app_remove_ask s4 app key) as [s5|] eqn:E5; [|discriminate]. apply Some_inj in H. subst s'.
    eapply fstep_trans; [exact F4|]. eapply fstep_trans; [apply (app_remove_ask_fstep _ _ _ _ E5)|apply terminate_fstep]. Qed.

Lemma n_replace_some n k x d n' : n_replace n k x d = Some n' -> exists old, find_alloc (on_allocs n) k = Some old.
Proof. unfold n_replace. destruct (find_alloc (on_allocs n) k) as [old|]; [eauto|discriminate]. Qed.

(* ------------------------------------------------------------------ removeAllocation for one key *)
Lemma g_release_sinv s app key ttype s' st : st_op st = OpRelease app key ttype -> g_release s app key ttype = Some s' ->
  SInv s -> Bounded s -> step_ok3 s st -> SInv s'.
Proof. intros Eop H HI HB [_ _ _ _ _ Hc _ _]. unfold confirm_listed in Hc. rewrite Eop in Hc. unfold g_release in H.
  destruct (find_app s app) as [a|] eqn:Ea; [|discriminate]. destruct (find_app_some _ _ _ Ea) as [Hina _].
  destruct ((key =? 0)%N || negb (no_res a)); [discriminate|].
  destruct (find_alloc (ap_allocs a) key) as [x|] eqn:Ex.
  2:{ destruct (ttype =? TT_Timeout)%N; [apply Some_inj in H; subst; exact HI|]. eapply fstep_sinv; [apply (app_remove_ask_fstep _ _ _ _ H)|exact HI]. }
  destruct (oa_preempted x); [discriminate|]. cbv zeta in H. destruct (negb (oa_ph x) && negb (oa_release x =? 0)%N); [discriminate|].
  destruct (find_node s (oa_node x)) as [n|] eqn:En; [|discriminate]. destruct (find_node_some _ _ _ En) as [Hn Hid].
  pose proof (si_ledger _ HI n Hn) as Ln. pose proof (si_wf _ HI n Hn) as Wn. pose proof (bd_nodes _ HB n Hn) as Sn.
  destruct ((ttype =? TT_PlaceholderReplaced)%N && negb (oa_release x =? 0)%N) eqn:Econf.
  - (* the shim confirms a replacement *)
    apply andb_true_iff in Econf. destruct Econf as [Et Erel]. apply N.eqb_eq in Et. apply negb_true_iff, N.eqb_neq in Erel.
    destruct (find_alloc (ap_requests a) (oa_release x)) as [real0|] eqn:Ereal; [|discriminate].
    destruct (oa_ph real0 || negb (oa_allocated real0)); [discriminate|].
    destruct (find_alloc_some _ _ _ Ereal) as [Hreal Ekr].
    destruct (si_reqs _ HI a real0 Hina Hreal) as [Wr Efor]. pose proof (bd_reqs _ HB a real0 Hina Hreal) as Sr.
    set (real := oa_set_link real0 0) in *.
    match type of H with context [upd_app s app (fun _ => ?A)] => set (a3 := A) in * end.
    assert (F1 : fstep s (upd_app s app (fun _ => a3))).
    { apply (fstep_upd_app_const s app a a3 Hina). intros P HP HL. unfold a3. cbn [ap_set_lists ap_with ap_requests].
      apply LP_map_key.
      - intros y _. apply (HP real0 real); [reflexivity|reflexivity|]. apply HL. exact Hreal.
      - eapply LP_incl; [apply app_add_alloc_reqs|]. eapply LP_incl; [apply app_remove_alloc_reqs|exact HL]. }
    set (s1 := upd_app s app (fun _ => a3)) in *.
    assert (HI1 : SInv s1) by (eapply fstep_sinv; eassumption).
    match type of H with match ?S2 with Some _ => _ | None => None end = _ => destruct S2 as [s2|] eqn:E2; [|discriminate] end.
    assert (HI2 : SInv s2).
    { destruct (oa_node real =? oa_node x)%N eqn:Enode.
      - apply N.eqb_eq in Enode. destruct (n_replace n key real _) as [n'|] eqn:Erep; [|discriminate]. apply Some_inj in E2. subst s2.
        destruct (n_replace_some _ _ _ _ _ Erep) as (old & Eold).
        destruct (Hc Et a x n real0 eq_refl Ex Erel En Ereal Enode) as [Hres Hkey].
        destruct (n_replace_sub_ledger n key real x old n' Erep Ln Wn Sn Eold (Hres old Eold) Wr Sr) as [L' W'].
        { cbn [real oa_set_link oa_key]. rewrite Ekr. exact Hkey. }
        eapply (SInv_set_node s1 _ (on_id n) n'); [reflexivity|exact L'|exact W'| |exact HI1]. eapply reqs_same; [|apply HI1]. reflexivity.
      - apply Some_inj in E2. subst s2. apply obj_upd_sinv; [apply flagf_link|].
        eapply (SInv_set_node s1 _ (on_id n) (n_remove n key)); [reflexivity|apply n_remove_ledger; assumption|apply n_remove_wf; assumption| |exact HI1].
        eapply reqs_same; [|apply HI1]. reflexivity. }
    eapply fstep_sinv; [|exact HI2]. exact (release_tail s2 _ false _ _ _ _ app key s' H).
  - (* plain removal *)
    match type of H with context [upd_app s app (fun _ => ?A)] => set (a1 := A) in * end.
    assert (F1 : fstep s (upd_app s app (fun _ => a1))).
    { apply (fstep_upd_app_const s app a a1 Hina). intros P HP HL. eapply LP_incl; [apply app_remove_alloc_reqs|exact HL]. }
    set (s1 := upd_app s app (fun _ => a1)) in *.
    assert (HI1 : SInv s1) by (eapply fstep_sinv; eassumption).
    set (s2 := upd_node s1 (on_id n) (fun _ => n_remove n key)) in *.
    assert (HI2 : SInv s2).
    { eapply (SInv_set_node s1 _ (on_id n) (n_remove n key)); [reflexivity|apply n_remove_ledger; assumption|apply n_remove_wf; assumption| |exact HI1].
      eapply reqs_same; [|apply HI1]. reflexivity. }
    eapply fstep_sinv; [|exact HI2]. exact (release_tail s2 _ (ttype =? TT_Timeout)%N _ _ _ _ app key s' H). Qed.

(* ------------------------------------------------------------------ several removals from nodes *)
Definition LNn (l : list onode) : Prop :=
  forall n x, In n l -> In x (on_allocs n) \/ In x (on_foreign n) -> res_nonnegP (oa_res x).
Lemma rafn_sinv s l : LOK (s_nodes s) -> LSm (s_nodes s) -> LNn (s_nodes s) -> reqs_from req_ok s ->
  SInv (remove_allocs_from_nodes s l).
Proof. intros HL HS HN HR.
  assert (HJ : forall n, In n (s_nodes (remove_allocs_from_nodes s l)) -> NodeJ n).
  { apply (rafn_nodes NodeJ); [intros n key J; apply (n_remove_J n key J)|]. intros n Hn. destruct (HL n Hn).
    apply NodeJ_of; auto. intros x Hx. eapply HN; eassumption. }
  apply SInv_of; [intros n Hn; split; [apply (nj_ledger n (HJ n Hn))|apply (nj_wf n (HJ n Hn))]|].
  eapply reqs_same; [apply rafn_frame|exact HR]. Qed.

(* ------------------------------------------------------------------ removeAllocation with an empty key *)
Lemma g_release_all_sinv s app ttype s' : g_release_all s app ttype = Some s' -> SInv s -> Bounded s -> allocs_nonneg s -> SInv s'.
Proof. unfold g_release_all. intros H HI HB HN. destruct (find_app s app) as [a|] eqn:Ea; [|discriminate]. destruct (find_app_some _ _ _ Ea) as [Hina _].
  destruct (negb (no_res a) || _); [discriminate|]. destruct ((ttype =? TT_PlaceholderReplaced)%N && _); [discriminate|]. cbv zeta in H.
  match type of H with context [upd_app s app (fun _ => ?A)] => set (a3 := A) in * end.
  assert (F1 : fstep s (upd_app s app (fun _ => a3))).
  { apply (fstep_upd_app_const s app a a3 Hina). intros P HP HL. unfold a3. cbn [ap_with_ph ap_requests].
    match goal with |- LP P (ap_requests (if ?c then app_fire ?A ?E else _)) => destruct c; [eapply LP_incl; [apply app_fire_reqs|]|]; exact HL end. }
  set (s1 := upd_app s app (fun _ => a3)) in *.
  set (s2 := remove_allocs_from_nodes s1 (ap_allocs a)) in *.
  assert (HI2 : SInv s2).
  { apply rafn_sinv; [exact (SInv_LOK _ HI)|exact (bd_nodes _ HB)|exact HN|]. apply (proj2 F1 req_ok rv_req_ok). apply HI. }
  eapply fstep_sinv; [|exact HI2].
  match type of H with match ?X with Some _ => _ | None => None end = _ => destruct X as [s5|] eqn:E5; [|discriminate] end.
  apply Some_inj in H. subst s'. eapply fstep_trans; [|apply terminate_fstep].
  match type of E5 with context [add_counts ?S3 ?A ?B] => set (s4 := add_counts S3 A B) in * end.
  assert (F4 : fstep s2 s4) by (apply same_na_fstep; unfold s4; sna).
  destruct (ttype =? TT_Timeout)%N; [apply Some_inj in E5; subst s5; exact F4|].
  eapply fstep_trans; [exact F4|apply (app_remove_all_asks_fstep _ _ _ E5)]. Qed.

(* ------------------------------------------------------------------ timers *)
Lemma fstep_ph_flags s id (f : oapp -> oapp) : (forall b, ap_requests (f b) = ap_requests b) -> fstep s (upd_app s id f).
Proof. intros Hf. apply fstep_upd_app_incl. intros b. rewrite Hf. apply incl_refl. Qed.

Lemma g_fire_ph_fstep s evs id s' : g_fire_ph s evs id = Some s' -> fstep s s'.
Proof. unfold g_fire_ph. intros H. destruct (find_app s id) as [a|] eqn:Ea; [|discriminate]. destruct (find_app_some _ _ _ Ea) as [Hina _].
  destruct (negb (ap_phtimer a)); [discriminate|]. destruct (_ && negb (IsZero (Some (ap_phalloc a)))).
  - apply Some_inj in H. subst s'. eapply fstep_trans; [apply release_marks_fstep|]. apply fstep_ph_flags. reflexivity.
  - destruct (negb (no_res a) || _ || _); [discriminate|]. cbv zeta in H. destruct (negb _); [discriminate|].
    match type of H with context [upd_app s id (fun _ => ?A)] => set (a1 := A) in * end.
    assert (F1 : fstep s (upd_app s id (fun _ => a1))).
    { apply (fstep_upd_app_const s id a a1 Hina). intros P HP HL. unfold a1.
      match goal with |- LP P (ap_requests match ?e with Some _ => _ | None => _ end) => destruct e; [eapply LP_incl; [apply app_fire_reqs|]|]; exact HL end. }
    match type of H with match app_remove_all_asks ?S4 id with Some _ => _ | None => None end = _ =>
      destruct (app_remove_all_asks S4 id) as [s5|] eqn:E5; [|discriminate]; set (s4 := S4) in * end.
    apply Some_inj in H. subst s'. eapply fstep_trans; [|apply fstep_ph_flags; reflexivity].
    eapply fstep_trans; [|apply (proj1 (app_remove_all_asks_fstep _ _ _ E5))]. unfold s4.
    eapply fstep_trans; [|apply fstep_ph_flags; reflexivity]. eapply fstep_trans; [|apply release_marks_fstep].
    eapply fstep_trans; [|apply release_marks_fstep]. exact F1. Qed.

Lemma g_fire_state_fstep s id s' : g_fire_state s id = Some s' -> fstep s s'.
Proof. unfold g_fire_state. intros H. destruct (find_app s id) as [a|]; [|discriminate]. destruct (negb (ap_statetimer a)); [discriminate|].
  destruct (_ && _); [|discriminate]. apply Some_inj in H. subst s'. eapply fstep_trans; [apply release_marks_fstep|]. apply fstep_ph_flags. reflexivity. Qed.
Lemma g_fire_state_dead_fstep s id s' : g_fire_state_dead s id = Some s' -> fstep s s'.
Proof. unfold g_fire_state_dead. intros H. destruct (find _ (s_completed s)) as [a|]; [|apply Some_inj in H; subst; apply fstep_refl].
  destruct (negb (ap_statetimer a)); [apply Some_inj in H; subst; apply fstep_refl|]. destruct (is_terminal (ap_state a)); [|discriminate].
  apply Some_inj in H. subst s'. apply same_na_fstep, same_na_set_completed. Qed.
Lemma g_fire_ph_dead_fstep s id s' : g_fire_ph_dead s id = Some s' -> fstep s s'.
Proof. unfold g_fire_ph_dead. intros H. destruct (find _ (s_completed s)) as [a|]; [|apply Some_inj in H; subst; apply fstep_refl].
  destruct (ap_phtimer a); [discriminate|]. apply Some_inj in H. subst. apply fstep_refl. Qed.

(* ------------------------------------------------------------------ removeApplication *)
Lemma g_app_remove_sinv s id s' : g_app_remove s id = Some s' -> SInv s -> Bounded s -> allocs_nonneg s -> SInv s'.
Proof. unfold g_app_remove. intros H HI HB HN. destruct (find_app s id) as [a|]; [|discriminate]. destruct (negb (no_res a)); [discriminate|].
  destruct (app_remove_all_asks s id) as [s0|] eqn:E0; [|discriminate]. destruct (app_remove_all_asks_fstep _ _ _ E0) as [F0 En0].
  destruct (find_app s0 id) as [a0|]; [|discriminate]. cbv zeta in H. apply Some_inj in H. subst s'.
  match goal with |- SInv (add_counts (set_apps (remove_allocs_from_nodes ?S3 ?L) _) _ _) => set (s3 := S3) in *; set (l := L) in * end.
  assert (E3 : same_na s0 s3) by (unfold s3; sna). destruct E3 as [En3 Ea3].
  assert (HI4 : SInv (remove_allocs_from_nodes s3 l)).
  { apply rafn_sinv; rewrite ?En3, ?En0; [exact (SInv_LOK _ HI)|exact (bd_nodes _ HB)|exact HN|].
    eapply reqs_same; [exact Ea3|]. apply (proj2 F0 req_ok rv_req_ok). apply HI. }
  apply SInv_of; [apply (SInv_LOK _ HI4)|]. apply (rpres_filter (remove_allocs_from_nodes s3 l) _ req_ok rv_req_ok). apply HI4. Qed.
