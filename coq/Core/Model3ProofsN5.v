(* C01 over the gang fragment, part 5: executable forms of the step hypotheses [step_ok3] / [run_ok3] (sound), a gang
   history from the empty partition on which every hypothesis of [m_run3_nodes_ledger] holds, and witnesses that the
   hypothesis [confirm_listed] is necessary. *)
From Coq Require Import List ZArith NArith Bool Lia ZifyBool.
From YK Require Import Base.Int64 Base.Res Base.ResSpec Base.ResLemmas Core.Obs Core.Model Core.Model2 Core.Ledger Core.Model3
  Core.NodeProofs Core.QueueProofs Core.StepProofs Core.QueueStepProofs Core.LedgerExamples Core.Model2ProofsN Core.Model2ProofsNEx
  Core.Model3ProofsN1 Core.Model3ProofsN2 Core.Model3ProofsN3 Core.Model3ProofsN4 Oracles.CoreC01.
Import ListNotations.
Open Scope Z_scope.

(* ------------------------------------------------------------------ boolean forms *)
Definition swap_fresh_b (s : ostate) (st : ostep) : bool :=
  match st_op st with
  | OpSched => forallb (fun p => match p with (phk, app, t) =>
                 if (t =? TT_PlaceholderReplaced)%N then
                   match swap_target (st_obs st) app phk with
                   | Some (rk, target) => match find_node s target with Some n => negb (key_in (on_allocs n) rk) | None => true end
                   | None => true end
                 else true end) (releases_of (st_events st))
  | _ => true
  end.
Definition confirm_b (s : ostate) (st : ostep) : bool :=
  match st_op st with
  | OpRelease app key ttype =>
      if (ttype =? TT_PlaceholderReplaced)%N then
        match find_app s app with
        | Some a =>
            match find_alloc (ap_allocs a) key with
            | Some x =>
                if (oa_release x =? 0)%N then true else
                match find_node s (oa_node x), find_alloc (ap_requests a) (oa_release x) with
                | Some n, Some real0 =>
                    if (oa_node real0 =? oa_node x)%N then
                      match find_alloc (on_allocs n) key with
                      | Some old => if res_eq_dec (oa_res old) (oa_res x) then true else false
                      | None => true end
                      && ((oa_release x =? key)%N || negb (key_in (on_allocs n) (oa_release x)))
                    else true
                | _, _ => true
                end
            | None => true
            end
        | None => true
        end
      else true
  | _ => true
  end.
Definition nonneg3_b (s : ostate) (st : ostep) : bool :=
  match st_op st with
  | OpAppRemove _ => allocs_nonneg_b s
  | OpRelease _ key _ => if (key =? 0)%N then allocs_nonneg_b s else true
  | _ => true
  end.
Definition objs_b (s : ostate) (st : ostep) : bool :=
  match st_op st with
  | OpNodeRemove _ => forallb (fun a => forallb (fun x => wf_b (oa_res x) && negb (oa_foreign x)) (ap_allocs a)) (s_apps s)
  | _ => true
  end.
(* [step_ok2_b] supplies inputs_ok, bind_key_fresh2, update_listed, delta_small *)
Definition step_ok3_b (s : ostate) (st : ostep) : bool :=
  step_ok2_b s st && swap_fresh_b s st && confirm_b s st && nonneg3_b s st && objs_b s st.

Lemma swap_fresh_b_sound s st : swap_fresh_b s st = true -> swap_fresh s st.
Proof. unfold swap_fresh_b, swap_fresh. destruct (st_op st); try (intros; exact I). rewrite forallb_forall.
  intros H phk app t rk target n Hin Et Es En. specialize (H _ Hin). cbv beta iota in H. rewrite Et, N.eqb_refl, Es, En in H.
  apply key_in_false. exact H. Qed.
Lemma confirm_b_sound s st : confirm_b s st = true -> confirm_listed s st.
Proof. unfold confirm_b, confirm_listed. destruct (st_op st); try (intros; exact I).
  intros H Et a x n real0 Ea Ex Erel En Ereal Enode. rewrite Et, N.eqb_refl, Ea, Ex in H.
  apply N.eqb_neq in Erel. rewrite Erel, En, Ereal, Enode, N.eqb_refl in H. apply andb_true_iff in H. destruct H as [H1 H2]. split.
  - intros old Eold. rewrite Eold in H1. destruct (res_eq_dec (oa_res old) (oa_res x)); [assumption|discriminate].
  - apply orb_true_iff in H2. destruct H2 as [H2|H2]; [left; apply N.eqb_eq; exact H2|right; apply key_in_false; exact H2]. Qed.
Lemma nonneg3_b_sound s st : nonneg3_b s st = true -> remove_nonneg3 s st.
Proof. unfold nonneg3_b, remove_nonneg3. destruct (st_op st); try (intros; exact I).
  - apply allocs_nonneg_b_sound.
  - intros H Ek. rewrite Ek in H. apply allocs_nonneg_b_sound. exact H. Qed.
Lemma objs_b_sound s st : objs_b s st = true -> node_remove_objs s st.
Proof. unfold objs_b, node_remove_objs. destruct (st_op st); try (intros; exact I). rewrite forallb_forall.
  intros H a x Ha Hx. specialize (H a Ha). rewrite forallb_forall in H. specialize (H x Hx). apply andb_true_iff in H. destruct H as [H1 H2].
  split; [apply wf_b_sound; exact H1|]. destruct (oa_foreign x); [discriminate|reflexivity]. Qed.

Theorem step_ok3_b_sound s st : step_ok3_b s st = true -> step_ok2 s st /\ step_ok3 s st.
Proof. unfold step_ok3_b. rewrite !andb_true_iff. intros [[[[H1 H2] H3] H4] H5]. apply step_ok2_b_sound in H1. split; [exact H1|].
  destruct H1 as [A1 A2 _ A4 A5 _]. split; try assumption;
    [apply swap_fresh_b_sound|apply confirm_b_sound|apply nonneg3_b_sound|apply objs_b_sound]; assumption. Qed.

Fixpoint run_ok3_b (deny : list (N * N)) (s : ostate) (steps : list ostep) : bool :=
  match steps with
  | [] => true
  | st :: t => LedgerExamples.bounded_b s && step_ok3_b s st && match m_step3 deny s st with Some s' => run_ok3_b deny s' t | None => true end
  end.
Theorem run_ok3_b_sound deny steps : forall s, run_ok3_b deny s steps = true -> run_ok3 deny s steps.
Proof. induction steps as [|st t IH]; intros s H; [exact I|]. cbn [run_ok3_b run_ok3] in *. rewrite !andb_true_iff in H.
  destruct H as [[H1 H2] H3]. split; [apply bounded_b_sound; assumption|]. destruct (step_ok3_b_sound _ _ H2) as [G2 G3].
  split; [exact G2|]. split; [exact G3|]. destruct (m_step3 deny s st); [apply IH; assumption|exact I]. Qed.

(* ------------------------------------------------------------------ a gang history *)
(* nodes 1 and 2, a gang application (three placeholders of task group 5), all placeholders scheduled (20 on node 1;
   21, 22 on node 2), a SMALLER real ask 30 replaces placeholder 20 on the same node (start: cycle announcing
   PLACEHOLDER_REPLACED; confirmation: Node.ReplaceAllocation with delta (-40, -1)), real ask 31 replaces placeholder 21
   on ANOTHER node (the predicate table denies (31, node 2): TryAddAllocation on node 1, confirmation removes the
   placeholder from node 2), placeholder timeout (OpFirePh) with the TIMEOUT release of placeholder 22 confirmed, a
   new placeholder 23 on node 2, removal of node 2 with the placeholder on it, release of all allocations (empty key),
   application removal.  [st_obs] of every step is the state the model computes (the replacement steps read the chosen
   ask / node from it). *)
Definition g3_deny : list (N * N) := [(31%N, 2%N)].
Definition g3_step (o : oop) (evs : list oevent) (obs : ostate) : ostep := mkStep o false evs [] false false obs.
Definition g3_req (key node : N) (r : res) (ph : bool) : oreq := mkReq key 1%N node (Some r) 0 ph 5%N 0%N false false false false true.
Definition g3_phres : res := [(1%N, 100); (2%N, 2)].
(* what g_swap_start reads from the observed post-state: the placeholder's link and the node of the real ask *)
Definition g3_hint (phk rk target : N) : ostate :=
  mkOS [] [mkOApp 1%N 3%N ST_Running 1%N [] [] [] [] [mkOA rk 1%N target [] false 5%N true false false phk 0%N 0 false false false false]
                  [mkOA phk 1%N 0%N [] true 5%N true true false rk 0%N 0 false false false false] [] [] [] false false false false]
       [] None 0 0 0 [] [] [] [].
Definition g3_raw : list ostep :=
  [ g3_step (OpNodeAdd 1 [(1%N, 1000); (2%N, 16)] false) [] n2_s0;
    g3_step (OpNodeAdd 2 [(1%N, 500); (2%N, 8)] false) [] n2_s0;
    g3_step (OpAppAdd 1 3 1 false false (Some [(1%N, 300); (2%N, 6)]) false 0 None) [EAppAccepted 1] n2_s0;
    g3_step (OpAlloc (g3_req 20 0 g3_phres true)) [] n2_s0;
    g3_step (OpAlloc (g3_req 21 0 g3_phres true)) [] n2_s0;
    g3_step (OpAlloc (g3_req 22 0 g3_phres true)) [] n2_s0;
    g3_step OpSched [ENewAlloc 20 1 1 g3_phres true] n2_s0;
    g3_step OpSched [ENewAlloc 21 1 2 g3_phres true] n2_s0;
    g3_step OpSched [ENewAlloc 22 1 2 g3_phres true] n2_s0;
    g3_step (OpAlloc (g3_req 30 0 [(1%N, 60); (2%N, 1)] false)) [] n2_s0;
    g3_step OpSched [ERelease 20 1 TT_PlaceholderReplaced] (g3_hint 20 30 1);
    g3_step (OpRelease 1 20 TT_PlaceholderReplaced) [] n2_s0;
    g3_step (OpAlloc (g3_req 31 0 [(1%N, 50); (2%N, 2)] false)) [] n2_s0;
    g3_step OpSched [ERelease 21 1 TT_PlaceholderReplaced] (g3_hint 21 31 1);
    g3_step (OpRelease 1 21 TT_PlaceholderReplaced) [] n2_s0;
    g3_step (OpFirePh 1) [] n2_s0;
    g3_step (OpRelease 1 22 TT_Timeout) [] n2_s0;
    g3_step (OpAlloc (g3_req 23 0 g3_phres true)) [] n2_s0;
    g3_step OpSched [ENewAlloc 23 1 2 g3_phres true] n2_s0;
    g3_step (OpNodeRemove 2) [ERelease 23 1 TT_StoppedByRM] n2_s0;
    g3_step (OpRelease 1 0 TT_StoppedByRM) [] n2_s0;
    g3_step (OpAppRemove 1) [] n2_s0 ].
(* every step gets the state the model reaches as its observation *)
Fixpoint fill_obs (deny : list (N * N)) (s : ostate) (l : list ostep) : list ostep :=
  match l with
  | [] => []
  | st :: t => match m_step3 deny s st with
               | Some s' => mkStep (st_op st) (st_malformed st) (st_events st) (st_preds st) (st_panic st) (st_err st) s' :: fill_obs deny s' t
               | None => [] end
  end.
Definition g3_steps : list ostep := Eval vm_compute in fill_obs g3_deny n2_s0 g3_raw.
(* number of steps of a run that only the gang fragment covers *)
Fixpoint gang_count (deny : list (N * N)) (s : ostate) (steps : list ostep) : nat :=
  match steps with
  | [] => 0
  | st :: t => (match m_step2 deny s st with None => 1 | Some _ => 0 end +
                match m_step3 deny s st with Some s' => gang_count deny s' t | None => 0 end)%nat
  end.

Example g3_run_hyps : SInv n2_s0 /\ run_ok3 g3_deny n2_s0 g3_steps /\ length (m_run3 g3_deny n2_s0 g3_steps) = 22%nat /\
  map st_obs g3_steps = m_run3 g3_deny n2_s0 g3_steps /\ gang_count g3_deny n2_s0 g3_steps = 17%nat.
Proof. split; [apply sinv_b_sound; vm_compute; reflexivity|]. split; [apply run_ok3_b_sound; vm_compute; reflexivity|].
  split; [vm_compute; reflexivity|]. split; vm_compute; reflexivity. Qed.
Example g3_run_ledger : forall s', In s' (m_run3 g3_deny n2_s0 g3_steps) -> nodes_ledger_ok s' = true.
Proof. destruct g3_run_hyps as (H1 & H2 & _). apply (m_run3_nodes_ledger g3_deny g3_steps n2_s0 H1 H2). Qed.
(* the available ledgers along the replacements: start on node 1 (no change), confirmation (+40, +1 on node 1),
   start on the other node (-50, -2 on node 1), confirmation (placeholder leaves node 2) *)
Example g3_run_ledger_direct : forallb nodes_ledger_ok (m_run3 g3_deny n2_s0 g3_steps) = true /\
  map (fun s => map on_available (s_nodes s)) (firstn 5 (skipn 10 (m_run3 g3_deny n2_s0 g3_steps))) =
    [ [[(1%N, 900); (2%N, 14)]; [(1%N, 300); (2%N, 4)]]; [[(1%N, 940); (2%N, 15)]; [(1%N, 300); (2%N, 4)]];
      [[(1%N, 940); (2%N, 15)]; [(1%N, 300); (2%N, 4)]]; [[(1%N, 890); (2%N, 13)]; [(1%N, 300); (2%N, 4)]];
      [[(1%N, 890); (2%N, 13)]; [(1%N, 400); (2%N, 6)]] ].
Proof. vm_compute. split; reflexivity. Qed.

(* ------------------------------------------------------------------ [confirm_listed] / [swap_fresh] are necessary *)
Definition g3_pre (k : nat) : ostate := last (m_run3 g3_deny n2_s0 (firstn k g3_steps)) n2_s0.
Definition g3_confirm : ostep := g3_step (OpRelease 1 20 TT_PlaceholderReplaced) [] n2_s0.
(* the application's copy of placeholder 20 carries another resource than the copy node 1 lists *)
Definition g3_res_differs : ostate :=
  upd_app (g3_pre 11) 1 (fun a => ap_set_lists a (ap_requests a) (map_key 20 (fun y => oa_with_res y [(1%N, 90); (2%N, 2)]) (ap_allocs a))).
(* node 1 already lists an allocation under the key of the real ask *)
Definition g3_bogus (key : N) : oalloc := mkOA key 9%N 1%N [(1%N, 7)] false 0%N true false false 0%N 0%N 0 false false false false.
Definition g3_key_listed (k : nat) (key : N) : ostate :=
  upd_node (g3_pre k) 1 (fun n => match n_add n (g3_bogus key) true with Some n' => n' | None => n end).

Definition all_but_confirm (s : ostate) (st : ostep) : Prop :=
  SInv s /\ Bounded s /\ step_ok2 s st /\ inputs_ok st /\ bind_key_fresh2 s st /\ update_listed s st /\ delta_small s st /\
  swap_fresh s st /\ remove_nonneg3 s st /\ node_remove_objs s st.
Lemma all_but_confirm_b s st : sinv_b s && bounded_b s && step_ok2_b s st && swap_fresh_b s st && nonneg3_b s st && objs_b s st = true ->
  all_but_confirm s st.
Proof. rewrite !andb_true_iff. intros [[[[[H1 H2] H3] H4] H5] H6]. apply step_ok2_b_sound in H3. pose proof H3 as [A1 A2 _ A4 A5 _].
  repeat (split; [first [apply sinv_b_sound|apply bounded_b_sound|apply swap_fresh_b_sound|apply nonneg3_b_sound|idtac]; assumption|]).
  apply objs_b_sound. assumption. Qed.

Theorem confirm_res_differs_refuted : exists s st s', all_but_confirm s st /\ m_step3 g3_deny s st = Some s' /\
  nodes_ledger_ok s = true /\ nodes_ledger_ok s' = false.
Proof. exists g3_res_differs, g3_confirm. eexists. split; [apply all_but_confirm_b; vm_compute; reflexivity|].
  split; [vm_compute; reflexivity|]. split; vm_compute; reflexivity. Qed.
Theorem confirm_key_listed_refuted : exists s st s', all_but_confirm s st /\ m_step3 g3_deny s st = Some s' /\
  nodes_ledger_ok s = true /\ nodes_ledger_ok s' = false.
Proof. exists (g3_key_listed 11 30), g3_confirm. eexists. split; [apply all_but_confirm_b; vm_compute; reflexivity|].
  split; [vm_compute; reflexivity|]. split; vm_compute; reflexivity. Qed.

(* the start of a replacement on another node whose key that node already lists *)
Definition all_but_swap (s : ostate) (st : ostep) : Prop :=
  SInv s /\ Bounded s /\ step_ok2 s st /\ inputs_ok st /\ bind_key_fresh2 s st /\ update_listed s st /\ delta_small s st /\
  confirm_listed s st /\ remove_nonneg3 s st /\ node_remove_objs s st.
Theorem swap_key_listed_refuted : exists s st s', all_but_swap s st /\ m_step3 g3_deny s st = Some s' /\
  nodes_ledger_ok s = true /\ nodes_ledger_ok s' = false.
Proof. exists (g3_key_listed 13 31), (nth 13 g3_steps g3_confirm). eexists. split.
  - assert (H : sinv_b (g3_key_listed 13 31) && bounded_b (g3_key_listed 13 31) && step_ok2_b (g3_key_listed 13 31) (nth 13 g3_steps g3_confirm) = true)
      by (vm_compute; reflexivity).
    rewrite !andb_true_iff in H. destruct H as [[H1 H2] H3]. apply step_ok2_b_sound in H3. pose proof H3 as [A1 A2 _ A4 A5 _].
    split; [apply sinv_b_sound; exact H1|]. split; [apply bounded_b_sound; exact H2|]. split; [exact H3|].
    repeat (split; [first [assumption|exact I]|]). exact I.
  - split; [vm_compute; reflexivity|]. split; vm_compute; reflexivity. Qed.
