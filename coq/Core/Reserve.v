(* C09 - reservations.  Component model of the four views of the reservation relation
   (Application.reservations, Node.reservations, Queue.reservedApps, PartitionContext.reservations)
   with all their writers, and the predicates of the property.  Definitions only.

   Code modelled: objects/application.go (reserveInternal, canAllocationReserve, UnReserve, unReserveInternal,
   removeAsksInternal, cancelReservations, the wait-timeout branch of tryReservedAllocate, cleanupAsks,
   unReserveAllocatedAsk), objects/node.go (Reserve, unReserve, preAllocateCheck), objects/queue.go (Reserve,
   UnReserve), partition.go (reserve, unReserve, allocate for Unreserved / AllocatedReserved /
   CancelledReservations, removeNode, removeApplication, removeAllocation), objects/preemption.go
   (reservation cancellation).

   The abstract state (type [rview]) is also what the oracle extracts from an observed state: both the
   application maps and the node maps are lists of the same triples (application, allocation key, node). *)
From Coq Require Import List ZArith NArith Bool.
From YK Require Import Core.Obs.
Import ListNotations.
Open Scope N_scope.

(* an ask of an application: Application.requests *)
Record rask := mkRA { ra_app : N; ra_key : N; ra_allocated : bool; ra_req : N (* required node, 0 = none *) }.
(* one reservation as one of the maps records it *)
Record rres := mkR { r_app : N; r_key : N; r_node : N }.

Record rview := mkRV {
  rv_asks : list rask;
  rv_nodes : list N;            (* registered nodes *)
  rv_apps : list N;             (* live applications *)
  rv_app : list rres;           (* union of the Application.reservations maps *)
  rv_node : list rres;          (* union of the Node.reservations maps *)
  rv_queue : list (N * N);      (* reservedApps of the application's leaf queue: (app, count) *)
  rv_part : Z }.                (* partition counter *)

Definition rv_init : rview := mkRV [] [] [] [] [] [] 0%Z.

Definition rres_eqb (x y : rres) : bool := (r_app x =? r_app y) && (r_key x =? r_key y) && (r_node x =? r_node y).
Definition memR (x : rres) (l : list rres) : bool := existsb (rres_eqb x) l.

(* ---- lookups ---- *)
Definition is_ask (a k : N) (x : rask) : bool := (ra_app x =? a) && (ra_key x =? k).
Definition find_ask (v : rview) (a k : N) : option rask := find (is_ask a k) (rv_asks v).
Definition is_res (a k : N) (x : rres) : bool := (r_app x =? a) && (r_key x =? k).
(* Application.reservations[key] *)
Definition app_res (v : rview) (a k : N) : option rres := find (is_res a k) (rv_app v).
(* Node.reservations of node n *)
Definition node_entries (v : rview) (n : N) : list rres := filter (fun x => r_node x =? n) (rv_node v).
Definition ask_req (v : rview) (a k : N) : N := match find_ask v a k with Some x => ra_req x | None => 0 end.
Definition queue_count (q : list (N * N)) (a : N) : N :=
  match find (fun x => fst x =? a) q with Some x => snd x | None => 0 end.
Definition card (l : list rres) (a : N) : N := N.of_nat (length (filter (fun x => r_app x =? a) l)).

(* ---- the property's predicates ---- *)
Definition subR (a b : list rres) : bool := forallb (fun x => memR x b) a.
Definition views_app_node (v : rview) : bool := subR (rv_app v) (rv_node v) && subR (rv_node v) (rv_app v).
Definition views_queue (v : rview) : bool :=
  forallb (fun x => card (rv_app v) (r_app x) =? queue_count (rv_queue v) (r_app x)) (rv_app v) &&
  forallb (fun e => (0 <? snd e) && (snd e =? card (rv_app v) (fst e))) (rv_queue v).
Definition views_counter (v : rview) : bool :=
  match rv_app v with [] => true | _ => (1 <=? rv_part v)%Z end.
Definition views_agree (v : rview) : bool := views_app_node v && views_queue v && views_counter v.
(* stronger fact about the counter kept by the model (not demanded by the property) *)
Definition counter_ge_card (v : rview) : bool := (Z.of_nat (length (rv_app v)) <=? rv_part v)%Z.

(* an ask holds at most one reservation (in either view) *)
Fixpoint nodup_ask (l : list rres) : bool :=
  match l with
  | [] => true
  | x :: t => negb (existsb (is_res (r_app x) (r_key x)) t) && nodup_ask t
  end.
Definition one_per_ask (v : rview) : bool := nodup_ask (rv_app v) && nodup_ask (rv_node v).

(* only while outstanding: the ask is registered and not allocated *)
Definition outstanding (v : rview) (a k : N) : bool :=
  match find_ask v a k with Some x => negb (ra_allocated x) | None => false end.
Definition only_outstanding (v : rview) : bool :=
  forallb (fun x => outstanding v (r_app x) (r_key x)) (rv_app v) &&
  forallb (fun x => outstanding v (r_app x) (r_key x)) (rv_node v).

(* a node carries at most one reservation unless all of them are for asks that require that node *)
Definition one_per_node_unless_required (v : rview) : bool :=
  forallb (fun x =>
    match node_entries v (r_node x) with
    | [] | [_] => true
    | es => forallb (fun e => ask_req v (r_app e) (r_key e) =? r_node x) es
    end) (rv_node v).

(* cleanup: every reservation refers to a live application and a registered node *)
Definition res_live (v : rview) (x : rres) : bool := memN (r_app x) (rv_apps v) && memN (r_node x) (rv_nodes v).
Definition cleanup (v : rview) : bool := forallb (res_live v) (rv_app v) && forallb (res_live v) (rv_node v).

(* a node reserved for another ask: some reservation on n, none for (a,k)
   (Node.preAllocateCheck: IsReserved() && !isReservedForAllocation(key)) *)
Definition reserved_for_other (v : rview) (n a k : N) : bool :=
  match node_entries v n with
  | [] => false
  | es => negb (existsb (is_res a k) es)
  end.

(* ---- writers ---- *)
Definition del_app (a k : N) (l : list rres) := filter (fun x => negb (is_res a k x)) l.
(* Node.unReserve: delete(sn.reservations, key) *)
Definition del_node (n k : N) (l : list rres) := filter (fun x => negb ((r_node x =? n) && (r_key x =? k))) l.

(* Queue.Reserve / Queue.UnReserve *)
Definition q_reserve (a : N) (l : list (N * N)) : list (N * N) :=
  if existsb (fun x => fst x =? a) l then map (fun x => if fst x =? a then (fst x, snd x + 1) else x) l else l ++ [(a, 1)].
Definition q_unreserve (a num : N) (l : list (N * N)) : list (N * N) :=
  match find (fun x => fst x =? a) l with
  | None => l
  | Some x => if snd x <=? num then filter (fun y => negb (fst y =? a)) l
              else map (fun y => if fst y =? a then (fst y, snd y - num) else y) l
  end.

Definition with_res (v : rview) (ap nd : list rres) : rview :=
  mkRV (rv_asks v) (rv_nodes v) (rv_apps v) ap nd (rv_queue v) (rv_part v).
Definition with_queue (v : rview) (q : list (N * N)) : rview :=
  mkRV (rv_asks v) (rv_nodes v) (rv_apps v) (rv_app v) (rv_node v) q (rv_part v).
Definition with_part (v : rview) (p : Z) : rview :=
  mkRV (rv_asks v) (rv_nodes v) (rv_apps v) (rv_app v) (rv_node v) (rv_queue v) p.
Definition with_asks (v : rview) (l : list rask) : rview :=
  mkRV l (rv_nodes v) (rv_apps v) (rv_app v) (rv_node v) (rv_queue v) (rv_part v).

(* Node.Reserve guards ([fits] = totalResource.FitIn(ask), an input) *)
Definition node_reserve_ok (v : rview) (n a k : N) (fits : bool) : bool :=
  let es := node_entries v n in
  (if ask_req v a k =? 0 then match es with [] => true | _ => false end
   else forallb (fun e => negb (ask_req v (r_app e) (r_key e) =? 0)) es) && fits.

(* Application.reserveInternal (with canAllocationReserve and Node.Reserve) *)
Definition app_reserve (v : rview) (n a k : N) (fits : bool) : option rview :=
  match find_ask v a k with
  | None => None                                  (* alloc is not registered to this app *)
  | Some x =>
      if ra_allocated x then None                 (* ErrorReservingAlloc *)
      else match app_res v a k with
           | Some _ => None                       (* ErrorDuplicateReserve *)
           | None =>
               if node_reserve_ok v n a k fits
               then Some (with_res v (rv_app v ++ [mkR a k n]) (del_node n k (rv_node v) ++ [mkR a k n]))
               else None
           end
  end.

(* Application.unReserveInternal for the reservation the application stores under the key:
   node.unReserve(alloc) on the node the reservation names, then delete from the application map;
   the result is the number removed from the application (0 or 1) *)
Definition app_unreserve (v : rview) (a k : N) : rview :=
  match app_res v a k with
  | None => v
  | Some x => with_res v (del_app a k (rv_app v)) (del_node (r_node x) k (rv_node v))
  end.
Definition unreserve_num (v : rview) (a k : N) : N := match app_res v a k with None => 0 | Some _ => 1 end.

(* unReserveInternal + queue.UnReserve, the partition counter untouched: removeAsksInternal(key),
   the wait-timeout branch of tryReservedAllocate, preemption's cancellation, cancelReservations per entry,
   unReserveAllocatedAsk *)
Definition cancel_one (v : rview) (a k : N) : rview :=
  let v1 := app_unreserve v a k in
  with_queue v1 (q_unreserve a (unreserve_num v a k) (rv_queue v1)).

(* PartitionContext.unReserve *)
Definition part_unreserve (v : rview) (a k : N) : rview :=
  with_part (cancel_one v a k) (rv_part v - Z.of_N (unreserve_num v a k))%Z.

Definition reserve_done (v2 : rview) (a : N) : rview :=
  with_part (with_queue v2 (q_reserve a (rv_queue v2))) (rv_part v2 + 1)%Z.

(* PartitionContext.reserve *)
Definition part_reserve (v : rview) (a k n : N) (fits : bool) : rview :=
  match app_res v a k with
  | Some x =>
      if r_node x =? n then v
      else
        let v1 := part_unreserve v a k in
        match app_reserve v1 n a k fits with
        | None => v1
        | Some v2 => reserve_done v2 a
        end
  | None =>
      match app_reserve v n a k fits with
      | None => v
      | Some v2 => reserve_done v2 a
      end
  end.

Definition set_allocated (a k : N) (b : bool) (l : list rask) : list rask :=
  map (fun x => if is_ask a k x then mkRA (ra_app x) (ra_key x) b (ra_req x) else x) l.

(* the reservations of one application removed in a loop of unReserveInternal (removeAsksInternal(""),
   cleanupAsks), followed by one Queue.UnReserve with the total *)
Definition app_keys (v : rview) (a : N) : list N := map r_key (filter (fun x => r_app x =? a) (rv_app v)).
Definition unreserve_all (v : rview) (a : N) : rview :=
  let v1 := fold_left (fun w k => app_unreserve w a k) (app_keys v a) v in
  with_queue v1 (q_unreserve a (card (rv_app v) a) (rv_queue v1)).
Definition drop_asks (v : rview) (a : N) : rview :=
  with_asks v (filter (fun x => negb (ra_app x =? a)) (rv_asks v)).
(* removeAsksInternal(""): nothing at all happens when the application has no requests *)
Definition remove_all_asks (v : rview) (a : N) : rview :=
  if negb (existsb (fun x => ra_app x =? a) (rv_asks v)) then v else drop_asks (unreserve_all v a) a.

Definition drop_app (v : rview) (a : N) : rview :=
  mkRV (rv_asks v) (rv_nodes v) (filter (fun x => negb (x =? a)) (rv_apps v)) (rv_app v) (rv_node v) (rv_queue v) (rv_part v).

Inductive rop :=
| RAddNode (n : N)
| RAddApp (a : N)
| RAddAsk (a k req : N)
| RReserve (a k n : N) (fits : bool)      (* allocate(result Reserved): PartitionContext.reserve *)
| RUnreserve (a k : N)                    (* allocate(result Unreserved): PartitionContext.unReserve *)
| RAllocate (a k n : N)                   (* a scheduling decision for a pending ask: tryNode marks the ask allocated;
                                             a reservation the ask holds is removed through PartitionContext.unReserve
                                             (AllocatedReserved) *)
| RAllocateKeep (a k : N)                 (* the ask becomes allocated outside of tryNode: placeholder swap
                                             (tryPlaceholderAllocate) or a binding sent by the shim (AllocateAsk);
                                             unReserveAllocatedAsk: counter not decremented *)
| RDeallocate (a k : N)                   (* DeallocateAsk: in-flight swap reversed *)
| RRemoveAsk (a k : N)                    (* removeAsksInternal(key): counter not decremented *)
| RRemoveAllAsks (a : N)                  (* removeAsksInternal(""): counter not decremented *)
| RRemoveApp (a : N)                      (* partition.removeApplication *)
| RTerminate (a : N)                      (* enter_Completed / enter_Failed: cleanupAsks, then moveTerminatedApp *)
| RCancel (a k : N)                       (* wait timeout / preemption: unReserveInternal + queue, counter not decremented *)
| RCancelRequired (n : N) (counted : bool) (* cancelReservations for a required-node ask on n; [counted] = the
                                             result reached allocate(), which decrements the counter *)
| RRemoveNode (n : N).                    (* removeNode: PartitionContext.unReserve for every reservation of the node *)

(* cancelReservations: every reservation on the node whose ask has no required node *)
Definition cancel_required (v : rview) (n : N) : rview * N :=
  fold_left (fun acc e => if ask_req (fst acc) (r_app e) (r_key e) =? 0
                          then (cancel_one (fst acc) (r_app e) (r_key e), snd acc + unreserve_num (fst acc) (r_app e) (r_key e))
                          else acc)
            (node_entries v n) (v, 0).

Definition rstep (v : rview) (o : rop) : option rview :=
  match o with
  | RAddNode n => if memN n (rv_nodes v) then None
                  else Some (mkRV (rv_asks v) (n :: rv_nodes v) (rv_apps v) (rv_app v) (rv_node v) (rv_queue v) (rv_part v))
  | RAddApp a => if memN a (rv_apps v) then None
                 else Some (mkRV (rv_asks v) (rv_nodes v) (a :: rv_apps v) (rv_app v) (rv_node v) (rv_queue v) (rv_part v))
  | RAddAsk a k req =>
      (* allocation keys are unique over the partition (assumption, see notes): a key in use is refused *)
      if negb (memN a (rv_apps v)) || existsb (fun x => ra_key x =? k) (rv_asks v) then None
      else Some (with_asks v (rv_asks v ++ [mkRA a k false req]))
  | RReserve a k n fits =>
      (* callers: tryNodes (asks without required node), tryRequiredNode (the required node itself), preemption *)
      if memN a (rv_apps v) && memN n (rv_nodes v) && ((ask_req v a k =? 0) || (ask_req v a k =? n))
      then Some (part_reserve v a k n fits) else None
  | RUnreserve a k => if memN a (rv_apps v) then Some (part_unreserve v a k) else None
  | RAllocate a k n =>
      match find_ask v a k with
      | None => None
      | Some x =>
          if ra_allocated x || negb (memN n (rv_nodes v)) then None
          else if reserved_for_other v n a k then None       (* Node.preAllocateCheck *)
          else Some (part_unreserve (with_asks v (set_allocated a k true (rv_asks v))) a k)
      end
  | RAllocateKeep a k =>
      match find_ask v a k with
      | None => None
      | Some x => if ra_allocated x then None
                  else Some (cancel_one (with_asks v (set_allocated a k true (rv_asks v))) a k)
      end
  | RDeallocate a k =>
      match find_ask v a k with
      | None => None
      | Some x => if ra_allocated x then Some (with_asks v (set_allocated a k false (rv_asks v))) else None
      end
  | RRemoveAsk a k =>
      let v1 := cancel_one v a k in
      Some (with_asks v1 (filter (fun x => negb (is_ask a k x)) (rv_asks v1)))
  | RRemoveAllAsks a => Some (remove_all_asks v a)
  | RRemoveApp a => Some (drop_app (remove_all_asks v a) a)
  | RTerminate a => Some (drop_app (drop_asks (unreserve_all v a) a) a)
  | RCancel a k => Some (cancel_one v a k)
  | RCancelRequired n counted =>
      let r := cancel_required v n in
      Some (if counted then with_part (fst r) (rv_part (fst r) - Z.of_N (snd r))%Z else fst r)
  | RRemoveNode n =>
      let v0 := mkRV (rv_asks v) (filter (fun x => negb (x =? n)) (rv_nodes v)) (rv_apps v) (rv_app v) (rv_node v) (rv_queue v) (rv_part v) in
      Some (fold_left (fun w e => part_unreserve w (r_app e) (r_key e)) (node_entries v n) v0)
  end.

Fixpoint rrun (v : rview) (ops : list rop) : option rview :=
  match ops with
  | [] => Some v
  | o :: t => match rstep v o with Some v1 => rrun v1 t | None => None end
  end.
