(* C09 - reservations.  Component model of the four views of the reservation relation
   (Application.reservations, Node.reservations, Queue.reservedApps, PartitionContext.reservations)
   with all their writers, and the predicates of the property.  Definitions only.

   Code modelled: objects/application.go (reserveInternal, canAllocationReserve, UnReserve, unReserveInternal,
   removeAsksInternal, cancelReservations, the wait-timeout branch of tryReservedAllocate), objects/node.go
   (Reserve, unReserve), objects/queue.go (Reserve, UnReserve), partition.go (reserve, unReserve, allocate
   for Unreserved / AllocatedReserved / CancelledReservations, removeNode, removeApplication, removeAllocation),
   objects/preemption.go (reservation cancellation).

   The abstract state (type [rview]) is also what the oracle extracts from an observed state. *)
From Coq Require Import List ZArith NArith Bool.
From YK Require Import Core.Obs.
Import ListNotations.
Open Scope N_scope.

(* an ask of an application: Application.requests *)
Record rask := mkRA { ra_app : N; ra_key : N; ra_allocated : bool; ra_req : N (* required node, 0 = none *) }.

Record rview := mkRV {
  rv_asks : list rask;
  rv_nodes : list N;                  (* registered nodes *)
  rv_apps : list N;                   (* live applications *)
  rv_app : list (N * (N * N));        (* application maps: (app, (key, node)) *)
  rv_node : list (N * (N * N));       (* node maps: (node, (key, app)) *)
  rv_queue : list (N * N);            (* reservedApps of the application's leaf queue: (app, count) *)
  rv_part : Z }.                      (* partition counter *)

Definition rv_init : rview := mkRV [] [] [] [] [] [] 0%Z.

Definition eq3 (a b : N * (N * N)) : bool :=
  (fst a =? fst b) && (fst (snd a) =? fst (snd b)) && (snd (snd a) =? snd (snd b)).
Definition mem3 (x : N * (N * N)) (l : list (N * (N * N))) : bool := existsb (eq3 x) l.

(* ---- lookups ---- *)
Definition find_ask (v : rview) (a k : N) : option rask :=
  find (fun x => (ra_app x =? a) && (ra_key x =? k)) (rv_asks v).
(* Application.reservations[key] *)
Definition app_res (v : rview) (a k : N) : option N :=
  match find (fun x => (fst x =? a) && (fst (snd x) =? k)) (rv_app v) with Some x => Some (snd (snd x)) | None => None end.
(* Node.reservations (all entries of the node) *)
Definition node_entries (v : rview) (n : N) : list (N * N) :=
  map snd (filter (fun x => fst x =? n) (rv_node v)).
(* Node.reservations[key]: keyed by allocation key only *)
Definition node_has (v : rview) (n k : N) : bool := existsb (fun e => fst e =? k) (node_entries v n).
Definition ask_req (v : rview) (a k : N) : N := match find_ask v a k with Some x => ra_req x | None => 0 end.
Definition queue_count (v : rview) (a : N) : N :=
  match find (fun x => fst x =? a) (rv_queue v) with Some x => snd x | None => 0 end.

(* ---- the property's predicates ---- *)
(* the relation as the application maps state it: (app, key, node) *)
Definition rel_app (v : rview) : list (N * (N * N)) := rv_app v.
(* the relation as the node maps state it, in the same shape *)
Definition rel_node (v : rview) : list (N * (N * N)) :=
  map (fun x => (snd (snd x), (fst (snd x), fst x))) (rv_node v).
Definition sub3 (a b : list (N * (N * N))) : bool := forallb (fun x => mem3 x b) a.
Definition views_app_node (v : rview) : bool := sub3 (rel_app v) (rel_node v) && sub3 (rel_node v) (rel_app v).

Definition card_app (v : rview) (a : N) : N := N.of_nat (length (filter (fun x => fst x =? a) (rv_app v))).
Definition views_queue (v : rview) : bool :=
  forallb (fun x => card_app v (fst x) =? queue_count v (fst x)) (rv_app v) &&
  forallb (fun e => (0 <? snd e) && (snd e =? card_app v (fst e))) (rv_queue v).
Definition views_counter (v : rview) : bool :=
  match rv_app v with [] => true | _ => (1 <=? rv_part v)%Z end.
Definition views_agree (v : rview) : bool := views_app_node v && views_queue v && views_counter v.
(* stronger fact about the counter kept by the model (not demanded by the property) *)
Definition counter_ge_card (v : rview) : bool := (Z.of_nat (length (rv_app v)) <=? rv_part v)%Z.

(* an ask holds at most one reservation (in either view) *)
Fixpoint nodup3 (key : N * (N * N) -> N * N) (l : list (N * (N * N))) : bool :=
  match l with
  | [] => true
  | x :: t => negb (existsb (fun y => (fst (key x) =? fst (key y)) && (snd (key x) =? snd (key y))) t) && nodup3 key t
  end.
Definition one_per_ask (v : rview) : bool :=
  nodup3 (fun x => (fst x, fst (snd x))) (rel_app v) && nodup3 (fun x => (fst x, fst (snd x))) (rel_node v).

(* only while outstanding: the ask is registered and not allocated *)
Definition outstanding (v : rview) (a k : N) : bool :=
  match find_ask v a k with Some x => negb (ra_allocated x) | None => false end.
Definition only_outstanding (v : rview) : bool :=
  forallb (fun x => outstanding v (fst x) (fst (snd x))) (rel_app v) &&
  forallb (fun x => outstanding v (fst x) (fst (snd x))) (rel_node v).

(* a node carries at most one reservation unless all of them are for asks that require that node *)
Definition one_per_node_unless_required (v : rview) : bool :=
  forallb (fun n =>
    let es := node_entries v n in
    match es with
    | [] | [_] => true
    | _ => forallb (fun e => ask_req v (snd e) (fst e) =? n) es
    end) (map fst (rv_node v)).

(* cleanup: every reservation refers to a live application and a registered node *)
Definition cleanup (v : rview) : bool :=
  forallb (fun x => memN (fst x) (rv_apps v) && memN (snd (snd x)) (rv_nodes v)) (rel_app v) &&
  forallb (fun x => memN (fst x) (rv_apps v) && memN (snd (snd x)) (rv_nodes v)) (rel_node v).

(* a node reserved for another ask: some reservation on n, none for (a,k) *)
Definition reserved_for_other (v : rview) (n a k : N) : bool :=
  match node_entries v n with
  | [] => false
  | es => negb (existsb (fun e => (fst e =? k) && (snd e =? a)) es)
  end.

(* ---- writers ---- *)
Definition del_app (a k : N) (l : list (N * (N * N))) := filter (fun x => negb ((fst x =? a) && (fst (snd x) =? k))) l.
(* Node.unReserve: delete(sn.reservations, key) *)
Definition del_node (n k : N) (l : list (N * (N * N))) := filter (fun x => negb ((fst x =? n) && (fst (snd x) =? k))) l.

(* Queue.Reserve / Queue.UnReserve *)
Definition q_reserve (a : N) (l : list (N * N)) : list (N * N) :=
  if existsb (fun x => fst x =? a) l then map (fun x => if fst x =? a then (a, snd x + 1) else x) l else l ++ [(a, 1)].
Definition q_unreserve (a num : N) (l : list (N * N)) : list (N * N) :=
  match find (fun x => fst x =? a) l with
  | None => l
  | Some x => if snd x <=? num then filter (fun y => negb (fst y =? a)) l
              else map (fun y => if fst y =? a then (a, snd y - num) else y) l
  end.

(* Node.Reserve guards (fits = totalResource.FitIn(ask), an input) *)
Definition node_reserve_ok (v : rview) (n a k : N) (fits : bool) : bool :=
  let es := node_entries v n in
  let req := negb (ask_req v a k =? 0) in
  (if negb req then match es with [] => true | _ => false end
   else forallb (fun e => negb (ask_req v (snd e) (fst e) =? 0)) es) && fits.

(* Application.reserveInternal (with canAllocationReserve and Node.Reserve) *)
Definition app_reserve (v : rview) (n a k : N) (fits : bool) : option rview :=
  match find_ask v a k with
  | None => None                                  (* alloc is not registered to this app *)
  | Some x =>
      if ra_allocated x then None                 (* ErrorReservingAlloc *)
      else match app_res v a k with
           | Some _ => None                       (* ErrorDuplicateReserve *)
           | None =>
               if node_reserve_ok v n a k fits
               then Some (mkRV (rv_asks v) (rv_nodes v) (rv_apps v) (rv_app v ++ [(a, (k, n))])
                               (del_node n k (rv_node v) ++ [(n, (k, a))]) (rv_queue v) (rv_part v))
               else None
           end
  end.

(* Application.unReserveInternal for the reservation (a,k) -> n stored on the application:
   node.unReserve(alloc) then delete from the application map; returns the number removed from the app *)
Definition app_unreserve (v : rview) (a k : N) : rview * N :=
  match app_res v a k with
  | None => (v, 0)
  | Some n =>
      (mkRV (rv_asks v) (rv_nodes v) (rv_apps v) (del_app a k (rv_app v)) (del_node n k (rv_node v)) (rv_queue v) (rv_part v), 1)
  end.

Definition with_queue (v : rview) (q : list (N * N)) : rview :=
  mkRV (rv_asks v) (rv_nodes v) (rv_apps v) (rv_app v) (rv_node v) q (rv_part v).
Definition with_part (v : rview) (p : Z) : rview :=
  mkRV (rv_asks v) (rv_nodes v) (rv_apps v) (rv_app v) (rv_node v) (rv_queue v) p.
Definition with_asks (v : rview) (l : list rask) : rview :=
  mkRV l (rv_nodes v) (rv_apps v) (rv_app v) (rv_node v) (rv_queue v) (rv_part v).

(* unReserveInternal + queue.UnReserve, the partition counter untouched: removeAsksInternal(key),
   the wait-timeout branch of tryReservedAllocate, preemption's cancellation, cancelReservations per entry *)
Definition cancel_one (v : rview) (a k : N) : rview * N :=
  let '(v1, num) := app_unreserve v a k in
  (with_queue v1 (q_unreserve a num (rv_queue v1)), num).

(* PartitionContext.unReserve *)
Definition part_unreserve (v : rview) (a k : N) : rview :=
  let '(v1, num) := cancel_one v a k in with_part v1 (rv_part v1 - Z.of_N num)%Z.

(* PartitionContext.reserve *)
Definition part_reserve (v : rview) (a k n : N) (fits : bool) : rview :=
  match app_res v a k with
  | Some n0 =>
      if n0 =? n then v
      else
        let v1 := part_unreserve v a k in
        match app_reserve v1 n a k fits with
        | None => v1
        | Some v2 => with_part (with_queue v2 (q_reserve a (rv_queue v2))) (rv_part v2 + 1)%Z
        end
  | None =>
      match app_reserve v n a k fits with
      | None => v
      | Some v2 => with_part (with_queue v2 (q_reserve a (rv_queue v2))) (rv_part v2 + 1)%Z
      end
  end.

Definition set_allocated (a k : N) (b : bool) (l : list rask) : list rask :=
  map (fun x => if (ra_app x =? a) && (ra_key x =? k) then mkRA (ra_app x) (ra_key x) b (ra_req x) else x) l.

Definition app_keys (v : rview) (a : N) : list N := map (fun x => fst (snd x)) (filter (fun x => fst x =? a) (rv_app v)).

(* removeAsksInternal(""): every reservation of the application, then one Queue.UnReserve with the total *)
Definition remove_all_asks (v : rview) (a : N) : rview :=
  if negb (existsb (fun x => ra_app x =? a) (rv_asks v)) then v   (* shortcut: no requests, nothing is touched *)
  else
    let '(v1, total) := fold_left (fun acc k => let '(w, t) := acc in let '(w1, num) := app_unreserve w a k in (w1, t + num))
                                  (app_keys v a) (v, 0) in
    with_asks (with_queue v1 (q_unreserve a total (rv_queue v1))) (filter (fun x => negb (ra_app x =? a)) (rv_asks v1)).

Inductive rop :=
| RAddNode (n : N)
| RAddApp (a : N)
| RAddAsk (a k req : N)
| RReserve (a k n : N) (fits : bool)      (* allocate(result Reserved): PartitionContext.reserve *)
| RUnreserve (a k : N)                    (* allocate(result Unreserved): PartitionContext.unReserve *)
| RAllocate (a k n : N)                   (* a scheduling decision for a pending ask: tryNode marks the ask allocated;
                                             a reservation the ask holds is removed through PartitionContext.unReserve
                                             (AllocatedReserved) *)
| RAllocateKeep (a k : N)                 (* the ask becomes allocated outside of tryNode: placeholder swap
                                             (tryPlaceholderAllocate) or an external binding sent by the shim;
                                             reservations are not touched *)
| RDeallocate (a k : N)                   (* DeallocateAsk: in-flight swap reversed *)
| RRemoveAsk (a k : N)                    (* removeAsksInternal(key): counter not decremented *)
| RRemoveAllAsks (a : N)                  (* removeAsksInternal(""): counter not decremented *)
| RRemoveApp (a : N)                      (* removeApplication / terminated application *)
| RCancel (a k : N)                       (* wait timeout / preemption: unReserveInternal + queue, counter not decremented *)
| RCancelRequired (n : N) (counted : bool) (* cancelReservations for a required-node ask on n; [counted] = the
                                             result reached allocate(), which decrements the counter *)
| RRemoveNode (n : N).                    (* removeNode: PartitionContext.unReserve for every reservation of the node *)

Definition rstep (v : rview) (o : rop) : option rview :=
  match o with
  | RAddNode n => if memN n (rv_nodes v) then None
                  else Some (mkRV (rv_asks v) (n :: rv_nodes v) (rv_apps v) (rv_app v) (rv_node v) (rv_queue v) (rv_part v))
  | RAddApp a => if memN a (rv_apps v) then None
                 else Some (mkRV (rv_asks v) (rv_nodes v) (a :: rv_apps v) (rv_app v) (rv_node v) (rv_queue v) (rv_part v))
  | RAddAsk a k req =>
      (* allocation keys are unique over the partition (assumption, see notes): a key in use is refused *)
      if negb (memN a (rv_apps v)) || existsb (fun x => ra_key x =? k) (rv_asks v) then None
      else Some (with_asks v (rv_asks v ++ [mkRA a k false req]))
  | RReserve a k n fits =>
      if memN a (rv_apps v) && memN n (rv_nodes v) then Some (part_reserve v a k n fits) else None
  | RUnreserve a k => if memN a (rv_apps v) then Some (part_unreserve v a k) else None
  | RAllocate a k n =>
      match find_ask v a k with
      | None => None
      | Some x =>
          if ra_allocated x || negb (memN n (rv_nodes v)) then None
          else if reserved_for_other v n a k then None       (* Node.preAllocateCheck *)
          else
            let v1 := with_asks v (set_allocated a k true (rv_asks v)) in
            Some (part_unreserve v1 a k)
      end
  | RAllocateKeep a k =>
      match find_ask v a k with
      | None => None
      | Some x => if ra_allocated x then None else Some (with_asks v (set_allocated a k true (rv_asks v)))
      end
  | RDeallocate a k =>
      match find_ask v a k with
      | None => None
      | Some x => if ra_allocated x then Some (with_asks v (set_allocated a k false (rv_asks v))) else None
      end
  | RRemoveAsk a k =>
      let '(v1, _) := cancel_one v a k in
      Some (with_asks v1 (filter (fun x => negb ((ra_app x =? a) && (ra_key x =? k))) (rv_asks v1)))
  | RRemoveAllAsks a => Some (remove_all_asks v a)
  | RRemoveApp a =>
      let v1 := remove_all_asks v a in
      Some (mkRV (rv_asks v1) (rv_nodes v1) (filter (fun x => negb (x =? a)) (rv_apps v1)) (rv_app v1) (rv_node v1) (rv_queue v1) (rv_part v1))
  | RCancel a k => Some (fst (cancel_one v a k))
  | RCancelRequired n counted =>
      let '(v1, total) :=
        fold_left (fun acc e => let '(w, t) := acc in
                                if ask_req w (snd e) (fst e) =? 0
                                then let '(w1, num) := cancel_one w (snd e) (fst e) in (w1, t + num)
                                else (w, t))
                  (node_entries v n) (v, 0) in
      Some (if counted then with_part v1 (rv_part v1 - Z.of_N total)%Z else v1)
  | RRemoveNode n =>
      let v0 := mkRV (rv_asks v) (filter (fun x => negb (x =? n)) (rv_nodes v)) (rv_apps v) (rv_app v) (rv_node v) (rv_queue v) (rv_part v) in
      Some (fold_left (fun w e => part_unreserve w (snd e) (fst e)) (node_entries v n) v0)
  end.

Fixpoint rrun (v : rview) (ops : list rop) : option rview :=
  match ops with
  | [] => Some v
  | o :: t => match rstep v o with Some v1 => rrun v1 t | None => None end
  end.
