(* C03: static facts about the queue tree of a state satisfying [TreeOK]: the ancestor path of a queue,
   which children of a queue lie on it, domination of a ledger along the path, and the height induction
   that makes every ledger zero once no application is left. *)
From Coq Require Import List ZArith NArith Bool Lia ZifyBool.
From YK Require Import Base.Int64 Base.Res Base.ResSpec Base.ResLemmas Core.Obs Core.Model Core.Ledger
  Core.BooksLemmas Core.BooksDefs.
Import ListNotations.
Open Scope Z_scope.

Lemma last_in {A} (l : list A) d : l <> [] -> In (last l d) l.
Proof. induction l as [|x t IH]; [congruence|]. intros _. destruct t as [|y t']; [left; reflexivity|].
  right. apply IH. discriminate. Qed.

Section Tree.
  Variable s : ostate.
  Hypothesis HT : TreeOK s.

  Lemma in_children c p : In c (children_of s p) <-> In c (s_queues s) /\ q_parent c = p.
  Proof. unfold children_of. rewrite filter_In, N.eqb_eq. reflexivity. Qed.
  Lemma children_nodup p : NoDup (map q_id (children_of s p)).
  Proof. apply NoDup_map_filter. apply (tk_ids s HT). Qed.
  Lemma parent_of_queue q : In q (s_queues s) -> parent_of s (q_id q) = q_parent q.
  Proof. intros Hq. unfold parent_of. rewrite (find_queue_in s q HT Hq). reflexivity. Qed.

  (* the path of a registered queue *)
  Lemma path_facts l lq : find_queue s l = Some lq ->
    chain s (path_ids s l) /\ complete s (path_ids s l) /\ NoDup (path_ids s l) /\ exists t, path_ids s l = l :: t.
  Proof. intros E. destruct (find_queue_some s l lq E) as [Hq El]. subst l.
    destruct (tk_path s HT lq Hq) as [Hnd Hc]. split; [apply path_ids_chain|]. split; [assumption|]. split; [assumption|].
    apply (path_ids_head s _ lq E). Qed.
  Lemma path_member c l : In c (path_ids s l) -> exists oc, find_queue s c = Some oc /\ In oc (s_queues s) /\ q_id oc = c.
  Proof. intros Hin. destruct (chain_found s _ c (path_ids_chain s l) Hin) as [oc E]. exists oc. split; [assumption|].
    apply find_queue_some. assumption. Qed.

  (* a leaf queue occurs on a path only as its first element *)
  Lemma leaf_only_head q l : In q (s_queues s) -> q_leaf q = true -> In (q_id q) (path_ids s l) -> q_id q = l.
  Proof. intros Hq Hl Hin. destruct (path_ids s l) as [|h t] eqn:Ep; [contradiction|].
    pose proof (path_ids_chain s l) as Hc. rewrite Ep in Hc.
    assert (h = l). { unfold path_ids in Ep. apply path_fuel_head in Ep. assumption. } subst h.
    destruct Hin as [E|Hin]; [congruence|]. exfalso.
    destruct (path_tail_has_child s (l :: t) (q_id q) Hc Hin) as (c & Hcin & Ec).
    assert (Hcin' : In c (path_ids s l)) by (rewrite Ep; assumption).
    destruct (path_member c l Hcin') as (oc & Eoc & Hoc & Eid). subst c.
    rewrite (parent_of_queue oc Hoc) in Ec. pose proof (tk_leaf s HT oc q Hoc Hq Ec). congruence. Qed.

  (* children of a non-leaf queue on the path of a leaf *)
  Lemma child_on_path l lq pq : find_queue s l = Some lq -> q_leaf lq = true -> In pq (s_queues s) -> q_leaf pq = false ->
    In (q_id pq) (path_ids s l) ->
    exists c0, In c0 (children_of s (q_id pq)) /\ In (q_id c0) (path_ids s l) /\
               forall c, In c (children_of s (q_id pq)) -> In (q_id c) (path_ids s l) -> c = c0.
  Proof. intros El Hleaf Hpq Hnl Hin. destruct (path_facts l lq El) as (Hc & Hcomp & Hnd & t & Ep).
    destruct (find_queue_some s l lq El) as [Hlq Eid].
    assert (Hne : q_id pq <> l).
    { intros C. assert (pq = lq) by (apply (nodup_key_inj q_id (s_queues s)); auto; [apply (tk_ids s HT)|congruence]). congruence. }
    rewrite Ep in Hin. destruct Hin as [C|Hin]; [congruence|].
    assert (Hin' : In (q_id pq) (tl (path_ids s l))) by (rewrite Ep; assumption).
    destruct (path_tail_has_child s _ (q_id pq) Hc Hin') as (c & Hcin & Ec).
    destruct (path_member c l Hcin) as (oc & Eoc & Hoc & Eidc). subst c. rewrite (parent_of_queue oc Hoc) in Ec.
    exists oc. split; [apply in_children; auto|]. split; [assumption|].
    intros c' Hc' Hin''. apply in_children in Hc'. destruct Hc' as [Hc'q Ec'].
    apply (nodup_key_inj q_id (s_queues s)); auto; [apply (tk_ids s HT)|].
    apply (path_parent_inj s (path_ids s l)); auto; [apply (find_queue_zero s HT)|].
    rewrite (parent_of_queue c' Hc'q), (parent_of_queue oc Hoc). congruence. Qed.
  Lemma child_off_path l lq pq c : find_queue s l = Some lq -> In pq (s_queues s) -> ~ In (q_id pq) (path_ids s l) ->
    In c (children_of s (q_id pq)) -> ~ In (q_id c) (path_ids s l).
  Proof. intros El Hpq Hni Hc Hin. destruct (path_facts l lq El) as (Hch & Hcomp & Hnd & t & Ep).
    apply in_children in Hc. destruct Hc as [Hcq Ec].
    destruct (path_closed s _ (q_id c) Hch Hcomp Hin) as [C|C]; rewrite (parent_of_queue c Hcq), Ec in C.
    - apply (tk_nz s HT pq Hpq C).
    - contradiction. Qed.

  (* the root is on every path *)
  Lemma root_queue_some r : root_queue s = Some r -> In r (s_queues s) /\ q_parent r = 0%N.
  Proof. unfold root_queue. intros H. apply find_some in H. rewrite N.eqb_eq in H. exact H. Qed.
  Lemma root_on_path l lq r : find_queue s l = Some lq -> root_queue s = Some r -> In (q_id r) (path_ids s l).
  Proof. intros El Er. destruct (path_facts l lq El) as (Hch & Hcomp & Hnd & t & Ep).
    destruct (root_queue_some r Er) as [Hr Epr].
    assert (Hne : path_ids s l <> []) by (rewrite Ep; discriminate).
    pose proof (last_in (path_ids s l) 0%N Hne) as Hlast.
    destruct (path_member _ l Hlast) as (ol & Eol & Hol & Eid).
    unfold complete in Hcomp. rewrite <- Eid in Hcomp. rewrite (parent_of_queue ol Hol) in Hcomp.
    rewrite <- (tk_root s HT ol r Hol Hr Hcomp Epr), Eid. assumption. Qed.
  Lemma root_queue_none : root_queue s = None -> forall q, In q (s_queues s) -> q_parent q <> 0%N.
  Proof. unfold root_queue. intros H q Hq C. apply (find_none _ _ H) in Hq. rewrite C in Hq. discriminate. Qed.

  (* a ledger that is a sum of non-negative children dominates, along the path, what the first queue holds *)
  Lemma path_dom (h : oqueue -> res) l lq v k : find_queue s l = Some lq -> v <= getz (h lq) k ->
    (forall q, In q (s_queues s) -> fnonneg (h q)) ->
    (forall q, In q (s_queues s) -> q_leaf q = false -> getz (h q) k = sumz (map h (children_of s (q_id q))) k) ->
    forall c oc, In c (path_ids s l) -> find_queue s c = Some oc -> v <= getz (h oc) k.
  Proof. intros El Hv Hnn Hsum. destruct (path_facts l lq El) as (Hch & Hcomp & Hnd & t & Ep).
    intros c oc Hc. revert oc. revert c Hc.
    apply (chain_up (fun c => forall oc, find_queue s c = Some oc -> v <= getz (h oc) k) s (path_ids s l) Hch).
    - intros c Hc Hp IH op Eop. destruct (path_member c l Hc) as (oc & Eoc & Hoc & Eid). subst c.
      rewrite (parent_of_queue oc Hoc) in Eop. destruct (find_queue_some s _ op Eop) as [Hop Eidp].
      specialize (IH oc Eoc). pose proof (tk_leaf s HT oc op Hoc Hop (eq_sym Eidp)) as Hnl.
      rewrite (Hsum op Hop Hnl).
      assert (Hin : In (h oc) (map h (children_of s (q_id op)))) by (apply in_map; apply in_children; auto).
      pose proof (sumz_ge_member (map h (children_of s (q_id op))) (h oc) k) as G.
      assert (Hall : forall r', In r' (map h (children_of s (q_id op))) -> fnonneg r').
      { intros r' Hr'. apply in_map_iff in Hr'. destruct Hr' as (c' & <- & Hc'). apply in_children in Hc'. apply Hnn. tauto. }
      specialize (G Hall Hin). lia.
    - intros h0 t0 E oc Eoc. rewrite Ep in E. inversion E; subst h0 t0. rewrite El in Eoc. inversion Eoc; subst oc. assumption. Qed.
End Tree.
