(* C03 over the gang fragment (Core/Model3.v): removeNode ([g_node_remove]), part 1: the frame of the proof.
   The model deletes the node FIRST and then walks over the records it listed ([g_remove_node_allocs]); the intermediate
   model states violate [OnNode] (applications still list allocations on a node that is gone).  As in
   Core/Model2ProofsB5.v the proof runs a GHOST state next to the model state μ: [ghost μ n c] is μ with a node n put
   back that holds exactly the records not processed yet, and with the allocation counter corrected by c (the model
   applies the counters at the end).  Loop invariant [GI]: the ghost state satisfies InvG2 and BooksG.
   This file: [node_remove_order] (the processing order is a duplicate-free enumeration of the node's records),
   the one-iteration decomposition [rna_cons] and the visited-state predicate [rna_ok], the ghost state, entering
   ([ghost_enter]) and leaving ([ghost_leave]: the empty ghost node is dropped, [part_update_total] is a frame,
   the counters are applied) the loop, and the plain iteration ([step_plain]: a record without link). *)
From Coq Require Import List ZArith NArith Bool Lia ZifyBool.
From YK Require Import Base.Int64 Base.Res Base.ResSpec Base.ResLemmas Base.ResLaws Base.ResLaws2 Base.ResLawsPred
  Core.Obs Core.Model Core.Model2 Core.Model3 Core.Ledger
  Core.BooksLemmas Core.BooksDefs Core.BooksTree Core.BooksQueue Core.BooksApp Core.BooksState Core.BooksDrain Core.BooksOps
  Core.BooksOps2 Core.BooksOps3 Core.BooksOps4 Core.Model2ProofsB1 Core.Model2ProofsB2 Core.Model2ProofsB4
  Core.Model3ProofsD Core.Model3ProofsD2 Core.Model3ProofsG1 Core.Model3ProofsG2 Core.Model3ProofsG4 Core.Model3ProofsG6
  Core.Model3ProofsA1 Core.Model3ProofsA2 Core.Model3ProofsO4.
Import ListNotations.
Open Scope Z_scope.
Set Default Timeout 30.

(* ================================================================== 1. the processing order *)
Definition release_keys (evs : list oevent) : list N := map (fun p => fst (fst p)) (releases_of evs).

Lemma nro_eq evs l : node_remove_order evs l =
  let ks := release_keys evs in
  let silent := filter (fun y => negb (memN (oa_key y) ks)) l in
  let announced := flat_map (fun k => filter (fun y => (oa_key y =? k)%N) l) ks in
  if forallb (fun y => Nat.eqb (length (filter (fun z => (oa_app z =? oa_app y)%N) l)) 1) silent
  then Some (silent ++ announced) else None.
Proof. reflexivity. Qed.

Lemma NoDup_app_intro {A} (l1 l2 : list A) : NoDup l1 -> NoDup l2 -> (forall x, In x l1 -> In x l2 -> False) -> NoDup (l1 ++ l2).
Proof. intros H1 H2 H. induction l1 as [|x t IH]; [exact H2|]. inversion H1 as [|? ? Hx Ht]; subst. cbn [app]. constructor.
  - rewrite in_app_iff. intros [C|C]; [contradiction|]. apply (H x (or_introl eq_refl) C).
  - apply IH; [assumption|]. intros y Hy. apply H. right. assumption. Qed.

Lemma in_announced ks l z : In z (flat_map (fun k => filter (fun y => (oa_key y =? k)%N) l) ks) <-> In z l /\ In (oa_key z) ks.
Proof. rewrite in_flat_map. split.
  - intros (k & Hk & Hz). apply filter_In in Hz. destruct Hz as [Hz E]. apply N.eqb_eq in E. subst k. auto.
  - intros [Hz Hk]. exists (oa_key z). split; [assumption|]. apply filter_In. split; [assumption|apply N.eqb_refl]. Qed.

Lemma announced_nodup ks l : NoDup ks -> NoDup (akeys l) ->
  NoDup (akeys (flat_map (fun k => filter (fun y => (oa_key y =? k)%N) l) ks)).
Proof. intros Hks Hl. induction ks as [|k t IH]; [constructor|]. inversion Hks as [|? ? Hk Ht]; subst. cbn [flat_map].
  unfold akeys. rewrite map_app. apply NoDup_app_intro.
  - apply (akeys_filter_nodup _ l Hl).
  - apply IH. assumption.
  - intros key H1 H2. apply in_map_iff in H1. destruct H1 as (z1 & E1 & H1). apply filter_In in H1. destruct H1 as [_ H1]. apply N.eqb_eq in H1.
    apply in_map_iff in H2. destruct H2 as (z2 & E2 & H2). apply in_announced in H2. destruct H2 as [_ H2]. apply Hk. congruence. Qed.

(* every record of the node is processed, exactly once.  Hypothesis: the keys of the release announcements are distinct
   (the scheduler announces every removed allocation once); without it a record could be processed twice. *)
Lemma node_remove_order_spec evs l order : NoDup (release_keys evs) -> NoDup (akeys l) -> node_remove_order evs l = Some order ->
  (forall z, In z order <-> In z l) /\ NoDup (akeys order).
Proof. intros Hks Hl H. rewrite nro_eq in H. cbv zeta in H. destruct (forallb _ _); [|discriminate]. inversion H; subst order; clear H. split.
  - intros z. rewrite in_app_iff, filter_In, in_announced. destruct (memN (oa_key z) (release_keys evs)) eqn:Em.
    + apply memN_in in Em. cbn [negb]. intuition discriminate.
    + pose proof Em as Em'. apply memN_false in Em. cbn [negb]. intuition.
  - unfold akeys. rewrite map_app. apply NoDup_app_intro.
    + apply (akeys_filter_nodup _ l Hl).
    + apply (announced_nodup _ l Hks Hl).
    + intros key H1 H2. apply in_map_iff in H1. destruct H1 as (z1 & E1 & H1). apply filter_In in H1. destruct H1 as [_ H1].
      apply negb_true_iff, memN_false in H1. apply in_map_iff in H2. destruct H2 as (z2 & E2 & H2). apply in_announced in H2. destruct H2 as [_ H2].
      apply H1. congruence. Qed.

(* ================================================================== 2. one iteration; the states the loop visits *)
Lemma rna_cons s y t : g_remove_node_allocs s (y :: t) =
  match g_remove_node_allocs s [y] with
  | Some (s2, da, dph) =>
      match g_remove_node_allocs s2 t with Some (s3, da', dph') => Some (s3, (da + da')%Z, (dph + dph')%Z) | None => None end
  | None => None
  end.
Proof. cbn [g_remove_node_allocs]. destruct (find_app s (oa_app y)) as [a|].
  - destruct (negb (no_res a) || oa_preempted y); [reflexivity|].
    match goal with |- match ?S with _ => _ end = _ => destruct S as [[s1 [|]]|] end; [| |reflexivity].
    + destruct (g_remove_node_allocs s1 t) as [[[s3 da'] dph']|]; reflexivity.
    + destruct (g_node_remove_plain s1 (oa_app y) (oa_key y)) as [[s2 da] dph].
      destruct (g_remove_node_allocs s2 t) as [[[s3 da'] dph']|]; rewrite ?Z.add_0_r; reflexivity.
  - destruct (g_remove_node_allocs s t) as [[[s3 da'] dph']|]; reflexivity. Qed.

(* P holds in every state the loop visits (the first and the last included), Q for every iteration (the state it starts
   in and the record it processes) *)
Fixpoint rna_ok (P : ostate -> Prop) (Q : ostate -> oalloc -> Prop) (s : ostate) (l : list oalloc) : Prop :=
  P s /\ match l with
         | [] => True
         | y :: t => Q s y /\ match g_remove_node_allocs s [y] with Some (s2, _, _) => rna_ok P Q s2 t | None => True end
         end.
Lemma rna_ok_head P Q s l : rna_ok P Q s l -> P s. Proof. destruct l; intros [H _]; exact H. Qed.

(* the loop touches neither the node list's identifiers nor the counters: proved per case where needed *)

(* ================================================================== 3. the ghost state *)
Definition ghost (μ : ostate) (n : onode) (c : Z) : ostate :=
  mkOS (n :: s_nodes μ) (s_apps μ) (s_queues μ) (s_total μ) (s_nallocs μ + c) (s_nph μ) (s_nres μ) (s_foreign μ)
       (s_completed μ) (s_rejected μ) (s_ugm μ).

(* no node lists a record with key 0 (Core/Obs.v: names are interned to positive numbers, 0 means "none";
   the link test of the model is [oa_release y =? 0]) *)
Definition KeysNZ (s : ostate) : Prop := forall m z, In m (s_nodes s) -> In z (on_allocs m) -> oa_key z <> 0%N.

Record GI (id : N) (μ : ostate) (n : onode) (l : list oalloc) (c : Z) : Prop := mkGI {
  gi_inv : InvG2 (ghost μ n c);
  gi_books : BooksG (ghost μ n c);
  gi_id : on_id n = id;
  gi_rec : forall z, In z (on_allocs n) <-> In z l;
  gi_nd : NoDup (akeys l);
  gi_rb : rb (on_allocated n);
  gi_nz : KeysNZ (ghost μ n c) }.

Lemma ghost_bounded μ n c : Bounded3 μ -> rb (on_allocated n) -> Bounded3 (ghost μ n c).
Proof. intros [[B1 B2 B3] B4] Hn. constructor; [constructor|]; auto. intros m [<-|Hm]; auto. Qed.
Lemma ghost_fresh id μ n c : InvG (ghost μ n c) -> on_id n = id -> ~ In id (map on_id (s_nodes μ)).
Proof. intros HI E. pose proof (ig_node_ids _ HI) as H. cbn [ghost s_nodes map] in H. inversion H; subst. assumption. Qed.
Lemma ghost_updk μ n c n' : InvG (ghost μ n c) -> updk on_id (n :: s_nodes μ) (on_id n) (fun _ => n') = n' :: s_nodes μ.
Proof. intros HI. unfold updk. cbn [map]. rewrite N.eqb_refl. f_equal. apply (updk_fresh on_id). apply (ghost_fresh (on_id n) μ n c HI eq_refl). Qed.
Lemma ghost_node_in μ n c : In n (s_nodes (ghost μ n c)). Proof. left. reflexivity. Qed.

(* ---------------------------------------------------------------- entering the loop *)
Lemma sum_take_out (P : oalloc -> bool) (l : list onode) n k : NoDup (map on_id l) -> In n l ->
  asum (filter P (flat_map on_allocs (n :: filter (fun m => negb (on_id m =? on_id n)%N) l))) k = asum (filter P (flat_map on_allocs l)) k.
Proof. intros Hnd Hn. cbn [flat_map]. rewrite filter_app, asum_app. induction l as [|x t IH]; [contradiction|].
  cbn [map] in Hnd. inversion Hnd as [|? ? Hni Hnd']; subst. cbn [filter flat_map]. destruct Hn as [->|Hn].
  - rewrite N.eqb_refl. cbn [negb]. rewrite filter_app, asum_app. f_equal. f_equal. f_equal. f_equal.
    apply filter_all. intros m Hm. apply negb_true_iff, N.eqb_neq. intros E. apply Hni. rewrite <- E. apply in_map. assumption.
  - destruct (N.eqb_spec (on_id x) (on_id n)) as [E|E]; [exfalso; apply Hni; rewrite E; apply in_map; assumption|].
    cbn [negb flat_map]. rewrite !filter_app, !asum_app. rewrite <- (IH Hnd' Hn). lia. Qed.

Section Enter.
  Variables (s : ostate) (n : onode).
  Hypothesis HI2 : InvG2 s.
  Hypothesis HB : BooksG s.
  Hypothesis Hn : In n (s_nodes s).
  Let μ0 := set_nodes s (filter (fun m => negb (on_id m =? on_id n)%N) (s_nodes s)).
  Let σ0 := ghost μ0 n 0.
  Let HI := ig2_inv s HI2.

  Lemma enter_in m : In m (s_nodes σ0) <-> In m (s_nodes s).
  Proof. cbn [σ0 ghost μ0 set_nodes s_nodes In]. rewrite filter_In. split.
    - intros [<-|[Hm _]]; assumption.
    - intros Hm. destruct (N.eqb_spec (on_id m) (on_id n)) as [E|E]; [left; symmetry; apply (g_same_node s n m HI Hn Hm E)|right; auto]. Qed.

  Lemma ghost_enter : InvG2 σ0 /\ BooksG σ0.
  Proof. assert (H : InvG σ0 /\ BooksG σ0).
    { apply (gang_frame_step s σ0 (fun q => q) HI HB); try reflexivity.
      - cbn [σ0 ghost μ0 set_nodes s_queues]. symmetry. apply map_id.
      - intros f a x Hf. apply (ig_foreign s HI f a x Hf).
      - cbn [σ0 ghost μ0 set_nodes s_nodes map]. constructor.
        + intros C. apply in_map_iff in C. destruct C as (m & E & Hm). apply filter_In in Hm. destruct Hm as [_ Hm].
          apply negb_true_iff, N.eqb_neq in Hm. contradiction.
        + apply NoDup_map_filter. apply (ig_node_ids s HI).
      - intros m Hm. apply enter_in in Hm. apply (ig_nodes s HI m Hm).
      - intros m y Hm Hy. apply enter_in in Hm. apply (ig_owned s HI m y Hm Hy).
      - intros a x Ha Hx. destruct (ig_onnode s HI a x Ha Hx) as (m & Hm & R). exists m. split; [apply enter_in; assumption|exact R].
      - cbn [σ0 ghost μ0 set_nodes s_nallocs]. rewrite Z.add_0_r. apply (ig_count s HI).
      - intros k. apply (sum_take_out ninfl (s_nodes s) n k (ig_node_ids s HI) Hn). }
    destruct H as [HI' HB']. split; [|exact HB']. split; [exact HI'|]. destruct (ig2_link s HI2) as [L1 L2]. split.
    - intros m y Hm Hy. apply enter_in in Hm. apply (L1 m y Hm Hy).
    - intros a ph r Ha Hph Pph Lph Hr Kr Pr Ar. destruct (L2 a ph r Ha Hph Pph Lph Hr Kr Pr Ar) as (R1 & R2 & R3 & R4).
      split; [exact R1|]. split; [exact R2|]. split.
      + intros En m y Hm Hy. apply enter_in in Hm. apply (R3 En m y Hm Hy).
      + intros En. destruct (R4 En) as (m & Hm & R). exists m. split; [apply enter_in; assumption|exact R]. Qed.

  Lemma enter_GI l : Bounded3 s -> KeysNZ s -> (forall z, In z l <-> In z (on_allocs n)) -> NoDup (akeys l) -> GI (on_id n) μ0 n l 0.
  Proof. intros HBd Hnz Hl Hnd. destruct ghost_enter as [G1 G2]. constructor; auto.
    - intros z. symmetry. apply Hl.
    - apply (bd_nodes s (b3_base s HBd) n Hn).
    - intros m z Hm. apply enter_in in Hm. apply (Hnz m z Hm). Qed.
End Enter.

(* ---------------------------------------------------------------- leaving the loop *)
Section Leave.
  Variables (μ : ostate) (n : onode) (c : Z) (s' : ostate) (tot : res).
  Hypothesis HI2 : InvG2 (ghost μ n c).
  Hypothesis HB : BooksG (ghost μ n c).
  Hypothesis Hempty : on_allocs n = [].
  Hypothesis Ea : s_apps s' = s_apps μ.
  Hypothesis Eq : s_queues s' = map (g_total tot) (s_queues μ).
  Hypothesis En : s_nodes s' = s_nodes μ.
  Hypothesis Ef : s_foreign s' = s_foreign μ.
  Hypothesis Ec : s_nallocs s' = s_nallocs μ + c.
  Let σ := ghost μ n c.
  Let HI := ig2_inv σ HI2.

  Lemma ghost_leave : InvG2 s' /\ BooksG s'.
  Proof. assert (Hsub : forall m, In m (s_nodes s') -> In m (s_nodes σ)) by (intros m Hm; rewrite En in Hm; right; exact Hm).
    assert (Hback : forall m y, In m (s_nodes σ) -> In y (on_allocs m) -> In m (s_nodes s')).
    { intros m y [<-|Hm] Hy; [rewrite Hempty in Hy; contradiction|rewrite En; exact Hm]. }
    assert (H : InvG s' /\ BooksG s').
    { apply (gang_frame_step σ s' (g_total tot) HI HB Ea Eq (g_total_id tot) (g_total_par tot) (g_total_leaf tot) (g_total_alloc tot) (g_total_pend tot)).
      - intros f a x Hf. rewrite Ef in Hf. apply (ig_foreign σ HI f a x Hf).
      - rewrite En. pose proof (ig_node_ids σ HI) as H. cbn [σ ghost s_nodes map] in H. inversion H; assumption.
      - intros m Hm. apply (ig_nodes σ HI m (Hsub m Hm)).
      - intros m y Hm Hy. destruct (ig_owned σ HI m y (Hsub m Hm) Hy) as (b & Hb & R). exists b. split; [rewrite Ea; exact Hb|exact R].
      - intros a x Ha Hx. rewrite Ea in Ha. destruct (ig_onnode σ HI a x Ha Hx) as (m & Hm & Em & Hxm). exists m.
        split; [apply (Hback m x Hm Hxm)|auto].
      - rewrite Ec. pose proof (ig_count σ HI) as H. cbn [σ ghost s_nallocs] in H. rewrite H. unfold all_allocs. rewrite Ea. reflexivity.
      - intros k. unfold node_records. rewrite En. cbn [σ ghost s_nodes flat_map]. rewrite Hempty. reflexivity. }
    destruct H as [HI' HB']. split; [|exact HB']. split; [exact HI'|]. destruct (ig2_link σ HI2) as [L1 L2]. split.
    - intros m y Hm Hy Hi. destruct (L1 m y (Hsub m Hm) Hy Hi) as (a & ph & Ha & R). exists a, ph. split; [rewrite Ea; exact Ha|exact R].
    - intros a ph r Ha Hph Pph Lph Hr Kr Pr Ar. rewrite Ea in Ha. destruct (L2 a ph r Ha Hph Pph Lph Hr Kr Pr Ar) as (R1 & R2 & R3 & R4).
      split; [exact R1|]. split; [exact R2|]. split.
      + intros E m y Hm Hy. apply (R3 E m y (Hsub m Hm) Hy).
      + intros E. destruct (R4 E) as (m & Hm & Em & Hrm). exists m. split; [apply (Hback m r Hm Hrm)|auto]. Qed.
End Leave.

(* ================================================================== 4. the plain part of an iteration *)
(* app.RemoveAllocation(key, UNKNOWN) + queue.DecAllocatedResource for a listed allocation y of a that the ghost node
   lists: in the ghost state the record leaves the ghost node in the same iteration: [unbind_step] (Core/Model3ProofsO4.v) *)
Section PlainStep.
  Variables (μ : ostate) (n : onode) (c : Z) (a : oapp) (y : oalloc).
  Let σ := ghost μ n c.
  Hypothesis HI2 : InvG2 σ.
  Hypothesis HB : BooksG σ.
  Hypothesis HBd : Bounded3 σ.
  Hypothesis Ha : In a (s_apps μ).
  Hypothesis Hy : In y (ap_allocs a).
  Hypothesis Hyn : In y (on_allocs n).
  Hypothesis NoPartner : forall m z, In m (s_nodes σ) -> In z (on_allocs m) -> infl z = true -> oa_app z = ap_id a -> oa_release z <> oa_key y.
  Let a1 := app_remove_alloc a y TT_Unknown.
  Hypothesis Hlive : is_terminal (ap_state a1) = false.
  Let μ2 := q_dec (upd_app μ (ap_id a) (fun _ => a1)) (ap_queue a) (oa_res y).
  Let n' := n_remove n (oa_key y).
  Let HI := ig2_inv σ HI2.
  Let W := ig_app_wf σ HI a Ha.
  Let B := bg_apps σ HB a Ha.

  Lemma ps_plain : g_node_remove_plain μ (ap_id a) (oa_key y) = (μ2, -1, if oa_ph y then -1 else 0).
  Proof. unfold g_node_remove_plain. change (find_app μ (ap_id a)) with (find_app σ (ap_id a)). rewrite (g_find_app_in σ a HI Ha).
    rewrite (g_find_alloc_in σ a y HI Ha Hy). reflexivity. Qed.
  Lemma ps_node : on_id n' = on_id n /\ on_allocs n' = del_alloc (oa_key y) (on_allocs n) /\
    (forall k, getz (on_allocated n') k = getz (on_allocated n) k - getz (oa_res y) k).
  Proof. unfold n', n_remove. rewrite (g_find_node_alloc_in σ n y HI (ghost_node_in μ n c) Hyn). split; [reflexivity|]. split; [reflexivity|].
    intros k. cbn [n_with on_allocated]. destruct (w3_alloc a W y Hy) as [X1 _ _ _ _].
    rewrite Prune_getz by (apply subFrom_wf, (k3_wf n (ig_nodes σ HI n (ghost_node_in μ n c)))).
    apply subFrom_getz; [exact X1|apply (bd_nodes σ (b3_base σ HBd) n (ghost_node_in μ n c))|apply (abd_alloc a (bd_apps σ (b3_base σ HBd) a Ha) y Hy)]. Qed.

  Lemma ps_dominated : dominated σ (ap_queue a) (oa_res y).
  Proof. intros cq oc Hc Ec k. destruct (find_queue_some σ cq oc Ec) as [Hoc Eid]. subst cq.
    pose proof (g_usage_dominated σ a HI HB Ha oc k Hoc Hc). pose proof (rnonneg_fnonneg _ (ab_nn_alloc a B) k). pose proof (rnonneg_fnonneg _ (ab_nn_ph a B) k).
    destruct (oa_ph y) eqn:Eph; [pose proof (g_ph_le_phalloc a y k W B Hy Eph)|pose proof (g_alloc_le_allocated a y k W B Hy Eph)]; lia. Qed.

  Theorem plain_step : InvG2 (ghost μ2 n' (c + -1)) /\ BooksG (ghost μ2 n' (c + -1)) /\ Bounded3 (ghost μ2 n' (c + -1)).
  Proof. destruct (q_dec_same (upd_app μ (ap_id a) (fun _ => a1)) (ap_queue a) (oa_res y)) as [S1 S2 _ S4 _ _ S7 _ _ _]. fold μ2 in S1, S2, S4, S7.
    assert (Xn : oa_node y = on_id n) by (apply (k3_node n (ig_nodes σ HI n (ghost_node_in μ n c)) y Hyn)).
    assert (Bda : AllocBd a) by (apply AppBounded3_sides; split; [apply (bd_apps σ (b3_base σ HBd) a Ha)|apply (b3_ph σ HBd a Ha)]).
    apply (unbind_step σ (ghost μ2 n' (c + -1)) a a1 n y HI2 HB HBd Ha (ghost_node_in μ n c) Hy Xn NoPartner).
    - cbn [ghost s_apps]. rewrite S2. reflexivity.
    - cbn [ghost s_nodes]. rewrite S1. symmetry. apply (ghost_updk μ n c n' HI).
    - cbn [ghost s_queues]. apply (g_q_dec_queues σ (upd_app μ (ap_id a) (fun _ => a1)) (ap_queue a) (oa_res y) eq_refl);
        [apply (a3_wf _ y (w3_alloc a W y Hy))|exact ps_dominated].
    - cbn [ghost s_foreign]. rewrite S7. reflexivity.
    - cbn [ghost s_nallocs σ]. rewrite S4. cbn [upd_app s_nallocs]. lia.
    - apply app_remove_alloc_id.
    - apply app_remove_alloc_queue.
    - apply app_remove_alloc_allocs.
    - apply app_remove_alloc_requests_incl.
    - intros z Hz _. unfold a1. rewrite app_remove_alloc_requests_live by exact Hlive. exact Hz.
    - apply remove_alloc_books; assumption.
    - apply remove_alloc_wf3; assumption.
    - intros k. apply (remove_alloc_delta a y TT_Unknown k W Bda Hy).
    - intros k. apply (remove_alloc_delta a y TT_Unknown k W Bda Hy).
    - apply app_remove_alloc_pending. Qed.
End PlainStep.

(* ================================================================== 5. the invariant after an iteration *)
Definition NoTerminal (s : ostate) : Prop := forall b, In b (s_apps s) -> is_terminal (ap_state b) = false.

Lemma GI_next id μ n y t c μ2 n' c' : GI id μ n (y :: t) c ->
  InvG2 (ghost μ2 n' c') -> BooksG (ghost μ2 n' c') -> Bounded3 (ghost μ2 n' c') -> on_id n' = on_id n ->
  (forall z, In z (on_allocs n') <-> In z (on_allocs n) /\ oa_key z <> oa_key y) ->
  KeysNZ (ghost μ2 n' c') ->
  GI id μ2 n' t c'.
Proof. intros [G1 G2 G3 G4 G5 G6 G7] HI2 HB HBd En Hrec Hnz. inversion G5 as [|? ? Hky Hkt]; subst. constructor; auto.
  - intros z. rewrite Hrec, G4. cbn [In]. split.
    + intros [[<-|Hz] Hne]; [contradiction Hne; reflexivity|exact Hz].
    + intros Hz. split; [auto|]. intros E. apply Hky. rewrite <- E. apply in_map. exact Hz.
  - apply (bd_nodes _ (b3_base _ HBd) n'). left. reflexivity. Qed.

(* KeysNZ through the operations of the loop: node records keep their keys *)
Lemma keysnz_sub s s' : (forall m' z', In m' (s_nodes s') -> In z' (on_allocs m') -> exists m z, In m (s_nodes s) /\ In z (on_allocs m) /\ oa_key z = oa_key z') ->
  KeysNZ s -> KeysNZ s'.
Proof. intros H Hnz m' z' Hm' Hz'. destruct (H m' z' Hm' Hz') as (m & z & Hm & Hz & <-). apply (Hnz m z Hm Hz). Qed.
Lemma keysnz_obj_upd s app k f : (forall z, oa_key (f z) = oa_key z) -> KeysNZ s -> KeysNZ (obj_upd s app k f).
Proof. intros Hf. apply keysnz_sub. intros m' z' Hm' Hz'. cbn [obj_upd set_nodes s_nodes upd_app] in Hm'. apply in_map_iff in Hm'. destruct Hm' as (m & <- & Hm).
  cbn [n_with on_allocs] in Hz'. apply in_map_iff in Hz'. destruct Hz' as (z & <- & Hz). exists m, z. split; [exact Hm|]. split; [exact Hz|].
  destruct (_ && _); [symmetry; apply Hf|reflexivity]. Qed.
Lemma keysnz_dealloc s a k : KeysNZ s -> KeysNZ (app_deallocate s a k).
Proof. intros H. unfold app_deallocate. destruct (find_alloc (ap_requests a) k) as [r|]; [|exact H]. destruct (oa_allocated r); [|exact H].
  apply (keysnz_obj_upd s (ap_id a) k (fun z => oa_set_allocated z false)) in H; [|reflexivity]. exact H. Qed.

(* the owner of a record the ghost node lists *)
Lemma ghost_owner id μ n l c y : GI id μ n l c -> In y l ->
  In y (on_allocs n) /\ exists a, In a (s_apps μ) /\ ap_id a = oa_app y /\ find_app μ (oa_app y) = Some a /\ OwnedBy a y.
Proof. intros G Hy. apply (gi_rec _ _ _ _ _ G) in Hy. split; [exact Hy|]. pose proof (ig2_inv _ (gi_inv _ _ _ _ _ G)) as HI.
  destruct (ig_owned _ HI n y (ghost_node_in μ n c) Hy) as (a & Ha & Ea & Ho). exists a. split; [exact Ha|]. split; [exact Ea|]. split; [|exact Ho].
  rewrite <- Ea. apply (g_find_app_in (ghost μ n c) a HI Ha). Qed.

Lemma infl_nolink' y : oa_release y = 0%N -> infl y = false.
Proof. intros E. unfold infl. rewrite E. apply andb_false_r. Qed.

(* an allocation whose partner a node lists carries that partner's key as link *)
Lemma partner_link s a y m z : InvG2 s -> In a (s_apps s) -> In y (ap_allocs a) -> In m (s_nodes s) -> In z (on_allocs m) ->
  infl z = true -> oa_app z = ap_id a -> oa_release z = oa_key y -> oa_release y = oa_key z /\ oa_ph y = true /\ oa_node y <> oa_node z.
Proof. intros [HI [L1 _]] Ha Hy Hm Hz Hi Eapp Ek. destruct (L1 m z Hm Hz Hi) as (b & ph & Hb & Eb & Hph & Pph & Kph & Rph & Nph).
  assert (b = a) by (apply (g_same_app s a b HI Ha Hb); congruence). subst b.
  assert (ph = y) by (apply (nodup_key_inj oa_key (ap_allocs a)); auto; [apply (w3_alloc_keys a (ig_app_wf s HI a Ha))|congruence]). subst ph. auto. Qed.

(* ---------------------------------------------------------------- case (a): a record without link *)
Lemma step_plain id μ n y t c μ2 da dph : GI id μ n (y :: t) c -> Bounded3 μ -> NoTerminal μ2 -> oa_release y = 0%N ->
  g_remove_node_allocs μ [y] = Some (μ2, da, dph) -> exists n', GI id μ2 n' t (c + da).
Proof. intros G HBd HT Erel H. pose proof G as [G1 G2 G3 G4 G5 G6 G7]. pose proof (ig2_inv _ G1) as HI.
  destruct (ghost_owner id μ n _ c y G (or_introl eq_refl)) as (Hyn & a & Ha & Ea & Efa & Ho).
  destruct Ho as [Hy|(Hi & _)]; [|rewrite (infl_nolink' y Erel) in Hi; discriminate].
  assert (NoPartner : forall m z, In m (s_nodes (ghost μ n c)) -> In z (on_allocs m) -> infl z = true -> oa_app z = ap_id a -> oa_release z <> oa_key y).
  { intros m z Hm Hz Hi Eapp Ek. destruct (partner_link _ a y m z G1 Ha Hy Hm Hz Hi Eapp Ek) as (E & _). apply (G7 m z Hm Hz). congruence. }
  cbn [g_remove_node_allocs] in H. rewrite Efa in H. destruct (negb (no_res a) || oa_preempted y); [discriminate|].
  rewrite Erel in H. cbn [N.eqb] in H. rewrite <- Ea in H.
  rewrite (ps_plain μ n c a y G1 Ha Hy) in H. inversion H; subst μ2 da dph; clear H.
  set (a1 := app_remove_alloc a y TT_Unknown) in *. set (μ2 := q_dec (upd_app μ (ap_id a) (fun _ => a1)) (ap_queue a) (oa_res y)) in *.
  assert (Hlive : is_terminal (ap_state a1) = false).
  { apply HT. unfold μ2. rewrite (sq_apps _ _ (q_dec_same _ _ _)). cbn [upd_app s_apps].
    apply (in_updk_const ap_id (s_apps μ) a a1 a1 (ig_app_ids _ HI) Ha). left. reflexivity. }
  pose proof (ghost_bounded μ n c HBd G6) as HBdσ.
  destruct (plain_step μ n c a y G1 G2 HBdσ Ha Hy Hyn NoPartner Hlive) as (R1 & R2 & R3).
  destruct (ps_node μ n c a y G1 HBdσ Ha Hy Hyn) as (N1 & N2 & _).
  exists (n_remove n (oa_key y)). apply (GI_next id μ n y t c μ2 _ _ G R1 R2 R3 N1).
  - intros z. rewrite N2. apply in_del_alloc.
  - apply (keysnz_sub (ghost μ n c)); [|exact G7]. intros m' z [<-|Hm'] Hz.
    + rewrite N2 in Hz. apply in_del_alloc in Hz. exists n, z. split; [left; reflexivity|tauto].
    + unfold μ2 in Hm'. rewrite (sq_nodes _ _ (q_dec_same _ _ _)) in Hm'. exists m', z. split; [right; exact Hm'|auto]. Qed.

(* the fold over the applications at the end: nothing terminated *)
Lemma terminate_fold_id (l : list oalloc) s : NoTerminal s -> fold_left (fun acc y => terminate_if_done acc (oa_app y)) l s = s.
Proof. intros HT. induction l as [|y t IH]; [reflexivity|]. cbn [fold_left].
  assert (E : terminate_if_done s (oa_app y) = s).
  { destruct (find_app s (oa_app y)) as [b|] eqn:Eb; [|apply terminate_none; exact Eb].
    apply (terminate_live s _ b Eb). apply HT. apply (find_app_some _ _ _ Eb). }
  rewrite E. exact IH. Qed.
