(* C09 over the operational model, part 11: removeAsksInternal("") - every reservation of the application is removed from
   the application and node maps in a loop, then ONE Queue.UnReserve with the total.  The result has the same application /
   node / queue lists as cancelling the reservations one after the other ([r_cancel]), each of which preserves [RInv]. *)
From Coq Require Import List ZArith NArith Bool Lia ZifyBool ZifyN ZifyNat.
From YK Require Import Base.Int64 Base.Res Core.Obs Core.Model Core.Model2 Core.Ledger Core.Model4 Core.NodeProofs Core.QueueProofs Core.StepProofs
  Core.Model4ProofsF Core.Model4ProofsR1 Core.Model4ProofsR2 Core.Model4ProofsR3 Core.Model4ProofsR4 Core.Model4ProofsR5 Core.Model4ProofsR6
  Core.Model4ProofsR7 Core.Model4ProofsR8 Core.Model4ProofsR10.
From YK Require Core.Reserve Core.ReserveLemmas.
Import ListNotations.
Open Scope N_scope.
Set Default Timeout 30.

(* ------------------------------------------------------------------ the queue counter: n times one = once n *)
Fixpoint iter {A} (n : nat) (f : A -> A) (x : A) : A := match n with O => x | S m => iter m f (f x) end.

Lemma qr_unreserve_absent id n l : find (fun x => fst x =? id) l = None -> qr_unreserve id n l = l.
Proof. unfold qr_unreserve. intros ->. reflexivity. Qed.
Lemma filter_map_other id (g : N * N -> N * N) l : (forall y, fst (g y) = fst y) -> (forall y, fst y <> id -> g y = y) ->
  filter (fun y => negb (fst y =? id)) (map g l) = filter (fun y => negb (fst y =? id)) l.
Proof. intros G1 G2. induction l as [|y t IH]; [reflexivity|]. cbn [map filter]. rewrite G1. destruct (N.eqb_spec (fst y) id) as [E|E]; cbn [negb]; [exact IH|].
  rewrite (G2 y E), IH. reflexivity. Qed.

Lemma qr_iter id : forall n l, NoDup (map fst l) -> qcount l id = N.of_nat n -> (forall e, In e l -> 0 < snd e) ->
  iter n (qr_unreserve id 1) l = qr_unreserve id (N.of_nat n) l.
Proof. induction n as [|n IH]; intros l Hnd Hc Hp.
  - cbn [iter]. unfold qcount in Hc. destruct (find (fun x => fst x =? id) l) as [x|] eqn:Ef.
    + apply find_some in Ef. destruct Ef as [Hx _]. specialize (Hp x Hx). cbn in Hc. lia.
    + symmetry. apply qr_unreserve_absent. exact Ef.
  - cbn [iter]. unfold qcount in Hc. destruct (find (fun x => fst x =? id) l) as [x|] eqn:Ef; [|cbn in Hc; lia].
    pose proof Ef as Ef'. apply find_some in Ef'. destruct Ef' as [Hx Ex]. apply N.eqb_eq in Ex.
    assert (E1 : qr_unreserve id (N.of_nat (S n)) l = filter (fun y => negb (fst y =? id)) l).
    { unfold qr_unreserve. rewrite Ef. rewrite Hc, N.leb_refl. reflexivity. }
    rewrite E1. destruct n as [|n].
    + cbn [iter]. unfold qr_unreserve. rewrite Ef. rewrite Hc. cbn. reflexivity.
    + (* the first cancellation decrements, the remaining S n remove the entry *)
      assert (E2 : qr_unreserve id 1 l = map (fun y => if fst y =? id then (fst y, snd y - 1) else y) l).
      { unfold qr_unreserve. rewrite Ef. rewrite Hc. destruct (N.leb_spec (N.of_nat (S (S n))) 1) as [H|H]; [rewrite !Nat2N.inj_succ in H; lia|reflexivity]. }
      rewrite E2. set (g := fun y : N * N => if fst y =? id then (fst y, snd y - 1) else y). set (l' := map g l).
      assert (G1 : forall y, fst (g y) = fst y) by (intros y; unfold g; destruct (fst y =? id); reflexivity).
      assert (Hnd' : NoDup (map fst l')) by (unfold l'; rewrite map_map; erewrite map_ext; [exact Hnd|exact G1]).
      assert (Hc' : qcount l' id = N.of_nat (S n)).
      { unfold l'. rewrite qcount_eq. rewrite (ReserveLemmas.qc_map id (fun c => c - 1)). fold (qcount l id). unfold qcount. rewrite Ef, Hc, N.eqb_refl. rewrite !Nat2N.inj_succ. lia. }
      assert (Hp' : forall e, In e l' -> 0 < snd e).
      { intros e He. unfold l' in He. apply in_map_iff in He. destruct He as (y & <- & Hy). unfold g. destruct (N.eqb_spec (fst y) id) as [E|E]; [|apply Hp; exact Hy].
        cbn [snd]. assert (y = x) by (apply (nodup_key_eq fst l); auto; congruence). subst y. rewrite Hc, !Nat2N.inj_succ. lia. }
      rewrite (IH l' Hnd' Hc' Hp').
      assert (E3 : qr_unreserve id (N.of_nat (S n)) l' = filter (fun y => negb (fst y =? id)) l').
      { unfold qr_unreserve. unfold qcount in Hc'. destruct (find (fun x0 => fst x0 =? id) l') as [x'|]; [|cbn in Hc'; lia]. rewrite Hc', N.leb_refl. reflexivity. }
      rewrite E3. unfold l'. apply filter_map_other; [exact G1|]. intros y Hy. unfold g. apply N.eqb_neq in Hy. rewrite Hy. reflexivity. Qed.

Lemma iter_succ_r {A} (f : A -> A) : forall n x, iter (S n) f x = f (iter n f x).
Proof. induction n as [|n IH]; intros x; [reflexivity|]. cbn [iter] in *. rewrite <- IH. reflexivity. Qed.

Section CancelAll.
  Variables (s : ostate) (a : oapp).
  Hypothesis HI : Ids0 s.
  Hypothesis HR : RInv s.
  Hypothesis Ha : In a (s_apps s).
  Let id := ap_id a.
  Let q := ap_queue a.

  Definition ustep (acc : ostate * N) (p : N * N) : ostate * N :=
    let '(s', n) := r_unreserve_internal (fst acc) id (fst p) (snd p) in (s', snd acc + n).
  Definition cstep (c : ostate) (p : N * N) : ostate := fst (r_cancel c id (snd p)).
  Definition qmap (d : nat) (q0 : oqueue) : oqueue :=
    if q_id q0 =? q then q_set_reserved q0 (iter d (qr_unreserve id 1) (q_reserved q0)) else q0.

  Record Sim (u : ostate * N) (c : ostate) (d : nat) (t : list (N * N)) : Prop := mkSim {
    sm_apps : s_apps (fst u) = s_apps c; sm_nodes : s_nodes (fst u) = s_nodes c; sm_uq : s_queues (fst u) = s_queues s;
    sm_tot : snd u = N.of_nat d; sm_cq : s_queues c = map (qmap d) (s_queues s);
    sm_ids : Ids0 c; sm_rinv : RInv c;
    sm_app : exists b, find_app c id = Some b /\ ap_queue b = q /\ (forall p, In p t -> In p (ap_reservations b)) /\ (forall r, In r (ap_reservations b) -> In r t);
    sm_nodup : NoDup (map snd t) }.

  Lemma sim_step u c d p t : Sim u c d (p :: t) -> Sim (ustep u p) (cstep c p) (S d) t.
  Proof. intros [E1 E2 E3 E4 E5 HIc HRc (b & Eb & Eq & Hsub & Hsup) Hnd]. destruct p as [nid k].
    destruct (find_app_in _ _ _ Eb) as [Hb Eid]. assert (Hp : In (nid, k) (ap_reservations b)) by (apply Hsub; left; reflexivity).
    pose proof (r_akeys _ c HRc b Hb) as Hk. rewrite <- Eid in Eb.
    pose proof (r_cancel_rm c b nid k Eb Hp Hk) as Ec. rewrite Eid in Ec.
    assert (Ecs : cstep c (nid, k) = rm_state c id nid k (ap_queue b)) by (unfold cstep; cbn [snd]; rewrite Ec; reflexivity).
    assert (Eus : ustep u (nid, k) = (upd_app (upd_node (fst u) nid (fun n => n_set_res n (drop_key k (on_reservations n)))) id (fun b0 => ap_set_res b0 (drop_key k (ap_reservations b0))), snd u + 1)).
    { unfold ustep, r_unreserve_internal. cbn [fst snd].
      assert (Ef : find_app (upd_node (fst u) nid (fun n => n_set_res n (drop_key k (on_reservations n)))) id = Some b).
      { unfold find_app. cbn [upd_node s_apps]. rewrite E1. fold (find_app c id). rewrite <- Eid. exact Eb. }
      rewrite Ef. assert (Ex : existsb (key_is k) (ap_reservations b) = true) by (apply existsb_exists; exists (nid, k); split; [exact Hp|unfold key_is; cbn; apply N.eqb_refl]).
      rewrite Ex. reflexivity. }
    rewrite Ecs, Eus. inversion Hnd as [|? ? Hnk Hnt]; subst. constructor; cbn [fst snd].
    - cbn [upd_app upd_node s_apps rm_state r_queue_unreserve upd_queues]. rewrite E1. reflexivity.
    - cbn [upd_app upd_node s_nodes rm_state r_queue_unreserve upd_queues]. rewrite E2. reflexivity.
    - exact E3.
    - rewrite E4, Nat2N.inj_succ. lia.
    - cbn [rm_state r_queue_unreserve upd_queues upd_app upd_node s_queues]. rewrite E5, map_map. apply map_ext. intros q0. unfold qmap. rewrite Eq.
      destruct (q_id q0 =? q) eqn:E; [|rewrite E; reflexivity]. cbn [q_set_reserved q_id q_reserved]. rewrite E, iter_succ_r. reflexivity.
    - eapply LFrame_ids0; [|exact HIc]. rewrite <- Ecs. unfold cstep. apply LFrame_cancel.
    - rewrite <- Ecs. unfold cstep. apply r_cancel_rinv; assumption.
    - exists (ap_set_res b (drop_key k (ap_reservations b))). split; [|split; [exact Eq|split]].
      + unfold find_app. cbn [rm_state r_queue_unreserve upd_queues upd_app upd_node s_apps]. rewrite (find_map ap_id) by (intros b0; destruct (ap_id b0 =? id); reflexivity).
        fold (find_app c id). rewrite <- Eid at 1. rewrite Eb. cbn [option_map]. rewrite Eid, N.eqb_refl. reflexivity.
      + intros p' Hp'. cbn [ap_set_res ap_reservations]. apply in_drop_key. split; [apply Hsub; right; exact Hp'|].
        intros C. apply Hnk. cbn [snd]. rewrite <- C. apply in_map. exact Hp'.
      + intros r Hr. cbn [ap_set_res ap_reservations] in Hr. apply in_drop_key in Hr. destruct Hr as [Hr Hne]. destruct (Hsup r Hr) as [<-|Hin]; [exfalso; apply Hne; reflexivity|exact Hin].
    - exact Hnt. Qed.

  Lemma sim_run : forall t u c d, Sim u c d t -> exists c' d', Sim (fold_left ustep t u) c' d' [] /\ d' = (d + length t)%nat.
  Proof. induction t as [|p t IH]; intros u c d H; [exists c, d; split; [exact H|cbn [length]; lia]|]. cbn [fold_left].
    destruct (IH _ _ _ (sim_step u c d p t H)) as (c' & d' & H' & E). exists c', d'. split; [exact H'|]. cbn [length]. lia. Qed.

  Lemma sim_init : Sim (s, 0) s 0 (ap_reservations a).
  Proof. constructor; cbn [fst snd]; auto.
    - rewrite <- (map_id (s_queues s)) at 1. apply map_ext. intros q0. unfold qmap. cbn [iter]. destruct (q_id q0 =? q); [destruct q0; reflexivity|reflexivity].
    - exists a. split; [apply find_app_of; assumption|]. auto.
    - apply (r_akeys _ s HR a Ha). Qed.

  (* C09d.7: the loop of removeAsksInternal("") preserves the invariant and leaves the application without reservations *)
  Theorem r_cancel_all_rinv : Ids0 (r_cancel_all s a) /\ RInv (r_cancel_all s a) /\
    (forall b, In b (s_apps (r_cancel_all s a)) -> ap_id b = id -> ap_reservations b = []).
  Proof. destruct (sim_run _ _ _ _ sim_init) as (c & d & [E1 E2 E3 E4 E5 HIc HRc (b & Eb & Eq & _ & Hsup) _] & Ed). cbn [plus] in Ed. subst d.
    assert (Efold : fold_left (fun acc p => let '(s', n) := r_unreserve_internal (fst acc) (ap_id a) (fst p) (snd p) in (s', snd acc + n)) (ap_reservations a) (s, 0)
                    = fold_left ustep (ap_reservations a) (s, 0)) by reflexivity.
    unfold r_cancel_all. rewrite Efold. destruct (fold_left ustep (ap_reservations a) (s, 0)) as [s1 tot]. cbn [fst snd] in *.
    assert (Eapps : s_apps (r_queue_unreserve s1 (ap_queue a) (ap_id a) tot) = s_apps c) by exact E1.
    assert (Enodes : s_nodes (r_queue_unreserve s1 (ap_queue a) (ap_id a) tot) = s_nodes c) by exact E2.
    assert (Equeues : s_queues (r_queue_unreserve s1 (ap_queue a) (ap_id a) tot) = s_queues c).
    { cbn [r_queue_unreserve upd_queues s_queues]. rewrite E3, E5. apply map_ext_in. intros q0 Hq0. unfold qmap. fold q id.
      destruct (N.eqb_spec (q_id q0) q) as [E|E]; [|reflexivity]. f_equal. rewrite E4. symmetry.
      apply qr_iter; [apply (r_qnodup _ s HR q0 Hq0)|apply (r_qcount _ s HR a q0 Ha Hq0 E)|intros e He; apply (r_qhome _ s HR q0 e Hq0 He)]. }
    split; [destruct HIc as [I1 I2]; constructor; rewrite ?Eapps, ?Enodes; assumption|]. split; [apply (RInvE_same None c); assumption|].
    intros b0 Hb0 Eb0. rewrite Eapps in Hb0. destruct (find_app_in _ _ _ Eb) as [Hb Eidb].
    assert (b0 = b) by (apply (nodup_key_eq ap_id (s_apps c)); auto; [apply (id0_apps c HIc)|congruence]). subst b0.
    destruct (ap_reservations b) as [|r t]; [reflexivity|]. destruct (Hsup r (or_introl eq_refl)). Qed.
End CancelAll.
