(* C09 bridge, part 2: clauses 902 (views_queue) and 906 (one_per_node_unless_required); the oracle [c09_state] split into its
   structural part [c09_struct] (901 902 904 905 906 908: everything [RInv] speaks about) and the partition counter part
   (903 views_counter, 991 counter_ge_card); the forward theorems
     RInv s -> WF9 s -> c09_struct s = []                     (no hypothesis on the counter)
     RInv s -> WF9 s -> NresOK s -> c09_state s = []          (NresOK: number of reservations <= s_nres, the counter fact of
                                                               Core/Reserve.v stated on the operational state). *)
From Coq Require Import List ZArith NArith Bool Lia ZifyBool.
From YK Require Import Base.Res Core.Obs Core.Reserve Oracles.CoreC09 Core.Model4ProofsR1 Core.Model4ProofsBr1.
Import ListNotations.
Open Scope N_scope.
Set Default Timeout 30.

(* ------------------------------------------------------------------ 906: the node rule *)
Lemma node_entries_proj s n : Ids0 s -> In n (s_nodes s) -> node_entries (proj09 s) (on_id n) = node_tr n.
Proof. intros HI Hn. unfold node_entries. rewrite rv_node_eq. apply (filter_flat_map_key on_id node_tr r_node); [apply (id0_nodes s HI)|exact Hn|].
  intros b x Hx. unfold node_tr in Hx. apply in_map_iff in Hx. destruct Hx as (p & <- & _). reflexivity. Qed.

Lemma other_elem {A} (l : list A) p : NoDup l -> (2 <= length l)%nat -> In p l -> exists p', In p' l /\ p <> p'.
Proof. intros Hn Hl Hp. destruct l as [|a [|b t]]; cbn [length] in Hl; try lia.
  inversion Hn as [|? ? Ha Ht]; subst. destruct Hp as [<-|Hp].
  - exists b. split; [right; left; reflexivity|]. intros C. apply Ha. left. auto.
  - exists a. split; [left; reflexivity|]. intros C. apply Ha. rewrite <- C. exact Hp. Qed.

(* the ask behind a reservation of a node that carries several: it requires THAT node ([r_nrule]: it requires a node,
   [r_out]: not another one) *)
Lemma ask_req_of s n aid k : Ids s -> RInv s -> In n (s_nodes s) -> In (aid, k) (on_reservations n) -> required_ask s (aid, k) ->
  ask_req (proj09 s) aid k = on_id n.
Proof. intros HI HR Hn Hp (a & x & Ha & Eid & Hx & Ek & Hreq). cbn [fst snd] in Eid, Ek. subst aid k.
  destruct (r_na _ s HR n (ap_id a) (oa_key x) Hn Hp) as (a' & Ha' & Eid' & Hin).
  assert (a' = a) by (apply (nodup_key_eq ap_id (s_apps s)); auto; apply (id_apps s HI)). subst a'.
  destruct (r_out _ s HR a (on_id n) (oa_key x) Ha Hin (exempt_none _ _)) as (x' & Hx' & Ek' & _ & Hr').
  assert (x' = x) by (apply (nodup_key_eq oa_key (ap_requests a)); auto; apply (id_reqkeys s HI a Ha)). subst x'.
  unfold ask_req. rewrite (find_ask_proj s a x HI Ha Hx). cbn [ra_req]. destruct Hr' as [C|E]; [contradiction|exact E]. Qed.

Theorem rinv_one_per_node s : RInv s -> Ids s -> one_per_node_unless_required (proj09 s) = true.
Proof. intros HR HI. unfold one_per_node_unless_required. rewrite forallb_forall, rv_node_eq. intros x Hx.
  apply in_node_tr in Hx. destruct Hx as (n & aid & k & Hn & Hp & ->). cbn [r_node]. rewrite (node_entries_proj s n (ids_ids0 s HI) Hn).
  assert (G : (2 <= length (on_reservations n))%nat -> forallb (fun e => ask_req (proj09 s) (r_app e) (r_key e) =? on_id n) (node_tr n) = true).
  { intros Hl. apply forallb_forall. intros e He. unfold node_tr in He. apply in_map_iff in He. destruct He as ([aid' k'] & <- & Hp'). cbn [r_app r_key fst snd].
    apply N.eqb_eq. apply (ask_req_of s n aid' k' HI HR Hn Hp').
    destruct (other_elem (on_reservations n) (aid', k') (NoDup_of_map snd _ (r_nkeys _ s HR n Hn)) Hl Hp') as (p2 & Hp2 & Hne).
    apply (r_nrule _ s HR n (aid', k') p2 Hn Hp' Hp2 Hne). }
  unfold node_tr in *. destruct (on_reservations n) as [|p1 [|p2 t]]; cbn [map]; [reflexivity|reflexivity|].
  apply G. cbn [length]. lia. Qed.

(* ------------------------------------------------------------------ 902: the queue counters *)
Lemma card_proj s a : Ids0 s -> ComplClean s -> In a (s_apps s) -> card (rv_app (proj09 s)) (ap_id a) = N.of_nat (length (ap_reservations a)).
Proof. intros HI Hc Ha. unfold card. rewrite (rv_app_live s Hc). rewrite (filter_flat_map_key ap_id app_tr r_app); [|apply (id0_apps s HI)|exact Ha|].
  - unfold app_tr. rewrite map_length. reflexivity.
  - intros b x Hx. unfold app_tr in Hx. apply in_map_iff in Hx. destruct Hx as (p & <- & _). reflexivity. Qed.

Theorem rinv_views_queue s : RInv s -> Ids0 s -> ComplClean s -> QueuesReg s -> views_queue (proj09 s) = true.
Proof. intros HR HI Hc Hq. unfold views_queue. rewrite andb_true_iff, !forallb_forall. split.
  - intros x Hx. rewrite (rv_app_live s Hc) in Hx. apply in_app_tr in Hx. destruct Hx as (a & nid & k & Ha & Hp & ->). cbn [r_app].
    rewrite (card_proj s a HI Hc Ha). apply N.eqb_eq. unfold queue_count. rewrite rv_queue_eq.
    destruct (find (fun x => fst x =? ap_id a) (flat_map q_reserved (s_queues s))) as [en|] eqn:E.
    + apply find_flat_map_some in E. destruct E as (q & Hqin & Eq). pose proof (find_some _ _ Eq) as [Hen Efst]. apply N.eqb_eq in Efst.
      destruct (r_qhome _ s HR q en Hqin Hen) as (_ & a' & Ha' & E1 & E2).
      assert (a' = a) by (apply (nodup_key_eq ap_id (s_apps s)); auto; [apply (id0_apps s HI)|congruence]). subst a'.
      pose proof (r_qcount _ s HR a q Ha Hqin (eq_sym E2)) as Hcnt. unfold qcount in Hcnt. rewrite Eq in Hcnt. auto.
    + exfalso. destruct (Hq a Ha) as (q & Hqin & Eqid). pose proof (find_flat_map_none _ _ _ E q Hqin) as En.
      pose proof (r_qcount _ s HR a q Ha Hqin Eqid) as Hcnt. unfold qcount in Hcnt. rewrite En in Hcnt.
      destruct (ap_reservations a); [contradiction|]. cbn [length] in Hcnt. lia.
  - intros e He. rewrite rv_queue_eq in He. apply in_flat_map in He. destruct He as (q & Hqin & Hen).
    destruct (r_qhome _ s HR q e Hqin Hen) as (Hpos & a & Ha & E1 & E2). rewrite <- E1. rewrite (card_proj s a HI Hc Ha).
    pose proof (r_qcount _ s HR a q Ha Hqin (eq_sym E2)) as Hcnt. unfold qcount in Hcnt. rewrite E1 in Hcnt.
    rewrite (find_in_nodup fst (q_reserved q) e (r_qnodup _ s HR q Hqin) Hen) in Hcnt.
    rewrite andb_true_iff, N.ltb_lt, N.eqb_eq. auto. Qed.

(* ------------------------------------------------------------------ the oracle, split *)
(* [c09_state] without the two clauses about the partition counter *)
Definition c09_struct (s : ostate) : list N :=
  let v := proj09 s in
  (if views_app_node v then [] else [901]) ++ (if views_queue v then [] else [902]) ++ (if one_per_ask v then [] else [904]) ++
  (if only_outstanding v then [] else [905]) ++ (if one_per_node_unless_required v then [] else [906]) ++ (if cleanup v then [] else [908]).

Lemma if_nil9 (b : bool) (x : N) : (if b then [] else [x]) = [] <-> b = true.
Proof. destruct b; split; intros; congruence. Qed.
Lemma app_nil9 {A} (l1 l2 : list A) : l1 ++ l2 = [] <-> l1 = [] /\ l2 = [].
Proof. split; [apply app_eq_nil|]. intros [-> ->]. reflexivity. Qed.

Lemma c09_struct_spec s : c09_struct s = [] <->
  views_app_node (proj09 s) = true /\ views_queue (proj09 s) = true /\ one_per_ask (proj09 s) = true /\ only_outstanding (proj09 s) = true /\
  one_per_node_unless_required (proj09 s) = true /\ cleanup (proj09 s) = true.
Proof. unfold c09_struct. cbv zeta. rewrite !app_nil9, !if_nil9. tauto. Qed.
Lemma c09_state_spec s : c09_state s = [] <->
  c09_struct s = [] /\ views_counter (proj09 s) = true /\ counter_ge_card (proj09 s) = true.
Proof. rewrite c09_struct_spec. unfold c09_state. cbv zeta. rewrite !app_nil9, !if_nil9. tauto. Qed.
(* 991 implies 903 *)
Lemma counter_ge_card_views_counter v : counter_ge_card v = true -> views_counter v = true.
Proof. unfold counter_ge_card, views_counter. destruct (rv_app v); [reflexivity|]. cbn [length]. intros H. apply Z.leb_le in H. apply Z.leb_le. lia. Qed.
Lemma c09_state_spec' s : c09_state s = [] <-> c09_struct s = [] /\ counter_ge_card (proj09 s) = true.
Proof. rewrite c09_state_spec. split; [tauto|]. intros [H1 H2]. split; [exact H1|]. split; [apply counter_ge_card_views_counter|]; exact H2. Qed.

(* the counter fact on the operational state: the partition counter is at least the number of reservations held by live applications *)
Definition NresOK (s : ostate) : Prop := (Z.of_nat (length (flat_map ap_reservations (s_apps s))) <= s_nres s)%Z.
Lemma length_flat_map_app_tr l : length (flat_map app_tr l) = length (flat_map ap_reservations l).
Proof. induction l as [|a t IH]; [reflexivity|]. cbn [flat_map]. rewrite !app_length, IH. unfold app_tr. rewrite map_length. reflexivity. Qed.
Lemma nres_ok_counter s : ComplClean s -> (counter_ge_card (proj09 s) = true <-> NresOK s).
Proof. intros Hc. unfold counter_ge_card, NresOK. rewrite (rv_app_live s Hc), length_flat_map_app_tr. cbn [proj09 rv_part]. apply Z.leb_le. Qed.

(* ------------------------------------------------------------------ the bridge *)
Theorem rinv_oracle_struct s : RInv s -> WF9 s -> c09_struct s = [].
Proof. intros HR [HI Hc Hq]. apply c09_struct_spec. pose proof (ids_ids0 s HI) as HI0.
  split; [apply rinv_views_app_node; assumption|]. split; [apply rinv_views_queue; assumption|]. split; [apply rinv_one_per_ask; assumption|].
  split; [apply rinv_only_outstanding; assumption|]. split; [apply rinv_one_per_node; assumption|apply rinv_cleanup; assumption]. Qed.
Theorem rinv_oracle s : RInv s -> WF9 s -> NresOK s -> c09_state s = [].
Proof. intros HR HW HN. apply c09_state_spec'. split; [apply rinv_oracle_struct; assumption|]. apply nres_ok_counter; [apply (w_compl s HW)|exact HN]. Qed.
(* what [RInv] leaves open is exactly the counter: the oracle reports nothing but 903 / 991 *)
Theorem rinv_oracle_only_counter s : RInv s -> WF9 s -> forall k, In k (c09_state s) -> k = 903 \/ k = 991.
Proof. intros HR HW k Hk. pose proof (rinv_oracle_struct s HR HW) as H. apply c09_struct_spec in H. destruct H as (H1 & H2 & H3 & H4 & H5 & H6).
  unfold c09_state in Hk. cbv zeta in Hk. rewrite H1, H2, H3, H4, H5, H6 in Hk. cbn [app] in Hk.
  destruct (views_counter (proj09 s)), (counter_ge_card (proj09 s)); cbn in Hk; intuition. Qed.

(* [RInv] depends on the three object lists only *)
Lemma rinv_ext e s s' : s_apps s' = s_apps s -> s_nodes s' = s_nodes s -> s_queues s' = s_queues s -> RInvE e s -> RInvE e s'.
Proof. intros Ea En Eq [H1 H2 H3 H4 H5 H6 H7 H8 H9]. constructor; unfold required_ask in *; rewrite ?Ea, ?En, ?Eq; auto. Qed.
