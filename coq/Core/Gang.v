(* C06 - gang scheduling.  Component model of the placeholder bookkeeping of ONE application and of the
   ledgers its placeholders and real allocations touch (its queue, its user, the nodes).  Definitions only.

   Code modelled: objects/application.go (AddAllocationAsk / addPlaceholderData, addAllocationInternal,
   removeAllocationInternal, ReplaceAllocation, tryPlaceholderAllocate, removeAsksInternal,
   timeoutPlaceholderProcessing, timeoutStateTimer, RemoveAllAllocations, the FSM callbacks that arm and clear
   the timers), partition.go (removeAllocation with its PLACEHOLDER_REPLACED branch, removeNodeAllocations with
   the in-flight handling, removeApplication), objects/node.go (ReplaceAllocation, RemoveAllocation).

   Modelling decisions (notes/gang.md):
   * an allocation object is ONE record with two membership flags (requests map / allocations map): the Go maps
     share the object, so flags and links set through one map are seen through the other;
   * the zero tests that steer the code (IsZero(allocatedPlaceholder), IsZero(allocatedResource), IsZero(pending))
     are read off the object list (no allocated placeholder / no real allocation / no pending ask): every ask
     has a non-zero resource (UpdateAllocation rejects others);
   * whether the last allocated placeholder completes the placeholder ask of the application
     (Equals(allocatedPlaceholder, placeholderAsk)) is an input of the allocation operation;
   * ledgers are functions of the resource type with exact integer arithmetic (saturation is C18's subject). *)
From Coq Require Import List ZArith NArith Bool.
From YK Require Import Base.Res Core.Obs Core.GangPred Core.MaxApps.
Import ListNotations.
Open Scope N_scope.

Record gal := mkG {
  g_key : N; g_tg : N; g_res : res; g_node : N; g_ph : bool;
  g_allocated : bool; g_released : bool; g_preempted : bool;
  g_link : N;                      (* Allocation.release: key of the other half of an in-flight swap, 0 = nil *)
  g_req : bool; g_alloc : bool }.  (* member of Application.requests / Application.allocations *)

Definition ledger := tid -> Z.
Record gst := mkGS {
  gs_state : N; gs_hard : bool; gs_pd : phdata; gs_objs : list gal;
  gs_phtimer : bool; gs_statetimer : bool;
  gs_nodes : list (N * N);         (* (node, key): what the nodes list for this application *)
  gs_queue : ledger; gs_user : ledger; gs_nodeuse : N -> ledger }.

Inductive gout := GRel (key ty : N) | GNew (key node : N) | GState (st : N).
Inductive goutcome := GOk (s : gst) (evs : list gout) | GRefused | GCrash.

Definition g_init (hard : bool) : gst :=
  mkGS ST_New hard [] [] false false [] (fun _ => 0%Z) (fun _ => 0%Z) (fun _ _ => 0%Z).

(* ---- state updates ---- *)
Definition set_objs (s : gst) (l : list gal) : gst :=
  mkGS (gs_state s) (gs_hard s) (gs_pd s) l (gs_phtimer s) (gs_statetimer s) (gs_nodes s) (gs_queue s) (gs_user s) (gs_nodeuse s).
Definition set_pd (s : gst) (d : phdata) : gst :=
  mkGS (gs_state s) (gs_hard s) d (gs_objs s) (gs_phtimer s) (gs_statetimer s) (gs_nodes s) (gs_queue s) (gs_user s) (gs_nodeuse s).
Definition set_timers (s : gst) (ph st : bool) : gst :=
  mkGS (gs_state s) (gs_hard s) (gs_pd s) (gs_objs s) ph st (gs_nodes s) (gs_queue s) (gs_user s) (gs_nodeuse s).
Definition set_state_g (s : gst) (x : N) : gst :=
  mkGS x (gs_hard s) (gs_pd s) (gs_objs s) (gs_phtimer s) (gs_statetimer s) (gs_nodes s) (gs_queue s) (gs_user s) (gs_nodeuse s).
Definition set_ledgers (s : gst) (nodes : list (N * N)) (q u : ledger) (nu : N -> ledger) : gst :=
  mkGS (gs_state s) (gs_hard s) (gs_pd s) (gs_objs s) (gs_phtimer s) (gs_statetimer s) nodes q u nu.

Definition ladd (l : ledger) (r : res) : ledger := fun k => (l k + getz r k)%Z.
Definition lsub (l : ledger) (r : res) : ledger := fun k => (l k - getz r k)%Z.
Definition nadd (nu : N -> ledger) (n : N) (r : res) : N -> ledger := fun m => if m =? n then ladd (nu m) r else nu m.
Definition nsub (nu : N -> ledger) (n : N) (r : res) : N -> ledger := fun m => if m =? n then lsub (nu m) r else nu m.

Definition find_obj (s : gst) (k : N) : option gal := find (fun o => g_key o =? k) (gs_objs s).
(* the maps hold one object per key: the first object with the key is the one find_obj returns *)
Definition upd_obj (k : N) (f : gal -> gal) (l : list gal) : list gal := upd_first (fun o => g_key o =? k) f l.

Definition o_set_alloc (b : bool) (o : gal) := mkG (g_key o) (g_tg o) (g_res o) (g_node o) (g_ph o) (g_allocated o) (g_released o) (g_preempted o) (g_link o) (g_req o) b.
Definition o_set_req (b : bool) (o : gal) := mkG (g_key o) (g_tg o) (g_res o) (g_node o) (g_ph o) (g_allocated o) (g_released o) (g_preempted o) (g_link o) b (g_alloc o).
Definition o_set_allocated (b : bool) (o : gal) := mkG (g_key o) (g_tg o) (g_res o) (g_node o) (g_ph o) b (g_released o) (g_preempted o) (g_link o) (g_req o) (g_alloc o).
Definition o_set_released (b : bool) (o : gal) := mkG (g_key o) (g_tg o) (g_res o) (g_node o) (g_ph o) (g_allocated o) b (g_preempted o) (g_link o) (g_req o) (g_alloc o).
Definition o_set_link (x : N) (o : gal) := mkG (g_key o) (g_tg o) (g_res o) (g_node o) (g_ph o) (g_allocated o) (g_released o) (g_preempted o) x (g_req o) (g_alloc o).
Definition o_set_node (n : N) (o : gal) := mkG (g_key o) (g_tg o) (g_res o) n (g_ph o) (g_allocated o) (g_released o) (g_preempted o) (g_link o) (g_req o) (g_alloc o).

(* the zero tests of the code *)
Definition has_ph_alloc (s : gst) : bool := existsb (fun o => g_alloc o && g_ph o) (gs_objs s).
Definition has_real_alloc (s : gst) : bool := existsb (fun o => g_alloc o && negb (g_ph o)) (gs_objs s).
Definition has_pending (s : gst) : bool := existsb (fun o => g_req o && negb (g_allocated o)) (gs_objs s).

(* ---- placeholder data ---- *)
Definition pd_has (d : phdata) (tg : N) : bool := existsb (fun e => fst e =? tg) d.
Definition pd_upd (tg : N) (f : Z * (Z * Z) -> Z * (Z * Z)) (d : phdata) : phdata :=
  map (fun e => if fst e =? tg then (fst e, f (snd e)) else e) d.
(* addPlaceholderData *)
Definition pd_add (tg : N) (d : phdata) : phdata :=
  let d1 := if pd_has d tg then d else d ++ [(tg, (0, (0, 0)))%Z] in
  pd_upd tg (fun c => (fst c + 1, snd c)%Z) d1.
Definition pd_replaced_inc (tg : N) (d : phdata) : phdata := pd_upd tg (fun c => (fst c, (fst (snd c) + 1, snd (snd c)))%Z) d.
Definition pd_timedout_inc (tg : N) (d : phdata) : phdata := pd_upd tg (fun c => (fst c, (fst (snd c), snd (snd c) + 1))%Z) d.

(* ---- FSM with the timer callbacks ---- *)
(* leave_state: clearStateTimer; enter_Completing / Completed / Failed: setStateTimer;
   enter_Completed: clearPlaceholderTimer; enter_Completed / enter_Failed: cleanupAsks *)
Definition gfire (s : gst) (e : mev) : gst * list gout :=
  match fsm (gs_state s) e with
  | None => (s, [])
  | Some st' =>
      (* looplab/fsm: an event whose destination is the current state runs no leave/enter callbacks
         (NoTransitionError, mapped to success by HandleApplicationEvent) *)
      if st' =? gs_state s then (s, []) else
      let arm := (st' =? ST_Completing) || (st' =? ST_Completed) || (st' =? ST_Failed) || (st' =? ST_Rejected) in
      let pht := if st' =? ST_Completed then false else gs_phtimer s in
      let s1 := set_timers (set_state_g s st') pht arm in
      let s2 := if (st' =? ST_Completed) || (st' =? ST_Failed)
                then set_objs s1 (map (o_set_req false) (gs_objs s1)) else s1 in
      (s2, [GState st'])
  end.
Definition gfire_opt (s : gst) (e : option mev) : gst * list gout :=
  match e with Some ev => gfire s ev | None => (s, []) end.

(* ---- addAllocationInternal ---- *)
Definition add_alloc_internal (s : gst) (replaced : bool) (o : gal) (full : bool) : gst * list gout :=
  if g_ph o then
    let s1 := if negb (has_ph_alloc s) && negb (gs_phtimer s) && (gs_state s =? ST_Accepted)
              then set_timers s true (gs_statetimer s) else s in     (* initPlaceholderTimer *)
    let s2 := set_ledgers s1 (gs_nodes s1) (gs_queue s1) (ladd (gs_user s1) (g_res o)) (gs_nodeuse s1) in
    let s3 := set_objs s2 (upd_obj (g_key o) (o_set_alloc true) (gs_objs s2)) in
    if full then gfire s3 EvRun else (s3, [])
  else
    let '(s1, ev) := if negb replaced || has_real_alloc s || (gs_state s =? ST_Completing)
                     then gfire s EvRun else (s, []) in
    let s2 := set_ledgers s1 (gs_nodes s1) (gs_queue s1) (ladd (gs_user s1) (g_res o)) (gs_nodeuse s1) in
    (set_objs s2 (upd_obj (g_key o) (o_set_alloc true) (gs_objs s2)), ev).

(* ---- removeAllocationInternal ---- *)
Definition remove_alloc_internal (s : gst) (k ty : N) : gst * list gout * option gal :=
  match find_obj s k with
  | None => (s, [], None)
  | Some o =>
      if negb (g_alloc o) then (s, [], None) else
      if g_ph o then
        let d := if pd_has (gs_pd s) (g_tg o)
                 then (if ty =? TT_PlaceholderReplaced then pd_replaced_inc (g_tg o) (gs_pd s) else pd_timedout_inc (g_tg o) (gs_pd s))
                 else gs_pd s in
        let s1 := set_pd s d in
        (* allocatedPlaceholder -= res; the zero test sees the value without this placeholder *)
        let others := existsb (fun x => g_alloc x && g_ph x && negb (g_key x =? k)) (gs_objs s1) in
        let s2 := if others then s1 else set_timers s1 false (gs_statetimer s1) in
        let ev := if others then None
                  else if ((gs_state s2 =? ST_Completing) && negb (gs_statetimer s2)) || (gs_state s2 =? ST_Failing) ||
                          (gs_state s2 =? ST_Resuming) || (negb (has_pending s2) && negb (has_real_alloc s2))
                       then Some (if gs_state s2 =? ST_Failing then EvFail
                                  else if gs_state s2 =? ST_Resuming then EvRun else EvComplete)
                       else None in
        let s3 := set_ledgers s2 (gs_nodes s2) (gs_queue s2) (lsub (gs_user s2) (g_res o)) (gs_nodeuse s2) in
        let '(s4, evs) := gfire_opt s3 ev in
        (set_objs s4 (upd_obj k (o_set_alloc false) (gs_objs s4)), evs, Some o)
      else
        (* allocatedResource -= res first; then hasZeroAllocations *)
        let others := existsb (fun x => g_alloc x && negb (g_ph x) && negb (g_key x =? k)) (gs_objs s) in
        let ev := if negb (has_pending s) && negb others then Some EvComplete else None in
        let s3 := set_ledgers s (gs_nodes s) (gs_queue s) (lsub (gs_user s) (g_res o)) (gs_nodeuse s) in
        let '(s4, evs) := gfire_opt s3 ev in
        (set_objs s4 (upd_obj k (o_set_alloc false) (gs_objs s4)), evs, Some o)
  end.

(* removeAsksInternal(key) / removeAsksInternal("") restricted to what matters here (reservations are C09) *)
Definition asks_state_check (s : gst) : gst * list gout :=
  if negb (has_pending s) && negb (has_real_alloc s) && negb (gs_state s =? ST_Failing) &&
     negb (gs_state s =? ST_Completing) && negb (has_ph_alloc s)
  then gfire s EvComplete else (s, []).
Definition remove_ask (s : gst) (k : N) : gst * list gout :=
  if negb (existsb g_req (gs_objs s)) then (s, []) else
  asks_state_check (set_objs s (upd_obj k (o_set_req false) (gs_objs s))).
Definition remove_all_asks_g (s : gst) : gst * list gout :=
  if negb (existsb g_req (gs_objs s)) then (s, []) else
  asks_state_check (set_objs s (map (o_set_req false) (gs_objs s))).

Definition node_del (n k : N) (l : list (N * N)) : list (N * N) := filter (fun p => negb ((fst p =? n) && (snd p =? k))) l.
Definition on_node (s : gst) (n k : N) : bool := existsb (fun p => (fst p =? n) && (snd p =? k)) (gs_nodes s).

(* ---- operations ---- *)
Inductive gop :=
| GAddAsk (k tg : N) (r : res) (ph : bool)
| GAllocate (k node : N) (full : bool)            (* tryNode success for a pending ask (placeholder or real); an allocation
                                                     recovered from the shim is GAddAsk followed by GAllocate *)
| GSwap (real ph : N) (other : option N)          (* tryPlaceholderAllocate: same node / another node *)
| GCancelLarger (real ph : N)                     (* tryPlaceholderAllocate: real ask larger than the placeholder *)
| GRelease (k ty : N)                             (* release sent by the shim (confirmation or own initiative) *)
| GTimeout                                        (* placeholder timer fires *)
| GStateTimeout                                   (* state timer fires (Completing) *)
| GRemoveApp                                      (* partition.removeApplication *)
| GNodeRemove (n : N).                            (* partition.removeNode, the part touching this application *)

Definition all_keys (a b : res) : list tid := keys a ++ keys b.

(* PartitionContext.removeAllocation for one key *)
Definition release_step (s : gst) (k ty : N) : gst * list gout :=
  let '(s1, ev1, removed) :=
    if ty =? TT_PlaceholderReplaced then
      (* ReplaceAllocation *)
      let '(sa, eva, ph) := remove_alloc_internal s k TT_PlaceholderReplaced in
      match ph with
      | None => (sa, eva, None)
      | Some p =>
          if g_link p =? 0 then (sa, eva, Some p) else
          match find_obj sa (g_link p) with
          | None => (sa, eva, Some p)
          | Some r =>
              (* the link of a placeholder always points to a real ask (tryPlaceholderAllocate) *)
              if g_ph r then (sa, eva, Some p) else
              let '(sb, evb) := add_alloc_internal sa true r false in
              (set_objs sb (upd_obj (g_key r) (o_set_link 0) (gs_objs sb)), eva ++ evb, Some p)
          end
      end
    else remove_alloc_internal s k ty in
  match removed with
  | None =>
      if ty =? TT_Timeout then (s1, ev1) else let '(s2, ev2) := remove_ask s1 k in (s2, ev1 ++ ev2)
  | Some p =>
      (* node and queue *)
      let confirmed := if (ty =? TT_PlaceholderReplaced) && negb (g_link p =? 0)
                       then match find_obj s (g_link p) with Some r => if g_ph r then None else Some r | None => None end
                       else None in
      let '(s2, announce) :=
        match confirmed with
        | Some r =>
            let ks := all_keys (g_res r) (g_res p) in
            let delta := fun t => (getz (g_res r) t - getz (g_res p) t)%Z in
            let hasneg := existsb (fun t => (delta t <? 0)%Z) ks in
            (* total.SubFrom(delta) when delta has a negative value; queue.Dec(total) when total is strictly positive *)
            let q := if hasneg && forallb (fun t => (delta t <=? 0)%Z) ks
                     then (fun t => (gs_queue s1 t + delta t)%Z) else gs_queue s1 in
            if g_node r =? g_node p
            then (set_ledgers s1 ((g_node p, g_key r) :: node_del (g_node p) k (gs_nodes s1)) q (gs_user s1)
                              (fun m => if m =? g_node p then (fun t => (gs_nodeuse s1 m t + delta t)%Z) else gs_nodeuse s1 m),
                  [GNew (g_key r) (g_node r)])
            else (set_ledgers s1 (node_del (g_node p) k (gs_nodes s1)) q (gs_user s1) (nsub (gs_nodeuse s1) (g_node p) (g_res p)),
                  [GNew (g_key r) (g_node r)])
        | None =>
            if on_node s1 (g_node p) k
            then (set_ledgers s1 (node_del (g_node p) k (gs_nodes s1)) (lsub (gs_queue s1) (g_res p)) (gs_user s1)
                              (nsub (gs_nodeuse s1) (g_node p) (g_res p)),
                  if (ty =? TT_Timeout) || (ty =? TT_Preempted) then [] else [GRel k TT_StoppedByRM])
            else (s1, if (ty =? TT_Timeout) || (ty =? TT_Preempted) then [] else [GRel k TT_StoppedByRM])
        end in
      if ty =? TT_Timeout then (s2, ev1 ++ announce)
      else let '(s3, ev3) := remove_ask s2 k in (s3, ev1 ++ announce ++ ev3)
  end.

(* timeoutPlaceholderProcessing *)
Definition timeout_step (s : gst) : gst * list gout :=
  if ((gs_state s =? ST_Running) || (gs_state s =? ST_Completing)) && has_ph_alloc s then
    (* case 1 *)
    let rel := filter (fun o => g_alloc o && g_ph o && negb (g_released o) && negb (g_preempted o)) (gs_objs s) in
    let objs := map (fun o => if g_alloc o && g_ph o && negb (g_released o) && negb (g_preempted o) then o_set_released true o else o) (gs_objs s) in
    (set_timers (set_objs s objs) false (gs_statetimer s), map (fun o => GRel (g_key o) TT_Timeout) rel)
  else
    (* case 2 *)
    let '(s1, ev1) := gfire s (if gs_hard s then EvFail else EvResume) in
    let rel_allocs := filter (fun o => g_alloc o && negb (g_preempted o)) (gs_objs s1) in
    let rel_asks := filter (fun o => g_req o && negb (g_allocated o) && negb (g_preempted o)) (gs_objs s1) in
    let d := fold_left (fun d o => if pd_has d (g_tg o) then pd_timedout_inc (g_tg o) d else d) rel_asks (gs_pd s1) in
    let objs := map (fun o => if (g_alloc o || (g_req o && negb (g_allocated o))) && negb (g_preempted o)
                              then o_set_released true o else o) (gs_objs s1) in
    let s2 := set_pd (set_objs s1 objs) d in
    let '(s3, ev3) := remove_all_asks_g s2 in
    (set_timers s3 false (gs_statetimer s3),
     ev1 ++ ev3 ++ map (fun o => GRel (g_key o) TT_Timeout) rel_allocs ++ map (fun o => GRel (g_key o) TT_Timeout) rel_asks).

(* timeoutStateTimer for the Completing state *)
Definition state_timeout_step (s : gst) : gst * list gout :=
  if negb (gs_state s =? ST_Completing) then (s, []) else
  if has_ph_alloc s then
    let rel := filter (fun o => g_alloc o && g_ph o && negb (g_released o) && negb (g_preempted o)) (gs_objs s) in
    let objs := map (fun o => if g_alloc o && g_ph o && negb (g_released o) && negb (g_preempted o) then o_set_released true o else o) (gs_objs s) in
    (set_timers (set_objs s objs) (gs_phtimer s) false, map (fun o => GRel (g_key o) TT_Timeout) rel)
  else gfire s EvComplete.

(* partition.removeApplication *)
Definition remove_app_step (s : gst) : gst * list gout :=
  let '(s1, ev1) := remove_all_asks_g s in
  let allocs := filter g_alloc (gs_objs s1) in
  let d := fold_left (fun d o => if g_ph o && pd_has d (g_tg o) then pd_timedout_inc (g_tg o) d else d) allocs (gs_pd s1) in
  let s2 := set_pd (set_objs s1 (map (o_set_alloc false) (gs_objs s1))) d in
  let '(s3, ev3) := if negb (has_pending s2) then gfire s2 EvComplete else (s2, []) in
  let s4 := set_timers s3 false false in
  (* queue.RemoveApplication drops the application's usage; the nodes drop every returned allocation *)
  let q := fold_left (fun l o => lsub l (g_res o)) allocs (gs_queue s4) in
  let u := fold_left (fun l o => lsub l (g_res o)) allocs (gs_user s4) in
  let nu := fold_left (fun f o => if on_node s4 (g_node o) (g_key o) then nsub f (g_node o) (g_res o) else f) allocs (gs_nodeuse s4) in
  let nodes := filter (fun p => negb (existsb (fun o => (g_key o =? snd p) && (g_node o =? fst p)) allocs)) (gs_nodes s4) in
  (set_ledgers s4 nodes q u nu, ev1 ++ ev3).

(* removeNodeAllocations for one allocation key listed by the node *)
Definition node_remove_one (n : N) (acc : gst * list gout) (k : N) : gst * list gout :=
  let '(s, evs) := acc in
  match find_obj s k with
  | None => acc
  | Some o =>
      let other := if g_link o =? 0 then None else find_obj s (g_link o) in
      match other with
      | Some x =>
          if g_ph o && negb (g_node o =? g_node x) then
            (* placeholder here, real allocation on another node: confirm the replacement *)
            let '(s1, ev1) := release_step s k TT_PlaceholderReplaced in
            (* release_step announces the confirmed allocation; removeNode announces the placeholder as released *)
            (s1, evs ++ ev1 ++ [GRel k TT_StoppedByRM])
          else
            (* unlink, give the real ask back to the scheduler, then remove what the node held *)
            let realk := if g_ph o then g_key x else g_key o in
            let objs := upd_obj (g_key x) (o_set_link 0) (upd_obj k (o_set_link 0) (gs_objs s)) in
            let objs := upd_obj realk (fun y => if g_ph y then y else o_set_allocated false y) objs in
            let s0 := set_objs s objs in
            if g_alloc o then
              let '(s1, ev1, _) := remove_alloc_internal s0 k TT_Unknown in
              (set_ledgers s1 (node_del n k (gs_nodes s1)) (lsub (gs_queue s1) (g_res o)) (gs_user s1) (nsub (gs_nodeuse s1) n (g_res o)),
               evs ++ ev1 ++ [GRel k TT_StoppedByRM])
            else (set_ledgers s0 (node_del n k (gs_nodes s0)) (gs_queue s0) (gs_user s0) (nsub (gs_nodeuse s0) n (g_res o)), evs)
      | None =>
          if g_alloc o then
            let '(s1, ev1, _) := remove_alloc_internal s k TT_Unknown in
            (set_ledgers s1 (node_del n k (gs_nodes s1)) (lsub (gs_queue s1) (g_res o)) (gs_user s1) (nsub (gs_nodeuse s1) n (g_res o)),
             evs ++ ev1 ++ [GRel k TT_StoppedByRM])
          else (set_ledgers s (node_del n k (gs_nodes s)) (gs_queue s) (gs_user s) (nsub (gs_nodeuse s) n (g_res o)), evs)
      end
  end.

Definition new_obj (k tg : N) (r : res) (ph : bool) : gal := mkG k tg r 0 ph false false false 0 true false.

Definition gstep (s : gst) (o : gop) : goutcome :=
  match o with
  | GAddAsk k tg r ph =>
      if existsb (fun x => (g_key x =? k) && (g_req x || g_alloc x)) (gs_objs s) then GRefused else
      let '(s1, ev) := if (gs_state s =? ST_New) || (gs_state s =? ST_Completing) then gfire s EvRun else (s, []) in
      let s2 := set_objs s1 (filter (fun x => negb (g_key x =? k)) (gs_objs s1) ++ [new_obj k tg r ph]) in
      GOk (if ph then set_pd s2 (pd_add tg (gs_pd s2)) else s2) ev
  | GAllocate k node full =>
      match find_obj s k with
      | None => GRefused
      | Some x =>
          if negb (g_req x) || g_allocated x then GRefused else
          let objs := upd_obj k (fun y => o_set_node node (o_set_allocated true y)) (gs_objs s) in
          let s1 := set_ledgers (set_objs s objs) ((node, k) :: gs_nodes s) (ladd (gs_queue s) (g_res x)) (gs_user s) (nadd (gs_nodeuse s) node (g_res x)) in
          let '(s2, ev) := add_alloc_internal s1 false x full in
          GOk s2 (ev ++ [GNew k node])
      end
  | GSwap rk pk other =>
      match find_obj s rk, find_obj s pk with
      | Some r, Some p =>
          if negb (has_ph_alloc s) then GRefused else
          if negb (g_req r) || g_ph r || (g_tg r =? 0) || g_allocated r then GRefused else
          if negb (g_alloc p) || negb (g_ph p) || g_released p || g_preempted p || negb (g_tg r =? g_tg p) then GRefused else
          if negb (swap_size_ok (g_res p) (g_res r)) then GRefused else
          let node := match other with Some n => n | None => g_node p end in
          let objs := upd_obj rk (fun y => o_set_node node (o_set_link pk (o_set_allocated true y))) (gs_objs s) in
          let objs := upd_obj pk (fun y => o_set_released true (o_set_link rk y)) objs in
          let s1 := set_objs s objs in
          let s2 := match other with
                    | Some n => set_ledgers s1 ((n, rk) :: gs_nodes s1) (gs_queue s1) (gs_user s1) (nadd (gs_nodeuse s1) n (g_res r))
                    | None => s1 end in
          GOk s2 [GRel pk TT_PlaceholderReplaced]
      | _, _ => GRefused
      end
  | GCancelLarger rk pk =>
      match find_obj s rk, find_obj s pk with
      | Some r, Some p =>
          if negb (g_req r) || g_ph r || (g_tg r =? 0) || g_allocated r then GRefused else
          if negb (g_alloc p) || negb (g_ph p) || g_released p || g_preempted p || negb (g_tg r =? g_tg p) then GRefused else
          if swap_size_ok (g_res p) (g_res r) then GRefused else
          GOk (set_objs s (upd_obj pk (o_set_released true) (gs_objs s))) [GRel pk TT_Timeout]
      | _, _ => GRefused
      end
  | GRelease k ty => let '(s1, ev) := release_step s k ty in GOk s1 ev
  | GTimeout => if gs_phtimer s then let '(s1, ev) := timeout_step s in GOk s1 ev else GRefused
  | GStateTimeout => if gs_statetimer s then let '(s1, ev) := state_timeout_step s in GOk s1 ev else GRefused
  | GRemoveApp => let '(s1, ev) := remove_app_step s in GOk s1 ev
  | GNodeRemove n =>
      let ks := map snd (filter (fun p => fst p =? n) (gs_nodes s)) in
      let '(s1, ev) := fold_left (node_remove_one n) ks (s, []) in GOk s1 ev
  end.

Fixpoint grun (s : gst) (ops : list gop) : option gst :=
  match ops with
  | [] => Some s
  | o :: t => match gstep s o with GOk s1 _ => grun s1 t | _ => None end
  end.

(* ---- predicates of the property on a model state ---- *)
(* placeholders of a task group that still exist: allocated, or pending asks *)
Definition present (s : gst) (tg : N) : Z :=
  Z.of_nat (length (filter (fun o => g_ph o && (g_tg o =? tg) && (g_alloc o || (g_req o && negb (g_allocated o)))) (gs_objs s))).
Definition terminated (s : gst) : bool := (gs_state s =? ST_Completed) || (gs_state s =? ST_Failed).
Definition no_placeholder_left (s : gst) : bool :=
  negb (has_ph_alloc s) &&
  forallb (fun p => match find_obj s (snd p) with Some o => negb (g_ph o) | None => true end) (gs_nodes s).

(* the behaviour of timeoutPlaceholderProcessing before fix ef5c585: placeholderData[tg] was dereferenced
   without a check for every pending ask *)
Definition timeout_crashes_before_fix (s : gst) : bool :=
  negb (((gs_state s =? ST_Running) || (gs_state s =? ST_Completing)) && has_ph_alloc s) &&
  existsb (fun o => g_req o && negb (g_allocated o) && negb (g_preempted o) && negb (pd_has (gs_pd s) (g_tg o))) (gs_objs s).
