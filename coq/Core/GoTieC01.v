(* Tie theorems (C01, ledger part also C03): Node.refreshAvailableResource, CanAllocate, FitInNode, IsSchedulable,
   IsReserved and the ledger parts of addAllocationInternal (AddAllocation / TryAddAllocation), RemoveAllocation,
   ReplaceAllocation GENERATED from pkg/scheduler/objects/node.go (Generated/GoObjects.v) equal the node steps
   n_refresh / n_add / n_remove (Core/Model.v) and n_replace (Core/Model3.v) on the four resource ledgers
   (total, occupied, allocated, available) and the schedulable flag ([n_rep]; the allocation map of the Go node is
   not part of the representation: the model keeps two lists, its lookups appear as hypotheses). *)
From Coq Require Import String List ZArith NArith Bool Lia ZifyBool ZifyN ZifyNat.
From YK Require Import Base.Int64 Base.F64 Base.Res Base.ResSpec Base.ResLemmas Core.Obs Core.Model Core.Model3
  Generated.GoPrelude Generated.GoResources Generated.GoObjects Base.GoTieLib Base.GoTieRep Base.GoTieClone Base.GoTieRes Base.GoTieFit Base.GoTiePred.
Import ListNotations.
Open Scope Z_scope.

(* ================================================================ C01: node available resource and fit checks *)
Definition n_rep (sn : GoObjects.Node) (n : onode) : Prop :=
  Node_totalResource sn = Some (mkR (on_total n)) /\ Node_allocatedResource sn = Some (mkR (on_allocated n)) /\
  Node_occupiedResource sn = Some (mkR (on_occupied n)) /\ Node_availableResource sn = Some (mkR (on_available n)) /\
  Node_schedulable sn = on_sched n.

Lemma wf_fold_set (g : res -> tid * Z -> Z) (l m : res) : wf m ->
  wf (fold_left (fun out kv => set (fst kv) (g out kv) out) l m).
Proof. revert m. induction l as [|e t IH]; intros m H; cbn; [exact H|]. apply IH. now apply wf_set. Qed.

Theorem gotie_refreshAvailableResource sn n : n_rep sn n -> wf (on_total n) ->
  exists sn', GoObjects.refreshAvailableResource sn = GOk sn' /\ n_rep sn' (n_refresh n).
Proof.
  intros (Ht & Ha & Ho & Hv & Hs) Hw. unfold GoObjects.refreshAvailableResource.
  rewrite Ht. rewrite (clone_ok _ Hw). cbn [gbind]. cbv zeta.
  cbn [set_Node_availableResource Node_availableResource Node_allocatedResource Node_occupiedResource Node_totalResource].
  rewrite Ha.
  pose proof (gotie_SubFrom (Some (on_total n)) (Some (on_allocated n))) as E1. cbn [toR option_map] in E1.
  rewrite E1. cbn [gbind Res.SubFrom toR option_map].
  rewrite Ho.
  pose proof (gotie_SubFrom (Some (subFrom (on_total n) (on_allocated n))) (Some (on_occupied n))) as E2.
  cbn [toR option_map] in E2. rewrite E2. cbn [gbind Res.SubFrom toR option_map].
  assert (Hw2 : wf (subFrom (subFrom (on_total n) (on_allocated n)) (on_occupied n))).
  { unfold subFrom. apply wf_fold_set. apply wf_fold_set. exact Hw. }
  pose proof (gotie_Prune (Some (subFrom (subFrom (on_total n) (on_allocated n)) (on_occupied n))) Hw2) as E3.
  cbn [toR option_map] in E3. rewrite E3. cbn [gbind toR option_map].
  pose proof (gotie_StrictlyGreaterThanOrEquals
                (Some (Res.Prune (subFrom (subFrom (on_total n) (on_allocated n)) (on_occupied n)))) None) as E4.
  cbn [toR option_map] in E4. rewrite E4. cbn [gbind].
  eexists. split.
  - destruct (negb _); reflexivity.
  - unfold n_rep, n_refresh, n_with; cbn. auto.
Qed.

Theorem gotie_CanAllocate sn n r : n_rep sn n ->
  GoObjects.CanAllocate sn (toR r) = GOk (Res.FitIn (Some (on_available n)) r).
Proof.
  intros (Ht & Ha & Ho & Hv & Hs). unfold GoObjects.CanAllocate. rewrite Hv.
  pose proof (gotie_FitIn (Some (on_available n)) r) as E. cbn [toR option_map] in E. now rewrite E.
Qed.
Theorem gotie_FitInNode sn n r : n_rep sn n ->
  GoObjects.FitInNode sn (toR r) = GOk (Res.FitIn (Some (on_total n)) r).
Proof.
  intros (Ht & Ha & Ho & Hv & Hs). unfold GoObjects.FitInNode. rewrite Ht.
  pose proof (gotie_FitIn (Some (on_total n)) r) as E. cbn [toR option_map] in E. now rewrite E.
Qed.
Theorem gotie_IsSchedulable sn n : n_rep sn n -> GoObjects.IsSchedulable sn = on_sched n.
Proof. intros (Ht & Ha & Ho & Hv & Hs). exact Hs. Qed.
Theorem gotie_IsReserved sn : GoObjects.IsReserved sn = negb (Nat.eqb (length (Node_reservations sn)) 0).
Proof. unfold GoObjects.IsReserved. destruct (Node_reservations sn); reflexivity. Qed.

(* ================================================================ ledger parts of add / remove / replace *)
Lemma wf_subFrom (a b : res) : wf a -> wf (subFrom a b).
Proof. unfold subFrom. apply wf_fold_set. Qed.
Lemma wf_addTo (a b : res) : wf a -> wf (addTo a b).
Proof. unfold addTo. apply wf_fold_set. Qed.

Ltac node_cbn :=
  cbn [set_Node_allocations set_Node_occupiedResource set_Node_allocatedResource set_Node_availableResource
       set_Node_totalResource set_Node_schedulable set_Node_reservations
       Node_totalResource Node_occupiedResource Node_allocatedResource Node_availableResource Node_allocations
       Node_schedulable Node_reservations gbind].
Ltac res_step :=
  repeat match goal with
  | |- context [GoResources.AddTo (Some (mkR ?a)) (Some (mkR ?b))] =>
      let E := fresh "E" in pose proof (gotie_AddTo (Some a) (Some b)) as E; cbn [toR option_map] in E; rewrite E; clear E;
      cbn [gbind Res.AddTo toR option_map]
  | |- context [GoResources.SubFrom (Some (mkR ?a)) (Some (mkR ?b))] =>
      let E := fresh "E" in pose proof (gotie_SubFrom (Some a) (Some b)) as E; cbn [toR option_map] in E; rewrite E; clear E;
      cbn [gbind Res.SubFrom toR option_map]
  end.

(* addAllocationInternal, the part under the lock: AddAllocation is force = true, TryAddAllocation force = false *)
Theorem gotie_addAllocation_ledger sn n a x force res0 :
  n_rep sn n -> wf (on_available n) -> wf (on_occupied n) ->
  Allocation_allocatedResource a = Some (mkR (oa_res x)) ->
  exists sn' b, GoObjects.addAllocationInternal_frag sn (Some a) force res0 (oa_foreign x) = GOk (sn', b) /\
    match n_add n x force with
    | Some n' => b = true /\ n_rep sn' n'
    | None => b = false /\ sn' = sn
    end.
Proof.
  intros (Ht & Ha & Ho & Hv & Hs) Hwa Hwo Hr. unfold GoObjects.addAllocationInternal_frag, n_add.
  cbn [deref gbind]. unfold GoObjects.GetAllocatedResource, GoObjects.GetAllocationKey. rewrite Hr, Hv. cbv zeta.
  pose proof (gotie_FitIn (Some (on_available n)) (Some (oa_res x))) as EF. cbn [toR option_map] in EF.
  assert (EG : (if force then GOk true else (tmp12 <- GoResources.FitIn (Some (mkR (on_available n))) (Some (mkR (oa_res x))) ;; GOk tmp12))
               = GOk (force || Res.FitIn (Some (on_available n)) (Some (oa_res x)))).
  { destruct force; [reflexivity|]. rewrite EF. reflexivity. }
  rewrite EG. cbn [gbind].
  destruct (force || Res.FitIn (Some (on_available n)) (Some (oa_res x))); [|eexists; eexists; split; [reflexivity|auto]].
  destruct sn as [tot occ alc avl als sch rsv]; cbn in Ht, Ha, Ho, Hv, Hs; subst.
  node_cbn.
  destruct (oa_foreign x).
  - pose proof (gotie_Add (Some (on_occupied n)) (Some (oa_res x)) Hwo) as EA. cbn [toR option_map] in EA.
    rewrite EA. node_cbn. res_step. node_cbn.
    pose proof (gotie_Prune (Some (subFrom (on_available n) (oa_res x))) (wf_subFrom _ _ Hwa)) as EP.
    cbn [toR option_map] in EP.
    node_cbn. rewrite EP. cbn [gbind].
    eexists; eexists; split; [reflexivity|]. split; [reflexivity|]. unfold n_rep, n_with; cbn. auto.
  - res_step. node_cbn. res_step.
    pose proof (gotie_Prune (Some (subFrom (on_available n) (oa_res x))) (wf_subFrom _ _ Hwa)) as EP.
    cbn [toR option_map] in EP.
    node_cbn. rewrite EP. cbn [gbind].
    eexists; eexists; split; [reflexivity|]. split; [reflexivity|]. unfold n_rep, n_with; cbn. auto.
Qed.

(* RemoveAllocation, the part under the lock *)
Definition n_removed (n : onode) (foreign : bool) (r : res) : onode :=
  if foreign
  then n_with n (Res.Sub (Some (on_occupied n)) (Some r)) (on_allocated n) (addTo (on_available n) r) (on_allocs n) (on_foreign n)
  else n_with n (on_occupied n) (Res.Prune (subFrom (on_allocated n) r)) (addTo (on_available n) r) (on_allocs n) (on_foreign n).

Theorem gotie_removeAllocation_ledger sn n key a r alloc0 :
  n_rep sn n -> wf (on_allocated n) -> wf (on_occupied n) ->
  mget (Node_allocations sn) key = Some (Some a) -> Allocation_allocatedResource a = Some (mkR r) ->
  exists sn', GoObjects.RemoveAllocation_frag sn key alloc0 = GOk (sn', Some a) /\
              n_rep sn' (n_removed n (Allocation_foreign a) r).
Proof.
  intros (Ht & Ha & Ho & Hv & Hs) Hwa Hwo Hm Hr. unfold GoObjects.RemoveAllocation_frag, n_removed.
  unfold mget0. rewrite Hm. cbv zeta. cbn [is_nil negb deref gbind].
  unfold GoObjects.IsForeign, GoObjects.GetAllocatedResource. rewrite Hr.
  destruct sn as [tot occ alc avl als sch rsv]; cbn in Ht, Ha, Ho, Hv, Hs; subst.
  node_cbn.
  destruct (Allocation_foreign a).
  - pose proof (gotie_Sub (Some (on_occupied n)) (Some r) Hwo) as ES. cbn [toR option_map] in ES.
    rewrite ES. node_cbn. res_step.
    eexists; split; [reflexivity|]. unfold n_rep, n_with; cbn. auto.
  - res_step. node_cbn.
    pose proof (gotie_Prune (Some (subFrom (on_allocated n) r)) (wf_subFrom _ _ Hwa)) as EP.
    cbn [toR option_map] in EP. rewrite EP. node_cbn. res_step.
    eexists; split; [reflexivity|]. unfold n_rep, n_with; cbn. auto.
Qed.
(* n_removed is what Model.n_remove does for a key it finds in the one or the other list *)
Definition n_rep_eq (a b : onode) : Prop :=
  on_total a = on_total b /\ on_allocated a = on_allocated b /\ on_occupied a = on_occupied b /\
  on_available a = on_available b /\ on_sched a = on_sched b.
Theorem gotie_removeAllocation_model n k x :
  (find_alloc (on_allocs n) k = Some x -> n_rep_eq (n_remove n k) (n_removed n false (oa_res x))) /\
  (find_alloc (on_allocs n) k = None -> find_alloc (on_foreign n) k = Some x ->
   n_rep_eq (n_remove n k) (n_removed n true (oa_res x))).
Proof.
  unfold n_remove, n_removed, n_rep_eq. split.
  - intros ->. unfold n_with; cbn. auto.
  - intros -> ->. unfold n_with; cbn. auto.
Qed.
Theorem gotie_removeAllocation_missing sn key alloc0 :
  mget0 (None : option Allocation) (Node_allocations sn) key = None ->
  GoObjects.RemoveAllocation_frag sn key alloc0 = GOk (sn, None).
Proof. intros H. unfold GoObjects.RemoveAllocation_frag. rewrite H. reflexivity. Qed.

(* ReplaceAllocation: the three ledger statements *)
Theorem gotie_replaceAllocation_ledger sn n delta :
  n_rep sn n -> wf (on_allocated n) -> wf (on_available n) ->
  exists sn' before, GoObjects.ReplaceAllocation_frag sn (Some (mkR delta)) = GOk (sn', before) /\
    forall k x n', n_replace n k x delta = Some n' -> n_rep sn' n'.
Proof.
  intros (Ht & Ha & Ho & Hv & Hs) Hwa Hwv. unfold GoObjects.ReplaceAllocation_frag.
  destruct sn as [tot occ alc avl als sch rsv]; cbn in Ht, Ha, Ho, Hv, Hs; subst.
  node_cbn. rewrite (clone_ok _ Hwa). cbn [gbind]. cbv zeta. res_step.
  node_cbn. res_step.
  pose proof (gotie_Prune (Some (subFrom (on_available n) delta)) (wf_subFrom _ _ Hwv)) as EP.
  cbn [toR option_map] in EP. node_cbn. rewrite EP. cbn [gbind].
  eexists; eexists; split; [reflexivity|].
  intros k x n' H. unfold n_replace in H. destruct (find_alloc (on_allocs n) k); [|discriminate].
  inversion H; subst. unfold n_rep, n_with; cbn. auto.
Qed.
