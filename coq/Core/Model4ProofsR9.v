(* C09 over the operational model, part 9: histories.  Along every run of [m_step4] (from a state that satisfies the books and
   the invariant of C03 and the reservation invariant) the reservation invariant holds.  The uniqueness of identifiers and
   allocation keys [Ids] is part of [Inv] (Core/BooksDefs.v), which the run keeps by the theorems of C03 / C03d. *)
From Coq Require Import List ZArith NArith Bool Lia ZifyBool.
From YK Require Import Base.Int64 Base.Res Core.Obs Core.Model Core.Model2 Core.Ledger Core.Model4
  Core.Model4ProofsF Core.Model4ProofsR1 Core.Model4ProofsR2 Core.Model4ProofsR3 Core.Model4ProofsR4 Core.Model4ProofsR5 Core.Model4ProofsR6
  Core.Model4ProofsR7 Core.Model4ProofsR8 Core.Model4ProofsR10 Core.Model4ProofsR11 Core.Model4ProofsR12.
From YK Require Import Core.NodeProofs Core.BooksLemmas Core.BooksDefs Core.Model2ProofsB6 Core.Model4ProofsB Core.Model4ProofsB2.
Import ListNotations.
Set Default Timeout 30.

Lemma inv_ids s : Inv s -> Ids s.
Proof. intros [I1 I2 I3 I4 I5 I6 I7 I8 I9 I10]. constructor; auto.
  - apply (tk_ids s I3).
  - intros a Ha. apply (aw_req_keys a (I5 a Ha)). Qed.

(* the C09-specific step hypotheses along a run *)
Fixpoint Run9 (deny : list (N * N)) (s : ostate) (steps : list ostep) : Prop :=
  match steps with
  | [] => True
  | st :: t => step_ok9' s st /\ match m_step4 deny s st with Some s' => Run9 deny s' t | None => True end
  end.

(* [fire_ok9] and [release_ok9] follow from the invariants of C03 *)
Lemma release_ok9_of_inv s st : Inv s -> RInv s -> release_ok9 s st.
Proof. intros HI HR. unfold release_ok9. destruct (st_op st); auto. intros a x Ea Ex p Hp Ek.
  destruct (Model4ProofsR1.find_app_in _ _ _ Ea) as [Ha _]. destruct (find_alloc_some _ _ _ Ex) as [Hx Ekx]. pose proof (inv_app_wf s HI a Ha) as W.
  destruct (aw_allocreq a W x Hx) as (r0 & Hr0 & Er0 & Eal). destruct p as [nid k]. cbn [snd] in Ek. subst k.
  destruct (r_out _ s HR a nid key Ha Hp (exempt_none _ _)) as (y & Hy & Ey & Eny & _).
  assert (y = r0) by (apply (nodup_key_eq oa_key (ap_requests a)); auto; [apply (aw_req_keys a W)|congruence]). congruence. Qed.

Theorem rinv_reachable4_partial deny : forall steps s0, Books s0 -> Inv s0 -> RInv s0 -> RunOK4 deny s0 steps -> Run9 deny s0 steps ->
  RInv (m_run4 deny s0 steps) /\ Books (m_run4 deny s0 steps) /\ Inv (m_run4 deny s0 steps).
Proof. induction steps as [|st t IH]; intros s0 HB HI HR HRun H9; [auto|]. cbn [m_run4 RunOK4 Run9] in *. destruct HRun as (HBd & HS2 & HS4 & HRun). destruct H9 as [Hok9 H9].
  destruct (m_step4 deny s0 st) as [s1|] eqn:E; [|auto].
  destruct (m_step4_preserves_partial deny s0 st s1 HB HI HBd HS2 HS4 E) as [HI1 HB1].
  apply IH; try assumption. eapply m_step4_rinv_partial'; [exact E|apply inv_ids; exact HI|exact HR|exact Hok9]. Qed.
