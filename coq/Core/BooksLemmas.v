(* C03, generic lemmas: vectors as functions (sums, exact saturating arithmetic under a bound), keyed lists
   (find / replace-by-key), allocation lists (put / delete / filter), state updaters of Core/Model.v
   characterised by lookup lemmas, and the ancestor path of a queue ([path_ids]) as a chain.
   Nothing here is specific to one operation of the model. *)
From Coq Require Import List ZArith NArith Bool Lia ZifyBool.
From YK Require Import Base.Int64 Base.Int64Laws Base.Res Base.ResSpec Base.ResLemmas Base.ResLaws Base.ResLaws2
  Base.ResLawsPred Core.Obs Core.Model Core.Ledger.
Import ListNotations.
Open Scope Z_scope.

(* ================================================================== 1. vectors as functions *)
Lemma getz_notin r k : ~ In k (keys r) -> getz r k = 0.
Proof. intros H. apply get_none_iff in H. unfold getz. rewrite H. reflexivity. Qed.
Lemma getz_nil k : getz [] k = 0. Proof. reflexivity. Qed.

Lemma sumz_nil k : sumz [] k = 0. Proof. reflexivity. Qed.
Lemma sumz_cons r l k : sumz (r :: l) k = getz r k + sumz l k.
Proof. reflexivity. Qed.
Lemma sumz_app l1 l2 k : sumz (l1 ++ l2) k = sumz l1 k + sumz l2 k.
Proof. induction l1 as [|r t IH]; [reflexivity|]. rewrite <- app_comm_cons, !sumz_cons, IH. lia. Qed.
Lemma sumz_notin l k : ~ In k (res_keys l) -> sumz l k = 0.
Proof. induction l as [|r t IH]; [reflexivity|]. intros H. rewrite sumz_cons.
  unfold res_keys in H. cbn [flat_map] in H. rewrite getz_notin, IH; [reflexivity| |];
    intros C; apply H; apply in_or_app; auto. Qed.

(* the executable check [res_is_sum] (Core/Obs.v) says: r is the component-wise sum of l *)
Lemma res_is_sum_spec r l : res_is_sum r l = true <-> forall k, getz r k = sumz l k.
Proof. unfold res_is_sum. rewrite forallb_forall. split.
  - intros H k. destruct (in_dec N.eq_dec k (keys r ++ res_keys l)) as [Hin|Hni].
    + apply Z.eqb_eq. apply H. assumption.
    + rewrite getz_notin, sumz_notin; [reflexivity| |]; intros C; apply Hni; apply in_or_app; auto.
  - intros H k _. apply Z.eqb_eq. apply H. Qed.

(* sums of non-negative vectors *)
Definition fnonneg (r : res) : Prop := forall k, 0 <= getz r k.
Lemma sumz_nonneg l k : (forall r, In r l -> fnonneg r) -> 0 <= sumz l k.
Proof. induction l as [|r t IH]; intros H; [cbn; lia|]. rewrite sumz_cons.
  pose proof (H r (or_introl eq_refl) k). specialize (IH (fun r' Hr => H r' (or_intror Hr))). lia. Qed.
Lemma sumz_ge_member l r k : (forall r', In r' l -> fnonneg r') -> In r l -> getz r k <= sumz l k.
Proof. induction l as [|r0 t IH]; intros H Hin; [contradiction|]. rewrite sumz_cons. destruct Hin as [->|Hin].
  - pose proof (sumz_nonneg t k (fun r' Hr => H r' (or_intror Hr))). lia.
  - pose proof (H r0 (or_introl eq_refl) k). specialize (IH (fun r' Hr => H r' (or_intror Hr)) Hin). lia. Qed.
Lemma sumz_all_zero l k : (forall r, In r l -> getz r k = 0) -> sumz l k = 0.
Proof. induction l as [|r t IH]; intros H; [reflexivity|]. rewrite sumz_cons, (H r (or_introl eq_refl)), IH; [reflexivity|].
  intros r' Hr. apply H. right. assumption. Qed.
Lemma sumz_zero_members l k : (forall r, In r l -> fnonneg r) -> sumz l k = 0 -> forall r, In r l -> getz r k = 0.
Proof. intros Hnn Hz r Hin. pose proof (sumz_ge_member l r k Hnn Hin). pose proof (Hnn r Hin k). lia. Qed.

(* entry-level non-negativity (what the oracle checks) *)
Definition rnonneg (r : res) : Prop := forall kv, In kv r -> 0 <= snd kv.
Lemma res_nonneg_spec r : res_nonneg r = true <-> rnonneg r.
Proof. unfold res_nonneg, rnonneg. rewrite forallb_forall. split; intros H kv Hin; specialize (H kv Hin); lia. Qed.
Lemma rnonneg_fnonneg r : rnonneg r -> fnonneg r.
Proof. intros H k. unfold getz. destruct (get r k) as [v|] eqn:E; [|lia]. apply get_some_in in E. apply (H (k, v) E). Qed.
Lemma fnonneg_rnonneg r : wf r -> fnonneg r -> rnonneg r.
Proof. intros Hwf H [k v] Hin. cbn [snd]. specialize (H k). unfold getz in H. rewrite (in_get r k v Hwf Hin) in H. exact H. Qed.
Lemma rnonneg_nil : rnonneg []. Proof. intros kv []. Qed.

Lemma all_zero_spec r : all_zero r = true <-> forall kv, In kv r -> snd kv = 0.
Proof. unfold all_zero. rewrite forallb_forall. split; intros H kv Hin; specialize (H kv Hin); lia. Qed.
Lemma all_zero_of_getz r : wf r -> (forall k, getz r k = 0) -> all_zero r = true.
Proof. intros Hwf H. apply all_zero_spec. intros [k v] Hin. cbn [snd]. specialize (H k). unfold getz in H.
  rewrite (in_get r k v Hwf Hin) in H. exact H. Qed.
Lemma all_zero_getz r k : all_zero r = true -> getz r k = 0.
Proof. intros H. unfold getz. destruct (get r k) as [v|] eqn:E; [|reflexivity]. apply get_some_in in E.
  apply (proj1 (all_zero_spec r) H (k, v) E). Qed.

(* ------------------------------------------------------------------ exact arithmetic under the bound *)
(* every entry is within [-2^62, 2^62): one addition or subtraction of two such numbers is exact in int64 *)
Definition bnd (z : Z) : Prop := - 2^62 <= z < 2^62.
Definition rb (r : res) : Prop := forall k, bnd (getz r k).
Ltac bn := unfold bnd, in_range, MIN, MAX in *; lia.
Lemma bnd_0 : bnd 0. Proof. bn. Qed.
Lemma rb_nil : rb []. Proof. intros k. apply bnd_0. Qed.
Lemma bnd_in_range z : bnd z -> in_range z. Proof. bn. Qed.

Lemma addTo_getz l r k : wf r -> rb l -> rb r -> getz (addTo l r) k = getz l k + getz r k.
Proof. intros Hwf Hl Hr. specialize (Hl k). specialize (Hr k). rewrite !getz_get in *. rewrite addTo_get by assumption.
  destruct (get r k) as [y|]; cbn [oz] in *; [|lia]. apply addVal_exact; bn. Qed.
Lemma subFrom_getz l r k : wf r -> rb l -> rb r -> getz (subFrom l r) k = getz l k - getz r k.
Proof. intros Hwf Hl Hr. specialize (Hl k). specialize (Hr k). rewrite !getz_get in *. rewrite subFrom_get by assumption.
  destruct (get r k) as [y|]; cbn [oz] in *; [|lia]. apply subVal_exact; bn. Qed.
Lemma addTo_wf l r : wf l -> wf (addTo l r).
Proof. intros H. unfold addTo. apply (fold_upd_wf addVal). assumption. Qed.
Lemma subFrom_wf l r : wf l -> wf (subFrom l r).
Proof. intros H. unfold subFrom. apply (fold_upd_wf subVal). assumption. Qed.

Lemma Add_exact l r k : wf r -> rb l -> rb r -> getz (Add (Some l) (Some r)) k = getz l k + getz r k.
Proof. apply addTo_getz. Qed.
Lemma Sub_exact l r k : wf r -> rb l -> rb r -> getz (Sub (Some l) (Some r)) k = getz l k - getz r k.
Proof. apply subFrom_getz. Qed.
Lemma PruneAdd_exact l r k : wf l -> wf r -> rb l -> rb r -> getz (Prune (Add (Some l) (Some r))) k = getz l k + getz r k.
Proof. intros Hl Hr Bl Br. rewrite Prune_getz by (apply Add_wf; exact Hl). apply Add_exact; assumption. Qed.
Lemma PruneSub_exact l r k : wf l -> wf r -> rb l -> rb r -> getz (Prune (Sub (Some l) (Some r))) k = getz l k - getz r k.
Proof. intros Hl Hr Bl Br. rewrite Prune_getz by (apply Sub_wf; exact Hl). apply Sub_exact; assumption. Qed.

(* SubErrorNegative as decPendingResource uses it: result pruned only when nothing went negative *)
Definition dec_pending_res (p r : res) : res :=
  let '(out, err) := SubErrorNegative (Some p) (Some r) in if err then out else Prune out.
Lemma SubElim_getz l r k : wf r -> rb l -> rb r ->
  getz (SubEliminateNegative (Some l) (Some r)) k = if has r k then Z.max 0 (getz l k - getz r k) else getz l k.
Proof. intros Hwf Hl Hr. specialize (Hl k). specialize (Hr k). unfold SubEliminateNegative.
  rewrite subNonNegative_unfold, subNN_fst. cbn [oget]. unfold has. rewrite !getz_get in *.
  rewrite (fold_upd_get (fun a y => nonneg (subVal a y))) by assumption.
  destruct (get r k) as [y|]; cbn [oz] in *; [|reflexivity]. rewrite nonneg_max, subVal_exact by bn. reflexivity. Qed.
Lemma dec_pending_res_getz p r k : wf p -> wf r -> rb p -> rb r -> getz r k <= getz p k ->
  getz (dec_pending_res p r) k = getz p k - getz r k.
Proof. intros Hp Hr Bp Br Hle. unfold dec_pending_res.
  pose proof (SubErrorNegative_res (Some p) (Some r)) as E. destruct (SubErrorNegative (Some p) (Some r)) as [out err].
  cbn [fst] in E. subst out.
  assert (G : getz (SubEliminateNegative (Some p) (Some r)) k = getz p k - getz r k).
  { rewrite SubElim_getz by assumption. unfold has, getz in *. destruct (get r k); lia. }
  destruct err; [exact G|]. rewrite Prune_getz; [exact G|]. apply SubEliminateNegative_wf. exact Hp. Qed.
Lemma dec_pending_res_wf p r : wf p -> wf (dec_pending_res p r).
Proof. intros Hp. unfold dec_pending_res.
  pose proof (SubErrorNegative_res (Some p) (Some r)) as E. destruct (SubErrorNegative (Some p) (Some r)) as [out err].
  cbn [fst] in E. subst out. pose proof (SubEliminateNegative_wf (Some p) (Some r) Hp). destruct err; [assumption|].
  apply Prune_wf. assumption. Qed.

(* a non-negative vector that is not "strictly greater than zero" is zero everywhere *)
Lemma not_sgtz_zero r : rnonneg r -> StrictlyGreaterThanZero (Some r) = false -> forall k, getz r k = 0.
Proof. intros Hnn H k. unfold StrictlyGreaterThanZero in H.
  assert (F : forallb (fun kv : tid * Z => negb (snd kv <? 0)) r = true).
  { apply forallb_forall. intros kv Hin. specialize (Hnn kv Hin). lia. }
  rewrite F in H. cbn [andb] in H. unfold getz. destruct (get r k) as [v|] eqn:E; [|reflexivity].
  apply get_some_in in E. pose proof (Hnn (k, v) E) as H0. cbn [snd] in H0.
  destruct (Z.eq_dec v 0) as [|Hne]; [assumption|]. exfalso.
  assert (X : existsb (fun kv : tid * Z => 0 <? snd kv) r = true).
  { apply existsb_exists. exists (k, v). split; [assumption|]. cbn [snd]. lia. }
  congruence. Qed.
Lemma sgtz_rnonneg r : StrictlyGreaterThanZero (Some r) = true -> rnonneg r.
Proof. unfold StrictlyGreaterThanZero. rewrite andb_true_iff. intros [H _] kv Hin.
  rewrite forallb_forall in H. specialize (H kv Hin). lia. Qed.

(* ================================================================== 2. lists with a key *)
Section Keyed.
  Context {A : Type} (key : A -> N).
  Definition findk (l : list A) (id : N) : option A := find (fun a => (key a =? id)%N) l.
  Definition updk (l : list A) (id : N) (f : A -> A) : list A := map (fun a => if (key a =? id)%N then f a else a) l.

  Lemma findk_some l id a : findk l id = Some a -> In a l /\ key a = id.
  Proof. unfold findk. intros H. apply find_some in H. destruct H as [H1 H2]. apply N.eqb_eq in H2. auto. Qed.
  Lemma findk_none l id : findk l id = None <-> ~ In id (map key l).
  Proof. unfold findk. split.
    - intros H C. apply in_map_iff in C. destruct C as (x & E & Hin). apply (find_none _ _ H) in Hin.
      rewrite E, N.eqb_refl in Hin. discriminate.
    - intros H. destruct (find _ l) as [a|] eqn:E; [|reflexivity]. apply find_some in E. destruct E as [E1 E2].
      apply N.eqb_eq in E2. exfalso. apply H. rewrite <- E2. apply in_map. assumption. Qed.
  Lemma nodup_key_inj l a b : NoDup (map key l) -> In a l -> In b l -> key a = key b -> a = b.
  Proof. induction l as [|x t IH]; [contradiction|]. cbn [map]. intros H Ha Hb E. inversion H as [|? ? Hni Hnd]; subst.
    destruct Ha as [->|Ha], Hb as [->|Hb]; [reflexivity| | |auto].
    - exfalso. apply Hni. rewrite E. apply in_map. assumption.
    - exfalso. apply Hni. rewrite <- E. apply in_map. assumption. Qed.
  Lemma findk_in l a : NoDup (map key l) -> In a l -> findk l (key a) = Some a.
  Proof. intros Hnd Hin. destruct (findk l (key a)) as [b|] eqn:E.
    - apply findk_some in E. destruct E as [Hb Ek]. f_equal. apply (nodup_key_inj l); auto.
    - apply findk_none in E. exfalso. apply E. apply in_map. assumption. Qed.
  Lemma nodup_map_nodup l : NoDup (map key l) -> NoDup l.
  Proof. induction l as [|x t IH]; [constructor|]. cbn [map]. intros H. inversion H as [|? ? Hni Hnd]; subst.
    constructor; [|auto]. intros C. apply Hni. apply in_map. assumption. Qed.

  Lemma in_updk l id f b : In b (updk l id f) <-> exists a, In a l /\ b = if (key a =? id)%N then f a else a.
  Proof. unfold updk. rewrite in_map_iff. split; intros (a & H1 & H2); exists a; auto. Qed.
  Lemma updk_keys l id f : (forall a, key a = id -> key (f a) = key a) -> map key (updk l id f) = map key l.
  Proof. intros Hf. unfold updk. rewrite map_map. apply map_ext. intros a. destruct (N.eqb_spec (key a) id); auto. Qed.
  Lemma updk_fresh l id f : ~ In id (map key l) -> updk l id f = l.
  Proof. intros H. unfold updk. rewrite <- (map_id l) at 2. apply map_ext_in. intros a Ha.
    destruct (N.eqb_spec (key a) id) as [E|E]; [|reflexivity]. exfalso. apply H. rewrite <- E. apply in_map. assumption. Qed.
  Lemma findk_updk l id f id' : (forall a, key a = id -> key (f a) = key a) ->
    findk (updk l id f) id' = option_map (fun a => if (key a =? id)%N then f a else a) (findk l id').
  Proof. intros Hf. unfold findk, updk. induction l as [|x t IH]; [reflexivity|]. cbn [map find].
    assert (E : key (if (key x =? id)%N then f x else x) = key x) by (destruct (N.eqb_spec (key x) id); auto).
    rewrite E. destruct (key x =? id')%N; [reflexivity|apply IH]. Qed.
  (* replacing the element with the key of a by a constant *)
  Lemma in_updk_const l a a' b : NoDup (map key l) -> In a l ->
    (In b (updk l (key a) (fun _ => a')) <-> b = a' \/ (In b l /\ key b <> key a)).
  Proof. intros Hnd Ha. rewrite in_updk. split.
    - intros (x & Hx & ->). destruct (N.eqb_spec (key x) (key a)); auto.
    - intros [->|[Hb Hne]]; [exists a; rewrite N.eqb_refl; auto|]. exists b. split; [assumption|].
      destruct (N.eqb_spec (key b) (key a)); [contradiction|reflexivity]. Qed.
  Lemma length_flat_map_updk {B} (h : A -> list B) l a a' : NoDup (map key l) -> In a l ->
    (length (flat_map h (updk l (key a) (fun _ => a'))) + length (h a) = length (flat_map h l) + length (h a'))%nat.
  Proof. induction l as [|x t IH]; [contradiction|]. cbn [map]. intros Hnd Hin. inversion Hnd as [|? ? Hni Hnd']; subst.
    unfold updk. cbn [map flat_map]. rewrite !app_length. fold (updk t (key a) (fun _ => a')). destruct Hin as [->|Hin].
    - rewrite N.eqb_refl. rewrite (updk_fresh t (key a) _ Hni). lia.
    - destruct (N.eqb_spec (key x) (key a)) as [E|E]; [exfalso; apply Hni; rewrite E; apply in_map; assumption|].
      specialize (IH Hnd' Hin). lia. Qed.
  Lemma findk_app l1 l2 id : findk (l1 ++ l2) id = match findk l1 id with Some a => Some a | None => findk l2 id end.
  Proof. unfold findk. induction l1 as [|x t IH]; [reflexivity|]. cbn [app find]. destruct (key x =? id)%N; auto. Qed.

  (* sums over a list in which the elements satisfying P are replaced *)
  Lemma map_cond_none (P : A -> bool) (f : A -> A) l :
    (forall x, In x l -> P x = false) -> map (fun x => if P x then f x else x) l = l.
  Proof. intros H. rewrite <- (map_id l) at 2. apply map_ext_in. intros a Ha. rewrite (H a Ha). reflexivity. Qed.
  Lemma sumz_map_cond_one (P : A -> bool) (f : A -> A) (h : A -> res) l a k :
    NoDup l -> In a l -> P a = true -> (forall x, In x l -> P x = true -> x = a) ->
    sumz (map h (map (fun x => if P x then f x else x) l)) k = sumz (map h l) k + (getz (h (f a)) k - getz (h a) k).
  Proof. induction l as [|x t IH]; [contradiction|]. intros Hnd Hin Pa Huniq. inversion Hnd as [|? ? Hni Hnd']; subst.
    cbn [map]. rewrite !sumz_cons. destruct Hin as [->|Hin].
    - rewrite Pa. rewrite map_cond_none; [lia|]. intros y Hy. destruct (P y) eqn:Py; [|reflexivity].
      exfalso. apply Hni. rewrite <- (Huniq y (or_intror Hy) Py). assumption.
    - assert (Px : P x = false).
      { destruct (P x) eqn:Px; [|reflexivity]. exfalso. apply Hni. rewrite (Huniq x (or_introl eq_refl) Px). assumption. }
      rewrite Px, IH; auto. lia. intros y Hy. apply Huniq. right. assumption. Qed.
  Lemma sumz_updk (h : A -> res) l id f a k : NoDup (map key l) -> In a l -> key a = id ->
    sumz (map h (updk l id f)) k = sumz (map h l) k + (getz (h (f a)) k - getz (h a) k).
  Proof. intros Hnd Hin E. unfold updk. apply (sumz_map_cond_one (fun x => (key x =? id)%N)).
    - apply nodup_map_nodup. assumption.
    - assumption.
    - apply N.eqb_eq. assumption.
    - intros x Hx Px. apply N.eqb_eq in Px. apply (nodup_key_inj l); auto. congruence. Qed.
End Keyed.

Lemma find_app_findk s id : find_app s id = findk ap_id (s_apps s) id. Proof. reflexivity. Qed.
Lemma find_node_findk s id : find_node s id = findk on_id (s_nodes s) id. Proof. reflexivity. Qed.
Lemma find_queue_findk s id : find_queue s id = findk q_id (s_queues s) id. Proof. reflexivity. Qed.
Lemma find_alloc_findk l id : find_alloc l id = findk oa_key l id. Proof. reflexivity. Qed.

Lemma memN_in x l : memN x l = true <-> In x l.
Proof. unfold memN. rewrite existsb_exists. split.
  - intros (y & Hy & E). apply N.eqb_eq in E. subst. assumption.
  - intros H. exists x. split; [assumption|apply N.eqb_refl]. Qed.
Lemma memN_false x l : memN x l = false <-> ~ In x l.
Proof. rewrite <- memN_in. destruct (memN x l); split; congruence. Qed.

Lemma filter_map_comm {A} (P : A -> bool) (g : A -> A) l : (forall x, P (g x) = P x) ->
  filter P (map g l) = map g (filter P l).
Proof. intros H. induction l as [|x t IH]; [reflexivity|]. cbn [map filter]. rewrite H. destruct (P x); cbn [map]; rewrite IH; reflexivity. Qed.
Lemma NoDup_map_filter {A B} (g : A -> B) (f : A -> bool) l : NoDup (map g l) -> NoDup (map g (filter f l)).
Proof. induction l as [|y t IH]; [auto|]. cbn [map filter]. intros H. inversion H as [|? ? Hni Hnd]; subst.
  destruct (f y); [|auto]. cbn [map]. constructor; [|auto]. intros C. apply Hni.
  apply in_map_iff in C. destruct C as (x & E & Hin). apply filter_In in Hin. rewrite <- E. apply in_map. tauto. Qed.
Lemma NoDup_map_inj {A B} (f : A -> B) l a b : NoDup (map f l) -> In a l -> In b l -> f a = f b -> a = b.
Proof. induction l as [|x t IH]; [contradiction|]. cbn [map]. intros H Ha Hb E. inversion H as [|? ? Hni Hnd]; subst.
  destruct Ha as [->|Ha], Hb as [->|Hb]; [reflexivity| | |auto].
  - exfalso. apply Hni. rewrite E. apply in_map. assumption.
  - exfalso. apply Hni. rewrite <- E. apply in_map. assumption. Qed.

(* ================================================================== 3. allocation lists *)
Definition akeys (l : list oalloc) : list N := map oa_key l.
Definition asum (l : list oalloc) (k : tid) : Z := sumz (map oa_res l) k.

Lemma find_alloc_some l key x : find_alloc l key = Some x -> In x l /\ oa_key x = key.
Proof. apply (findk_some oa_key). Qed.
Lemma find_alloc_none l key : find_alloc l key = None <-> ~ In key (akeys l).
Proof. apply (findk_none oa_key). Qed.
Lemma find_alloc_in l x : NoDup (akeys l) -> In x l -> find_alloc l (oa_key x) = Some x.
Proof. apply (findk_in oa_key). Qed.

Lemma in_del_alloc key l y : In y (del_alloc key l) <-> In y l /\ oa_key y <> key.
Proof. unfold del_alloc. rewrite filter_In. destruct (N.eqb_spec (oa_key y) key); cbn [negb]; intuition congruence. Qed.
Lemma in_put_alloc x l y : In y (put_alloc x l) <-> y = x \/ (In y l /\ oa_key y <> oa_key x).
Proof. change (put_alloc x l) with (x :: del_alloc (oa_key x) l). cbn [In]. rewrite in_del_alloc. intuition. Qed.
Lemma del_alloc_fresh l key : ~ In key (akeys l) -> del_alloc key l = l.
Proof. induction l as [|y t IH]; [reflexivity|]. cbn [akeys map In]. intros H. unfold del_alloc. cbn [filter].
  destruct (N.eqb_spec (oa_key y) key) as [E|E]; [exfalso; auto|]. cbn [negb]. f_equal. apply IH. auto. Qed.
Lemma akeys_del l key k' : In k' (akeys (del_alloc key l)) <-> In k' (akeys l) /\ k' <> key.
Proof. unfold akeys. rewrite !in_map_iff. split.
  - intros (x & E & Hin). apply in_del_alloc in Hin. destruct Hin as [Hin Hne]. split; [eauto|]. congruence.
  - intros [(x & E & Hin) Hne]. exists x. split; [assumption|]. apply in_del_alloc. split; [assumption|congruence]. Qed.
Lemma akeys_put x l k' : In k' (akeys (put_alloc x l)) <-> k' = oa_key x \/ In k' (akeys l).
Proof. change (put_alloc x l) with (x :: del_alloc (oa_key x) l). cbn [akeys map In]. fold (akeys (del_alloc (oa_key x) l)).
  rewrite akeys_del. destruct (N.eq_dec k' (oa_key x)); intuition. Qed.
Lemma akeys_del_nodup l key : NoDup (akeys l) -> NoDup (akeys (del_alloc key l)).
Proof. apply NoDup_map_filter. Qed.
Lemma akeys_put_nodup l x : NoDup (akeys l) -> NoDup (akeys (put_alloc x l)).
Proof. intros H. change (put_alloc x l) with (x :: del_alloc (oa_key x) l). cbn [akeys map]. constructor.
  - intros C. apply (akeys_del l (oa_key x) (oa_key x)) in C. tauto.
  - apply akeys_del_nodup. assumption. Qed.
Lemma akeys_filter_nodup (P : oalloc -> bool) l : NoDup (akeys l) -> NoDup (akeys (filter P l)).
Proof. apply NoDup_map_filter. Qed.

Lemma asum_nil k : asum [] k = 0. Proof. reflexivity. Qed.
Lemma asum_cons x l k : asum (x :: l) k = getz (oa_res x) k + asum l k.
Proof. reflexivity. Qed.
Lemma asum_del l key k : NoDup (akeys l) ->
  asum (del_alloc key l) k = asum l k - match find_alloc l key with Some x => getz (oa_res x) k | None => 0 end.
Proof. induction l as [|y t IH]; [reflexivity|]. cbn [akeys map]. intros H. inversion H as [|? ? Hni Hnd]; subst.
  unfold del_alloc, find_alloc. cbn [filter find]. destruct (N.eqb_spec (oa_key y) key) as [E|E]; cbn [negb].
  - subst key. fold (del_alloc (oa_key y) t). rewrite del_alloc_fresh by assumption. rewrite asum_cons. lia.
  - fold (del_alloc key t) (find_alloc t key). rewrite !asum_cons, IH by assumption. lia. Qed.

Lemma filter_del_comm (P : oalloc -> bool) key l : filter P (del_alloc key l) = del_alloc key (filter P l).
Proof. unfold del_alloc. induction l as [|y t IH]; [reflexivity|]. cbn [filter].
  destruct (negb (oa_key y =? key)%N) eqn:E1, (P y) eqn:E2; cbn [filter]; rewrite ?E1, ?E2, IH; reflexivity. Qed.
Lemma find_alloc_filter (P : oalloc -> bool) l key : NoDup (akeys l) ->
  find_alloc (filter P l) key = match find_alloc l key with Some x => if P x then Some x else None | None => None end.
Proof. intros Hnd. destruct (find_alloc l key) as [x|] eqn:E.
  - apply find_alloc_some in E. destruct E as [Hin <-]. destruct (P x) eqn:Px.
    + apply find_alloc_in; [apply akeys_filter_nodup; assumption|]. apply filter_In. auto.
    + apply find_alloc_none. intros C. unfold akeys in C. apply in_map_iff in C. destruct C as (y & Ey & Hy).
      apply filter_In in Hy. destruct Hy as [Hy Py]. assert (y = x) by (apply (nodup_key_inj oa_key l); auto). congruence.
  - apply find_alloc_none in E. apply find_alloc_none. intros C. apply E. unfold akeys in *. apply in_map_iff in C.
    destruct C as (y & Ey & Hy). apply filter_In in Hy. rewrite <- Ey. apply in_map. tauto. Qed.
Lemma asum_filter_del (P : oalloc -> bool) l key k : NoDup (akeys l) ->
  asum (filter P (del_alloc key l)) k =
  asum (filter P l) k - match find_alloc l key with Some x => if P x then getz (oa_res x) k else 0 | None => 0 end.
Proof. intros Hnd. rewrite filter_del_comm, asum_del by (apply akeys_filter_nodup; assumption).
  rewrite find_alloc_filter by assumption. destruct (find_alloc l key) as [x|]; [destruct (P x)|]; reflexivity. Qed.
Lemma asum_filter_put (P : oalloc -> bool) l x k : NoDup (akeys l) ->
  asum (filter P (put_alloc x l)) k =
  asum (filter P l) k + (if P x then getz (oa_res x) k else 0)
  - match find_alloc l (oa_key x) with Some y => if P y then getz (oa_res y) k else 0 | None => 0 end.
Proof. intros Hnd. change (put_alloc x l) with (x :: del_alloc (oa_key x) l). cbn [filter].
  destruct (P x); [rewrite asum_cons|]; rewrite asum_filter_del by assumption; lia. Qed.

Lemma length_del_alloc l key x : NoDup (akeys l) -> find_alloc l key = Some x -> S (length (del_alloc key l)) = length l.
Proof. induction l as [|y t IH]; [discriminate|]. cbn [akeys map]. intros H. inversion H as [|? ? Hni Hnd]; subst.
  unfold del_alloc, find_alloc. cbn [filter find]. destruct (N.eqb_spec (oa_key y) key) as [E|E]; cbn [negb].
  - intros _. subst key. fold (del_alloc (oa_key y) t). rewrite del_alloc_fresh by assumption. reflexivity.
  - fold (del_alloc key t) (find_alloc t key). intros F. cbn [length]. rewrite IH; auto. Qed.
Lemma existsb_key_in (l : list oalloc) key : existsb (fun y => (oa_key y =? key)%N) l = true <-> In key (akeys l).
Proof. rewrite existsb_exists. unfold akeys. rewrite in_map_iff. split.
  - intros (y & Hy & E). apply N.eqb_eq in E. eauto.
  - intros (y & E & Hy). exists y. split; [assumption|]. apply N.eqb_eq. assumption. Qed.

(* ================================================================== 4. the ancestor path of a queue *)
Definition parent_of (s : ostate) (id : N) : N :=
  match find_queue s id with Some q => q_parent q | None => 0%N end.

(* consecutive elements are (child, parent); every element is a registered queue *)
Fixpoint chain (s : ostate) (l : list N) : Prop :=
  match l with
  | [] => True
  | c :: t => (exists oc, find_queue s c = Some oc) /\
              match t with [] => True | p :: _ => parent_of s c = p /\ p <> 0%N end /\ chain s t
  end.
(* the path ends at a root *)
Definition complete (s : ostate) (l : list N) : Prop := parent_of s (last l 0%N) = 0%N.

Lemma path_fuel_head f s q x t : path_ids_fuel f s q = x :: t -> x = q.
Proof. destruct f; cbn [path_ids_fuel]; [discriminate|]. destruct (find_queue s q); [|discriminate]. congruence. Qed.
Lemma path_fuel_chain f s : forall q, chain s (path_ids_fuel f s q).
Proof. induction f as [|f IH]; intros q; [exact I|]. cbn [path_ids_fuel]. destruct (find_queue s q) as [oq|] eqn:E; [|exact I].
  cbn [chain]. split; [eauto|]. destruct (N.eqb_spec (q_parent oq) 0) as [Ep|Ep]; [split; exact I|].
  specialize (IH (q_parent oq)). destruct (path_ids_fuel f s (q_parent oq)) as [|p t] eqn:Er; [split; exact I|].
  apply path_fuel_head in Er as Ep'. subst p. split; [|exact IH]. unfold parent_of. rewrite E. auto. Qed.
Lemma path_ids_chain s q : chain s (path_ids s q).
Proof. apply path_fuel_chain. Qed.
Lemma path_ids_head s q oq : find_queue s q = Some oq -> exists t, path_ids s q = q :: t.
Proof. intros E. unfold path_ids. cbn [path_ids_fuel]. rewrite E. eauto. Qed.
Lemma path_ids_none s q : find_queue s q = None -> path_ids s q = [].
Proof. intros E. unfold path_ids. cbn [path_ids_fuel]. rewrite E. reflexivity. Qed.

Lemma chain_found s l x : chain s l -> In x l -> exists ox, find_queue s x = Some ox.
Proof. induction l as [|c t IH]; [contradiction|]. intros (Hf & _ & Hc) [<-|Hin]; auto. Qed.
Lemma chain_parents s l : chain s l -> l <> [] -> map (parent_of s) l = tl l ++ [parent_of s (last l 0%N)].
Proof. induction l as [|c t IH]; [congruence|]. intros (Hf & Hn & Hc) _. destruct t as [|p t'].
  - reflexivity.
  - destruct Hn as [Hn _]. cbn [map tl]. rewrite Hn. change (last (c :: p :: t') 0%N) with (last (p :: t') 0%N).
    cbn [map] in IH. rewrite IH; [reflexivity|assumption|discriminate]. Qed.
Lemma chain_up (P : N -> Prop) s l : chain s l ->
  (forall c, In c l -> In (parent_of s c) l -> P c -> P (parent_of s c)) ->
  (forall h t, l = h :: t -> P h) -> forall x, In x l -> P x.
Proof. induction l as [|c t IH]; intros Hc Hstep Hhead x Hin; [contradiction|]. destruct Hin as [<-|Hin]; [apply (Hhead c t eq_refl)|].
  destruct Hc as (Hf & Hn & Hc). apply IH; auto.
  - intros c' Hc' Hp'. apply Hstep; right; assumption.
  - intros h t' ->. destruct Hn as [<- _]. apply Hstep; [left; reflexivity|right; left; reflexivity|apply (Hhead c _ eq_refl)]. Qed.

Lemma NoDup_snoc {A} (l : list A) x : NoDup l -> ~ In x l -> NoDup (l ++ [x]).
Proof. induction l as [|y t IH]; intros H Hni; [constructor; [intros []|constructor]|]. inversion H; subst. cbn [app].
  constructor; [|apply IH; auto; intros C; apply Hni; right; assumption].
  intros C. apply in_app_or in C. destruct C as [C|[C|[]]]; [contradiction|]. apply Hni. left. symmetry. assumption. Qed.
Lemma in_tl {A} (l : list A) x : In x (tl l) -> In x l.
Proof. destruct l; [auto|]. cbn. auto. Qed.
Lemma NoDup_tl {A} (l : list A) : NoDup l -> NoDup (tl l).
Proof. destruct l; [auto|]. cbn. intros H. inversion H. assumption. Qed.

Lemma path_closed s l c : chain s l -> complete s l -> In c l -> parent_of s c = 0%N \/ In (parent_of s c) l.
Proof. intros Hc Hcomp Hin. assert (Hne : l <> []) by (intros ->; contradiction).
  pose proof (in_map (parent_of s) _ _ Hin) as H. rewrite (chain_parents s l Hc Hne), Hcomp in H.
  apply in_app_or in H. destruct H as [H|[H|[]]]; [right; apply in_tl; assumption|left; congruence]. Qed.
Lemma path_parent_inj s l c1 c2 : chain s l -> complete s l -> NoDup l -> find_queue s 0%N = None ->
  In c1 l -> In c2 l -> parent_of s c1 = parent_of s c2 -> c1 = c2.
Proof. intros Hc Hcomp Hnd H0 H1 H2 E. assert (Hne : l <> []) by (intros ->; contradiction).
  apply (NoDup_map_inj (parent_of s) l); auto. rewrite (chain_parents s l Hc Hne), Hcomp.
  apply NoDup_snoc; [apply NoDup_tl; assumption|]. intros C. apply in_tl in C.
  destruct (chain_found s l 0%N Hc C) as [o Ho]. congruence. Qed.
Lemma path_tail_has_child s l p : chain s l -> In p (tl l) -> exists c, In c l /\ parent_of s c = p.
Proof. intros Hc Hin. assert (Hne : l <> []) by (intros ->; contradiction).
  assert (H : In p (map (parent_of s) l)) by (rewrite (chain_parents s l Hc Hne); apply in_or_app; auto).
  apply in_map_iff in H. destruct H as (c & E & Hc'). eauto. Qed.

(* the path depends only on identifiers and parents *)
Lemma find_queue_ext s s' id : s_queues s = s_queues s' -> find_queue s id = find_queue s' id.
Proof. unfold find_queue. intros ->. reflexivity. Qed.
Lemma path_fuel_ext f s s' : s_queues s = s_queues s' -> forall q, path_ids_fuel f s q = path_ids_fuel f s' q.
Proof. intros E. induction f as [|f IH]; intros q; [reflexivity|]. cbn [path_ids_fuel]. rewrite (find_queue_ext s s' q E).
  destruct (find_queue s' q); [|reflexivity]. rewrite IH. reflexivity. Qed.
Lemma path_ids_ext s s' q : s_queues s = s_queues s' -> path_ids s q = path_ids s' q.
Proof. intros E. unfold path_ids. rewrite E. apply path_fuel_ext. assumption. Qed.
Lemma find_map_key (g : oqueue -> oqueue) id l : (forall x, q_id (g x) = q_id x) ->
  find (fun q => (q_id q =? id)%N) (map g l) = option_map g (find (fun q => (q_id q =? id)%N) l).
Proof. intros Hg. induction l as [|x t IH]; [reflexivity|]. cbn [map find].
  rewrite Hg. destruct (q_id x =? id)%N; [reflexivity|apply IH]. Qed.
Lemma find_queue_map s s' g id : s_queues s' = map g (s_queues s) -> (forall x, q_id (g x) = q_id x) ->
  find_queue s' id = option_map g (find_queue s id).
Proof. intros E Hg. unfold find_queue. rewrite E. apply find_map_key. assumption. Qed.
Lemma path_fuel_map f s s' g : s_queues s' = map g (s_queues s) -> (forall x, q_id (g x) = q_id x) ->
  (forall x, q_parent (g x) = q_parent x) -> forall q, path_ids_fuel f s' q = path_ids_fuel f s q.
Proof. intros E Hg Hp. induction f as [|f IH]; intros q; [reflexivity|]. cbn [path_ids_fuel].
  rewrite (find_queue_map s s' g q E Hg). destruct (find_queue s q) as [oq|]; [|reflexivity]. cbn [option_map].
  rewrite Hp, IH. reflexivity. Qed.
Lemma path_ids_map s s' g q : s_queues s' = map g (s_queues s) -> (forall x, q_id (g x) = q_id x) ->
  (forall x, q_parent (g x) = q_parent x) -> path_ids s' q = path_ids s q.
Proof. intros E Hg Hp. unfold path_ids. rewrite E, map_length. apply (path_fuel_map _ s s' g); assumption. Qed.
Lemma parent_of_map s s' g id : s_queues s' = map g (s_queues s) -> (forall x, q_id (g x) = q_id x) ->
  (forall x, q_parent (g x) = q_parent x) -> parent_of s' id = parent_of s id.
Proof. intros E Hg Hp. unfold parent_of. rewrite (find_queue_map s s' g id E Hg). destruct (find_queue s id); cbn; auto. Qed.

(* a complete path does not change with more fuel *)
Lemma path_fuel_stable f s : forall q, path_ids_fuel f s q <> [] -> complete s (path_ids_fuel f s q) ->
  path_ids_fuel (S f) s q = path_ids_fuel f s q.
Proof. induction f as [|f IH]; intros q Hne Hc; [cbn in Hne; congruence|].
  change (path_ids_fuel (S (S f)) s q) with
    (match find_queue s q with None => [] | Some oq => q :: (if (q_parent oq =? 0)%N then [] else path_ids_fuel (S f) s (q_parent oq)) end).
  change (path_ids_fuel (S f) s q) with
    (match find_queue s q with None => [] | Some oq => q :: (if (q_parent oq =? 0)%N then [] else path_ids_fuel f s (q_parent oq)) end) in *.
  destruct (find_queue s q) as [oq|] eqn:E; [|reflexivity]. destruct (N.eqb_spec (q_parent oq) 0) as [Ep|Ep]; [reflexivity|].
  f_equal. destruct (path_ids_fuel f s (q_parent oq)) as [|p t] eqn:Er.
  - exfalso. unfold complete in Hc. cbn [last] in Hc. unfold parent_of in Hc. rewrite E in Hc. contradiction.
  - rewrite <- Er. apply IH; [rewrite Er; discriminate|]. rewrite Er. exact Hc. Qed.
