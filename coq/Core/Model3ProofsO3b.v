(* C03 over the gang fragment (Core/Model3.v): the replacement protocol, part 2: the CONFIRMATION of a replacement
   (the [confirm] branch of [g_release]; Go: PartitionContext.removeAllocation -> processAllocationRelease with a
   placeholder whose release link is set: ReplaceAllocation, Node.ReplaceAllocation / RemoveAllocation,
   DecAllocatedResource(ph - real)).  Here the pair of [LinkOK] (Core/Model3ProofsD2.v) is consumed.
   This file: arithmetic of [total]; [ConfirmCore]: the state after the application / node / queue updates, described by
   its node records (both the same-node and the other-node case), keeps InvG2, BooksG and Bounded3.
   Core/Model3ProofsO3c.v: the two node-side instances, the tail (RemoveAllocationAsk, moveTerminatedApp), the dispatcher. *)
From Coq Require Import List ZArith NArith Bool Lia ZifyBool.
From YK Require Import Base.Int64 Base.Res Base.ResSpec Base.ResLemmas Base.ResLaws Base.ResLaws2 Base.ResLawsPred
  Core.Obs Core.Model Core.Model2 Core.Model3 Core.Ledger
  Core.BooksLemmas Core.BooksDefs Core.BooksTree Core.BooksQueue Core.BooksApp Core.BooksState Core.BooksDrain Core.BooksOps
  Core.BooksOps2 Core.Model2ProofsB2 Core.Model3ProofsD Core.Model3ProofsD2 Core.Model3ProofsG1 Core.Model3ProofsG2
  Core.Model3ProofsG3 Core.Model3ProofsG5 Core.Model3ProofsG6 Core.Model3ProofsA1 Core.Model3ProofsA2 Core.Model3ProofsA3.
Import ListNotations.
Open Scope Z_scope.
Set Default Timeout 30.

(* ------------------------------------------------------------------ what the queues give back: ph - real *)
Definition conf_total (r p : res) : res :=
  let delta := Sub (Some r) (Some p) in if HasNegativeValue (Some delta) then subFrom [] delta else [].
Definition conf_F (total : res) : oqueue -> oqueue := if StrictlyGreaterThanZero (Some total) then F_dec total else fun q => q.

Lemma conf_total_spec r p : wf r -> wf p -> rb r -> rb p -> rnonneg r -> rnonneg p -> (forall k, getz r k <= getz p k) ->
  wf (conf_total r p) /\ (forall k, getz (conf_total r p) k = getz p k - getz r k) /\ rb (conf_total r p) /\ rnonneg (conf_total r p).
Proof. intros Wr Wp Br Bp Nr Np Hle.
  assert (D : forall k, getz (Sub (Some r) (Some p)) k = getz r k - getz p k) by (intros k; apply Sub_exact; assumption).
  assert (Wd : wf (Sub (Some r) (Some p))) by (apply Sub_wf; exact Wr).
  assert (G : wf (conf_total r p) /\ forall k, getz (conf_total r p) k = getz p k - getz r k).
  { unfold conf_total. cbv zeta. destruct (HasNegativeValue _) eqn:E.
    - split; [apply subFrom_wf, NoDup_nil|]. intros k. rewrite subFrom_getz; [rewrite D, getz_nil; lia|exact Wd|apply rb_nil|].
      intros j. rewrite D. pose proof (rnonneg_fnonneg _ Nr j). pose proof (rnonneg_fnonneg _ Np j). specialize (Br j). specialize (Bp j). unfold bnd in *. lia.
    - split; [apply NoDup_nil|]. intros k. rewrite getz_nil. destruct (Z.eq_dec (getz p k) (getz r k)) as [e|Hne]; [lia|]. exfalso.
      assert (C : HasNegativeValue (Some (Sub (Some r) (Some p))) = true).
      { apply HasNegativeValue_spec; [exact Wd|]. exists k. cbn [oget]. rewrite D. specialize (Hle k). lia. }
      congruence. }
  destruct G as [Wt Gt]. split; [exact Wt|]. split; [exact Gt|]. split.
  - intros k. rewrite Gt. pose proof (rnonneg_fnonneg _ Nr k). specialize (Hle k). specialize (Bp k). unfold bnd in *. lia.
  - apply fnonneg_rnonneg; [exact Wt|]. intros k. rewrite Gt. specialize (Hle k). lia. Qed.

Lemma conf_F_keep t q : q_id (conf_F t q) = q_id q /\ q_parent (conf_F t q) = q_parent q /\ q_leaf (conf_F t q) = q_leaf q.
Proof. unfold conf_F. destruct (StrictlyGreaterThanZero _); repeat split. Qed.
Lemma conf_F_Q q t : QOK q -> wf t -> rb t -> rnonneg t -> (forall k, getz t k <= getz (q_alloc q) k) ->
  QFacts q (conf_F t q) (fun k => - getz t k) zero3.
Proof. intros Q Wt Bt Nt Hle. unfold conf_F. destruct (StrictlyGreaterThanZero (Some t)) eqn:E; [apply F_dec_Q; assumption|].
  apply (QFacts_ext q q zero3 zero3); [|reflexivity|apply QFacts_id; exact Q]. intros k. unfold zero3. rewrite (not_sgtz_zero t Nt E k). reflexivity. Qed.
(* the queue list after DecAllocatedResource(total) iff total is strictly positive *)
Lemma conf_queues s s2 leaf t : s_queues s2 = s_queues s -> wf t -> dominated s leaf t ->
  s_queues (if StrictlyGreaterThanZero (Some t) then q_dec s2 leaf t else s2) = path_map s leaf (conf_F t).
Proof. intros E2 Wt Hd. unfold conf_F. destruct (StrictlyGreaterThanZero (Some t)).
  - apply (g_q_dec_queues s s2 leaf t E2 Wt Hd).
  - rewrite E2. symmetry. apply path_map_id. Qed.

(* the ledger of a node is not negative *)
Lemma node_ledger_nonneg s n k : InvG s -> In n (s_nodes s) -> 0 <= getz (on_allocated n) k.
Proof. intros HI Hn. rewrite (k3_ledger n (ig_nodes s HI n Hn) k). apply asum_nonneg. intros y Hy.
  destruct (ig_owned s HI n y Hn Hy) as (b & Hb & _ & Ho). apply (a3_nn _ y (g_record_ok s b y HI Hb (ownedby_record b y Ho))). Qed.

(* what the tail of the confirmation (RemoveAllocationAsk, moveTerminatedApp) needs about the state after the accounting *)
Definition ConfPost (s4 : ostate) (id key : N) (b : oapp) : Prop :=
  (InvG2 s4 /\ BooksG s4 /\ Bounded3 s4) /\ find_app s4 id = Some b /\ is_terminal (ap_state b) = false /\
  (forall m y, In m (s_nodes s4) -> In y (on_allocs m) -> oa_key y <> key).

(* ================================================================== the state after the confirmation, by its node records *)
Section ConfirmCore.
  Variables (s s' : ostate) (a : oapp) (x real0 : oalloc) (ttype : N).
  Hypothesis HI2 : InvG2 s.
  Hypothesis HB : BooksG s.
  Hypothesis HBd : Bounded3 s.
  Hypothesis Ha : In a (s_apps s).
  Hypothesis Hx : In x (ap_allocs a).
  Hypothesis Xph : oa_ph x = true.
  Hypothesis Xl : oa_release x <> 0%N.
  Hypothesis Hr : In real0 (ap_requests a).
  Hypothesis Rk : oa_key real0 = oa_release x.
  Hypothesis Rph : oa_ph real0 = false.
  Hypothesis Ral : oa_allocated real0 = true.
  (* the removal of the placeholder does not terminate the application *)
  Hypothesis T : is_terminal (ap_state (app_remove_alloc a x ttype)) = false.

  Let HI := ig2_inv s HI2.
  Let HL := ig2_link s HI2.
  Let W := ig_app_wf s HI a Ha.
  Let B := bg_apps s HB a Ha.
  Let real := oa_set_link real0 0.
  Let b := confirm_app a x ttype real0.
  Let total := conf_total (oa_res real0) (oa_res x).

  Lemma cf_bd : AppBounded3 a.
  Proof. split; [apply (bd_apps s (b3_base s HBd) a Ha)|apply (b3_ph s HBd a Ha)]. Qed.
  Lemma cf_bdA : AllocBd a. Proof. apply (proj1 (proj1 (AppBounded3_sides a) cf_bd)). Qed.
  Lemma cf_bdP : PendBd a. Proof. apply (proj2 (proj1 (AppBounded3_sides a) cf_bd)). Qed.
  Lemma cf_real_ok : AllocOK3 (ap_id a) real0. Proof. apply (w3_req a W real0 Hr). Qed.
  Lemma cf_x_ok : AllocOK3 (ap_id a) x. Proof. apply (w3_alloc a W x Hx). Qed.
  Lemma cf_real_rb : rb (oa_res real0). Proof. apply (proj2 cf_bdP real0 Hr). Qed.
  Lemma cf_x_rb : rb (oa_res x). Proof. apply (proj2 (proj2 cf_bdA) x Hx). Qed.
  (* the pair, from LinkL2 *)
  Lemma cf_pair : oa_release real0 = oa_key x /\ (forall k, getz (oa_res real0) k <= getz (oa_res x) k) /\
    (oa_node real0 = oa_node x -> forall n y, In n (s_nodes s) -> In y (on_allocs n) -> oa_key y <> oa_key real0) /\
    (oa_node real0 <> oa_node x -> exists n, In n (s_nodes s) /\ on_id n = oa_node real0 /\ In real0 (on_allocs n)).
  Proof. apply (lk_2 s HL a x real0 Ha Hx Xph Xl Hr Rk Rph Ral). Qed.
  Lemma cf_inj y : In y (ap_allocs a) -> oa_ph y = true -> oa_release y = oa_release x -> oa_key y = oa_key x.
  Proof. intros Hy Yph E. assert (Yl : oa_release y <> 0%N) by (rewrite E; exact Xl).
    destruct (lk_2 s HL a y real0 Ha Hy Yph Yl Hr (eq_trans Rk (eq_sym E)) Rph Ral) as (Q & _). destruct cf_pair as (Q' & _). congruence. Qed.
  Lemma cf_fresh : ~ In (oa_key real0) (akeys (ap_allocs a)).
  Proof. apply (confirm_key_fresh a x real0 W Hx Xph Xl Rk). Qed.
  Lemma cf_ne : oa_key real0 <> oa_key x.
  Proof. intros C. apply cf_fresh. rewrite C. apply in_map. exact Hx. Qed.
  Lemma cf_same_x y : In y (ap_allocs a) -> oa_key y = oa_key x -> y = x.
  Proof. intros Hy E. apply (nodup_key_inj oa_key (ap_allocs a)); auto. apply (w3_alloc_keys a W). Qed.
  Lemma cf_same_real y : In y (ap_requests a) -> oa_key y = oa_key real0 -> y = real0.
  Proof. intros Hy E. apply (nodup_key_inj oa_key (ap_requests a)); auto. apply (w3_req_keys a W). Qed.

  Lemma cf_total : wf total /\ (forall k, getz total k = getz (oa_res x) k - getz (oa_res real0) k) /\ rb total /\ rnonneg total.
  Proof. destruct cf_pair as (_ & Hle & _). destruct cf_real_ok as [W1 N1 _ _ _]. destruct cf_x_ok as [W2 N2 _ _ _].
    apply (conf_total_spec _ _ W1 W2 cf_real_rb cf_x_rb N1 N2 Hle). Qed.
  Lemma cf_total_le q k : In q (s_queues s) -> In (q_id q) (path_ids s (ap_queue a)) -> getz total k <= getz (q_alloc q) k.
  Proof. intros Hq Hin. destruct cf_total as (_ & Gt & _). rewrite Gt. pose proof (rnonneg_fnonneg _ (a3_nn _ _ cf_real_ok) k).
    pose proof (g_ph_le_phalloc a x k W B Hx Xph). pose proof (g_phalloc_dominated s a HI HB Ha q k Hq Hin). lia. Qed.
  Lemma cf_dominated : dominated s (ap_queue a) total.
  Proof. intros c oc Hc Ec k. destruct (find_queue_some s c oc Ec) as [Hoc Eid]. apply cf_total_le; [exact Hoc|rewrite Eid; exact Hc]. Qed.

  (* ---------------------------------------------------------------- the application record *)
  Lemma cf_b_requests : ap_requests b = map_key (oa_key real0) (fun _ => real) (ap_requests a).
  Proof. apply (confirm_requests_live a x ttype real0 T). Qed.
  Lemma cf_b_allocs : ap_allocs b = put_alloc real (del_alloc (oa_key x) (ap_allocs a)). Proof. apply confirm_allocs. Qed.
  Lemma cf_b_id : ap_id b = ap_id a. Proof. apply confirm_id. Qed.
  Lemma cf_b_wf : AppWF3 b. Proof. apply (confirm_wf3 a x ttype real0 W Hx Xph Xl Hr Rk Rph Ral cf_inj). Qed.
  Lemma cf_b_books : AppBooks b. Proof. apply (confirm_books a x ttype real0 W cf_bdA Hx Xph Xl Hr Rk Ral cf_real_rb B T). Qed.
  Lemma cf_b_delta k : getz (ap_allocated b) k = getz (ap_allocated a) k + getz (oa_res real0) k /\
    getz (ap_phalloc b) k = getz (ap_phalloc a) k - getz (oa_res x) k /\ ap_pending b = ap_pending a.
  Proof. apply (confirm_delta a x ttype real0 W cf_bdA Hx Xph Hr Rph cf_real_rb k). Qed.
  Lemma cf_in_alloc_b z : In z (ap_allocs b) <-> z = real \/ (In z (ap_allocs a) /\ oa_key z <> oa_key x /\ oa_key z <> oa_key real0).
  Proof. rewrite cf_b_allocs, in_put_alloc, in_del_alloc. change (oa_key real) with (oa_key real0). tauto. Qed.
  Lemma cf_in_req_b r : In r (ap_requests b) <-> r = real \/ (In r (ap_requests a) /\ oa_key r <> oa_key real0).
  Proof. rewrite cf_b_requests. apply (in_map_key_nodup (oa_key real0) (fun _ => real) (ap_requests a) real0 r (w3_req_keys a W) Hr eq_refl). Qed.
  Lemma cf_akeys_b k : In k (akeys (ap_allocs b)) <-> k = oa_key real0 \/ (In k (akeys (ap_allocs a)) /\ k <> oa_key x).
  Proof. rewrite cf_b_allocs, akeys_put, akeys_del. change (oa_key real) with (oa_key real0). tauto. Qed.
  Lemma cf_b_len : Z.of_nat (length (ap_allocs b)) = Z.of_nat (length (ap_allocs a)) + 0.
  Proof. rewrite cf_b_allocs, length_put_fresh.
    - pose proof (length_del_alloc (ap_allocs a) (oa_key x) x (w3_alloc_keys a W) (g_find_alloc_in s a x HI Ha Hx)). lia.
    - intros C. apply akeys_del in C. apply cf_fresh. tauto. Qed.
  Lemma cf_b_keys : RecKeysOK s a b.
  Proof. apply rec_keys_incl. intros k Hk. unfold app_records, akeys in *. rewrite map_app in *. apply in_app_or in Hk. apply in_or_app. destruct Hk as [Hk|Hk].
    - left. fold (akeys (ap_requests b)) in Hk. rewrite cf_b_requests, akeys_map_key in Hk by (intros; reflexivity). exact Hk.
    - fold (akeys (ap_allocs b)) in Hk. apply cf_akeys_b in Hk. destruct Hk as [->|[Hk _]]; [left; apply in_map; exact Hr|right; exact Hk]. Qed.
  Lemma cf_ownedby y : oa_key y <> oa_key x -> oa_key y <> oa_key real0 -> OwnedBy a y -> OwnedBy b y.
  Proof. intros K1 K2 [Ho|(H1 & H2 & H3 & H4)].
    - left. apply cf_in_alloc_b. auto.
    - right. split; [exact H1|]. split; [apply cf_in_req_b; auto|]. split; [exact H3|]. intros C. apply cf_akeys_b in C. tauto. Qed.

  (* ---------------------------------------------------------------- the post-state *)
  Hypothesis Eapps : s_apps s' = updk ap_id (s_apps s) (ap_id a) (fun _ => b).
  Hypothesis Eq : s_queues s' = path_map s (ap_queue a) (conf_F total).
  Hypothesis Ef : s_foreign s' = s_foreign s.
  Hypothesis Ecount : s_nallocs s' = s_nallocs s.
  Hypothesis Hnid : NoDup (map on_id (s_nodes s')).
  Hypothesis Hnodes : forall m', In m' (s_nodes s') -> NodeOK3 m'.
  Hypothesis Hsum : forall k, asum (filter ninfl (node_records s')) k =
                              asum (filter ninfl (node_records s)) k + (getz (oa_res real0) k - getz (oa_res x) k).
  (* the records the nodes list: the real allocation (link cleared) on its node, and every old record but the
     placeholder and the in-flight copy of the real allocation *)
  Hypothesis N1 : forall m' y', In m' (s_nodes s') -> In y' (on_allocs m') ->
    y' = real \/ (exists m, In m (s_nodes s) /\ In y' (on_allocs m) /\ oa_key y' <> oa_key x /\ oa_key y' <> oa_key real0).
  Hypothesis N2 : exists m', In m' (s_nodes s') /\ on_id m' = oa_node real0 /\ In real (on_allocs m').
  Hypothesis N3 : forall m y, In m (s_nodes s) -> In y (on_allocs m) -> oa_key y <> oa_key x -> oa_key y <> oa_key real0 ->
    exists m', In m' (s_nodes s') /\ on_id m' = on_id m /\ In y (on_allocs m').
  Hypothesis Nbd : forall m', In m' (s_nodes s') -> exists m, In m (s_nodes s) /\ forall k, getz (on_allocated m') k <= getz (on_allocated m) k.

  Lemma cf_in_apps c : In c (s_apps s') <-> c = b \/ (In c (s_apps s) /\ ap_id c <> ap_id a).
  Proof. rewrite Eapps. apply (in_updk_const ap_id); [apply (ig_app_ids s HI)|exact Ha]. Qed.
  (* keys of other applications *)
  Lemma cf_other_keys c z : In c (s_apps s) -> ap_id c <> ap_id a -> In z (app_records c) -> oa_key z <> oa_key x /\ oa_key z <> oa_key real0.
  Proof. intros Hc Hne Hz. split; intros C; apply Hne.
    - apply (ig_keys s HI c a z x Hc Ha Hz); [apply in_records; auto|exact C].
    - apply (ig_keys s HI c a z real0 Hc Ha Hz); [apply in_records; auto|exact C]. Qed.

  Lemma cf_owned : Owned s'.
  Proof. intros m' y' Hm' Hy'. destruct (N1 m' y' Hm' Hy') as [->|(m & Hm & Hy & K1 & K2)].
    - exists b. split; [apply cf_in_apps; auto|]. split; [rewrite cf_b_id; symmetry; apply (a3_app _ _ cf_real_ok)|]. left. apply cf_in_alloc_b. auto.
    - destruct (ig_owned s HI m y' Hm Hy) as (c & Hc & Ec & Ho). destruct (N.eq_dec (ap_id c) (ap_id a)) as [E|E].
      + assert (c = a) by (apply (g_same_app s a c HI Ha Hc E)). subst c. exists b. split; [apply cf_in_apps; auto|]. split; [rewrite cf_b_id; exact Ec|].
        apply (cf_ownedby y' K1 K2 Ho).
      + exists c. split; [apply cf_in_apps; auto|]. split; [exact Ec|exact Ho]. Qed.
  Lemma cf_onnode : OnNode s'.
  Proof. intros c z Hc Hz. apply cf_in_apps in Hc. destruct Hc as [->|[Hc Hne]].
    - apply cf_in_alloc_b in Hz. destruct Hz as [->|(Hz & K1 & K2)]; [exact N2|].
      destruct (ig_onnode s HI a z Ha Hz) as (m & Hm & Em & Hzm). destruct (N3 m z Hm Hzm K1 K2) as (m' & H1 & H2 & H3).
      exists m'. split; [assumption|]. split; [congruence|assumption].
    - destruct (ig_onnode s HI c z Hc Hz) as (m & Hm & Em & Hzm).
      destruct (cf_other_keys c z Hc Hne) as [K1 K2]; [apply in_records; auto|].
      destruct (N3 m z Hm Hzm K1 K2) as (m' & H1 & H2 & H3). exists m'. split; [assumption|]. split; [congruence|assumption]. Qed.

  Lemma cf_step : InvG s' /\ BooksG s'.
  Proof. destruct cf_total as (Wt & Gt & Bt & Nt).
    apply (gang_step s s' a b (conf_F total) (fun k => - getz total k) zero3 HI HB Ha Eapps Eq Ef); try (intros q; apply conf_F_keep); auto.
    - intros q Hq Hin. apply conf_F_Q; try assumption; [apply (g_qok s q HI HB HBd Hq)|]. intros k. apply (cf_total_le q k Hq Hin).
    - apply cf_b_id.
    - apply confirm_queue.
    - apply cf_b_books.
    - apply cf_b_wf.
    - apply cf_b_keys.
    - intros k. destruct (cf_b_delta k) as (E1 & E2 & _). rewrite E1, E2, Gt. lia.
    - intros k. destruct (cf_b_delta k) as (_ & _ & E3). rewrite E3. unfold zero3. lia.
    - apply cf_owned.
    - apply cf_onnode.
    - apply (g_count_step s s' a b HI Ha Eapps 0 cf_b_len). rewrite Ecount. lia.
    - intros k. rewrite Hsum, Gt. lia. Qed.

  (* ---------------------------------------------------------------- LinkOK: the pair is consumed *)
  Lemma cf_l1 : LinkL1 s'.
  Proof. intros m' y' Hm' Hy' Hi. destruct (N1 m' y' Hm' Hy') as [->|(m & Hm & Hy & K1 & K2)].
    - exfalso. unfold infl in Hi. cbn [real oa_set_link oa_release] in Hi. rewrite N.eqb_refl, andb_false_r in Hi. discriminate.
    - destruct (lk_1 s HL m y' Hm Hy Hi) as (c & p & Hc & Ec & Hp & Pp & Ek & Er & En).
      destruct (N.eq_dec (ap_id c) (ap_id a)) as [E|E].
      + assert (c = a) by (apply (g_same_app s a c HI Ha Hc E)). subst c. exists b, p. split; [apply cf_in_apps; auto|]. split; [rewrite cf_b_id; exact Ec|].
        split; [|repeat split; assumption]. apply cf_in_alloc_b. right. split; [exact Hp|]. split.
        * intros C. assert (p = x) by (apply cf_same_x; assumption). subst p. apply K2. rewrite Rk. symmetry. exact Er.
        * intros C. apply cf_fresh. rewrite <- C. apply in_map. exact Hp.
      + exists c, p. split; [apply cf_in_apps; auto|]. repeat split; assumption. Qed.

  Lemma cf_l2 : LinkL2 s'.
  Proof. intros c p r Hc Hp Pp Lp Hr' Ek Rp Ra. apply cf_in_apps in Hc.
    assert (Frame : forall c0, In c0 (s_apps s) -> In p (ap_allocs c0) -> In r (ap_requests c0) ->
              oa_key r <> oa_key x -> oa_key r <> oa_key real0 ->
              oa_release r = oa_key p /\ (forall k, getz (oa_res r) k <= getz (oa_res p) k) /\
              (oa_node r = oa_node p -> forall n y, In n (s_nodes s') -> In y (on_allocs n) -> oa_key y <> oa_key r) /\
              (oa_node r <> oa_node p -> exists n, In n (s_nodes s') /\ on_id n = oa_node r /\ In r (on_allocs n))).
    { intros c0 Hc0 Hp0 Hr0 K1 K2. destruct (lk_2 s HL c0 p r Hc0 Hp0 Pp Lp Hr0 Ek Rp Ra) as (Q1 & Q2 & Q3 & Q4).
      split; [exact Q1|]. split; [exact Q2|]. split.
      - intros En m' y' Hm' Hy'. destruct (N1 m' y' Hm' Hy') as [->|(m & Hm & Hy & _)]; [|apply (Q3 En m y' Hm Hy)].
        change (oa_key real) with (oa_key real0). congruence.
      - intros En. destruct (Q4 En) as (m & Hm & Em & Hrm). destruct (N3 m r Hm Hrm K1 K2) as (m' & H1 & H2 & H3).
        exists m'. split; [assumption|]. split; [congruence|assumption]. }
    destruct Hc as [->|[Hc Hne]].
    - apply cf_in_alloc_b in Hp. destruct Hp as [->|(Hp & P1 & P2)]; [cbn [real oa_set_link oa_ph] in Pp; congruence|].
      apply cf_in_req_b in Hr'. destruct Hr' as [->|[Hr0 K2]].
      + (* the link of another placeholder names the confirmed ask: excluded by the back link *)
        exfalso. apply P1. apply (cf_inj p Hp Pp). rewrite <- Rk. symmetry. exact Ek.
      + apply (Frame a Ha Hp Hr0); [|exact K2].
        (* r is not the placeholder's request copy: the link target is no allocation key *)
        intros C. apply (w3_link a W p Hp Pp Lp). rewrite <- Ek, C. apply in_map. exact Hx.
    - destruct (cf_other_keys c r Hc Hne) as [K1 K2]; [apply in_records; auto|]. apply (Frame c Hc Hp Hr' K1 K2). Qed.

  (* ---------------------------------------------------------------- the bounds *)
  Lemma cf_b_bounded : AppBounded3 b.
  Proof. destruct (g_app_leaf s a HI Ha) as (lq & Elq & _ & Hlq & Eid). pose proof (g_leaf_on_path s a HI Ha) as Hon. rewrite <- Eid in Hon at 1.
    pose proof (bd_queues s (b3_base s HBd) lq Hlq) as [Bq _]. destruct cf_pair as (_ & Hle & _).
    pose proof cf_bd as [[D1 D2 D3 D4] D5]. apply AppBounded3_sides. split; [split; [|split]|].
    - intros k. destruct (cf_b_delta k) as (E1 & _). rewrite E1. pose proof (g_usage_dominated s a HI HB Ha lq k Hlq Hon).
      pose proof (g_ph_le_phalloc a x k W B Hx Xph). pose proof (rnonneg_fnonneg _ (ab_nn_alloc a B) k). pose proof (rnonneg_fnonneg _ (a3_nn _ _ cf_real_ok) k).
      specialize (Hle k). specialize (Bq k). unfold bnd in *. lia.
    - intros k. destruct (cf_b_delta k) as (_ & E2 & _). rewrite E2. pose proof (g_ph_le_phalloc a x k W B Hx Xph).
      pose proof (rnonneg_fnonneg _ (a3_nn _ _ cf_x_ok) k). specialize (D5 k). unfold bnd in *. lia.
    - intros z Hz. apply cf_in_alloc_b in Hz. destruct Hz as [->|(Hz & _)]; [apply cf_real_rb|apply (D4 z Hz)].
    - apply (confirm_pend_bd a x ttype real0 Hr cf_bdP). Qed.

  Lemma cf_bounded : Bounded3 s'.
  Proof. destruct cf_step as [HI' HB']. destruct cf_total as (Wt & Gt & Bt & Nt). pose proof HBd as [[A1 A2 A3] A4].
    split; [constructor|].
    - intros c Hc. apply cf_in_apps in Hc. destruct Hc as [->|[Hc _]]; [apply cf_b_bounded|apply (A1 c Hc)].
    - intros q' Hq'. rewrite Eq in Hq'. unfold path_map in Hq'. apply in_map_iff in Hq'. destruct Hq' as (q & <- & Hq).
      destruct (memN (q_id q) (path_ids s (ap_queue a))) eqn:Em; [|apply (A2 q Hq)]. apply memN_in in Em.
      destruct (conf_F_Q q total (g_qok s q HI HB HBd Hq) Wt Bt Nt (fun k => cf_total_le q k Hq Em)) as (_ & FA & FP & Fn1 & Fn2).
      destruct (A2 q Hq) as [Ba Bp]. split; intros k.
      + pose proof (rnonneg_fnonneg _ Fn1 k) as H0. rewrite FA in H0 |- *. pose proof (rnonneg_fnonneg _ Nt k). specialize (Ba k). unfold bnd in *. lia.
      + rewrite FP. unfold zero3. specialize (Bp k). unfold bnd in *. lia.
    - intros m' Hm'. destruct (Nbd m' Hm') as (m & Hm & Hle). intros k. pose proof (node_ledger_nonneg s' m' k HI' Hm'). specialize (Hle k).
      pose proof (A3 m Hm k). unfold bnd in *. lia.
    - intros c Hc. apply cf_in_apps in Hc. destruct Hc as [->|[Hc _]]; [apply cf_b_bounded|apply (A4 c Hc)]. Qed.

  Theorem confirm_core_step : InvG2 s' /\ BooksG s' /\ Bounded3 s'.
  Proof. destruct cf_step as [H1 H2]. split; [split; [exact H1|split; [apply cf_l1|apply cf_l2]]|]. split; [exact H2|apply cf_bounded]. Qed.

  (* what the tail needs about s' *)
  Lemma cf_find_b : find_app s' (ap_id a) = Some b.
  Proof. apply (g_find_app' s s' a b HI Ha Eapps cf_b_id). Qed.
  Lemma cf_b_live : is_terminal (ap_state b) = false.
  Proof. unfold b. rewrite confirm_terminal, <- (app_remove_alloc_terminal a x ttype). exact T. Qed.
  Lemma cf_no_ph_key m' y' : In m' (s_nodes s') -> In y' (on_allocs m') -> oa_key y' <> oa_key x.
  Proof. intros Hm' Hy'. destruct (N1 m' y' Hm' Hy') as [->|(_ & _ & _ & K & _)]; [apply cf_ne|exact K]. Qed.
  Theorem confirm_core_full : ConfPost s' (ap_id a) (oa_key x) b.
  Proof. split; [apply confirm_core_step|]. split; [apply cf_find_b|]. split; [apply cf_b_live|apply cf_no_ph_key]. Qed.
End ConfirmCore.
