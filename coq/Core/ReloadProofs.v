(* Proofs about the reload model (Core/Reload.v): the predicates of Core/ReloadSpec.v hold of the model for
   every queue tree and every configuration. *)
From Coq Require Import List ZArith NArith Bool Lia.
From YK Require Import Base.Res Core.Obs Core.Reload Core.ReloadSpec.
Import ListNotations.
Open Scope N_scope.

(* ---- induction principles for the two rose trees ---- *)
Section ConfInd.
  Variable P : conf_tree -> Prop.
  Hypothesis H : forall id par mx gu ma pr kids, Forall P kids -> P (CT id par mx gu ma pr kids).
  Fixpoint conf_tree_ind' (c : conf_tree) : P c :=
    match c with
    | CT id par mx gu ma pr kids =>
        H id par mx gu ma pr kids
          ((fix go (l : list conf_tree) : Forall P l :=
              match l with [] => Forall_nil P | x :: r => Forall_cons x (conf_tree_ind' x) (go r) end) kids)
    end.
End ConfInd.
Section TreeInd.
  Variable P : qtree -> Prop.
  Hypothesis H : forall q kids, Forall P kids -> P (QT q kids).
  Fixpoint qtree_ind' (t : qtree) : P t :=
    match t with
    | QT q kids =>
        H q kids ((fix go (l : list qtree) : Forall P l :=
                     match l with [] => Forall_nil P | x :: r => Forall_cons x (qtree_ind' x) (go r) end) kids)
    end.
End TreeInd.

(* ---- reflexivity of the structural equalities ---- *)
Lemma list_eqb_refl {A} (eqb : A -> A -> bool) : (forall x, eqb x x = true) -> forall l, list_eqb eqb l l = true.
Proof. intros Hr l. induction l as [|x t IH]; [reflexivity|]. cbn. rewrite Hr, IH. reflexivity. Qed.
Lemma nlist_eqb_refl l : nlist_eqb l l = true.
Proof. apply list_eqb_refl. intros. apply N.eqb_refl. Qed.
Lemma rs_eqb_refl r : rs_eqb r r = true.
Proof. apply list_eqb_refl. intros [k v]. cbn. rewrite N.eqb_refl, Z.eqb_refl. reflexivity. Qed.
Lemma npair_eqb_refl p : npair_eqb p p = true.
Proof. unfold npair_eqb. rewrite !N.eqb_refl. reflexivity. Qed.
Lemma ledger_eqb_refl l : ledger_eqb l l = true.
Proof.
  unfold ledger_eqb. rewrite !rs_eqb_refl, N.eqb_refl, !nlist_eqb_refl.
  rewrite (list_eqb_refl npair_eqb npair_eqb_refl). reflexivity.
Qed.
Lemma str_eqb_refl s : str_eqb s s = true.
Proof. induction s as [|x t IH]; [reflexivity|]. cbn. rewrite N.eqb_refl, IH. reflexivity. Qed.
Lemma ostr_eqb_refl o : ostr_eqb o o = true.
Proof. destruct o; cbn; [apply str_eqb_refl|reflexivity]. Qed.
Lemma props_eqb_refl p : props_eqb p p = true.
Proof. unfold props_eqb. apply forallb_forall. intros k _. apply ostr_eqb_refl. Qed.
Lemma oz_eqb_refl o : oz_eqb o o = true.
Proof. destruct o; cbn; [apply Z.eqb_refl|reflexivity]. Qed.
Lemma ores_eqm_refl o : ores_eqm o o = true.
Proof. destruct o as [r|]; [|reflexivity]. cbn. apply forallb_forall. intros k _. apply oz_eqb_refl. Qed.
Lemma derived_eqb_refl d : derived_eqb d d = true.
Proof. unfold derived_eqb. rewrite !N.eqb_refl, Z.eqb_refl, eqb_reflx. reflexivity. Qed.
Lemma conf_part_eqb_refl x : conf_part_eqb x x = true.
Proof.
  unfold conf_part_eqb. rewrite !eqb_reflx, !N.eqb_refl, !ores_eqm_refl, props_eqb_refl, derived_eqb_refl. reflexivity.
Qed.
Lemma mq_eqb_refl x : mq_eqb x x = true.
Proof. unfold mq_eqb. rewrite !N.eqb_refl, conf_part_eqb_refl, ledger_eqb_refl. reflexivity. Qed.

Definition core_eq (x y : mq) : Prop := m_id y = m_id x /\ m_parent y = m_parent x /\ m_ledger y = m_ledger x.
Lemma core_eq_same x y : core_eq x y -> same_core x y = true.
Proof.
  intros (Hi & Hp & Hl). unfold same_core. rewrite Hi, Hp, Hl, !N.eqb_refl, ledger_eqb_refl. reflexivity.
Qed.
Lemma core_eq_refl x : core_eq x x. Proof. repeat split. Qed.

(* ---- small facts ---- *)
Lemma memN_In x l : memN x l = true <-> In x l.
Proof.
  unfold memN. rewrite existsb_exists. split.
  - intros (y & Hy & He). apply N.eqb_eq in He. subst. assumption.
  - intros Hx. exists x. split; [assumption|apply N.eqb_refl].
Qed.
Lemma memN_false x l : memN x l = false <-> ~ In x l.
Proof.
  rewrite <- memN_In. destruct (memN x l); split; intros H.
  - discriminate.
  - exfalso. apply H. reflexivity.
  - intros H'. discriminate.
  - reflexivity.
Qed.
Lemma nodupb_NoDup l : nodupb l = true -> NoDup l.
Proof.
  induction l as [|x t IH]; intros H; [constructor|]. cbn in H. apply andb_prop in H as [H1 H2].
  constructor; [|apply IH; assumption]. apply negb_true_iff in H1. apply memN_false in H1. assumption.
Qed.
Lemma find_kid_some id kids k : find_kid id kids = Some k -> In k kids /\ qid k = id.
Proof. unfold find_kid. intros H. apply find_some in H as [H1 H2]. apply N.eqb_eq in H2. split; assumption. Qed.
Lemma find_kid_unique kids k : NoDup (map qid kids) -> In k kids -> find_kid (qid k) kids = Some k.
Proof.
  unfold find_kid. induction kids as [|k1 t IH]; intros Hnd Hin; [contradiction|].
  cbn [map] in Hnd. inversion Hnd as [|? ? Hni Hnt]; subst. cbn [find].
  destruct Hin as [->|Hin].
  - rewrite N.eqb_refl. reflexivity.
  - destruct (N.eqb_spec (qid k1) (qid k)) as [He|Hne].
    + exfalso. apply Hni. rewrite He. apply in_map. assumption.
    + apply IH; assumption.
Qed.
Lemma in_flatten_root t : In (troot t) (flatten t).
Proof. destruct t. cbn. left. reflexivity. Qed.
Lemma in_flatten_kid q kids k x : In k kids -> In x (flatten k) -> In x (flatten (QT q kids)).
Proof. intros Hk Hx. cbn. right. apply in_flat_map. exists k. split; assumption. Qed.
Lemma in_flatten_inv q kids x : In x (flatten (QT q kids)) -> x = q \/ exists k, In k kids /\ In x (flatten k).
Proof. cbn. intros [H|H]; [left; symmetry; assumption|right]. apply in_flat_map in H. exact H. Qed.

Lemma tree_okb_inv q kids : tree_okb (QT q kids) = true ->
  valid_state (m_state q) = true /\ NoDup (map qid kids) /\
  forall k, In k kids -> is_rootq (troot k) = false /\ tree_okb k = true.
Proof.
  cbn [tree_okb]. intros H. apply andb_prop in H as [H H3]. apply andb_prop in H as [H1 H2].
  split; [assumption|]. split; [apply nodupb_NoDup; assumption|].
  intros k Hk. rewrite forallb_forall in H3. specialize (H3 k Hk). apply andb_prop in H3 as [Ha Hb].
  apply negb_true_iff in Ha. split; assumption.
Qed.

(* ---- mark ---- *)
Definition marked (x : mq) : mq := with_state (q_event EV_Remove (m_state x)) x.
Lemma mark_in t : forall x, In x (flatten t) -> exists y, In y (flatten (mark t)) /\ (y = x \/ y = marked x).
Proof.
  induction t as [q kids IH] using qtree_ind'. intros x Hx. cbn [mark].
  destruct (m_managed q) eqn:Hm; [|exists x; split; [assumption|left; reflexivity]].
  apply in_flatten_inv in Hx as [->|(k & Hk & Hx)].
  - exists (marked q). split; [cbn; left; reflexivity|right; reflexivity].
  - rewrite Forall_forall in IH. destruct (IH k Hk x Hx) as (y & Hy & Hor).
    exists y. split; [|assumption]. eapply in_flatten_kid; [apply in_map; exact Hk|assumption].
Qed.
Lemma mark_in_rev t : forall y, In y (flatten (mark t)) -> exists x, In x (flatten t) /\ (y = x \/ y = marked x).
Proof.
  induction t as [q kids IH] using qtree_ind'. intros y Hy. cbn [mark] in Hy.
  destruct (m_managed q) eqn:Hm; [|exists y; split; [assumption|left; reflexivity]].
  apply in_flatten_inv in Hy as [->|(k' & Hk' & Hy)].
  - exists q. split; [cbn; left; reflexivity|right; reflexivity].
  - apply in_map_iff in Hk' as (k & <- & Hk). rewrite Forall_forall in IH.
    destruct (IH k Hk y Hy) as (x & Hx & Hor). exists x. split; [|assumption].
    eapply in_flatten_kid; eassumption.
Qed.
Lemma marked_core x : core_eq x (marked x). Proof. repeat split. Qed.
Lemma mark_unmanaged t : m_managed (troot t) = false -> mark t = t.
Proof. destruct t as [q kids]. cbn. intros ->. reflexivity. Qed.

(* ---- shape of upd ---- *)
Definition upd_root (c : conf_tree) (pq : mq) (ex : option qtree) : mq :=
  match ex with
  | Some (QT q0 _) => update_props (merge_parent pq (apply_conf c q0))
  | None => new_queue c pq
  end.
Definition ex_kids (ex : option qtree) : list qtree := match ex with Some (QT _ k0) => k0 | None => [] end.
Lemma upd_unfold c pq ex : upd c pq ex = QT (upd_root c pq ex) (upd_kids (ct_kids c) (upd_root c pq ex) (ex_kids ex)).
Proof. destruct c. destruct ex as [[q0 k0]|]; reflexivity. Qed.
Lemma in_upd_kids_visited ckids q k0 c1 : In c1 ckids -> In (upd c1 q (find_kid (ct_id c1) k0)) (upd_kids ckids q k0).
Proof.
  intros H. unfold upd_kids. apply in_or_app. left.
  apply (in_map (fun c1 => upd c1 q (find_kid (ct_id c1) k0))). assumption.
Qed.
Lemma in_upd_kids_unvisited ckids q k0 k : In k k0 -> memN (qid k) (map ct_id ckids) = false -> In (mark k) (upd_kids ckids q k0).
Proof.
  intros H Hm. unfold upd_kids. apply in_or_app. right. apply in_map. apply filter_In. split; [assumption|].
  rewrite Hm. reflexivity.
Qed.
Lemma in_upd_kids_inv ckids q k0 r : In r (upd_kids ckids q k0) ->
  (exists c1, In c1 ckids /\ r = upd c1 q (find_kid (ct_id c1) k0)) \/
  (exists k, In k k0 /\ memN (qid k) (map ct_id ckids) = false /\ r = mark k).
Proof.
  unfold upd_kids. intros H. apply in_app_or in H as [H|H].
  - left. apply in_map_iff in H as (c1 & <- & Hc). exists c1. split; [assumption|reflexivity].
  - right. apply in_map_iff in H as (k & <- & Hk). apply filter_In in Hk as [Hk Hf]. exists k.
    split; [assumption|]. split; [|reflexivity]. apply negb_true_iff in Hf. assumption.
Qed.

(* ---- accept_preserves ---- *)
Lemma upd_root_core c pq q0 k0 : core_eq q0 (upd_root c pq (Some (QT q0 k0))).
Proof. destruct c. repeat split. Qed.

Lemma upd_kids_preserve ckids q k0 :
  Forall (fun c1 => forall pq t x, tree_okb t = true -> In x (flatten t) ->
                    exists y, In y (flatten (upd c1 pq (Some t))) /\ core_eq x y) ckids ->
  NoDup (map qid k0) -> (forall k, In k k0 -> tree_okb k = true) ->
  forall k x, In k k0 -> In x (flatten k) ->
  exists r y, In r (upd_kids ckids q k0) /\ In y (flatten r) /\ core_eq x y.
Proof.
  intros IH Hnd Hok k x Hk Hx.
  destruct (memN (qid k) (map ct_id ckids)) eqn:Hm.
  - apply memN_In in Hm. apply in_map_iff in Hm as (c1 & Hid & Hc1).
    rewrite Forall_forall in IH. specialize (IH c1 Hc1 q k x (Hok k Hk) Hx) as (y & Hy & Hc).
    exists (upd c1 q (find_kid (ct_id c1) k0)), y. split; [apply in_upd_kids_visited; assumption|].
    rewrite Hid, (find_kid_unique k0 k Hnd Hk). split; assumption.
  - destruct (mark_in k x Hx) as (y & Hy & Hor). exists (mark k), y.
    split; [apply in_upd_kids_unvisited; assumption|]. split; [assumption|].
    destruct Hor as [->| ->]; [apply core_eq_refl|apply marked_core].
Qed.

Lemma upd_preserve c : forall pq t x, tree_okb t = true -> In x (flatten t) ->
  exists y, In y (flatten (upd c pq (Some t))) /\ core_eq x y.
Proof.
  induction c as [id par mx gu ma pr ckids IH] using conf_tree_ind'. intros pq [q0 k0] x Hok Hx.
  rewrite upd_unfold. cbn [ct_kids ex_kids]. apply tree_okb_inv in Hok as (_ & Hnd & Hkids).
  apply in_flatten_inv in Hx as [->|(k & Hk & Hx)].
  - exists (upd_root (CT id par mx gu ma pr ckids) pq (Some (QT q0 k0))).
    split; [cbn [flatten]; left; reflexivity|apply upd_root_core].
  - destruct (upd_kids_preserve ckids (upd_root (CT id par mx gu ma pr ckids) pq (Some (QT q0 k0))) k0 IH Hnd
                (fun k Hk => proj2 (Hkids k Hk)) k x Hk Hx) as (r & y & Hr & Hy & Hc).
    exists y. split; [|assumption]. eapply in_flatten_kid; eassumption.
Qed.

Lemma reload_tree_unfold c q0 k0 :
  reload_tree c (QT q0 k0) = QT (update_props (apply_conf c q0)) (upd_kids (ct_kids c) (update_props (apply_conf c q0)) k0).
Proof. reflexivity. Qed.

Lemma reload_preserve c t x : tree_okb t = true -> In x (flatten t) ->
  exists y, In y (flatten (reload_tree c t)) /\ core_eq x y.
Proof.
  destruct t as [q0 k0]. intros Hok Hx. rewrite reload_tree_unfold.
  apply tree_okb_inv in Hok as (_ & Hnd & Hkids).
  apply in_flatten_inv in Hx as [->|(k & Hk & Hx)].
  - eexists. split; [cbn; left; reflexivity|]. repeat split.
  - assert (IH : Forall (fun c1 => forall pq t x, tree_okb t = true -> In x (flatten t) ->
                    exists y, In y (flatten (upd c1 pq (Some t))) /\ core_eq x y) (ct_kids c)).
    { apply Forall_forall. intros c1 _. apply upd_preserve. }
    destruct (upd_kids_preserve (ct_kids c) (update_props (apply_conf c q0)) k0 IH Hnd
                (fun k Hk => proj2 (Hkids k Hk)) k x Hk Hx) as (r & y & Hr & Hy & Hc).
    exists y. split; [|assumption]. eapply in_flatten_kid; eassumption.
Qed.

(* every queue after the reload either existed before (same id) or is new and empty *)
Definition flatten_opt (ex : option qtree) : list mq := match ex with Some t => flatten t | None => [] end.
Lemma upd_kids_origin ckids q k0 :
  Forall (fun c1 => forall pq ex y, In y (flatten (upd c1 pq ex)) ->
                    (exists x, In x (flatten_opt ex) /\ m_id x = m_id y) \/ m_ledger y = empty_ledger) ckids ->
  forall r y, In r (upd_kids ckids q k0) -> In y (flatten r) ->
  (exists k x, In k k0 /\ In x (flatten k) /\ m_id x = m_id y) \/ m_ledger y = empty_ledger.
Proof.
  intros IH r y Hr Hy. apply in_upd_kids_inv in Hr as [(c1 & Hc1 & ->)|(k & Hk & _ & ->)].
  - rewrite Forall_forall in IH. destruct (IH c1 Hc1 _ _ y Hy) as [(x & Hx & Hid)|He]; [|right; assumption].
    destruct (find_kid (ct_id c1) k0) as [k1|] eqn:Hf; [|contradiction].
    apply find_kid_some in Hf as [Hk1 _]. left. exists k1, x. repeat split; assumption.
  - destruct (mark_in_rev k y Hy) as (x & Hx & Hor). left. exists k, x. repeat split; try assumption.
    destruct Hor as [->| ->]; reflexivity.
Qed.
Lemma upd_origin c : forall pq ex y, In y (flatten (upd c pq ex)) ->
  (exists x, In x (flatten_opt ex) /\ m_id x = m_id y) \/ m_ledger y = empty_ledger.
Proof.
  induction c as [id par mx gu ma pr ckids IH] using conf_tree_ind'. intros pq ex y Hy.
  rewrite upd_unfold in Hy. cbn [ct_kids] in Hy. apply in_flatten_inv in Hy as [->|(r & Hr & Hy)].
  - destruct ex as [[q0 k0]|]; [left|right; reflexivity]. exists q0. split; [cbn; left; reflexivity|reflexivity].
  - destruct (upd_kids_origin ckids _ _ IH r y Hr Hy) as [(k & x & Hk & Hx & Hid)|He]; [|right; assumption].
    left. exists x. split; [|assumption]. destruct ex as [[q0 k0]|]; [|contradiction].
    cbn [flatten_opt]. eapply in_flatten_kid; eassumption.
Qed.
Lemma reload_origin c t y : In y (flatten (reload_tree c t)) ->
  (exists x, In x (flatten t) /\ m_id x = m_id y) \/ m_ledger y = empty_ledger.
Proof.
  destruct t as [q0 k0]. rewrite reload_tree_unfold. intros Hy.
  apply in_flatten_inv in Hy as [->|(r & Hr & Hy)].
  - left. exists q0. split; [cbn; left; reflexivity|reflexivity].
  - assert (IH : Forall (fun c1 => forall pq ex y, In y (flatten (upd c1 pq ex)) ->
                    (exists x, In x (flatten_opt ex) /\ m_id x = m_id y) \/ m_ledger y = empty_ledger) (ct_kids c)).
    { apply Forall_forall. intros c1 _. apply upd_origin. }
    destruct (upd_kids_origin (ct_kids c) _ _ IH r y Hr Hy) as [(k & x & Hk & Hx & Hid)|He]; [|right; assumption].
    left. exists x. split; [|assumption]. eapply in_flatten_kid; eassumption.
Qed.

Theorem accept_preserves_thm c t : tree_okb t = true -> P_preserve (flatten t) (flatten (reload_tree c t)) = true.
Proof.
  intros Hok. unfold P_preserve. apply andb_true_intro. split.
  - apply forallb_forall. intros x Hx. apply existsb_exists.
    destruct (reload_preserve c t x Hok Hx) as (y & Hy & Hc). exists y. split; [assumption|apply core_eq_same; assumption].
  - apply forallb_forall. intros y Hy. apply orb_true_iff.
    destruct (reload_origin c t y Hy) as [(x & Hx & Hid)|He].
    + left. apply existsb_exists. exists x. split; [assumption|]. rewrite Hid. apply N.eqb_refl.
    + right. rewrite He. apply ledger_eqb_refl.
Qed.
