(* C03 over mixed runs of [m_step3]: removeNode of the second fragment ([m_node_remove], Core/Model2.v) under the gang invariant [InvG2].
   Ghost state as in Core/Model2ProofsB5.v (the model deletes the node first; the ghost keeps it and unbinds one allocation per
   iteration); one iteration is [unbind_step] (Core/Model3ProofsO4.v), which also returns [Bounded3] of the next state. *)
From Coq Require Import List ZArith NArith Bool Lia ZifyBool.
From YK Require Import Base.Int64 Base.Res Base.ResSpec Base.ResLemmas Base.ResLaws Base.ResLaws2 Base.ResLawsPred
  Core.Obs Core.Model Core.Model2 Core.Model3 Core.Ledger
  Core.BooksLemmas Core.BooksDefs Core.BooksTree Core.BooksQueue Core.BooksApp Core.BooksState Core.BooksDrain Core.BooksOps
  Core.BooksOps2 Core.BooksOps4 Core.Model2ProofsB1 Core.Model2ProofsB2 Core.Model2ProofsB4 Core.Model2ProofsB5 Core.Model3ProofsD Core.Model3ProofsD2 Core.Model3ProofsG1 Core.Model3ProofsG2
  Core.Model3ProofsG4 Core.Model3ProofsG5 Core.Model3ProofsG6 Core.Model3ProofsA1 Core.Model3ProofsA2 Core.Model3ProofsA3
  Core.Model3ProofsO1 Core.Model3ProofsO2 Core.Model3ProofsO4 Core.Model3ProofsR1 Core.Model3ProofsR2.
Import ListNotations.
Open Scope Z_scope.
Set Default Timeout 60.

Definition gh_next (γ : ostate) (n : onode) (x : oalloc) (a : oapp) : ostate :=
  add_counts (upd_node (q_dec (upd_app γ (ap_id a) (fun _ => release_alloc_app a x TT_Timeout)) (ap_queue a) (oa_res x))
                       (on_id n) (fun _ => n_remove n (oa_key x))) (-1) 0.

Lemma gh_next_ok γ n x a : InvG2 γ -> BooksG γ -> Bounded3 γ -> In n (s_nodes γ) -> In x (on_allocs n) -> In a (s_apps γ) -> In x (ap_allocs a) ->
  oa_ph x = false -> InvG2 (gh_next γ n x a) /\ BooksG (gh_next γ n x a) /\ Bounded3 (gh_next γ n x a).
Proof. intros HI2 HB HBd Hn Hxn Ha Hx Xph. pose proof (ig2_inv γ HI2) as HI.
  pose proof (ig_app_wf γ HI a Ha) as W. pose proof (bg_apps γ HB a Ha) as B. pose proof (bounded3_app γ a HBd Ha) as Bd3.
  destruct (w3_alloc a W x Hx) as [Wx Nx Px _ _].
  assert (Xnode : oa_node x = on_id n) by (apply (k3_node n (ig_nodes γ HI n Hn) x Hxn)).
  set (a' := release_alloc_app a x TT_Timeout). set (s1 := upd_app γ (ap_id a) (fun _ => a')).
  assert (Hdom : dominated γ (ap_queue a) (oa_res x)).
  { intros c oc Hc Ec k. destruct (find_queue_some γ c oc Ec) as [Hoc Eid]. subst c.
    pose proof (g_alloc_le_allocated a x k W B Hx Xph). pose proof (g_allocated_dominated γ a HI HB Ha oc k Hoc Hc). lia. }
  destruct (q_dec_other s1 (ap_queue a) (oa_res x)) as (O1 & O2 & O3 & O4).
  apply (unbind_step γ (gh_next γ n x a) a a' n x HI2 HB HBd Ha Hn Hx Xnode).
  - intros m y Hm Hy Hi Eapp C. destruct (lk_1 γ (ig2_link γ HI2) m y Hm Hy Hi) as (b & ph & Hb & Eb & Hph & Pph & Ek & _).
    assert (b = a) by (apply (g_same_app γ a b HI Ha Hb); congruence). subst b.
    assert (ph = x) by (apply (nodup_key_inj oa_key (ap_allocs a)); auto; [apply (w3_alloc_keys a W)|congruence]). congruence.
  - unfold gh_next. cbn [add_counts upd_node s_apps]. fold a' s1. rewrite O1. reflexivity.
  - unfold gh_next. cbn [add_counts upd_node s_nodes]. fold a' s1. rewrite O2. reflexivity.
  - unfold gh_next. cbn [add_counts upd_node s_queues]. fold a' s1. apply (g_q_dec_queues γ s1 (ap_queue a) (oa_res x) eq_refl Wx Hdom).
  - unfold gh_next. cbn [add_counts upd_node s_foreign]. fold a' s1. rewrite O3. reflexivity.
  - unfold gh_next. cbn [add_counts upd_node s_nallocs]. fold a' s1. rewrite O4. reflexivity.
  - apply rel_alloc_id.
  - apply rel_alloc_queue.
  - apply rel_alloc_allocs.
  - apply (rar_req_incl a x TT_Timeout).
  - apply (rar_req_keep a x TT_Timeout).
  - apply (rar_books a x TT_Timeout W B Bd3 Hx Xph).
  - apply (rar_wf a x TT_Timeout W Xph).
  - intros k. rewrite Xph. apply (rar_delta a x TT_Timeout W Bd3 Hx Xph k).
  - intros k. rewrite Xph. destruct (rar_delta a x TT_Timeout W Bd3 Hx Xph k) as [_ D]. unfold a'. lia.
  - apply rel_alloc_pending_eq. Qed.

(* the node of the ghost state after the iteration *)
Lemma gh_next_node γ n x t a id : InvG γ -> In n (s_nodes γ) -> on_allocs n = x :: t -> on_id n = id ->
  (exists n', In n' (s_nodes (gh_next γ n x a)) /\ on_id n' = id /\ on_allocs n' = t) /\
  filter (fun m => negb (on_id m =? id)%N) (s_nodes (gh_next γ n x a)) = filter (fun m => negb (on_id m =? id)%N) (s_nodes γ) /\
  s_nallocs (gh_next γ n x a) = s_nallocs γ + -1.
Proof. intros HI Hn El <-. set (a' := release_alloc_app a x TT_Timeout). set (s1 := upd_app γ (ap_id a) (fun _ => a')).
  destruct (q_dec_other s1 (ap_queue a) (oa_res x)) as (O1 & O2 & O3 & O4).
  assert (Enodes : s_nodes (gh_next γ n x a) = updk on_id (s_nodes γ) (on_id n) (fun _ => n_remove n (oa_key x))).
  { unfold gh_next. cbn [add_counts upd_node s_nodes]. fold a' s1. rewrite O2. reflexivity. }
  assert (Hxn : In x (on_allocs n)) by (rewrite El; left; reflexivity).
  split; [|split].
  - exists (n_remove n (oa_key x)). split; [rewrite Enodes; apply (in_updk_const on_id); [apply (ig_node_ids γ HI)|exact Hn|auto]|].
    unfold n_remove. rewrite (g_find_node_alloc_in γ n x HI Hn Hxn). cbn [n_with on_id on_allocs]. split; [reflexivity|].
    rewrite El. unfold del_alloc. cbn [filter]. rewrite N.eqb_refl. cbn [negb].
    apply filter_all. intros y Hy. apply negb_true_iff, N.eqb_neq. intros C.
    pose proof (k3_keys n (ig_nodes γ HI n Hn)) as Hnd. rewrite El in Hnd. cbn [akeys map] in Hnd. inversion Hnd as [|? ? Hni _]; subst. apply Hni. rewrite <- C. apply in_map. assumption.
  - rewrite Enodes. apply filter_updk_out. intros m _. unfold n_remove. destruct (find_alloc _ _); [reflexivity|]. destruct (find_alloc _ _); reflexivity.
  - unfold gh_next. cbn [add_counts upd_node s_nallocs]. fold a' s1. rewrite O4. reflexivity. Qed.

Lemma ghost_runG id : forall l s γ s' c, remove_node_allocs s l = (s', c) -> Sim s γ -> InvG2 γ -> BooksG γ -> Bounded3 γ ->
  (exists n, In n (s_nodes γ) /\ on_id n = id /\ on_allocs n = l) -> (forall x, In x l -> oa_ph x = false /\ oa_release x = 0%N) ->
  exists γ', Sim s' γ' /\ InvG2 γ' /\ BooksG γ' /\ (exists n', In n' (s_nodes γ') /\ on_id n' = id /\ on_allocs n' = []) /\
    filter (fun m => negb (on_id m =? id)%N) (s_nodes γ') = filter (fun m => negb (on_id m =? id)%N) (s_nodes γ) /\
    s_nallocs γ' = s_nallocs γ - c /\ s_nodes s' = s_nodes s /\ s_nallocs s' = s_nallocs s.
Proof. induction l as [|x t IH]; intros s γ s' c H (S1 & S2 & S3) HI2 HB HBd (n & Hn & Enid & El) Hph.
  - cbn in H. inversion H; subst s' c. exists γ. split; [repeat split; assumption|]. split; [assumption|]. split; [assumption|].
    split; [exists n; auto|]. split; [reflexivity|]. split; [lia|auto].
  - pose proof (ig2_inv γ HI2) as HI. assert (Hxn : In x (on_allocs n)) by (rewrite El; left; reflexivity).
    destruct (Hph x (or_introl eq_refl)) as [Xph Xl].
    destruct (ig_owned γ HI n x Hn Hxn) as (a & Ha & Eid & [Hx|(Hi & _)]); [|rewrite (infl_nolink x Xl) in Hi; discriminate].
    pose proof (ig_app_wf γ HI a Ha) as W.
    cbn [remove_node_allocs] in H. rewrite (find_app_sim s γ _ S1), <- Eid, (g_find_app_in γ a HI Ha) in H.
    rewrite (find_alloc_in _ x (w3_alloc_keys a W) Hx) in H. cbv zeta in H.
    match type of H with (let '(s3, n0) := remove_node_allocs ?S t in _) = _ => set (s2 := S) in *; destruct (remove_node_allocs s2 t) as [s3 c3] eqn:E3 end.
    inversion H; subst s' c; clear H.
    set (γ1 := gh_next γ n x a).
    destruct (gh_next_ok γ n x a HI2 HB HBd Hn Hxn Ha Hx Xph) as (HI1 & HB1 & HBd1).
    destruct (gh_next_node γ n x t a id HI Hn El Enid) as (En1 & Ef1 & Ec1).
    assert (Sim1 : Sim s2 γ1).
    { unfold s2, γ1, gh_next. split; [|split].
      - cbn [add_counts upd_node s_apps]. rewrite !(proj1 (q_dec_other _ _ _)). cbn [upd_app s_apps]. rewrite S1. reflexivity.
      - cbn [add_counts upd_node s_queues]. apply q_dec_queues_ext. exact S2.
      - cbn [add_counts upd_node s_foreign]. rewrite !(proj1 (proj2 (proj2 (q_dec_other _ _ _)))). exact S3. }
    destruct (IH s2 γ1 s3 c3 E3 Sim1 HI1 HB1 HBd1 En1) as (γ' & R1 & R2 & R3 & R4 & R5 & R6 & R7 & R8).
    + intros y Hy. apply Hph. right. assumption.
    + exists γ'. split; [assumption|]. split; [assumption|]. split; [assumption|]. split; [assumption|].
      split; [rewrite R5; exact Ef1|]. split; [rewrite R6; fold γ1 in Ec1; rewrite Ec1; lia|].
      unfold s2 in R7, R8. rewrite (proj1 (proj2 (q_dec_other _ _ _))) in R7. rewrite (proj2 (proj2 (proj2 (q_dec_other _ _ _)))) in R8. auto. Qed.

(* ================================================================== an empty node leaves the node list *)
Lemma flat_map_filter_empty (P : onode -> bool) l : (forall m, In m l -> P m = false -> on_allocs m = []) ->
  flat_map on_allocs (filter P l) = flat_map on_allocs l.
Proof. induction l as [|m t IH]; intros H; [reflexivity|]. cbn [filter flat_map]. destruct (P m) eqn:E.
  - cbn [flat_map]. rewrite IH; [reflexivity|]. intros m' Hm'. apply H. right. assumption.
  - rewrite (H m (or_introl eq_refl) E). cbn [app]. apply IH. intros m' Hm'. apply H. right. assumption. Qed.

Section DropNodeG.
  Variables (γ s' : ostate) (id : N) (n0 : onode) (tot : res).
  Hypothesis HI2 : InvG2 γ.
  Hypothesis HB : BooksG γ.
  Hypothesis Hn0 : In n0 (s_nodes γ).
  Hypothesis En0 : on_id n0 = id.
  Hypothesis Hempty : on_allocs n0 = [].
  Hypothesis Ea : s_apps s' = s_apps γ.
  Hypothesis Eq : s_queues s' = map (g_total tot) (s_queues γ).
  Hypothesis En : s_nodes s' = filter (fun m => negb (on_id m =? id)%N) (s_nodes γ).
  Hypothesis Ef : s_foreign s' = s_foreign γ.
  Hypothesis Ec : s_nallocs s' = s_nallocs γ.

  Let HI : InvG γ := ig2_inv γ HI2.
  Let HL : LinkOK γ := ig2_link γ HI2.
  Lemma dng_in m : In m (s_nodes s') <-> In m (s_nodes γ) /\ on_id m <> id.
  Proof. rewrite En, filter_In. destruct (N.eqb_spec (on_id m) id); cbn [negb]; intuition congruence. Qed.
  (* a node that lists something survives *)
  Lemma dng_kept m y : In m (s_nodes γ) -> In y (on_allocs m) -> In m (s_nodes s').
  Proof. intros Hm Hy. apply dng_in. split; [assumption|]. intros C.
    assert (m = n0) by (apply (g_same_node γ n0 m HI Hn0 Hm); congruence). subst m. rewrite Hempty in Hy. contradiction. Qed.

  Theorem drop_node_stepG : InvG2 s' /\ BooksG s'.
  Proof. assert (G : InvG s' /\ BooksG s').
    { apply (gang_frame_step γ s' (g_total tot) HI HB Ea Eq (g_total_id tot) (g_total_par tot) (g_total_leaf tot) (g_total_alloc tot) (g_total_pend tot)).
      - rewrite Ef. apply (ig_foreign γ HI).
      - rewrite En. apply NoDup_map_filter. apply (ig_node_ids γ HI).
      - intros m Hm. apply dng_in in Hm. apply (ig_nodes γ HI m (proj1 Hm)).
      - intros m y Hm Hy. apply dng_in in Hm. rewrite Ea. apply (ig_owned γ HI m y (proj1 Hm) Hy).
      - intros a x Ha Hx. rewrite Ea in Ha. destruct (ig_onnode γ HI a x Ha Hx) as (m & Hm & Em & Hxm). exists m. split; [apply (dng_kept m x Hm Hxm)|auto].
      - rewrite Ec, (ig_count γ HI). unfold all_allocs. rewrite Ea. reflexivity.
      - intros k. unfold node_records. rewrite En, flat_map_filter_empty; [reflexivity|]. intros m Hm Hf. apply negb_false_iff, N.eqb_eq in Hf.
        assert (m = n0) by (apply (g_same_node γ n0 m HI Hn0 Hm); congruence). subst m. exact Hempty. }
    destruct G as [I' B']. split; [|exact B']. constructor; [exact I'|]. constructor.
    - intros m y Hm Hy Hi. apply dng_in in Hm. rewrite Ea. apply (lk_1 γ HL m y (proj1 Hm) Hy Hi).
    - intros a ph r Ha Hph Pph Hl Hr Ek Pr Ar. rewrite Ea in Ha. destruct (lk_2 γ HL a ph r Ha Hph Pph Hl Hr Ek Pr Ar) as (C1 & C2 & C3 & C4).
      split; [exact C1|]. split; [exact C2|]. split.
      + intros E m y Hm Hy. apply dng_in in Hm. apply (C3 E m y (proj1 Hm) Hy).
      + intros E. destruct (C4 E) as (m & Hm & Em & Hrm). exists m. split; [apply (dng_kept m r Hm Hrm)|auto]. Qed.
End DropNodeG.

(* ================================================================== removeNode *)
Theorem m_node_remove_stepG s s' id : InvG2 s -> BooksG s -> Bounded3 s -> m_node_remove s id = Some s' -> InvG2 s' /\ BooksG s'.
Proof. intros HI2 HB HBd H. unfold m_node_remove in H.
  destruct (find_node s id) as [n|] eqn:En; [|inversion H; subst; split; assumption].
  destruct (negb match on_reservations n with [] => true | _ => false end); [discriminate|]. cbn [orb] in H.
  destruct (forallb (fun x => negb (oa_ph x) && (oa_release x =? 0)%N) (on_allocs n)) eqn:Eg; [|discriminate]. cbn [negb] in H.
  set (s0 := set_nodes s (filter (fun m => negb (on_id m =? id)%N) (s_nodes s))) in *.
  destruct (remove_node_allocs s0 (on_allocs n)) as [s1 cnt] eqn:E1. inversion H; subst s'; clear H.
  rewrite forallb_forall in Eg. destruct (find_node_some _ _ _ En) as [Hn Enid].
  destruct (ghost_runG id (on_allocs n) s0 s s1 cnt E1) as (γ' & (S1 & S2 & S3) & HI' & HB' & (n' & Hn' & En' & El') & Ef' & Ec' & Nn & Nc); auto.
  - repeat split; reflexivity.
  - exists n. auto.
  - intros x Hx. specialize (Eg x Hx). apply andb_true_iff in Eg. destruct Eg as [G1 G2]. apply negb_true_iff in G1. apply N.eqb_eq in G2. auto.
  - destruct (part_update_total_queues s1 (Multiply (Some (on_total n)) (-1))) as [tot Et].
    apply (drop_node_stepG γ' _ id n' tot HI' HB' Hn' En' El').
    + exact S1.
    + change (s_queues (part_update_total s1 (Multiply (Some (on_total n)) (-1))) = map (g_total tot) (s_queues γ')). rewrite Et, S2. reflexivity.
    + change (s_nodes s1 = filter (fun m => negb (on_id m =? id)%N) (s_nodes γ')). rewrite Nn, Ef'. reflexivity.
    + exact S3.
    + change (s_nallocs s1 + - cnt = s_nallocs γ'). rewrite Nc, Ec'. unfold s0. cbn [set_nodes s_nallocs]. lia. Qed.
