(* C09 bridge, part 5: histories.  Along every run of [m_step4] that satisfies the hypotheses of the run theorem of C09d
   ([rinv_reachable4_partial]: Books, Inv, RInv initially, RunOK4, Run9) and starts with a clean completed list, the structural
   part of the C09 oracle is silent in every visited state; the whole oracle is silent in every visited state in which the
   partition counter is at least the number of reservations ([NresOK], not part of [RInv]).  Examples on the nine step history
   of Core/Model4ProofsEx.v; the witness that [RInv] does not imply the counter clauses. *)
From Coq Require Import List ZArith NArith Bool Lia ZifyBool.
From YK Require Import Base.Res Core.Obs Core.Reserve Oracles.CoreC09 Core.Model4 Core.BooksDefs
  Core.Model4ProofsR1 Core.Model4ProofsR12 Core.Model4ProofsR9 Core.Model4ProofsB2 Core.Model4ProofsEx
  Core.Model4ProofsBr1 Core.Model4ProofsBr2 Core.Model4ProofsBr3 Core.Model4ProofsBr4.
Import ListNotations.
Open Scope N_scope.
Set Default Timeout 60.

(* ------------------------------------------------------------------ the side conditions along a run *)
Lemma m_run4_completed deny steps : forall s0, s_completed (m_run4 deny s0 steps) = s_completed s0.
Proof. induction steps as [|st t IH]; intros s0; [reflexivity|]. cbn [m_run4]. destruct (m_step4 deny s0 st) as [s1|] eqn:E; [|reflexivity].
  rewrite IH. eapply m_step4_completed; eassumption. Qed.
Lemma m_run4s_completed deny steps : forall s0, s_completed (m_run4s deny s0 steps) = s_completed s0.
Proof. induction steps as [|st t IH]; intros s0; [reflexivity|]. cbn [m_run4s]. destruct (m_step4 deny s0 st) as [s1|] eqn:E; [|reflexivity].
  rewrite IH. eapply m_step4_completed; eassumption. Qed.
Lemma compl_clean_same s s' : s_completed s' = s_completed s -> ComplClean s -> ComplClean s'.
Proof. unfold ComplClean. intros E H. rewrite E. exact H. Qed.

Lemma inv_queues_reg s : Inv s -> QueuesReg s.
Proof. intros HI a Ha. destruct (inv_app_leaf s HI a Ha) as (q & Eq & _). unfold find_queue in Eq. apply find_some in Eq. destruct Eq as [Hq E].
  apply N.eqb_eq in E. eauto. Qed.
Lemma inv_wf9 s : Inv s -> ComplClean s -> WF9 s.
Proof. intros HI Hc. constructor; [apply inv_ids; exact HI|exact Hc|apply inv_queues_reg; exact HI]. Qed.

(* the run hypotheses are closed under prefixes: every visited state is the end of a run *)
Lemma RunOK4_firstn deny steps : forall n s, RunOK4 deny s steps -> RunOK4 deny s (firstn n steps).
Proof. induction steps as [|st t IH]; intros n s H; [destruct n; exact I|]. destruct n as [|n]; [exact I|]. cbn [firstn RunOK4] in *.
  destruct H as (H1 & H2 & H3 & H4). split; [exact H1|]. split; [exact H2|]. split; [exact H3|]. destruct (m_step4 deny s st); auto. Qed.
Lemma Run9_firstn deny steps : forall n s, Run9 deny s steps -> Run9 deny s (firstn n steps).
Proof. induction steps as [|st t IH]; intros n s H; [destruct n; exact I|]. destruct n as [|n]; [exact I|]. cbn [firstn Run9] in *.
  destruct H as (H1 & H2). split; [exact H1|]. destruct (m_step4 deny s st); auto. Qed.
Lemma Run9i_firstn deny steps : forall n s, Run9i deny s steps -> Run9i deny s (firstn n steps).
Proof. induction steps as [|st t IH]; intros n s H; [destruct n; exact I|]. destruct n as [|n]; [exact I|]. cbn [firstn Run9i] in *.
  destruct H as (H1 & H2 & H3). split; [exact H1|]. split; [exact H2|]. destruct (m_step4 deny s st); auto. Qed.

(* ------------------------------------------------------------------ the oracle's predicate is a theorem for the runs *)
Section Run.
  Variables (deny : list (N * N)) (steps : list ostep) (s0 : ostate).
  Hypothesis HB : Books s0.
  Hypothesis HI : Inv s0.
  Hypothesis HR : RInv s0.
  Hypothesis HC : ComplClean s0.
  Hypothesis HRun : RunOK4 deny s0 steps.
  Hypothesis H9 : Run9 deny s0 steps.

  Lemma run_end_facts : RInv (m_run4 deny s0 steps) /\ WF9 (m_run4 deny s0 steps).
  Proof. destruct (rinv_reachable4_partial deny steps s0 HB HI HR HRun H9) as (R & _ & I). split; [exact R|].
    apply inv_wf9; [exact I|]. apply (compl_clean_same s0); [apply m_run4_completed|exact HC]. Qed.
  Theorem run_oracle_struct : c09_struct (m_run4 deny s0 steps) = [].
  Proof. destruct run_end_facts as [R W]. apply rinv_oracle_struct; assumption. Qed.
  Theorem run_oracle : NresOK (m_run4 deny s0 steps) -> c09_state (m_run4 deny s0 steps) = [].
  Proof. destruct run_end_facts as [R W]. apply rinv_oracle; assumption. Qed.
  Theorem run_oracle_only_counter : forall k, In k (c09_state (m_run4 deny s0 steps)) -> k = 903 \/ k = 991.
  Proof. destruct run_end_facts as [R W]. apply rinv_oracle_only_counter; assumption. Qed.
End Run.

(* every visited state *)
Theorem run_oracle_struct_visited deny steps s0 : Books s0 -> Inv s0 -> RInv s0 -> ComplClean s0 -> RunOK4 deny s0 steps -> Run9 deny s0 steps ->
  forall n, c09_struct (m_run4 deny s0 (firstn n steps)) = [].
Proof. intros HB HI HR HC HRun H9 n. apply run_oracle_struct; auto; [apply RunOK4_firstn|apply Run9_firstn]; assumption. Qed.
Theorem run_oracle_visited deny steps s0 : Books s0 -> Inv s0 -> RInv s0 -> ComplClean s0 -> RunOK4 deny s0 steps -> Run9 deny s0 steps ->
  forall n, NresOK (m_run4 deny s0 (firstn n steps)) -> c09_state (m_run4 deny s0 (firstn n steps)) = [].
Proof. intros HB HI HR HC HRun H9 n. apply run_oracle; auto; [apply RunOK4_firstn|apply Run9_firstn]; assumption. Qed.

(* the run theorem that is independent of C03 ([rinv_run_ids]: identifiers carried per visited state): the side conditions of the
   visited state are hypotheses, decidable by [wf9_b]; the completed list is still the initial one *)
Theorem run_ids_oracle_struct deny steps s0 : RInv s0 -> Run9i deny s0 steps -> forall n,
  WF9 (m_run4s deny s0 (firstn n steps)) -> c09_struct (m_run4s deny s0 (firstn n steps)) = [].
Proof. intros HR H n W. apply rinv_oracle_struct; [|exact W]. apply rinv_run_ids; [exact HR|apply Run9i_firstn; exact H]. Qed.

(* ------------------------------------------------------------------ examples *)
(* the state after six steps of the history of Model4ProofsEx.v: node 1 reserved for ask 10 of application 1 *)
Definition e6 : ostate := m_run4 [] e4_s0 (firstn 6 e4_steps).
Example e6_nontrivial : rv_app (proj09 e6) = [mkR 1 10 1] /\ rv_node (proj09 e6) = [mkR 1 10 1] /\ rv_queue (proj09 e6) = [(1, 1)] /\ rv_part (proj09 e6) = 1%Z.
Proof. vm_compute. repeat split; reflexivity. Qed.
Example e6_rinv : RInv e6. Proof. exact e4_mid. Qed.
Example e6_wf9 : WF9 e6. Proof. apply wf9_b_sound. vm_compute. reflexivity. Qed.
Example e6_nres : NresOK e6. Proof. unfold NresOK. apply Z.leb_le. vm_compute. reflexivity. Qed.
(* by computation ... *)
Example e6_oracle_computed : c09_state e6 = []. Proof. vm_compute. reflexivity. Qed.
(* ... and by the bridge *)
Example e6_oracle_proved : c09_state e6 = []. Proof. exact (rinv_oracle e6 e6_rinv e6_wf9 e6_nres). Qed.
Example e6_rinvo : RInvO e6.
Proof. apply oracle_rinvo; [exact (proj1 (proj1 (c09_state_spec e6) e6_oracle_computed))|apply (w_ids _ e6_wf9)|apply (w_compl _ e6_wf9)|].
  assert (G : forallb (fun n => negb (on_id n =? 0)) (s_nodes e6) = true) by (vm_compute; reflexivity).
  intros n Hn. rewrite forallb_forall in G. specialize (G n Hn). apply negb_true_iff, N.eqb_neq in G. exact G. Qed.

Example e4_compl0 : ComplClean e4_s0. Proof. intros a []. Qed.
(* the run theorem applies to the whole history, and agrees with the direct evaluation of the oracle on every visited state *)
Example e4_run_struct : forall n, c09_struct (m_run4 [] e4_s0 (firstn n e4_steps)) = [].
Proof. apply (run_oracle_struct_visited [] e4_steps e4_s0 e4_books0 e4_inv0 e4_rinv0 e4_compl0 (proj1 e4_run_ok) (proj2 e4_run_ok)). Qed.
Example e4_oracle_all : forallb (fun n => match c09_state (m_run4 [] e4_s0 (firstn n e4_steps)) with [] => true | _ => false end) (seq 0 10) = true.
Proof. vm_compute. reflexivity. Qed.
Example e5_run_struct : forall n, WF9 (m_run4s [] e4_s0 (firstn n e5_steps)) -> c09_struct (m_run4s [] e4_s0 (firstn n e5_steps)) = [].
Proof. apply (run_ids_oracle_struct [] e5_steps e4_s0 e4_rinv0 e5_run_ok). Qed.
Example e5_oracle_all : forallb (fun n => wf9_b (m_run4s [] e4_s0 (firstn n e5_steps)) &&
                                   match c09_state (m_run4s [] e4_s0 (firstn n e5_steps)) with [] => true | _ => false end) (seq 0 9) = true.
Proof. vm_compute. reflexivity. Qed.

(* ------------------------------------------------------------------ [RInv] does not imply the counter clauses *)
Definition set_nres (s : ostate) (z : Z) : ostate :=
  mkOS (s_nodes s) (s_apps s) (s_queues s) (s_total s) (s_nallocs s) (s_nph s) z (s_foreign s) (s_completed s) (s_rejected s) (s_ugm s).
Lemma rinv_set_nres s z : RInv s -> RInv (set_nres s z).
Proof. apply rinv_ext; reflexivity. Qed.
Definition e6_nres0 : ostate := set_nres e6 0.
Theorem rinv_counter_refuted : exists s, RInv s /\ WF9 s /\ c09_struct s = [] /\ c09_state s = [903; 991].
Proof. exists e6_nres0. split; [apply rinv_set_nres; exact e6_rinv|].
  split; [apply wf9_b_sound; vm_compute; reflexivity|]. split; vm_compute; reflexivity. Qed.

(* ------------------------------------------------------------------ summaries for Props/C09e.v *)
Lemma witnesses_all : (c09_state w1 = [] /\ ~ RInv w1) /\ (c09_state w2 = [] /\ ~ RInv w2) /\ (c09_state w3 = [] /\ ~ RInv w3).
Proof. split; [split; [vm_compute; reflexivity|exact w1_not_rinv]|]. split; [split; [vm_compute; reflexivity|exact w2_not_rinv]|].
  split; [vm_compute; reflexivity|exact w3_not_rinv]. Qed.
Lemma e6_example : rv_app (proj09 e6) = [mkR 1 10 1] /\ rv_node (proj09 e6) = [mkR 1 10 1] /\ rv_queue (proj09 e6) = [(1, 1)] /\
  RInv e6 /\ WF9 e6 /\ NresOK e6 /\ c09_state e6 = [] /\ RInvO e6.
Proof. exact (conj (proj1 e6_nontrivial) (conj (proj1 (proj2 e6_nontrivial)) (conj (proj1 (proj2 (proj2 e6_nontrivial)))
  (conj e6_rinv (conj e6_wf9 (conj e6_nres (conj e6_oracle_computed e6_rinvo))))))). Qed.
Lemma e4_example_run : (forall n, c09_struct (m_run4 [] e4_s0 (firstn n e4_steps)) = []) /\
  forallb (fun n => match c09_state (m_run4 [] e4_s0 (firstn n e4_steps)) with [] => true | _ => false end) (seq 0 10) = true.
Proof. exact (conj e4_run_struct e4_oracle_all). Qed.
