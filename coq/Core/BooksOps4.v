(* C03: every operation of the operational model preserves the books and the invariant.
   Part 4: node registration / capacity update / drain, foreign allocations (add, update, remove), and the
   dispatchers m_alloc and m_release with the environment assumptions on the request ([ReqOK]). *)
From Coq Require Import List ZArith NArith Bool Lia ZifyBool.
From YK Require Import Base.Int64 Base.Res Base.ResSpec Base.ResLemmas Base.ResLaws Base.ResLaws2 Base.ResLawsPred
  Core.Obs Core.Model Core.Ledger
  Core.BooksLemmas Core.BooksDefs Core.BooksTree Core.BooksQueue Core.BooksApp Core.BooksState Core.BooksDrain Core.BooksStep
  Core.BooksOps Core.BooksOps2 Core.BooksOps3.
Import ListNotations.
Open Scope Z_scope.

(* ------------------------------------------------------------------ a node record changes, not its allocation ledger *)
Section FrameNodes.
  Variables (s s' : ostate) (g : oqueue -> oqueue) (id : N) (f : onode -> onode).
  Hypothesis HI : Inv s.
  Hypothesis HB : Books0 s.
  Hypothesis Ea : s_apps s' = s_apps s.
  Hypothesis Eq : s_queues s' = map g (s_queues s).
  Hypothesis Ec : s_nallocs s' = s_nallocs s.
  Hypothesis G1 : forall q, q_id (g q) = q_id q.
  Hypothesis G2 : forall q, q_parent (g q) = q_parent q.
  Hypothesis G3 : forall q, q_leaf (g q) = q_leaf q.
  Hypothesis G4 : forall q, q_alloc (g q) = q_alloc q.
  Hypothesis G5 : forall q, q_pending (g q) = q_pending q.
  Hypothesis En : s_nodes s' = updk on_id (s_nodes s) id f.
  Hypothesis Hcore : forall m, In m (s_nodes s) -> on_id m = id ->
    on_id (f m) = on_id m /\ on_allocs (f m) = on_allocs m /\ on_allocated (f m) = on_allocated m.
  Hypothesis Hf : forall x a y, In x (s_foreign s') -> In a (s_apps s) -> In y (ap_requests a) -> oa_key x <> oa_key y.

  Lemma frame_nodes : Inv s' /\ Books s'.
  Proof. apply (frame_step s s' g HI HB Ea Eq Ec G1 G2 G3 G4 G5); auto.
    - rewrite En. unfold updk. rewrite map_map. erewrite map_ext_in; [apply (inv_node_ids s HI)|].
      intros m Hm. cbn. destruct (N.eqb_spec (on_id m) id) as [E|E]; [apply (Hcore m Hm E)|reflexivity].
    - intros m' Hm'. right. rewrite En in Hm'. apply in_updk in Hm'. destruct Hm' as (m & Hm & ->). exists m. split; [assumption|].
      destruct (N.eqb_spec (on_id m) id) as [E|E]; [apply (Hcore m Hm E)|auto].
    - intros m Hm. exists (if (on_id m =? id)%N then f m else m). split; [rewrite En; apply in_updk; exists m; auto|].
      destruct (N.eqb_spec (on_id m) id) as [E|E]; [destruct (Hcore m Hm E) as (A & B & C); auto|auto].
    - intros k. rewrite En. unfold updk. rewrite map_map. f_equal. apply map_ext_in. intros m Hm.
      destruct (N.eqb_spec (on_id m) id) as [E|E]; [apply (Hcore m Hm E)|reflexivity]. Qed.
End FrameNodes.

(* the root maximum follows the partition total: no ledger moves *)
Definition g_total (t : res) (q : oqueue) : oqueue :=
  if (q_parent q =? 0)%N then q_with q (Some t) (q_alloc q) (q_pending q) else q.
Lemma g_total_id t q : q_id (g_total t q) = q_id q. Proof. unfold g_total. destruct (q_parent q =? 0)%N; reflexivity. Qed.
Lemma g_total_par t q : q_parent (g_total t q) = q_parent q. Proof. unfold g_total. destruct (q_parent q =? 0)%N; reflexivity. Qed.
Lemma g_total_leaf t q : q_leaf (g_total t q) = q_leaf q. Proof. unfold g_total. destruct (q_parent q =? 0)%N; reflexivity. Qed.
Lemma g_total_alloc t q : q_alloc (g_total t q) = q_alloc q. Proof. unfold g_total. destruct (q_parent q =? 0)%N; reflexivity. Qed.
Lemma g_total_pend t q : q_pending (g_total t q) = q_pending q. Proof. unfold g_total. destruct (q_parent q =? 0)%N; reflexivity. Qed.
Lemma part_update_total_queues s d : exists t, s_queues (part_update_total s d) = map (g_total t) (s_queues s).
Proof. unfold part_update_total. eexists. reflexivity. Qed.

Lemma same_node s n m : Inv s -> In n (s_nodes s) -> In m (s_nodes s) -> on_id m = on_id n -> m = n.
Proof. intros HI Hn Hm E. apply (nodup_key_inj on_id (s_nodes s)); auto. apply (inv_node_ids s HI). Qed.
Lemma foreign_old s : Inv s -> forall x a y, In x (s_foreign s) -> In a (s_apps s) -> In y (ap_requests a) -> oa_key x <> oa_key y.
Proof. intros HI x a y. apply (inv_foreign s HI). Qed.

(* ================================================================== node operations *)
Theorem node_add_step s s' id cap drain : Inv s -> Books0 s -> m_node_add s id cap drain = Some s' -> Inv s' /\ Books s'.
Proof. intros HI HB H. pose proof (drain_to_zero s HB HI) as D. unfold m_node_add in H. destruct (find_node s id) as [n|] eqn:En.
  - inversion H; subst s'. split; [assumption|split; assumption].
  - inversion H; subst s'; clear H.
    destruct (part_update_total_queues (set_nodes s (s_nodes s ++ [new_node id cap drain])) cap) as [t Et].
    apply (frame_step s _ (g_total t) HI HB); try reflexivity; try assumption;
      try apply g_total_id; try apply g_total_par; try apply g_total_leaf; try apply g_total_alloc; try apply g_total_pend.
    + change (NoDup (map on_id (s_nodes s ++ [new_node id cap drain]))). rewrite map_app. apply NoDup_snoc; [apply (inv_node_ids s HI)|].
      apply (findk_none on_id). exact En.
    + intros m' Hm'. change (In m' (s_nodes s ++ [new_node id cap drain])) in Hm'. apply in_app_or in Hm'.
      destruct Hm' as [Hm|[<-|[]]]; [right; exists m'; auto|left; auto].
    + intros m Hm. exists m. split; [|auto]. change (In m (s_nodes s ++ [new_node id cap drain])). apply in_or_app. auto.
    + intros k. change (sumz (map on_allocated (s_nodes s ++ [new_node id cap drain])) k = sumz (map on_allocated (s_nodes s)) k).
      rewrite map_app, sumz_app. cbn. lia.
    + apply (foreign_old s HI). Qed.

Theorem node_sched_step s s' id b : Inv s -> Books0 s -> m_node_sched s id b = Some s' -> Inv s' /\ Books s'.
Proof. intros HI HB H. unfold m_node_sched in H. inversion H; subst s'; clear H.
  apply (frame_nodes s _ (fun q => q) id (fun n => mkON (on_id n) (on_total n) (on_occupied n) (on_allocated n) (on_available n) b
                                      (on_allocs n) (on_foreign n) (on_reservations n)) HI HB); try reflexivity.
  - symmetry. apply map_id.
  - intros m _ _. auto.
  - apply (foreign_old s HI). Qed.

Theorem node_update_step s s' id cap : Inv s -> Books0 s -> m_node_update s id cap = Some s' -> Inv s' /\ Books s'.
Proof. intros HI HB H. pose proof (drain_to_zero s HB HI) as D. unfold m_node_update in H.
  destruct (find_node s id) as [n|] eqn:En; [|inversion H; subst s'; split; [assumption|split; assumption]].
  destruct cap as [c|]; [|inversion H; subst s'; split; [assumption|split; assumption]].
  apply find_node_some in En. destruct En as [Hn Eid].
  assert (Hcore : forall n' d, n_set_capacity n c = (n', d) -> forall m, In m (s_nodes s) -> on_id m = id ->
            on_id ((fun _ => n') m) = on_id m /\ on_allocs ((fun _ => n') m) = on_allocs m /\ on_allocated ((fun _ => n') m) = on_allocated m).
  { intros n' d E m Hm Em. assert (m = n) by (apply (same_node s n m HI Hn Hm); congruence). subst m.
    unfold n_set_capacity in E. destruct (Equals (Some (on_total n)) (Some c)); inversion E; subst; auto. }
  destruct (n_set_capacity n c) as [n' delta] eqn:Ecap. specialize (Hcore n' delta eq_refl).
  destruct delta as [d|]; inversion H; subst s'; clear H.
  - destruct (part_update_total_queues (upd_node s id (fun _ => n')) d) as [t Et].
    apply (frame_nodes s _ (g_total t) id (fun _ => n') HI HB); try reflexivity; try assumption;
      try apply g_total_id; try apply g_total_par; try apply g_total_leaf; try apply g_total_alloc; try apply g_total_pend.
    apply (foreign_old s HI).
  - apply (frame_nodes s _ (fun q => q) id (fun _ => n') HI HB); try reflexivity; try assumption.
    + symmetry. apply map_id.
    + apply (foreign_old s HI). Qed.

(* ================================================================== foreign allocations *)
Lemma n_add_foreign_core n x n' force : oa_foreign x = true -> n_add n x force = Some n' ->
  on_id n' = on_id n /\ on_allocs n' = on_allocs n /\ on_allocated n' = on_allocated n.
Proof. intros Ef H. unfold n_add in H. rewrite Ef in H. destruct (force || _); inversion H; subst. auto. Qed.
Lemma n_update_foreign_core n x : let n' := n_update_foreign n x in
  on_id n' = on_id n /\ on_allocs n' = on_allocs n /\ on_allocated n' = on_allocated n.
Proof. unfold n_update_foreign. destruct (find_alloc (on_foreign n) (oa_key x)); cbn; auto. Qed.
Lemma n_remove_foreign_core n key : find_alloc (on_allocs n) key = None -> let n' := n_remove n key in
  on_id n' = on_id n /\ on_allocs n' = on_allocs n /\ on_allocated n' = on_allocated n.
Proof. intros E. unfold n_remove. rewrite E. destruct (find_alloc (on_foreign n) key); cbn; auto. Qed.

(* a foreign key is not listed as a native allocation on any node *)
Lemma foreign_key_not_native s f n : Inv s -> Books0 s -> In f (s_foreign s) -> In n (s_nodes s) ->
  find_alloc (on_allocs n) (oa_key f) = None.
Proof. intros HI HB Hf Hn. apply find_alloc_none. intros C. unfold akeys in C. apply in_map_iff in C. destruct C as (y & E & Hy).
  destruct (owned_P_of s HI (bk_owned s HB) n y Hn Hy) as (ap & Hap & _ & Hk). unfold akeys in Hk. apply in_map_iff in Hk.
  destruct Hk as (z & Ez & Hz). pose proof (alloc_key_in_requests ap z (inv_app_wf s HI ap Hap) Hz) as Hr.
  unfold akeys in Hr. apply in_map_iff in Hr. destruct Hr as (r & Er & Hr).
  apply (inv_foreign s HI f ap r Hf Hap Hr). congruence. Qed.

(* environment assumptions on an allocation request: its resource is a well-formed, bounded vector; a key that
   the addressed application (resp. the foreign map) does not know yet is new in the whole partition *)
Record ReqOK (s : ostate) (r : oreq) : Prop := mkRO {
  ro_wf : owf (rq_res r);
  ro_b : rb (oget (rq_res r));
  ro_native : rq_foreign r = false -> forall a, find_app s (rq_app r) = Some a ->
              find_alloc (ap_requests a) (rq_key r) = None -> KeyFresh s (rq_key r);
  ro_foreign : rq_foreign r = true -> find_alloc (s_foreign s) (rq_key r) = None ->
               forall a y, In a (s_apps s) -> In y (ap_requests a) -> oa_key y <> rq_key r }.

Theorem foreign_alloc_step s s' r : Inv s -> Books0 s -> ReqOK s r -> rq_partition_ok r = true -> rq_foreign r = true ->
  m_alloc s r = Some s' -> Inv s' /\ Books s'.
Proof. intros HI HB RO Hp Hfo H. pose proof (drain_to_zero s HB HI) as D. unfold m_alloc in H. rewrite Hp, Hfo in H. cbn [negb] in H.
  destruct (rq_node r =? 0)%N; [inversion H; subst s'; split; [assumption|split; assumption]|].
  destruct (find_node s (rq_node r)) as [n|] eqn:En; [|inversion H; subst s'; split; [assumption|split; assumption]].
  apply find_node_some in En. destruct En as [Hn Eid].
  destruct (find_alloc (s_foreign s) (rq_key r)) as [old|] eqn:Eold.
  - inversion H; subst s'; clear H.
    apply (frame_nodes s _ (fun q => q) (on_id n) (fun _ => n_update_foreign n (alloc_of_req r)) HI HB); try reflexivity.
    + symmetry. apply map_id.
    + intros m Hm Em. pose proof (same_node s n m HI Hn Hm Em). subst m. apply n_update_foreign_core.
    + apply (foreign_old s HI).
  - destruct (n_add n (alloc_of_req r) true) as [n'|] eqn:Eadd; [|discriminate]. inversion H; subst s'; clear H.
    apply (frame_nodes s _ (fun q => q) (on_id n) (fun _ => n') HI HB); try reflexivity.
    + symmetry. apply map_id.
    + intros m Hm Em. pose proof (same_node s n m HI Hn Hm Em). subst m. apply (n_add_foreign_core n (alloc_of_req r) n' true); [exact Hfo|exact Eadd].
    + intros x a y Hx Ha Hy. change (In x (s_foreign s ++ [alloc_of_req r])) in Hx. apply in_app_or in Hx.
      destruct Hx as [Hx|[<-|[]]]; [apply (inv_foreign s HI x a y Hx Ha Hy)|].
      cbn [alloc_of_req oa_key]. intros C. apply (ro_foreign s r RO Hfo Eold a y Ha Hy). congruence. Qed.

Theorem foreign_release_step s s' key ttype : Inv s -> Books0 s -> m_release s 0%N key ttype = Some s' -> Inv s' /\ Books s'.
Proof. intros HI HB H. pose proof (drain_to_zero s HB HI) as D. unfold m_release in H. cbn [N.eqb] in H.
  destruct (find_alloc (s_foreign s) key) as [f|] eqn:Ef; [|inversion H; subst s'; split; [assumption|split; assumption]].
  apply find_alloc_some in Ef. destruct Ef as [Hf Ek]. subst key.
  assert (Hsub : forall x a y, In x (del_alloc (oa_key f) (s_foreign s)) -> In a (s_apps s) -> In y (ap_requests a) -> oa_key x <> oa_key y).
  { intros x a y Hx. apply in_del_alloc in Hx. apply (inv_foreign s HI x a y). tauto. }
  change (find_node (set_foreign s (del_alloc (oa_key f) (s_foreign s))) (oa_node f)) with (find_node s (oa_node f)) in H.
  destruct (find_node s (oa_node f)) as [n|] eqn:En; inversion H; subst s'; clear H.
  - apply find_node_some in En. destruct En as [Hn Eid].
    apply (frame_nodes s _ (fun q => q) (on_id n) (fun _ => n_remove n (oa_key f)) HI HB); try reflexivity.
    + symmetry. apply map_id.
    + intros m Hm Em. pose proof (same_node s n m HI Hn Hm Em). subst m. apply n_remove_foreign_core.
      apply (foreign_key_not_native s f n HI HB Hf Hn).
    + exact Hsub.
  - apply (frame_nodes s _ (fun q => q) 0%N (fun m => m) HI HB); try reflexivity.
    + symmetry. apply map_id.
    + change (s_nodes s = updk on_id (s_nodes s) 0%N (fun m => m)). unfold updk. rewrite <- (map_id (s_nodes s)) at 1.
      apply map_ext. intros m. destruct (on_id m =? 0)%N; reflexivity.
    + intros m _ _. auto.
    + exact Hsub. Qed.

(* ================================================================== the dispatchers *)
Lemma alloc_of_req_ok s r a rr : ReqOK s r -> rq_foreign r = false -> ap_id a = rq_app r -> rq_res r = Some rr ->
  StrictlyGreaterThanZero (Some rr) = true -> AllocOK (ap_id a) (alloc_of_req r) /\ rb (oa_res (alloc_of_req r)).
Proof. intros RO Hfo Eid Er Hs. pose proof (ro_wf s r RO) as Hw. pose proof (ro_b s r RO) as Hb. rewrite Er in Hw, Hb. cbn [oget] in *.
  unfold owf in Hw. cbn [oget] in Hw. split; [constructor|]; cbn [alloc_of_req oa_res oa_release oa_app oa_foreign]; rewrite ?Er; cbn [oget]; auto.
  apply sgtz_rnonneg. assumption. Qed.

Theorem alloc_step s s' r : Inv s -> Books s -> Bounded s -> ReqOK s r -> m_alloc s r = Some s' -> Inv s' /\ Books s'.
Proof. intros HI [HB D] HBd RO H. destruct (rq_partition_ok r) eqn:Hp.
  2:{ unfold m_alloc in H. rewrite Hp in H. inversion H; subst s'. split; [assumption|split; assumption]. }
  destruct (rq_foreign r) eqn:Hfo; [apply (foreign_alloc_step s s' r HI HB RO Hp Hfo H)|].
  unfold m_alloc in H. rewrite Hp, Hfo in H. cbn [negb] in H.
  destruct (find_app s (rq_app r)) as [a|] eqn:Ea; [|inversion H; subst s'; split; [assumption|split; assumption]].
  match type of H with (if ?c then _ else _) = _ => destruct c; [inversion H; subst s'; split; [assumption|split; assumption]|] end.
  destruct (IsZero (rq_res r) || negb (StrictlyGreaterThanZero (rq_res r))) eqn:Ez;
    [inversion H; subst s'; split; [assumption|split; assumption]|].
  apply orb_false_iff in Ez. destruct Ez as [_ Ez]. apply negb_false_iff in Ez.
  destruct (rq_res r) as [rr|] eqn:Er; [|discriminate].
  destruct (find_alloc (ap_requests a) (rq_key r)) eqn:Ereq; [discriminate|].
  pose proof (ro_native s r RO Hfo a Ea Ereq) as Xfresh.
  destruct (find_app_some s _ a Ea) as [Ha Eid].
  destruct (alloc_of_req_ok s r a rr RO Hfo Eid Er Ez) as [Xok Xb].
  destruct (rq_node r =? 0)%N eqn:Enode.
  - destruct (rq_ph r); [discriminate|]. match type of H with (if ?c then _ else _) = _ => destruct c; [|discriminate] end.
    inversion H; subst s'; clear H. apply (new_ask_step s a (alloc_of_req r) HI HB HBd Ha Xok Xb); [|exact Xfresh].
    cbn [alloc_of_req oa_allocated]. rewrite Enode. reflexivity.
  - destruct (find_node s (rq_node r)) as [n|] eqn:En; [|inversion H; subst s'; split; [assumption|split; assumption]].
    apply find_node_some in En. destruct En as [Hn Enid].
    apply (recovered_step s s' a n (alloc_of_req r) HI HB HBd Ha Hn Xok Xb); auto.
    cbn [alloc_of_req oa_allocated]. rewrite Enode. reflexivity. Qed.

Theorem release_step s s' app key ttype : Inv s -> Books s -> Bounded s -> m_release s app key ttype = Some s' -> Inv s' /\ Books s'.
Proof. intros HI [HB D] HBd H. destruct (N.eq_dec app 0) as [->|Hne]; [apply (foreign_release_step s s' key ttype HI HB H)|].
  unfold m_release in H. destruct (N.eqb_spec app 0); [contradiction|].
  destruct (find_app s app) as [a|] eqn:Ea; [|inversion H; subst s'; split; [assumption|split; assumption]].
  destruct (find_app_some s _ a Ea) as [Ha Eid].
  match type of H with (if ?c then None else _) = _ => destruct c; [discriminate|] end.
  destruct (find_alloc (ap_allocs a) key) as [x|] eqn:Ex.
  - apply find_alloc_some in Ex. apply (release_alloc_step s s' a x ttype HI HB HBd Ha (proj1 Ex) H).
  - destruct (find_alloc (ap_requests a) key) as [x|] eqn:Er; [|inversion H; subst s'; split; [assumption|split; assumption]].
    destruct (ttype =? TT_Timeout)%N; [inversion H; subst s'; split; [assumption|split; assumption]|].
    apply find_alloc_some in Er. apply (release_ask_step s s' a x HI HB HBd Ha (proj1 Er) H). Qed.
