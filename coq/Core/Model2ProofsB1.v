(* C03 over the second fragment of the operational model (Core/Model2.v), part 1: an application without
   allocations and with zero ledgers joins or leaves the live list (AddApplication; moveTerminatedApp after the
   Completing timer; last stage of removeApplication): the books and the invariant are preserved.
   Reuses the statement ([Books], [Inv]) and the lemmas of Core/Books*.v unchanged. *)
From Coq Require Import List ZArith NArith Bool Lia ZifyBool.
From YK Require Import Base.Int64 Base.Res Base.ResSpec Base.ResLemmas Base.ResLaws Base.ResLaws2 Base.ResLawsPred
  Core.Obs Core.Model Core.Model2 Core.Ledger
  Core.BooksLemmas Core.BooksDefs Core.BooksTree Core.BooksQueue Core.BooksApp Core.BooksState Core.BooksDrain Core.BooksStep
  Core.BooksOps Core.BooksOps2 Core.BooksOps3 Core.BooksOps4.
Import ListNotations.
Open Scope Z_scope.
Set Default Timeout 30.

(* ------------------------------------------------------------------ generic *)
Lemma IsZero_getz r : IsZero (Some r) = true -> forall k, getz r k = 0.
Proof. cbn [IsZero]. rewrite forallb_forall. intros H k. unfold getz. destruct (get r k) as [v|] eqn:E; [|reflexivity].
  apply get_some_in in E. specialize (H _ E). cbn [snd] in H. lia. Qed.

(* an allocation a node lists is the very record its application lists *)
Lemma node_alloc_listed s n y : Inv s -> Books0 s -> In n (s_nodes s) -> In y (on_allocs n) ->
  exists a, In a (s_apps s) /\ In y (ap_allocs a) /\ ap_id a = oa_app y.
Proof. intros HI HB Hn Hy. destruct (owned_P_of s HI (bk_owned s HB) n y Hn Hy) as (ap & Hap & Eid & Hk).
  unfold akeys in Hk. apply in_map_iff in Hk. destruct Hk as (z & Ez & Hz). exists ap. split; [assumption|]. split; [|assumption].
  rewrite <- (nk_same s n (inv_nodes s HI n Hn) y ap z Hy Hap Hz Ez). assumption. Qed.

Lemma filter_filter_comm {A} (P Q : A -> bool) l : filter P (filter Q l) = filter Q (filter P l).
Proof. induction l as [|x t IH]; [reflexivity|]. cbn [filter]. destruct (P x) eqn:EP, (Q x) eqn:EQ; cbn [filter]; rewrite ?EP, ?EQ, IH; reflexivity. Qed.
Lemma sumz_filter_zero {A} (P : A -> bool) (h : A -> res) l k : (forall x, In x l -> P x = false -> getz (h x) k = 0) ->
  sumz (map h (filter P l)) k = sumz (map h l) k.
Proof. induction l as [|x t IH]; intros H; [reflexivity|]. cbn [filter map]. specialize (IH (fun y Hy => H y (or_intror Hy))).
  destruct (P x) eqn:EP; cbn [map]; rewrite !sumz_cons, ?IH; [reflexivity|]. rewrite (H x (or_introl eq_refl) EP). lia. Qed.
Lemma length_flat_map_filter {A B} (P : A -> bool) (h : A -> list B) l : (forall x, In x l -> P x = false -> h x = []) ->
  length (flat_map h (filter P l)) = length (flat_map h l).
Proof. induction l as [|x t IH]; intros H; [reflexivity|]. cbn [filter flat_map]. specialize (IH (fun y Hy => H y (or_intror Hy))).
  destruct (P x) eqn:EP; cbn [flat_map]; rewrite !app_length, ?IH; [reflexivity|]. rewrite (H x (or_introl eq_refl) EP). reflexivity. Qed.

(* an application that holds nothing *)
Record AppEmpty (a : oapp) : Prop := mkAE {
  ae_allocs : ap_allocs a = [];
  ae_allocated : forall k, getz (ap_allocated a) k = 0;
  ae_phalloc : forall k, getz (ap_phalloc a) k = 0;
  ae_pending : forall k, getz (ap_pending a) k = 0 }.

(* the queue clause does not see applications that hold nothing *)
Section QueueSame.
  Variables (s s' : ostate).
  Hypothesis Eq : s_queues s' = s_queues s.
  Hypothesis Hsum : forall (h : oapp -> res) q k, (h = ap_allocated \/ h = ap_phalloc \/ h = ap_pending) ->
    sumz (map h (apps_of_queue s' q)) k = sumz (map h (apps_of_queue s q)) k.
  Lemma queue_books_same q : QueueBooks s q -> QueueBooks s' q.
  Proof. intros [B1 B2 B3 B4 B5 B6].
    assert (Ec : forall id, children_of s' id = children_of s id) by (intros id; unfold children_of; rewrite Eq; reflexivity).
    constructor; auto.
    - intros Hl k. rewrite (B3 Hl k). unfold app_usage. rewrite !sumz_app, !Hsum; auto.
    - intros Hl k. rewrite (B4 Hl k), Hsum; auto.
    - intros Hl k. rewrite Ec. apply B5. assumption.
    - intros Hl k. rewrite Ec. apply B6. assumption. Qed.
End QueueSame.

Lemma tree_same s s' : s_queues s' = s_queues s -> TreeOK s -> TreeOK s'.
Proof. intros Eq HT. apply (tree_map s s' (fun q => q)); auto. rewrite map_id. assumption. Qed.
Lemma root_same s s' : Inv s -> Inv s' -> s_queues s' = s_queues s ->
  (forall k, sumz (map on_allocated (s_nodes s')) k = sumz (map on_allocated (s_nodes s)) k) ->
  root_matches_nodes s = true -> root_matches_nodes s' = true.
Proof. intros HI HI' Eq Hs H. apply (root_step s s' (fun q => q) (fun _ => 0) HI HI'); auto.
  - rewrite map_id. assumption.
  - intros r _ k. lia.
  - intros k. rewrite Hs. lia. Qed.

(* ================================================================== an empty application leaves the live list *)
Section DropApp.
  Variables (s s' : ostate) (id : N).
  Hypothesis HI : Inv s.
  Hypothesis HB : Books0 s.
  Hypothesis Ea : s_apps s' = filter (fun b => negb (ap_id b =? id)%N) (s_apps s).
  Hypothesis En : s_nodes s' = s_nodes s.
  Hypothesis Eq : s_queues s' = s_queues s.
  Hypothesis Ef : s_foreign s' = s_foreign s.
  Hypothesis Ec : s_nallocs s' = s_nallocs s.
  Hypothesis Hempty : forall a, In a (s_apps s) -> ap_id a = id -> AppEmpty a.

  Lemma drop_in b : In b (s_apps s') <-> In b (s_apps s) /\ ap_id b <> id.
  Proof. rewrite Ea, filter_In. destruct (N.eqb_spec (ap_id b) id); cbn [negb]; intuition congruence. Qed.
  Lemma drop_keep b : In b (s_apps s) -> ap_allocs b <> [] -> In b (s_apps s').
  Proof. intros Hb Hne. apply drop_in. split; [assumption|]. intros E. apply Hne. apply (ae_allocs b (Hempty b Hb E)). Qed.

  Lemma drop_inv : Inv s'.
  Proof. destruct HI as [I1 I2 I3 I4 I5 I6 I7 I8 I9 I10]. constructor.
    - rewrite Ea. apply NoDup_map_filter. assumption.
    - rewrite En. assumption.
    - apply (tree_same s s' Eq I3).
    - intros b Hb. apply drop_in in Hb. destruct (I4 b (proj1 Hb)) as (q & E & L). exists q. rewrite (find_queue_ext s' s _ Eq). auto.
    - intros b Hb. apply drop_in in Hb. apply I5. tauto.
    - rewrite Eq. assumption.
    - intros b1 b2 x1 x2 H1 H2. apply drop_in in H1, H2. apply I7; tauto.
    - intros f b x Hf Hb. rewrite Ef in Hf. apply drop_in in Hb. apply I8; tauto.
    - intros m Hm. rewrite En in Hm. apply (nodeok_sub s s' m m); auto.
      + intros b' Hb'. apply drop_in in Hb'. exists b'. split; [tauto|apply incl_refl].
      + apply incl_refl.
      + apply (nk_keys s m (I9 m Hm)).
      + apply (nk_ledger s m (I9 m Hm)).
      + apply (nk_wf s m (I9 m Hm)).
    - rewrite Ec, I10. unfold all_allocs. rewrite Ea. f_equal. symmetry. apply length_flat_map_filter.
      intros b Hb Hf. apply negb_false_iff, N.eqb_eq in Hf. apply (ae_allocs b (Hempty b Hb Hf)). Qed.

  Theorem drop_app_step : Inv s' /\ Books s'.
  Proof. pose proof drop_inv as HI'. split; [assumption|]. destruct HB as [B1 B2 B3 B4 B5].
    assert (HB0 : Books0 s').
    { constructor.
      - intros b Hb. apply drop_in in Hb. apply B1. tauto.
      - intros q Hq. rewrite Eq in Hq. apply (queue_books_same s s' Eq); [|apply B2; assumption].
        intros h qid k Hh. unfold apps_of_queue. rewrite Ea, filter_filter_comm. apply sumz_filter_zero.
        intros b Hb Hf. apply filter_In in Hb. apply negb_false_iff, N.eqb_eq in Hf. pose proof (Hempty b (proj1 Hb) Hf) as [_ E1 E2 E3].
        destruct Hh as [->|[->| ->]]; auto.
      - apply owned_of_P; [apply (inv_app_ids s' HI')|]. intros m y Hm Hy. rewrite En in Hm.
        destruct (owned_P_of s HI B3 m y Hm Hy) as (ap & Hap & Eid & Hk). exists ap. split; [|auto].
        apply drop_keep; [assumption|]. intros C. rewrite C in Hk. contradiction.
      - apply onnode_of_P; [apply (inv_node_ids s' HI')|]. intros b x Hb Hx. apply drop_in in Hb. rewrite En.
        apply (onnode_P_of s B4 b x (proj1 Hb) Hx).
      - apply (root_same s s' HI HI' Eq); [rewrite En; reflexivity|assumption]. }
    split; [assumption|]. apply drain_to_zero; assumption. Qed.
End DropApp.

(* ================================================================== an empty application joins the live list *)
Section AddApp.
  Variables (s s' : ostate) (a0 : oapp).
  Hypothesis HI : Inv s.
  Hypothesis HB : Books0 s.
  Hypothesis Ea : s_apps s' = s_apps s ++ [a0].
  Hypothesis En : s_nodes s' = s_nodes s.
  Hypothesis Eq : s_queues s' = s_queues s.
  Hypothesis Ef : s_foreign s' = s_foreign s.
  Hypothesis Ec : s_nallocs s' = s_nallocs s.
  Hypothesis Hnew : find_app s (ap_id a0) = None.
  Hypothesis Hleaf : exists q, find_queue s (ap_queue a0) = Some q /\ q_leaf q = true.
  Hypothesis Hempty : AppEmpty a0.
  Hypothesis Hreq : ap_requests a0 = [].
  Hypothesis Hbooks : AppBooks a0.
  Hypothesis Hwf : AppWF a0.

  Lemma add_in b : In b (s_apps s') <-> In b (s_apps s) \/ b = a0.
  Proof. rewrite Ea, in_app_iff. cbn [In]. intuition. Qed.

  Lemma add_inv : Inv s'.
  Proof. destruct HI as [I1 I2 I3 I4 I5 I6 I7 I8 I9 I10]. constructor.
    - rewrite Ea, map_app. apply NoDup_snoc; [assumption|]. apply (findk_none ap_id). exact Hnew.
    - rewrite En. assumption.
    - apply (tree_same s s' Eq I3).
    - intros b Hb. apply add_in in Hb. destruct Hb as [Hb| ->].
      + destruct (I4 b Hb) as (q & E & L). exists q. rewrite (find_queue_ext s' s _ Eq). auto.
      + destruct Hleaf as (q & E & L). exists q. rewrite (find_queue_ext s' s _ Eq). auto.
    - intros b Hb. apply add_in in Hb. destruct Hb as [Hb| ->]; auto.
    - rewrite Eq. assumption.
    - intros b1 b2 x1 x2 H1 H2 Hx1 Hx2. apply add_in in H1, H2. destruct H1 as [H1| ->]; [|rewrite Hreq in Hx1; contradiction].
      destruct H2 as [H2| ->]; [|rewrite Hreq in Hx2; contradiction]. apply (I7 b1 b2 x1 x2); assumption.
    - intros f b x Hf Hb Hx. rewrite Ef in Hf. apply add_in in Hb. destruct Hb as [Hb| ->]; [|rewrite Hreq in Hx; contradiction].
      apply (I8 f b x); assumption.
    - intros m Hm. rewrite En in Hm. destruct (I9 m Hm) as [K1 K2 K3 K4 K5]. constructor; auto.
      intros y b z Hy Hb Hz. apply add_in in Hb. destruct Hb as [Hb| ->]; [apply (K3 y b z); assumption|].
      rewrite (ae_allocs a0 Hempty) in Hz. contradiction.
    - rewrite Ec, I10. unfold all_allocs. rewrite Ea, flat_map_app, app_length. cbn [flat_map]. rewrite (ae_allocs a0 Hempty). cbn. lia. Qed.

  Theorem add_app_step : Inv s' /\ Books s'.
  Proof. pose proof add_inv as HI'. split; [assumption|]. destruct HB as [B1 B2 B3 B4 B5].
    assert (HB0 : Books0 s').
    { constructor.
      - intros b Hb. apply add_in in Hb. destruct Hb as [Hb| ->]; auto.
      - intros q Hq. rewrite Eq in Hq. apply (queue_books_same s s' Eq); [|apply B2; assumption].
        intros h qid k Hh. unfold apps_of_queue. rewrite Ea, filter_app, map_app, sumz_app. cbn [filter].
        destruct (ap_queue a0 =? qid)%N; cbn [map]; rewrite ?sumz_cons, ?sumz_nil; [|lia].
        destruct Hempty as [_ E1 E2 E3]. destruct Hh as [->|[->| ->]]; rewrite ?E1, ?E2, ?E3; lia.
      - apply owned_of_P; [apply (inv_app_ids s' HI')|]. intros m y Hm Hy. rewrite En in Hm.
        destruct (owned_P_of s HI B3 m y Hm Hy) as (ap & Hap & Eid & Hk). exists ap. split; [apply add_in; auto|auto].
      - apply onnode_of_P; [apply (inv_node_ids s' HI')|]. intros b x Hb Hx. apply add_in in Hb. rewrite En.
        destruct Hb as [Hb| ->]; [apply (onnode_P_of s B4 b x Hb Hx)|]. rewrite (ae_allocs a0 Hempty) in Hx. contradiction.
      - apply (root_same s s' HI HI' Eq); [rewrite En; reflexivity|assumption]. }
    split; [assumption|]. apply drain_to_zero; assumption. Qed.
End AddApp.

(* ================================================================== AddApplication *)
Lemma new_app_facts id queue user forced : let a0 := new_app id queue user forced in
  AppEmpty a0 /\ ap_requests a0 = [] /\ AppBooks a0 /\ AppWF a0.
Proof. cbv zeta. split; [constructor; reflexivity|]. split; [reflexivity|]. split.
  - constructor; try (intros k; reflexivity); apply rnonneg_nil.
  - constructor; cbn [new_app ap_requests ap_allocs ap_pending ap_allocated]; try constructor; try (intros; contradiction). Qed.

Theorem app_add_step s s' id queue user forced nougi phask tagmaxapps tagmax : Inv s -> Books s ->
  m_app_add s id queue user forced nougi phask tagmaxapps tagmax = Some s' -> Inv s' /\ Books s'.
Proof. intros HI [HB D] H. unfold m_app_add in H. destruct (find_app s id) eqn:Enew; [inversion H; subst s'; split; [assumption|split; assumption]|].
  destruct (nougi || forced || _ || _ || _); [discriminate|]. destruct (find_queue s queue) as [q|] eqn:Eqq; [|discriminate].
  destruct (q_leaf q && (q_state q =? QS_Active)%N && negb (q_parent q =? 0)%N) eqn:Eg; [|discriminate]. inversion H; subst s'; clear H.
  rewrite !andb_true_iff in Eg. destruct Eg as [[El _] _].
  destruct (new_app_facts id queue user forced) as (F1 & F2 & F3 & F4).
  apply (add_app_step s _ (new_app id queue user forced) HI HB); try reflexivity; try assumption.
  exists q. auto. Qed.

(* ================================================================== the Completing timer: Completing -> Completed *)
(* sizes of allocations are positive somewhere (UpdateAllocation rejects everything else) *)
Definition allocs_positive (a : oapp) : Prop := forall x, In x (ap_allocs a) -> exists kv, In kv (oa_res x) /\ 0 < snd kv.

Lemma zero_ledgers_no_allocs a : AppWF a -> AppBooks a -> allocs_positive a ->
  (forall k, getz (ap_allocated a) k = 0) -> (forall k, getz (ap_phalloc a) k = 0) -> ap_allocs a = [].
Proof. intros W B Hpos Z1 Z2. destruct (ap_allocs a) as [|x t] eqn:E; [reflexivity|]. exfalso.
  assert (Hx : In x (ap_allocs a)) by (rewrite E; left; reflexivity). destruct (Hpos x Hx) as [[k v] [Hkv Hv]]. cbn [snd] in Hv.
  assert (Hk : 0 < getz (oa_res x) k) by (unfold getz; rewrite (in_get _ k v (ao_wf _ x (aw_alloc a W x Hx)) Hkv); exact Hv).
  assert (Hnn : forall l, incl l (ap_allocs a) -> forall y, In y l -> rnonneg (oa_res y)).
  { intros l Hl y Hy. apply (ao_nn _ y (aw_alloc a W y (Hl y Hy))). }
  destruct (oa_ph x) eqn:Eph.
  - pose proof (asum_ge_member (ph_allocs a) x k) as G. rewrite <- (ab_ph a B k), Z2 in G.
    assert (0 >= getz (oa_res x) k); [|lia]. apply Z.le_ge, G.
    + apply Hnn. intros y Hy. unfold ph_allocs in Hy. apply filter_In in Hy. tauto.
    + unfold ph_allocs. apply filter_In. auto.
  - pose proof (asum_ge_member (real_allocs a) x k) as G. rewrite <- (ab_alloc a B k), Z1 in G.
    assert (0 >= getz (oa_res x) k); [|lia]. apply Z.le_ge, G.
    + apply Hnn. intros y Hy. unfold real_allocs in Hy. apply filter_In in Hy. tauto.
    + unfold real_allocs. apply filter_In. rewrite Eph. auto. Qed.

Theorem fire_state_step s s' id : Inv s -> Books s ->
  (forall a, find_app s id = Some a -> allocs_positive a) ->
  m_fire_state s id = Some s' -> Inv s' /\ Books s'.
Proof. intros HI [HB D] Hpos H. unfold m_fire_state in H. destruct (find_app s id) as [a|] eqn:Ea; [|discriminate].
  destruct (negb (ap_statetimer a)); [inversion H; subst s'; split; [assumption|split; assumption]|].
  destruct (_ && _ && _ && _) eqn:Eg; [|discriminate]. inversion H; subst s'; clear H.
  rewrite !andb_true_iff in Eg. destruct Eg as [[[_ Z2] Z3] Z1].
  destruct (find_app_some s id a Ea) as [Ha Eid].
  apply (drop_app_step s _ id HI HB); try reflexivity.
  intros b Hb Eb. assert (b = a) by (apply (nodup_key_inj ap_id (s_apps s)); auto; [apply (inv_app_ids s HI)|congruence]). subst b.
  pose proof (IsZero_getz _ Z1) as G1. pose proof (IsZero_getz _ Z2) as G2. pose proof (IsZero_getz _ Z3) as G3.
  constructor; auto. apply (zero_ledgers_no_allocs a (inv_app_wf s HI a Ha) (bk_apps s HB a Ha) (Hpos a eq_refl) G1 G2). Qed.

(* the placeholder timer is not armed: nothing happens *)
Theorem fire_ph_step s s' id : Inv s -> Books s ->
  match find_app s id with Some a => if ap_phtimer a then None else Some s | None => None end = Some s' -> Inv s' /\ Books s'.
Proof. intros HI HB H. destruct (find_app s id) as [a|]; [|discriminate]. destruct (ap_phtimer a); [discriminate|].
  inversion H; subst s'. auto. Qed.
