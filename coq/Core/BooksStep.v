(* C03: the master preservation lemma for operations that change one application and the ledgers of the queues
   on its ancestor path (new ask, recovered allocation, scheduling decision, releases).  The node-side
   obligations are discharged per operation with the lemmas of Core/BooksState.v. *)
From Coq Require Import List ZArith NArith Bool Lia ZifyBool.
From YK Require Import Base.Int64 Base.Res Base.ResSpec Base.ResLemmas Core.Obs Core.Model Core.Ledger
  Core.BooksLemmas Core.BooksDefs Core.BooksTree Core.BooksQueue Core.BooksState Core.BooksDrain.
Import ListNotations.
Open Scope Z_scope.

Section Native.
  Variables (s s' : ostate) (a a' : oapp) (F : oqueue -> oqueue) (dA dP : tid -> Z).
  Hypothesis HI : Inv s.
  Hypothesis HB : Books0 s.
  Hypothesis Ha : In a (s_apps s).
  Hypothesis Eapps : s_apps s' = updk ap_id (s_apps s) (ap_id a) (fun _ => a').
  Hypothesis Eq : s_queues s' = map (fun q => if memN (q_id q) (path_ids s (ap_queue a)) then F q else q) (s_queues s).
  Hypothesis Ef : s_foreign s' = s_foreign s.
  Hypothesis Fid : forall q, q_id (F q) = q_id q.
  Hypothesis Fpar : forall q, q_parent (F q) = q_parent q.
  Hypothesis Fleaf : forall q, q_leaf (F q) = q_leaf q.
  Hypothesis Fwf : forall q, In q (s_queues s) -> In (q_id q) (path_ids s (ap_queue a)) -> wf (q_alloc (F q)) /\ wf (q_pending (F q)).
  Hypothesis FA : forall q, In q (s_queues s) -> In (q_id q) (path_ids s (ap_queue a)) ->
                  forall k, getz (q_alloc (F q)) k = getz (q_alloc q) k + dA k.
  Hypothesis FP : forall q, In q (s_queues s) -> In (q_id q) (path_ids s (ap_queue a)) ->
                  forall k, getz (q_pending (F q)) k = getz (q_pending q) k + dP k.
  Hypothesis Fnn : forall q, In q (s_queues s) -> In (q_id q) (path_ids s (ap_queue a)) ->
                   rnonneg (q_alloc (F q)) /\ rnonneg (q_pending (F q)).
  Hypothesis Eid : ap_id a' = ap_id a.
  Hypothesis Equeue : ap_queue a' = ap_queue a.
  Hypothesis Ba' : AppBooks a'.
  Hypothesis Wa' : AppWF a'.
  Hypothesis Hkeys : ReqKeysOK s a a'.
  Hypothesis HdA : forall k, getz (ap_allocated a') k + getz (ap_phalloc a') k =
                             getz (ap_allocated a) k + getz (ap_phalloc a) k + dA k.
  Hypothesis HdP : forall k, getz (ap_pending a') k = getz (ap_pending a) k + dP k.
  (* node side *)
  Hypothesis Hnid : NoDup (map on_id (s_nodes s')).
  Hypothesis Hnodes : forall n, In n (s_nodes s') -> NodeOK s' n.
  Hypothesis Hcount : s_nallocs s' = Z.of_nat (length (all_allocs s')).
  Hypothesis HO' : NodeOwnedP s'.
  Hypothesis HP' : AppOnNodeP s'.
  Hypothesis Hsum : forall k, sumz (map on_allocated (s_nodes s')) k = sumz (map on_allocated (s_nodes s)) k + dA k.

  Let g := fun q => if memN (q_id q) (path_ids s (ap_queue a)) then F q else q.
  Lemma ng_id q : q_id (g q) = q_id q. Proof. unfold g. destruct (memN _ _); auto. Qed.
  Lemma ng_par q : q_parent (g q) = q_parent q. Proof. unfold g. destruct (memN _ _); auto. Qed.
  Lemma ng_leaf q : q_leaf (g q) = q_leaf q. Proof. unfold g. destruct (memN _ _); auto. Qed.

  Lemma native_inv : Inv s'.
  Proof. apply (inv_assemble s s' a a' g HI Ha Eapps Eq Ef ng_id ng_par ng_leaf); auto.
    intros q Hq. unfold g. destruct (memN (q_id q) (path_ids s (ap_queue a))) eqn:Em.
    - apply memN_in in Em. apply Fwf; assumption.
    - apply (inv_q_wf s HI q Hq). Qed.

  Theorem native_step : Inv s' /\ Books s'.
  Proof. pose proof native_inv as HI'. split; [assumption|].
    assert (HB0 : Books0 s').
    { destruct HB as [B1 B2 B3 B4 B5]. constructor.
      - intros b' Hb'. rewrite Eapps in Hb'. apply (in_updk_const ap_id) in Hb'; [|apply (inv_app_ids s HI)|assumption].
        destruct Hb' as [->|[Hb _]]; auto.
      - apply (queue_books_step s s' a a' F dA dP HI B2 Ha Eapps Eq Fid Fpar Fleaf Equeue HdA HdP FA FP Fnn).
      - apply owned_of_P; [apply (inv_app_ids s' HI')|assumption].
      - apply onnode_of_P; [apply (inv_node_ids s' HI')|assumption].
      - apply (root_step s s' g dA HI HI' Eq ng_par); [|assumption|assumption].
        intros r Er k. destruct (inv_app_leaf s HI a Ha) as (lq & Elq & _).
        pose proof (root_on_path s (inv_tree s HI) _ lq r Elq Er) as Hin.
        destruct (root_queue_some s r Er) as [Hr _]. unfold g. rewrite (proj2 (memN_in _ _) Hin). apply FA; assumption. }
    split; [assumption|]. apply drain_to_zero; assumption. Qed.
End Native.

(* ------------------------------------------------------------------ steps that move no application or queue ledger:
   node registration / capacity / schedulability, foreign allocations, the partition total *)
Section Frame.
  Variables (s s' : ostate) (g : oqueue -> oqueue).
  Hypothesis HI : Inv s.
  Hypothesis HB : Books0 s.
  Hypothesis Ea : s_apps s' = s_apps s.
  Hypothesis Eq : s_queues s' = map g (s_queues s).
  Hypothesis Ec : s_nallocs s' = s_nallocs s.
  Hypothesis G1 : forall q, q_id (g q) = q_id q.
  Hypothesis G2 : forall q, q_parent (g q) = q_parent q.
  Hypothesis G3 : forall q, q_leaf (g q) = q_leaf q.
  Hypothesis G4 : forall q, q_alloc (g q) = q_alloc q.
  Hypothesis G5 : forall q, q_pending (g q) = q_pending q.
  Hypothesis Hnid : NoDup (map on_id (s_nodes s')).
  Hypothesis Hn1 : forall m', In m' (s_nodes s') -> (on_allocs m' = [] /\ on_allocated m' = []) \/
     exists m, In m (s_nodes s) /\ on_id m' = on_id m /\ on_allocs m' = on_allocs m /\ on_allocated m' = on_allocated m.
  Hypothesis Hn2 : forall m, In m (s_nodes s) -> exists m', In m' (s_nodes s') /\ on_id m' = on_id m /\ on_allocs m' = on_allocs m.
  Hypothesis Hsum : forall k, sumz (map on_allocated (s_nodes s')) k = sumz (map on_allocated (s_nodes s)) k.
  Hypothesis Hf : forall f a x, In f (s_foreign s') -> In a (s_apps s) -> In x (ap_requests a) -> oa_key f <> oa_key x.

  Lemma frame_inv : Inv s'.
  Proof. destruct HI as [I1 I2 I3 I4 I5 I6 I7 I8 I9 I10]. constructor; rewrite ?Ea; auto.
    - apply (tree_map s s' g Eq G1 G2 G3 I3).
    - intros b Hb. destruct (I4 b Hb) as (q & E & L). exists (g q). rewrite (find_queue_map' s s' g Eq G1), E, G3. auto.
    - intros q' Hq'. apply (in_queues_map s s' g Eq) in Hq'. destruct Hq' as (q & Hq & ->). rewrite G4, G5. auto.
    - apply (nodes_ok_frame s s' HI); [|assumption].
      intros b' Hb'. rewrite Ea in Hb'. exists b'. split; [assumption|apply incl_refl].
    - rewrite Ec, I10. unfold all_allocs. rewrite Ea. reflexivity. Qed.

  Theorem frame_step : Inv s' /\ Books s'.
  Proof. pose proof frame_inv as HI'. split; [assumption|].
    assert (HB0 : Books0 s').
    { destruct HB as [B1 B2 B3 B4 B5].
      assert (Hsim : nodes_sim s s').
      { split; [|assumption]. intros m' Hm'. destruct (Hn1 m' Hm') as [[E _]|(m & Hm & E1 & E2 & _)]; [left; assumption|right; exists m; auto]. }
      destruct (member_frame s s' (apps_sim_refl s s' Ea) Hsim (owned_P_of s HI B3) (onnode_P_of s B4)) as [O P].
      constructor.
      - rewrite Ea. assumption.
      - apply (queue_books_frame s s' g Ea Eq G1 G2 G3 G4 G5 B2).
      - apply owned_of_P; [apply (inv_app_ids s' HI')|assumption].
      - apply onnode_of_P; [apply (inv_node_ids s' HI')|assumption].
      - apply (root_step s s' g (fun _ => 0) HI HI' Eq G2); [| |assumption].
        + intros r _ k. rewrite G4. lia.
        + intros k. rewrite Hsum. lia. }
    split; [assumption|]. apply drain_to_zero; assumption. Qed.
End Frame.
