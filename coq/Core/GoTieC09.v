(* Tie theorems (C09): Queue.Reserve / UnReserve GENERATED from pkg/scheduler/objects/queue.go equal
   q_reserve / q_unreserve of Core/Reserve.v (reservedApps map[string]int against the list (app, count): [cmap]). *)
From Coq Require Import String List ZArith NArith Bool Lia ZifyBool ZifyN ZifyNat.
From YK Require Import Base.Int64 Core.Obs Core.Reserve
  Generated.GoPrelude Generated.GoObjects Base.GoTieLib.
Import ListNotations.
Open Scope N_scope.

(* ================================================================ C09: reservedApps counters *)
(* reservedApps map[string]int against the model's list (app, count) *)
Definition cmap (l : list (N * N)) : list (N * Z) := map (fun x => (fst x, Z.of_N (snd x))) l.
Definition counts_small (l : list (N * N)) : Prop := Forall (fun x => snd x < 2^62) l.

Lemma mget_cmap l a : mget (cmap l) a = option_map (fun x => Z.of_N (snd x)) (find (fun x => fst x =? a) l).
Proof.
  unfold cmap. induction l as [|[k n] t IH]; cbn; [reflexivity|].
  rewrite (N.eqb_sym a k). destruct (k =? a); [reflexivity|exact IH].
Qed.
Lemma map_other_id (t : list (N * N)) a (f : N -> N) : ~ In a (map fst t) ->
  map (fun x => if fst x =? a then (fst x, f (snd x)) else x) t = t.
Proof.
  induction t as [|[k2 n2] t2 IH]; cbn; intros Hn; [reflexivity|].
  destruct (N.eqb_spec k2 a) as [->|]; [exfalso; apply Hn; now left|].
  f_equal. apply IH. intros Hin; apply Hn; now right.
Qed.
Lemma mset_cmap_present l a (f : N -> N) : NoDup (map fst l) -> existsb (fun x => fst x =? a) l = true ->
  forall z, z = Z.of_N (f (match find (fun x => fst x =? a) l with Some x => snd x | None => 0 end)) ->
  mset (cmap l) a z = cmap (map (fun x => if fst x =? a then (fst x, f (snd x)) else x) l).
Proof.
  unfold cmap. induction l as [|[k n] t IH]; cbn; intros Hnd Hex z Hz; [discriminate|].
  inversion Hnd as [|? ? Hn Ht]; subst.
  rewrite (N.eqb_sym a k). destruct (N.eqb_spec k a) as [->|Hne]; cbn.
  - now rewrite (map_other_id t a f Hn).
  - f_equal. apply IH; auto.
Qed.
Lemma mset_cmap_absent l a n : existsb (fun x => fst x =? a) l = false ->
  mset (cmap l) a (Z.of_N n) = cmap (l ++ [(a, n)]).
Proof.
  unfold cmap. induction l as [|[k m] t IH]; cbn; intros Hex; [reflexivity|].
  rewrite (N.eqb_sym a k). destruct (k =? a); [discriminate|]. cbn in Hex. now rewrite (IH Hex).
Qed.
Lemma mdel_cmap l a : NoDup (map fst l) -> mdel (cmap l) a = cmap (filter (fun y => negb (fst y =? a)) l).
Proof.
  unfold cmap. induction l as [|[k m] t IH]; cbn; intros Hnd; [reflexivity|].
  inversion Hnd as [|? ? Hn Ht]; subst.
  rewrite (N.eqb_sym a k). destruct (N.eqb_spec k a) as [->|Hne]; cbn.
  - f_equal. symmetry. apply filter_true_eq. intros [k2 n2] Hin. cbn.
    destruct (N.eqb_spec k2 a) as [->|]; [|reflexivity].
    exfalso. apply Hn. apply in_map_iff. now exists (a, n2).
  - now rewrite (IH Ht).
Qed.
Lemma find_existsb {A} (p : A -> bool) l : existsb p l = match find p l with Some _ => true | None => false end.
Proof. induction l as [|a t IH]; cbn; [reflexivity|]. destruct (p a); [reflexivity|exact IH]. Qed.
Lemma find_small (l : list (N * N)) p x : counts_small l -> find p l = Some x -> snd x < 2^62.
Proof.
  intros H Hf. apply find_some in Hf as [Hin _]. unfold counts_small in H. rewrite Forall_forall in H. now apply H.
Qed.

Theorem gotie_Reserve sq l app : Queue_reservedApps sq = cmap l -> NoDup (map fst l) -> counts_small l ->
  Queue_reservedApps (GoObjects.Reserve sq app) = cmap (q_reserve app l).
Proof.
  intros Hr Hnd Hs. destruct sq; cbn in Hr; subst. unfold GoObjects.Reserve, q_reserve. cbn.
  unfold mget0. rewrite mget_cmap. rewrite (find_existsb (fun x => fst x =? app) l).
  destruct (find (fun x : N * N => fst x =? app) l) as [x|] eqn:Ef; cbn [option_map].
  - pose proof (find_small l _ x Hs Ef) as Hx.
    rewrite (mset_cmap_present l app (fun n => n + 1) Hnd).
    + reflexivity.
    + rewrite find_existsb, Ef. reflexivity.
    + rewrite Ef. unfold wrap64. rewrite Z.mod_small by lia. lia.
  - change (wrap64 (0 + 1)) with (Z.of_N 1). apply mset_cmap_absent.
    rewrite find_existsb, Ef. reflexivity.
Qed.

Theorem gotie_UnReserve sq l app num : Queue_reservedApps sq = cmap l -> NoDup (map fst l) -> counts_small l ->
  Queue_reservedApps (GoObjects.UnReserve sq app (Z.of_N num)) = cmap (q_unreserve app num l).
Proof.
  intros Hr Hnd Hs. destruct sq; cbn in Hr; subst. unfold GoObjects.UnReserve, q_unreserve. cbn.
  unfold mhas, mget0. rewrite mget_cmap.
  destruct (find (fun x : N * N => fst x =? app) l) as [x|] eqn:Ef; cbn [option_map].
  - pose proof (find_small l _ x Hs Ef) as Hx.
    replace (Z.of_N (snd x) <=? Z.of_N num)%Z with (snd x <=? num) by lia.
    destruct (N.leb_spec (snd x) num); cbn.
    + now apply mdel_cmap.
    + rewrite (mset_cmap_present l app (fun n => n - num) Hnd).
      * reflexivity.
      * rewrite find_existsb, Ef. reflexivity.
      * rewrite Ef. unfold wrap64. rewrite Z.mod_small by lia. lia.
  - reflexivity.
Qed.
