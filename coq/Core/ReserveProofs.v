(* C09 - proofs about the component model Core/Reserve.v, part 1: the coupling invariant of the four
   views and its preservation by the primitive writers. *)
From Coq Require Import List ZArith NArith Bool Lia ZifyBool ZifyNat ZifyN.
From YK Require Import Core.Obs Core.Reserve Core.ReserveLemmas.
Import ListNotations.
Open Scope N_scope.

Definition req_of (v : rview) (x : rres) : N := ask_req v (r_app x) (r_key x).

(* the part of the invariant that does not mention the node / application registries nor the queue counts *)
Record Kr (v : rview) : Prop := mkKr {
  K1 : forall x, In x (rv_app v) <-> In x (rv_node v);
  K2 : NoDup (map r_key (rv_app v));
  K2n : NoDup (map r_key (rv_node v));
  K3a : NoDup (map fst (rv_queue v));
  K3b : forall e, In e (rv_queue v) -> 0 < snd e;
  K4 : (Z.of_nat (length (rv_app v)) <= rv_part v)%Z;
  K5 : forall x, In x (rv_app v) -> exists y, find_ask v (r_app x) (r_key x) = Some y /\ ra_allocated y = false;
  K6 : NoDup (map ra_key (rv_asks v));
  K9 : forall x y, In x (rv_node v) -> In y (rv_node v) -> r_node x = r_node y -> x <> y -> req_of v x <> 0;
  K10 : forall x, In x (rv_node v) -> req_of v x = 0 \/ req_of v x = r_node x }.
Definition Kq (v : rview) : Prop := forall a, queue_count (rv_queue v) a = card (rv_app v) a.
Definition Ka (v : rview) : Prop := forall y, In y (rv_asks v) -> In (ra_app y) (rv_apps v).
Definition Kn (v : rview) : Prop := forall x, In x (rv_app v) -> In (r_node x) (rv_nodes v).
Definition K (v : rview) : Prop := Kr v /\ Kq v /\ Ka v /\ Kn v.

(* ---------- small facts ---------- *)
Lemma is_res_true a k x : is_res a k x = true <-> r_app x = a /\ r_key x = k.
Proof. unfold is_res. rewrite andb_true_iff, !N.eqb_eq. tauto. Qed.
Lemma is_ask_true a k y : is_ask a k y = true <-> ra_app y = a /\ ra_key y = k.
Proof. unfold is_ask. rewrite andb_true_iff, !N.eqb_eq. tauto. Qed.

Lemma app_res_some v a k x : app_res v a k = Some x -> In x (rv_app v) /\ r_app x = a /\ r_key x = k.
Proof. unfold app_res. intro H. apply find_some in H. rewrite is_res_true in H. tauto. Qed.
Lemma app_res_none v a k : app_res v a k = None -> forall x, In x (rv_app v) -> is_res a k x = false.
Proof. unfold app_res. intro H. apply find_none. exact H. Qed.
Lemma find_ask_some v a k y : find_ask v a k = Some y -> In y (rv_asks v) /\ ra_app y = a /\ ra_key y = k.
Proof. unfold find_ask. intro H. apply find_some in H. rewrite is_ask_true in H. tauto. Qed.

Lemma length_filter_le {A} (p : A -> bool) l : (length (filter p l) <= length l)%nat.
Proof. induction l as [|h t IH]; cbn [filter length]; [lia|]. destruct (p h); cbn [length]; lia. Qed.

Lemma card_snoc l x a : card (l ++ [x]) a = card l a + (if r_app x =? a then 1 else 0).
Proof. unfold card. rewrite filter_app, app_length. cbn [filter]. destruct (r_app x =? a); cbn [length]; lia. Qed.

(* same key => same reservation *)
Lemma key_inj_app v x y : Kr v -> In x (rv_app v) -> In y (rv_app v) -> r_key x = r_key y -> x = y.
Proof. intros Hk. eapply NoDup_map_inj. exact (K2 v Hk). Qed.
Lemma key_inj_node v x y : Kr v -> In x (rv_node v) -> In y (rv_node v) -> r_key x = r_key y -> x = y.
Proof. intros Hk. eapply NoDup_map_inj. exact (K2n v Hk). Qed.

(* ---------- unReserveInternal ---------- *)
Lemma del_app_in v a k x : Kr v -> app_res v a k = Some x ->
  forall y, In y (del_app a k (rv_app v)) <-> In y (rv_app v) /\ y <> x.
Proof.
  intros Hk Hr y. destruct (app_res_some _ _ _ _ Hr) as [Hx [Ha Hkx]]. unfold del_app. rewrite filter_In. split.
  - intros [Hy Hn]. split; [exact Hy|]. intro E. subst y.
    assert (is_res a k x = true) as X by (apply is_res_true; auto). rewrite X in Hn. discriminate.
  - intros [Hy Hn]. split; [exact Hy|]. destruct (is_res a k y) eqn:E; [|reflexivity].
    apply is_res_true in E. exfalso. apply Hn. eapply key_inj_app; eauto. destruct E. congruence.
Qed.

Lemma del_node_in v a k x : Kr v -> app_res v a k = Some x ->
  forall y, In y (del_node (r_node x) k (rv_node v)) <-> In y (rv_node v) /\ y <> x.
Proof.
  intros Hk Hr y. destruct (app_res_some _ _ _ _ Hr) as [Hx [Ha Hkx]]. unfold del_node. rewrite filter_In. split.
  - intros [Hy Hn]. split; [exact Hy|]. intro E. subst y. rewrite N.eqb_refl, Hkx, N.eqb_refl in Hn. discriminate.
  - intros [Hy Hn]. split; [exact Hy|]. destruct ((r_node y =? r_node x) && (r_key y =? k)) eqn:E; [|reflexivity].
    apply andb_true_iff in E. destruct E as [_ E]. apply N.eqb_eq in E. exfalso. apply Hn.
    eapply key_inj_node; eauto; [apply (K1 v Hk); exact Hx|congruence].
Qed.

Lemma del_app_len v a k x : Kr v -> app_res v a k = Some x ->
  forall b, card (del_app a k (rv_app v)) b + (if r_app x =? b then 1 else 0) = card (rv_app v) b.
Proof.
  intros Hk Hr b. destruct (app_res_some _ _ _ _ Hr) as [Hx [Ha Hkx]]. unfold card, del_app.
  pose proof (filter_remove_one (fun y => negb (is_res a k y)) (fun y => r_app y =? b) (rv_app v) x) as H.
  assert (NoDup (rv_app v)) as Hnd by (eapply NoDup_map_NoDup; exact (K2 v Hk)).
  specialize (H Hnd Hx). destruct (r_app x =? b); (rewrite <- H; [lia|]);
  (intros y Hy; rewrite negb_false_iff, is_res_true; split;
   [intros [E1 E2]; eapply key_inj_app; eauto; congruence|intro E; subst y; auto]).
Qed.

Lemma del_app_length v a k x : Kr v -> app_res v a k = Some x ->
  (length (del_app a k (rv_app v)) + 1 = length (rv_app v))%nat.
Proof.
  intros Hk Hr. destruct (app_res_some _ _ _ _ Hr) as [Hx [Ha Hkx]]. unfold del_app.
  pose proof (filter_remove_one (fun y => negb (is_res a k y)) (fun _ => true) (rv_app v) x) as H.
  assert (NoDup (rv_app v)) as Hnd by (eapply NoDup_map_NoDup; exact (K2 v Hk)).
  specialize (H Hnd Hx).
  assert (forall l : list rres, filter (fun _ => true) l = l) as Ft by (intro l; apply filter_all_true; reflexivity).
  rewrite !Ft in H. apply H.
  intros y Hy. rewrite negb_false_iff, is_res_true. split;
   [intros [E1 E2]; eapply key_inj_app; eauto; congruence|intro E; subst y; auto].
Qed.

Lemma app_unreserve_none v a k : app_res v a k = None -> app_unreserve v a k = v.
Proof. intro H. unfold app_unreserve. rewrite H. reflexivity. Qed.

Lemma app_unreserve_Kr v a k : Kr v -> Kr (app_unreserve v a k).
Proof.
  intro Hk. unfold app_unreserve. destruct (app_res v a k) as [x|] eqn:Hr; [|exact Hk].
  pose proof (del_app_in v a k x Hk Hr) as HA. pose proof (del_node_in v a k x Hk Hr) as HN.
  constructor; cbn [with_res rv_app rv_node rv_queue rv_part rv_asks].
  - intro y. rewrite HA, HN. rewrite (K1 v Hk). tauto.
  - apply NoDup_map_filter. exact (K2 v Hk).
  - apply NoDup_map_filter. exact (K2n v Hk).
  - exact (K3a v Hk).
  - exact (K3b v Hk).
  - pose proof (K4 v Hk). pose proof (del_app_length v a k x Hk Hr). lia.
  - intros y Hy. apply HA in Hy. apply (K5 v Hk). tauto.
  - exact (K6 v Hk).
  - intros y z Hy Hz. apply HN in Hy. apply HN in Hz. apply (K9 v Hk); tauto.
  - intros y Hy. apply HN in Hy. apply (K10 v Hk). tauto.
Qed.

Lemma app_unreserve_app v a k : rv_app (app_unreserve v a k) = del_app a k (rv_app v).
Proof.
  unfold app_unreserve. destruct (app_res v a k) eqn:Hr; [reflexivity|].
  unfold del_app. symmetry. apply filter_all_true. intros x Hx. rewrite (app_res_none _ _ _ Hr x Hx). reflexivity.
Qed.

Lemma app_unreserve_sub v a k y : In y (rv_app (app_unreserve v a k)) -> In y (rv_app v) /\ is_res a k y = false.
Proof. rewrite app_unreserve_app. unfold del_app. rewrite filter_In, negb_true_iff. tauto. Qed.

Lemma app_unreserve_other v a k y : In y (rv_app v) -> is_res a k y = false -> In y (rv_app (app_unreserve v a k)).
Proof. rewrite app_unreserve_app. unfold del_app. rewrite filter_In, negb_true_iff. tauto. Qed.

(* ---------- cancel_one / PartitionContext.unReserve ---------- *)
Lemma unreserve_num_card v a k : Kr v ->
  forall b, card (rv_app (app_unreserve v a k)) b + (if b =? a then unreserve_num v a k else 0) = card (rv_app v) b.
Proof.
  intros Hk b. unfold unreserve_num, app_unreserve. destruct (app_res v a k) as [x|] eqn:Hr.
  - cbn [with_res rv_app]. pose proof (del_app_len v a k x Hk Hr b) as H.
    destruct (app_res_some _ _ _ _ Hr) as [_ [Ha _]]. rewrite Ha in H. rewrite (N.eqb_sym b a). exact H.
  - destruct (b =? a); lia.
Qed.

Lemma unreserve_num_length v a k : Kr v ->
  (length (rv_app (app_unreserve v a k)) + N.to_nat (unreserve_num v a k) = length (rv_app v))%nat.
Proof.
  intros Hk. unfold unreserve_num, app_unreserve. destruct (app_res v a k) as [x|] eqn:Hr.
  - cbn [with_res rv_app]. pose proof (del_app_length v a k x Hk Hr). lia.
  - lia.
Qed.

Lemma cancel_one_Kr v a k : Kr v -> Kr (cancel_one v a k).
Proof.
  intro Hk. pose proof (app_unreserve_Kr v a k Hk) as H1. unfold cancel_one.
  destruct H1 as [h1 h2 h2n h3a h3b h4 h5 h6 h9 h10]. constructor; cbn [with_queue rv_app rv_node rv_queue rv_part rv_asks]; auto.
  - apply q_unreserve_nodup. exact h3a.
  - apply q_unreserve_pos; assumption.
Qed.

Lemma cancel_one_Kq v a k : Kr v -> Kq v -> Kq (cancel_one v a k).
Proof.
  intros Hk Hq b. unfold cancel_one. cbn [with_queue rv_queue rv_app].
  pose proof (unreserve_num_card v a k Hk) as Hc.
  assert (rv_queue (app_unreserve v a k) = rv_queue v) as Eq.
  { unfold app_unreserve. destruct (app_res v a k); reflexivity. }
  rewrite Eq. rewrite q_unreserve_count.
  - pose proof (Hc b) as Hb. pose proof (Hc a) as Haa. rewrite N.eqb_refl in Haa. rewrite (Hq a).
    destruct (b =? a) eqn:E; [apply N.eqb_eq in E; subst b; lia|]. rewrite (Hq b). lia.
  - rewrite (Hq a). pose proof (Hc a) as Haa. rewrite N.eqb_refl in Haa. lia.
Qed.

Lemma cancel_one_app v a k : rv_app (cancel_one v a k) = del_app a k (rv_app v).
Proof. unfold cancel_one. cbn [with_queue rv_app]. apply app_unreserve_app. Qed.

Lemma part_unreserve_Kr v a k : Kr v -> Kr (part_unreserve v a k).
Proof.
  intro Hk. pose proof (cancel_one_Kr v a k Hk) as H1. unfold part_unreserve.
  destruct H1 as [h1 h2 h2n h3a h3b h4 h5 h6 h9 h10]. constructor; cbn [with_part rv_app rv_node rv_queue rv_part rv_asks]; auto.
  rewrite cancel_one_app. rewrite <- app_unreserve_app. pose proof (unreserve_num_length v a k Hk). pose proof (K4 v Hk). lia.
Qed.

Lemma part_unreserve_Kq v a k : Kr v -> Kq v -> Kq (part_unreserve v a k).
Proof. intros Hk Hq. exact (cancel_one_Kq v a k Hk Hq). Qed.

Lemma part_unreserve_app v a k : rv_app (part_unreserve v a k) = del_app a k (rv_app v).
Proof. unfold part_unreserve. cbn [with_part rv_app]. apply cancel_one_app. Qed.

(* ---------- reserveInternal / PartitionContext.reserve ---------- *)
Lemma fresh_key v a k y : Kr v -> find_ask v a k = Some y -> app_res v a k = None ->
  forall z, In z (rv_app v) -> r_key z <> k.
Proof.
  intros Hk Hf Hr z Hz E. destruct (K5 v Hk z Hz) as [y' [Hy' _]].
  destruct (find_ask_some _ _ _ _ Hf) as [Hy [Ha Hky]]. destruct (find_ask_some _ _ _ _ Hy') as [Hyi [Ha' Hk']].
  assert (y' = y) as Ey by (eapply (NoDup_map_inj ra_key); [exact (K6 v Hk)|exact Hyi|exact Hy|congruence]).
  subst y'. assert (is_res a k z = true) as X by (apply is_res_true; split; congruence).
  rewrite (app_res_none _ _ _ Hr z Hz) in X. discriminate.
Qed.

Lemma node_entries_in v n x : In x (node_entries v n) <-> In x (rv_node v) /\ r_node x = n.
Proof. unfold node_entries. rewrite filter_In, N.eqb_eq. tauto. Qed.

Lemma app_reserve_K v n a k fits v2 :
  K v -> app_reserve v n a k fits = Some v2 -> In n (rv_nodes v) ->
  (ask_req v a k = 0 \/ ask_req v a k = n) -> K (reserve_done v2 a).
Proof.
  intros [Hk [Hq [Ha Hn]]] Hres Hnode Hreq. unfold app_reserve in Hres.
  destruct (find_ask v a k) as [y|] eqn:Hf; [|discriminate].
  destruct (ra_allocated y) eqn:Hal; [discriminate|].
  destruct (app_res v a k) eqn:Hr; [discriminate|].
  destruct (node_reserve_ok v n a k fits) eqn:Hok; [|discriminate]. inversion Hres; subst v2. clear Hres.
  pose proof (fresh_key v a k y Hk Hf Hr) as Hfresh.
  assert (Hfn : forall z, In z (rv_node v) -> r_key z <> k) by (intros z Hz; apply Hfresh; apply (K1 v Hk); exact Hz).
  assert (Hdel : forall z, In z (del_node n k (rv_node v)) <-> In z (rv_node v)).
  { intro z. unfold del_node. rewrite filter_In. split; [tauto|]. intro Hz. split; [exact Hz|].
    destruct (r_key z =? k) eqn:E; [apply N.eqb_eq in E; exfalso; eapply Hfn; eauto|]. rewrite andb_false_r. reflexivity. }
  set (x := mkR a k n).
  assert (Hreqx : req_of v x = ask_req v a k) by reflexivity.
  unfold node_reserve_ok in Hok. apply andb_true_iff in Hok. destruct Hok as [Hok _].
  split; [|split; [|split]].
  - constructor; cbn [reserve_done with_part with_queue with_res rv_app rv_node rv_queue rv_part rv_asks].
    + intro z. rewrite !in_app_iff, Hdel, (K1 v Hk). tauto.
    + apply NoDup_map_snoc; [exact (K2 v Hk)|]. cbn [r_key x]. intro Hi. apply in_map_iff in Hi.
      destruct Hi as [z [Ez Hz]]. eapply Hfresh; eauto.
    + apply NoDup_map_snoc; [apply NoDup_map_filter; exact (K2n v Hk)|]. cbn [r_key x]. intro Hi. apply in_map_iff in Hi.
      destruct Hi as [z [Ez Hz]]. apply Hdel in Hz. eapply Hfn; eauto.
    + apply q_reserve_nodup. exact (K3a v Hk).
    + apply q_reserve_pos. exact (K3b v Hk).
    + rewrite app_length. cbn [length]. pose proof (K4 v Hk). lia.
    + intros z Hz. apply in_app_or in Hz. destruct Hz as [Hz|[Hz|[]]]; [apply (K5 v Hk z Hz)|]. subst z.
      exists y. split; [exact Hf|exact Hal].
    + exact (K6 v Hk).
    + intros z1 z2 H1 H2 He Hne. apply in_app_or in H1. apply in_app_or in H2.
      destruct H1 as [H1|[H1|[]]]; destruct H2 as [H2|[H2|[]]].
      * apply Hdel in H1. apply Hdel in H2. apply (K9 v Hk z1 z2); assumption.
      * apply Hdel in H1. subst z2. cbn [r_node x] in He.
        change (req_of v z1 <> 0). destruct (ask_req v a k =? 0) eqn:E0.
        -- assert (In z1 (node_entries v n)) as Hin by (apply node_entries_in; auto).
           destruct (node_entries v n); [contradiction|discriminate].
        -- rewrite forallb_forall in Hok. assert (In z1 (node_entries v n)) as Hin by (apply node_entries_in; auto).
           specialize (Hok z1 Hin). apply negb_true_iff, N.eqb_neq in Hok. exact Hok.
      * apply Hdel in H2. subst z1. cbn [r_node x] in He. change (req_of v x <> 0). rewrite Hreqx.
        destruct (ask_req v a k =? 0) eqn:E0; [|apply N.eqb_neq; exact E0].
        assert (In z2 (node_entries v n)) as Hin by (apply node_entries_in; auto).
        destruct (node_entries v n); [contradiction|discriminate].
      * subst. contradiction.
    + intros z Hz. apply in_app_or in Hz. destruct Hz as [Hz|[Hz|[]]].
      * apply Hdel in Hz. apply (K10 v Hk z Hz).
      * subst z. change (req_of v x = 0 \/ req_of v x = n). rewrite Hreqx. exact Hreq.
  - intro b. cbn [reserve_done with_part with_queue with_res rv_app rv_queue]. rewrite q_reserve_count, card_snoc, (Hq b).
    cbn [r_app x]. rewrite (N.eqb_sym a b). reflexivity.
  - exact Ha.
  - intros z Hz. cbn [reserve_done with_part with_queue with_res rv_app rv_nodes] in *.
    apply in_app_or in Hz. destruct Hz as [Hz|[Hz|[]]]; [apply Hn; exact Hz|]. subst z. exact Hnode.
Qed.

Lemma part_unreserve_static v a k :
  rv_asks (part_unreserve v a k) = rv_asks v /\ rv_apps (part_unreserve v a k) = rv_apps v /\
  rv_nodes (part_unreserve v a k) = rv_nodes v.
Proof. unfold part_unreserve, cancel_one, app_unreserve. destruct (app_res v a k); auto. Qed.
Lemma cancel_one_static v a k :
  rv_asks (cancel_one v a k) = rv_asks v /\ rv_apps (cancel_one v a k) = rv_apps v /\
  rv_nodes (cancel_one v a k) = rv_nodes v /\ rv_part (cancel_one v a k) = rv_part v.
Proof. unfold cancel_one, app_unreserve. destruct (app_res v a k); auto. Qed.

Lemma K_part_unreserve v a k : K v -> K (part_unreserve v a k).
Proof.
  intros [Hk [Hq [Ha Hn]]]. split; [apply part_unreserve_Kr; exact Hk|]. split; [apply part_unreserve_Kq; assumption|].
  destruct (part_unreserve_static v a k) as [E1 [E2 E3]].
  split; [unfold Ka; rewrite E1, E2; exact Ha|]. intros x Hx. rewrite E3. rewrite part_unreserve_app in Hx.
  unfold del_app in Hx. apply filter_In in Hx. apply Hn. tauto.
Qed.

Lemma K_cancel_one v a k : K v -> K (cancel_one v a k).
Proof.
  intros [Hk [Hq [Ha Hn]]]. split; [apply cancel_one_Kr; exact Hk|]. split; [apply cancel_one_Kq; assumption|].
  destruct (cancel_one_static v a k) as [E1 [E2 [E3 _]]].
  split; [unfold Ka; rewrite E1, E2; exact Ha|]. intros x Hx. rewrite E3. rewrite cancel_one_app in Hx.
  unfold del_app in Hx. apply filter_In in Hx. apply Hn. tauto.
Qed.

Lemma part_reserve_K v a k n fits :
  K v -> In n (rv_nodes v) -> (ask_req v a k = 0 \/ ask_req v a k = n) -> K (part_reserve v a k n fits).
Proof.
  intros HK Hnode Hreq. unfold part_reserve. destruct (app_res v a k) as [x|] eqn:Hr.
  - destruct (r_node x =? n); [exact HK|].
    pose proof (K_part_unreserve v a k HK) as HK1.
    destruct (app_reserve (part_unreserve v a k) n a k fits) as [v2|] eqn:E; [|exact HK1].
    destruct (part_unreserve_static v a k) as [E1 [E2 E3]].
    eapply app_reserve_K; [exact HK1|exact E|rewrite E3; exact Hnode|].
    unfold ask_req, find_ask. rewrite E1. exact Hreq.
  - destruct (app_reserve v n a k fits) as [v2|] eqn:E; [|exact HK]. eapply app_reserve_K; eauto.
Qed.
