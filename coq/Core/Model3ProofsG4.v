(* C03 over the gang fragment (Core/Model3.v), generic layer, part 4.
   - an application that holds nothing leaves ([drop_app_stepG]) or joins ([add_app_stepG], [g_app_add_step]) the live list;
   - [inv_to_invg]: a state satisfying the invariants of the first two fragments ([Inv], [Books0]) whose records have a
     positive size satisfies [InvG] and [BooksG], so the states proved reachable there enter the gang fragment. *)
From Coq Require Import List ZArith NArith Bool Lia ZifyBool.
From YK Require Import Base.Int64 Base.Res Base.ResSpec Base.ResLemmas Base.ResLaws Base.ResLaws2 Base.ResLawsPred
  Core.Obs Core.Model Core.Model2 Core.Model3 Core.Ledger
  Core.BooksLemmas Core.BooksDefs Core.BooksTree Core.BooksQueue Core.BooksApp Core.BooksState Core.BooksDrain Core.BooksOps
  Core.BooksOps2 Core.BooksOps3 Core.Model2ProofsB1 Core.Model2ProofsB2 Core.Model3ProofsD Core.Model3ProofsG1 Core.Model3ProofsG2.
Import ListNotations.
Open Scope Z_scope.
Set Default Timeout 30.

(* an application without allocations and without an allocated request of an in-flight replacement is named by no
   record on a node *)
Lemma no_inflight_norec s a : InvG s -> In a (s_apps s) -> ap_allocs a = [] ->
  (forall r, In r (ap_requests a) -> oa_allocated r = true -> infl r = false) ->
  forall n y, In n (s_nodes s) -> In y (on_allocs n) -> oa_app y <> ap_id a.
Proof. intros HI Ha Eal Hno n y Hn Hy E. destruct (g_owner s n y a HI Hn Hy Ha (eq_sym E)) as [Ho|(Hi & Hr & Hal & _)].
  - rewrite Eal in Ho. contradiction.
  - rewrite (Hno y Hr Hal) in Hi. discriminate. Qed.
Lemma no_requests_norec s a : InvG s -> In a (s_apps s) -> ap_allocs a = [] -> ap_requests a = [] ->
  forall n y, In n (s_nodes s) -> In y (on_allocs n) -> oa_app y <> ap_id a.
Proof. intros HI Ha Eal Er. apply no_inflight_norec; auto. intros r Hr. rewrite Er in Hr. contradiction. Qed.

(* ================================================================== an empty application leaves the live list *)
Section DropAppG.
  Variables (s s' : ostate) (id : N).
  Hypothesis HI : InvG s.
  Hypothesis HB : BooksG s.
  Hypothesis Ea : s_apps s' = filter (fun b => negb (ap_id b =? id)%N) (s_apps s).
  Hypothesis En : s_nodes s' = s_nodes s.
  Hypothesis Eq : s_queues s' = s_queues s.
  Hypothesis Ef : s_foreign s' = s_foreign s.
  Hypothesis Ec : s_nallocs s' = s_nallocs s.
  (* [AppEmpty] (Core/Model2ProofsB1.v): no allocation, the three ledgers are zero *)
  Hypothesis Hempty : forall a, In a (s_apps s) -> ap_id a = id -> AppEmpty a.
  Hypothesis Hnorec : forall n y, In n (s_nodes s) -> In y (on_allocs n) -> oa_app y <> id.

  Lemma dropG_in b : In b (s_apps s') <-> In b (s_apps s) /\ ap_id b <> id.
  Proof. rewrite Ea, filter_In. destruct (N.eqb_spec (ap_id b) id); cbn [negb]; intuition congruence. Qed.

  Lemma drop_invG : InvG s'.
  Proof. destruct HI as [I1 I2 I3 I4 I5 I6 I7 I8 I9 I10 I11 I12]. constructor.
    - rewrite Ea. apply NoDup_map_filter. assumption.
    - rewrite En. assumption.
    - apply (tree_same s s' Eq I3).
    - intros b Hb. apply dropG_in in Hb. destruct (I4 b (proj1 Hb)) as (q & E & L). exists q. rewrite (find_queue_ext s' s _ Eq). auto.
    - intros b Hb. apply dropG_in in Hb. apply I5. tauto.
    - rewrite Eq. assumption.
    - intros b1 b2 x1 x2 H1 H2. apply dropG_in in H1, H2. apply I7; tauto.
    - intros f b x Hf Hb. rewrite Ef in Hf. apply dropG_in in Hb. apply I8; tauto.
    - rewrite En. assumption.
    - intros n y Hn Hy. rewrite En in Hn. destruct (I10 n y Hn Hy) as (b & Hb & Eb & Ho). exists b. split; [|auto].
      apply dropG_in. split; [assumption|]. rewrite Eb. apply (Hnorec n y Hn Hy).
    - intros b x Hb Hx. apply dropG_in in Hb. rewrite En. apply (I11 b x (proj1 Hb) Hx).
    - rewrite Ec, I12. unfold all_allocs. rewrite Ea. f_equal. symmetry. apply length_flat_map_filter.
      intros b Hb Hf. apply negb_false_iff, N.eqb_eq in Hf. apply (ae_allocs b (Hempty b Hb Hf)). Qed.

  Theorem drop_app_stepG : InvG s' /\ BooksG s'.
  Proof. split; [apply drop_invG|]. destruct HB as [B1 B2 B3]. constructor.
    - intros b Hb. apply dropG_in in Hb. apply B1. tauto.
    - intros q Hq. rewrite Eq in Hq. apply (queue_books_same s s' Eq); [|apply B2; assumption].
      intros h qid k Hh. unfold apps_of_queue. rewrite Ea, filter_filter_comm. apply sumz_filter_zero.
      intros b Hb Hf. apply filter_In in Hb. apply negb_false_iff, N.eqb_eq in Hf. pose proof (Hempty b (proj1 Hb) Hf) as [_ E1 E2 E3].
      destruct Hh as [->|[->| ->]]; auto.
    - intros r Er k. unfold root_queue in Er. rewrite Eq in Er. rewrite (node_records_same s s' En). apply (B3 r Er k). Qed.
End DropAppG.

(* ================================================================== an empty application joins the live list *)
Section AddAppG.
  Variables (s s' : ostate) (a0 : oapp).
  Hypothesis HI : InvG s.
  Hypothesis HB : BooksG s.
  Hypothesis Ea : s_apps s' = s_apps s ++ [a0].
  Hypothesis En : s_nodes s' = s_nodes s.
  Hypothesis Eq : s_queues s' = s_queues s.
  Hypothesis Ef : s_foreign s' = s_foreign s.
  Hypothesis Ec : s_nallocs s' = s_nallocs s.
  Hypothesis Hnew : find_app s (ap_id a0) = None.
  Hypothesis Hleaf : exists q, find_queue s (ap_queue a0) = Some q /\ q_leaf q = true.
  Hypothesis Hempty : AppEmpty a0.
  Hypothesis Hreq : ap_requests a0 = [].
  Hypothesis Hbooks : AppBooks a0.
  Hypothesis Hwf : AppWF3 a0.

  Lemma addG_in b : In b (s_apps s') <-> In b (s_apps s) \/ b = a0.
  Proof. rewrite Ea, in_app_iff. cbn [In]. intuition. Qed.
  Lemma a0_no_records x : ~ In x (app_records a0).
  Proof. unfold app_records. rewrite Hreq, (ae_allocs a0 Hempty). intros []. Qed.

  Lemma add_invG : InvG s'.
  Proof. destruct HI as [I1 I2 I3 I4 I5 I6 I7 I8 I9 I10 I11 I12]. constructor.
    - rewrite Ea, map_app. apply NoDup_snoc; [assumption|]. apply (findk_none ap_id). exact Hnew.
    - rewrite En. assumption.
    - apply (tree_same s s' Eq I3).
    - intros b Hb. apply addG_in in Hb. destruct Hb as [Hb| ->].
      + destruct (I4 b Hb) as (q & E & L). exists q. rewrite (find_queue_ext s' s _ Eq). auto.
      + destruct Hleaf as (q & E & L). exists q. rewrite (find_queue_ext s' s _ Eq). auto.
    - intros b Hb. apply addG_in in Hb. destruct Hb as [Hb| ->]; auto.
    - rewrite Eq. assumption.
    - intros b1 b2 x1 x2 H1 H2 Hx1 Hx2. apply addG_in in H1, H2. destruct H1 as [H1| ->]; [|destruct (a0_no_records x1 Hx1)].
      destruct H2 as [H2| ->]; [|destruct (a0_no_records x2 Hx2)]. apply (I7 b1 b2 x1 x2); assumption.
    - intros f b x Hf Hb Hx. rewrite Ef in Hf. apply addG_in in Hb. destruct Hb as [Hb| ->]; [|destruct (a0_no_records x Hx)].
      apply (I8 f b x); assumption.
    - rewrite En. assumption.
    - intros n y Hn Hy. rewrite En in Hn. destruct (I10 n y Hn Hy) as (b & Hb & Eb & Ho). exists b. split; [apply addG_in; auto|auto].
    - intros b x Hb Hx. apply addG_in in Hb. rewrite En. destruct Hb as [Hb| ->]; [apply (I11 b x Hb Hx)|].
      rewrite (ae_allocs a0 Hempty) in Hx. contradiction.
    - rewrite Ec, I12. unfold all_allocs. rewrite Ea, flat_map_app, app_length. cbn [flat_map]. rewrite (ae_allocs a0 Hempty). cbn. lia. Qed.

  Theorem add_app_stepG : InvG s' /\ BooksG s'.
  Proof. split; [apply add_invG|]. destruct HB as [B1 B2 B3]. constructor.
    - intros b Hb. apply addG_in in Hb. destruct Hb as [Hb| ->]; auto.
    - intros q Hq. rewrite Eq in Hq. apply (queue_books_same s s' Eq); [|apply B2; assumption].
      intros h qid k Hh. unfold apps_of_queue. rewrite Ea, filter_app, map_app, sumz_app. cbn [filter].
      destruct (ap_queue a0 =? qid)%N; cbn [map]; rewrite ?sumz_cons, ?sumz_nil; [|lia].
      destruct Hempty as [_ E1 E2 E3]. destruct Hh as [->|[->| ->]]; rewrite ?E1, ?E2, ?E3; lia.
    - intros r Er k. unfold root_queue in Er. rewrite Eq in Er. rewrite (node_records_same s s' En). apply (B3 r Er k). Qed.
End AddAppG.

(* AddApplication with a gang request (Core/Model3.v [g_app_add]) *)
Lemma gang_app_facts id queue user forced ask :
  let a0 := mkOApp id queue ST_New user [] [] [] ask [] [] [] [] [] false false forced false in
  AppEmpty a0 /\ ap_requests a0 = [] /\ AppBooks a0 /\ AppWF3 a0.
Proof. cbv zeta. split; [constructor; reflexivity|]. split; [reflexivity|]. split.
  - constructor; try (intros k; reflexivity); apply rnonneg_nil.
  - constructor; cbn [ap_requests ap_allocs ap_pending ap_allocated ap_phalloc]; try constructor; try (intros; contradiction). Qed.

Theorem g_app_add_step s s' evs id queue user forced nougi phask tagmaxapps tagmax : InvG s -> BooksG s ->
  g_app_add s evs id queue user forced nougi phask tagmaxapps tagmax = Some s' -> InvG s' /\ BooksG s'.
Proof. intros HI HB H. unfold g_app_add in H. destruct (find_app s id) eqn:Enew; [discriminate|].
  destruct (nougi || forced || _ || _ || _); [discriminate|]. destruct (find_queue s queue) as [q|] eqn:Eqq; [|discriminate].
  destruct (q_leaf q && (q_state q =? QS_Active)%N && negb (q_parent q =? 0)%N) eqn:Eg; [|discriminate].
  rewrite !andb_true_iff in Eg. destruct Eg as [[El _] _].
  destruct (has_accept evs id).
  - destruct (match max_queue_set s (path_ids s queue) with Some m => FitInMaxUndef (Some m) phask | None => true end); [|discriminate].
    inversion H; subst s'; clear H.
    destruct (gang_app_facts id queue user forced (oget phask)) as (F1 & F2 & F3 & F4).
    apply (add_app_stepG s _ (mkOApp id queue ST_New user [] [] [] (oget phask) [] [] [] [] [] false false forced false) HI HB);
      try reflexivity; try assumption. exists q. auto.
  - destruct (has_reject evs id); [|discriminate]. inversion H; subst s'. auto. Qed.

(* ================================================================== from the first two fragments into the gang fragment *)
Lemma filter_all {A} (P : A -> bool) l : (forall x, In x l -> P x = true) -> filter P l = l.
Proof. induction l as [|x t IH]; intros H; [reflexivity|]. cbn [filter]. rewrite (H x (or_introl eq_refl)), IH; [reflexivity|].
  intros y Hy. apply H. right. assumption. Qed.
Section FromInv.
  Variable s : ostate.
  Hypothesis HI : Inv s.
  Hypothesis HB : Books0 s.
  (* UpdateAllocation rejects a request whose resource is not strictly greater than zero *)
  Hypothesis Hpos : forall a x, In a (s_apps s) -> In x (app_records a) -> positive (oa_res x).
  (* the placeholder ledger is not part of [Inv] (the first two fragments never write it) *)
  Hypothesis Hphwf : forall a, In a (s_apps s) -> wf (ap_phalloc a).

  Lemma fi_alloc_req a y : In a (s_apps s) -> In y (ap_allocs a) -> exists r, In r (ap_requests a) /\ oa_key r = oa_key y /\ oa_allocated r = true.
  Proof. intros Ha Hy. apply (aw_allocreq a (inv_app_wf s HI a Ha) y Hy). Qed.
  Lemma fi_record_key a x : In a (s_apps s) -> In x (app_records a) -> exists r, In r (ap_requests a) /\ oa_key r = oa_key x.
  Proof. intros Ha Hx. apply in_records in Hx. destruct Hx as [Hx|Hx]; [eauto|].
    destruct (fi_alloc_req a x Ha Hx) as (r & Hr & E & _). eauto. Qed.
  Lemma fi_alloc_ok a x : In a (s_apps s) -> In x (app_records a) -> AllocOK3 (ap_id a) x.
  Proof. intros Ha Hx. pose proof (inv_app_wf s HI a Ha) as W.
    assert (A : AllocOK (ap_id a) x) by (apply in_records in Hx; destruct Hx; [apply (aw_req a W)|apply (aw_alloc a W)]; assumption).
    destruct A as [A1 A2 A3 A4 A5]. constructor; auto. apply (Hpos a x Ha Hx). Qed.
  Lemma fi_app_wf a : In a (s_apps s) -> AppWF3 a.
  Proof. intros Ha. pose proof (inv_app_wf s HI a Ha) as W. destruct W as [W1 W2 W3 W4 W5 W6 W7]. constructor; auto.
    - intros x Hx. apply fi_alloc_ok; [assumption|apply in_records; auto].
    - intros x Hx. apply fi_alloc_ok; [assumption|apply in_records; auto].
    - intros x Hx _. apply (ao_link _ x (W4 x Hx)).
    - intros r Hr Hna C. unfold akeys in C. apply in_map_iff in C. destruct C as (y & Ey & Hy).
      destruct (W5 y Hy) as (r' & Hr' & Er' & Hal). assert (r' = r) by (apply (nodup_key_inj oa_key (ap_requests a)); auto; congruence). congruence.
    - intros x Hx _ Hne. exfalso. apply Hne. apply (ao_link _ x (W4 x Hx)). Qed.
  Lemma fi_node_ok n : In n (s_nodes s) -> NodeOK3 n.
  Proof. intros Hn. destruct (inv_nodes s HI n Hn) as [K1 K2 K3 K4 K5]. constructor; auto. intros y Hy. apply (K2 y Hy). Qed.
  Lemma fi_nolink y : In y (node_records s) -> ninfl y = true.
  Proof. intros Hy. apply in_node_records in Hy. destruct Hy as (n & Hn & Hy). unfold ninfl, infl.
    rewrite (proj2 (nk_node s n (inv_nodes s HI n Hn) y Hy)). cbn. rewrite andb_false_r. reflexivity. Qed.

  Theorem inv_to_invg : InvG s /\ BooksG s.
  Proof. split.
    - constructor.
      + apply (inv_app_ids s HI).
      + apply (inv_node_ids s HI).
      + apply (inv_tree s HI).
      + apply (inv_app_leaf s HI).
      + apply fi_app_wf.
      + apply (inv_q_wf s HI).
      + intros a1 a2 x1 x2 H1 H2 Hx1 Hx2 E. destruct (fi_record_key a1 x1 H1 Hx1) as (r1 & Hr1 & E1). destruct (fi_record_key a2 x2 H2 Hx2) as (r2 & Hr2 & E2).
        apply (inv_keys s HI a1 a2 r1 r2); auto. congruence.
      + intros f a x Hf Ha Hx. destruct (fi_record_key a x Ha Hx) as (r & Hr & E). rewrite <- E. apply (inv_foreign s HI f a r); auto.
      + apply fi_node_ok.
      + intros n y Hn Hy. destruct (node_alloc_listed s n y HI HB Hn Hy) as (a & Ha & Hya & E). exists a. split; [assumption|]. split; [assumption|]. left. assumption.
      + intros a x Ha Hx. destruct (onnode_P_of s (bk_onnode s HB) a x Ha Hx) as (n & Hn & En & Hk). exists n. split; [assumption|]. split; [assumption|].
        unfold akeys in Hk. apply in_map_iff in Hk. destruct Hk as (y & Ey & Hy).
        rewrite (nk_same s n (inv_nodes s HI n Hn) y a x Hy Ha Hx (eq_sym Ey)). assumption.
      + apply (inv_count s HI).
    - constructor.
      + apply (bk_apps s HB).
      + apply (bk_queues s HB).
      + intros r Er k. rewrite (proj1 (root_matches_spec s HI) (bk_root s HB) r Er k).
        rewrite (nodes_ledger_sum (s_nodes s) k) by (intros n Hn; apply (nk_ledger s n (inv_nodes s HI n Hn))).
        fold (node_records s). rewrite (filter_all ninfl (node_records s) fi_nolink). reflexivity. Qed.
End FromInv.
