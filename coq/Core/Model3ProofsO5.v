(* C03 over the gang fragment (Core/Model3.v): removeApplication for an application with placeholders and possibly
   same-node in-flight replacements ([g_app_remove]).
   All asks are given back ([app_remove_all_asks]), the three ledgers of the application are taken from every ancestor
   queue, every allocation of the application leaves its node ([remove_allocs_from_nodes]), the application leaves the
   live list, the partition counter drops by the number of allocations.
   Proof, as for the plain version (Core/Model2ProofsB4.v): (1) an invariant [RQ] over the node walk; (2) ONE application
   of the master lemma [gang_step] for the state in which the application is emptied; (3) [drop_app_stepG];
   (4) [LinkOK] of the result from the description of the final node lists ([Stripped]).
   The hypothesis "no node lists an in-flight real record of the application" ([NoInfl]) follows from the guard
   [known_trigger s st = None] of [m_step_gang] (trigger 5: [xnode_inflight_reals a = []]) and [LinkL1]: [noinfl_of_trigger]. *)
From Coq Require Import List ZArith NArith Bool Lia ZifyBool.
From YK Require Import Base.Int64 Base.Res Base.ResSpec Base.ResLemmas Base.ResLaws Base.ResLaws2 Base.ResLawsPred
  Core.Obs Core.Model Core.Model2 Core.Model3 Core.Ledger
  Core.BooksLemmas Core.BooksDefs Core.BooksTree Core.BooksQueue Core.BooksApp Core.BooksState Core.BooksDrain Core.BooksOps
  Core.BooksOps2 Core.BooksOps3 Core.Model2ProofsB1 Core.Model2ProofsB2 Core.Model2ProofsB4
  Core.Model3ProofsD Core.Model3ProofsD2 Core.Model3ProofsG1 Core.Model3ProofsG2 Core.Model3ProofsG4 Core.Model3ProofsG6
  Core.Model3ProofsA1.
Import ListNotations.
Open Scope Z_scope.
Set Default Timeout 30.

(* ================================================================== (0) the hypothesis from the known-finding guard *)
(* no node lists the real half of an in-flight replacement of application [id] *)
Definition NoInfl (s : ostate) (id : N) : Prop :=
  forall n y, In n (s_nodes s) -> In y (on_allocs n) -> oa_app y = id -> infl y = false.

Lemma noinfl_of_trigger s a : InvG2 s -> In a (s_apps s) -> xnode_inflight_reals a = [] -> NoInfl s (ap_id a).
Proof. intros [HI [L1 _]] Ha Hx n y Hn Hy Eapp. destruct (infl y) eqn:Ei; [exfalso|reflexivity].
  destruct (L1 n y Hn Hy Ei) as (b & ph & Hb & Eb & Hph & Pph & Kph & Rph & Nph).
  assert (b = a) by (apply (g_same_app s a b HI Ha Hb); congruence). subst b.
  pose proof (ig_app_wf s HI a Ha) as W.
  destruct (g_owner s n y a HI Hn Hy Ha (eq_sym Eapp)) as [Ho|(_ & Hr & Hal & Hfr)].
  - pose proof (alloc_ninfl a y W Ho) as C. unfold ninfl in C. rewrite Ei in C. discriminate.
  - assert (Hin : In y (xnode_inflight_reals a)).
    { unfold xnode_inflight_reals. apply filter_In. split; [assumption|]. unfold is_inflight_real_req. unfold infl in Ei.
      apply andb_true_iff in Ei. destruct Ei as [E1 E2]. rewrite E1, E2, Hal. cbn [andb].
      apply find_alloc_none in Hfr. rewrite Hfr.
      rewrite <- Kph, (find_alloc_in _ ph (w3_alloc_keys a W) Hph). cbn [andb]. apply negb_true_iff, N.eqb_neq. exact Nph. }
    rewrite Hx in Hin. contradiction. Qed.

(* ================================================================== (1) the walk over the nodes *)
Section WalkG.
  Variables (s : ostate) (a : oapp) (C : tid -> Z).
  Hypothesis HI : InvG s.
  Hypothesis HBd : Bounded3 s.
  Hypothesis Ha : In a (s_apps s).

  (* a record some node of s lists *)
  Definition listedG (y : oalloc) : Prop := exists m0, In m0 (s_nodes s) /\ In y (on_allocs m0).
  Lemma listedG_ok y : listedG y -> wf (oa_res y) /\ rnonneg (oa_res y) /\ rb (oa_res y).
  Proof. intros (m0 & Hm0 & Hy). destruct (g_node_record_app s m0 y HI Hm0 Hy) as (b & Hb & _ & Ho & [O1 O2 _ _ _]).
    split; [assumption|]. split; [assumption|]. pose proof (bd_apps s (b3_base s HBd) b Hb) as [_ _ D3 D4].
    apply ownedby_record, in_records in Ho. destruct Ho; auto. Qed.

  Record NQG (m : onode) : Prop := mkNQG {
    nqg_ok : NodeOK3 m;
    nqg_mem : forall y, In y (on_allocs m) -> exists m0, In m0 (s_nodes s) /\ on_id m0 = on_id m /\ In y (on_allocs m0);
    nqg_rb : rb (on_allocated m) }.

  Lemma NQG_init m : In m (s_nodes s) -> NQG m.
  Proof. intros Hm. constructor; [apply (ig_nodes s HI m Hm)|eauto|apply (bd_nodes s (b3_base s HBd) m Hm)]. Qed.
  Lemma NQG_listed m y : NQG m -> In y (on_allocs m) -> listedG y.
  Proof. intros Q Hy. destruct (nqg_mem m Q y Hy) as (m0 & Hm0 & _ & Hy0). exists m0. auto. Qed.

  Lemma NQG_unbound m x : NQG m -> find_alloc (on_allocs m) (oa_key x) = Some x ->
    NQG (node_unbound m x) /\ forall k, getz (on_allocated (node_unbound m x)) k = getz (on_allocated m) k - getz (oa_res x) k.
  Proof. intros Q Hf. pose proof Q as [[K1 K2 K3 K4] Q2 Q3]. destruct (find_alloc_some _ _ _ Hf) as [Hx _].
    destruct (listedG_ok x (NQG_listed m x Q Hx)) as (Wx & Nx & Bx).
    assert (Hnn : forall y, In y (on_allocs m) -> rnonneg (oa_res y)) by (intros y Hy; apply (listedG_ok y (NQG_listed m y Q Hy))).
    assert (G : forall k, getz (on_allocated (node_unbound m x)) k = getz (on_allocated m) k - getz (oa_res x) k).
    { intros k. cbn [node_unbound n_with on_allocated]. rewrite Prune_getz by (apply subFrom_wf; assumption). apply subFrom_getz; assumption. }
    split; [|exact G]. constructor.
    - apply (nodeok3_del m (node_unbound m x) (oa_key x)); [constructor; assumption|reflexivity|reflexivity| |].
      + cbn [node_unbound n_with on_allocated]. apply Prune_wf, subFrom_wf. assumption.
      + intros k. rewrite G, Hf. reflexivity.
    - intros y Hy. cbn [node_unbound n_with on_allocs on_id] in *. apply in_del_alloc in Hy. apply Q2. tauto.
    - intros k. rewrite G. pose proof (Q3 k). pose proof (rnonneg_fnonneg _ Nx k). pose proof (asum_ge_member (on_allocs m) x k Hnn Hx).
      rewrite <- (K3 k) in *. bn. Qed.

  Record RQG (σ : ostate) (L : list oalloc) : Prop := mkRQG {
    rqg_ids : NoDup (map on_id (s_nodes σ));
    rqg_nodes : forall m, In m (s_nodes σ) -> NQG m;
    rqg_L : NoDup (akeys L);
    (* what is left to remove: allocations of a, each on the node it names *)
    rqg_Lin : forall x, In x L -> In x (ap_allocs a) /\ exists m, In m (s_nodes σ) /\ on_id m = oa_node x /\ In x (on_allocs m);
    (* the allocations of a already processed are gone *)
    rqg_gone : forall m y, In m (s_nodes σ) -> In y (on_allocs m) -> In y (ap_allocs a) -> In y L;
    (* every other record stays where it was *)
    rqg_others : forall m0 y, In m0 (s_nodes s) -> In y (on_allocs m0) -> ~ In y (ap_allocs a) ->
                 exists m, In m (s_nodes σ) /\ on_id m = on_id m0 /\ In y (on_allocs m);
    rqg_sum : forall k, asum (filter ninfl (node_records σ)) k - asum L k = C k }.

  Lemma RQG_step σ x t : RQG σ (x :: t) ->
    exists n, find_node σ (oa_node x) = Some n /\ RQG (upd_node σ (on_id n) (fun _ => n_remove n (oa_key x))) t.
  Proof. intros [R1 R2 R3 R4 R5 R6 R7]. destruct (R4 x (or_introl eq_refl)) as (Hxa & m & Hm & Em & Hxm).
    pose proof (R2 m Hm) as QM.
    assert (Efn : find_node σ (oa_node x) = Some m) by (rewrite <- Em, find_node_findk; apply (findk_in on_id); assumption).
    assert (Hf : find_alloc (on_allocs m) (oa_key x) = Some x) by (apply find_alloc_in; [apply (k3_keys m (nqg_ok m QM))|assumption]).
    exists m. split; [exact Efn|]. unfold n_remove. rewrite Hf. fold (node_unbound m x). set (n' := node_unbound m x).
    destruct (NQG_unbound m x QM Hf) as [QN GN]. fold n' in QN, GN.
    assert (Enodes : s_nodes (upd_node σ (on_id m) (fun _ => n')) = updk on_id (s_nodes σ) (on_id m) (fun _ => n')) by reflexivity.
    assert (Hin : forall m', In m' (s_nodes (upd_node σ (on_id m) (fun _ => n'))) <-> m' = n' \/ (In m' (s_nodes σ) /\ on_id m' <> on_id m)).
    { intros m'. rewrite Enodes. apply in_updk_const; assumption. }
    assert (Same : forall m0, In m0 (s_nodes σ) -> on_id m0 = on_id m -> m0 = m) by (intros m0 H0 E0; apply (nodup_key_inj on_id (s_nodes σ)); auto).
    inversion R3 as [|? ? Hkx Hkt]; subst.
    constructor.
    - rewrite Enodes, updk_keys; [assumption|]. intros m0 E0. symmetry. exact E0.
    - intros m' Hm'. apply Hin in Hm'. destruct Hm' as [->|[Hm' _]]; auto.
    - assumption.
    - intros x' Hx'. destruct (R4 x' (or_intror Hx')) as (Hxa' & m0 & Hm0 & Em0 & Hxm0). split; [assumption|].
      destruct (N.eq_dec (on_id m0) (on_id m)) as [E|E].
      + pose proof (Same m0 Hm0 E). subst m0. exists n'. split; [apply Hin; auto|]. split; [exact Em0|].
        cbn [n' node_unbound n_with on_allocs]. apply in_del_alloc. split; [assumption|]. intros Ck. apply Hkx. rewrite <- Ck. apply in_map. assumption.
      + exists m0. split; [apply Hin; auto|auto].
    - intros m' y Hm' Hy Hya. apply Hin in Hm'. destruct Hm' as [->|[Hm' Hne]].
      + cbn [n' node_unbound n_with on_allocs] in Hy. apply in_del_alloc in Hy. destruct Hy as [Hy Hk].
        destruct (R5 m y Hm Hy Hya) as [<-|Hin']; [congruence|assumption].
      + destruct (R5 m' y Hm' Hy Hya) as [<-|Hin']; [|assumption]. exfalso. apply Hne.
        rewrite Em. symmetry. apply (k3_node m' (nqg_ok m' (R2 m' Hm')) x Hy).
    - intros m0 y Hm0 Hy Hnot. destruct (R6 m0 y Hm0 Hy Hnot) as (m1 & Hm1 & Em1 & Hym1).
      destruct (N.eq_dec (on_id m1) (on_id m)) as [E|E].
      + pose proof (Same m1 Hm1 E). subst m1. exists n'. split; [apply Hin; auto|]. split; [exact Em1|].
        cbn [n' node_unbound n_with on_allocs]. apply in_del_alloc. split; [assumption|]. intros Ck.
        (* same key as x: both are records of nodes of s, hence the same record *)
        destruct (g_alloc_on_node s a x HI Ha Hxa) as (mx & Hmx & _ & Hxmx & _).
        destruct (g_record_one_node s m0 mx y x HI Hm0 Hmx Hy Hxmx Ck) as [-> _]. contradiction.
      + exists m1. split; [apply Hin; auto|auto].
    - intros k. unfold node_records. rewrite Enodes, (flat_map_sum_updk ninfl (s_nodes σ) m n' k R1 Hm).
      cbn [n' node_unbound n_with on_allocs]. rewrite asum_filter_del by (apply (k3_keys m (nqg_ok m QM))). rewrite Hf.
      rewrite (alloc_ninfl a x (ig_app_wf s HI a Ha) Hxa). specialize (R7 k). rewrite asum_cons in R7. unfold node_records in R7. lia. Qed.

  Lemma RQG_run : forall L σ, RQG σ L -> RQG (remove_allocs_from_nodes σ L) [].
  Proof. induction L as [|x t IH]; intros σ HR; [exact HR|]. cbn [remove_allocs_from_nodes].
    destruct (RQG_step σ x t HR) as (n & En & HR'). rewrite En. apply IH. exact HR'. Qed.

  (* the walk started in a state with the node list of s *)
  Lemma RQG_init σ : s_nodes σ = s_nodes s ->
    (forall k, C k = asum (filter ninfl (node_records s)) k - asum (ap_allocs a) k) -> RQG σ (ap_allocs a).
  Proof. intros En HC. constructor; rewrite ?En.
    - apply (ig_node_ids s HI).
    - apply NQG_init.
    - apply (w3_alloc_keys a (ig_app_wf s HI a Ha)).
    - intros x Hx. split; [assumption|]. apply (ig_onnode s HI a x Ha Hx).
    - auto.
    - intros m0 y Hm0 Hy _. eauto.
    - intros k. unfold node_records. rewrite En. rewrite HC. reflexivity. Qed.
End WalkG.

(* ================================================================== (2) the queue side *)
(* the decrements as the code does them: skipped when the amount is zero *)
Definition cdec (r : res) : oqueue -> oqueue := if IsZero (Some r) then (fun q => q) else F_dec r.
Lemma cdec_keep r q : q_id (cdec r q) = q_id q /\ q_parent (cdec r q) = q_parent q /\ q_leaf (cdec r q) = q_leaf q.
Proof. unfold cdec. destruct (IsZero _); auto. Qed.
Lemma cdec_Q q r : QOK q -> wf r -> rb r -> rnonneg r -> (forall k, getz r k <= getz (q_alloc q) k) ->
  QFacts q (cdec r q) (fun k => - getz r k) zero3 /\ QOK (cdec r q).
Proof. intros Q Wr Br Nr Hle. unfold cdec. destruct (IsZero (Some r)) eqn:Ez.
  - pose proof (IsZero_getz _ Ez) as Z. split; [|assumption].
    apply (QFacts_ext q q zero3 zero3); [intros k; rewrite Z; reflexivity|reflexivity|apply QFacts_id; assumption].
  - split; [apply F_dec_Q; assumption|apply F_dec_QOK; assumption]. Qed.
Lemma cdec_state s σ leaf F1 r : s_queues σ = path_map s leaf F1 -> (forall q, q_id (F1 q) = q_id q) -> (forall q, q_parent (F1 q) = q_parent q) ->
  wf r -> (forall q, In q (s_queues s) -> In (q_id q) (path_ids s leaf) -> forall k, getz r k <= getz (q_alloc (F1 q)) k) ->
  let σ' := if IsZero (Some r) then σ else q_dec σ leaf r in
  s_queues σ' = path_map s leaf (fun q => cdec r (F1 q)) /\ s_nodes σ' = s_nodes σ /\ s_apps σ' = s_apps σ /\
  s_foreign σ' = s_foreign σ /\ s_nallocs σ' = s_nallocs σ.
Proof. intros E Fi Fp Wr Hd. cbv zeta. unfold cdec. destruct (IsZero (Some r)); [auto|].
  destruct (q_dec_same σ leaf r) as [? ? ? ? ? ? ? ? ? ?]. split; [|auto]. apply (q_dec_after s σ leaf F1 r E Fi Fp Wr Hd). Qed.

Lemma updk_self {A} (key : A -> N) l (a : A) : NoDup (map key l) -> In a l -> updk key l (key a) (fun _ => a) = l.
Proof. intros Hnd Ha. unfold updk. rewrite <- (map_id l) at 2. apply map_ext_in. intros b Hb.
  destruct (N.eqb_spec (key b) (key a)) as [E|E]; [|reflexivity]. symmetry. apply (nodup_key_inj key l); assumption. Qed.

(* the tail of [g_app_remove] after RemoveAllocationAsk("") *)
Definition gar_tail (s0 : ostate) (a0 : oapp) (id : N) : ostate :=
  let s1 := if IsZero (Some (ap_pending a0)) then s0 else q_dec_pending s0 (ap_queue a0) (ap_pending a0) in
  let s2 := if IsZero (Some (ap_allocated a0)) then s1 else q_dec s1 (ap_queue a0) (ap_allocated a0) in
  let s3 := if IsZero (Some (ap_phalloc a0)) then s2 else q_dec s2 (ap_queue a0) (ap_phalloc a0) in
  let s4 := remove_allocs_from_nodes s3 (ap_allocs a0) in
  let s5 := set_apps s4 (filter (fun b => negb (ap_id b =? id)%N) (s_apps s4)) in
  add_counts s5 (- Z.of_nat (length (ap_allocs a0))) 0.
Lemma g_app_remove_eq s id : g_app_remove s id =
  match find_app s id with
  | None => None
  | Some a => if negb (no_res a) then None else
      match app_remove_all_asks s id with
      | None => None
      | Some s0 => match find_app s0 id with None => None | Some a0 => Some (gar_tail s0 a0 id) end
      end
  end.
Proof. reflexivity. Qed.

(* what the final node lists are: the old ones without the records of the application *)
Record Stripped (s s' : ostate) (id : N) : Prop := mkStr {
  st_sub : forall m y, In m (s_nodes s') -> In y (on_allocs m) -> exists m0, In m0 (s_nodes s) /\ on_id m0 = on_id m /\ In y (on_allocs m0);
  st_kept : forall m0 y, In m0 (s_nodes s) -> In y (on_allocs m0) -> oa_app y <> id ->
            exists m, In m (s_nodes s') /\ on_id m = on_id m0 /\ In y (on_allocs m);
  st_none : forall m y, In m (s_nodes s') -> In y (on_allocs m) -> oa_app y <> id;
  st_apps : forall b, In b (s_apps s') <-> In b (s_apps s) /\ ap_id b <> id }.

Section AppRemoveG.
  Variables (s : ostate) (a : oapp).
  Hypothesis HI : InvG s.
  Hypothesis HB : BooksG s.
  Hypothesis HBd : Bounded3 s.
  Hypothesis Ha : In a (s_apps s).
  Hypothesis Hni : NoInfl s (ap_id a).

  Let W := ig_app_wf s HI a Ha.
  Let B := bg_apps s HB a Ha.
  Let Bd := bd_apps s (b3_base s HBd) a Ha.
  Let leaf := ap_queue a.

  (* ---------------------------------------------------------------- RemoveAllocationAsk("") *)
  Definition asks_gone : oapp :=
    match ap_requests a with
    | [] => a
    | _ => asks_state_check (ap_set_lists (ap_set_ledgers a [] (ap_allocated a) (ap_phalloc a)) [] (ap_allocs a))
    end.
  Definition Fpend : oqueue -> oqueue := match ap_requests a with [] => fun q => q | _ => F_dec_pending (ap_pending a) end.

  Lemma ag_fields : ap_id asks_gone = ap_id a /\ ap_queue asks_gone = ap_queue a /\ ap_allocated asks_gone = ap_allocated a /\
    ap_phalloc asks_gone = ap_phalloc a /\ ap_allocs asks_gone = ap_allocs a /\ IsZero (Some (ap_pending asks_gone)) = true.
  Proof. unfold asks_gone. destruct (ap_requests a) as [|r0 rt] eqn:Er.
    - repeat split. apply (IsZero_iff _ (w3_pending a W)). intros k. rewrite (ab_pend a B k). unfold pending_asks. rewrite Er. reflexivity.
    - destruct (same_ledgers_state_check (ap_set_lists (ap_set_ledgers a [] (ap_allocated a) (ap_phalloc a)) [] (ap_allocs a))) as [E1 E2 E3 E4 E5 E6 E7].
      rewrite E1, E2, E3, E4, E5, E7. repeat split. Qed.

  Lemma Fpend_keep q : q_id (Fpend q) = q_id q /\ q_parent (Fpend q) = q_parent q /\ q_leaf (Fpend q) = q_leaf q.
  Proof. unfold Fpend. destruct (ap_requests a); auto. Qed.
  Lemma Fpend_Q q : In q (s_queues s) -> In (q_id q) (path_ids s leaf) ->
    QFacts q (Fpend q) zero3 (fun k => - getz (ap_pending a) k) /\ QOK (Fpend q).
  Proof. intros Hq Hin. pose proof (g_qok s q HI HB HBd Hq) as Q. unfold Fpend. destruct (ap_requests a) as [|r0 rt] eqn:Er.
    - split; [|assumption]. apply (QFacts_ext q q zero3 zero3); [reflexivity| |apply QFacts_id; assumption].
      intros k. rewrite (ab_pend a B k). unfold pending_asks. rewrite Er. reflexivity.
    - assert (Hle : forall k, getz (ap_pending a) k <= getz (q_pending q) k) by (intros k; apply (g_pending_dominated s a HI HB Ha q k Hq Hin)).
      split; [apply F_dec_pending_Q|apply F_dec_pending_QOK]; auto; try apply (w3_pending a W); try apply (abd_pending a Bd); apply (ab_nn_pend a B). Qed.

  Lemma araa_shape s0 : no_res a = true -> app_remove_all_asks s (ap_id a) = Some s0 ->
    s_apps s0 = updk ap_id (s_apps s) (ap_id a) (fun _ => asks_gone) /\ s_queues s0 = path_map s leaf Fpend /\
    s_nodes s0 = s_nodes s /\ s_foreign s0 = s_foreign s /\ s_nallocs s0 = s_nallocs s.
  Proof. intros Hnr H. unfold app_remove_all_asks in H. rewrite (g_find_app_in s a HI Ha), Hnr in H. cbn [negb] in H.
    unfold asks_gone, Fpend. destruct (ap_requests a) as [|r0 rt] eqn:Er.
    - inversion H; subst s0. split; [symmetry; apply updk_self; [apply (ig_app_ids s HI)|assumption]|].
      split; [symmetry; apply path_map_id|auto].
    - inversion H; subst s0; clear H. split; [|split; [|auto]].
      + cbn [upd_app s_apps q_dec_pending on_path upd_queues]. unfold updk. rewrite map_map. apply map_ext. intros b.
        destruct (N.eqb_spec (ap_id b) (ap_id a)) as [E|E].
        * cbn [ap_set_lists ap_set_ledgers ap_with ap_id]. rewrite N.eqb_refl. reflexivity.
        * destruct (N.eqb_spec (ap_id b) (ap_id a)); [contradiction|reflexivity].
      + change (s_queues (q_dec_pending (upd_app s (ap_id a) (fun _ => ap_set_lists (ap_set_ledgers a [] (ap_allocated a) (ap_phalloc a)) [] (ap_allocs a)))
                                         (ap_queue a) (ap_pending a)) = path_map s leaf (F_dec_pending (ap_pending a))).
        apply g_q_dec_pending_queues. reflexivity. Qed.

  (* ---------------------------------------------------------------- Queue.RemoveApplication *)
  Definition Fall (q : oqueue) : oqueue := cdec (ap_phalloc a) (cdec (ap_allocated a) (Fpend q)).
  Lemma Fall_keep q : q_id (Fall q) = q_id q /\ q_parent (Fall q) = q_parent q /\ q_leaf (Fall q) = q_leaf q.
  Proof. unfold Fall. destruct (cdec_keep (ap_phalloc a) (cdec (ap_allocated a) (Fpend q))) as (E1 & E2 & E3).
    destruct (cdec_keep (ap_allocated a) (Fpend q)) as (E4 & E5 & E6). destruct (Fpend_keep q) as (E7 & E8 & E9).
    rewrite E1, E2, E3, E4, E5, E6. auto. Qed.
  Lemma Fall_Q q : In q (s_queues s) -> In (q_id q) (path_ids s leaf) ->
    QFacts q (Fall q) (fun k => - getz (ap_allocated a) k - getz (ap_phalloc a) k) (fun k => - getz (ap_pending a) k) /\
    (forall k, getz (ap_allocated a) k <= getz (q_alloc (Fpend q)) k) /\
    (forall k, getz (ap_phalloc a) k <= getz (q_alloc (cdec (ap_allocated a) (Fpend q))) k).
  Proof. intros Hq Hin. destruct (Fpend_Q q Hq Hin) as [P1 Q1]. pose proof (g_usage_dominated s a HI HB Ha q) as Dom.
    pose proof (rnonneg_fnonneg _ (ab_nn_alloc a B)) as Nal. pose proof (rnonneg_fnonneg _ (ab_nn_ph a B)) as Nph.
    assert (L1 : forall k, getz (ap_allocated a) k <= getz (q_alloc (Fpend q)) k).
    { intros k. destruct P1 as (_ & A & _). rewrite A. unfold zero3. specialize (Dom k Hq Hin). specialize (Nph k). lia. }
    destruct (cdec_Q (Fpend q) (ap_allocated a) Q1 (w3_allocated a W) (abd_allocated a Bd) (ab_nn_alloc a B) L1) as [P2 Q2].
    assert (L2 : forall k, getz (ap_phalloc a) k <= getz (q_alloc (cdec (ap_allocated a) (Fpend q))) k).
    { intros k. destruct P2 as (_ & A2 & _). destruct P1 as (_ & A1 & _). rewrite A2, A1. unfold zero3. specialize (Dom k Hq Hin). lia. }
    destruct (cdec_Q _ (ap_phalloc a) Q2 (w3_phalloc a W) (b3_ph s HBd a Ha) (ab_nn_ph a B) L2) as [P3 _].
    split; [|auto]. unfold Fall.
    apply (QFacts_ext q _ (fun k => zero3 k + - getz (ap_allocated a) k + - getz (ap_phalloc a) k) (fun k => - getz (ap_pending a) k + zero3 k + zero3 k));
      try (intros k; unfold zero3; lia).
    apply (QFacts_trans q _ _ _ _ _ _ (QFacts_trans q _ _ _ _ _ _ P1 P2) P3). Qed.

  (* ---------------------------------------------------------------- the final state *)
  Variable s0 : ostate.
  Hypothesis Hnr : no_res a = true.
  Hypothesis H0 : app_remove_all_asks s (ap_id a) = Some s0.
  Let s' := gar_tail s0 asks_gone (ap_id a).
  Let s1 := if IsZero (Some (ap_pending asks_gone)) then s0 else q_dec_pending s0 (ap_queue asks_gone) (ap_pending asks_gone).
  Let s2 := if IsZero (Some (ap_allocated asks_gone)) then s1 else q_dec s1 (ap_queue asks_gone) (ap_allocated asks_gone).
  Let s3 := if IsZero (Some (ap_phalloc asks_gone)) then s2 else q_dec s2 (ap_queue asks_gone) (ap_phalloc asks_gone).
  Let s4 := remove_allocs_from_nodes s3 (ap_allocs asks_gone).
  Let Cz := fun k => asum (filter ninfl (node_records s)) k - asum (ap_allocs a) k.

  Lemma gar_s3 : s_queues s3 = path_map s leaf Fall /\ s_nodes s3 = s_nodes s /\
    s_apps s3 = updk ap_id (s_apps s) (ap_id a) (fun _ => asks_gone) /\ s_foreign s3 = s_foreign s /\ s_nallocs s3 = s_nallocs s.
  Proof. destruct (araa_shape s0 Hnr H0) as (A0 & Q0 & N0 & F0 & C0). destruct ag_fields as (G1 & G2 & G3 & G4 & G5 & G6).
    assert (E1 : s1 = s0) by (unfold s1; rewrite G6; reflexivity).
    unfold s3, s2. rewrite E1, G2, G3, G4. fold leaf.
    destruct (cdec_state s s0 leaf Fpend (ap_allocated a) Q0) as (Q2 & N2 & A2 & F2 & C2).
    { intros q; apply Fpend_keep. } { intros q; apply Fpend_keep. } { apply (w3_allocated a W). }
    { intros q Hq Hin. apply (Fall_Q q Hq Hin). }
    cbv zeta in Q2, N2, A2, F2, C2.
    destruct (cdec_state s _ leaf (fun q => cdec (ap_allocated a) (Fpend q)) (ap_phalloc a) Q2) as (Q3 & N3 & A3 & F3 & C3).
    { intros q. rewrite (proj1 (cdec_keep _ _)). apply Fpend_keep. }
    { intros q. rewrite (proj1 (proj2 (cdec_keep _ _))). apply Fpend_keep. } { apply (w3_phalloc a W). }
    { intros q Hq Hin. apply (Fall_Q q Hq Hin). }
    cbv zeta in Q3, N3, A3, F3, C3. rewrite N3, A3, F3, C3, N2, A2, F2, C2. auto. Qed.

  Lemma gar_walk : RQG s a Cz s4 [].
  Proof. destruct gar_s3 as (_ & N3 & _). destruct ag_fields as (_ & _ & _ & _ & G5 & _). unfold s4. rewrite G5.
    apply (RQG_run s a Cz HI HBd Ha). apply (RQG_init s a Cz HI HBd Ha s3 N3). reflexivity. Qed.

  Lemma gar_norec m y : In m (s_nodes s4) -> In y (on_allocs m) -> oa_app y <> ap_id a.
  Proof. intros Hm Hy E. destruct gar_walk as [_ R2 _ _ R5 _ _]. destruct (nqg_mem s m (R2 m Hm) y Hy) as (m0 & Hm0 & _ & Hy0).
    destruct (g_owner s m0 y a HI Hm0 Hy0 Ha (eq_sym E)) as [Ho|(Hi & _)].
    - apply (R5 m y Hm Hy Ho).
    - rewrite (Hni m0 y Hm0 Hy0 E) in Hi. discriminate. Qed.

  Lemma alloc_sum k : asum (ap_allocs a) k = getz (ap_allocated a) k + getz (ap_phalloc a) k.
  Proof. rewrite (ab_alloc a B k), (ab_ph a B k), (asum_split oa_ph (ap_allocs a) k). unfold real_allocs, ph_allocs. lia. Qed.

  Theorem app_remove_coreG : InvG s' /\ BooksG s' /\ Stripped s s' (ap_id a).
  Proof. destruct gar_walk as [R1 R2 _ _ R5 R6 R7]. destruct gar_s3 as (Q3 & N3 & A3 & F3 & C3).
    destruct ag_fields as (G1 & G2 & G3 & G4 & G5 & G6).
    destruct (rafn_other (ap_allocs asks_gone) s3) as (A4 & Q4 & F4 & C4). fold s4 in A4, Q4, F4, C4.
    set (ae := emptied a).
    set (smid := mkOS (s_nodes s4) (updk ap_id (s_apps s) (ap_id a) (fun _ => ae)) (s_queues s4) (s_total s4)
                      (s_nallocs s - Z.of_nat (length (ap_allocs a))) (s_nph s4) (s_nres s4) (s_foreign s4) (s_completed s4) (s_rejected s4) (s_ugm s4)).
    assert (Eapps : s_apps smid = updk ap_id (s_apps s) (ap_id a) (fun _ => ae)) by reflexivity.
    assert (Eq : s_queues smid = map (fun q => if memN (q_id q) (path_ids s (ap_queue a)) then Fall q else q) (s_queues s)).
    { change (s_queues smid) with (s_queues s4). rewrite Q4. exact Q3. }
    assert (Ef : s_foreign smid = s_foreign s) by (change (s_foreign smid) with (s_foreign s4); rewrite F4; exact F3).
    assert (Hin : forall b', In b' (s_apps smid) <-> b' = ae \/ (In b' (s_apps s) /\ ap_id b' <> ap_id a)).
    { intros b'. rewrite Eapps. apply in_updk_const; [apply (ig_app_ids s HI)|assumption]. }
    assert (Hother : forall b z, In b (s_apps s) -> ap_id b <> ap_id a -> In z (ap_allocs b) -> ~ In z (ap_allocs a)).
    { intros b z Hb Hne Hz Hza. apply Hne. f_equal. apply (g_key_owner s b a z z HI Hb Ha); [apply in_records; auto|apply in_records; auto|reflexivity]. }
    assert (Hmid : InvG smid /\ BooksG smid).
    { apply (gang_step s smid a ae Fall (fun k => - getz (ap_allocated a) k - getz (ap_phalloc a) k) (fun k => - getz (ap_pending a) k) HI HB Ha Eapps Eq Ef).
      - intros q. apply Fall_keep.
      - intros q. apply Fall_keep.
      - intros q. apply Fall_keep.
      - intros q Hq Hi. apply (Fall_Q q Hq Hi).
      - reflexivity.
      - reflexivity.
      - constructor; try (intros k; reflexivity); apply rnonneg_nil.
      - constructor; cbn [ae emptied ap_with ap_requests ap_allocs ap_pending ap_allocated ap_phalloc]; try constructor; intros; contradiction.
      - intros r' Hr'. contradiction.
      - intros k. cbn [ae emptied ap_with ap_allocated ap_phalloc]. rewrite getz_nil. lia.
      - intros k. cbn [ae emptied ap_with ap_pending]. rewrite getz_nil. lia.
      - exact R1.
      - intros m Hm. apply (nqg_ok s m (R2 m Hm)).
      - intros m y Hm Hy. destruct (nqg_mem s m (R2 m Hm) y Hy) as (m0 & Hm0 & _ & Hy0).
        destruct (ig_owned s HI m0 y Hm0 Hy0) as (b & Hb & Eb & Ho). exists b. split; [|auto]. apply Hin. right. split; [assumption|].
        rewrite Eb. apply (gar_norec m y Hm Hy).
      - intros b' z Hb' Hz. apply Hin in Hb'. destruct Hb' as [->|[Hb' Hne]]; [contradiction|].
        destruct (ig_onnode s HI b' z Hb' Hz) as (m0 & Hm0 & Em0 & Hzm0).
        destruct (R6 m0 z Hm0 Hzm0 (Hother b' z Hb' Hne Hz)) as (m & Hm & Em & Hzm). exists m. split; [assumption|]. split; [congruence|assumption].
      - apply (g_count_step s smid a ae HI Ha Eapps (- Z.of_nat (length (ap_allocs a)))); [cbn; lia|]. cbn [smid s_nallocs]. lia.
      - intros k. specialize (R7 k). rewrite asum_nil in R7. change (node_records smid) with (node_records s4). unfold Cz in R7. rewrite alloc_sum in R7. lia. }
    destruct Hmid as [HIm HBm].
    assert (Eapps' : s_apps s' = filter (fun b => negb (ap_id b =? ap_id a)%N) (s_apps smid)).
    { change (s_apps s') with (filter (fun b => negb (ap_id b =? ap_id a)%N) (s_apps s4)). rewrite A4, A3, Eapps.
      rewrite !filter_updk_out by (intros b _; auto). reflexivity. }
    assert (Hdrop : InvG s' /\ BooksG s').
    { apply (drop_app_stepG smid s' (ap_id a) HIm HBm Eapps'); try reflexivity.
      - change (s_nallocs s4 + - Z.of_nat (length (ap_allocs asks_gone)) = s_nallocs s - Z.of_nat (length (ap_allocs a))). rewrite C4, C3, G5. lia.
      - intros b Hb Eb. apply Hin in Hb. destruct Hb as [->|[_ Hne]]; [|contradiction]. constructor; intros; reflexivity.
      - intros m y Hm Hy. apply (gar_norec m y Hm Hy). }
    destruct Hdrop as [HI' HB']. split; [assumption|]. split; [assumption|]. constructor.
    - intros m y Hm Hy. apply (nqg_mem s m (R2 m Hm) y Hy).
    - intros m0 y Hm0 Hy Hne. apply (R6 m0 y Hm0 Hy). intros Hya. apply Hne. apply (g_record_app s a y HI Ha). apply in_records. auto.
    - intros m y Hm Hy. apply (gar_norec m y Hm Hy).
    - intros b. rewrite Eapps', Eapps, filter_updk_out by (intros b0 _; auto). rewrite filter_In.
      destruct (N.eqb_spec (ap_id b) (ap_id a)); cbn [negb]; intuition congruence. Qed.
End AppRemoveG.

(* ================================================================== (4) the links, the theorem *)
(* an application that leaves with all its records takes its links with it; nothing else is touched *)
Lemma stripped_linkok s s' id : InvG s -> LinkOK s -> NoInfl s id -> Stripped s s' id -> LinkOK s'.
Proof. intros HI [L1 L2] Hni [S1 S2 S3 S4]. split.
  - intros m y Hm Hy Hi. destruct (S1 m y Hm Hy) as (m0 & Hm0 & _ & Hy0).
    destruct (L1 m0 y Hm0 Hy0 Hi) as (b & ph & Hb & Eb & Hph & Rest). exists b, ph. split; [|auto]. apply S4. split; [assumption|].
    rewrite Eb. apply (S3 m y Hm Hy).
  - intros b ph r Hb Hph Pph Lph Hr Kr Pr Ar. apply S4 in Hb. destruct Hb as [Hb Hne].
    destruct (L2 b ph r Hb Hph Pph Lph Hr Kr Pr Ar) as (E1 & E2 & E3 & E4). split; [assumption|]. split; [assumption|]. split.
    + intros En m y Hm Hy. destruct (S1 m y Hm Hy) as (m0 & Hm0 & _ & Hy0). apply (E3 En m0 y Hm0 Hy0).
    + intros En. destruct (E4 En) as (m0 & Hm0 & Em0 & Hr0). destruct (S2 m0 r Hm0 Hr0) as (m & Hm & Em & Hrm).
      { rewrite (g_record_app s b r HI Hb) by (apply in_records; auto). assumption. }
      exists m. split; [assumption|]. split; [congruence|assumption]. Qed.

(* removeApplication.  Side hypothesis: the application has no real ask that is the in-flight half of a CROSS-node
   replacement -- the negation of known-finding trigger 5 ([xnode_removal_trigger], Core/Ledger.v), which [m_step_gang]
   checks before it calls [g_app_remove].  Without it the real allocation stays on the other node for ever
   ([Owned] breaks: the node lists a record of an application that is gone). *)
Theorem g_app_remove_step s s' id : InvG2 s -> BooksG s -> Bounded3 s ->
  (forall a, find_app s id = Some a -> xnode_inflight_reals a = []) ->
  g_app_remove s id = Some s' -> InvG2 s' /\ BooksG s'.
Proof. intros HI2 HB HBd Htrig H. pose proof HI2 as [HI HL]. rewrite g_app_remove_eq in H.
  destruct (find_app s id) as [a|] eqn:Ea; [|discriminate]. destruct (find_app_some _ _ _ Ea) as [Ha Eid]. subst id.
  destruct (no_res a) eqn:Hnr; [|discriminate]. cbn [negb] in H.
  destruct (app_remove_all_asks s (ap_id a)) as [s0|] eqn:E0; [|discriminate].
  destruct (araa_shape s a HI Ha s0 Hnr E0) as (A0 & _).
  rewrite (g_find_app' s s0 a (asks_gone a) HI Ha A0) in H by (apply (ag_fields s a HI HB Ha)).
  inversion H; subst s'; clear H.
  pose proof (noinfl_of_trigger s a HI2 Ha (Htrig a eq_refl)) as Hni.
  destruct (app_remove_coreG s a HI HB HBd Ha Hni s0 Hnr E0) as (HI' & HB' & HS).
  split; [|assumption]. split; [assumption|]. apply (stripped_linkok s _ (ap_id a) HI HL Hni HS). Qed.

(* the application is gone, everybody else stays *)
Lemma g_app_remove_apps s s' id : InvG2 s -> BooksG s -> Bounded3 s ->
  (forall a, find_app s id = Some a -> xnode_inflight_reals a = []) ->
  g_app_remove s id = Some s' -> forall b, In b (s_apps s') <-> In b (s_apps s) /\ ap_id b <> id.
Proof. intros HI2 HB HBd Htrig H. pose proof HI2 as [HI HL]. rewrite g_app_remove_eq in H.
  destruct (find_app s id) as [a|] eqn:Ea; [|discriminate]. destruct (find_app_some _ _ _ Ea) as [Ha Eid]. subst id.
  destruct (no_res a) eqn:Hnr; [|discriminate]. cbn [negb] in H.
  destruct (app_remove_all_asks s (ap_id a)) as [s0|] eqn:E0; [|discriminate].
  destruct (araa_shape s a HI Ha s0 Hnr E0) as (A0 & _).
  rewrite (g_find_app' s s0 a (asks_gone a) HI Ha A0) in H by (apply (ag_fields s a HI HB Ha)).
  inversion H; subst s'; clear H.
  pose proof (noinfl_of_trigger s a HI2 Ha (Htrig a eq_refl)) as Hni.
  destruct (app_remove_coreG s a HI HB HBd Ha Hni s0 Hnr E0) as (_ & _ & HS). apply (st_apps _ _ _ HS). Qed.
