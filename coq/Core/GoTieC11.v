(* Tie theorems (C11): the critical sections of Queue.canRunApp / incRunningApps / decRunningApps GENERATED from
   pkg/scheduler/objects/queue.go (Generated/GoObjects.v) equal the per-queue steps gate_q / inc1 / dec1 of
   Core/MaxApps.v; the skipped prefixes (nil receiver answers, parent first) are pinned. The model counts in N
   without wrap-around: bounds 2^62; a Go set map[string]bool is the model's list ([setmap]). *)
From Coq Require Import String List ZArith NArith Bool Lia ZifyBool ZifyN ZifyNat.
From YK Require Import Base.Int64 Core.Obs Core.MaxApps
  Generated.GoPrelude Generated.GoObjects Base.GoTieLib.
Import ListNotations.
Open Scope N_scope.

(* ================================================================ C11: max running applications *)
(* allocatingAcceptedApps map[string]bool: every stored value is true *)
Definition setmap (l : list N) : list (N * bool) := map (fun x => (x, true)) l.

Lemma mget0_setmap l app : mget0 false (setmap l) app = memN app l.
Proof.
  unfold mget0, memN. induction l as [|x t IH]; cbn; [reflexivity|].
  destruct (N.eqb app x); [reflexivity|exact IH].
Qed.
Lemma length_setmap l : length (setmap l) = length l.
Proof. apply map_length. Qed.
Lemma mdel_setmap l app : NoDup l -> mdel (setmap l) app = setmap (set_del app l).
Proof.
  unfold set_del, setmap. induction l as [|x t IH]; cbn; intros H; [reflexivity|].
  inversion H as [|? ? Hn Ht]; subst.
  destruct (N.eqb_spec app x) as [->|Hne].
  - rewrite N.eqb_refl. cbn. f_equal. symmetry. apply filter_true_eq.
    intros y Hy. destruct (N.eqb_spec y x) as [->|]; [contradiction|reflexivity].
  - destruct (N.eqb_spec x app); [congruence|]. cbn. now rewrite IH.
Qed.

(* a Go queue that carries the counters of the model queue *)
Definition q_rep (sq : GoObjects.Queue) (q : mq) : Prop :=
  Queue_maxRunningApps sq = mq_max q /\ Queue_runningApps sq = mq_running q /\
  Queue_allocatingAcceptedApps sq = setmap (mq_allocating q).
Definition q_small (q : mq) : Prop :=
  mq_running q < 2^62 /\ N.of_nat (length (mq_allocating q)) < 2^62.

Theorem gotie_canRunApp sq q app : q_rep sq q -> q_small q ->
  GoObjects.canRunApp_crit sq app = gate_q q app.
Proof.
  intros (Hm & Hr & Ha) (B1 & B2). unfold GoObjects.canRunApp_crit, gate_q.
  rewrite Hm, Hr, Ha, mget0_setmap, length_setmap.
  destruct (mq_max q =? 0); [reflexivity|]. cbn [orb].
  destruct (memN app (mq_allocating q)); [reflexivity|]. cbn [orb]. cbv zeta.
  set (n := length (mq_allocating q)) in *.
  assert (E : u64_add (mq_running q) (i64_to_u64 (wrap64 (Z.of_nat n + 1))) = mq_running q + (N.of_nat n + 1)).
  { unfold u64_add, i64_to_u64, wrap64, GoPrelude.W64.
    rewrite (Z.mod_small (Z.of_nat n + 1 + 2 ^ 63) (2 ^ 64)) by lia.
    rewrite (Z.mod_small (Z.of_nat n + 1 + 2 ^ 63 - 2 ^ 63) (2 ^ 64)) by lia.
    rewrite N.mod_small by lia. lia. }
  now rewrite E.
Qed.

Theorem gotie_incRunningApps sq q app : q_rep sq q -> q_small q -> NoDup (mq_allocating q) ->
  q_rep (GoObjects.incRunningApps_crit sq app) (inc1 app q).
Proof.
  intros (Hm & Hr & Ha) (B1 & B2) Hnd. destruct sq; cbn in Hm, Hr, Ha; subst.
  unfold GoObjects.incRunningApps_crit, inc1, q_rep. cbn.
  assert (E : u64_add (mq_running q) 1 = mq_running q + 1).
  { unfold u64_add, GoPrelude.W64. rewrite N.mod_small by lia. reflexivity. }
  rewrite E.
  destruct ((0 <? mq_max q) && (mq_max q <? mq_running q + 1)); cbn;
    (split; [reflexivity|split; [reflexivity|now apply mdel_setmap]]).
Qed.

Theorem gotie_decRunningApps sq q : q_rep sq q -> q_small q ->
  q_rep (GoObjects.decRunningApps_crit sq) (dec1 q).
Proof.
  intros (Hm & Hr & Ha) (B1 & B2). destruct sq; cbn in Hm, Hr, Ha; subst.
  unfold GoObjects.decRunningApps_crit, dec1, q_rep. cbn.
  destruct (N.ltb_spec 0 (mq_running q)); cbn.
  - split; [reflexivity|split; [|reflexivity]].
    unfold u64_sub, GoPrelude.W64. lia.
  - split; [reflexivity|split; [lia|reflexivity]].
Qed.

(* the pinned prefixes of the three critical sections: nil receiver answers first, the parent is asked
   first (recursively); the model's chain functions (canRunApp, on_chain) rely on exactly this *)
Example canRunApp_prefix_pinned : GoObjects.canRunApp_crit_prefix =
"if sq == nil {
	return true
}
if sq.parent != nil {
	parentCanRun := sq.parent.canRunApp(appID)
	if !parentCanRun {
		return false
	}
}"%string.
Proof. reflexivity. Qed.
Example incRunningApps_prefix_pinned : GoObjects.incRunningApps_crit_prefix =
"if sq == nil {
	return
}
if sq.parent != nil {
	sq.parent.incRunningApps(appID)
}"%string.
Proof. reflexivity. Qed.
Example decRunningApps_prefix_pinned : GoObjects.decRunningApps_crit_prefix =
"if sq == nil {
	return
}
if sq.parent != nil {
	sq.parent.decRunningApps()
}"%string.
Proof. reflexivity. Qed.
