(* C03 over the gang fragment (Core/Model3.v): releases that are not the confirmation of a replacement, part 4:
   removeAllocation with an empty allocation key ([g_release_all]): RemoveAllAllocations, every allocation leaves its
   node, ONE DecAllocatedResource with the total, the allocation counter, all asks removed unless TIMEOUT, termination
   (a Completing application without pending asks completes).  Same-node in-flight replacements are allowed (the
   placeholder goes, the allocated real request stays behind - TIMEOUT - or goes with all asks); cross-node ones are
   excluded by hypothesis (known_trigger 5). *)
From Coq Require Import List ZArith NArith Bool Lia ZifyBool.
From YK Require Import Base.Int64 Base.Res Base.ResSpec Base.ResLemmas Base.ResLaws Base.ResLaws2 Base.ResLawsPred
  Core.Obs Core.Model Core.Model2 Core.Model3 Core.Ledger
  Core.BooksLemmas Core.BooksDefs Core.BooksTree Core.BooksQueue Core.BooksApp Core.BooksState Core.BooksDrain Core.BooksOps
  Core.BooksOps2 Core.BooksOps3 Core.Model2ProofsB1 Core.Model2ProofsB2 Core.Model2ProofsB4 Core.Model3ProofsD Core.Model3ProofsD2
  Core.Model3ProofsG1 Core.Model3ProofsG2 Core.Model3ProofsG3 Core.Model3ProofsG4 Core.Model3ProofsG5 Core.Model3ProofsG6
  Core.Model3ProofsA1 Core.Model3ProofsA2 Core.Model3ProofsO4 Core.Model3ProofsO4b Core.Model3ProofsO4c.
Import ListNotations.
Open Scope Z_scope.
Set Default Timeout 30.

Lemma kept_iff A y : keepf A [] y = true <-> ~ In (oa_key y) (akeys A).
Proof. unfold keepf. cbn [akeys map memN existsb]. rewrite orb_false_r, negb_true_iff. apply memN_false. Qed.

Section ReleaseAll.
  Variables (s s' : ostate) (app ttype : N) (a : oapp).
  Hypothesis HI2 : InvG2 s.
  Hypothesis HB : BooksG s.
  Hypothesis HBd : Bounded3 s.
  Hypothesis Efa : find_app s app = Some a.
  (* the application is live *)
  Hypothesis Live : is_terminal (ap_state a) = false.
  (* no cross-node in-flight replacement: its real half would stay on its node for ever (known_trigger 5) *)
  Hypothesis Hxn : xnode_inflight_reals a = [].
  Hypothesis Hstep : g_release_all s app ttype = Some s'.

  Let HI := ig2_inv s HI2.
  Let Ha : In a (s_apps s) := proj1 (find_app_some s app a Efa).
  Let Eaid : ap_id a = app := proj2 (find_app_some s app a Efa).
  Let W := ig_app_wf s HI a Ha.
  Let B := bg_apps s HB a Ha.
  Let A := ap_allocs a.

  (* ---------------------------------------------------------------- what the nodes list of this application *)
  Lemma rla_no_infl n y : In n (s_nodes s) -> In y (on_allocs n) -> oa_app y = ap_id a -> infl y = false.
  Proof. intros Hn Hy Ey. destruct (infl y) eqn:Hi; [exfalso|reflexivity].
    destruct (g_owner s n y a HI Hn Hy Ha (eq_sym Ey)) as [Ho|(_ & Hyr & Hal & Hfr)].
    - pose proof (alloc_ninfl a y W Ho) as C. unfold ninfl in C. rewrite Hi in C. discriminate.
    - destruct (lk_1 s (ig2_link s HI2) n y Hn Hy Hi) as (a0 & ph & Ha0 & Ea0 & Hph & _ & Ek & _ & Hne).
      assert (a0 = a) by (apply (g_same_app s a a0 HI Ha Ha0); congruence). subst a0.
      assert (Hin : In y (xnode_inflight_reals a)).
      { unfold xnode_inflight_reals. apply filter_In. split; [exact Hyr|]. unfold is_inflight_real_req. unfold infl in Hi. rewrite Hi, Hal.
        rewrite (proj2 (find_alloc_none _ _) Hfr). cbn [andb]. rewrite <- Ek, (find_alloc_in _ ph (w3_alloc_keys a W) Hph).
        apply negb_true_iff, N.eqb_neq. exact Hne. }
      rewrite Hxn in Hin. contradiction. Qed.
  Lemma rla_listed n y : In n (s_nodes s) -> In y (on_allocs n) -> oa_app y = ap_id a -> In y A.
  Proof. intros Hn Hy Ey. destruct (g_owner s n y a HI Hn Hy Ha (eq_sym Ey)) as [Ho|(Hi & _)]; [exact Ho|].
    rewrite (rla_no_infl n y Hn Hy Ey) in Hi. discriminate. Qed.
  (* records of other applications have other keys *)
  Lemma rla_other_key n y : In n (s_nodes s) -> In y (on_allocs n) -> oa_app y <> ap_id a -> ~ In (oa_key y) (akeys A).
  Proof. intros Hn Hy Hne C. unfold akeys in C. apply in_map_iff in C. destruct C as (x & Ek & Hx).
    destruct (ig_owned s HI n y Hn Hy) as (b & Hb & Eb & Ho). apply Hne. rewrite <- Eb.
    apply (ig_keys s HI b a y x Hb Ha); [apply (ownedby_record b y Ho)|apply in_records; auto|congruence]. Qed.

  (* ---------------------------------------------------------------- the model's intermediate values *)
  Definition rla_pd := fold_left (fun d x => if oa_ph x && pd_has d (oa_tg x) then pd_timedout (oa_tg x) d else d) (ap_allocs a) (ap_phdata a).
  Definition rla_a1 := ap_set_lists (ap_set_ledgers (ap_with_ph a rla_pd (ap_phtimer a) (ap_statetimer a) (ap_hasph a)) (ap_pending a) [] []) (ap_requests a) [].
  Definition rla_a2 := if IsZero (Some (ap_pending rla_a1)) then app_fire rla_a1 AvComplete else rla_a1.
  Definition rla_a3 := ap_with_ph rla_a2 (ap_phdata rla_a2) false false (ap_hasph rla_a2).
  Definition rla_s1 := upd_app s app (fun _ => rla_a3).
  Definition rla_total := fold_left (fun tot x => if listed_on_node rla_s1 x then addTo tot (oa_res x) else tot) (ap_allocs a) [].
  Definition rla_s2 := remove_allocs_from_nodes rla_s1 (ap_allocs a).
  Definition rla_s3 := if StrictlyGreaterThanZero (Some rla_total) then q_dec rla_s2 (ap_queue a) rla_total else rla_s2.
  Definition rla_s4 := add_counts rla_s3 (- Z.of_nat (length (ap_allocs a))) (- Z.of_nat (length (filter oa_ph (ap_allocs a)))).

  Lemma rla_unfold : exists s5, (if (ttype =? TT_Timeout)%N then Some rla_s4 else app_remove_all_asks rla_s4 app) = Some s5 /\ s' = terminate_if_done s5 app.
  Proof. unfold g_release_all in Hstep. rewrite Efa in Hstep. destruct (negb (no_res a) || existsb oa_preempted (ap_allocs a)); [discriminate|].
    destruct ((ttype =? TT_PlaceholderReplaced)%N && has_link (ap_allocs a)); [discriminate|]. cbv zeta in Hstep.
    change (match (if (ttype =? TT_Timeout)%N then Some rla_s4 else app_remove_all_asks rla_s4 app) with
            | Some s5 => Some (terminate_if_done s5 app) | None => None end = Some s') in Hstep.
    destruct (if (ttype =? TT_Timeout)%N then Some rla_s4 else app_remove_all_asks rla_s4 app) as [s5|]; [|discriminate].
    exists s5. split; [reflexivity|]. inversion Hstep. reflexivity. Qed.

  Lemma rla_a3_facts : ap_id rla_a3 = ap_id a /\ ap_queue rla_a3 = ap_queue a /\ ap_pending rla_a3 = ap_pending a /\
    ap_allocated rla_a3 = [] /\ ap_phalloc rla_a3 = [] /\ ap_allocs rla_a3 = [] /\ ap_reservations rla_a3 = ap_reservations a /\
    ap_requests rla_a3 = (if is_terminal (ap_state rla_a3) then [] else ap_requests a).
  Proof. unfold rla_a3, rla_a2. cbn [ap_with_ph ap_id ap_queue ap_pending ap_allocated ap_phalloc ap_allocs ap_reservations ap_requests ap_state].
    destruct (IsZero (Some (ap_pending rla_a1))).
    - rewrite app_fire_id, app_fire_queue, app_fire_pending, app_fire_allocated, app_fire_phalloc, app_fire_allocs, app_fire_reservations, app_fire_requests.
      unfold rla_a1. cbn [ap_set_lists ap_set_ledgers ap_with ap_with_ph ap_id ap_queue ap_pending ap_allocated ap_phalloc ap_allocs ap_reservations ap_requests ap_state].
      rewrite Live, andb_true_r. repeat split; reflexivity.
    - unfold rla_a1. cbn [ap_set_lists ap_set_ledgers ap_with ap_with_ph ap_id ap_queue ap_pending ap_allocated ap_phalloc ap_allocs ap_reservations ap_requests ap_state].
      rewrite Live. repeat split; reflexivity. Qed.

  Let av := ap_set_lists rla_a3 (ap_requests a) [].
  Let sv := set_apps rla_s4 (updk ap_id (s_apps s) (ap_id a) (fun _ => av)).

  (* ---------------------------------------------------------------- the total *)
  Lemma rla_alloc_on x : In x A -> exists n, In n (s_nodes s) /\ find_node s (oa_node x) = Some n /\ find_alloc (on_allocs n) (oa_key x) = Some x.
  Proof. intros Hx. destruct (ig_onnode s HI a x Ha Hx) as (n & Hn & En & Hxn'). exists n. split; [exact Hn|].
    split; [apply (g_find_node_id s _ n HI Hn En)|apply (g_find_node_alloc_in s n x HI Hn Hxn')]. Qed.
  Lemma rla_usage k : asum A k = getz (ap_allocated a) k + getz (ap_phalloc a) k.
  Proof. rewrite (ab_alloc a B k), (ab_ph a B k), (asum_split oa_ph A k). unfold real_allocs, ph_allocs. fold A. lia. Qed.
  Lemma rla_leaf : exists lq, In lq (s_queues s) /\ In (q_id lq) (path_ids s (ap_queue a)).
  Proof. destruct (ig_app_leaf s HI a Ha) as (lq & Elq & _). destruct (find_queue_some s _ lq Elq) as [Hlq Eid]. exists lq. split; [exact Hlq|].
    rewrite Eid. apply (g_leaf_on_path s a HI Ha). Qed.
  Lemma rla_usage_le q k : In q (s_queues s) -> In (q_id q) (path_ids s (ap_queue a)) -> asum A k <= getz (q_alloc q) k.
  Proof. intros Hq Hin. rewrite rla_usage. apply (g_usage_dominated s a HI HB Ha q k Hq Hin). Qed.

  Lemma rla_total_facts : wf rla_total /\ (forall k, getz rla_total k = asum A k) /\ rb rla_total /\ rnonneg rla_total.
  Proof. assert (Nn : forall k, 0 <= asum A k) by (intros k; apply asum_nonneg; intros y Hy; apply (a3_nn _ y (w3_alloc a W y Hy))).
    destruct (total_fold (listed_on_node rla_s1) A []) as [Wt Gt].
    - intros x Hx. destruct (w3_alloc a W x Hx) as [O1 O2 _ _ _]. split; [|split; [exact O1|split; [apply (abd_alloc a (bd_apps s (b3_base s HBd) a Ha) x Hx)|exact O2]]].
      destruct (rla_alloc_on x Hx) as (n & _ & Efn & Efx). unfold listed_on_node. change (find_node rla_s1 (oa_node x)) with (find_node s (oa_node x)).
      rewrite Efn, Efx. reflexivity.
    - constructor.
    - intros k. rewrite getz_nil. lia.
    - intros k. rewrite getz_nil. destruct rla_leaf as (lq & Hlq & Hin). pose proof (rla_usage_le lq k Hlq Hin).
      pose proof (proj1 (bd_queues s (b3_base s HBd) lq Hlq) k) as Bq. unfold bnd in Bq. lia.
    - fold rla_total in Wt, Gt. assert (G : forall k, getz rla_total k = asum A k) by (intros k; rewrite Gt, getz_nil; lia).
      split; [exact Wt|]. split; [exact G|]. split.
      + intros k. rewrite G. destruct rla_leaf as (lq & Hlq & Hin). pose proof (rla_usage_le lq k Hlq Hin).
        pose proof (proj1 (bd_queues s (b3_base s HBd) lq Hlq) k) as Bq. specialize (Nn k). unfold bnd in *. lia.
      + apply fnonneg_rnonneg; [exact Wt|]. intros k. rewrite G. apply Nn. Qed.

  Definition rla_Ft : oqueue -> oqueue := if StrictlyGreaterThanZero (Some rla_total) then F_dec rla_total else (fun q => q).
  Lemma rla_Ft_keep q : q_id (rla_Ft q) = q_id q /\ q_parent (rla_Ft q) = q_parent q /\ q_leaf (rla_Ft q) = q_leaf q.
  Proof. unfold rla_Ft. destruct (StrictlyGreaterThanZero _); auto. Qed.
  Lemma rla_qfacts q : In q (s_queues s) -> In (q_id q) (path_ids s (ap_queue a)) -> QFacts q (rla_Ft q) (fun k => - asum A k) zero3.
  Proof. intros Hq Hin. destruct rla_total_facts as (Wt & Gt & Bt & Nt). pose proof (g_qok s q HI HB HBd Hq) as Q. unfold rla_Ft.
    destruct (StrictlyGreaterThanZero (Some rla_total)) eqn:Sg.
    - apply (QFacts_ext q _ (fun k => - getz rla_total k) zero3); [intros k; rewrite Gt; reflexivity|reflexivity|].
      apply F_dec_Q; try assumption. intros k. rewrite Gt. apply (rla_usage_le q k Hq Hin).
    - pose proof (not_sgtz_zero _ Nt Sg) as Z. apply (QFacts_ext q q zero3 zero3); [intros k; rewrite <- Gt, Z; reflexivity|reflexivity|apply QFacts_id; exact Q]. Qed.

  (* ---------------------------------------------------------------- the fields of the state before the asks are removed *)
  Lemma rla_s4_fields : s_apps rla_s4 = updk ap_id (s_apps s) (ap_id a) (fun _ => rla_a3) /\ s_nodes rla_s4 = s_nodes rla_s2 /\
    s_queues rla_s4 = path_map s (ap_queue a) rla_Ft /\ s_foreign rla_s4 = s_foreign s /\
    s_nallocs rla_s4 = s_nallocs s + - Z.of_nat (length A).
  Proof. destruct (rafn_other (ap_allocs a) rla_s1) as (R1 & R2 & R3 & R4). fold rla_s2 in R1, R2, R3, R4.
    assert (E1 : s_apps rla_s1 = updk ap_id (s_apps s) (ap_id a) (fun _ => rla_a3)) by (rewrite Eaid; reflexivity).
    change (s_queues rla_s1) with (s_queues s) in R2. change (s_foreign rla_s1) with (s_foreign s) in R3. change (s_nallocs rla_s1) with (s_nallocs s) in R4.
    rewrite E1 in R1. destruct rla_total_facts as (Wt & Gt & _ & _).
    unfold rla_s4. cbn [add_counts s_apps s_nodes s_queues s_foreign s_nallocs]. unfold rla_s3, rla_Ft. destruct (StrictlyGreaterThanZero (Some rla_total)).
    - destruct (q_dec_same rla_s2 (ap_queue a) rla_total) as [S1 S2 _ S4 _ _ S7 _ _ _]. rewrite S1, S2, S4, S7, R1, R3, R4.
      repeat split; try reflexivity. apply (g_q_dec_queues s rla_s2 _ _ R2 Wt).
      intros c oc Hc Eoc k. destruct (find_queue_some s c oc Eoc) as [Hoc Eid]. rewrite Gt. apply (rla_usage_le oc k Hoc). rewrite Eid. exact Hc.
    - rewrite R1, R2, R3, R4, path_map_id. repeat split; reflexivity. Qed.

  Lemma rla_walk : WQ s a rla_s2 [].
  Proof. apply (WQ_run s a HI HBd Ha); [apply (WQ_init s a HI); reflexivity|apply incl_refl|apply (w3_alloc_keys a W)]. Qed.

  (* the nodes after the walk *)
  Lemma rla_node_back m' : In m' (s_nodes rla_s2) -> exists m, In m (s_nodes s) /\ NR A [] m m'.
  Proof. apply (forall2_in_r _ _ _ m' (wq_rel s a _ _ rla_walk)). Qed.
  Lemma rla_node_fwd m : In m (s_nodes s) -> exists m', In m' (s_nodes rla_s2) /\ NR A [] m m'.
  Proof. apply (forall2_in_l _ _ _ m (wq_rel s a _ _ rla_walk)). Qed.
  Lemma rla_in_new m m' y : NR A [] m m' -> (In y (on_allocs m') <-> In y (on_allocs m) /\ ~ In (oa_key y) (akeys A)).
  Proof. intros (_ & Eal & _). rewrite Eal, filter_In, kept_iff. reflexivity. Qed.
  (* no record of the application is left, the others stay *)
  Lemma rla_gone m' y : In m' (s_nodes rla_s2) -> In y (on_allocs m') -> oa_app y <> ap_id a /\ exists m, In m (s_nodes s) /\ In y (on_allocs m).
  Proof. intros Hm' Hy. destruct (rla_node_back m' Hm') as (m & Hm & R). apply (rla_in_new m m' y R) in Hy. destruct Hy as [Hy Hk].
    split; [|eauto]. intros E. apply Hk. apply in_map. apply (rla_listed m y Hm Hy E). Qed.
  Lemma rla_stay m y : In m (s_nodes s) -> In y (on_allocs m) -> oa_app y <> ap_id a ->
    exists m', In m' (s_nodes rla_s2) /\ on_id m' = on_id m /\ In y (on_allocs m').
  Proof. intros Hm Hy Hne. destruct (rla_node_fwd m Hm) as (m' & Hm' & R). exists m'. split; [exact Hm'|]. split; [apply R|].
    apply (rla_in_new m m' y R). split; [exact Hy|apply (rla_other_key m y Hm Hy Hne)]. Qed.

  (* ---------------------------------------------------------------- the state with the requests kept *)
  Lemma rla_av_facts : AppBooks av /\ AppWF3 av.
  Proof. destruct rla_a3_facts as (F1 & F2 & F3 & F4 & F5 & F6 & F7 & F8). split.
    - destruct B as [B1 B2 B3 B4 B5 B6]. constructor; unfold av, real_allocs, ph_allocs, pending_asks; apc; rewrite ?F3, ?F4, ?F5; try assumption;
        try apply rnonneg_nil; intros k; reflexivity.
    - destruct (AppWF3_raw a W) as [R1 R2 R3 R4 R5 R6 R7].
      apply (AppWF3_intro av (ap_id a) (ap_requests a) []); try reflexivity; [exact F1| | | |].
      + constructor; auto; try apply NoDup_nil; try (intros ? []).
      + unfold av. apc. rewrite F3. apply (w3_pending a W).
      + unfold av. apc. rewrite F4. constructor.
      + unfold av. apc. rewrite F5. constructor. Qed.

  Lemma rla_sv : InvG2 sv /\ BooksG sv /\ Bounded3 sv.
  Proof. destruct rla_a3_facts as (F1 & F2 & F3 & F4 & F5 & F6 & F7 & F8). destruct rla_s4_fields as (S1 & S2 & S3 & S4 & S5).
    destruct rla_av_facts as [Bv Wv]. pose proof rla_walk as HW.
    assert (Eapps : s_apps sv = updk ap_id (s_apps s) (ap_id a) (fun _ => av)) by reflexivity.
    assert (Env : s_nodes sv = s_nodes rla_s2) by exact S2.
    assert (Eid : ap_id av = ap_id a) by exact F1.
    assert (Hinv : InvG sv /\ BooksG sv).
    { apply (gang_step s sv a av rla_Ft (fun k => - asum A k) zero3 HI HB Ha Eapps S3 S4); try (intros q; apply rla_Ft_keep); try assumption.
      - exact rla_qfacts.
      - apply rec_keys_incl. unfold app_records, akeys, av. apc. rewrite app_nil_r, map_app. apply incl_appl, incl_refl.
      - intros k. unfold av. apc. rewrite F4, F5, <- rla_usage, !getz_nil. lia.
      - intros k. unfold av, zero3. apc. rewrite F3. lia.
      - rewrite Env, (wq_ids s a _ _ HW). apply (ig_node_ids s HI).
      - intros m' Hm'. rewrite Env in Hm'. destruct (rla_node_back m' Hm') as (m & Hm & Ei & Eal & Wm' & Lm'). destruct (ig_nodes s HI m Hm) as [K1 K2 K3 K4].
        constructor; [rewrite Eal; apply akeys_filter_nodup; exact K1| |exact Lm'|exact Wm'].
        intros y Hy. rewrite Eal in Hy. apply filter_In in Hy. rewrite Ei. apply K2. tauto.
      - apply (owned_step s sv a av HI Ha Eapps Eid). intros m' y Hm' Hy. left. rewrite Env in Hm'. apply (rla_gone m' y Hm' Hy).
      - apply (onnode_step s sv a av HI Ha Eapps).
        + intros x Hx. unfold av in Hx. apc. contradiction.
        + intros m y Hm Hy Hne. rewrite Env. apply (rla_stay m y Hm Hy Hne).
      - apply (g_count_step s sv a av HI Ha Eapps (- Z.of_nat (length A))); [unfold av, A; apc; cbn [length]; lia|exact S5].
      - intros k. rewrite (node_records_same rla_s2 sv Env), (wq_sum s a _ _ HW k), asum_nil. unfold A. lia. }
    destruct Hinv as [HIv HBv]. split; [constructor; [exact HIv|]|split; [exact HBv|]].
    - (* LinkOK *)
      destruct (ig2_link s HI2) as [L1 L2]. split.
      + intros m' y Hm' Hy Hi. rewrite Env in Hm'. destruct (rla_gone m' y Hm' Hy) as [Hne (m & Hm & Hym)].
        destruct (L1 m y Hm Hym Hi) as (a0 & ph & Ha0 & Ea0 & R). exists a0, ph. split; [|auto].
        apply (g_in_apps' s sv a av HI Ha Eapps). right. split; [exact Ha0|congruence].
      + intros a0 ph r Ha0 Hph Pph Lph Hr Kr Pr Ar. apply (g_in_apps' s sv a av HI Ha Eapps) in Ha0. destruct Ha0 as [->|[Ha0 Hne]].
        { unfold av in Hph. apc. contradiction. }
        destruct (L2 a0 ph r Ha0 Hph Pph Lph Hr Kr Pr Ar) as (R1 & R2 & R3 & R4). split; [exact R1|]. split; [exact R2|]. split.
        * intros En' m' y Hm' Hy. rewrite Env in Hm'. destruct (rla_gone m' y Hm' Hy) as [_ (m & Hm & Hym)]. apply (R3 En' m y Hm Hym).
        * intros En'. destruct (R4 En') as (m & Hm & Em & Hrm). rewrite Env.
          destruct (rla_stay m r Hm Hrm) as (m' & Hm' & Em' & Hrm'); [|exists m'; split; [exact Hm'|split; [congruence|exact Hrm']]].
          rewrite (g_record_app s a0 r HI Ha0); [exact Hne|apply in_records; auto].
    - (* Bounded3 *)
      apply (bounded3_shrink s sv HBd).
      + intros b' Hb'. apply (g_in_apps' s sv a av HI Ha Eapps) in Hb'. destruct Hb' as [->|[Hb _]].
        * exists a. split; [exact Ha|]. constructor; unfold av; apc; rewrite ?F3, ?F4, ?F5.
          -- apply ResLe_refl, (ab_nn_pend a B).
          -- intros k. rewrite getz_nil. pose proof (rnonneg_fnonneg _ (ab_nn_alloc a B) k). lia.
          -- intros k. rewrite getz_nil. pose proof (rnonneg_fnonneg _ (ab_nn_ph a B) k). lia.
          -- apply incl_refl.
          -- intros y [].
        * exists b'. split; [exact Hb|]. apply AppLe_refl, (bg_apps s HB b' Hb).
      + apply (queues_shrink s sv (ap_queue a) rla_Ft (fun k => - asum A k) zero3 HI HB S3 rla_qfacts).
        * intros k. assert (0 <= asum A k) by (apply asum_nonneg; intros y Hy; apply (a3_nn _ y (w3_alloc a W y Hy))). lia.
        * intros k. unfold zero3. lia.
      + intros m' Hm'. rewrite Env in Hm'. destruct (rla_node_back m' Hm') as (m & Hm & Ei & Eal & Wm' & Lm'). exists m. split; [exact Hm|].
        intros k. rewrite Lm', Eal, (k3_ledger m (ig_nodes s HI m Hm) k). apply asum_filter_between. intros y Hy.
        destruct (ig_owned s HI m y Hm Hy) as (b & Hb & _ & Ho). apply (a3_nn _ y (g_record_ok s b y HI Hb (ownedby_record b y Ho))). Qed.

  Lemma rla_find4 : find_app rla_s4 app = Some rla_a3.
  Proof. destruct rla_s4_fields as (S1 & _). rewrite <- Eaid. apply (g_find_app' s rla_s4 a rla_a3 HI Ha S1). apply rla_a3_facts. Qed.
  (* no node lists a record of the application any more *)
  Lemma rla_norec4 m' y : In m' (s_nodes rla_s4) -> In y (on_allocs m') -> oa_app y <> app.
  Proof. destruct rla_s4_fields as (_ & S2 & _). rewrite S2, <- Eaid. intros Hm' Hy. apply (rla_gone m' y Hm' Hy). Qed.

  Theorem g_release_all_gen : InvG2 s' /\ BooksG s'.
  Proof. destruct rla_unfold as (s5 & H5 & ->). destruct rla_sv as (HIv & HBv & HBdv).
    destruct rla_a3_facts as (F1 & F2 & F3 & F4 & F5 & F6 & F7 & F8). destruct rla_s4_fields as (S1 & S2 & S3 & S4 & S5).
    destruct (is_terminal (ap_state rla_a3)) eqn:T.
    - (* a Completing application without pending asks: Completed, it leaves the live list *)
      assert (E5 : s5 = rla_s4).
      { destruct (ttype =? TT_Timeout)%N; [inversion H5; reflexivity|]. unfold app_remove_all_asks in H5. rewrite rla_find4, F8 in H5.
        destruct (negb (no_res rla_a3)); [discriminate|]. inversion H5; reflexivity. }
      subst s5. assert (Eav : ap_id av = app) by (rewrite <- Eaid; exact F1).
      assert (Hav : In av (s_apps sv)) by (apply (g_in_apps' s sv a av HI Ha eq_refl); auto).
      rewrite <- Eav. apply (terminate_step sv rla_s4 av rla_a3 HIv HBv HBdv Hav); try reflexivity; try assumption.
      + rewrite Eav. exact rla_find4.
      + rewrite Eav, <- Eaid. change (s_apps sv) with (updk ap_id (s_apps s) (ap_id a) (fun _ => av)). rewrite S1.
        rewrite !filter_updk_out by (intros; exact F1). reflexivity.
    - (* the application stays live *)
      assert (Eav : av = rla_a3).
      { transitivity (ap_set_lists rla_a3 (ap_requests rla_a3) (ap_allocs rla_a3)); [rewrite F8, F6; reflexivity|apply ap_set_lists_same]. }
      assert (Esv : sv = rla_s4) by (unfold sv; rewrite Eav; apply set_apps_same; exact S1).
      rewrite Esv in HIv, HBv, HBdv. destruct (ttype =? TT_Timeout)%N.
      + inversion H5; subst s5. rewrite (terminate_live rla_s4 app rla_a3 rla_find4 T). auto.
      + destruct (ra_all_asks_step rla_s4 s5 app rla_a3 HIv HBv HBdv rla_find4) as (HI5 & HB5 & _ & a' & Ea' & Ta' & _); [|exact H5|].
        * intros m' y Hm' Hy Ey. exfalso. apply (rla_norec4 m' y Hm' Hy Ey).
        * rewrite (terminate_live s5 app a' Ea'); [auto|congruence]. Qed.
End ReleaseAll.

(* removeAllocation with an empty allocation key.  Side hypotheses:
   - [is_terminal (ap_state a) = false]: the application is live (as for the release of one key);
   - [xnode_inflight_reals a = []] (Core/Ledger.v): no real ask of the application is bound on another node than the
     placeholder it replaces while the replacement is not confirmed; this is what known_trigger 5 (xnode_removal_trigger,
     OpRelease with an empty key) checks on the pre-state.  Needed: RemoveAllAllocations walks the allocation list only,
     the real half would stay on its node (Owned, root = sum of the nodes fail).
   The model's own guards (no reservation, no preempted allocation, no link when the type is PLACEHOLDER_REPLACED) are
   read from the equation.  Same-node in-flight replacements are covered. *)
Theorem g_release_all_step s app ttype s' a : InvG2 s -> BooksG s -> Bounded3 s -> find_app s app = Some a ->
  is_terminal (ap_state a) = false -> xnode_inflight_reals a = [] ->
  g_release_all s app ttype = Some s' -> InvG2 s' /\ BooksG s'.
Proof. intros HI2 HB HBd Efa Live Hxn Hstep. apply (g_release_all_gen s s' app ttype a HI2 HB HBd Efa Live Hxn Hstep). Qed.
