(* C01 over the gang fragment, part 4: node removal with placeholders and in-flight replacements; the step theorems
   [m_step_gang_inv], [m_step3_inv], the oracle form, runs of [m_step3]. *)
From Coq Require Import List ZArith NArith Bool Lia ZifyBool.
From YK Require Import Base.Int64 Base.Int64Laws Base.Res Base.ResSpec Base.ResLemmas Base.ResLaws Base.ResLaws2
  Base.ResLawsPred Core.Obs Core.Model Core.Model2 Core.Ledger Core.Model3 Core.NodeProofs Core.QueueProofs Core.StepProofs
  Core.Model2ProofsN Core.Model3ProofsN1 Core.Model3ProofsN2 Core.Model3ProofsN3 Oracles.CoreC01.
Import ListNotations.
Open Scope Z_scope.
Set Default Timeout 30.

(* ------------------------------------------------------------------ predicates on both maps of an application *)
(* removeNodeAllocations looks the real half of a replacement up in the allocation map first and writes it to the
   request map: during that walk the predicate is carried for the records of both maps *)
Definition AO (P : oalloc -> Prop) (a : oapp) : Prop := LP P (ap_allocs a) /\ LP P (ap_requests a).
Definition OF (P : oalloc -> Prop) (s : ostate) : Prop := forall a, In a (s_apps s) -> AO P a.
Lemma OF_reqs (P : oalloc -> Prop) s : OF P s -> reqs_from P s.
Proof. intros H a x Ha Hx. apply (proj2 (H a Ha)). exact Hx. Qed.
Lemma OF_apps (P : oalloc -> Prop) s s' : s_apps s' = s_apps s -> OF P s -> OF P s'.
Proof. unfold OF. intros ->. auto. Qed.
Lemma OF_upd_app (P : oalloc -> Prop) s id f : OF P s -> (forall b, In b (s_apps s) -> AO P b -> AO P (f b)) -> OF P (upd_app s id f).
Proof. intros H Hf a Ha. cbn [upd_app s_apps] in Ha. apply in_map_iff in Ha. destruct Ha as (b & E & Hb).
  destruct (ap_id b =? id)%N; subst a; auto. Qed.
Lemma OF_upd_app_const (P : oalloc -> Prop) s id a' : OF P s -> AO P a' -> OF P (upd_app s id (fun _ => a')).
Proof. intros H Ha. apply OF_upd_app; auto. Qed.

Lemma app_fire_allocs a e : ap_allocs (app_fire a e) = ap_allocs a.
Proof. unfold app_fire. destruct (fsm3 (ap_state a) e) as [st'|]; [|reflexivity]. destruct (st' =? ap_state a)%N; reflexivity. Qed.
Lemma AO_fire (P : oalloc -> Prop) a e : AO P a -> AO P (app_fire a e).
Proof. intros [H1 H2]. split; [rewrite app_fire_allocs; exact H1|eapply LP_incl; [apply app_fire_reqs|exact H2]]. Qed.
Lemma app_remove_alloc_allocs a x t : incl (ap_allocs (app_remove_alloc a x t)) (ap_allocs a).
Proof. unfold app_remove_alloc. destruct (oa_ph x).
  - cbn [ap_set_lists ap_with ap_allocs]. eapply incl_tran; [apply del_alloc_incl|]. destruct (IsZero _); [|apply incl_refl].
    destruct (_ || _ || _ || _); [|apply incl_refl]. rewrite app_fire_allocs. apply incl_refl.
  - cbn [ap_set_lists ap_with ap_allocs]. eapply incl_tran; [apply del_alloc_incl|]. destruct (_ && _); [|apply incl_refl].
    rewrite app_fire_allocs. apply incl_refl. Qed.
Lemma AO_remove_alloc (P : oalloc -> Prop) a x t : AO P a -> AO P (app_remove_alloc a x t).
Proof. intros [H1 H2]. split; eapply LP_incl; [apply app_remove_alloc_allocs|exact H1|apply app_remove_alloc_reqs|exact H2]. Qed.
Lemma app_add_alloc_allocs a b x y : In y (ap_allocs (app_add_alloc a b x)) -> y = x \/ In y (ap_allocs a).
Proof. unfold app_add_alloc. destruct (oa_ph x).
  - cbn [ap_set_lists ap_with ap_allocs]. intros Hy. apply in_put_alloc in Hy. destruct Hy as [Hy|Hy]; [auto|right].
    destruct (Equals _ _); [rewrite app_fire_allocs in Hy|]; cbn [ap_set_ledgers ap_with ap_allocs] in Hy; destruct (IsZero _); exact Hy.
  - cbn [ap_set_lists ap_set_ledgers ap_with ap_allocs]. intros Hy. apply in_put_alloc in Hy. destruct Hy as [Hy|Hy]; [auto|right].
    destruct (_ || _ || _); [rewrite app_fire_allocs in Hy|]; exact Hy. Qed.
Lemma AO_add_alloc (P : oalloc -> Prop) a b x : P x -> AO P a -> AO P (app_add_alloc a b x).
Proof. intros Hx [H1 H2]. split; [|eapply LP_incl; [apply app_add_alloc_reqs|exact H2]].
  intros y Hy. apply app_add_alloc_allocs in Hy. destruct Hy as [->|Hy]; auto. Qed.

(* node side up to flags, predicates on both maps preserved *)
Definition ofstep (s s' : ostate) : Prop := lflag (s_nodes s) (s_nodes s') /\ forall P, rv_stable P -> OF P s -> OF P s'.
Lemma ofstep_refl s : ofstep s s. Proof. split; [apply lflag_refl|auto]. Qed.
Lemma ofstep_trans s1 s2 s3 : ofstep s1 s2 -> ofstep s2 s3 -> ofstep s1 s3.
Proof. intros [A1 A2] [B1 B2]. split; [eapply lflag_trans; eassumption|]. intros P HP H. apply B2; [exact HP|]. apply A2; assumption. Qed.
Lemma ofstep_same_na s s' : same_na s s' -> ofstep s s'.
Proof. intros [E1 E2]. split; [apply lflag_eq; exact E1|]. intros P _ H. eapply OF_apps; eassumption. Qed.
Lemma ofstep_obj_upd s app k f : flagf f -> ofstep s (obj_upd s app k f).
Proof. intros Hf. split; [apply obj_upd_lflag; exact Hf|]. intros P HP H. eapply (OF_apps P (upd_app s app _)); [reflexivity|].
  apply OF_upd_app; [exact H|]. intros b _ [H1 H2]. split; cbn [ap_set_lists ap_with ap_allocs ap_requests]; apply LP_map_key_flag; assumption. Qed.
Lemma ofstep_upd_app s id f : (forall (P : oalloc -> Prop) b, rv_stable P -> In b (s_apps s) -> AO P b -> AO P (f b)) -> ofstep s (upd_app s id f).
Proof. intros Hf. split; [apply lflag_refl|]. intros P HP H. apply OF_upd_app; [exact H|]. intros b Hb. apply Hf; assumption. Qed.

Lemma find_obj_in a k r : find_obj a k = Some r -> In r (ap_allocs a) \/ In r (ap_requests a).
Proof. unfold find_obj. destruct (find_alloc (ap_allocs a) k) as [x|] eqn:E.
  - intros H. apply Some_inj in H. subst. left. apply (find_alloc_some _ _ _ E).
  - intros H. right. apply (find_alloc_some _ _ _ H). Qed.

(* ---- DeallocateAsk, the plain part of the loop body *)
Lemma app_deallocate_ostep s a k : ofstep s (app_deallocate s a k).
Proof. unfold app_deallocate. destruct (find_alloc (ap_requests a) k) as [r|]; [|apply ofstep_refl]. destruct (oa_allocated r); [|apply ofstep_refl].
  eapply ofstep_trans; [apply ofstep_obj_upd, flagf_allocated|]. eapply ofstep_trans; [|apply ofstep_same_na, same_na_q_inc_pending].
  apply ofstep_upd_app. intros P b _ _ Hb. exact Hb. Qed.
Lemma g_node_remove_plain_ostep s app key : ofstep s (fst (fst (g_node_remove_plain s app key))).
Proof. unfold g_node_remove_plain. destruct (find_app s app) as [a|] eqn:Ea; [|apply ofstep_refl]. destruct (find_app_some _ _ _ Ea) as [Hina _].
  destruct (find_alloc (ap_allocs a) key) as [x|]; [|apply ofstep_refl]. cbn [fst].
  eapply ofstep_trans; [|apply ofstep_same_na, same_na_q_dec].
  split; [apply lflag_refl|]. intros P HP H. apply OF_upd_app_const; [exact H|]. apply AO_remove_alloc. apply H. exact Hina. Qed.

(* ---- removeNodeAllocations *)
Lemma g_remove_node_allocs_ostep l : forall s s' da dph, g_remove_node_allocs s l = Some (s', da, dph) -> ofstep s s'.
Proof. induction l as [|y t IH]; intros s s' da dph H; cbn [g_remove_node_allocs] in H.
  - inversion H; subst. apply ofstep_refl.
  - destruct (find_app s (oa_app y)) as [a|] eqn:Ea; [|apply (IH _ _ _ _ H)]. destruct (find_app_some _ _ _ Ea) as [Hina _].
    destruct (negb (no_res a) || oa_preempted y); [discriminate|]. cbv zeta in H.
    match type of H with match ?X with Some _ => _ | None => None end = _ => destruct X as [[s1 b]|] eqn:E1; [|discriminate] end.
    assert (F1 : ofstep s s1).
    { destruct (oa_release y =? 0)%N; [inversion E1; subst; apply ofstep_refl|].
      destruct (find_obj a (oa_release y)) as [r|] eqn:Er; [|discriminate]. apply find_obj_in in Er.
      destruct (oa_ph y && negb (oa_node y =? oa_node r)%N).
      - destruct (find_alloc (ap_allocs a) (oa_key y)) as [x|]; [|discriminate]. destruct (oa_ph r || negb (oa_allocated r)); [discriminate|].
        inversion E1; subst s1 b; clear E1.
        match goal with |- ofstep s (if ?c then match q_try_inc ?S1 ?Q ?D with Some s' => s' | None => _ end else _) =>
          apply (ofstep_trans s S1); [|destruct c; [destruct (q_try_inc S1 Q D) as [s'q|] eqn:Eq; [apply ofstep_same_na, (same_na_q_try_inc _ _ _ _ Eq)|apply ofstep_refl]|apply ofstep_refl]] end.
        eapply ofstep_trans; [|apply ofstep_obj_upd, flagf_link].
        split; [apply lflag_refl|]. intros P HP H0. apply OF_upd_app_const; [exact H0|].
        assert (Pr : P (oa_set_link r 0)).
        { apply (flagf_P P (fun z => oa_set_link z 0) r HP (flagf_link 0)). destruct (H0 a Hina) as [G1 G2]. destruct Er; auto. }
        assert (G : AO P (app_add_alloc (app_remove_alloc a x TT_PlaceholderReplaced) true (oa_set_link r 0))).
        { apply AO_add_alloc; [exact Pr|]. apply AO_remove_alloc. apply H0. exact Hina. }
        destruct G as [G1 G2]. split; cbn [ap_set_lists ap_with ap_allocs ap_requests]; [exact G1|]. apply LP_map_key; [intros z _; exact Pr|exact G2].
      - match type of E1 with match find_app ?S1 _ with Some _ => _ | None => None end = _ => destruct (find_app S1 (ap_id a)) as [a1|]; [|discriminate]; set (s0 := S1) in * end.
        inversion E1; subst s1 b; clear E1. eapply ofstep_trans; [|apply app_deallocate_ostep].
        unfold s0. eapply ofstep_trans; apply ofstep_obj_upd, flagf_link. }
    destruct b.
    + eapply ofstep_trans; [exact F1|]. apply (IH _ _ _ _ H).
    + pose proof (g_node_remove_plain_ostep s1 (oa_app y) (oa_key y)) as F2.
      destruct (g_node_remove_plain s1 (oa_app y) (oa_key y)) as [[s2 da2] dph2]. cbn [fst] in F2.
      destruct (g_remove_node_allocs s2 t) as [[[s3 da3] dph3]|] eqn:E3; [|discriminate]. inversion H; subst.
      eapply ofstep_trans; [exact F1|]. eapply ofstep_trans; [exact F2|]. apply (IH _ _ _ _ E3). Qed.

Lemma g_node_remove_sinv s evs id s' : g_node_remove s evs id = Some s' -> SInv s ->
  (forall a x, In a (s_apps s) -> In x (ap_allocs a) -> req_ok x) -> SInv s'.
Proof. unfold g_node_remove. intros H HI Hobj. destruct (find_node s id) as [n|]; [|discriminate]. destruct (negb (node_unreserved n)); [discriminate|].
  destruct (node_remove_order evs (on_allocs n)) as [order|]; [|discriminate]. cbv zeta in H.
  match type of H with match g_remove_node_allocs ?S0 order with Some _ => _ | None => None end = _ =>
    destruct (g_remove_node_allocs S0 order) as [[[s1 da] dph]|] eqn:E1; [|discriminate]; set (s0 := S0) in * end.
  apply Some_inj in H. subst s'. destruct (g_remove_node_allocs_ostep _ _ _ _ _ E1) as [Fn Fo].
  assert (HI1 : SInv s1).
  { apply SInv_of.
    - eapply LOK_flag; [exact Fn|]. unfold s0. cbn [set_nodes s_nodes]. apply LOK_filter. apply SInv_LOK. exact HI.
    - apply OF_reqs. apply (Fo req_ok rv_req_ok). intros a Ha. split; [intros x Hx; eapply Hobj; eassumption|intros x Hx; eapply (si_reqs _ HI); eassumption]. }
  eapply fstep_sinv; [apply terminate_fold_fstep|]. eapply fstep_sinv; [|exact HI1]. apply same_na_fstep. sna. Qed.

(* ------------------------------------------------------------------ every step of the gang fragment *)
Theorem m_step_gang_inv deny s st s' : m_step_gang deny s st = Some s' -> SInv s -> Bounded s -> step_ok3 s st -> SInv s'.
Proof. unfold m_step_gang. intros H HI HB Hok. destruct (st_panic st); [discriminate|]. destruct (known_trigger s st); [discriminate|].
  destruct (st_op st) eqn:Eop; try discriminate.
  - eapply g_node_remove_sinv; [exact H|exact HI|]. pose proof (so3_objs _ _ Hok) as Ho. unfold node_remove_objs in Ho. rewrite Eop in Ho. exact Ho.
  - eapply fstep_sinv; [eapply g_app_add_fstep; exact H|exact HI].
  - eapply g_app_remove_sinv; [exact H|exact HI|exact HB|]. pose proof (so3_nonneg _ _ Hok) as Hn. unfold remove_nonneg3 in Hn. rewrite Eop in Hn. exact Hn.
  - eapply g_alloc_sinv; eassumption.
  - destruct (app =? 0)%N; [discriminate|]. destruct (key =? 0)%N eqn:Ek.
    + eapply g_release_all_sinv; [exact H|exact HI|exact HB|]. pose proof (so3_nonneg _ _ Hok) as Hn. unfold remove_nonneg3 in Hn. rewrite Eop in Hn.
      apply Hn. apply N.eqb_eq. exact Ek.
    + eapply g_release_sinv; eassumption.
  - eapply g_sched_sinv; eassumption.
  - destruct (find_app s app); (eapply fstep_sinv; [|exact HI]); [eapply g_fire_ph_fstep|eapply g_fire_ph_dead_fstep]; exact H.
  - destruct (find_app s app); (eapply fstep_sinv; [|exact HI]); [eapply g_fire_state_fstep|eapply g_fire_state_dead_fstep]; exact H. Qed.

Theorem m_step3_inv deny s st s' : m_step3 deny s st = Some s' -> SInv s -> Bounded s -> step_ok2 s st -> step_ok3 s st -> SInv s'.
Proof. unfold m_step3. intros H HI HB H2 H3. destruct (m_step2 deny s st) as [s1|] eqn:E.
  - apply Some_inj in H. subst s1. eapply m_step2_inv; eassumption.
  - eapply m_step_gang_inv; eassumption. Qed.

(* in the oracle's terms *)
Theorem m_step3_nodes_ledger deny s st s' :
  nodes_ledger_ok s = true -> (forall n, In n (s_nodes s) -> NodeWF n) -> reqs_from req_ok s -> Bounded s -> step_ok2 s st -> step_ok3 s st ->
  m_step3 deny s st = Some s' -> nodes_ledger_ok s' = true.
Proof. intros HL HW HR HB H2 H3 H. apply nodes_ledger_reflect. apply (si_ledger s'). eapply m_step3_inv; try eassumption.
  split; [apply nodes_ledger_reflect; assumption|assumption|assumption]. Qed.

Fixpoint m_run3 (deny : list (N * N)) (s : ostate) (steps : list ostep) : list ostate :=
  match steps with
  | [] => []
  | st :: t => match m_step3 deny s st with Some s' => s' :: m_run3 deny s' t | None => [] end
  end.
Fixpoint run_ok3 (deny : list (N * N)) (s : ostate) (steps : list ostep) : Prop :=
  match steps with
  | [] => True
  | st :: t => Bounded s /\ step_ok2 s st /\ step_ok3 s st /\ match m_step3 deny s st with Some s' => run_ok3 deny s' t | None => True end
  end.

Theorem m_run3_inv deny steps : forall s, SInv s -> run_ok3 deny s steps -> forall s', In s' (m_run3 deny s steps) -> SInv s'.
Proof. induction steps as [|st t IH]; intros s HI Hok s' Hin; [destruct Hin|]. cbn [m_run3 run_ok3] in *.
  destruct Hok as (HB & H2 & H3 & Hrest). destruct (m_step3 deny s st) as [s1|] eqn:E; [|destruct Hin].
  assert (HI1 : SInv s1) by (eapply m_step3_inv; eassumption). destruct Hin as [<-|Hin]; [assumption|]. eapply IH; eassumption. Qed.

Theorem m_run3_nodes_ledger deny steps s : SInv s -> run_ok3 deny s steps ->
  forall s', In s' (m_run3 deny s steps) -> nodes_ledger_ok s' = true.
Proof. intros HI Hok s' Hin. apply nodes_ledger_reflect. apply (si_ledger s'). eapply m_run3_inv; eassumption. Qed.
