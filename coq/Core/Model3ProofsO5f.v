(* C03 over the gang fragment (Core/Model3.v): removeNode ([g_node_remove]), part 2c: the iteration of
   [g_remove_node_allocs] that CONFIRMS a replacement (case (b)): the removed node lists a placeholder whose real half
   is already bound on another node.  The placeholder leaves the application (ReplaceAllocation: the real allocation
   enters the allocation list), the link on the other node's copy is cleared, and the queue path is charged with
   delta = real - placeholder through TryIncAllocatedResource when delta has a negative value.
   In the ghost state the placeholder leaves the ghost node in the same iteration; the resulting ghost state has the node
   list of the cross-node confirmation of Core/Model3ProofsO3c.v (Section Cross), whose node-side lemmas and the
   application / link lemmas of Core/Model3ProofsO3b.v are reused; the queue side is different (an increment by a
   negative amount instead of a decrement) and is done here.
   Side hypothesis [quota]: when delta has a negative value TryIncAllocatedResource succeeds.  It FAILS when a queue on
   the path is above its maximum (e.g. after a reload lowered it): then the model -- like the Go code, which ignores the
   result -- decrements nothing, the queues keep the placeholder's size for an allocation of the real size, and the
   books break (leaf queue usage > sum of its applications): potential finding. *)
From Coq Require Import List ZArith NArith Bool Lia ZifyBool.
From YK Require Import Base.Int64 Base.Res Base.ResSpec Base.ResLemmas Base.ResLaws Base.ResLaws2 Base.ResLawsPred
  Core.Obs Core.Model Core.Model2 Core.Model3 Core.Ledger
  Core.BooksLemmas Core.BooksDefs Core.BooksTree Core.BooksQueue Core.BooksApp Core.BooksState Core.BooksDrain Core.BooksOps
  Core.BooksOps2 Core.BooksOps3 Core.BooksOps4 Core.Model2ProofsB1 Core.Model2ProofsB2 Core.Model2ProofsB4
  Core.Model3ProofsD Core.Model3ProofsD2 Core.Model3ProofsG1 Core.Model3ProofsG2 Core.Model3ProofsG3 Core.Model3ProofsG4
  Core.Model3ProofsG6 Core.Model3ProofsA1 Core.Model3ProofsA2 Core.Model3ProofsA3 Core.Model3ProofsO1 Core.Model3ProofsO3
  Core.Model3ProofsO3b Core.Model3ProofsO3c Core.Model3ProofsO4 Core.Model3ProofsO5b Core.Model3ProofsO5c Core.Model3ProofsO5e.
Import ListNotations.
Open Scope Z_scope.
Set Default Timeout 30.

Section ConfirmGhost.
  Variables (μ : ostate) (n : onode) (c : Z) (a : oapp) (y r : oalloc).
  Let σ := ghost μ n c.
  Hypothesis HI2 : InvG2 σ.
  Hypothesis HB : BooksG σ.
  Hypothesis HBd : Bounded3 σ.
  Hypothesis Ha : In a (s_apps μ).
  Hypothesis Hy : In y (ap_allocs a).
  Hypothesis Hyn : In y (on_allocs n).
  Hypothesis Py : oa_ph y = true.
  Hypothesis Ly : oa_release y <> 0%N.
  Hypothesis Ky : oa_key y <> 0%N.
  Hypothesis Hr : In r (ap_requests a).
  Hypothesis Ekr : oa_key r = oa_release y.
  Hypothesis Pr : oa_ph r = false.
  Hypothesis Ar : oa_allocated r = true.
  Hypothesis Ecross : oa_node r <> oa_node y.
  Hypothesis T : is_terminal (ap_state (app_remove_alloc a y TT_PlaceholderReplaced)) = false.

  Let HI := ig2_inv σ HI2.
  Let W := ig_app_wf σ HI a Ha.
  Let Hn := ghost_node_in μ n c.
  Let aid := ap_id a.
  Let b := confirm_app a y TT_PlaceholderReplaced r.
  Let f0 := fun z : oalloc => oa_set_link z 0%N.
  Let real := oa_set_link r 0.
  Let n_rm := n_remove n (oa_key y).
  (* the model state after the application and node-copy updates, and the state of O3c for the ghost state *)
  Let s1 := obj_upd (upd_app μ aid (fun _ => b)) aid (oa_key real) f0.
  Let S2 := obj_upd (upd_node (upd_app σ aid (fun _ => b)) (on_id n) (fun _ => n_rm)) aid (oa_key real) f0.
  Let delta := Sub (Some (oa_res r)) (Some (oa_res y)).

  Lemma cg_En : on_id n = oa_node y. Proof. symmetry. apply (k3_node n (ig_nodes σ HI n Hn) y Hyn). Qed.
  Lemma cg_m : exists m, In m (s_nodes σ) /\ on_id m = oa_node r /\ In r (on_allocs m).
  Proof. destruct (cf_pair σ a y r HI2 Ha Hy Py Ly Hr Ekr Pr Ar) as (_ & _ & _ & Q4). apply (Q4 Ecross). Qed.

  Lemma cg_S2 : S2 = ghost s1 n_rm c.
  Proof. destruct cg_m as (m & Hm & Em & Hrm).
    pose proof (cx_rmap_nrm σ a y r n HI2 Ha Hy Hr Hn cg_En Ecross m Hm Em Hrm) as Efix.
    unfold S2, s1, σ, obj_upd, upd_node, upd_app, set_nodes, ghost.
    cbn [s_nodes s_apps s_queues s_total s_nallocs s_nph s_nres s_foreign s_completed s_rejected s_ugm map]. rewrite N.eqb_refl. f_equal.
    f_equal.
    - transitivity (rmap_node (hk (ap_id a) (oa_key r) (fun z => oa_set_link z 0)) (n_remove n (oa_key y))); [reflexivity|exact Efix].
    - f_equal. apply (updk_fresh on_id). apply (ghost_fresh (on_id n) μ n c HI eq_refl). Qed.

  Lemma cg_apps1 : s_apps s1 = updk ap_id (s_apps μ) aid (fun _ => b).
  Proof. unfold s1. rewrite Model3ProofsG3.obj_upd_apps. change (s_apps (upd_app μ aid (fun _ => b))) with (updk ap_id (s_apps μ) aid (fun _ => b)).
    rewrite (updk_const_then ap_id (s_apps μ) aid b) by (apply confirm_id).
    change (updk ap_id (s_apps μ) aid (fun _ => flag_app b (oa_key r) (fun z => oa_set_link z 0%N)) = updk ap_id (s_apps μ) aid (fun _ => b)).
    unfold b. rewrite confirm_relink. reflexivity. Qed.

  (* ---------------------------------------------------------------- the records the nodes of S2 list (as in O3c, Section Cross) *)
  Section WithM.
    Variable m : onode.
    Hypothesis Hm : In m (s_nodes σ).
    Hypothesis Em : on_id m = oa_node r.
    Hypothesis Hrm : In r (on_allocs m).
    Let h := hk aid (oa_key r) f0.
    Let m_fl := rmap_node h m.
    Let Hin := cx_in_nodes2 σ a y r TT_PlaceholderReplaced n HI2 Ha Hy Hr Hn cg_En Ecross m Hm Em Hrm.
    Let Hmn := cx_mn y r n cg_En Ecross m Em.
    Let Hrec := cx_h_rec σ a r HI2 Ha Hr m Hm Hrm.
    Let Hkx := cn_key_x σ a y n HI2 Ha Hy Hn cg_En.
    Let Hkr := cx_key_real σ r HI2 m Hm Hrm.
    Let Enrm := cx_nrm_allocs σ a y n HI2 Ha Hy Hn cg_En.

    Lemma cg_N1 : forall m' y', In m' (s_nodes S2) -> In y' (on_allocs m') ->
      y' = oa_set_link r 0 \/ (exists m0, In m0 (s_nodes σ) /\ In y' (on_allocs m0) /\ oa_key y' <> oa_key y /\ oa_key y' <> oa_key r).
    Proof. intros m2 y' Hm2 Hy'. apply Hin in Hm2. destruct Hm2 as [->|[->|(Hm2 & D1 & D2)]].
      - cbn [rmap_node n_with on_allocs] in Hy'. apply in_map_iff in Hy'. destruct Hy' as (z & <- & Hz).
        destruct (Hrec m z Hm Hz) as [[E K]|(_ & _ & E)]; [|left; exact E]. rewrite E. right. exists m. split; [exact Hm|]. split; [exact Hz|]. split; [|exact K].
        intros C. destruct (Hkx m z Hm Hz C) as [_ C']. apply Hmn. rewrite C'. reflexivity.
      - rewrite Enrm in Hy'. apply in_del_alloc in Hy'. destruct Hy' as [Hy' K]. right. exists n. split; [exact Hn|]. split; [exact Hy'|]. split; [exact K|].
        intros C. destruct (Hkr n y' Hn Hy' C) as [_ C']. apply Hmn. rewrite C'. reflexivity.
      - right. exists m2. split; [exact Hm2|]. split; [exact Hy'|]. split; intros C.
        + destruct (Hkx m2 y' Hm2 Hy' C) as [_ C']. apply D1. rewrite C'. reflexivity.
        + destruct (Hkr m2 y' Hm2 Hy' C) as [_ C']. apply D2. rewrite C'. reflexivity. Qed.
    Lemma cg_N2 : exists m', In m' (s_nodes S2) /\ on_id m' = oa_node r /\ In (oa_set_link r 0) (on_allocs m').
    Proof. exists m_fl. split; [apply Hin; auto|]. split; [exact Em|]. cbn [m_fl rmap_node n_with on_allocs]. apply in_map_iff. exists r. split; [|exact Hrm].
      destruct (Hrec m r Hm Hrm) as [[_ C]|(_ & _ & E)]; [contradiction C; reflexivity|exact E]. Qed.
    Lemma cg_N3 : forall m0 z, In m0 (s_nodes σ) -> In z (on_allocs m0) -> oa_key z <> oa_key y -> oa_key z <> oa_key r ->
      exists m', In m' (s_nodes S2) /\ on_id m' = on_id m0 /\ In z (on_allocs m').
    Proof. intros m0 z Hm0 Hz K1 K2. destruct (N.eq_dec (on_id m0) (on_id n)) as [D1|D1].
      - assert (m0 = n) by (apply (g_same_node σ n m0 HI Hn Hm0 D1)). subst m0. exists n_rm. split; [apply Hin; auto|].
        split; [apply (cx_nrm_id σ a y n HI2 Ha Hy Hn cg_En)|]. unfold n_rm. rewrite Enrm. apply in_del_alloc. auto.
      - destruct (N.eq_dec (on_id m0) (on_id m)) as [D2|D2].
        + assert (m0 = m) by (apply (g_same_node σ m m0 HI Hm Hm0 D2)). subst m0. exists m_fl. split; [apply Hin; auto|]. split; [reflexivity|].
          cbn [m_fl rmap_node n_with on_allocs]. destruct (Hrec m z Hm Hz) as [[E _]|(C & _)]; [|subst z; contradiction K2; reflexivity]. rewrite <- E. apply in_map. exact Hz.
        + exists m0. split; [apply Hin; right; right; auto|]. auto. Qed.
  End WithM.

  (* ---------------------------------------------------------------- the final state *)
  Variables (μ2 : ostate) (F : oqueue -> oqueue).
  Hypothesis E2a : s_apps μ2 = s_apps s1.
  Hypothesis E2n : s_nodes μ2 = s_nodes s1.
  Hypothesis E2q : s_queues μ2 = path_map σ (ap_queue a) F.
  Hypothesis E2f : s_foreign μ2 = s_foreign μ.
  Hypothesis E2c : s_nallocs μ2 = s_nallocs μ.
  Hypothesis Fkeep : forall q, q_id (F q) = q_id q /\ q_parent (F q) = q_parent q /\ q_leaf (F q) = q_leaf q.
  Hypothesis FQ : forall q, In q (s_queues σ) -> In (q_id q) (path_ids σ (ap_queue a)) ->
                  QFacts q (F q) (fun k => getz (oa_res r) k - getz (oa_res y) k) zero3.
  Let σ' := ghost μ2 n_rm c.

  Theorem confirm_ghost_core : InvG2 σ' /\ BooksG σ'.
  Proof. destruct cg_m as (m & Hm & Em & Hrm).
    assert (En' : s_nodes σ' = s_nodes S2) by (rewrite cg_S2; cbn [σ' ghost s_nodes]; rewrite E2n; reflexivity).
    assert (Eapps : s_apps σ' = updk ap_id (s_apps σ) (ap_id a) (fun _ => b)) by (cbn [σ' ghost s_apps]; rewrite E2a; apply cg_apps1).
    assert (N1 := cg_N1 m Hm Em Hrm). assert (N2 := cg_N2 m Hm Em Hrm). assert (N3 := cg_N3 m Hm Em Hrm). rewrite <- En' in N1, N2, N3.
    assert (H : InvG σ' /\ BooksG σ').
    { apply (gang_step σ σ' a b F (fun k => getz (oa_res r) k - getz (oa_res y) k) zero3 HI HB Ha Eapps E2q E2f); try (intros q; apply Fkeep).
      - exact FQ.
      - apply confirm_id.
      - apply confirm_queue.
      - apply (cf_b_books σ a y r TT_PlaceholderReplaced HI2 HB HBd Ha Hy Py Ly Hr Ekr Ar T).
      - apply (cf_b_wf σ a y r TT_PlaceholderReplaced HI2 Ha Hy Py Ly Hr Ekr Pr Ar).
      - apply (cf_b_keys σ a y r TT_PlaceholderReplaced Hr T).
      - intros k. destruct (cf_b_delta σ a y r TT_PlaceholderReplaced HI2 HBd Ha Hy Py Hr Pr k) as (D1 & D2 & _). fold b in D1, D2. rewrite D1, D2. lia.
      - intros k. destruct (cf_b_delta σ a y r TT_PlaceholderReplaced HI2 HBd Ha Hy Py Hr Pr k) as (_ & _ & D3). fold b in D3. rewrite D3. unfold zero3. lia.
      - rewrite En'. apply (cx_nid σ a y r TT_PlaceholderReplaced n HI2 Ha Hy Hr Hn cg_En Ecross m Hm Em Hrm).
      - rewrite En'. apply (cx_nodes_ok σ a y r TT_PlaceholderReplaced n HI2 HBd Ha Hy Hr Hn cg_En Ecross m Hm Em Hrm).
      - apply (cf_owned σ σ' a y r TT_PlaceholderReplaced HI2 Ha Hr T Eapps N1).
      - apply (cf_onnode σ σ' a y r TT_PlaceholderReplaced HI2 Ha Hy Hr Eapps N2 N3).
      - apply (g_count_step σ σ' a b HI Ha Eapps 0 (cf_b_len σ a y r TT_PlaceholderReplaced HI2 Ha Hy Py Ly Ekr Pr Ar T)).
        cbn [σ' σ ghost s_nallocs]. rewrite E2c. lia.
      - intros k. unfold node_records. rewrite En'.
        apply (cx_sum σ a y r TT_PlaceholderReplaced n HI2 Ha Hy Py Ly Hr Ekr Pr Ar T Hn cg_En Ecross Ky m Hm Em Hrm k). }
    destruct H as [HI' HB']. split; [|exact HB']. split; [exact HI'|]. split.
    - apply (cf_l1 σ σ' a y r TT_PlaceholderReplaced HI2 Ha Hy Py Ly Ekr Eapps N1).
    - apply (cf_l2 σ σ' a y r TT_PlaceholderReplaced HI2 Ha Hy Py Ly Hr Ekr Pr Ar T Eapps N1 N3). Qed.
End ConfirmGhost.


(* TryIncAllocatedResource reads the queue list only *)
Lemma q_try_inc_none_ext s s' leaf r : s_queues s = s_queues s' -> q_try_inc s leaf r = None -> q_try_inc s' leaf r = None.
Proof. intros E. unfold q_try_inc. rewrite (path_ids_ext s s' leaf E).
  assert (Eg : forall l, forallb (fun qid => match find_queue s qid with Some q => q_fits q r | None => false end) l =
                         forallb (fun qid => match find_queue s' qid with Some q => q_fits q r | None => false end) l).
  { intros l. induction l as [|qid l' IHl]; [reflexivity|]. cbn [forallb]. rewrite IHl, (find_queue_ext s s' qid E). reflexivity. }
  rewrite Eg. destruct (forallb _ _); [discriminate|reflexivity]. Qed.

(* ================================================================== case (b): the replacement is confirmed *)
Lemma step_confirm id μ n y t c μ2 da dph : GI id μ n (y :: t) c -> Bounded3 μ -> Bounded3 μ2 -> NoTerminal μ2 ->
  oa_release y <> 0%N -> oa_ph y = true ->
  (forall a r, find_app μ (oa_app y) = Some a -> find_alloc (ap_requests a) (oa_release y) = Some r -> oa_node r <> oa_node y) ->
  (* [quota]: TryIncAllocatedResource(delta) succeeds when delta has a negative value *)
  (forall a r, find_app μ (oa_app y) = Some a -> find_alloc (ap_requests a) (oa_release y) = Some r ->
     HasNegativeValue (Some (Sub (Some (oa_res r)) (Some (oa_res y)))) = true ->
     q_try_inc μ (ap_queue a) (Sub (Some (oa_res r)) (Some (oa_res y))) <> None) ->
  g_remove_node_allocs μ [y] = Some (μ2, da, dph) -> exists n', GI id μ2 n' t (c + da).
Proof. intros G HBd HBd2 HT2 Lrel Py Hcross Hquota H. pose proof G as [G1 G2 G3 G4 G5 G6 G7]. set (σ := ghost μ n c) in *. pose proof (ig2_inv _ G1) as HI.
  pose proof (ghost_bounded μ n c HBd G6) as HBdσ. pose proof (ghost_node_in μ n c) as Hn.
  destruct (ghost_owner id μ n _ c y G (or_introl eq_refl)) as (Hyn & a & Ha & Ea & Efa & Ho).
  pose proof (ig_app_wf σ HI a Ha) as W.
  destruct Ho as [Hy|(Hi & _)]; [|unfold infl in Hi; rewrite Py in Hi; discriminate].
  pose proof (w3_link a W y Hy Py Lrel) as Hlk. pose proof (G7 n y Hn Hyn) as Ky.
  (* ---- the model *)
  cbn [g_remove_node_allocs] in H. rewrite Efa in H. destruct (negb (no_res a) || oa_preempted y); [discriminate|].
  destruct (N.eqb_spec (oa_release y) 0) as [C|_]; [contradiction|].
  unfold find_obj in H. rewrite (proj2 (find_alloc_none _ _) Hlk) in H.
  destruct (find_alloc (ap_requests a) (oa_release y)) as [r|] eqn:Er; [|discriminate].
  pose proof (Hcross a r Efa Er) as Enr. pose proof (Hquota a r Efa Er) as Hquo. destruct (find_alloc_some _ _ _ Er) as [Hr Ekr].
  destruct (N.eqb_spec (oa_node y) (oa_node r)) as [C|_]; [exfalso; apply Enr; symmetry; exact C|]. rewrite Py in H. cbn [negb andb] in H.
  rewrite (g_find_alloc_in σ a y HI Ha Hy) in H. destruct (oa_ph r) eqn:Pr; [discriminate|]. destruct (oa_allocated r) eqn:Ar; [|discriminate]. cbn [negb orb] in H.
  fold (confirm_app a y TT_PlaceholderReplaced r) in H. set (b := confirm_app a y TT_PlaceholderReplaced r) in *.
  set (s1 := obj_upd (upd_app μ (ap_id a) (fun _ => b)) (ap_id a) (oa_key (oa_set_link r 0)) (fun z => oa_set_link z 0)) in *.
  set (delta := Sub (Some (oa_res r)) (Some (oa_res y))) in *.
  cbn [g_remove_node_allocs] in H.
  (* ---- sizes *)
  destruct (cf_pair σ a y r G1 Ha Hy Py Lrel Hr Ekr Pr Ar) as (_ & Hle & _).
  destruct (cf_x_ok σ a y G1 Ha Hy) as [Wy Ny _ _ _]. destruct (cf_real_ok σ a r G1 Ha Hr) as [Wr Nr _ _ _].
  assert (By : rb (oa_res y)) by (apply (abd_alloc a (bd_apps σ (b3_base σ HBdσ) a Ha) y Hy)).
  assert (Br : rb (oa_res r)) by (apply (abd_req a (bd_apps σ (b3_base σ HBdσ) a Ha) r Hr)).
  destruct (sub_delta_spec _ _ Wr Wy Br By Nr Ny) as (Wd & Bd & Gd). fold delta in Wd, Bd, Gd.
  (* ---- the application stays live *)
  assert (Hin2 : forall μ', s_apps μ' = s_apps s1 -> In b (s_apps μ')).
  { intros μ' E. rewrite E. pose proof (cg_apps1 μ a y r) as Eap1. fold b in Eap1. fold s1 in Eap1. rewrite Eap1. apply (in_updk_const ap_id (s_apps μ) a b b (ig_app_ids σ HI) Ha). auto. }
  assert (Tgen : forall μ', s_apps μ' = s_apps s1 -> NoTerminal μ' -> is_terminal (ap_state (app_remove_alloc a y TT_PlaceholderReplaced)) = false).
  { intros μ' E HT. rewrite app_remove_alloc_terminal. pose proof (HT b (Hin2 μ' E)) as Tb. unfold b in Tb. rewrite confirm_terminal in Tb. exact Tb. }
  (* ---- the queue side *)
  assert (Hcore : forall F, s_apps μ2 = s_apps s1 -> s_nodes μ2 = s_nodes s1 -> s_queues μ2 = path_map σ (ap_queue a) F ->
            s_foreign μ2 = s_foreign μ -> s_nallocs μ2 = s_nallocs μ ->
            (forall q, q_id (F q) = q_id q /\ q_parent (F q) = q_parent q /\ q_leaf (F q) = q_leaf q) ->
            (forall q, In q (s_queues σ) -> In (q_id q) (path_ids σ (ap_queue a)) -> QFacts q (F q) (fun k => getz (oa_res r) k - getz (oa_res y) k) zero3) ->
            exists n', GI id μ2 n' t (c + 0)).
  { intros F E2a E2n E2q E2f E2c Fk FQ. pose proof (Tgen μ2 E2a HT2) as T.
    destruct (confirm_ghost_core μ n c a y r G1 G2 HBdσ Ha Hy Hyn Py Lrel Ky Hr Ekr Pr Ar Enr T μ2 F E2a E2n E2q E2f E2c Fk FQ) as [R1 R2].
    exists (n_remove n (oa_key y)). rewrite Z.add_0_r.
    assert (En : n_remove n (oa_key y) = node_unbound n y) by (unfold n_remove; rewrite (g_find_node_alloc_in σ n y HI Hn Hyn); reflexivity).
    apply (GI_next id μ n y t c μ2 _ c G R1 R2).
    - apply (ghost_bounded μ2 _ c HBd2). rewrite En. apply (rb_node_unbound σ n y HI HBdσ Hn Hyn).
    - rewrite En. reflexivity.
    - intros z. rewrite En. cbn [node_unbound n_with on_allocs]. apply in_del_alloc.
    - apply (keysnz_sub σ); [|exact G7]. intros m' z' [<-|Hm'] Hz'.
      + rewrite En in Hz'. cbn [node_unbound n_with on_allocs] in Hz'. apply in_del_alloc in Hz'. exists n, z'. split; [exact Hn|tauto].
      + rewrite E2n in Hm'. destruct (nodes_sub_obj_upd (upd_app μ (ap_id a) (fun _ => b)) (ap_id a) (oa_key (oa_set_link r 0)) (fun z => oa_set_link z 0) m' z' (fun z => eq_refl) Hm' Hz') as (m0 & z0 & Hm0 & Hz0 & E).
        exists m0, z0. split; [right; exact Hm0|auto]. }
  destruct (HasNegativeValue (Some delta)) eqn:Hneg.
  - destruct (q_try_inc s1 (ap_queue a) delta) as [s'|] eqn:Et.
    + inversion H; subst μ2 da dph; clear H. destruct (q_try_inc_same s1 (ap_queue a) delta s' Et) as [S1 S2 _ S4 _ _ S7 _ _ _].
      apply (Hcore (F_inc delta)); auto.
      * apply (g_q_try_inc_queues σ s1 (ap_queue a) delta eq_refl s' Et).
      * intros q Hq Hin. apply (QFacts_ext q _ (getz delta) zero3); [exact Gd|reflexivity|]. apply F_inc_Q; [apply (g_qok σ q HI G2 HBdσ Hq)|exact Wd|exact Bd|].
        intros k. rewrite Gd. pose proof (g_ph_le_phalloc a y k W (bg_apps σ G2 a Ha) Hy Py). pose proof (g_phalloc_dominated σ a HI G2 Ha q k Hq Hin).
        pose proof (rnonneg_fnonneg _ Nr k). lia.
    + exfalso. apply (Hquo eq_refl). apply (q_try_inc_none_ext s1 μ (ap_queue a) delta eq_refl Et).
  - inversion H; subst μ2 da dph; clear H. apply (Hcore (fun q => q)); auto.
    + exact (eq_sym (path_map_id σ (ap_queue a))).
    + intros q Hq _. apply (QFacts_ext q q zero3 zero3); [|reflexivity|apply QFacts_id, (g_qok σ q HI G2 HBdσ Hq)].
      intros k. unfold zero3. pose proof (no_negative_le _ _ Wr Wy Br By Hneg k). specialize (Hle k). lia. Qed.
