(* C01 over the second fragment: executable forms of the step hypotheses [step_ok2] and a concrete history on which all
   hypotheses of [m_run2_nodes_ledger] / [negative_only_forced2] hold (the sixteen step history of
   Core/Model2ProofsB7.v: application add, ask, resize, scheduling, in-place resize, RM placement, node removal,
   application removal); the hypothesis [update_listed] is necessary ([update_unlisted_refuted]). *)
From Coq Require Import List ZArith NArith Bool Lia ZifyBool.
From YK Require Import Base.Int64 Base.Res Base.ResSpec Base.ResLemmas Core.Obs Core.Model Core.Model2 Core.Ledger
  Core.NodeProofs Core.QueueProofs Core.StepProofs Core.QueueStepProofs Core.LedgerExamples Core.Model2ProofsN Oracles.CoreC01.
Import ListNotations.
Open Scope Z_scope.

Definition res_eq_dec : forall a b : res, {a = b} + {a <> b}.
Proof. apply list_eq_dec. decide equality; [apply Z.eq_dec|apply N.eq_dec]. Defined.
Definition small_zb (z : Z) : bool := (- lim <=? z) && (z <=? lim).
Definition diff_small_b (nr old : res) : bool := forallb (fun k => small_zb (getz nr k - getz old k)) (keys nr ++ keys old).
Lemma diff_small_b_sound nr old : diff_small_b nr old = true -> forall k, small (getz nr k - getz old k).
Proof. unfold diff_small_b. rewrite forallb_forall. intros H k. destruct (in_dec N.eq_dec k (keys nr ++ keys old)) as [Hin|Hni].
  - specialize (H k Hin). unfold small_zb in H. unfold small. lia.
  - rewrite !getz_notin; [apply small_0| |]; intros C; apply Hni; apply in_or_app; auto. Qed.

Definition upd_ok_b (s : ostate) (r : oreq) : bool :=
  match existing_ask s r with
  | Some (a, x) =>
      diff_small_b (oget (rq_res r)) (oa_res x) &&
      match find_node s (oa_node x) with
      | Some n => match find_alloc (on_allocs n) (rq_key r) with
                  | Some old => if res_eq_dec (oa_res old) (oa_res x) then true else false
                  | None => false end
      | None => true
      end
  | None => false
  end.

Definition step_ok2_b (s : ostate) (st : ostep) : bool :=
  match st_op st with
  | OpAlloc r => if upd_allocated s r
                 then wf_b (oget (rq_res r)) && res_small_b (oget (rq_res r)) && upd_ok_b s r
                 else LedgerExamples.step_ok_b s st
  | OpAppRemove _ => allocs_nonneg_b s
  | _ => LedgerExamples.step_ok_b s st
  end.

Lemma step_ok2_b_sound s st : step_ok2_b s st = true -> step_ok2 s st.
Proof. unfold step_ok2_b. intros H. destruct (st_op st) eqn:Eop.
  1-7,9-14: try (apply step_ok_b_sound in H; apply step_ok_ok2; [exact H|unfold update_listed; rewrite Eop; exact I|unfold delta_small; rewrite Eop; exact I|unfold remove_nonneg; rewrite Eop; exact I]).
  - (* OpAppRemove *) split; unfold inputs_ok, bind_key_fresh2, bind_key_fresh, foreign_update_known, update_listed, delta_small, remove_nonneg; rewrite Eop; try exact I.
    apply allocs_nonneg_b_sound. exact H.
  - (* OpAlloc *) destruct (upd_allocated s r) eqn:Eu.
    + rewrite !andb_true_iff in H. destruct H as [[H1 H2] H3]. unfold upd_ok_b in H3.
      destruct (upd_allocated_true _ _ Eu) as (Hnf & a & x & Ee & Hal). rewrite Ee in H3. apply andb_true_iff in H3. destruct H3 as [H3 H4].
      split; unfold inputs_ok, bind_key_fresh2, foreign_update_known, update_listed, delta_small, remove_nonneg; rewrite Eop; try exact I.
      * split; [apply wf_b_sound|apply res_small_b_sound]; assumption.
      * rewrite Eu. exact I.
      * intros C. congruence.
      * intros _ a' x' n Ee' En. rewrite Ee in Ee'. inversion Ee'; subst a' x'. rewrite En in H4.
        destruct (find_alloc (on_allocs n) (rq_key r)) as [old|]; [|discriminate]. exists old. split; [reflexivity|].
        destruct (res_eq_dec (oa_res old) (oa_res x)); [assumption|discriminate].
      * intros _ a' x' Ee'. rewrite Ee in Ee'. inversion Ee'; subst a' x'. apply diff_small_b_sound. exact H3.
    + apply step_ok_b_sound in H. apply step_ok_ok2; [exact H|unfold update_listed; rewrite Eop, Eu; discriminate|unfold delta_small; rewrite Eop, Eu; discriminate|unfold remove_nonneg; rewrite Eop; exact I]. Qed.

Fixpoint run_ok2_b (deny : list (N * N)) (s : ostate) (steps : list ostep) : bool :=
  match steps with
  | [] => true
  | st :: t => LedgerExamples.bounded_b s && step_ok2_b s st && match m_step2 deny s st with Some s' => run_ok2_b deny s' t | None => true end
  end.
Lemma run_ok2_b_sound deny steps : forall s, run_ok2_b deny s steps = true -> run_ok2 deny s steps.
Proof. induction steps as [|st t IH]; intros s H; [exact I|]. cbn [run_ok2_b run_ok2] in *. rewrite !andb_true_iff in H.
  destruct H as [[H1 H2] H3]. split; [apply bounded_b_sound; assumption|]. split; [apply step_ok2_b_sound; assumption|].
  destruct (m_step2 deny s st); [apply IH; assumption|exact I]. Qed.

(* ------------------------------------------------------------------ the history *)
Definition n2_queue (id parent : N) (leaf : bool) : oqueue :=
  mkOQ id parent leaf true QS_Active None None [] [] [] 0%N 0%N [] [] [].
Definition n2_s0 : ostate :=
  mkOS [] [] [n2_queue 1 0 false; n2_queue 2 1 false; n2_queue 3 2 true; n2_queue 4 1 true] None 0 0 0 [] [] [] [].
Definition n2_step (o : oop) (evs : list oevent) : ostep := mkStep o false evs [] false false n2_s0.
Definition n2_req (key app node : N) (r : res) : oreq := mkReq key app node (Some r) 0 false 0%N 0%N false false false false true.
Definition n2_steps : list ostep :=
  [ n2_step (OpNodeAdd 1 [(1%N, 1000); (2%N, 16)] false) [];
    n2_step (OpNodeAdd 2 [(1%N, 500); (2%N, 8)] false) [];
    n2_step (OpAppAdd 1 3 1 false false None false 0 None) [];
    n2_step (OpAppAdd 2 4 1 false false None false 0 None) [];
    n2_step (OpAlloc (n2_req 10 1 0 [(1%N, 100); (2%N, 2)])) [];
    n2_step (OpAlloc (n2_req 10 1 0 [(1%N, 120); (2%N, 2)])) [];
    n2_step OpSched [ENewAlloc 10 1 1 [(1%N, 120); (2%N, 2)] false];
    n2_step (OpAlloc (n2_req 10 1 1 [(1%N, 150); (2%N, 3)])) [];
    n2_step (OpAlloc (n2_req 11 2 0 [(1%N, 50)])) [];
    n2_step (OpAlloc (n2_req 11 2 2 [(1%N, 60); (2%N, 1)])) [];
    n2_step (OpAlloc (n2_req 12 1 0 [(2%N, 1)])) [];
    n2_step (OpFirePh 1) [];
    n2_step (OpNodeRemove 2) [];
    n2_step (OpFireState 2) [];
    n2_step (OpAppRemove 1) [];
    n2_step (OpAppRemove 2) [] ].

Example n2_run_hyps : SInv n2_s0 /\ run_ok2 [] n2_s0 n2_steps /\ length (m_run2 [] n2_s0 n2_steps) = 16%nat.
Proof. split; [apply sinv_b_sound; vm_compute; reflexivity|]. split; [apply run_ok2_b_sound; vm_compute; reflexivity|].
  vm_compute. reflexivity. Qed.
Example n2_run_ledger : forall s', In s' (m_run2 [] n2_s0 n2_steps) -> nodes_ledger_ok s' = true.
Proof. destruct n2_run_hyps as (H1 & H2 & _). apply (m_run2_nodes_ledger [] n2_steps n2_s0 H1 H2). Qed.
Example n2_run_ledger_direct : forallb nodes_ledger_ok (m_run2 [] n2_s0 n2_steps) = true /\
  map (fun s => map on_available (s_nodes s)) (skipn 9 (m_run2 [] n2_s0 n2_steps)) =
    [ [[(1%N, 850); (2%N, 13)]; [(1%N, 440); (2%N, 7)]]; [[(1%N, 850); (2%N, 13)]; [(1%N, 440); (2%N, 7)]];
      [[(1%N, 850); (2%N, 13)]; [(1%N, 440); (2%N, 7)]]; [[(1%N, 850); (2%N, 13)]]; [[(1%N, 850); (2%N, 13)]];
      [[(1%N, 1000); (2%N, 16)]]; [[(1%N, 1000); (2%N, 16)]] ].
Proof. vm_compute. split; reflexivity. Qed.

(* hypotheses of negative_only_forced2 on the application removal (step 15) *)
Example n2_negative_hyps :
  let s := last (m_run2 [] n2_s0 (firstn 14 n2_steps)) n2_s0 in
  SInv s /\ Bounded s /\ allocs_nonneg s /\ no_negative s /\ forced_node_change (OpAppRemove 1) = false /\
  exists s', m_step2 [] s (n2_step (OpAppRemove 1) []) = Some s' /\ m_step [] s (n2_step (OpAppRemove 1) []) = None.
Proof. cbv zeta. split; [apply sinv_b_sound; vm_compute; reflexivity|]. split; [apply bounded_b_sound; vm_compute; reflexivity|].
  split; [apply allocs_nonneg_b_sound; vm_compute; reflexivity|]. split.
  - intros n Hn. vm_compute in Hn. destruct Hn as [<-|[]]. vm_compute. reflexivity.
  - split; [reflexivity|]. eexists. split; vm_compute; reflexivity. Qed.

(* ------------------------------------------------------------------ [update_listed] is necessary *)
(* the allocated ask left behind by a TIMEOUT release is not listed by its node: the in-place update adds the
   difference to the node's allocated ledger, which no longer is the sum of the listed allocations *)
Definition n2_stale_steps : list ostep :=
  [ n2_step (OpNodeAdd 1 [(1%N, 1000); (2%N, 16)] false) [];
    n2_step (OpAppAdd 1 3 1 false false None false 0 None) [];
    n2_step (OpAlloc (n2_req 10 1 0 [(1%N, 100)])) [];
    n2_step OpSched [ENewAlloc 10 1 1 [(1%N, 100)] false];
    n2_step (OpRelease 1 10 TT_Timeout) [];
    n2_step (OpAlloc (n2_req 10 1 1 [(1%N, 150)])) [] ].
Theorem update_unlisted_refuted :
  exists s st s', SInv s /\ Bounded s /\ inputs_ok st /\ bind_key_fresh2 s st /\ foreign_update_known s st /\ delta_small s st /\
    remove_nonneg s st /\ m_step2 [] s st = Some s' /\ nodes_ledger_ok s = true /\ nodes_ledger_ok s' = false.
Proof. exists (last (m_run2 [] n2_s0 (firstn 5 n2_stale_steps)) n2_s0), (n2_step (OpAlloc (n2_req 10 1 1 [(1%N, 150)])) []). eexists.
  split; [apply sinv_b_sound; vm_compute; reflexivity|]. split; [apply bounded_b_sound; vm_compute; reflexivity|].
  split; [split; [apply wf_b_sound|apply res_small_b_sound]; vm_compute; reflexivity|].
  split; [vm_compute; exact I|]. split; [intros C; discriminate|]. split.
  - intros _ a x Ee. vm_compute in Ee. inversion Ee; subst a x. apply diff_small_b_sound. vm_compute. reflexivity.
  - split; [exact I|]. split; [vm_compute; reflexivity|]. split; vm_compute; reflexivity. Qed.
