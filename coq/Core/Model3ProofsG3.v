(* C03 over the gang fragment (Core/Model3.v), generic layer, part 3: changes of the shared Allocation object.
   [obj_upd s app k f] (Core/Model3.v) applies f to every copy of the object (app, k).  Under [InvG] it is the uniform
   record map [rmap (hk app k f) s] ([obj_upd_rmap]); for a uniform map h that keeps key, application, node, resource,
   placeholder flag and origin of every record:
     [rmap_invg]   : InvG is kept when the link / allocated-flag clauses L1..L4 hold for the mapped records;
     [rmap_booksg] : BooksG is kept when moreover the allocated flag of requests (M1) and the in-flight test of the
                     records the nodes list (M2) are unchanged.
   [flag_step]: f changes neither of them (released / preempted flags ...) => InvG and BooksG are kept, without further
   hypotheses; [release_marks_step] for the fold of Core/Model3.v. *)
From Coq Require Import List ZArith NArith Bool Lia ZifyBool.
From YK Require Import Base.Int64 Base.Res Base.ResSpec Base.ResLemmas Base.ResLaws Base.ResLaws2 Base.ResLawsPred
  Core.Obs Core.Model Core.Model2 Core.Model3 Core.Ledger
  Core.BooksLemmas Core.BooksDefs Core.BooksTree Core.BooksQueue Core.BooksApp Core.BooksState Core.BooksDrain Core.BooksOps
  Core.BooksOps2 Core.Model2ProofsB1 Core.Model2ProofsB2 Core.Model3ProofsD Core.Model3ProofsG1 Core.Model3ProofsG2.
Import ListNotations.
Open Scope Z_scope.
Set Default Timeout 30.

(* ------------------------------------------------------------------ the uniform record map *)
Definition rmap_app (h : oalloc -> oalloc) (a : oapp) : oapp := ap_set_lists a (map h (ap_requests a)) (map h (ap_allocs a)).
Definition rmap_node (h : oalloc -> oalloc) (n : onode) : onode :=
  n_with n (on_occupied n) (on_allocated n) (on_available n) (map h (on_allocs n)) (on_foreign n).
Definition rmap (h : oalloc -> oalloc) (s : ostate) : ostate :=
  set_nodes (set_apps s (map (rmap_app h) (s_apps s))) (map (rmap_node h) (s_nodes s)).
(* the map [obj_upd] applies *)
Definition hk (app k : N) (f : oalloc -> oalloc) (y : oalloc) : oalloc :=
  if ((oa_key y =? k) && (oa_app y =? app))%N then f y else y.
Lemma hk_hit app k f y : oa_key y = k -> oa_app y = app -> hk app k f y = f y.
Proof. intros <- <-. unfold hk. rewrite !N.eqb_refl. reflexivity. Qed.
Lemma hk_other app k f y : oa_key y <> k \/ oa_app y <> app -> hk app k f y = y.
Proof. intros H. unfold hk. destruct (N.eqb_spec (oa_key y) k), (N.eqb_spec (oa_app y) app); cbn [andb]; try reflexivity. tauto. Qed.

Lemma ap_set_lists_same a : ap_set_lists a (ap_requests a) (ap_allocs a) = a. Proof. destruct a. reflexivity. Qed.
Lemma n_with_same n : n_with n (on_occupied n) (on_allocated n) (on_available n) (on_allocs n) (on_foreign n) = n.
Proof. destruct n. reflexivity. Qed.
Lemma map_id_in {A} (g : A -> A) l : (forall x, In x l -> g x = x) -> map g l = l.
Proof. intros H. rewrite <- (map_id l) at 2. apply map_ext_in. assumption. Qed.

Lemma obj_upd_rmap s app k f : (forall a x, In a (s_apps s) -> In x (app_records a) -> oa_app x = ap_id a) ->
  obj_upd s app k f = rmap (hk app k f) s.
Proof. intros Happ. unfold obj_upd, rmap, set_nodes, set_apps, upd_app. cbn [s_nodes s_apps s_queues s_total s_nallocs s_nph s_nres s_foreign s_completed s_rejected s_ugm].
  f_equal. apply map_ext_in. intros a Ha. destruct (N.eqb_spec (ap_id a) app) as [E|E].
  - unfold rmap_app, map_key. f_equal; apply map_ext_in; intros y Hy; unfold hk;
      rewrite (Happ a y Ha) by (apply in_records; auto); rewrite E, N.eqb_refl, andb_true_r; reflexivity.
  - unfold rmap_app. rewrite !map_id_in; [symmetry; apply ap_set_lists_same| |]; intros y Hy; apply hk_other; right;
      rewrite (Happ a y Ha) by (apply in_records; auto); assumption. Qed.
Lemma obj_upd_rmapG s app k f : InvG s -> obj_upd s app k f = rmap (hk app k f) s.
Proof. intros HI. apply obj_upd_rmap. intros a x Ha Hx. apply (g_record_app s a x HI Ha Hx). Qed.

(* the state after the map *)
Lemma rmap_apps h s : s_apps (rmap h s) = map (rmap_app h) (s_apps s). Proof. reflexivity. Qed.
Lemma rmap_nodes h s : s_nodes (rmap h s) = map (rmap_node h) (s_nodes s). Proof. reflexivity. Qed.
Lemma rmap_queues h s : s_queues (rmap h s) = s_queues s. Proof. reflexivity. Qed.
Lemma rmap_foreign h s : s_foreign (rmap h s) = s_foreign s. Proof. reflexivity. Qed.
Lemma rmap_nallocs h s : s_nallocs (rmap h s) = s_nallocs s. Proof. reflexivity. Qed.
Lemma in_rmap_apps h s a' : In a' (s_apps (rmap h s)) <-> exists a, In a (s_apps s) /\ a' = rmap_app h a.
Proof. rewrite rmap_apps, in_map_iff. split; intros (a & H1 & H2); exists a; auto. Qed.
Lemma in_rmap_nodes h s n' : In n' (s_nodes (rmap h s)) <-> exists n, In n (s_nodes s) /\ n' = rmap_node h n.
Proof. rewrite rmap_nodes, in_map_iff. split; intros (n & H1 & H2); exists n; auto. Qed.
Lemma rmap_app_records h a : app_records (rmap_app h a) = map h (app_records a).
Proof. unfold app_records, rmap_app. cbn [ap_set_lists ap_with ap_requests ap_allocs]. rewrite map_app. reflexivity. Qed.
Lemma node_records_rmap h s : node_records (rmap h s) = map h (node_records s).
Proof. unfold node_records. rewrite rmap_nodes. generalize (s_nodes s). intros l. induction l as [|n t IH]; [reflexivity|].
  cbn [map flat_map]. rewrite map_app, IH. reflexivity. Qed.
Lemma length_all_allocs_rmap h s : length (all_allocs (rmap h s)) = length (all_allocs s).
Proof. unfold all_allocs. rewrite rmap_apps. generalize (s_apps s). intros l. induction l as [|a t IH]; [reflexivity|].
  cbn [map flat_map]. rewrite !app_length, IH. unfold rmap_app. cbn [ap_set_lists ap_with ap_allocs]. rewrite map_length. reflexivity. Qed.

Section RMap.
  Variables (s : ostate) (h : oalloc -> oalloc).
  Hypothesis HI : InvG s.
  Hypothesis Hkey : forall y, oa_key (h y) = oa_key y.
  Hypothesis Happ : forall y, oa_app (h y) = oa_app y.
  Hypothesis Hnode : forall y, oa_node (h y) = oa_node y.
  Hypothesis Hres : forall y, oa_res (h y) = oa_res y.
  Hypothesis Hph : forall y, oa_ph (h y) = oa_ph y.
  Hypothesis Hfor : forall y, oa_foreign (h y) = oa_foreign y.

  Lemma akeys_map l : akeys (map h l) = akeys l.
  Proof. unfold akeys. rewrite map_map. apply map_ext. exact Hkey. Qed.
  Lemma asum_map l k : asum (map h l) k = asum l k.
  Proof. unfold asum. rewrite map_map. f_equal. apply map_ext. exact Hres. Qed.
  Lemma allocok_map id y : AllocOK3 id y -> AllocOK3 id (h y).
  Proof. intros [A1 A2 A3 A4 A5]. constructor; rewrite ?Hres, ?Happ, ?Hfor; assumption. Qed.

  (* the clauses that mention the link or the allocated flag *)
  Hypothesis L1 : forall a x, In a (s_apps s) -> In x (ap_allocs a) -> oa_ph x = false -> oa_release (h x) = 0%N.
  Hypothesis L2 : forall a r, In a (s_apps s) -> In r (ap_requests a) -> oa_allocated (h r) = false -> ~ In (oa_key r) (akeys (ap_allocs a)).
  Hypothesis L3 : forall a x, In a (s_apps s) -> In x (ap_allocs a) -> oa_ph x = true -> oa_release (h x) <> 0%N ->
                    ~ In (oa_release (h x)) (akeys (ap_allocs a)).
  Hypothesis L4 : forall y, In y (node_records s) -> infl y = true -> oa_allocated y = true -> infl (h y) = true /\ oa_allocated (h y) = true.

  Lemma rmap_app_wf a : In a (s_apps s) -> AppWF3 (rmap_app h a).
  Proof. intros Ha. destruct (ig_app_wf s HI a Ha) as [W1 W2 W3 W4 W5 W6 W7 W8 W9 W10]. unfold rmap_app.
    constructor; cbn [ap_set_lists ap_with ap_id ap_requests ap_allocs ap_pending ap_allocated ap_phalloc]; rewrite ?akeys_map; auto.
    - intros x' Hx'. apply in_map_iff in Hx'. destruct Hx' as (x & <- & Hx). apply allocok_map. auto.
    - intros x' Hx'. apply in_map_iff in Hx'. destruct Hx' as (x & <- & Hx). apply allocok_map. auto.
    - intros x' Hx'. apply in_map_iff in Hx'. destruct Hx' as (x & <- & Hx). rewrite Hph. apply (L1 a x Ha Hx).
    - intros r' Hr'. apply in_map_iff in Hr'. destruct Hr' as (r & <- & Hr). rewrite Hkey. apply (L2 a r Ha Hr).
    - intros x' Hx'. apply in_map_iff in Hx'. destruct Hx' as (x & <- & Hx). rewrite Hph. apply (L3 a x Ha Hx). Qed.
  Lemma rmap_node_ok n : In n (s_nodes s) -> NodeOK3 (rmap_node h n).
  Proof. intros Hn. destruct (ig_nodes s HI n Hn) as [K1 K2 K3 K4]. unfold rmap_node.
    constructor; cbn [n_with on_id on_allocs on_allocated]; rewrite ?akeys_map; auto.
    - intros y' Hy'. apply in_map_iff in Hy'. destruct Hy' as (y & <- & Hy). rewrite Hnode. auto.
    - intros k. rewrite asum_map. apply K3. Qed.
  Lemma rmap_ownedby a y : In y (node_records s) -> OwnedBy a y -> OwnedBy (rmap_app h a) (h y).
  Proof. intros Hy [Ho|(H1 & H2 & H3 & H4)]; unfold OwnedBy, rmap_app; cbn [ap_set_lists ap_with ap_requests ap_allocs].
    - left. apply in_map. assumption.
    - right. destruct (L4 y Hy H1 H3) as [E1 E2]. rewrite akeys_map, Hkey. repeat split; auto. apply in_map. assumption. Qed.

  Theorem rmap_invg : InvG (rmap h s).
  Proof. constructor.
    - rewrite rmap_apps, map_map. cbn. apply (ig_app_ids s HI).
    - rewrite rmap_nodes, map_map. cbn. apply (ig_node_ids s HI).
    - apply (tree_same s (rmap h s) (rmap_queues h s)). apply (ig_tree s HI).
    - intros a' Ha'. apply in_rmap_apps in Ha'. destruct Ha' as (a & Ha & ->). destruct (ig_app_leaf s HI a Ha) as (q & E & L).
      exists q. rewrite (find_queue_ext (rmap h s) s _ (rmap_queues h s)). auto.
    - intros a' Ha'. apply in_rmap_apps in Ha'. destruct Ha' as (a & Ha & ->). apply rmap_app_wf. assumption.
    - rewrite rmap_queues. apply (ig_q_wf s HI).
    - intros a1' a2' x1' x2' H1 H2 Hx1 Hx2 E. apply in_rmap_apps in H1, H2. destruct H1 as (a1 & H1 & ->). destruct H2 as (a2 & H2 & ->).
      rewrite rmap_app_records in Hx1, Hx2. apply in_map_iff in Hx1, Hx2. destruct Hx1 as (x1 & <- & Hx1). destruct Hx2 as (x2 & <- & Hx2).
      rewrite !Hkey in E. apply (ig_keys s HI a1 a2 x1 x2 H1 H2 Hx1 Hx2 E).
    - intros f a' x' Hf Ha' Hx'. rewrite rmap_foreign in Hf. apply in_rmap_apps in Ha'. destruct Ha' as (a & Ha & ->).
      rewrite rmap_app_records in Hx'. apply in_map_iff in Hx'. destruct Hx' as (x & <- & Hx). rewrite Hkey. apply (ig_foreign s HI f a x Hf Ha Hx).
    - intros n' Hn'. apply in_rmap_nodes in Hn'. destruct Hn' as (n & Hn & ->). apply rmap_node_ok. assumption.
    - intros n' y' Hn' Hy'. apply in_rmap_nodes in Hn'. destruct Hn' as (n & Hn & ->). cbn [rmap_node n_with on_allocs] in Hy'.
      apply in_map_iff in Hy'. destruct Hy' as (y & <- & Hy). destruct (ig_owned s HI n y Hn Hy) as (a & Ha & E & Ho).
      exists (rmap_app h a). split; [apply in_rmap_apps; eauto|]. split; [rewrite Happ; exact E|].
      apply rmap_ownedby; [|exact Ho]. apply in_node_records. eauto.
    - intros a' x' Ha' Hx'. apply in_rmap_apps in Ha'. destruct Ha' as (a & Ha & ->). cbn [rmap_app ap_set_lists ap_with ap_allocs] in Hx'.
      apply in_map_iff in Hx'. destruct Hx' as (x & <- & Hx). destruct (ig_onnode s HI a x Ha Hx) as (n & Hn & E & Hxn).
      exists (rmap_node h n). split; [apply in_rmap_nodes; eauto|]. split; [rewrite Hnode; exact E|]. cbn [rmap_node n_with on_allocs]. apply in_map. assumption.
    - rewrite rmap_nallocs, length_all_allocs_rmap. apply (ig_count s HI). Qed.

  Hypothesis HB : BooksG s.
  Hypothesis M1 : forall a r, In a (s_apps s) -> In r (ap_requests a) -> oa_allocated (h r) = oa_allocated r.
  Hypothesis M2 : forall y, In y (node_records s) -> infl (h y) = infl y.

  Lemma rmap_app_books a : In a (s_apps s) -> AppBooks (rmap_app h a).
  Proof. intros Ha. destruct (bg_apps s HB a Ha) as [B1 B2 B3 B4 B5 B6].
    constructor; unfold rmap_app, real_allocs, ph_allocs, pending_asks;
      cbn [ap_set_lists ap_with ap_requests ap_allocs ap_pending ap_allocated ap_phalloc]; auto; intros k.
    - rewrite (filter_map_comm (fun x => negb (oa_ph x)) h) by (intros x; rewrite Hph; reflexivity). rewrite asum_map. apply B1.
    - rewrite (filter_map_comm oa_ph h) by (intros x; apply Hph). rewrite asum_map. apply B2.
    - rewrite (filter_map_comm_in (fun x => negb (oa_allocated x)) h) by (intros x Hx; rewrite (M1 a x Ha Hx); reflexivity).
      rewrite asum_map. apply B3. Qed.

  Theorem rmap_booksg : BooksG (rmap h s).
  Proof. constructor.
    - intros a' Ha'. apply in_rmap_apps in Ha'. destruct Ha' as (a & Ha & ->). apply rmap_app_books. assumption.
    - intros q Hq. rewrite rmap_queues in Hq. apply (queue_books_same s (rmap h s) (rmap_queues h s)); [|apply (bg_queues s HB q Hq)].
      intros f qid k Hf. unfold apps_of_queue. rewrite rmap_apps, (filter_map_comm _ (rmap_app h)) by reflexivity.
      rewrite map_map. destruct Hf as [->|[->| ->]]; reflexivity.
    - intros r Er k. change (root_queue (rmap h s)) with (root_queue s) in Er. rewrite node_records_rmap.
      rewrite (filter_map_comm_in ninfl h) by (intros y Hy; unfold ninfl; rewrite (M2 y Hy); reflexivity).
      rewrite asum_map. apply (bg_root s HB r Er k). Qed.
End RMap.

(* ================================================================== flags *)
(* f changes neither identity, resource, placeholder flag, allocated flag nor link of a record *)
Record FlagOnly (f : oalloc -> oalloc) : Prop := mkFO {
  fo_key : forall y, oa_key (f y) = oa_key y;
  fo_app : forall y, oa_app (f y) = oa_app y;
  fo_node : forall y, oa_node (f y) = oa_node y;
  fo_res : forall y, oa_res (f y) = oa_res y;
  fo_ph : forall y, oa_ph (f y) = oa_ph y;
  fo_foreign : forall y, oa_foreign (f y) = oa_foreign y;
  fo_allocated : forall y, oa_allocated (f y) = oa_allocated y;
  fo_release : forall y, oa_release (f y) = oa_release y }.
Lemma flag_only_released b : FlagOnly (fun y => oa_set_released y b).
Proof. constructor; reflexivity. Qed.
Lemma flag_only_hk app k f : FlagOnly f -> FlagOnly (hk app k f).
Proof. intros [F1 F2 F3 F4 F5 F6 F7 F8]. constructor; intros y; unfold hk; destruct (_ && _); auto. Qed.
Lemma flag_only_infl f y : FlagOnly f -> infl (f y) = infl y.
Proof. intros F. unfold infl. rewrite (fo_ph f F), (fo_release f F). reflexivity. Qed.

Theorem rmap_flag_step s h : InvG s -> BooksG s -> FlagOnly h -> InvG (rmap h s) /\ BooksG (rmap h s).
Proof. intros HI HB F. pose proof F as [F1 F2 F3 F4 F5 F6 F7 F8].
  assert (L1 : forall a x, In a (s_apps s) -> In x (ap_allocs a) -> oa_ph x = false -> oa_release (h x) = 0%N).
  { intros a x Ha Hx Hp. rewrite F8. apply (w3_real_nolink a (ig_app_wf s HI a Ha) x Hx Hp). }
  assert (L2 : forall a r, In a (s_apps s) -> In r (ap_requests a) -> oa_allocated (h r) = false -> ~ In (oa_key r) (akeys (ap_allocs a))).
  { intros a r Ha Hr. rewrite F7. apply (w3_pending_fresh a (ig_app_wf s HI a Ha) r Hr). }
  assert (L3 : forall a x, In a (s_apps s) -> In x (ap_allocs a) -> oa_ph x = true -> oa_release (h x) <> 0%N -> ~ In (oa_release (h x)) (akeys (ap_allocs a))).
  { intros a x Ha Hx. rewrite F8. apply (w3_link a (ig_app_wf s HI a Ha) x Hx). }
  assert (L4 : forall y, In y (node_records s) -> infl y = true -> oa_allocated y = true -> infl (h y) = true /\ oa_allocated (h y) = true).
  { intros y _ Hi Hal. rewrite (flag_only_infl h y F), F7. auto. }
  split.
  - apply (rmap_invg s h HI F1 F2 F3 F4 F5 F6 L1 L2 L3 L4).
  - apply (rmap_booksg s h F4 F5 HB); [intros; apply F7|intros; apply flag_only_infl; assumption]. Qed.

(* [obj_upd] with a function that changes flags only: settles g_cancel_larger, g_fire_state, case 1 of g_fire_ph *)
Theorem flag_step s app k f : InvG s -> BooksG s -> FlagOnly f -> InvG (obj_upd s app k f) /\ BooksG (obj_upd s app k f).
Proof. intros HI HB F. rewrite (obj_upd_rmapG s app k f HI). apply rmap_flag_step; auto. apply flag_only_hk. assumption. Qed.
Corollary released_step s app k b : InvG s -> BooksG s ->
  InvG (obj_upd s app k (fun y => oa_set_released y b)) /\ BooksG (obj_upd s app k (fun y => oa_set_released y b)).
Proof. intros HI HB. apply flag_step; auto. apply flag_only_released. Qed.
Theorem release_marks_step l : forall s app, InvG s -> BooksG s -> InvG (release_marks s app l) /\ BooksG (release_marks s app l).
Proof. unfold release_marks. induction l as [|x t IH]; intros s app HI HB; [cbn; auto|]. cbn [fold_left].
  destruct (oa_preempted x); [apply IH; assumption|]. destruct (released_step s app (oa_key x) true HI HB) as [HI1 HB1]. apply IH; assumption. Qed.
(* what [obj_upd] with a flag-only function leaves alone *)
Lemma obj_upd_frame s app k f : s_queues (obj_upd s app k f) = s_queues s /\ s_foreign (obj_upd s app k f) = s_foreign s /\
  s_nallocs (obj_upd s app k f) = s_nallocs s /\ s_nph (obj_upd s app k f) = s_nph s /\ s_total (obj_upd s app k f) = s_total s /\
  s_completed (obj_upd s app k f) = s_completed s /\ s_nres (obj_upd s app k f) = s_nres s.
Proof. repeat split; reflexivity. Qed.
Lemma obj_upd_apps s app k f : s_apps (obj_upd s app k f) =
  updk ap_id (s_apps s) app (fun a => ap_set_lists a (map_key k f (ap_requests a)) (map_key k f (ap_allocs a))).
Proof. reflexivity. Qed.
Lemma obj_upd_nodes s app k f : s_nodes (obj_upd s app k f) = map (rmap_node (hk app k f)) (s_nodes s).
Proof. reflexivity. Qed.

(* ================================================================== links and the allocated flag *)
(* f keeps everything but the link ([oa_set_link]) resp. the allocated flag ([oa_set_allocated]) *)
Record CoreOnly (f : oalloc -> oalloc) : Prop := mkCO {
  co_key : forall y, oa_key (f y) = oa_key y;
  co_app : forall y, oa_app (f y) = oa_app y;
  co_node : forall y, oa_node (f y) = oa_node y;
  co_res : forall y, oa_res (f y) = oa_res y;
  co_ph : forall y, oa_ph (f y) = oa_ph y;
  co_foreign : forall y, oa_foreign (f y) = oa_foreign y }.
Lemma core_only_link l : CoreOnly (fun y => oa_set_link y l). Proof. constructor; reflexivity. Qed.
Lemma core_only_allocated b : CoreOnly (fun y => oa_set_allocated y b). Proof. constructor; reflexivity. Qed.
Lemma core_only_hk app k f : CoreOnly f -> CoreOnly (hk app k f).
Proof. intros [F1 F2 F3 F4 F5 F6]. constructor; intros y; unfold hk; destruct (_ && _); auto. Qed.

(* the object (app, k) changes by f; the clauses to re-establish are stated for the records with that key only *)
Section ObjUpd.
  Variables (s : ostate) (a : oapp) (k : N) (f : oalloc -> oalloc).
  Hypothesis HI : InvG s.
  Hypothesis Ha : In a (s_apps s).
  Hypothesis F : CoreOnly f.
  (* as an allocation of a (if it is one) *)
  Hypothesis O1 : forall x, In x (ap_allocs a) -> oa_key x = k -> oa_ph x = false -> oa_release (f x) = 0%N.
  Hypothesis O3 : forall x, In x (ap_allocs a) -> oa_key x = k -> oa_ph x = true -> oa_release (f x) <> 0%N ->
                    ~ In (oa_release (f x)) (akeys (ap_allocs a)).
  (* as a request of a (if it is one) *)
  Hypothesis O2 : forall r, In r (ap_requests a) -> oa_key r = k -> oa_allocated (f r) = false -> ~ In k (akeys (ap_allocs a)).
  Hypothesis O4 : forall r, In r (ap_requests a) -> oa_key r = k -> infl r = true -> oa_allocated r = true -> ~ In k (akeys (ap_allocs a)) ->
                    infl (f r) = true /\ oa_allocated (f r) = true.

  Let h := hk (ap_id a) k f.
  Lemma ou_hit b y : In b (s_apps s) -> In y (app_records b) -> h y <> y -> b = a /\ oa_key y = k /\ h y = f y.
  Proof. intros Hb Hy Hne. unfold h, hk in *. destruct (N.eqb_spec (oa_key y) k) as [E1|E1]; [|contradiction].
    destruct (N.eqb_spec (oa_app y) (ap_id a)) as [E2|E2]; [|contradiction]. cbn [andb] in *. split; [|auto].
    apply (g_same_app s a b HI Ha Hb). rewrite <- (g_record_app s b y HI Hb Hy). assumption. Qed.
  Lemma ou_dec y : {h y = y} + {h y = f y /\ oa_key y = k /\ oa_app y = ap_id a}.
  Proof. unfold h, hk. destruct (N.eqb_spec (oa_key y) k) as [E1|E1]; [|left; reflexivity].
    destruct (N.eqb_spec (oa_app y) (ap_id a)) as [E2|E2]; [right; auto|left; reflexivity]. Qed.

  Theorem obj_upd_invg : InvG (obj_upd s (ap_id a) k f).
  Proof. rewrite (obj_upd_rmapG s (ap_id a) k f HI). pose proof (core_only_hk (ap_id a) k f F) as C. change (CoreOnly h) in C. destruct C as [H1 H2 H3 H4 H5 H6]. change (hk (ap_id a) k f) with h.
    apply (rmap_invg s h HI H1 H2 H3 H4 H5 H6).
    - intros b x Hb Hx Hp. destruct (ou_dec x) as [E|(E & Ek & Eap)]; rewrite E.
      + apply (w3_real_nolink b (ig_app_wf s HI b Hb) x Hx Hp).
      + assert (b = a) by (apply (g_same_app s a b HI Ha Hb); rewrite <- (g_record_app s b x HI Hb); [assumption|apply in_records; auto]).
        subst b. apply (O1 x Hx Ek Hp).
    - intros b r Hb Hr. destruct (ou_dec r) as [E|(E & Ek & Eap)]; rewrite E.
      + apply (w3_pending_fresh b (ig_app_wf s HI b Hb) r Hr).
      + assert (b = a) by (apply (g_same_app s a b HI Ha Hb); rewrite <- (g_record_app s b r HI Hb); [assumption|apply in_records; auto]).
        subst b. rewrite Ek. apply (O2 r Hr Ek).
    - intros b x Hb Hx Hp. destruct (ou_dec x) as [E|(E & Ek & Eap)]; rewrite E.
      + apply (w3_link b (ig_app_wf s HI b Hb) x Hx Hp).
      + assert (b = a) by (apply (g_same_app s a b HI Ha Hb); rewrite <- (g_record_app s b x HI Hb); [assumption|apply in_records; auto]).
        subst b. apply (O3 x Hx Ek Hp).
    - intros y Hy Hi Hal. destruct (ou_dec y) as [E|(E & Ek & Eap)]; rewrite E; [auto|].
      apply in_node_records in Hy. destruct Hy as (n & Hn & Hy).
      destruct (g_owner s n y a HI Hn Hy Ha (eq_sym Eap)) as [Ho|(_ & Hr & _ & Hk)].
      + exfalso. pose proof (ig_app_wf s HI a Ha) as W. unfold infl in Hi. destruct (oa_ph y) eqn:Ep; [discriminate|].
        rewrite (w3_real_nolink a W y Ho Ep) in Hi. discriminate.
      + rewrite Ek in Hk. apply (O4 y Hr Ek Hi Hal Hk). Qed.

  (* the books: nothing else is needed when requests keep the allocated flag and node records keep the in-flight test *)
  Hypothesis HB : BooksG s.
  Hypothesis P1 : forall r, In r (ap_requests a) -> oa_key r = k -> oa_allocated (f r) = oa_allocated r.
  Hypothesis P2 : forall y, In y (node_records s) -> oa_key y = k -> oa_app y = ap_id a -> infl (f y) = infl y.
  Theorem obj_upd_booksg : BooksG (obj_upd s (ap_id a) k f).
  Proof. rewrite (obj_upd_rmapG s (ap_id a) k f HI). pose proof (core_only_hk (ap_id a) k f F) as C. change (CoreOnly h) in C. destruct C as [H1 H2 H3 H4 H5 H6]. change (hk (ap_id a) k f) with h.
    apply (rmap_booksg s h H4 H5 HB).
    - intros b r Hb Hr. destruct (ou_dec r) as [E|(E & Ek & Eap)]; rewrite E; [reflexivity|].
      assert (b = a) by (apply (g_same_app s a b HI Ha Hb); rewrite <- (g_record_app s b r HI Hb); [assumption|apply in_records; auto]).
      subst b. apply (P1 r Hr Ek).
    - intros y Hy. destruct (ou_dec y) as [E|(E & Ek & Eap)]; rewrite E; [reflexivity|]. apply (P2 y Hy Ek Eap). Qed.
End ObjUpd.
