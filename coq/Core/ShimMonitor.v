(* Property C04 - the allocation protocol as the shim sees it.
   A monitor automaton over the interleaved stream of shim requests and core events. It keeps ONLY what a shim
   can know from the SI traffic: which applications / nodes it submitted and which answers it got, which
   allocation keys it submitted (asks, recovered allocations), which keys are bound, which releases the core
   announced and the shim has not confirmed. It never looks at core state.
   Definitions only; proofs are in Core/ShimMonitorProofs.v. The oracle Oracles/CoreC04.v runs `mon_run` on the
   recorded traffic of the real scheduler.

   Protocol facts taken from the code (context.go / partition.go), not from a wish list:
   * processAllocations echoes an allocation the shim sent WITH a node (recovered allocation, or the shim binding
     one of its own asks) as a new allocation in the same request: that echo is the binding announcement.
   * a Replaced scheduling result is announced as release(placeholder, PLACEHOLDER_REPLACED); the new-allocation
     message of the real ask comes when the shim confirms that release (processAllocationReleases).
   * releases with TIMEOUT / PREEMPTED_BY_SCHEDULER / PLACEHOLDER_REPLACED are announcements the shim confirms by
     sending the same release back; STOPPED_BY_RM releases are final (node or application removal by the shim,
     or the echo of a release the shim asked for) and are never confirmed.
   * a shim release (any termination type) of a key ends that key from the shim's side at the end of the request;
     the core may echo it once with STOPPED_BY_RM inside the request. *)
From Coq Require Import List ZArith NArith Bool.
From YK Require Import Base.Res Core.Obs.
Import ListNotations.
Open Scope N_scope.

Inductive item :=
| IReq (op : oop)       (* the shim (or the environment: scheduling cycle, timer) starts a request *)
| IEv (e : oevent)      (* a message of the core to the shim *)
| IEnd.                 (* the request has been processed completely (the harness is synchronous) *)

Definition trace_of_step (st : ostep) : list item := IReq (st_op st) :: map IEv (st_events st) ++ [IEnd].
Definition trace_of (h : ohistory) : list item := flat_map trace_of_step (h_steps h).

(* ---- association lists ---- *)
Fixpoint lk {A} (m : list (N * A)) (k : N) : option A :=
  match m with [] => None | (k', v) :: t => if k' =? k then Some v else lk t k end.
Fixpoint upd {A} (m : list (N * A)) (k : N) (v : A) : list (N * A) :=
  match m with
  | [] => [(k, v)]
  | (k', v') :: t => if k' =? k then (k, v) :: t else (k', v') :: upd t k v
  end.
Definition mapv {A} (f : A -> A) (m : list (N * A)) : list (N * A) := map (fun p => (fst p, f (snd p))) m.

(* ---- what the shim knows about one allocation key ---- *)
Definition K_Gone := 0. Definition K_Out := 1. Definition K_Bound := 2.
Record kinfo := mkK {
  k_app : N;
  k_st : N;          (* K_Gone: released / rejected / never submitted; K_Out: outstanding ask; K_Bound *)
  k_node : N;        (* bound node; while k_pin: the node the shim named *)
  k_pin : bool;      (* the shim named the node in the current request: the echo must come inside this request *)
  k_ann : list N;    (* termination types announced by the core, not yet confirmed by the shim *)
  k_rel : bool;      (* the shim releases the key in the current request: gone at its end *)
  k_echo : bool;     (* the echo of that release has been seen *)
  k_new : bool }.    (* created by the current request: a rejection removes it *)
Definition k_none : kinfo := mkK 0 K_Gone 0 false [] false false false.

Record ainfo := mkA { a_live : bool; a_await : bool }.   (* application or node id: accepted and not removed / answer pending *)
Definition a_none : ainfo := mkA false false.

Record mstate := mkM {
  m_apps : list (N * ainfo); m_nodes : list (N * ainfo); m_keys : list (N * kinfo);
  m_cur : option oop;     (* the request being processed *)
  m_rej : bool }.         (* its allocation has been rejected already *)
Definition mon_init : mstate := mkM [] [] [] None false.

Definition kget (m : mstate) (k : N) : kinfo := match lk (m_keys m) k with Some i => i | None => k_none end.
Definition aget (l : list (N * ainfo)) (k : N) : ainfo := match lk l k with Some i => i | None => a_none end.
Definition set_key (m : mstate) (k : N) (i : kinfo) : mstate := mkM (m_apps m) (m_nodes m) (upd (m_keys m) k i) (m_cur m) (m_rej m).
Definition set_keys (m : mstate) (ks : list (N * kinfo)) : mstate := mkM (m_apps m) (m_nodes m) ks (m_cur m) (m_rej m).
Definition set_app (m : mstate) (a : N) (i : ainfo) : mstate := mkM (upd (m_apps m) a i) (m_nodes m) (m_keys m) (m_cur m) (m_rej m).
Definition set_node (m : mstate) (n : N) (i : ainfo) : mstate := mkM (m_apps m) (upd (m_nodes m) n i) (m_keys m) (m_cur m) (m_rej m).
Definition set_cur (m : mstate) (c : option oop) (r : bool) : mstate := mkM (m_apps m) (m_nodes m) (m_keys m) c r.

Definition k_live (i : kinfo) : bool := negb (k_st i =? K_Gone).
Definition mark_rel (i : kinfo) : kinfo := mkK (k_app i) (k_st i) (k_node i) (k_pin i) (k_ann i) true (k_echo i) (k_new i).
(* all live keys of an application are being released by the shim *)
Definition rel_app (app : N) (i : kinfo) : kinfo := if (k_app i =? app) && k_live i then mark_rel i else i.

(* removeAllocation: a release with TIMEOUT removes an allocation but leaves an ask alone ("the release that is
   processed now is a confirmation"): it ends an outstanding ask only when the core announced that timeout *)
Definition rel_applies (ty : N) (i : kinfo) : bool :=
  negb (ty =? TT_Timeout) || (k_st i =? K_Bound) || memN TT_Timeout (k_ann i).
Definition rel_app_ty (app ty : N) (i : kinfo) : kinfo := if (k_app i =? app) && k_live i && rel_applies ty i then mark_rel i else i.
(* the core reported the application Completed / Failed / Expired: it holds nothing of it any more. The report may
   precede the release messages of the same request (node removal, echo of a shim release), so the keys end with
   the request, like keys the shim releases *)
Definition end_app (app : N) (i : kinfo) : kinfo := rel_app app i.
Definition terminal_state (s : N) : bool := (s =? ST_Completed) || (s =? ST_Failed) || (s =? ST_Expired).

(* verdicts: the error number is the oracle sub-kind (4xx) *)
Inductive mres := MOk (m : mstate) | MErr (code : N).

(* ---- a request of the shim ---- *)
Definition req_step (m0 : mstate) (op : oop) : mstate :=
  let m := set_cur m0 (Some op) false in
  match op with
  | OpAppAdd id _ _ _ _ _ _ _ _ => set_app m id (mkA (a_live (aget (m_apps m) id)) true)
  | OpAppRemove id =>
      if a_live (aget (m_apps m) id)
      then set_keys (set_app m id (mkA false (a_await (aget (m_apps m) id)))) (mapv (rel_app id) (m_keys m))
      else m
  | OpNodeAdd id _ _ => set_node m id (mkA (a_live (aget (m_nodes m) id)) true)
  | OpNodeRemove id => if a_live (aget (m_nodes m) id) then set_node m id (mkA false (a_await (aget (m_nodes m) id))) else m
  | OpAlloc r =>
      if rq_foreign r then m else
      let i := kget m (rq_key r) in
      if k_live i then
        if (k_app i =? rq_app r) && (k_st i =? K_Out) && negb (rq_node r =? 0)
        then set_key m (rq_key r) (mkK (k_app i) K_Out (rq_node r) true (k_ann i) (k_rel i) (k_echo i) (k_new i))
        else if (k_st i =? K_Out) && negb (match k_ann i with [] => true | _ => false end) && (rq_node r =? 0)
        (* the core has announced the release of this outstanding ask (a placeholder ask dropped by the placeholder
           timeout, ...): the ask is gone on the core's side, so a request under the same key is a new submission *)
        then set_key m (rq_key r) (mkK (rq_app r) K_Out 0 false [] false false true)
        else m
      else set_key m (rq_key r) (mkK (rq_app r) K_Out (rq_node r) (negb (rq_node r =? 0)) [] false false true)
  | OpRelease app key ty =>
      if app =? 0 then m else
      if key =? 0 then set_keys m (mapv (rel_app_ty app ty) (m_keys m)) else
      let i := kget m key in
      if k_live i && (k_app i =? app) && rel_applies ty i then set_key m key (mark_rel i) else m
  | _ => m
  end.

(* ---- a message of the core ---- *)
Definition ev_step (m : mstate) (e : oevent) : mres :=
  match e with
  | ENewAlloc k app node _ _ =>
      let i := kget m k in
      if k_st i =? K_Bound then MErr 404 else
      if negb (k_live i) || negb (k_app i =? app) || k_rel i || negb (match k_ann i with [] => true | _ => false end) then MErr 401 else
      if negb (a_live (aget (m_apps m) app)) then MErr 402 else
      if negb (a_live (aget (m_nodes m) node)) then MErr 403 else
      if k_pin i && negb (k_node i =? node) then MErr 405 else
      MOk (set_key m k (mkK (k_app i) K_Bound node false [] false false false))
  | ERelease k app ty =>
      let i := kget m k in
      if negb (k_live i) || negb (k_app i =? app) then MErr 406 else
      if (ty =? TT_StoppedByRM) || (ty =? TT_Unknown) then
        if k_rel i then
          if k_echo i then MErr 406
          else MOk (set_key m k (mkK (k_app i) (k_st i) (k_node i) (k_pin i) (k_ann i) true true (k_new i)))
        else MOk (set_key m k (mkK (k_app i) K_Gone (k_node i) false [] false false false))
      else MOk (set_key m k (mkK (k_app i) (k_st i) (k_node i) (k_pin i) (if memN ty (k_ann i) then k_ann i else ty :: k_ann i) (k_rel i) (k_echo i) (k_new i)))
  | EAppAccepted a =>
      if a_await (aget (m_apps m) a) then MOk (set_app m a (mkA true false)) else MErr 407
  | EAppRejected a =>
      if a_await (aget (m_apps m) a) then MOk (set_app m a (mkA (a_live (aget (m_apps m) a)) false)) else MErr 407
  | ENodeAccepted n =>
      if a_await (aget (m_nodes m) n) then MOk (set_node m n (mkA true false)) else MErr 408
  | ENodeRejected n =>
      if a_await (aget (m_nodes m) n) then MOk (set_node m n (mkA (a_live (aget (m_nodes m) n)) false)) else MErr 408
  | EAllocRejected k app =>
      match m_cur m with
      | Some (OpAlloc r) =>
          if (rq_key r =? k) && (rq_app r =? app) && negb (m_rej m) then
            let m1 := set_cur m (m_cur m) true in
            let i := kget m1 k in
            if negb (rq_foreign r) && k_new i && (k_st i =? K_Out)
            then MOk (set_key m1 k (mkK (k_app i) K_Gone (k_node i) false [] false false false))
            else if negb (rq_foreign r) && k_pin i && (k_st i =? K_Out)
            then MOk (set_key m1 k (mkK (k_app i) K_Out 0 false (k_ann i) (k_rel i) (k_echo i) (k_new i)))
            else MOk m1
          else MErr 410
      | _ => MErr 410
      end
  | EAppUpdated a s =>
      if terminal_state s
      then MOk (set_keys (set_app m a (mkA false (a_await (aget (m_apps m) a)))) (mapv (end_app a) (m_keys m)))
      else MOk m
  end.

(* ---- the end of a request ---- *)
Definition end_key (i : kinfo) : kinfo :=
  mkK (k_app i) (if k_rel i then K_Gone else k_st i) (k_node i) false (if k_rel i then [] else k_ann i) false false false.
Definition end_step (m : mstate) : mres :=
  if existsb (fun p => a_await (snd p)) (m_apps m) || existsb (fun p => a_await (snd p)) (m_nodes m) then MErr 409 else
  if existsb (fun p => k_pin (snd p) && (k_st (snd p) =? K_Out) && negb (k_rel (snd p))) (m_keys m) then MErr 411 else
  MOk (mkM (m_apps m) (m_nodes m) (mapv end_key (m_keys m)) None false).

Definition mon_step (m : mstate) (it : item) : mres :=
  match it with
  | IReq op => MOk (req_step m op)
  | IEv e => ev_step m e
  | IEnd => end_step m
  end.

Fixpoint mon_run (m : mstate) (t : list item) : mres :=
  match t with
  | [] => MOk m
  | it :: r => match mon_step m it with MOk m' => mon_run m' r | MErr c => MErr c end
  end.

Definition monitor_ok (t : list item) : bool := match mon_run mon_init t with MOk _ => true | MErr _ => false end.

(* ---- vocabulary of the theorems ---- *)
Definition is_bind (k : N) (it : item) : bool :=
  match it with IEv (ENewAlloc k' _ _ _ _) => k' =? k | _ => false end.
(* items that can end a binding of key k from the shim's side: a release of k announced by the core, a release of k
   (or of everything of an application) requested by the shim, the removal of an application, the report that an
   application reached a terminal state (blanket items are counted for every key: the statement stays true and simple) *)
Definition may_release (k : N) (it : item) : bool :=
  match it with
  | IEv (ERelease k' _ _) => k' =? k
  | IReq (OpRelease _ k' _) => (k' =? k) || (k' =? 0)
  | IReq (OpAppRemove _) => true
  | IEv (EAppUpdated _ s) => terminal_state s
  | _ => false
  end.
Definition is_ask_for (k app : N) (it : item) : bool :=
  match it with IReq (OpAlloc r) => (rq_key r =? k) && (rq_app r =? app) && negb (rq_foreign r) | _ => false end.
Definition is_app_answer (a : N) (it : item) : bool :=
  match it with IEv (EAppAccepted x) => x =? a | IEv (EAppRejected x) => x =? a | _ => false end.
Definition is_app_submit (a : N) (it : item) : bool :=
  match it with IReq (OpAppAdd x _ _ _ _ _ _ _ _) => x =? a | _ => false end.
Definition is_node_answer (n : N) (it : item) : bool :=
  match it with IEv (ENodeAccepted x) => x =? n | IEv (ENodeRejected x) => x =? n | _ => false end.
Definition is_node_submit (n : N) (it : item) : bool :=
  match it with IReq (OpNodeAdd x _ _) => x =? n | _ => false end.
