(* C03 over the gang fragment (Core/Model3.v): the hypotheses of the gang theorems are satisfiable, and two of them are
   necessary.  All states are reached from the EMPTY partition over the three level queue tree of Core/BooksExamples.v.

   [ex3_steps] (15 steps, predicate table [ex3_deny] = the real ask 21 is denied on node 2): two nodes; a Hard gang
   application asking for 2 x {100,2}; two placeholder asks of task group 1; placeholder 10 scheduled on node 1 (timer armed),
   placeholder 11 on node 2 (application Running); a real ask 20 of {60,1} (first fragment); replacement of placeholder 10
   by ask 20 started on the SAME node; confirmed by the shim (queue / application / node 1 drop by {40,1}); a real ask 21;
   replacement of placeholder 11 (node 2) started on the OTHER node 1 because the predicate denies (21, node 2): node 1
   holds 20 and the in-flight 21, node 2 still the placeholder; confirmed (queues drop by {40,1}, node 2 is empty);
   allocation 20 released; application removed while holding 21: everything is zero.
   [to3_steps] (7 steps): a Hard gang application whose second placeholder never fits; the placeholder timer fires
   (Accepted -> Failing, asks removed); the shim confirms the TIMEOUT release: Failing -> Failed, the application leaves
   the live list with empty hands.
   [nr3_steps] (11 steps): as [ex3_steps] up to the allocated placeholders; the replacement of placeholder 11 is started on
   the other node and node 2 is removed while it is in flight: the removal confirms it.
   Every step is covered by [m_step3]; [invg2_b] (invariant + link relation), the oracle [c03_state] and the step hypotheses hold in every state
   ([run3_ok_b]); the observation of every step of the example histories is the state the model computes.

   Necessity (witnesses, all other hypotheses hold along the run):
   [term_ok_refuted]: a Failing application that holds a placeholder AND a real allocation; the shim confirms the
     placeholder first: the application terminates, the node keeps the real allocation (303, 305, 306).
   [key_fresh3_allocs_refuted]: after the placeholder timeout the request map is empty while the placeholder is still
     allocated; a new ask re-using its key is accepted (fresh among the REQUESTS) and, once scheduled, overwrites the
     placeholder in the allocation map: application books (301) and node ledger break. *)
From Coq Require Import List ZArith NArith Bool Lia ZifyBool.
From YK Require Import Base.Int64 Base.Res Base.ResSpec Base.ResLemmas Core.Obs Core.Model Core.Model2 Core.Model3 Core.Ledger
  Core.BooksLemmas Core.BooksDefs Core.BooksProofs Core.BooksCheck Core.BooksExamples Core.Model2ProofsB6
  Core.Model3ProofsD Core.Model3ProofsD2 Core.Model3ProofsC1 Oracles.CoreC01.
Import ListNotations.
Open Scope Z_scope.

(* ------------------------------------------------------------------ building blocks *)
Definition ex3_s0 : ostate := init_state ex_queues.
Definition g_req (key app : N) (r : res) (ph : bool) (tg : N) : oreq :=
  mkReq key app 0%N (Some r) 0 ph tg 0%N false false false false true.
Definition g_step (o : oop) (evs : list oevent) : ostep := mkStep o false evs [] false false ex3_s0.
(* the part of an observed post-state a replacement decision is read from: the placeholder's link names the real ask,
   the real ask's node names the node *)
Definition dec_alloc (key rel node : N) : oalloc := mkOA key 0%N node [] false 0%N false false false rel 0%N 0 false false false false.
Definition dec_obs (app phk rk node : N) : ostate :=
  mkOS [] [mkOApp app 0%N 0%N 0%N [] [] [] [] [dec_alloc rk 0%N node] [dec_alloc phk rk 0%N] [] [] [] false false false false]
       [] None 0 0 0 [] [] [] [].
Definition g_swap (app phk rk node : N) : ostep :=
  mkStep OpSched false [ERelease phk app TT_PlaceholderReplaced] [] false false (dec_obs app phk rk node).

(* the states a run goes through, and the same history with every observation replaced by the model's state *)
Fixpoint run3_states (deny : list (N * N)) (s : ostate) (l : list ostep) : list ostate :=
  match l with
  | [] => []
  | st :: t => match m_step3 deny s st with Some s' => s' :: run3_states deny s' t | None => [] end
  end.
Fixpoint fill_obs (deny : list (N * N)) (s : ostate) (l : list ostep) : list ostep :=
  match l with
  | [] => []
  | st :: t => match m_step3 deny s st with
               | Some s' => mkStep (st_op st) (st_malformed st) (st_events st) (st_preds st) (st_panic st) (st_err st) s'
                            :: fill_obs deny s' t
               | None => st :: t
               end
  end.

(* ------------------------------------------------------------------ example 1: two replacements *)
Definition PH : res := [(1%N, 100); (2%N, 2)].
Definition RL : res := [(1%N, 60); (2%N, 1)].
Definition ex3_deny : list (N * N) := [(21%N, 2%N)].
Definition ex3_raw : list ostep :=
  [ g_step (OpNodeAdd 1 [(1%N, 1000); (2%N, 16)] false) [];
    g_step (OpNodeAdd 2 [(1%N, 500); (2%N, 8)] false) [];
    g_step (OpAppAdd 1 3 1 false false (Some [(1%N, 200); (2%N, 4)]) true 0 None) [EAppAccepted 1];
    g_step (OpAlloc (g_req 10 1 PH true 1)) [];                           (* placeholder asks of task group 1 *)
    g_step (OpAlloc (g_req 11 1 PH true 1)) [];
    g_step OpSched [ENewAlloc 10 1 1 PH true];                             (* placeholder 10 on node 1 *)
    g_step OpSched [ENewAlloc 11 1 2 PH true; EAppUpdated 1 ST_Running];   (* placeholder 11 on node 2 *)
    g_step (OpAlloc (g_req 20 1 RL false 1)) [];                          (* real ask, smaller than the placeholder *)
    g_swap 1 10 20 1;                                                      (* replacement started on the same node *)
    g_step (OpRelease 1 10 TT_PlaceholderReplaced) [];                     (* confirmed *)
    g_step (OpAlloc (g_req 21 1 RL false 1)) [];
    g_swap 1 11 21 1;                                                      (* (21, node 2) denied: started on node 1 *)
    g_step (OpRelease 1 11 TT_PlaceholderReplaced) [];                     (* confirmed *)
    g_step (OpRelease 1 20 TT_StoppedByRM) [];
    g_step (OpAppRemove 1) [] ].
Definition ex3_steps : list ostep := Eval vm_compute in fill_obs ex3_deny ex3_s0 ex3_raw.

Example ex3_covered : m_run3_len ex3_deny ex3_s0 ex3_steps = length ex3_steps /\ length ex3_steps = 15%nat.
Proof. vm_compute. auto. Qed.
(* every observation of the history is the state the model computes (the decision of both replacements is read from it) *)
Example ex3_obs_consistent : map st_obs ex3_steps = run3_states ex3_deny ex3_s0 ex3_steps.
Proof. vm_compute. reflexivity. Qed.
(* which fragment answers: first (1), second (2), gang (3) *)
Definition answered_by (deny : list (N * N)) (s : ostate) (st : ostep) : N :=
  match m_step deny s st, m_step2 deny s st, m_step_gang deny s st with
  | Some _, _, _ => 1%N | None, Some _, _ => 2%N | None, None, Some _ => 3%N | None, None, None => 0%N end.
Example ex3_fragments :
  map (fun p => answered_by ex3_deny (fst p) (snd p)) (combine (ex3_s0 :: map st_obs ex3_steps) ex3_steps) =
  [1; 1; 3; 3; 3; 3; 3; 1; 3; 3; 1; 3; 3; 1; 2]%N.
Proof. vm_compute. reflexivity. Qed.

Example ex3_invg0_b : invg_b ex3_s0 = true /\ invg2_b ex3_s0 = true. Proof. vm_compute. auto. Qed.
Example ex3_invg0 : InvG ex3_s0. Proof. apply invg_b_spec. apply ex3_invg0_b. Qed.
Example ex3_invg2_0 : InvG2 ex3_s0. Proof. apply invg2_b_spec. apply ex3_invg0_b. Qed.
Example ex3_oracle0 : c03_state ex3_s0 = []. Proof. vm_compute. reflexivity. Qed.
Example ex3_books0 : Books ex3_s0. Proof. apply books_reflect. exact ex3_oracle0. Qed.
Example ex3_booksg0 : BooksG ex3_s0. Proof. apply booksg_b_spec; vm_compute; reflexivity. Qed.

Example ex3_run_ok_b : run3_ok_b ex3_deny ex3_s0 ex3_steps = true. Proof. vm_compute. reflexivity. Qed.
Example ex3_run_ok : RunOK3 ex3_deny ex3_s0 ex3_steps. Proof. apply run3_ok_b_spec. exact ex3_run_ok_b. Qed.
Example ex3_run_good : RunGood3 ex3_deny ex3_s0 ex3_steps. Proof. apply run3_ok_b_good. exact ex3_run_ok_b. Qed.
Example ex3_end : InvG2 (m_run3 ex3_deny ex3_s0 ex3_steps) /\ Books (m_run3 ex3_deny ex3_s0 ex3_steps).
Proof. apply run3_ok_b_final; [exact ex3_run_ok_b|apply ex3_covered]. Qed.
(* the pointwise root ledger ([BooksG]) holds in every state as well *)
Example ex3_rootg_all : forallb rootg_b (ex3_s0 :: map st_obs ex3_steps) = true.
Proof. vm_compute. reflexivity. Qed.
(* [LinkOK] is not vacuous: in the two in-flight states a placeholder carries a link, in the second one node 1 lists the
   real half of the replacement *)
Example ex3_inflight :
  let s9 := m_run3 ex3_deny ex3_s0 (firstn 9 ex3_steps) in
  let s12 := m_run3 ex3_deny ex3_s0 (firstn 12 ex3_steps) in
  linkok_b s9 = true /\ linkok_b s12 = true /\
  map (fun x => (oa_key x, oa_release x, oa_released x)) (all_allocs s9) = [(11, 0, false); (10, 20, true)]%N /\
  map (fun x => (oa_key x, oa_release x, oa_released x)) (all_allocs s12) = [(20, 0, false); (11, 21, true)]%N /\
  map (fun x => (oa_key x, oa_node x, oa_release x)) (filter infl (node_records s9)) = [] /\
  map (fun x => (oa_key x, oa_node x, oa_release x)) (filter infl (node_records s12)) = [(21, 1, 11)]%N.
Proof. vm_compute. repeat split. Qed.
Example ex3_drained :
  let s := m_run3 ex3_deny ex3_s0 ex3_steps in
  s_apps s = [] /\ c03_state s = [] /\ s_nallocs s = 0 /\ s_nph s = 0 /\ map on_allocated (s_nodes s) = [[]; []] /\
  map on_allocs (s_nodes s) = [[]; []] /\ map q_alloc (s_queues s) = [[]; []; []; []] /\ map q_pending (s_queues s) = [[]; []; []; []].
Proof. vm_compute. repeat split. Qed.

(* the ledgers along the way *)
Definition app1 (s : ostate) : option (N * res * res * res) :=
  option_map (fun a => (ap_state a, ap_pending a, ap_allocated a, ap_phalloc a)) (find_app s 1).
Example ex3_values :
  let s7 := m_run3 ex3_deny ex3_s0 (firstn 7 ex3_steps) in      (* both placeholders allocated *)
  let s9 := m_run3 ex3_deny ex3_s0 (firstn 9 ex3_steps) in      (* first replacement in flight, same node *)
  let s10 := m_run3 ex3_deny ex3_s0 (firstn 10 ex3_steps) in    (* ... confirmed *)
  let s12 := m_run3 ex3_deny ex3_s0 (firstn 12 ex3_steps) in    (* second replacement in flight, other node *)
  let s13 := m_run3 ex3_deny ex3_s0 (firstn 13 ex3_steps) in    (* ... confirmed *)
  app1 s7 = Some (ST_Running, [], [], [(1%N, 200); (2%N, 4)]) /\
  map q_alloc (s_queues s7) = [[(1%N, 200); (2%N, 4)]; [(1%N, 200); (2%N, 4)]; [(1%N, 200); (2%N, 4)]; []] /\
  map on_allocated (s_nodes s7) = [PH; PH] /\ (s_nallocs s7, s_nph s7) = (2, 2) /\
  (* in flight on the same node: pending taken, nothing else moved *)
  app1 s9 = Some (ST_Running, [], [], [(1%N, 200); (2%N, 4)]) /\ map on_allocated (s_nodes s9) = [PH; PH] /\
  (* confirmed: application 60/1 real + 100/2 placeholder, queues 160/3, node 1 holds the real allocation *)
  app1 s10 = Some (ST_Running, [], RL, PH) /\
  map q_alloc (s_queues s10) = [[(1%N, 160); (2%N, 3)]; [(1%N, 160); (2%N, 3)]; [(1%N, 160); (2%N, 3)]; []] /\
  map on_allocated (s_nodes s10) = [RL; PH] /\ (s_nallocs s10, s_nph s10) = (2, 1) /\
  (* in flight on the other node: node 1 holds 20 and 21, node 2 still the placeholder; queues unchanged *)
  app1 s12 = Some (ST_Running, [], RL, PH) /\
  map q_alloc (s_queues s12) = [[(1%N, 160); (2%N, 3)]; [(1%N, 160); (2%N, 3)]; [(1%N, 160); (2%N, 3)]; []] /\
  map on_allocated (s_nodes s12) = [[(1%N, 120); (2%N, 2)]; PH] /\
  map (fun n => akeys (on_allocs n)) (s_nodes s12) = [[21; 20]%N; [11%N]] /\
  (* confirmed: application 120/2 real, queues 120/2, node 2 empty *)
  app1 s13 = Some (ST_Running, [], [(1%N, 120); (2%N, 2)], []) /\
  map q_alloc (s_queues s13) = [[(1%N, 120); (2%N, 2)]; [(1%N, 120); (2%N, 2)]; [(1%N, 120); (2%N, 2)]; []] /\
  map on_allocated (s_nodes s13) = [[(1%N, 120); (2%N, 2)]; []] /\ (s_nallocs s13, s_nph s13) = (2, 0) /\
  c03_state s12 = [] /\ c03_state s13 = [].
Proof. vm_compute. repeat split. Qed.

(* ------------------------------------------------------------------ example 2: the placeholder timeout *)
Definition P1 : res := [(1%N, 100)].
Definition R1 : res := [(1%N, 60)].
Definition to3_raw : list ostep :=
  [ g_step (OpNodeAdd 1 [(1%N, 150); (2%N, 16)] false) [];
    g_step (OpAppAdd 2 4 1 false false (Some [(1%N, 200)]) true 0 None) [EAppAccepted 2];
    g_step (OpAlloc (g_req 30 2 P1 true 1)) [];
    g_step (OpAlloc (g_req 31 2 P1 true 1)) [];                           (* never fits: the node has 150 *)
    g_step OpSched [ENewAlloc 30 2 1 P1 true];
    g_step (OpFirePh 2) [EAppUpdated 2 ST_Failing; ERelease 30 2 TT_Timeout];
    g_step (OpRelease 2 30 TT_Timeout) [] ].
Definition to3_steps : list ostep := Eval vm_compute in fill_obs [] ex3_s0 to3_raw.

Example to3_covered : m_run3_len [] ex3_s0 to3_steps = length to3_steps /\ length to3_steps = 7%nat.
Proof. vm_compute. auto. Qed.
Example to3_obs_consistent : map st_obs to3_steps = run3_states [] ex3_s0 to3_steps.
Proof. vm_compute. reflexivity. Qed.
Example to3_run_ok_b : run3_ok_b [] ex3_s0 to3_steps = true. Proof. vm_compute. reflexivity. Qed.
Example to3_run_ok : RunOK3 [] ex3_s0 to3_steps. Proof. apply run3_ok_b_spec. exact to3_run_ok_b. Qed.
Example to3_run_good : RunGood3 [] ex3_s0 to3_steps. Proof. apply run3_ok_b_good. exact to3_run_ok_b. Qed.
Example to3_values :
  let s5 := m_run3 [] ex3_s0 (firstn 5 to3_steps) in
  let s6 := m_run3 [] ex3_s0 (firstn 6 to3_steps) in
  let s7 := m_run3 [] ex3_s0 to3_steps in
  (* one placeholder allocated, one pending, timer armed *)
  map (fun a => (ap_state a, ap_pending a, ap_phalloc a, ap_phtimer a, akeys (ap_requests a), akeys (ap_allocs a))) (s_apps s5)
    = [(ST_Accepted, P1, P1, true, [30; 31]%N, [30%N])] /\
  (* fired: Failing, the request map is empty, the placeholder is still allocated (released flag set) *)
  map (fun a => (ap_state a, ap_pending a, ap_phalloc a, ap_phtimer a, akeys (ap_requests a), map oa_released (ap_allocs a))) (s_apps s6)
    = [(ST_Failing, [], P1, false, [], [true])] /\
  map q_pending (s_queues s6) = [[]; []; []; []] /\ map q_alloc (s_queues s6) = [P1; []; []; P1] /\
  (* confirmed: Failed, moved to the completed list without allocations; all ledgers zero *)
  s_apps s7 = [] /\ map (fun a => (ap_id a, ap_state a, ap_allocs a, ap_statetimer a)) (s_completed s7) = [(2%N, ST_Failed, [], true)] /\
  map q_alloc (s_queues s7) = [[]; []; []; []] /\ map on_allocated (s_nodes s7) = [[]] /\ (s_nallocs s7, s_nph s7) = (0, 0) /\
  c03_state s7 = [].
Proof. vm_compute. repeat split. Qed.

(* ------------------------------------------------------------------ example 3: node removal confirms an in-flight replacement *)
(* both placeholders allocated; the replacement of placeholder 11 (node 2) by ask 21 is started on node 1; node 2 is
   removed: removeNodeAllocations confirms the replacement (the queues drop by {40,1}; the stale request 11 stays behind);
   the application is removed *)
Definition nr3_raw : list ostep :=
  firstn 7 ex3_raw ++
  [ g_step (OpAlloc (g_req 21 1 RL false 1)) [];
    g_swap 1 11 21 1;
    g_step (OpNodeRemove 2) [ERelease 11 1 TT_PlaceholderReplaced];
    g_step (OpAppRemove 1) [] ].
Definition nr3_steps : list ostep := Eval vm_compute in fill_obs ex3_deny ex3_s0 nr3_raw.
Example nr3_covered : m_run3_len ex3_deny ex3_s0 nr3_steps = length nr3_steps /\ length nr3_steps = 11%nat.
Proof. vm_compute. auto. Qed.
Example nr3_obs_consistent : map st_obs nr3_steps = run3_states ex3_deny ex3_s0 nr3_steps.
Proof. vm_compute. reflexivity. Qed.
Example nr3_run_ok_b : run3_ok_b ex3_deny ex3_s0 nr3_steps = true. Proof. vm_compute. reflexivity. Qed.
Example nr3_run_ok : RunOK3 ex3_deny ex3_s0 nr3_steps. Proof. apply run3_ok_b_spec. exact nr3_run_ok_b. Qed.
Example nr3_values :
  let s9 := m_run3 ex3_deny ex3_s0 (firstn 9 nr3_steps) in
  let s10 := m_run3 ex3_deny ex3_s0 (firstn 10 nr3_steps) in
  let s11 := m_run3 ex3_deny ex3_s0 nr3_steps in
  app1 s9 = Some (ST_Running, [], [], [(1%N, 200); (2%N, 4)]) /\ map on_allocated (s_nodes s9) = [[(1%N, 160); (2%N, 3)]; PH] /\
  map q_alloc (s_queues s9) = [[(1%N, 200); (2%N, 4)]; [(1%N, 200); (2%N, 4)]; [(1%N, 200); (2%N, 4)]; []] /\
  app1 s10 = Some (ST_Running, [], RL, PH) /\ map on_allocated (s_nodes s10) = [[(1%N, 160); (2%N, 3)]] /\
  map q_alloc (s_queues s10) = [[(1%N, 160); (2%N, 3)]; [(1%N, 160); (2%N, 3)]; [(1%N, 160); (2%N, 3)]; []] /\
  map (fun a => (akeys (ap_requests a), akeys (ap_allocs a))) (s_apps s10) = [([21; 11; 10]%N, [21; 10]%N)] /\
  s_total s10 = Some [(1%N, 1000); (2%N, 16)] /\ c03_state s10 = [] /\
  s_apps s11 = [] /\ c03_state s11 = [] /\ s_nallocs s11 = 0 /\ map on_allocated (s_nodes s11) = [[]].
Proof. vm_compute. repeat split. Qed.

(* ------------------------------------------------------------------ necessity *)
(* the hypotheses of a run with the per-step check as a parameter *)
Fixpoint run3_hyp_b (chk : ostate -> ostep -> bool) (deny : list (N * N)) (s : ostate) (steps : list ostep) : bool :=
  match steps with
  | [] => true
  | st :: t => bounded3_b s && chk s st && step_ok2if_b deny s st &&
               match m_step3 deny s st with Some s' => run3_hyp_b chk deny s' t | None => true end
  end.
(* [StepOK3] without [TermOK] *)
Definition step_noterm_b (s : ostate) (st : ostep) : bool := match st_op st with OpAlloc r => req_ok3_b s r | _ => true end.
(* [StepOK3] with the key of a new ask fresh among the requests (and foreign allocations) only: [ReqOK] of the first fragments *)
Definition step_reqfresh_b (s : ostate) (st : ostep) : bool :=
  match st_op st with OpAlloc r => req_ok_b s r | _ => step_ok3_b s st end.

(* (a) TermOK.  A Hard gang application: placeholder 30 is replaced by the real allocation 40 while the application is
   still Accepted; placeholder 31 is allocated (the timer is armed again); the timer fires: Failing, both 31 and 40 are
   marked released.  The shim confirms the placeholder first. *)
Definition term_steps : list ostep :=
  [ g_step (OpNodeAdd 1 [(1%N, 1000); (2%N, 16)] false) [];
    g_step (OpAppAdd 2 4 1 false false (Some [(1%N, 200)]) true 0 None) [EAppAccepted 2];
    g_step (OpAlloc (g_req 30 2 P1 true 1)) [];
    g_step (OpAlloc (g_req 31 2 P1 true 1)) [];
    g_step OpSched [ENewAlloc 30 2 1 P1 true];
    g_step (OpAlloc (g_req 40 2 R1 false 1)) [];
    g_swap 2 30 40 1;
    g_step (OpRelease 2 30 TT_PlaceholderReplaced) [];
    g_step OpSched [ENewAlloc 31 2 1 P1 true];
    g_step (OpFirePh 2) [EAppUpdated 2 ST_Failing; ERelease 31 2 TT_Timeout; ERelease 40 2 TT_Timeout] ].
(* the observation of the last step is NOT the model's post-state: with it the step is the trigger of the recorded
   known finding "terminated with allocations" (Core/Ledger.v, trigger 4) and [m_step_gang] refuses it *)
Definition term_last : ostep := g_step (OpRelease 2 31 TT_Timeout) [].
Definition term_pre : ostate := Eval vm_compute in m_run3 [] ex3_s0 term_steps.

Theorem term_ok_refuted :
  exists s st s',
    (* the pre-state is reached from the empty partition by a covered run satisfying every hypothesis *)
    s = m_run3 [] ex3_s0 term_steps /\ m_run3_len [] ex3_s0 term_steps = length term_steps /\ run3_ok_b [] ex3_s0 term_steps = true /\
    invg2_b s = true /\ c03_state s = [] /\ rootg_b s = true /\ bounded3_b s = true /\
    (* a Failing application holding one placeholder and one real allocation *)
    map (fun a => (ap_state a, map (fun x => (oa_key x, oa_ph x)) (ap_allocs a))) (s_apps s) = [(ST_Failing, [(31%N, true); (40%N, false)])] /\
    st_op st = OpRelease 2 31 TT_Timeout /\ step_noterm_b s st = true /\ step_ok2if_b [] s st = true /\ step_ok3_b s st = false /\
    m_step2 [] s st = None /\ m_step_gang [] s st = Some s' /\
    (* the application is gone, node 1 keeps allocation 40 *)
    s_apps s' = [] /\ map (fun n => akeys (on_allocs n)) (s_nodes s') = [[40%N]] /\ map on_allocated (s_nodes s') = [R1] /\
    c03_state s' = [303; 305; 306]%N /\ invg_b s' = false.
Proof. exists term_pre, term_last. eexists. vm_compute. repeat split. Qed.

(* (b) the allocation part of KeyFresh3.  A Soft gang application: placeholder 30 allocated, the timer fires (Resuming): the
   request map is emptied, the placeholder stays allocated until the shim confirms.  A real ask under key 30 is new among
   the requests; scheduled on node 1 it overwrites the placeholder in the application's and the node's allocation maps. *)
Definition key_steps : list ostep :=
  [ g_step (OpNodeAdd 1 [(1%N, 1000); (2%N, 16)] false) [];
    g_step (OpAppAdd 2 4 1 false false (Some [(1%N, 200)]) false 0 None) [EAppAccepted 2];
    g_step (OpAlloc (g_req 30 2 P1 true 1)) [];
    g_step OpSched [ENewAlloc 30 2 1 P1 true];
    g_step (OpFirePh 2) [EAppUpdated 2 ST_Resuming; ERelease 30 2 TT_Timeout];
    g_step (OpAlloc (g_req 30 2 R1 false 1)) [];
    g_step OpSched [ENewAlloc 30 2 1 R1 false] ].

Theorem key_fresh3_allocs_refuted :
  exists deny s0 steps,
    invg2_b s0 = true /\ c03_state s0 = [] /\ m_run3_len deny s0 steps = length steps /\
    (* every hypothesis holds along the run, with freshness of a new key among the requests only *)
    run3_hyp_b step_reqfresh_b deny s0 steps = true /\
    (* up to the re-used key the run satisfies everything; the only failing hypothesis is [ReqOK3] of step 6 *)
    run3_ok_b deny s0 (firstn 5 steps) = true /\
    (let s5 := m_run3 deny s0 (firstn 5 steps) in
     map (fun a => (ap_state a, akeys (ap_requests a), akeys (ap_allocs a))) (s_apps s5) = [(ST_Resuming, [], [30%N])] /\
     option_map (step_ok3_b s5) (nth_error steps 5) = Some false /\ option_map (step_ok2_b s5) (nth_error steps 5) = Some true) /\
    (* one step later the invariant is gone (a pending ask that is an allocation), two steps later the books *)
    invg_b (m_run3 deny s0 (firstn 6 steps)) = false /\ c03_state (m_run3 deny s0 (firstn 6 steps)) = [] /\
    c03_state (m_run3 deny s0 steps) = [301%N] /\ nodes_ledger_ok (m_run3 deny s0 steps) = false.
Proof. exists [], ex3_s0, key_steps. vm_compute. repeat split. Qed.
