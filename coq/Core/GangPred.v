(* C06 - gang scheduling: small predicates shared by the component model (Core/Gang.v), its theorems and
   the oracle on observations (Oracles/CoreC06.v).  Definitions only. *)
From Coq Require Import List ZArith NArith Bool.
From YK Require Import Base.Res Core.Obs.
Import ListNotations.
Open Scope N_scope.

(* real <= placeholder component-wise, as functions of the resource type (a missing type counts as 0) *)
Definition res_le (a b : res) : bool := forallb (fun k => (getz a k <=? getz b k)%Z) (keys a ++ keys b).

(* the guard of tryPlaceholderAllocate as the code computes it:
   delta := Sub(placeholder, request); if delta.HasNegativeValue() -> no swap *)
Definition swap_size_ok (ph real : res) : bool := negb (HasNegativeValue (Some (Sub (Some ph) (Some real)))).

(* placeholder bookkeeping of one task group: count, replaced, timed out *)
Definition phdata := list (N * (Z * (Z * Z))).
Definition pd_count (e : N * (Z * (Z * Z))) : Z := fst (snd e).
Definition pd_replaced (e : N * (Z * (Z * Z))) : Z := fst (snd (snd e)).
Definition pd_timedout (e : N * (Z * (Z * Z))) : Z := snd (snd (snd e)).
Definition replaced_le_count (d : phdata) : bool := forallb (fun e => (pd_replaced e <=? pd_count e)%Z) d.

(* ledgers compared as functions of the resource type on the types that occur *)
Definition eq_on (ks : list tid) (f g : tid -> Z) : bool := forallb (fun k => (f k =? g k)%Z) ks.
Definition le_on (ks : list tid) (f g : tid -> Z) : bool := forallb (fun k => (f k <=? g k)%Z) ks.
