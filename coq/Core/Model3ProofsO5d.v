(* C03 over the gang fragment (Core/Model3.v): removeNode ([g_node_remove]), part 3: the loop and the theorem.
   [step_any]: one iteration of [g_remove_node_allocs] keeps the ghost invariant [GI] (Core/Model3ProofsO5b.v), by cases:
     (a) a record without link                                            [step_plain]       (O5b)
     (c) the real half of a cross-node replacement on the removed node    [step_unlink_real] (O5e)
     (c) a placeholder whose real half is bound on no other node          [step_unlink_ph]   (O5e)
     (b) a placeholder whose real half is bound on another node: confirm  [step_confirm]     (O5f)
   [ghost_loop]: the invariant runs through the loop; [g_node_remove_step]: entering and leaving the loop.
   NOT covered: the termination of an application inside the loop (hypothesis [NoTerminal] on the visited states). *)
From Coq Require Import List ZArith NArith Bool Lia ZifyBool.
From YK Require Import Base.Int64 Base.Res Base.ResSpec Base.ResLemmas
  Core.Obs Core.Model Core.Model2 Core.Model3 Core.Ledger
  Core.BooksLemmas Core.BooksDefs Core.BooksOps4
  Core.Model3ProofsD Core.Model3ProofsD2 Core.Model3ProofsG1 Core.Model3ProofsO4 Core.Model3ProofsO5b Core.Model3ProofsO5e Core.Model3ProofsO5f.
Import ListNotations.
Open Scope Z_scope.
Set Default Timeout 30.

(* what is assumed of every state the loop visits:
   - [Bounded3]: the ledgers are within the bounds that make the saturating arithmetic exact.  [Bounded3] is a per-state
     hypothesis of all step theorems; inside this loop DeallocateAsk RAISES pending ledgers, so the bound of the
     pre-state does not carry over to the visited states;
   - [NoTerminal]: no live application is in a terminal state (restriction: an application that terminates because its
     last placeholder / allocation goes with the node is not covered, see the file header) *)
Definition PLoop (μ : ostate) : Prop := Bounded3 μ /\ NoTerminal μ.

(* what is assumed of every iteration (state μ at its start, record y): when y is a placeholder whose real half r is
   bound on ANOTHER node (the replacement is confirmed) and delta = r - y has a negative value, then
   TryIncAllocatedResource(delta) succeeds.  It fails when a queue on the path is above its maximum on a type of delta;
   the Go code ignores the failure, nothing is given back and the books break (queue usage > sum of the applications). *)
Definition QuotaOK (μ : ostate) (y : oalloc) : Prop :=
  forall a r, find_app μ (oa_app y) = Some a -> find_alloc (ap_requests a) (oa_release y) = Some r ->
    oa_ph y = true -> oa_release y <> 0%N -> oa_node r <> oa_node y ->
    HasNegativeValue (Some (Sub (Some (oa_res r)) (Some (oa_res y)))) = true ->
    q_try_inc μ (ap_queue a) (Sub (Some (oa_res r)) (Some (oa_res y))) <> None.

Lemma step_any id μ n y t c μ2 da dph : GI id μ n (y :: t) c -> PLoop μ -> PLoop μ2 -> QuotaOK μ y ->
  g_remove_node_allocs μ [y] = Some (μ2, da, dph) -> exists n', GI id μ2 n' t (c + da).
Proof. intros G [B0 _] [B2 T2] HQ H. destruct (N.eq_dec (oa_release y) 0) as [Erel|Lrel].
  - apply (step_plain id μ n y t c μ2 da dph G B0 T2 Erel H).
  - destruct (oa_ph y) eqn:Py; [|apply (step_unlink_real id μ n y t c μ2 da dph G B0 B2 Lrel Py H)].
    destruct (find_app μ (oa_app y)) as [a0|] eqn:Efa.
    2:{ apply (step_unlink_ph id μ n y t c μ2 da dph G B0 B2 T2 Lrel Py); [|exact H]. intros a r C. rewrite Efa in C. discriminate. }
    destruct (find_alloc (ap_requests a0) (oa_release y)) as [r0|] eqn:Er.
    2:{ apply (step_unlink_ph id μ n y t c μ2 da dph G B0 B2 T2 Lrel Py); [|exact H]. intros a r C1 C2. rewrite Efa in C1. inversion C1; subst a0.
        rewrite Er in C2. discriminate. }
    destruct (N.eq_dec (oa_node r0) (oa_node y)) as [En|En].
    + apply (step_unlink_ph id μ n y t c μ2 da dph G B0 B2 T2 Lrel Py); [|exact H]. intros a r C1 C2. rewrite Efa in C1. inversion C1; subst a0.
      rewrite Er in C2. inversion C2; subst r0. exact En.
    + apply (step_confirm id μ n y t c μ2 da dph G B0 B2 T2 Lrel Py); [| |exact H].
      * intros a r C1 C2. rewrite Efa in C1. inversion C1; subst a0. rewrite Er in C2. inversion C2; subst r0. exact En.
      * intros a r C1 C2 Hneg. rewrite Efa in C1. inversion C1; subst a0. rewrite Er in C2. inversion C2; subst r0.
        apply (HQ a r Efa Er Py Lrel En Hneg). Qed.

Lemma ghost_loop id : forall l μ n c μ' da dph, GI id μ n l c -> rna_ok PLoop QuotaOK μ l ->
  g_remove_node_allocs μ l = Some (μ', da, dph) -> exists n', GI id μ' n' [] (c + da) /\ PLoop μ'.
Proof. induction l as [|y t IH]; intros μ n c μ' da dph G Hok H.
  - cbn in H. inversion H; subst μ' da dph. exists n. rewrite Z.add_0_r. split; [exact G|exact (rna_ok_head _ _ _ _ Hok)].
  - rewrite rna_cons in H. destruct Hok as (P0 & Q0 & Hok). destruct (g_remove_node_allocs μ [y]) as [[[μ2 da1] dph1]|] eqn:E1; [|discriminate].
    destruct (g_remove_node_allocs μ2 t) as [[[μ3 da2] dph2]|] eqn:E2; [|discriminate]. inversion H; subst μ' da dph; clear H.
    destruct (step_any id μ n y t c μ2 da1 dph1 G P0 (rna_ok_head _ _ _ _ Hok) Q0 E1) as (n2 & G2).
    destruct (IH μ2 n2 (c + da1) μ3 da2 dph2 G2 Hok E2) as (n3 & G3 & P3).
    exists n3. rewrite Z.add_assoc. auto. Qed.

Lemma empty_of_iff {A} (l : list A) : (forall z, In z l <-> In z []) -> l = [].
Proof. destruct l as [|x t]; [reflexivity|]. intros H. destruct (proj1 (H x) (or_introl eq_refl)). Qed.

(* removeNode / removeNodeAllocations with placeholders and in-flight replacements.  Side hypotheses:
   - [KeysNZ s]: no node lists a record with key 0.  True by construction of the observations (Core/Obs.v: names are
     interned to positive numbers, 0 means "none"); needed because the model, like the observation, encodes "no link"
     as the key 0 ([oa_release y =? 0]);
   - [NoDup (release_keys evs)]: every allocation is announced as released at most once, so that [node_remove_order]
     enumerates the node's records without repetition (a repeated announcement would process a record twice);
   - [rna_ok PLoop QuotaOK μ0 order]: [PLoop] in every state the loop visits and [QuotaOK] for every iteration, see there
     (μ0: the state without the node, order: the processing order; both are computed from s and the events). *)
Theorem g_node_remove_step s evs id s' : InvG2 s -> BooksG s -> Bounded3 s -> KeysNZ s -> NoDup (release_keys evs) ->
  (forall n order, find_node s id = Some n -> node_remove_order evs (on_allocs n) = Some order ->
     rna_ok PLoop QuotaOK (set_nodes s (filter (fun m => negb (on_id m =? id)%N) (s_nodes s))) order) ->
  g_node_remove s evs id = Some s' -> InvG2 s' /\ BooksG s'.
Proof. intros HI2 HB HBd Hnz Hks Hok H. pose proof (ig2_inv s HI2) as HI. unfold g_node_remove in H.
  destruct (find_node s id) as [n|] eqn:En; [|discriminate]. destruct (negb (node_unreserved n)); [discriminate|].
  destruct (node_remove_order evs (on_allocs n)) as [order|] eqn:Eo; [|discriminate].
  specialize (Hok n order eq_refl Eo). destruct (find_node_some _ _ _ En) as [Hn Eid]. subst id.
  set (μ0 := set_nodes s (filter (fun m => negb (on_id m =? on_id n)%N) (s_nodes s))) in *.
  destruct (g_remove_node_allocs μ0 order) as [[[μ1 da] dph]|] eqn:E1; [|discriminate]. cbv zeta in H.
  set (d := Multiply (Some (on_total n)) (-1)) in H. inversion H; subst s'; clear H.
  destruct (node_remove_order_spec evs (on_allocs n) order Hks (k3_keys n (ig_nodes s HI n Hn)) Eo) as [Hin Hnd].
  pose proof (enter_GI s n HI2 HB Hn order HBd Hnz Hin Hnd) as G0. fold μ0 in G0.
  destruct (ghost_loop (on_id n) order μ0 n 0 μ1 da dph G0 Hok E1) as (n1 & G1 & [_ T1]).
  pose proof (empty_of_iff _ (gi_rec _ _ _ _ _ G1)) as Hempty.
  set (s3 := add_counts (part_update_total μ1 d) da dph).
  assert (T3 : NoTerminal s3) by exact T1.
  rewrite (terminate_fold_id (on_allocs n) s3 T3).
  destruct (part_update_total_queues μ1 d) as [tot Et].
  apply (ghost_leave μ1 n1 (0 + da) s3 tot (gi_inv _ _ _ _ _ G1) (gi_books _ _ _ _ _ G1) Hempty); try reflexivity. exact Et. Qed.
