(* C03 over the gang fragment (Core/Model3.v): removeNode ([g_node_remove]), part 2: the pieces of an iteration that
   dissolves an in-flight replacement (case (c) of [g_remove_node_allocs]: both links are cleared, the real ask is given
   back to the scheduler with DeallocateAsk).
     [unlink_inv]         clearing the link of the object (app, k) keeps InvG and BooksG when no node lists that object as
                          the real half of an in-flight replacement;
     [rmap_unlink_linkok] a uniform record map that only clears links keeps LinkOK when it clears both halves of a pair
                          together;  [rmap_comp];
     [dealloc_step]       DeallocateAsk for an allocated request that is neither an allocation nor listed by a node;
     [drop_infl_inv]      the ghost node loses the record of an in-flight real half (no ledger but the node's moves);
     [drop_linkok]        node records without link leave. *)
From Coq Require Import List ZArith NArith Bool Lia ZifyBool.
From YK Require Import Base.Int64 Base.Res Base.ResSpec Base.ResLemmas Base.ResLaws Base.ResLaws2 Base.ResLawsPred
  Core.Obs Core.Model Core.Model2 Core.Model3 Core.Ledger
  Core.BooksLemmas Core.BooksDefs Core.BooksTree Core.BooksQueue Core.BooksApp Core.BooksState Core.BooksDrain Core.BooksOps
  Core.BooksOps2 Core.BooksOps3 Core.BooksOps4 Core.Model2ProofsB1 Core.Model2ProofsB2 Core.Model2ProofsB4
  Core.Model3ProofsD Core.Model3ProofsD2 Core.Model3ProofsG1 Core.Model3ProofsG2 Core.Model3ProofsG3 Core.Model3ProofsG4
  Core.Model3ProofsG6 Core.Model3ProofsA1 Core.Model3ProofsA2 Core.Model3ProofsO1 Core.Model3ProofsO4 Core.Model3ProofsO5b.
Import ListNotations.
Open Scope Z_scope.
Set Default Timeout 30.

Definition ul (z : oalloc) : oalloc := oa_set_link z 0.
Lemma infl_ul z : infl (ul z) = false. Proof. unfold infl, ul. cbn. apply andb_false_r. Qed.

(* ================================================================== 1. clearing one link: InvG and BooksG *)
Lemma unlink_inv s app k : InvG s -> BooksG s ->
  (forall m z, In m (s_nodes s) -> In z (on_allocs m) -> oa_key z = k -> oa_app z = app -> infl z = false) ->
  InvG (obj_upd s app k ul) /\ BooksG (obj_upd s app k ul).
Proof. intros HI HB Hno. rewrite (obj_upd_rmapG s app k ul HI). set (h := hk app k ul).
  assert (Hd : forall z, h z = z \/ (h z = ul z /\ oa_key z = k /\ oa_app z = app)).
  { intros z. unfold h, hk. destruct (N.eqb_spec (oa_key z) k) as [E1|E1]; [|left; reflexivity].
    destruct (N.eqb_spec (oa_app z) app) as [E2|E2]; [right; auto|left; reflexivity]. }
  assert (C : CoreOnly h) by (apply core_only_hk, core_only_link). destruct C as [H1 H2 H3 H4 H5 H6].
  assert (Hal : forall z, oa_allocated (h z) = oa_allocated z) by (intros z; destruct (Hd z) as [->|[-> _]]; reflexivity).
  assert (Hnode_rec : forall z, In z (node_records s) -> infl (h z) = infl z).
  { intros z Hz. destruct (Hd z) as [->|(-> & Ek & Ea)]; [reflexivity|]. apply in_node_records in Hz. destruct Hz as (m & Hm & Hz).
    rewrite (Hno m z Hm Hz Ek Ea). apply infl_ul. }
  assert (HI' : InvG (rmap h s)).
  { apply (rmap_invg s h HI H1 H2 H3 H4 H5 H6).
    - intros a x Ha Hx Hp. destruct (Hd x) as [->|[-> _]]; [apply (w3_real_nolink a (ig_app_wf s HI a Ha) x Hx Hp)|reflexivity].
    - intros a r Ha Hr. rewrite Hal. apply (w3_pending_fresh a (ig_app_wf s HI a Ha) r Hr).
    - intros a x Ha Hx Hp. destruct (Hd x) as [->|[-> _]]; [apply (w3_link a (ig_app_wf s HI a Ha) x Hx Hp)|]. intros C. contradiction C. reflexivity.
    - intros z Hz Hi Hall. rewrite Hal, (Hnode_rec z Hz). auto. }
  split; [exact HI'|]. apply (rmap_booksg s h H4 H5 HB).
  - intros a r _ _. apply Hal.
  - exact Hnode_rec. Qed.

(* ================================================================== 2. maps that only clear links: LinkOK *)
Lemma rmap_comp h1 h2 s : rmap h2 (rmap h1 s) = rmap (fun z => h2 (h1 z)) s.
Proof. unfold rmap, set_nodes, set_apps. cbn [s_nodes s_apps s_queues s_total s_nallocs s_nph s_nres s_foreign s_completed s_rejected s_ugm].
  rewrite !map_map. f_equal.
  - apply map_ext. intros n. unfold rmap_node. cbn [n_with on_id on_total on_occupied on_allocated on_available on_sched on_allocs on_foreign on_reservations].
    rewrite map_map. reflexivity.
  - apply map_ext. intros a. unfold rmap_app, ap_set_lists, ap_with. cbn. rewrite !map_map. reflexivity. Qed.

Section UnlinkLink.
  Variables (s : ostate) (h : oalloc -> oalloc).
  Hypothesis HI : InvG s.
  Hypothesis HL : LinkOK s.
  Hypothesis Hkey : forall y, oa_key (h y) = oa_key y.
  Hypothesis Happ : forall y, oa_app (h y) = oa_app y.
  Hypothesis Hnode : forall y, oa_node (h y) = oa_node y.
  Hypothesis Hres : forall y, oa_res (h y) = oa_res y.
  Hypothesis Hph : forall y, oa_ph (h y) = oa_ph y.
  Hypothesis Hal : forall y, oa_allocated (h y) = oa_allocated y.
  Hypothesis Hrel : forall y, oa_release (h y) = oa_release y \/ oa_release (h y) = 0%N.
  (* a node record that keeps its link: its placeholder keeps its link *)
  Hypothesis C1 : forall n y a ph, In n (s_nodes s) -> In y (on_allocs n) -> infl y = true -> In a (s_apps s) -> In ph (ap_allocs a) ->
                  oa_key ph = oa_release y -> oa_release ph = oa_key y -> oa_release (h y) <> 0%N -> oa_release (h ph) = oa_release ph.
  (* a placeholder that keeps its link: the real request it names keeps its link *)
  Hypothesis C2 : forall a ph r, In a (s_apps s) -> In ph (ap_allocs a) -> oa_ph ph = true -> In r (ap_requests a) -> oa_key r = oa_release ph ->
                  oa_ph r = false -> oa_allocated r = true -> oa_release (h ph) <> 0%N -> oa_release (h r) = oa_release r.

  Lemma rel_kept y : oa_release (h y) <> 0%N -> oa_release (h y) = oa_release y.
  Proof. intros H. destruct (Hrel y) as [E|E]; [exact E|contradiction]. Qed.

  Lemma rmap_unlink_linkok : LinkOK (rmap h s).
  Proof. destruct HL as [L1 L2]. split.
    - intros n' y' Hn' Hy' Hi. apply in_rmap_nodes in Hn'. destruct Hn' as (n & Hn & ->). cbn [rmap_node n_with on_allocs] in Hy'.
      apply in_map_iff in Hy'. destruct Hy' as (y & <- & Hy).
      assert (Hr0 : oa_release (h y) <> 0%N) by (unfold infl in Hi; apply andb_true_iff in Hi; destruct Hi as [_ Hi]; apply negb_true_iff, N.eqb_neq in Hi; exact Hi).
      assert (Hi0 : infl y = true) by (unfold infl in *; rewrite Hph, (rel_kept y Hr0) in Hi; exact Hi).
      destruct (L1 n y Hn Hy Hi0) as (a & ph & Ha & Ea & Hpha & Pph & Ek & Er & Hne).
      exists (rmap_app h a), (h ph). rewrite Hkey, Hph, !Hnode, Happ, Hkey, (rel_kept y Hr0), (C1 n y a ph Hn Hy Hi0 Ha Hpha Ek Er Hr0).
      repeat split; auto; [apply in_rmap_apps; eauto|cbn; apply in_map; assumption].
    - intros a' ph' r' Ha' Hph' Pph Hl Hr' Ek Pr Har. apply in_rmap_apps in Ha'. destruct Ha' as (a & Ha & ->).
      cbn [rmap_app ap_set_lists ap_with ap_allocs ap_requests] in Hph', Hr'. apply in_map_iff in Hph', Hr'.
      destruct Hph' as (ph & <- & Hpha). destruct Hr' as (r & <- & Hra). rewrite ?Hkey, ?Hph, ?Hal in *.
      pose proof (rel_kept ph Hl) as Eph. rewrite Eph in Ek.
      assert (Hl0 : oa_release ph <> 0%N) by (rewrite <- Eph; exact Hl).
      destruct (L2 a ph r Ha Hpha Pph Hl0 Hra Ek Pr Har) as (M1 & M2 & M3 & M4).
      rewrite (C2 a ph r Ha Hpha Pph Hra Ek Pr Har Hl), !Hres, !Hnode. split; [exact M1|]. split; [exact M2|]. split.
      + intros E n' y' Hn' Hy'. apply in_rmap_nodes in Hn'. destruct Hn' as (n & Hn & ->). cbn [rmap_node n_with on_allocs] in Hy'.
        apply in_map_iff in Hy'. destruct Hy' as (y & <- & Hy). rewrite Hkey. apply (M3 E n y Hn Hy).
      + intros E. destruct (M4 E) as (n & Hn & En & Hrn). exists (rmap_node h n). split; [apply in_rmap_nodes; eauto|]. split; [exact En|].
        cbn. apply in_map. assumption. Qed.
End UnlinkLink.

(* ================================================================== 3. DeallocateAsk *)
Definition dealloc_app (a : oapp) (k : N) (r : oalloc) : oapp :=
  ap_set_ledgers (flag_app a k (fun z => oa_set_allocated z false)) (Add (Some (ap_pending a)) (Some (oa_res r))) (ap_allocated a) (ap_phalloc a).

Section Dealloc.
  Variables (s : ostate) (a : oapp) (k : N) (r : oalloc).
  Hypothesis HI2 : InvG2 s.
  Hypothesis HB : BooksG s.
  Hypothesis HBd : Bounded3 s.
  Hypothesis Ha : In a (s_apps s).
  Hypothesis Hr : In r (ap_requests a).
  Hypothesis Ek : oa_key r = k.
  Hypothesis Hal : oa_allocated r = true.
  (* the request is no allocation of the application and no node lists it *)
  Hypothesis Hfresh : ~ In k (akeys (ap_allocs a)).
  Hypothesis Hnonode : forall m z, In m (s_nodes s) -> In z (on_allocs m) -> oa_app z = ap_id a -> oa_key z <> k.

  Let HI := ig2_inv s HI2.
  Let W := ig_app_wf s HI a Ha.
  Let B := bg_apps s HB a Ha.
  Let f := fun z => oa_set_allocated z false.
  Let a' := dealloc_app a k r.
  Let s' := app_deallocate s a k.
  Let Rok := w3_req a W r Hr.
  Let Rb := abd_req a (bd_apps s (b3_base s HBd) a Ha) r Hr.

  Lemma da_eq : s' = q_inc_pending (upd_app (obj_upd s (ap_id a) k f) (ap_id a)
                       (fun b => ap_set_ledgers b (Add (Some (ap_pending b)) (Some (oa_res r))) (ap_allocated b) (ap_phalloc b))) (ap_queue a) (oa_res r).
  Proof. unfold s', app_deallocate. rewrite <- Ek, (g_find_req_in s a r HI Ha Hr), Hal. reflexivity. Qed.

  Lemma da_apps : s_apps s' = updk ap_id (s_apps s) (ap_id a) (fun _ => a').
  Proof. rewrite da_eq. cbn [q_inc_pending on_path upd_queues upd_app s_apps]. rewrite Model3ProofsG3.obj_upd_apps. unfold updk. rewrite map_map.
    apply map_ext_in. intros b Hb. destruct (N.eqb_spec (ap_id b) (ap_id a)) as [E|E].
    - assert (b = a) by (apply (g_same_app s a b HI Ha Hb E)). subst b. cbn [ap_set_lists ap_with ap_id]. rewrite N.eqb_refl. reflexivity.
    - destruct (N.eqb_spec (ap_id b) (ap_id a)); [contradiction|reflexivity]. Qed.
  Lemma da_nodes : s_nodes s' = s_nodes s.
  Proof. rewrite da_eq. cbn [q_inc_pending on_path upd_queues upd_app s_nodes]. rewrite Model3ProofsG3.obj_upd_nodes. apply map_id_in. intros m Hm.
    unfold rmap_node. rewrite (map_id_in (hk (ap_id a) k f) (on_allocs m)); [apply n_with_same|].
    intros z Hz. apply hk_other. destruct (N.eq_dec (oa_app z) (ap_id a)) as [E|E]; [left; apply (Hnonode m z Hm Hz E)|right; exact E]. Qed.
  Lemma da_queues : s_queues s' = path_map s (ap_queue a) (F_inc_pending (oa_res r)).
  Proof. rewrite da_eq. apply g_q_inc_pending_queues. reflexivity. Qed.
  Lemma da_other : s_foreign s' = s_foreign s /\ s_nallocs s' = s_nallocs s.
  Proof. rewrite da_eq. split; reflexivity. Qed.

  Lemma da_allocs : ap_allocs a' = ap_allocs a.
  Proof. unfold a', dealloc_app. cbn [ap_set_ledgers ap_with ap_allocs flag_app ap_set_lists]. apply map_key_fresh. exact Hfresh. Qed.
  Lemma da_requests : ap_requests a' = map_key k f (ap_requests a). Proof. reflexivity. Qed.

  Lemma da_app : AppBooks a' /\ AppWF3 a' /\ forall j, getz (ap_pending a') j = getz (ap_pending a) j + getz (oa_res r) j.
  Proof. pose proof B as B0. apply AppBooks_sides in B0. destruct B0 as [BA BP].
    assert (Bd3 : AppBounded3 a) by (split; [apply (bd_apps s (b3_base s HBd) a Ha)|apply (b3_ph s HBd a Ha)]).
    apply AppBounded3_sides in Bd3. destruct Bd3 as [BdA BdP].
    assert (SA : same_alloc a a') by (repeat split; apply da_allocs).
    destruct (pend_add a a' (oa_res r) W BP BdP eq_refl SA eq_refl (a3_wf _ r Rok) Rb (a3_nn _ r Rok)) as (P1 & P2 & P3).
    - intros j. rewrite da_requests, (asum_filter_map_key_one is_pending k f (ap_requests a) r j (w3_req_keys a W) Hr Ek).
      unfold is_pending, f. cbn [oa_set_allocated oa_allocated oa_res negb]. rewrite Hal. cbn [negb]. lia.
    - rewrite da_requests. apply (WF3_map_req _ _ _ (AppWF3_raw a W)); [intros y E; exact E|].
      intros y Hy E. split; [apply AllocOK3_allocated, (w3_req a W y Hy)|intros _; exact Hfresh].
    - split; [apply (books_of_sides a a' SA B P1)|]. split; [exact P2|exact P3]. Qed.

  Theorem dealloc_step : InvG2 s' /\ BooksG s'.
  Proof. destruct da_app as (B' & W' & P'). destruct da_other as [Ef Ec]. pose proof da_nodes as En. pose proof da_apps as Eapps.
    assert (Eid : ap_id a' = ap_id a) by reflexivity.
    assert (H : InvG s' /\ BooksG s').
    { apply (gang_step s s' a a' (F_inc_pending (oa_res r)) zero3 (getz (oa_res r)) HI HB Ha Eapps da_queues Ef); try reflexivity; auto.
      - intros q Hq _. apply F_inc_pending_Q_nn; [apply (g_qok s q HI HB HBd Hq)|apply (a3_wf _ r Rok)|exact Rb|apply (a3_nn _ r Rok)].
      - apply rec_keys_incl. unfold app_records, akeys. rewrite !map_app. fold (akeys (ap_requests a')) (akeys (ap_allocs a')).
        rewrite da_allocs, da_requests, akeys_map_key by (intros y E; exact E). apply incl_refl.
      - intros j. unfold zero3. cbn. lia.
      - rewrite En. apply (ig_node_ids s HI).
      - rewrite En. apply (ig_nodes s HI).
      - apply (owned_nodes_same s s' a a' HI Ha Eapps Eid En). intros m z Hm Hz [Ho|(Hi & Hzr & Hza & Hzf)].
        + left. rewrite da_allocs. exact Ho.
        + right. rewrite da_allocs. repeat split; auto. rewrite da_requests. apply in_map_key. exists z. split; [exact Hzr|].
          assert (Ez : oa_app z = ap_id a) by (apply (g_record_app s a z HI Ha); apply in_records; auto).
          destruct (N.eqb_spec (oa_key z) k) as [E|E]; [exfalso; apply (Hnonode m z Hm Hz Ez E)|reflexivity].
      - apply (onnode_nodes_same s s' a a' HI Ha Eapps En). rewrite da_allocs. apply incl_refl.
      - apply (g_count_step s s' a a' HI Ha Eapps 0); [rewrite da_allocs; lia|lia].
      - intros j. rewrite (node_records_same s s' En). unfold zero3. lia. }
    destruct H as [HI' HB']. split; [|exact HB']. split; [exact HI'|].
    apply (linkok_app_upd s s' a a' HI Ha Eapps Eid En da_allocs); [|apply (ig2_link s HI2)].
    intros r0 Hr0 _ Hal0. rewrite da_requests in Hr0. apply in_map_key in Hr0. destruct Hr0 as (z & Hz & ->).
    destruct (N.eqb_spec (oa_key z) k); [discriminate Hal0|exact Hz]. Qed.
End Dealloc.

(* ================================================================== 4. both links of one pair are cleared *)
Section UnlinkPair.
  Variables (s : ostate) (a : oapp) (ph : oalloc) (k1 k2 : N).
  Hypothesis HI2 : InvG2 s.
  Hypothesis Ha : In a (s_apps s).
  Hypothesis Hph : In ph (ap_allocs a).
  Hypothesis Pph : oa_ph ph = true.
  Hypothesis Lph : oa_release ph <> 0%N.
  Hypothesis Hk : (k1 = oa_key ph /\ k2 = oa_release ph) \/ (k1 = oa_release ph /\ k2 = oa_key ph).
  Let HI := ig2_inv s HI2.
  Let W := ig_app_wf s HI a Ha.
  Let id := ap_id a.
  Let h := fun z => hk id k2 ul (hk id k1 ul z).
  Let s2 := obj_upd (obj_upd s id k1 ul) id k2 ul.

  Lemma up_h z : (oa_app z = id /\ (oa_key z = oa_key ph \/ oa_key z = oa_release ph) /\ h z = ul z) \/
                 (~ (oa_app z = id /\ (oa_key z = oa_key ph \/ oa_key z = oa_release ph)) /\ h z = z).
  Proof. assert (G : (oa_app z = id /\ (oa_key z = k1 \/ oa_key z = k2) /\ h z = ul z) \/ (~ (oa_app z = id /\ (oa_key z = k1 \/ oa_key z = k2)) /\ h z = z)).
    { unfold h. destruct (N.eq_dec (oa_app z) id) as [E0|E0].
      2:{ right. split; [tauto|]. rewrite (hk_other id k1 ul z (or_intror E0)). apply hk_other. right. exact E0. }
      destruct (N.eq_dec (oa_key z) k1) as [E1|E1].
      - left. split; [exact E0|]. split; [auto|]. rewrite (hk_hit id k1 ul z E1 E0).
        destruct (N.eq_dec (oa_key z) k2) as [E2|E2]; [rewrite (hk_hit id k2 ul (ul z) E2 E0); reflexivity|apply hk_other; left; exact E2].
      - rewrite (hk_other id k1 ul z (or_introl E1)). destruct (N.eq_dec (oa_key z) k2) as [E2|E2].
        + left. split; [exact E0|]. split; [auto|]. apply (hk_hit id k2 ul z E2 E0).
        + right. split; [tauto|]. apply hk_other. left. exact E2. }
    destruct Hk as [[-> ->]|[-> ->]]; destruct G as [(G1 & G2 & G3)|(G1 & G2)]; [left|right|left|right]; repeat split; auto; tauto. Qed.

  Lemma up_rmap : s2 = rmap h s.
  Proof. unfold s2. rewrite (obj_upd_rmapG s id k1 ul HI). rewrite obj_upd_rmap; [apply (rmap_comp (hk id k1 ul) (hk id k2 ul) s)|].
    intros b' x' Hb' Hx'. apply in_rmap_apps in Hb'. destruct Hb' as (b & Hb & ->). rewrite rmap_app_records in Hx'.
    apply in_map_iff in Hx'. destruct Hx' as (x & <- & Hx). cbn [rmap_app ap_set_lists ap_with ap_id].
    rewrite <- (g_record_app s b x HI Hb Hx). unfold hk. destruct (_ && _); reflexivity. Qed.

  Lemma unlink_pair_linkok : LinkOK s2.
  Proof. rewrite up_rmap. destruct (ig2_link s HI2) as [L1 L2].
    assert (Hsame : forall z, h z = z \/ h z = ul z) by (intros z; destruct (up_h z) as [(_ & _ & E)|(_ & E)]; auto).
    apply (rmap_unlink_linkok s h (ig2_link s HI2)); try (intros z; destruct (Hsame z) as [-> | ->]; reflexivity).
    - intros z. destruct (Hsame z) as [-> | ->]; [left|right]; reflexivity.
    - (* C1 *) intros n y b p Hn Hy Hi Hb Hp Ek Er Hr0. destruct (up_h p) as [(E0 & Ekp & E)|(_ & ->)]; [exfalso|reflexivity].
      assert (b = a) by (apply (g_same_app s a b HI Ha Hb); rewrite <- (g_record_app s b p HI Hb) by (apply in_records; auto); exact E0). subst b.
      destruct Ekp as [Ekp|Ekp].
      + assert (p = ph) by (apply (nodup_key_inj oa_key (ap_allocs a)); auto; apply (w3_alloc_keys a W)). subst p.
        destruct (up_h y) as [(_ & _ & Ey)|(Hny & _)]; [rewrite Ey in Hr0; apply Hr0; reflexivity|].
        apply Hny. split; [|right; congruence].
        destruct (L1 n y Hn Hy Hi) as (b & p & Hb' & Eb' & Hp' & _ & Ekp' & _).
        assert (b = a) by (apply (g_key_owner s b a p ph HI Hb' Ha); [apply in_records; auto|apply in_records; auto|congruence]). subst b.
        unfold id. congruence.
      + apply (w3_link a W ph Hph Pph Lph). rewrite <- Ekp. apply in_map. exact Hp.
    - (* C2 *) intros b p r Hb Hp Pp Hr Ek Pr Har Hl. destruct (up_h p) as [(_ & _ & E)|(Hnp & Ep)]; [rewrite E in Hl; contradiction Hl; reflexivity|].
      rewrite Ep in Hl. destruct (up_h r) as [(E0 & Ekr & _)|(_ & ->)]; [exfalso|reflexivity].
      assert (b = a) by (apply (g_same_app s a b HI Ha Hb); rewrite <- (g_record_app s b r HI Hb) by (apply in_records; auto); exact E0). subst b.
      destruct Ekr as [Ekr|Ekr].
      + apply (w3_link a W p Hp Pp Hl). rewrite <- Ek, Ekr. apply in_map. exact Hph.
      + destruct (L2 a p r Ha Hp Pp Hl Hr Ek Pr Har) as (M1 & _). destruct (L2 a ph r Ha Hph Pph Lph Hr Ekr Pr Har) as (M2 & _).
        assert (p = ph) by (apply (nodup_key_inj oa_key (ap_allocs a)); auto; [apply (w3_alloc_keys a W)|congruence]). subst p.
        apply Hnp. split; [apply (g_record_app s a ph HI Ha); apply in_records; auto|left; reflexivity]. Qed.
End UnlinkPair.

(* ================================================================== 5. bounds *)
Lemma rmap_res_bounded3 s h : (forall y, oa_res (h y) = oa_res y) -> Bounded3 s -> Bounded3 (rmap h s).
Proof. intros F Bd. pose proof Bd as [[_ Bq Bn] _]. apply bounded3_intro.
  - intros a' Ha'. apply in_rmap_apps in Ha'. destruct Ha' as (a & Ha & ->). destruct (bounded3_app s a Bd Ha) as [[B1 B2 B3 B4] B5].
    split; [constructor|]; cbn; auto; intros y' Hy'; apply in_map_iff in Hy'; destruct Hy' as (y & <- & Hy); rewrite F; auto.
  - exact Bq.
  - intros n' Hn'. apply in_rmap_nodes in Hn'. destruct Hn' as (n & Hn & ->). cbn. apply (Bn n Hn). Qed.
Lemma unlink_bounded3 s app k : InvG s -> Bounded3 s -> Bounded3 (obj_upd s app k ul).
Proof. intros HI. rewrite (obj_upd_rmapG s app k ul HI). apply rmap_res_bounded3. intros y. unfold hk. destruct (_ && _); reflexivity. Qed.

(* every ledger of s is a ledger of s1 (usage side) or of s3 (pending side) *)
Lemma bounded3_mix s s1 s3 : Bounded3 s1 -> Bounded3 s3 ->
  (forall b, In b (s_apps s) -> exists b1 b3, In b1 (s_apps s1) /\ In b3 (s_apps s3) /\ ap_pending b = ap_pending b3 /\
     ap_allocated b = ap_allocated b1 /\ ap_phalloc b = ap_phalloc b1 /\
     (forall x, In x (ap_requests b) -> exists x1, In x1 (app_records b1) /\ oa_res x = oa_res x1) /\
     (forall x, In x (ap_allocs b) -> exists x1, In x1 (app_records b1) /\ oa_res x = oa_res x1)) ->
  (forall q, In q (s_queues s) -> exists q1 q3, In q1 (s_queues s1) /\ In q3 (s_queues s3) /\ q_alloc q = q_alloc q1 /\ q_pending q = q_pending q3) ->
  (forall n, In n (s_nodes s) -> exists n1, In n1 (s_nodes s1) /\ on_allocated n = on_allocated n1) ->
  Bounded3 s.
Proof. intros Bd1 Bd3 HA HQ HN. apply bounded3_intro.
  - intros b Hb. destruct (HA b Hb) as (b1 & b3 & Hb1 & Hb3 & E1 & E2 & E3 & R1 & R2).
    destruct (bounded3_app s1 b1 Bd1 Hb1) as [[_ D2 D3 D4] D5]. destruct (bounded3_app s3 b3 Bd3 Hb3) as [[F1 _ _ _] _].
    assert (Hrec : forall x1, In x1 (app_records b1) -> rb (oa_res x1)) by (intros x1 Hx1; apply in_records in Hx1; destruct Hx1; auto).
    split; [constructor|]; rewrite ?E1, ?E2, ?E3; auto.
    + intros x Hx. destruct (R1 x Hx) as (x1 & Hx1 & ->). auto.
    + intros x Hx. destruct (R2 x Hx) as (x1 & Hx1 & ->). auto.
  - intros q Hq. destruct (HQ q Hq) as (q1 & q3 & Hq1 & Hq3 & -> & ->). pose proof Bd1 as [[_ B1 _] _]. pose proof Bd3 as [[_ B3 _] _].
    split; [apply (B1 q1 Hq1)|apply (B3 q3 Hq3)].
  - intros n Hn. destruct (HN n Hn) as (n1 & Hn1 & ->). pose proof Bd1 as [[_ _ B1] _]. apply (B1 n1 Hn1). Qed.

(* ================================================================== 6. the ghost node loses records *)
(* an in-flight real half: not an allocation of anybody, not counted by the root ledger *)
Section DropInfl.
  Variables (μ : ostate) (n : onode) (c : Z) (y : oalloc).
  Let σ := ghost μ n c.
  Hypothesis HI : InvG σ.
  Hypothesis HB : BooksG σ.
  Hypothesis HBd : Bounded3 σ.
  Hypothesis Hy : In y (on_allocs n).
  Hypothesis Hi : infl y = true.
  Let n0 := node_unbound n y.
  Let Hn := ghost_node_in μ n c.
  Let K := ig_nodes σ HI n Hn.

  Lemma drop_infl_inv : InvG (ghost μ n0 c) /\ BooksG (ghost μ n0 c).
  Proof. pose proof (g_find_node_alloc_in σ n y HI Hn Hy) as Hf.
    destruct (g_node_record_app σ n y HI Hn Hy) as (b & Hb & _ & Hob & [Y1 Y2 _ _ _]).
    assert (Yb : rb (oa_res y)).
    { pose proof (bd_apps σ (b3_base σ HBd) b Hb) as [_ _ D3 D4]. apply ownedby_record, in_records in Hob. destruct Hob; auto. }
    assert (Hold : forall m z, In m (s_nodes (ghost μ n0 c)) -> In z (on_allocs m) -> In z (on_allocs n) /\ m = n0 \/ In m (s_nodes μ)).
    { intros m z [<-|Hm] Hz; [left; cbn [n0 node_unbound n_with on_allocs] in Hz; apply in_del_alloc in Hz; tauto|right; exact Hm]. }
    apply (gang_frame_step σ (ghost μ n0 c) (fun q => q) HI HB); try reflexivity.
    - cbn [ghost s_queues σ]. symmetry. apply map_id.
    - intros f a x Hf0. apply (ig_foreign σ HI f a x Hf0).
    - apply (ig_node_ids σ HI).
    - intros m [<-|Hm]; [|apply (ig_nodes σ HI m (or_intror Hm))].
      apply (nodeok3_del n n0 (oa_key y) K eq_refl eq_refl).
      + cbn [n0 node_unbound n_with on_allocated]. apply Prune_wf, subFrom_wf, (k3_wf n K).
      + intros j. rewrite Hf. cbn [n0 node_unbound n_with on_allocated]. rewrite Prune_getz by (apply subFrom_wf, (k3_wf n K)).
        apply subFrom_getz; [exact Y1|apply (bd_nodes σ (b3_base σ HBd) n Hn)|exact Yb].
    - intros m z Hm Hz. destruct (Hold m z Hm Hz) as [[Hz' _]|Hm']; [apply (ig_owned σ HI n z Hn Hz')|apply (ig_owned σ HI m z (or_intror Hm') Hz)].
    - intros a x Ha Hx. destruct (ig_onnode σ HI a x Ha Hx) as (m & [<-|Hm] & Em & Hxm); [|exists m; split; [right; exact Hm|auto]].
      exists n0. split; [left; reflexivity|]. split; [exact Em|]. cbn [n0 node_unbound n_with on_allocs]. apply in_del_alloc. split; [exact Hxm|].
      intros E. assert (x = y) by (apply (nodup_key_inj oa_key (on_allocs n)); auto; apply (k3_keys n K)). subst x.
      pose proof (alloc_ninfl a y (ig_app_wf σ HI a Ha) Hx) as C. unfold ninfl in C. rewrite Hi in C. discriminate.
    - apply (ig_count σ HI).
    - intros j. unfold node_records. cbn [ghost s_nodes flat_map σ]. rewrite !filter_app, !asum_app. f_equal.
      cbn [n0 node_unbound n_with on_allocs]. rewrite asum_filter_del by (apply (k3_keys n K)). rewrite Hf. unfold ninfl. rewrite Hi. cbn [negb]. lia. Qed.
End DropInfl.

(* records without link leave node lists: LinkOK only reads linked node records *)
Lemma drop_linkok s s' : s_apps s' = s_apps s ->
  (forall m' z, In m' (s_nodes s') -> In z (on_allocs m') -> exists m, In m (s_nodes s) /\ In z (on_allocs m)) ->
  (forall m z, In m (s_nodes s) -> In z (on_allocs m) -> oa_release z <> 0%N -> exists m', In m' (s_nodes s') /\ on_id m' = on_id m /\ In z (on_allocs m')) ->
  (forall a ph, In a (s_apps s) -> In ph (ap_allocs a) -> oa_key ph <> 0%N) ->
  LinkOK s -> LinkOK s'.
Proof. intros Ea Hsub Hkeep Hnz [L1 L2]. split.
  - intros m' z Hm' Hz Hi. destruct (Hsub m' z Hm' Hz) as (m & Hm & Hzm). rewrite Ea. apply (L1 m z Hm Hzm Hi).
  - intros a ph r Ha Hph Pph Lph Hr Kr Pr Ar. rewrite Ea in Ha. destruct (L2 a ph r Ha Hph Pph Lph Hr Kr Pr Ar) as (R1 & R2 & R3 & R4).
    split; [exact R1|]. split; [exact R2|]. split.
    + intros E m' z Hm' Hz. destruct (Hsub m' z Hm' Hz) as (m & Hm & Hzm). apply (R3 E m z Hm Hzm).
    + intros E. destruct (R4 E) as (m & Hm & Em & Hrm). destruct (Hkeep m r Hm Hrm) as (m' & Hm' & Em' & Hrm').
      { rewrite R1. apply (Hnz a ph Ha Hph). }
      exists m'. split; [exact Hm'|]. split; [congruence|exact Hrm']. Qed.

(* ================================================================== 7. model functions on ghost states *)
Lemma q_inc_pending_ghost s n c leaf r : q_inc_pending (ghost s n c) leaf r = ghost (q_inc_pending s leaf r) n c.
Proof. unfold q_inc_pending, on_path. rewrite (path_ids_ext (ghost s n c) s leaf eq_refl). reflexivity. Qed.

Lemma app_deallocate_ghost s n c a k : exists n', app_deallocate (ghost s n c) a k = ghost (app_deallocate s a k) n' c /\
  on_id n' = on_id n /\ on_allocated n' = on_allocated n /\
  (n' = n \/ on_allocs n' = map (hk (ap_id a) k (fun z => oa_set_allocated z false)) (on_allocs n)).
Proof. unfold app_deallocate. destruct (find_alloc (ap_requests a) k) as [r|]; [|exists n; auto]. destruct (oa_allocated r); [|exists n; auto].
  exists (rmap_node (hk (ap_id a) k (fun z => oa_set_allocated z false)) n). split; [|auto].
  rewrite <- q_inc_pending_ghost. reflexivity. Qed.
