(* The operational core model as a whole: the frozen fragments (Model.v, Model2.v), then the gang fragment (Model3.v),
   then the reservation / required-node / preemption fragment (Model4.v). The first fragment that recognises the
   observed step validates it. *)
From Coq Require Import List ZArith NArith Bool.
From YK Require Import Base.Res Core.Obs Core.Model Core.Model2 Core.Model3 Core.Model4.
Import ListNotations.
Open Scope N_scope.

Definition m_step_all (deny : list (N * N)) (s : ostate) (st : ostep) : option ostate :=
  match m_step2 deny s st with
  | Some r => Some r
  | None =>
      match m_step_gang deny s st with
      | Some r => Some r
      | None => m_step_resv deny s st
      end
  end.
