(* C09 over the operational model, part 8: the step theorem for [m_step4] and the run theorem. *)
From Coq Require Import List ZArith NArith Bool Lia ZifyBool ZifyN.
From YK Require Import Base.Int64 Base.Res Core.Obs Core.Model Core.Model2 Core.Ledger Core.Model4 Core.NodeProofs Core.QueueProofs Core.StepProofs
  Core.Model4ProofsF Core.Model4ProofsR1 Core.Model4ProofsR2 Core.Model4ProofsR3 Core.Model4ProofsR4 Core.Model4ProofsR5 Core.Model4ProofsR6
  Core.Model4ProofsR7.
Import ListNotations.
Open Scope N_scope.
Set Default Timeout 30.

Lemma ap_set_res_same a : ap_set_res a (ap_reservations a) = a. Proof. destruct a; reflexivity. Qed.
Lemma n_set_res_same n : n_set_res n (on_reservations n) = n. Proof. destruct n; reflexivity. Qed.
Lemma hide_res_same s id : (forall a, In a (s_apps s) -> ap_id a = id -> ap_reservations a = []) -> hide_res s id = s.
Proof. intros H. unfold hide_res, upd_app. destruct s as [nodes apps queues tot na nph nres fo co rej ugm]. cbn [s_nodes s_apps s_queues s_total s_nallocs s_nph s_nres s_foreign s_completed s_rejected s_ugm] in *.
  f_equal. rewrite <- (map_id apps) at 2. apply map_ext_in. intros a Ha. destruct (N.eqb_spec (ap_id a) id) as [E|E]; [|reflexivity].
  rewrite <- (H a Ha E). apply ap_set_res_same. Qed.

(* ------------------------------------------------------------------ scheduling cycles *)
Lemma pick_nres_in target l dflt : pick_nres target l dflt = dflt \/ In (Some (pick_nres target l dflt)) l.
Proof. unfold pick_nres. destruct (find _ l) as [[r|]|] eqn:E; auto. right. apply find_some in E. apply E. Qed.
Lemma m_sched4_some deny s st s' : m_sched4 deny s st = Some s' -> exists cnt fx, m_sched_with deny s st cnt fx = Some s'.
Proof. unfold m_sched4. intros H. destruct (m_sched_with deny s st true false) as [r0|] eqn:E0; [|discriminate]. apply Some_inj in H.
  match type of H with pick_nres ?t ?l ?d = _ => destruct (pick_nres_in t l d) as [Hp|Hin] end.
  - exists true, false. congruence.
  - rewrite H in Hin. destruct Hin as [Hin|[Hin|[Hin|[Hin|[]]]]]; [exists true, false; congruence|eauto|eauto|eauto]. Qed.
Theorem m_sched4_rinv deny s st s' : m_sched4 deny s st = Some s' -> Ids s -> RInv s -> Ids s' /\ RInv s'.
Proof. intros H HI HR. destruct (m_sched4_some _ _ _ _ H) as (cnt & fx & E). eapply m_sched_with_ok; eassumption. Qed.

(* ------------------------------------------------------------------ the release of all allocations of an application without reservations *)
Lemma queue_unreserve_none s a n : Ids0 s -> RInv s -> In a (s_apps s) -> ap_reservations a = [] -> NF None None s (r_queue_unreserve s (ap_queue a) (ap_id a) n).
Proof. intros HI HR Ha Hn. exists (fun b => b), (fun m => m), (fun q => if q_id q =? ap_queue a then q_set_reserved q (qr_unreserve (ap_id a) n (q_reserved q)) else q).
  constructor; auto; try (symmetry; apply map_id); try reflexivity.
  - intros q _. destruct (q_id q =? ap_queue a); reflexivity.
  - intros q Hq. destruct (N.eqb_spec (q_id q) (ap_queue a)) as [E|E]; [|reflexivity]. cbn [q_set_reserved q_reserved]. unfold qr_unreserve.
    destruct (find (fun x => fst x =? ap_id a) (q_reserved q)) as [en|] eqn:Ef; [|reflexivity]. exfalso.
    apply find_some in Ef. destruct Ef as [Hen Een]. apply N.eqb_eq in Een.
    pose proof (r_qcount _ s HR a q Ha Hq E) as Hc. rewrite Hn in Hc. cbn [length] in Hc.
    assert (Hq2 : qcount (q_reserved q) (ap_id a) = snd en) by (unfold qcount; rewrite <- Een, (find_in_nodup fst (q_reserved q) en (r_qnodup _ s HR q Hq) Hen); reflexivity).
    destruct (r_qhome _ s HR q en Hq Hen) as [Hp _]. lia. Qed.

Lemma r_cancel_all_none s a : Ids0 s -> RInv s -> In a (s_apps s) -> ap_reservations a = [] -> NF None None s (r_cancel_all s a).
Proof. intros HI HR Ha Hn. unfold r_cancel_all. rewrite Hn. cbn [fold_left]. apply queue_unreserve_none; assumption. Qed.

Lemma ask_state_check_nf s aid : NF None None s (ask_state_check s aid).
Proof. unfold ask_state_check. exists (fun b => if ap_id b =? aid then (if IsZero (Some (ap_pending b)) && IsZero (Some (ap_allocated b)) && negb (ap_state b =? ST_Failing)
       && negb (ap_state b =? ST_Completing) && negb (existsb oa_ph (ap_allocs b)) then ap_event b (fsm_complete (ap_state b)) else b) else b), (fun m => m), (fun q => q).
  assert (K : forall b, let b' := (if IsZero (Some (ap_pending b)) && IsZero (Some (ap_allocated b)) && negb (ap_state b =? ST_Failing)
       && negb (ap_state b =? ST_Completing) && negb (existsb oa_ph (ap_allocs b)) then ap_event b (fsm_complete (ap_state b)) else b) in
       ap_id b' = ap_id b /\ ap_queue b' = ap_queue b /\ ap_reservations b' = ap_reservations b /\ ap_requests b' = ap_requests b).
  { intros b. cbv zeta. destruct (_ && _); [|auto]. destruct (ap_event_fields b (fsm_complete (ap_state b))) as (E1 & E2 & E3 & E4 & _). auto. }
  constructor; auto; try (symmetry; apply map_id); try reflexivity.
  - intros b _. destruct (ap_id b =? aid); [apply K|reflexivity].
  - intros b _. destruct (ap_id b =? aid); [apply K|reflexivity].
  - intros b _. destruct (ap_id b =? aid); [apply K|reflexivity].
  - intros b nid k _ _ _ Ho. destruct (ap_id b =? aid); [|exact Ho]. unfold outstanding_at in *. rewrite (proj2 (proj2 (proj2 (K b)))). exact Ho.
  - intros p (b & x & Hb & E1 & Hx & E2 & E3) _. eexists _, x. cbn [upd_app s_apps]. split; [apply in_map; exact Hb|].
    destruct (ap_id b =? aid); [|auto]. destruct (K b) as (K1 & _ & _ & K4). cbv zeta in K1, K4. rewrite K1, K4. auto. Qed.

Lemma m_remove_all_asks4_none s a : Ids0 s -> RInv s -> find_app s (ap_id a) = Some a -> ap_reservations a = [] -> RInv (m_remove_all_asks4 s (ap_id a)).
Proof. intros HI HR Ea Hn. unfold m_remove_all_asks4. rewrite Ea. destruct (nilb (ap_requests a)); [exact HR|]. destruct (find_app_in _ _ _ Ea) as [Ha _].
  pose proof (r_cancel_all_none s a HI HR Ha Hn) as F1. set (s1 := r_cancel_all s a) in *.
  assert (HI1 : Ids0 s1) by (eapply NF_ids0; eassumption).
  (* the application record in s1 *)
  destruct F1 as (fa & fn & fq & F1).
  assert (Ha1 : In (fa a) (s_apps s1)) by (rewrite (nf_apps _ _ _ _ _ _ _ F1); apply in_map; exact Ha).
  assert (F1' : NF None None s s1) by (exists fa, fn, fq; exact F1).
  pose proof (NF_rinv _ _ _ _ F1' HR) as HR1.
  set (s2 := upd_app s1 (ap_id a) (fun b => ap_with b (ap_state b) [] (ap_allocated b) (ap_phalloc b) [] (ap_allocs b) (ap_statelog b))).
  assert (F2 : NF None None s1 s2).
  { unfold s2. exists (fun b => if ap_id b =? ap_id a then ap_with b (ap_state b) [] (ap_allocated b) (ap_phalloc b) [] (ap_allocs b) (ap_statelog b) else b), (fun m => m), (fun q => q).
    assert (Nr : forall b, In b (s_apps s1) -> ap_id b = ap_id a -> ap_reservations b = []).
    { intros b Hb Eb. assert (b = fa a) by (apply (nodup_key_eq ap_id (s_apps s1)); auto; [apply (id0_apps s1 HI1)|rewrite (nf_aid _ _ _ _ _ _ _ F1 a Ha); exact Eb]). subst b.
      rewrite (nf_ares _ _ _ _ _ _ _ F1 a Ha). exact Hn. }
    constructor; auto; try (symmetry; apply map_id); try reflexivity.
    - intros b _. destruct (ap_id b =? ap_id a); reflexivity.
    - intros b _. destruct (ap_id b =? ap_id a); reflexivity.
    - intros b _. destruct (ap_id b =? ap_id a); reflexivity.
    - intros b nid k Hb Hr _ Ho. destruct (N.eqb_spec (ap_id b) (ap_id a)) as [E|E]; [|exact Ho]. rewrite (Nr b Hb E) in Hr. contradiction.
    - intros p (b & x & Hb & E1 & Hx & E2 & E3) (b0 & nid & Hb0 & E4 & Hr).
      assert (b0 = b) by (apply (nodup_key_eq ap_id (s_apps s1)); auto; [apply (id0_apps s1 HI1)|congruence]). subst b0.
      destruct (N.eqb_spec (ap_id b) (ap_id a)) as [E|E]; [rewrite (Nr b Hb E) in Hr; contradiction|].
      exists b, x. cbn [upd_app s_apps]. split; [apply in_map_iff; exists b; apply N.eqb_neq in E; rewrite E; auto|auto]. }
  destruct (q_dec_pending_shape s2 (ap_queue a) (ap_pending a)) as (g & Eg & Kg).
  eapply NF_rinv; [|exact HR1]. apply (NF_trans None None None s1 s2 _ F2).
  apply (NF_trans None None None s2 (q_dec_pending s2 (ap_queue a) (ap_pending a)) _); [apply (NF_queues None s2 _ g); [reflexivity|reflexivity|exact Eg|exact Kg]|apply ask_state_check_nf]. Qed.

Lemma m_release_all4_none s a ttype s' : Ids s -> RInv s -> find_app s (ap_id a) = Some a -> ap_reservations a = [] -> m_release_all4 s a ttype = Some s' -> RInv s'.
Proof. intros HI HR Ea Hn H. unfold m_release_all4 in H. destruct (negb (plain_allocs a)); [discriminate|]. cbv zeta in H. apply Some_inj in H. subst s'.
  destruct (find_app_in _ _ _ Ea) as [Ha _].
  match goal with |- RInv (if _ then ?S5 else _) => set (s5 := S5) end.
  assert (F5 : NF None None s s5).
  { unfold s5. eapply NF_trans; [|apply add_counts_nf].
    match goal with |- NF _ _ s (if _ then q_dec_preempting ?S3 _ _ else _) => assert (F3 : NF None None s S3) end.
    { match goal with |- NF _ _ s (if _ then q_dec ?S2 _ _ else _) => assert (F2 : NF None None s S2) end.
      { match goal with |- NF _ _ s (remove_allocs_from_nodes (upd_app s _ (fun _ => ?A2)) _) => set (a2 := A2) end.
        assert (F1 : NF None None s (upd_app s (ap_id a) (fun _ => a2))).
        { apply (upd_app_const_nf s a a2 (ids_ids0 _ HI) Ha Hn); unfold a2; cbn [ap_with ap_id ap_queue ap_reservations];
            match goal with |- context [ap_event a ?st] => destruct (ap_event_fields a st) as (E1 & E2 & E3 & _) end; assumption. }
        eapply NF_trans; [exact F1|]. apply rafn_nf. eapply NF_ids0; [exact F1|apply ids_ids0; exact HI]. }
      match goal with |- NF _ _ s (if ?c then q_dec _ _ _ else _) => destruct c; [|exact F2] end.
      match goal with |- NF _ _ s (q_dec ?S2 ?L ?R) => destruct (q_dec_shape S2 L R) as (g & Eg & Kg & Ea' & En'); apply (NF_trans None None None s S2 _ F2); apply (NF_queues None S2 _ g); assumption end. }
    match goal with |- NF _ _ s (if ?c then q_dec_preempting ?S3 _ _ else _) => destruct c; [apply (NF_trans None None None s S3 _ F3); apply NF_dec_preempting|exact F3] end. }
  pose proof (NF_rinv _ _ _ _ F5 HR) as HR5.
  destruct (ttype =? TT_Timeout); [exact HR5|].
  (* the record of the application in s5 *)
  pose proof (NF_ids0 _ _ _ _ F5 (ids_ids0 _ HI)) as HI5. destruct F5 as (fa & fn & fq & F5).
  assert (Ha5 : In (fa a) (s_apps s5)) by (rewrite (nf_apps _ _ _ _ _ _ _ F5); apply in_map; exact Ha).
  pose proof (nf_aid _ _ _ _ _ _ _ F5 a Ha) as E5. rewrite <- E5.
  apply m_remove_all_asks4_none; [exact HI5|exact HR5|apply find_app_of; assumption|rewrite (nf_ares _ _ _ _ _ _ _ F5 a Ha); exact Hn]. Qed.

(* ------------------------------------------------------------------ C09d.5: every step of m_step4 *)
Lemma m_alloc4_contra deny s st r s' : st_op st = OpAlloc r -> st_panic st = false -> m_step2 deny s st = None -> m_alloc4 s r = Some s' ->
  (forall a, find_app s (rq_app r) = Some a -> ap_reservations a = []) -> Ids0 s -> False.
Proof. intros Eop Hp H2 H4 Hn HI. unfold m_alloc4 in H4. destruct (negb (rq_partition_ok r) || rq_foreign r) eqn:Eg; [discriminate|].
  destruct (find_app s (rq_app r)) as [a|] eqn:Ea; [|discriminate]. destruct (negb (rq_node r =? 0) && _) eqn:Eg2; [discriminate|].
  destruct (IsZero (rq_res r) || _) eqn:Eg3; [discriminate|]. destruct (find_alloc (ap_requests a) (rq_key r)) as [x|] eqn:Ex; [|discriminate].
  destruct (m_update_existing (hide_res s (ap_id a)) (ap_set_res a []) x r) as [s1|] eqn:E; [|discriminate].
  destruct (find_app_in _ _ _ Ea) as [Ha Eid]. pose proof (Hn a eq_refl) as Hr.
  rewrite (hide_res_same s (ap_id a)) in E.
  2: { intros b Hb Eb. assert (b = a) by (apply (nodup_key_eq ap_id (s_apps s)); auto; apply (id0_apps s HI)). subst b. exact Hr. }
  rewrite <- Hr, ap_set_res_same in E.
  unfold m_step2 in H2. destruct (m_step deny s st); [discriminate|]. rewrite Hp, Eop in H2. unfold m_alloc2 in H2. rewrite Eg, Ea, Eg2, Eg3, Ex, E in H2. discriminate. Qed.

Lemma m_app_remove4_contra deny s st id s' : st_op st = OpAppRemove id -> st_panic st = false -> m_step2 deny s st = None -> m_app_remove4 s id = Some s' ->
  (forall a, find_app s id = Some a -> ap_reservations a = []) -> False.
Proof. intros Eop Hp H2 H4 Hn. unfold m_app_remove4 in H4. unfold m_step2 in H2. destruct (m_step deny s st); [discriminate|]. rewrite Hp, Eop in H2.
  unfold m_app_remove in H2. destruct (find_app s id) as [a|] eqn:Ea; [|discriminate]. destruct (negb (plain_allocs a)); [discriminate|].
  unfold no_res in H2. rewrite (Hn a eq_refl) in H2. discriminate. Qed.

Lemma preempt_fold_nodes l : forall s0,
  s_nodes (fold_left (fun acc x => match find_app acc (oa_app x) with
                                   | Some a => if oa_preempted x && is_some (find_alloc (ap_allocs a) (oa_key x)) then q_dec_preempting acc (ap_queue a) (oa_res x) else acc
                                   | None => acc end) l s0) = s_nodes s0.
Proof. induction l as [|x t IH]; intros s0; [reflexivity|]. cbn [fold_left]. rewrite IH.
  destruct (find_app s0 (oa_app x)) as [a|]; [|reflexivity]. destruct (_ && _); reflexivity. Qed.

Lemma m_node_remove4_contra deny s st id s' : st_op st = OpNodeRemove id -> st_panic st = false -> m_step2 deny s st = None -> m_node_remove4 s id = Some s' ->
  (forall n, find_node s id = Some n -> on_reservations n = []) -> Ids0 s -> False.
Proof. intros Eop Hp H2 H4 Hn HI. unfold m_node_remove4 in H4. unfold m_step2 in H2. destruct (m_step deny s st); [discriminate|]. rewrite Hp, Eop in H2.
  destruct (find_node s id) as [n|] eqn:En; [|unfold m_node_remove in H2; rewrite En in H2; discriminate]. pose proof (Hn n eq_refl) as Hr.
  rewrite Hr in H4. cbn [forallb negb fold_left] in H4.
  (* the preempting fold and the stripping keep the node list up to the (empty) reservation list of the node *)
  unfold m_node_remove in H2, H4. rewrite En, Hr in H2. cbn [negb orb] in H2.
  match type of H4 with match find_node ?S id with _ => _ end = _ => assert (Ef : exists n2, find_node S id = Some n2 /\ on_allocs n2 = on_allocs n /\ on_reservations n2 = []) end.
  { match goal with |- exists n2, find_node (upd_node ?S2 id _) id = _ /\ _ => assert (E2 : s_nodes S2 = s_nodes s) end.
    { apply preempt_fold_nodes. }
    exists (n_set_res n []). unfold find_node. cbn [upd_node s_nodes]. rewrite E2. rewrite (find_map on_id) by (intros m; destruct (on_id m =? id); reflexivity).
    fold (find_node s id). rewrite En. cbn [option_map]. destruct (find_node_in _ _ _ En) as [_ Enid]. rewrite Enid, N.eqb_refl. auto. }
  destruct Ef as (n2 & Ef & Ea2 & Er2). rewrite Ef, Er2, Ea2 in H4. cbn [negb orb] in H4.
  destruct (negb (forallb _ (on_allocs n))); [discriminate|].
  destruct (remove_node_allocs _ (on_allocs n)) in H2. discriminate. Qed.

