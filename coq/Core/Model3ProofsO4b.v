(* C03 over the gang fragment (Core/Model3.v): releases that are not the confirmation of a replacement, part 2.
   [ra_ask_step]: removeAsksInternal(key) ([app_remove_ask]; a private copy, see the note at the lemma);
   [g_release_ask_step]: removeAllocation for a key that is no allocation of the application;
   [g_release_alloc_step]: removeAllocation for a listed allocation without in-flight link (placeholder or real), all
   termination types, with and without termination of the application;  [g_release_plain_step]: both. *)
From Coq Require Import List ZArith NArith Bool Lia ZifyBool.
From YK Require Import Base.Int64 Base.Res Base.ResSpec Base.ResLemmas Base.ResLaws Base.ResLaws2 Base.ResLawsPred
  Core.Obs Core.Model Core.Model2 Core.Model3 Core.Ledger
  Core.BooksLemmas Core.BooksDefs Core.BooksTree Core.BooksQueue Core.BooksApp Core.BooksState Core.BooksDrain Core.BooksOps
  Core.BooksOps2 Core.BooksOps3 Core.Model2ProofsB1 Core.Model2ProofsB2 Core.Model2ProofsB4 Core.Model3ProofsD Core.Model3ProofsD2
  Core.Model3ProofsG1 Core.Model3ProofsG2 Core.Model3ProofsG3 Core.Model3ProofsG4 Core.Model3ProofsG5 Core.Model3ProofsG6
  Core.Model3ProofsA1 Core.Model3ProofsA2 Core.Model3ProofsO4.
Import ListNotations.
Open Scope Z_scope.
Set Default Timeout 30.

(* ================================================================== 1. removeAsksInternal(key) *)
Lemma updk_updk_fun {A} (key : A -> N) l id (a1 : A) (f : A -> A) : key a1 = id ->
  updk key (updk key l id (fun _ => a1)) id f = updk key l id (fun _ => f a1).
Proof. intros E. unfold updk. rewrite map_map. apply map_ext. intros b. destruct (N.eqb_spec (key b) id) as [Eb|Eb].
  - rewrite E, N.eqb_refl. reflexivity.
  - destruct (N.eqb_spec (key b) id); [contradiction|reflexivity]. Qed.

(* LinkOK when one application's request list shrinks (allocation list and nodes untouched) *)
Lemma link_reqs_shrink s s' a a' : InvG s -> LinkOK s -> In a (s_apps s) ->
  s_apps s' = updk ap_id (s_apps s) (ap_id a) (fun _ => a') -> s_nodes s' = s_nodes s -> ap_id a' = ap_id a ->
  ap_allocs a' = ap_allocs a -> incl (ap_requests a') (ap_requests a) -> LinkOK s'.
Proof. intros HI [L1 L2] Ha Eapps En Eid Eal Hreq. split.
  - intros n y Hn Hy Hi. rewrite En in Hn. destruct (L1 n y Hn Hy Hi) as (a0 & ph & Ha0 & Ea0 & Hph & R).
    destruct (N.eq_dec (ap_id a0) (ap_id a)) as [E|E].
    + assert (a0 = a) by (apply (g_same_app s a a0 HI Ha Ha0 E)). subst a0. exists a', ph.
      split; [apply (g_in_apps' s s' a a' HI Ha Eapps); auto|]. split; [congruence|]. split; [rewrite Eal; exact Hph|exact R].
    + exists a0, ph. split; [apply (g_in_apps' s s' a a' HI Ha Eapps); auto|]. auto.
  - intros a0 ph r Ha0 Hph Pph Lph Hr Kr Pr Ar. rewrite En. apply (g_in_apps' s s' a a' HI Ha Eapps) in Ha0. destruct Ha0 as [->|[Ha0 _]].
    + rewrite Eal in Hph. apply (L2 a ph r Ha Hph Pph Lph (Hreq r Hr) Kr Pr Ar).
    + apply (L2 a0 ph r Ha0 Hph Pph Lph Hr Kr Pr Ar). Qed.

(* removeAsksInternal, generically: the record a1 is a with fewer requests and the pending ledger lowered by delta, the
   queue path gives delta back, then the state check.
   NOTE: agent O1 proves removeAsksInternal in Core/Model3ProofsO1b.v ([app_remove_ask_step2], [app_remove_all_asks_step2]);
   that file did not exist when this one was started, and the release needs more than InvG2 / BooksG (it is applied to an
   intermediate state and followed by [terminate_if_done]: the result comes with Bounded3 and with what happens to the
   addressed application), so this is a private copy. *)
Section RemoveAsksCore.
  Variables (s : ostate) (id : N) (a a1 : oapp) (delta : res).
  Hypothesis HI2 : InvG2 s.
  Hypothesis HB : BooksG s.
  Hypothesis HBd : Bounded3 s.
  Hypothesis Efa : find_app s id = Some a.
  Hypothesis F1 : ap_id a1 = ap_id a.
  Hypothesis F2 : ap_queue a1 = ap_queue a.
  Hypothesis Fst : ap_state a1 = ap_state a.
  Hypothesis SA : same_alloc a a1.
  Hypothesis Hincl : incl (ap_requests a1) (ap_requests a).
  (* the real half of an in-flight replacement that a node lists keeps its request *)
  Hypothesis Hkeep : forall n y, In n (s_nodes s) -> In y (on_allocs n) -> In y (ap_requests a) -> infl y = true -> In y (ap_requests a1).
  Hypothesis BP1 : PendBooks a1.
  Hypothesis W1 : AppWF3 a1.
  Hypothesis Dp : forall k, getz (ap_pending a1) k = getz (ap_pending a) k - getz delta k.
  Hypothesis Wd : wf delta.
  Hypothesis Bdl : rb delta.
  Hypothesis Nd : rnonneg delta.
  Hypothesis Dle : forall k, getz delta k <= getz (ap_pending a) k.

  Let HI := ig2_inv s HI2.
  Let Ha : In a (s_apps s) := proj1 (find_app_some s id a Efa).
  Let Eaid : ap_id a = id := proj2 (find_app_some s id a Efa).
  Let B := bg_apps s HB a Ha.
  Let a2 := asks_state_check a1.
  Let s' := upd_app (q_dec_pending (upd_app s id (fun _ => a1)) (ap_queue a) delta) id asks_state_check.

  Theorem ra_core : InvG2 s' /\ BooksG s' /\ Bounded3 s' /\
    exists a', find_app s' id = Some a' /\ is_terminal (ap_state a') = is_terminal (ap_state a) /\ ap_allocs a' = ap_allocs a.
  Proof. pose proof (same_ledgers_state_check a1) as SL. fold a2 in SL. destruct SL as [S1 S2 S3 S4 S5 S6 S7]. destruct SA as (SA1 & SA2 & SA3).
    assert (Eapps : s_apps s' = updk ap_id (s_apps s) (ap_id a) (fun _ => a2)).
    { unfold s'. cbn [upd_app s_apps]. rewrite (sq_apps _ _ (q_dec_pending_same _ _ _)). cbn [upd_app s_apps]. rewrite Eaid.
      apply (updk_updk_fun ap_id). congruence. }
    assert (Enodes : s_nodes s' = s_nodes s) by (unfold s'; cbn [upd_app s_nodes]; rewrite (sq_nodes _ _ (q_dec_pending_same _ _ _)); reflexivity).
    assert (Eq : s_queues s' = path_map s (ap_queue a) (F_dec_pending delta)).
    { unfold s'. cbn [upd_app s_queues]. apply g_q_dec_pending_queues. reflexivity. }
    assert (Ef : s_foreign s' = s_foreign s) by (unfold s'; cbn [upd_app s_foreign]; rewrite (sq_foreign _ _ (q_dec_pending_same _ _ _)); reflexivity).
    assert (Ec : s_nallocs s' = s_nallocs s) by (unfold s'; cbn [upd_app s_nallocs]; rewrite (sq_nallocs _ _ (q_dec_pending_same _ _ _)); reflexivity).
    assert (FQ : forall q, In q (s_queues s) -> In (q_id q) (path_ids s (ap_queue a)) -> QFacts q (F_dec_pending delta q) zero3 (fun k => - getz delta k)).
    { intros q Hq Hin. apply F_dec_pending_Q; [apply (g_qok s q HI HB HBd Hq)|exact Wd|exact Bdl|].
      intros k. pose proof (g_pending_dominated s a HI HB Ha q k Hq Hin). specialize (Dle k). lia. }
    assert (B2 : AppBooks a2).
    { apply AppBooks_sides. destruct (proj1 (AppBooks_sides a) B) as [BA _]. split.
      - apply (same_alloc_books a); [repeat split; congruence|exact BA].
      - apply (same_pend_books a1); [split; assumption|exact BP1]. }
    assert (W2 : AppWF3 a2) by (apply (same_ledgers_wf3 a1); [constructor; assumption|exact W1]).
    assert (Hinv : InvG s' /\ BooksG s').
    { apply (gang_step s s' a a2 (F_dec_pending delta) zero3 (fun k => - getz delta k) HI HB Ha Eapps Eq Ef); try reflexivity; auto; try congruence.
      - apply rec_keys_incl. unfold app_records, akeys. rewrite !map_app, S6, S7, SA3. apply incl_app; [apply incl_appl, incl_map, Hincl|apply incl_appr, incl_refl].
      - intros k. rewrite S4, S5, SA1, SA2. unfold zero3. lia.
      - intros k. rewrite S3, Dp. lia.
      - rewrite Enodes. apply (ig_node_ids s HI).
      - rewrite Enodes. apply (ig_nodes s HI).
      - apply (owned_nodes_same s s' a a2 HI Ha Eapps (eq_trans S1 F1) Enodes). intros n y Hn Hy Ho.
        apply (ownedby_reqs a a2 y (eq_trans S7 SA3)); [|exact Ho]. intros Hyr Hi _. rewrite S6. apply (Hkeep n y Hn Hy Hyr Hi).
      - apply (onnode_nodes_same s s' a a2 HI Ha Eapps Enodes). rewrite S7, SA3. apply incl_refl.
      - apply (g_count_step s s' a a2 HI Ha Eapps 0); [rewrite S7, SA3; lia|lia].
      - intros k. rewrite (node_records_same s s' Enodes). unfold zero3. lia. }
    destruct Hinv as [HI' HB']. split; [constructor; [exact HI'|]|]; [|split; [exact HB'|split]].
    - apply (link_reqs_shrink s s' a a2 HI (ig2_link s HI2) Ha Eapps Enodes); [congruence|congruence|rewrite S6; exact Hincl].
    - apply (bounded3_shrink s s' HBd).
      + intros b' Hb'. apply (g_in_apps' s s' a a2 HI Ha Eapps) in Hb'. destruct Hb' as [->|[Hb _]].
        * exists a. split; [exact Ha|]. constructor.
          -- intros k. rewrite S3. pose proof (rnonneg_fnonneg _ (proj2 BP1) k) as H. rewrite Dp in *. pose proof (rnonneg_fnonneg _ Nd k). lia.
          -- rewrite S4, SA1. apply ResLe_refl, (ab_nn_alloc a B).
          -- rewrite S5, SA2. apply ResLe_refl, (ab_nn_ph a B).
          -- rewrite S6. exact Hincl.
          -- rewrite S7, SA3. apply incl_refl.
        * exists b'. split; [exact Hb|]. apply AppLe_refl, (bg_apps s HB b' Hb).
      + apply (queues_shrink s s' (ap_queue a) (F_dec_pending delta) zero3 (fun k => - getz delta k) HI HB Eq FQ).
        * intros k. unfold zero3. lia.
        * intros k. pose proof (rnonneg_fnonneg _ Nd k). lia.
      + intros m' Hm'. rewrite Enodes in Hm'. exists m'. split; [exact Hm'|]. intros k. pose proof (g_node_ledger_nonneg s m' k HI Hm'). lia.
    - exists a2. split; [rewrite <- Eaid; apply (g_find_app' s s' a a2 HI Ha Eapps); congruence|].
      split; [unfold a2; rewrite asks_state_check_terminal, Fst; reflexivity|congruence]. Qed.
End RemoveAsksCore.

(* removeAsksInternal(key): the request with the given key (pending, stale allocated, or the real half of a same-node
   replacement) is removed *)
Section RemoveAsk.
  Variables (s s' : ostate) (id key : N) (a : oapp).
  Hypothesis HI2 : InvG2 s.
  Hypothesis HB : BooksG s.
  Hypothesis HBd : Bounded3 s.
  Hypothesis Efa : find_app s id = Some a.
  (* no node lists a record of the application under the released key: otherwise the node keeps a record nobody owns
     (the real half of a cross-node replacement: known finding trigger 5 / finding 9 of notes/m3gang.md) *)
  Hypothesis Hnorec : forall n y, In n (s_nodes s) -> In y (on_allocs n) -> oa_app y = id -> oa_key y <> key.
  Hypothesis Hstep : app_remove_ask s id key = Some s'.

  Let HI := ig2_inv s HI2.
  Let Ha : In a (s_apps s) := proj1 (find_app_some s id a Efa).
  Let Eaid : ap_id a = id := proj2 (find_app_some s id a Efa).
  Let W := ig_app_wf s HI a Ha.
  Let B := bg_apps s HB a Ha.
  Let Bd := bd_apps s (b3_base s HBd) a Ha.

  Definition ra_delta : res := match find_alloc (ap_requests a) key with Some r => if oa_allocated r then [] else oa_res r | None => [] end.
  Definition ra_a1 : oapp :=
    match find_alloc (ap_requests a) key with
    | None => a
    | Some r => ap_set_lists (ap_set_ledgers a (if oa_allocated r then ap_pending a else Prune (Sub (Some (ap_pending a)) (Some (oa_res r))))
                                             (ap_allocated a) (ap_phalloc a)) (del_alloc key (ap_requests a)) (ap_allocs a)
    end.

  Lemma ra_unfold : ap_requests a <> [] -> s' = upd_app (q_dec_pending (upd_app s id (fun _ => ra_a1)) (ap_queue a) ra_delta) id asks_state_check.
  Proof. intros Hne. unfold app_remove_ask in Hstep. rewrite Efa in Hstep. destruct (negb (no_res a)); [discriminate|].
    destruct (ap_requests a) as [|r0 t] eqn:Er; [contradiction|]. rewrite <- Er in *. unfold ra_a1, ra_delta.
    destruct (find_alloc (ap_requests a) key) as [r|]; inversion Hstep; reflexivity. Qed.

  Lemma ra_a1_facts : ap_id ra_a1 = ap_id a /\ ap_queue ra_a1 = ap_queue a /\ same_alloc a ra_a1 /\ incl (ap_requests ra_a1) (ap_requests a) /\
    (forall y, In y (ap_requests a) -> oa_key y <> key -> In y (ap_requests ra_a1)) /\ ap_state ra_a1 = ap_state a /\
    PendBooks ra_a1 /\ AppWF3 ra_a1 /\ PendBd ra_a1 /\ (forall k, getz (ap_pending ra_a1) k = getz (ap_pending a) k - getz ra_delta k) /\
    wf ra_delta /\ rb ra_delta /\ rnonneg ra_delta /\ (forall k, getz ra_delta k <= getz (ap_pending a) k).
  Proof. pose proof (proj2 (proj1 (AppBooks_sides a) B)) as BP. pose proof (proj2 (proj1 (AppBounded3_sides a) (conj Bd (b3_ph s HBd a Ha)))) as BdP.
    assert (Z0 : forall k, getz ([] : res) k <= getz (ap_pending a) k) by (intros k; rewrite getz_nil; apply (rnonneg_fnonneg _ (ab_nn_pend a B) k)).
    unfold ra_a1, ra_delta. destruct (find_alloc (ap_requests a) key) as [r|] eqn:Er.
    - destruct (find_alloc_some _ _ _ Er) as [Hr Kr]. subst key. destruct (w3_req a W r Hr) as [Wr Nr _ _ _]. pose proof (abd_req a Bd r Hr) as Br.
      pose proof (AppWF3_raw a W) as R. pose proof (WF3_del_req _ _ _ R (oa_key r)) as R'.
      assert (Hb : forall y, In y (del_alloc (oa_key r) (ap_requests a)) -> rb (oa_res y)) by (intros y Hy; apply in_del_alloc in Hy; apply (abd_req a Bd y); tauto).
      assert (Hkeep : forall y, In y (ap_requests a) -> oa_key y <> oa_key r -> In y (del_alloc (oa_key r) (ap_requests a))) by (intros y Hy Hne; apply in_del_alloc; auto).
      split; [reflexivity|]. split; [reflexivity|]. split; [repeat split|]. split; [apc; apply incl_filter|]. split; [exact Hkeep|]. split; [reflexivity|].
      destruct (oa_allocated r) eqn:Eal.
      + match goal with |- PendBooks ?b /\ _ => destruct (pend_same a b W BP BdP eq_refl) as (P1 & P2 & P3); try assumption; try reflexivity; try (repeat split; reflexivity) end.
        { intros k. apc. rewrite asum_filter_del_in by (try assumption; apply W). unfold is_pending. rewrite Eal. cbn [negb]. lia. }
        split; [exact P1|]. split; [exact P2|]. split; [exact P3|]. split; [intros k; apc; rewrite getz_nil; lia|].
        split; [constructor|]. split; [apply rb_nil|]. split; [apply rnonneg_nil|exact Z0].
      + match goal with |- PendBooks ?b /\ _ => destruct (pend_psub a b (oa_res r) W BP BdP eq_refl) as (P1 & P2 & P3 & P4); try assumption; try reflexivity; try (repeat split; reflexivity) end.
        { intros k. apc. rewrite asum_filter_del_in by (try assumption; apply W). unfold is_pending. rewrite Eal. cbn [negb]. lia. }
        split; [exact P1|]. split; [exact P2|]. split; [exact P3|]. split; [exact P4|].
        split; [exact Wr|]. split; [exact Br|]. split; [exact Nr|]. intros k. apply (g_ask_le_pending a r k W B Hr Eal).
    - split; [reflexivity|]. split; [reflexivity|]. split; [repeat split|]. split; [apply incl_refl|]. split; [auto|]. split; [reflexivity|].
      split; [exact BP|]. split; [exact W|]. split; [exact BdP|]. split; [intros k; rewrite getz_nil; lia|].
      split; [constructor|]. split; [apply rb_nil|]. split; [apply rnonneg_nil|exact Z0]. Qed.

  Theorem ra_ask_step : InvG2 s' /\ BooksG s' /\ Bounded3 s' /\
    exists a', find_app s' id = Some a' /\ is_terminal (ap_state a') = is_terminal (ap_state a) /\ ap_allocs a' = ap_allocs a.
  Proof. destruct (ap_requests a) as [|r0 t] eqn:Er.
    { unfold app_remove_ask in Hstep. rewrite Efa, Er in Hstep. destruct (negb (no_res a)); [discriminate|]. inversion Hstep; subst s'.
      split; [exact HI2|]. split; [exact HB|]. split; [exact HBd|]. exists a. auto. }
    assert (Hne : ap_requests a <> []) by (rewrite Er; discriminate). clear Er r0 t.
    rewrite (ra_unfold Hne). destruct ra_a1_facts as (F1 & F2 & SA & Hincl & Hkeep & Fst & BP1 & W1 & BdP1 & Dp & Wd & Bdl & Nd & Dle).
    apply (ra_core s id a ra_a1 ra_delta HI2 HB HBd Efa); try assumption.
    intros n y Hn Hy Hyr _. apply Hkeep; [exact Hyr|]. apply (Hnorec n y Hn Hy). rewrite <- Eaid. apply (g_record_app s a y HI Ha). apply in_records. auto. Qed.
End RemoveAsk.

(* removeAsksInternal(""): every request is removed, the pending ledger is zeroed *)
Section RemoveAllAsks.
  Variables (s s' : ostate) (id : N) (a : oapp).
  Hypothesis HI2 : InvG2 s.
  Hypothesis HB : BooksG s.
  Hypothesis HBd : Bounded3 s.
  Hypothesis Efa : find_app s id = Some a.
  (* no node lists the real half of an in-flight replacement of the application (cross-node: known_trigger 5) *)
  Hypothesis Hnoinfl : forall n y, In n (s_nodes s) -> In y (on_allocs n) -> oa_app y = id -> infl y = false.
  Hypothesis Hstep : app_remove_all_asks s id = Some s'.

  Let HI := ig2_inv s HI2.
  Let Ha : In a (s_apps s) := proj1 (find_app_some s id a Efa).
  Let Eaid : ap_id a = id := proj2 (find_app_some s id a Efa).
  Let W := ig_app_wf s HI a Ha.
  Let B := bg_apps s HB a Ha.
  Let Bd := bd_apps s (b3_base s HBd) a Ha.

  Theorem ra_all_asks_step : InvG2 s' /\ BooksG s' /\ Bounded3 s' /\
    exists a', find_app s' id = Some a' /\ is_terminal (ap_state a') = is_terminal (ap_state a) /\ ap_allocs a' = ap_allocs a.
  Proof. unfold app_remove_all_asks in Hstep. rewrite Efa in Hstep. destruct (negb (no_res a)); [discriminate|].
    destruct (ap_requests a) as [|r0 t] eqn:Er.
    { inversion Hstep; subst s'. split; [exact HI2|]. split; [exact HB|]. split; [exact HBd|]. exists a. auto. }
    clear Er r0 t. inversion Hstep as [Es]. clear Hstep.
    set (a1 := ap_set_lists (ap_set_ledgers a [] (ap_allocated a) (ap_phalloc a)) [] (ap_allocs a)).
    apply (ra_core s id a a1 (ap_pending a) HI2 HB HBd Efa); try reflexivity.
    - repeat split.
    - intros y [].
    - intros n y Hn Hy Hyr Hi. exfalso. rewrite (Hnoinfl n y Hn Hy) in Hi; [discriminate|].
      rewrite <- Eaid. apply (g_record_app s a y HI Ha). apply in_records. auto.
    - unfold PendBooks, a1. apc. apply LBk_nil.
    - apply (AppWF3_intro a1 (ap_id a) [] (ap_allocs a)); try reflexivity; [apply (WF3_nil_req _ _ _ (AppWF3_raw a W))|constructor|apply W|apply W].
    - intros k. unfold a1. apc. rewrite getz_nil. lia.
    - apply (w3_pending a W).
    - apply (abd_pending a Bd).
    - apply (ab_nn_pend a B). Qed.
End RemoveAllAsks.

(* ================================================================== 2. side hypotheses of the plain release *)
(* Allocation keys are interned positive numbers, 0 encodes "no link" ([oa_release]).  [InvG] does not say so; the
   frame argument for [LinkL1] needs it for the records the nodes list: a placeholder with [oa_release = 0] must not
   count as linked to a record with key 0. *)
Definition NodeKeysNZ (s : ostate) : Prop := forall n y, In n (s_nodes s) -> In y (on_allocs n) -> oa_key y <> 0%N.
(* A Completing application does not hold real allocations and placeholders at the same time: removeAllocationInternal
   completes an application whose pending and allocated ledgers are zero without looking at its placeholders
   (hasZeroAllocations), so the release of the last real allocation would terminate it while placeholders are bound
   (trigger 4 family).  Reachable Completing applications hold no real allocation at all. *)
Definition CompletingOK (a : oapp) : Prop := (ap_state a =? ST_Completing)%N = true -> real_allocs a = [] \/ ph_allocs a = [].

Lemma set_apps_same t l : s_apps t = l -> set_apps t l = t.
Proof. destruct t. cbn. intros <-. reflexivity. Qed.
Lemma app_fire_reservations a e : ap_reservations (app_fire a e) = ap_reservations a.
Proof. unfold app_fire. destruct (fsm3 _ _); [destruct (_ =? _)%N|]; reflexivity. Qed.
Lemma app_remove_alloc_reservations a x t : ap_reservations (app_remove_alloc a x t) = ap_reservations a.
Proof. unfold app_remove_alloc. cbv zeta. destruct (oa_ph x); ifs;
  cbn [ap_reservations ap_set_lists ap_set_ledgers ap_with ap_with_ph]; rewrite ?app_fire_reservations; reflexivity. Qed.

Lemma x_le_queue s a x q k : InvG s -> BooksG s -> In a (s_apps s) -> In x (ap_allocs a) -> In q (s_queues s) ->
  In (q_id q) (path_ids s (ap_queue a)) -> getz (oa_res x) k <= getz (q_alloc q) k.
Proof. intros HI HB Ha Hx Hq Hin. pose proof (ig_app_wf s HI a Ha) as W. pose proof (bg_apps s HB a Ha) as B.
  pose proof (g_usage_dominated s a HI HB Ha q k Hq Hin) as D.
  pose proof (rnonneg_fnonneg _ (ab_nn_alloc a B) k) as N1. pose proof (rnonneg_fnonneg _ (ab_nn_ph a B) k) as N2.
  destruct (oa_ph x) eqn:Eph; [pose proof (g_ph_le_phalloc a x k W B Hx Eph) as L|pose proof (g_alloc_le_allocated a x k W B Hx Eph) as L]; lia. Qed.

(* the removal that terminates the application removes its last allocation *)
Lemma release_last a x (t : N) : AppWF3 a -> AppBooks a -> AllocBd a -> In x (ap_allocs a) -> remove_terminates a x = true ->
  TermOK a -> CompletingOK a -> del_alloc (oa_key x) (ap_allocs a) = [].
Proof. intros W B BdA Hx RT HT HC. pose proof (proj1 (proj1 (AppBooks_sides a) B)) as BA. destruct BA as [BR BP].
  destruct (remove_alloc_alloc_books a x t W BdA (conj BR BP) Hx) as [BR1 BP1].
  rewrite app_remove_alloc_allocs in BR1, BP1.
  assert (Hok : forall l, incl l (ap_allocs a) -> forall y, In y l -> wf (oa_res y) /\ rnonneg (oa_res y) /\ positive (oa_res y)).
  { intros l Hl y Hy. destruct (w3_alloc a W y (Hl y Hy)) as [O1 O2 O3 _ _]. auto. }
  assert (Hd : incl (del_alloc (oa_key x) (ap_allocs a)) (ap_allocs a)) by apply incl_filter.
  apply (two_filters_nil oa_ph); unfold remove_terminates in RT; destruct (oa_ph x) eqn:Eph.
  - apply andb_true_iff in RT. destruct RT as [Z _]. rewrite app_remove_alloc_phalloc, Eph in BP1. apply (LBk_zero_nil oa_ph _ _ (Hok _ Hd) BP1 (IsZero_getz _ Z)).
  - rewrite filter_del_comm. destruct (HC (proj2 (proj1 (andb_true_iff _ _) RT))) as [E|E].
    + exfalso. assert (Hr : In x (real_allocs a)) by (apply filter_In; rewrite Eph; auto). rewrite E in Hr. contradiction.
    + unfold ph_allocs in E. rewrite E. reflexivity.
  - rewrite filter_del_comm. apply andb_true_iff in RT. destruct RT as [_ RT].
    assert (E : real_allocs a = []).
    { apply orb_true_iff in RT. destruct RT as [RT|RT]; [apply HT; rewrite RT; reflexivity|].
      apply andb_true_iff in RT. destruct RT as [C RT]. apply orb_true_iff in RT. destruct RT as [RT|RT]; [apply HT; rewrite C, RT, orb_true_r; reflexivity|].
      apply andb_true_iff in RT. destruct RT as [_ Z]. apply (LBk_zero_nil is_real _ _ (Hok _ (incl_refl _)) BR (IsZero_getz _ Z)). }
    unfold real_allocs in E. rewrite E. reflexivity.
  - apply andb_true_iff in RT. destruct RT as [RT _]. apply andb_true_iff in RT. destruct RT as [_ Z]. rewrite app_remove_alloc_allocated, Eph in BR1.
    apply (LBk_zero_nil is_real _ _ (Hok _ Hd) BR1 (IsZero_getz _ Z)). Qed.

(* ================================================================== 3. removeAllocation for a listed allocation without link *)
Section ReleaseAlloc.
  Variables (s s' : ostate) (app key ttype : N) (a : oapp) (x : oalloc).
  Hypothesis HI2 : InvG2 s.
  Hypothesis HB : BooksG s.
  Hypothesis HBd : Bounded3 s.
  Hypothesis Efa : find_app s app = Some a.
  Hypothesis Efx : find_alloc (ap_allocs a) key = Some x.
  (* the application is live (terminated applications leave the live list at once) *)
  Hypothesis Live : is_terminal (ap_state a) = false.
  (* not the confirmation of a replacement *)
  Hypothesis Hconf : ((ttype =? TT_PlaceholderReplaced) && negb (oa_release x =? 0))%N = false.
  (* no node lists the real half of a replacement of x *)
  Hypothesis NoPartner : forall m y, In m (s_nodes s) -> In y (on_allocs m) -> infl y = true -> oa_app y = ap_id a -> oa_release y <> oa_key x.
  Hypothesis HT : TermOK a.
  Hypothesis HC : CompletingOK a.
  Hypothesis Hstep : g_release s app key ttype = Some s'.

  Let HI := ig2_inv s HI2.
  Let Ha : In a (s_apps s) := proj1 (find_app_some s app a Efa).
  Let Eaid : ap_id a = app := proj2 (find_app_some s app a Efa).
  Let Hx : In x (ap_allocs a) := proj1 (find_alloc_some _ _ _ Efx).
  Let Ekey : oa_key x = key := proj2 (find_alloc_some _ _ _ Efx).
  Let W := ig_app_wf s HI a Ha.
  Let B := bg_apps s HB a Ha.
  Let a1 := app_remove_alloc a x ttype.
  Let av := ap_set_lists a1 (ap_requests a) (ap_allocs a1).

  Lemma rl_bd : AllocBd a /\ PendBd a.
  Proof. apply AppBounded3_sides. split; [apply (bd_apps s (b3_base s HBd) a Ha)|apply (b3_ph s HBd a Ha)]. Qed.

  Lemma rl_node : exists n, find_node s (oa_node x) = Some n /\ In n (s_nodes s) /\ on_id n = oa_node x /\ In x (on_allocs n).
  Proof. destruct (ig_onnode s HI a x Ha Hx) as (n & Hn & En & Hxn). exists n. split; [apply (g_find_node_id s _ n HI Hn En)|auto]. Qed.

  Definition rl_s4 (n : onode) : ostate :=
    add_counts (q_dec (upd_node (upd_app s app (fun _ => a1)) (on_id n) (fun _ => n_remove n key)) (ap_queue a) (oa_res x)) (-1) (if oa_ph x then -1 else 0).

  Lemma rl_unfold : exists n s5, find_node s (oa_node x) = Some n /\
    (if (ttype =? TT_Timeout)%N then Some (rl_s4 n) else app_remove_ask (rl_s4 n) app key) = Some s5 /\ s' = terminate_if_done s5 app.
  Proof. destruct rl_node as (n & Efn & Hn & En & Hxn). exists n. unfold g_release in Hstep. rewrite Efa, Efx in Hstep.
    destruct ((key =? 0)%N || negb (no_res a)); [discriminate|]. destruct (oa_preempted x); [discriminate|]. cbv zeta in Hstep.
    destruct (negb (oa_ph x) && negb (oa_release x =? 0)%N); [discriminate|]. rewrite Efn, Hconf in Hstep.
    assert (Eon : find_alloc (on_allocs n) key = Some x) by (rewrite <- Ekey; apply (g_find_node_alloc_in s n x HI Hn Hxn)). rewrite Eon in Hstep.
    assert (Sg : StrictlyGreaterThanZero (Some (oa_res x)) = true).
    { destruct (w3_alloc a W x Hx) as [O1 O2 O3 _ _]. apply (StrictlyGreaterThanZero_spec _ O1). split; [apply (rnonneg_fnonneg _ O2)|apply (positive_getz _ O1 O3)]. }
    rewrite Sg in Hstep. cbn [andb] in Hstep. fold a1 in Hstep. fold (rl_s4 n) in Hstep.
    destruct (if (ttype =? TT_Timeout)%N then Some (rl_s4 n) else app_remove_ask (rl_s4 n) app key) as [s5|]; [|discriminate].
    exists s5. split; [exact Efn|]. split; [reflexivity|]. inversion Hstep. reflexivity. Qed.

  Section WithNode.
    Variable n : onode.
    Hypothesis Efn : find_node s (oa_node x) = Some n.
    Let Hn : In n (s_nodes s) := proj1 (find_node_some s _ n Efn).
    Let Xnode : oa_node x = on_id n := eq_sym (proj2 (find_node_some s _ n Efn)).
    Let s4 := rl_s4 n.
    Let sv := set_apps s4 (updk ap_id (s_apps s) (ap_id a) (fun _ => av)).

    Lemma rl_s4_fields : s_apps s4 = updk ap_id (s_apps s) (ap_id a) (fun _ => a1) /\
      s_nodes s4 = updk on_id (s_nodes s) (on_id n) (fun _ => n_remove n (oa_key x)) /\
      s_queues s4 = path_map s (ap_queue a) (F_dec (oa_res x)) /\ s_foreign s4 = s_foreign s /\ s_nallocs s4 = s_nallocs s + -1.
    Proof. unfold s4, rl_s4. cbn [add_counts s_apps s_nodes s_queues s_foreign s_nallocs].
      destruct (q_dec_same (upd_node (upd_app s app (fun _ => a1)) (on_id n) (fun _ => n_remove n key)) (ap_queue a) (oa_res x)) as [S1 S2 _ S4 _ _ S7 _ _ _].
      rewrite S1, S2, S4, S7, Eaid, Ekey. repeat split; try reflexivity.
      apply g_q_dec_queues; [reflexivity|apply (a3_wf _ x (w3_alloc a W x Hx))|].
      intros c oc Hc Eoc k. destruct (find_queue_some s c oc Eoc) as [Hoc Eid]. apply (x_le_queue s a x oc k HI HB Ha Hx Hoc). rewrite Eid. exact Hc. Qed.

    Lemma rl_av_books : AppBooks av /\ AppWF3 av.
    Proof. destruct rl_bd as [BdA BdP]. destruct (proj1 (AppBooks_sides a) B) as [BA BP]. split.
      - apply AppBooks_sides. split.
        + apply (same_alloc_books a1 av); [repeat split|apply (remove_alloc_alloc_books a x ttype W BdA BA Hx)].
        + unfold PendBooks, av. apc. fold a1. unfold a1. rewrite app_remove_alloc_pending. exact BP.
      - pose proof (remove_alloc_wf3 a x ttype W) as W1. fold a1 in W1.
        apply (AppWF3_intro av (ap_id a) (ap_requests a) (del_alloc (oa_key x) (ap_allocs a))).
        + apply app_remove_alloc_id.
        + reflexivity.
        + apply app_remove_alloc_allocs.
        + apply WF3_del_alloc. apply (AppWF3_raw a W).
        + apply (w3_pending a1 W1).
        + apply (w3_allocated a1 W1).
        + apply (w3_phalloc a1 W1). Qed.

    Lemma rl_sv : InvG2 sv /\ BooksG sv /\ Bounded3 sv.
    Proof. destruct rl_s4_fields as (_ & F2 & F3 & F4 & F5). destruct rl_av_books as [Bv Wv]. destruct rl_bd as [BdA _].
      apply (unbind_step s sv a av n x HI2 HB HBd Ha Hn Hx Xnode NoPartner); try assumption; try reflexivity.
      - apply app_remove_alloc_id.
      - apply app_remove_alloc_queue.
      - apply app_remove_alloc_allocs.
      - apply incl_refl.
      - auto.
      - intros k. apply (remove_alloc_delta a x ttype k W BdA Hx).
      - intros k. apply (remove_alloc_delta a x ttype k W BdA Hx).
      - apply app_remove_alloc_pending. Qed.

    Lemma rl_find4 : find_app s4 app = Some a1.
    Proof. destruct rl_s4_fields as (F1 & _). rewrite <- Eaid. apply (g_find_app' s s4 a a1 HI Ha F1). apply app_remove_alloc_id. Qed.

    (* the key is on no node any more *)
    Lemma rl_key_gone m' y : In m' (s_nodes s4) -> In y (on_allocs m') -> oa_key y <> key.
    Proof. destruct rl_s4_fields as (_ & F2 & _). intros Hm' Hy E. rewrite <- Ekey in E.
      apply (g_in_nodes' s s4 n _ HI Hn F2) in Hm'. destruct Hm' as [->|[Hm Hne]].
      - assert (Hyn : In y (on_allocs n)).
        { unfold n_remove in Hy. destruct (find_alloc (on_allocs n) (oa_key x)); [cbn in Hy; apply in_del_alloc in Hy; tauto|].
          destruct (find_alloc (on_foreign n) (oa_key x)); exact Hy. }
        destruct (unbind_key_x s a n HI Ha Hn x Hx Xnode n y Hn Hyn E) as [-> _].
        unfold n_remove in Hy. rewrite (g_find_node_alloc_in s n x HI Hn Hyn) in Hy. cbn in Hy. apply in_del_alloc in Hy. tauto.
      - destruct (unbind_key_x s a n HI Ha Hn x Hx Xnode m' y Hm Hy E) as [_ ->]. contradiction. Qed.

    Lemma rl_case s5 : (if (ttype =? TT_Timeout)%N then Some s4 else app_remove_ask s4 app key) = Some s5 ->
      InvG2 (terminate_if_done s5 app) /\ BooksG (terminate_if_done s5 app).
    Proof. intros H5. destruct rl_sv as (HIv & HBv & HBdv). destruct rl_s4_fields as (F1 & F2 & F3 & F4 & F5).
      destruct (remove_terminates a x) eqn:RT.
      - (* the application terminates: its last allocation went *)
        destruct (remove_alloc_terminated a x ttype Live RT) as (T1 & T2 & T3 & T4 & T5 & T6). fold a1 in T1, T2, T3, T4, T5, T6.
        assert (E5 : s5 = s4).
        { destruct (ttype =? TT_Timeout)%N; [inversion H5; reflexivity|]. unfold app_remove_ask in H5. rewrite rl_find4, T2 in H5.
          destruct (negb (no_res a1)); [discriminate|]. inversion H5. reflexivity. }
        subst s5. destruct rl_bd as [BdA _].
        assert (Eav : ap_id av = app) by (unfold av; apc; fold a1; unfold a1; rewrite app_remove_alloc_id; exact Eaid).
        assert (Hav : In av (s_apps sv)) by (apply (g_in_apps' s sv a av HI Ha eq_refl); auto).
        rewrite <- Eav. apply (terminate_step sv s4 av a1 HIv HBv HBdv Hav); try reflexivity; try assumption.
        + unfold av. apc. rewrite T3. apply (release_last a x ttype W B BdA Hx RT HT HC).
        + rewrite Eav. exact rl_find4.
        + rewrite Eav, <- Eaid. change (s_apps sv) with (updk ap_id (s_apps s) (ap_id a) (fun _ => av)). rewrite F1.
          rewrite !filter_updk_out by (intros; apply app_remove_alloc_id). reflexivity.
      - (* it stays live *)
        pose proof (app_remove_alloc_live a x ttype Live RT) as T. fold a1 in T.
        assert (Eav : av = a1).
        { unfold av. rewrite <- (app_remove_alloc_requests_live a x ttype T). fold a1. apply ap_set_lists_same. }
        assert (Esv : sv = s4) by (unfold sv; rewrite Eav; apply set_apps_same; exact F1).
        rewrite Esv in HIv, HBv, HBdv. destruct (ttype =? TT_Timeout)%N.
        + inversion H5; subst s5. rewrite (terminate_live s4 app a1 rl_find4 T). auto.
        + destruct (ra_ask_step s4 s5 app key a1 HIv HBv HBdv rl_find4) as (HI5 & HB5 & _ & a' & Ea' & Ta' & _); [|exact H5|].
          * intros m' y Hm' Hy _. apply (rl_key_gone m' y Hm' Hy).
          * rewrite (terminate_live s5 app a' Ea'); [auto|congruence]. Qed.
  End WithNode.

  Theorem g_release_alloc_gen : InvG2 s' /\ BooksG s'.
  Proof. destruct rl_unfold as (n & s5 & Efn & H5 & ->). apply (rl_case n Efn s5 H5). Qed.
End ReleaseAlloc.

(* ================================================================== 4. the delivered statements *)
(* (b) a listed allocation (placeholder or real) without link.  Side hypotheses:
   - [is_terminal (ap_state a) = false]: the application is live.  A terminated record in the live list would be moved
     to the completed list by the trailing [terminate_if_done] with all its other allocations (needed: otherwise false);
   - [oa_release x = 0]: no in-flight replacement of x.  Free for a real allocation ([AppWF3]); for a placeholder: a
     link with termination type PLACEHOLDER_REPLACED is the confirmation (another lemma), a link with another type is
     known_trigger 2;
   - [NodeKeysNZ s]: 0 is not an allocation key (only needed for a placeholder x, see the definition);
   - [TermOK a] (Core/Model3ProofsD.v, part of StepOK3): a Failing / Completing-without-timer application holds no real
     allocation, so that the release of its last placeholder removes its last allocation;
   - [CompletingOK a]: see the definition (needed for the release of a real allocation of a Completing application). *)
Theorem g_release_alloc_step s app key ttype s' a x : InvG2 s -> BooksG s -> Bounded3 s ->
  find_app s app = Some a -> find_alloc (ap_allocs a) key = Some x ->
  is_terminal (ap_state a) = false -> oa_release x = 0%N -> NodeKeysNZ s -> TermOK a -> CompletingOK a ->
  g_release s app key ttype = Some s' -> InvG2 s' /\ BooksG s'.
Proof. intros HI2 HB HBd Efa Efx Live Xl NZ HT HC Hstep.
  apply (g_release_alloc_gen s s' app key ttype a x HI2 HB HBd Efa Efx Live); try assumption.
  - rewrite Xl, N.eqb_refl, andb_false_r. reflexivity.
  - intros m y Hm Hy Hi Ey C. pose proof (ig2_inv s HI2) as HI. destruct (find_app_some s app a Efa) as [Ha _].
    destruct (find_alloc_some _ _ _ Efx) as [Hx _].
    destruct (lk_1 s (ig2_link s HI2) m y Hm Hy Hi) as (a0 & ph & Ha0 & Ea0 & Hph & _ & Ek & Er & _).
    assert (a0 = a) by (apply (g_same_app s a a0 HI Ha Ha0); congruence). subst a0.
    assert (ph = x) by (apply (nodup_key_inj oa_key (ap_allocs a)); auto; [apply (w3_alloc_keys a (ig_app_wf s HI a Ha))|congruence]). subst ph.
    apply (NZ m y Hm Hy). congruence. Qed.

(* (a) the key is no allocation of the application: nothing happens (TIMEOUT) or the request under the key is removed.
   Side hypothesis: no node lists a record of the application under that key, i.e. the key is not the real half of a
   cross-node in-flight replacement.  known_trigger 5 gives this for every termination type but PLACEHOLDER_REPLACED;
   with PLACEHOLDER_REPLACED the books really break (finding 9 of notes/m3gang.md): the request goes, the node keeps
   the record, [Owned] / root = sum of the nodes fail. *)
Theorem g_release_ask_step s app key ttype s' a : InvG2 s -> BooksG s -> Bounded3 s ->
  find_app s app = Some a -> find_alloc (ap_allocs a) key = None ->
  (forall n y, In n (s_nodes s) -> In y (on_allocs n) -> oa_app y = app -> oa_key y <> key) ->
  g_release s app key ttype = Some s' -> InvG2 s' /\ BooksG s'.
Proof. intros HI2 HB HBd Efa Efx Hno Hstep. unfold g_release in Hstep. rewrite Efa, Efx in Hstep.
  destruct ((key =? 0)%N || negb (no_res a)); [discriminate|]. destruct (ttype =? TT_Timeout)%N.
  - inversion Hstep; subst s'. auto.
  - destruct (ra_ask_step s s' app key a HI2 HB HBd Efa Hno Hstep) as (H1 & H2 & _). auto. Qed.

(* both branches *)
Theorem g_release_plain_step s app key ttype s' a : InvG2 s -> BooksG s -> Bounded3 s -> find_app s app = Some a ->
  is_terminal (ap_state a) = false -> NodeKeysNZ s -> TermOK a -> CompletingOK a ->
  (forall x, find_alloc (ap_allocs a) key = Some x -> oa_release x = 0%N) ->
  (find_alloc (ap_allocs a) key = None -> forall n y, In n (s_nodes s) -> In y (on_allocs n) -> oa_app y = app -> oa_key y <> key) ->
  g_release s app key ttype = Some s' -> InvG2 s' /\ BooksG s'.
Proof. intros HI2 HB HBd Efa Live NZ HT HC H1 H2 Hstep. destruct (find_alloc (ap_allocs a) key) as [x|] eqn:Efx.
  - apply (g_release_alloc_step s app key ttype s' a x); auto.
  - apply (g_release_ask_step s app key ttype s' a); auto. apply (H2 eq_refl). Qed.

(* ================================================================== 5. links to the step-level guards *)
(* the terminating outcome of the release of one key, as a statement of its own (a corollary) *)
Theorem release_terminating_step s app key ttype s' a x : InvG2 s -> BooksG s -> Bounded3 s ->
  find_app s app = Some a -> find_alloc (ap_allocs a) key = Some x ->
  is_terminal (ap_state a) = false -> oa_release x = 0%N -> NodeKeysNZ s -> TermOK a -> CompletingOK a ->
  remove_terminates a x = true ->
  g_release s app key ttype = Some s' -> InvG2 s' /\ BooksG s'.
Proof. intros HI2 HB HBd Efa Efx Live Xl NZ HT HC _. apply (g_release_alloc_step s app key ttype s' a x); assumption. Qed.

(* a record a node lists as the real half of an in-flight replacement is a cross-node in-flight real ask in the sense of
   known_trigger 5 (Core/Ledger.v [xnode_inflight_reals]) *)
Lemma infl_on_node_xnode s a n y : InvG2 s -> In a (s_apps s) -> In n (s_nodes s) -> In y (on_allocs n) -> oa_app y = ap_id a ->
  infl y = true -> In y (xnode_inflight_reals a).
Proof. intros HI2 Ha Hn Hy Ey Hi. pose proof (ig2_inv s HI2) as HI. pose proof (ig_app_wf s HI a Ha) as W.
  destruct (g_owner s n y a HI Hn Hy Ha (eq_sym Ey)) as [Ho|(_ & Hyr & Hal & Hfr)].
  - pose proof (alloc_ninfl a y W Ho) as C. unfold ninfl in C. rewrite Hi in C. discriminate.
  - destruct (lk_1 s (ig2_link s HI2) n y Hn Hy Hi) as (a0 & ph & Ha0 & Ea0 & Hph & _ & Ek & _ & Hne).
    assert (a0 = a) by (apply (g_same_app s a a0 HI Ha Ha0); congruence). subst a0.
    unfold xnode_inflight_reals. apply filter_In. split; [exact Hyr|]. unfold is_inflight_real_req. unfold infl in Hi. rewrite Hi, Hal.
    rewrite (proj2 (find_alloc_none _ _) Hfr). cbn [andb]. rewrite <- Ek, (find_alloc_in _ ph (w3_alloc_keys a W) Hph).
    apply negb_true_iff, N.eqb_neq. exact Hne. Qed.
(* the node-side hypothesis of [g_release_ask_step] from the guard known_trigger 5 evaluates (it evaluates it only for
   termination types other than PLACEHOLDER_REPLACED) *)
Lemma release_ask_norec s app key a : InvG2 s -> find_app s app = Some a -> find_alloc (ap_allocs a) key = None ->
  existsb (fun x => (oa_key x =? key)%N) (xnode_inflight_reals a) = false ->
  forall n y, In n (s_nodes s) -> In y (on_allocs n) -> oa_app y = app -> oa_key y <> key.
Proof. intros HI2 Efa Efx Hno n y Hn Hy Ey Ek. pose proof (ig2_inv s HI2) as HI. destruct (find_app_some s app a Efa) as [Ha Eaid].
  assert (Ey' : oa_app y = ap_id a) by congruence.
  destruct (infl y) eqn:Hi.
  - pose proof (infl_on_node_xnode s a n y HI2 Ha Hn Hy Ey' Hi) as Hin.
    assert (C : existsb (fun x => (oa_key x =? key)%N) (xnode_inflight_reals a) = true) by (apply existsb_exists; exists y; split; [exact Hin|apply N.eqb_eq; exact Ek]).
    congruence.
  - destruct (g_owner s n y a HI Hn Hy Ha (eq_sym Ey')) as [Ho|(Hi' & _)]; [|congruence].
    apply (proj1 (find_alloc_none _ _) Efx). rewrite <- Ek. apply in_map. exact Ho. Qed.
(* ... and the hypothesis of [g_release_all_step] is literally the guard *)
