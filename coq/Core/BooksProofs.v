(* C03: the books agree in every state the operational model (Core/Model.v) reaches.
   [m_step_books] / [m_step_inv]: one step; [books_reachable]: all histories; [books_init]: the empty partition;
   [drain_to_zero] (Core/BooksDrain.v): nothing leaks; [c03_oracle_sound_for_model]: the theorem's predicate is
   literally the oracle [c03_state] of Oracles/CoreC01.v. *)
From Coq Require Import List ZArith NArith Bool Lia ZifyBool.
From YK Require Import Base.Int64 Base.Res Base.ResSpec Base.ResLemmas Base.ResLaws Base.ResLaws2 Base.ResLawsPred
  Core.Obs Core.Model Core.Ledger
  Core.BooksLemmas Core.BooksDefs Core.BooksTree Core.BooksQueue Core.BooksApp Core.BooksState Core.BooksDrain Core.BooksStep
  Core.BooksOps Core.BooksOps2 Core.BooksOps3 Core.BooksOps4 Oracles.CoreC01.
Import ListNotations.
Open Scope Z_scope.

(* environment assumption of a step: see [ReqOK] (only allocation requests carry data the ledgers depend on) *)
Definition StepOK (s : ostate) (st : ostep) : Prop :=
  match st_op st with OpAlloc r => ReqOK s r | _ => True end.

Theorem m_step_preserves deny s st s' : Books s -> Inv s -> Bounded s -> StepOK s st ->
  m_step deny s st = Some s' -> Inv s' /\ Books s'.
Proof. intros HB HI HBd HS H. unfold m_step in H. destruct (st_panic st); [discriminate|].
  unfold StepOK in HS. destruct (st_op st) eqn:Eop; try discriminate.
  - apply (node_add_step s s' id cap drain HI (proj1 HB) H).
  - apply (node_update_step s s' id cap HI (proj1 HB) H).
  - apply (node_sched_step s s' id false HI (proj1 HB) H).
  - apply (node_sched_step s s' id true HI (proj1 HB) H).
  - apply (alloc_step s s' r HI HB HBd HS H).
  - apply (release_step s s' app key ttype HI HB HBd H).
  - destruct (st_events st) as [|e evs].
    + destruct (s_nres s =? s_nres (st_obs st)); [|discriminate]. inversion H; subst s'. auto.
    + destruct (negb (no_release_events (e :: evs))); [discriminate|].
      destruct (is_new_alloc_for (e :: evs)) as [[[k a] n]|]; [|discriminate].
      destruct (find_app s a) as [ap|] eqn:Ea; [|discriminate]. apply find_app_some in Ea.
      apply (sched_alloc_step deny s s' ap k n HI (proj1 HB) HBd (proj1 Ea) H). Qed.

Theorem m_step_books deny s st s' : Books s -> Inv s -> Bounded s -> StepOK s st -> m_step deny s st = Some s' -> Books s'.
Proof. intros HB HI HBd HS H. apply (m_step_preserves deny s st s' HB HI HBd HS H). Qed.
Theorem m_step_inv deny s st s' : Books s -> Inv s -> Bounded s -> StepOK s st -> m_step deny s st = Some s' -> Inv s'.
Proof. intros HB HI HBd HS H. apply (m_step_preserves deny s st s' HB HI HBd HS H). Qed.

(* ------------------------------------------------------------------ histories *)
Fixpoint m_run (deny : list (N * N)) (s : ostate) (steps : list ostep) : ostate :=
  match steps with
  | [] => s
  | st :: t => match m_step deny s st with Some s' => m_run deny s' t | None => s end
  end.
(* the carried hypotheses: in every state the run goes through, the ledgers are bounded and the next request
   satisfies the environment assumptions *)
Fixpoint RunOK (deny : list (N * N)) (s : ostate) (steps : list ostep) : Prop :=
  match steps with
  | [] => True
  | st :: t => Bounded s /\ StepOK s st /\ match m_step deny s st with Some s' => RunOK deny s' t | None => True end
  end.

Theorem books_reachable deny : forall steps s0, Books s0 -> Inv s0 -> RunOK deny s0 steps ->
  Books (m_run deny s0 steps) /\ Inv (m_run deny s0 steps).
Proof. induction steps as [|st t IH]; intros s0 HB HI HR; [auto|]. cbn [m_run RunOK] in *. destruct HR as (HBd & HS & HR).
  destruct (m_step deny s0 st) as [s1|] eqn:E; [|auto].
  destruct (m_step_preserves deny s0 st s1 HB HI HBd HS E) as [HI1 HB1]. apply IH; assumption. Qed.

(* ------------------------------------------------------------------ the empty partition *)
Definition init_state (qs : list oqueue) : ostate := mkOS [] [] qs None 0 0 0 [] [] [] [].

Theorem books_init qs : (forall q, In q qs -> q_alloc q = [] /\ q_pending q = []) -> Books (init_state qs).
Proof. intros Hz. split; [constructor|].
  - intros a [].
  - intros q Hq. cbn [init_state s_queues] in Hq. destruct (Hz q Hq) as [E1 E2].
    assert (Hc : forall id, (forall k, sumz (map q_alloc (children_of (init_state qs) id)) k = 0) /\
                            (forall k, sumz (map q_pending (children_of (init_state qs) id)) k = 0)).
    { intros id. split; intros k; apply sumz_all_zero; intros r Hr; apply in_map_iff in Hr; destruct Hr as (c & <- & Hc);
        unfold children_of in Hc; apply filter_In in Hc; destruct (Hz c (proj1 Hc)) as [C1 C2]; rewrite ?C1, ?C2; reflexivity. }
    constructor; rewrite ?E1, ?E2; try apply rnonneg_nil; intros _ k; cbn [getz get];
      try reflexivity; [rewrite (proj1 (Hc _))|rewrite (proj2 (Hc _))]; reflexivity.
  - intros n x [].
  - intros a x [].
  - unfold root_matches_nodes. destruct (root_queue (init_state qs)) as [r|] eqn:Er; [|reflexivity].
    unfold root_queue in Er. apply find_some in Er. destruct (Hz r (proj1 Er)) as [E1 _]. rewrite E1. reflexivity.
  - cbn. rewrite !andb_true_r. apply forallb_forall. intros q Hq. destruct (Hz q Hq) as [E1 E2]. rewrite E1, E2. reflexivity. Qed.

Theorem inv_init qs : TreeOK (init_state qs) -> (forall q, In q qs -> q_alloc q = [] /\ q_pending q = []) -> Inv (init_state qs).
Proof. intros HT Hz. constructor.
  - constructor.
  - constructor.
  - assumption.
  - intros a [].
  - intros a [].
  - intros q Hq. destruct (Hz q Hq) as [E1 E2]. rewrite E1, E2. split; apply wf_nil.
  - intros a1 a2 x1 x2 [].
  - intros f a x [].
  - intros n [].
  - reflexivity. Qed.

(* ------------------------------------------------------------------ theorem and oracle are the same predicate *)
Theorem c03_oracle_sound_for_model s : Books s -> c03_state s = [].
Proof. apply books_reflect. Qed.
Theorem c03_oracle_complete s : c03_state s = [] -> Books s.
Proof. apply books_reflect. Qed.
Theorem c03_run_oracle deny steps s0 : Books s0 -> Inv s0 -> RunOK deny s0 steps -> c03_state (m_run deny s0 steps) = [].
Proof. intros HB HI HR. apply c03_oracle_sound_for_model. apply (books_reachable deny steps s0 HB HI HR). Qed.
