(* C03 over the gang fragment (Core/Model3.v): the replacement protocol, part 1: the START of a replacement
   ([g_swap_start], Go: tryPlaceholderAllocate).  Here the pair of [LinkOK] (Core/Model3ProofsD2.v) is created.
   Structure:
     [SwapA]    allocateAsk + SetRelease + SetNodeID on the real ask, pending of the queues  (gang_step)
     [SwapB]    SetRelease / SetReleased on the placeholder's three copies                  (obj_upd_invg / obj_upd_booksg)
     [SwapC]    other node only: Node.TryAddAllocation of the in-flight real allocation    (gang_frame_step)
     [SwapLink] LinkOK of the result from a description of its node records (both cases)
     [g_swap_start_step] the dispatcher. *)
From Coq Require Import List ZArith NArith Bool Lia ZifyBool.
From YK Require Import Base.Int64 Base.Res Base.ResSpec Base.ResLemmas Base.ResLaws Base.ResLaws2 Base.ResLawsPred
  Core.Obs Core.Model Core.Model2 Core.Model3 Core.Ledger
  Core.BooksLemmas Core.BooksDefs Core.BooksTree Core.BooksQueue Core.BooksApp Core.BooksState Core.BooksDrain Core.BooksOps
  Core.BooksOps2 Core.Model2ProofsB2 Core.Model3ProofsD Core.Model3ProofsD2 Core.Model3ProofsG1 Core.Model3ProofsG2
  Core.Model3ProofsG3 Core.Model3ProofsG5 Core.Model3ProofsG6 Core.Model3ProofsA1 Core.Model3ProofsA2 Core.Model3ProofsA3.
Import ListNotations.
Open Scope Z_scope.
Set Default Timeout 30.

(* ------------------------------------------------------------------ small list facts *)
Lemma updk_const_then {A} (key : A -> N) (l : list A) id (c : A) (g : A -> A) : key c = id ->
  updk key (updk key l id (fun _ => c)) id g = updk key l id (fun _ => g c).
Proof. intros Ec. unfold updk. rewrite map_map. apply map_ext. intros x. destruct (N.eqb_spec (key x) id) as [E|E].
  - rewrite Ec, N.eqb_refl. reflexivity.
  - destruct (N.eqb_spec (key x) id); [contradiction|reflexivity]. Qed.
Lemma updk_same {A} (key : A -> N) (l : list A) a : NoDup (map key l) -> In a l -> updk key l (key a) (fun _ => a) = l.
Proof. intros Hnd Ha. unfold updk. rewrite <- (map_id l) at 2. apply map_ext_in. intros x Hx.
  destruct (N.eqb_spec (key x) (key a)) as [E|E]; [|reflexivity]. symmetry. apply (nodup_key_inj key l); auto. Qed.

(* the function the start of a replacement applies to the placeholder object *)
Definition fph (rk : N) (y : oalloc) : oalloc := oa_set_released (oa_set_link y rk) true.
Lemma core_only_fph rk : CoreOnly (fph rk). Proof. constructor; reflexivity. Qed.

(* ================================================================== the state after the application / queue / object updates *)
Section SwapStart.
  Variables (s : ostate) (a : oapp) (ph real : oalloc) (target : N).
  Hypothesis HI : InvG s.
  Hypothesis HB : BooksG s.
  Hypothesis HBd : Bounded3 s.
  Hypothesis Ha : In a (s_apps s).
  Hypothesis Hph : In ph (ap_allocs a).
  Hypothesis Hr : In real (ap_requests a).
  Hypothesis Hna : oa_allocated real = false.
  Hypothesis Pph : oa_ph ph = true.
  Hypothesis Rph : oa_ph real = false.

  Let rk := oa_key real.
  Let phk := oa_key ph.
  Let real1 := oa_set_link (oa_bound real target) phk.
  Let ph1 := fph rk ph.
  Let a1 := swap_a1 a real rk phk target.
  Let a2 := swap_start_app a real rk phk target.
  Let sA := q_dec_pending (upd_app s (ap_id a) (fun _ => a1)) (ap_queue a) (oa_res real).
  Let s2 := obj_upd sA (ap_id a) phk (fph rk).
  Let h := hk (ap_id a) phk (fph rk).

  Let W := ig_app_wf s HI a Ha.
  Let B := bg_apps s HB a Ha.
  Lemma sw_bd3 : AppBounded3 a.
  Proof. split; [apply (bd_apps s (b3_base s HBd) a Ha)|apply (b3_ph s HBd a Ha)]. Qed.
  Lemma sw_rk_fresh : ~ In rk (akeys (ap_allocs a)).
  Proof. apply (w3_pending_fresh a W real Hr Hna). Qed.
  Lemma sw_ne : rk <> phk.
  Proof. intros C. apply sw_rk_fresh. rewrite C. apply in_map. exact Hph. Qed.
  Lemma sw_real_ok : AllocOK3 (ap_id a) real. Proof. apply (w3_req a W real Hr). Qed.
  Lemma sw_real_rb : rb (oa_res real). Proof. apply (abd_req a (bd_apps s (b3_base s HBd) a Ha) real Hr). Qed.
  Lemma sw_same_ph y : In y (ap_allocs a) -> oa_key y = phk -> y = ph.
  Proof. intros Hy E. apply (nodup_key_inj oa_key (ap_allocs a)); auto. apply (w3_alloc_keys a W). Qed.
  Lemma sw_same_real y : In y (ap_requests a) -> oa_key y = rk -> y = real.
  Proof. intros Hy E. apply (nodup_key_inj oa_key (ap_requests a)); auto. apply (w3_req_keys a W). Qed.

  Lemma sw_a2_ok : AppBooks a2 /\ AppWF3 a2 /\ AppBounded3 a2 /\ ap_id a2 = ap_id a /\ ap_queue a2 = ap_queue a /\
    ap_allocated a2 = ap_allocated a /\ ap_phalloc a2 = ap_phalloc a /\ ap_allocs a2 = map_key phk (fph rk) (ap_allocs a) /\
    (forall k, getz (ap_pending a2) k = getz (ap_pending a) k - getz (oa_res real) k) /\ rk <> phk.
  Proof. apply (swap_start_ok a real ph rk phk target W B sw_bd3 Hr eq_refl Hna Hph eq_refl Pph). Qed.

  (* ---------------------------------------------------------------- step A: the real ask becomes allocated *)
  Lemma swA_a1 : PendBooks a1 /\ AppWF3 a1 /\ PendBd a1 /\ forall k, getz (ap_pending a1) k = getz (ap_pending a) k - getz (oa_res real) k.
  Proof. pose proof sw_bd3 as Bd. apply AppBounded3_sides in Bd. destruct Bd as [_ BdP]. pose proof B as B'. apply AppBooks_sides in B'. destruct B' as [_ BP].
    apply (swap_a1_ok a real rk phk target W BP BdP Hr eq_refl Hna). Qed.
  Lemma swA_req_keys : akeys (ap_requests a1) = akeys (ap_requests a).
  Proof. unfold a1, swap_a1. apc. apply akeys_map_key. intros y _. reflexivity. Qed.

  Lemma swA_step : InvG sA /\ BooksG sA.
  Proof. destruct swA_a1 as (BP1 & W1 & _ & D1).
    assert (Eapps : s_apps sA = updk ap_id (s_apps s) (ap_id a) (fun _ => a1)) by reflexivity.
    assert (Enodes : s_nodes sA = s_nodes s) by reflexivity.
    assert (Eq : s_queues sA = path_map s (ap_queue a) (F_dec_pending (oa_res real))).
    { unfold sA. apply g_q_dec_pending_queues. reflexivity. }
    apply (gang_step s sA a a1 (F_dec_pending (oa_res real)) zero3 (fun k => - getz (oa_res real) k) HI HB Ha Eapps Eq eq_refl); try reflexivity; auto.
    - intros q Hq Hin. apply F_dec_pending_Q; [apply (g_qok s q HI HB HBd Hq)|apply (a3_wf _ _ sw_real_ok)|apply sw_real_rb|].
      intros k. pose proof (g_ask_le_pending a real k W B Hr Hna). pose proof (g_pending_dominated s a HI HB Ha q k Hq Hin). lia.
    - apply (books_of_sides a a1 (swap_a1_same_alloc a real rk phk target) B BP1).
    - apply rec_keys_incl. unfold app_records, akeys. rewrite !map_app. fold (akeys (ap_requests a1)). rewrite swA_req_keys. apply incl_refl.
    - intros k. unfold zero3. change (ap_allocated a1) with (ap_allocated a). change (ap_phalloc a1) with (ap_phalloc a). lia.
    - rewrite Enodes. apply (ig_node_ids s HI).
    - rewrite Enodes. apply (ig_nodes s HI).
    - apply (owned_nodes_same s sA a a1 HI Ha Eapps eq_refl Enodes). intros n y Hn Hy.
      apply (ownedby_reqs a a1 y eq_refl). intros Hyr _ Hal. unfold a1, swap_a1. apc.
      apply (in_map_key_nodup rk _ (ap_requests a) real y (w3_req_keys a W) Hr eq_refl). right. split; [assumption|].
      intros C. assert (y = real) by (apply sw_same_real; assumption). congruence.
    - apply (onnode_nodes_same s sA a a1 HI Ha Eapps Enodes). apply incl_refl.
    - apply (g_count_step s sA a a1 HI Ha Eapps 0); [change (ap_allocs a1) with (ap_allocs a); lia|change (s_nallocs sA) with (s_nallocs s); lia].
    - intros k. rewrite (node_records_same s sA Enodes). unfold zero3. lia. Qed.

  (* ---------------------------------------------------------------- step B: the placeholder object is linked and released *)
  Lemma swB_a1_in : In a1 (s_apps sA).
  Proof. change (s_apps sA) with (updk ap_id (s_apps s) (ap_id a) (fun _ => a1)). apply (in_updk_const ap_id); [apply (ig_app_ids s HI)|exact Ha|auto]. Qed.
  (* a record some node lists under the placeholder's key is the placeholder *)
  Lemma sw_node_ph n y : In n (s_nodes s) -> In y (on_allocs n) -> oa_key y = phk -> oa_app y = ap_id a -> y = ph.
  Proof. intros Hn Hy Ek Eap. destruct (g_owner s n y a HI Hn Hy Ha (eq_sym Eap)) as [Ho|(_ & _ & _ & Hk)].
    - apply sw_same_ph; assumption.
    - exfalso. apply Hk. rewrite Ek. apply in_map. exact Hph. Qed.

  Lemma swB_step : InvG s2 /\ BooksG s2.
  Proof. destruct swA_step as [HIA HBA]. destruct swA_a1 as (_ & W1 & _ & _). pose proof swB_a1_in as Ha1.
    change (ap_id a) with (ap_id a1) in s2. split.
    - apply (obj_upd_invg sA a1 phk (fph rk) HIA Ha1 (core_only_fph rk)).
      + intros x Hx Ek Ep. assert (x = ph) by (apply sw_same_ph; assumption). congruence.
      + intros x Hx Ek Ep _. apply sw_rk_fresh.
      + intros r Hr' Ek Hal. rewrite <- Ek. apply (w3_pending_fresh a1 W1 r Hr'). exact Hal.
      + intros r _ _ _ _ C. exfalso. apply C. apply in_map. exact Hph.
    - apply (obj_upd_booksg sA a1 phk (fph rk) HIA Ha1 (core_only_fph rk) HBA).
      + intros r _ _. reflexivity.
      + intros y Hy Ek Eap. change (node_records sA) with (node_records s) in Hy. apply in_node_records in Hy. destruct Hy as (n & Hn & Hy).
        assert (y = ph) by (apply (sw_node_ph n y Hn Hy Ek Eap)). subst y. unfold infl. cbn [fph oa_set_released oa_set_link oa_ph]. rewrite Pph. reflexivity. Qed.

  (* ---------------------------------------------------------------- what s2 looks like *)
  Lemma sw2_apps : s_apps s2 = updk ap_id (s_apps s) (ap_id a) (fun _ => a2).
  Proof. unfold s2. rewrite Model3ProofsG3.obj_upd_apps. change (s_apps sA) with (updk ap_id (s_apps s) (ap_id a) (fun _ => a1)).
    rewrite (updk_const_then ap_id (s_apps s) (ap_id a) a1) by reflexivity. reflexivity. Qed.
  Lemma sw2_nodes : s_nodes s2 = map (rmap_node h) (s_nodes s). Proof. reflexivity. Qed.
  Lemma sw2_queues : s_queues s2 = path_map s (ap_queue a) (F_dec_pending (oa_res real)).
  Proof. change (s_queues s2) with (s_queues sA). unfold sA. apply g_q_dec_pending_queues. reflexivity. Qed.
  Lemma sw2_a2_in : In a2 (s_apps s2).
  Proof. rewrite sw2_apps. apply (in_updk_const ap_id); [apply (ig_app_ids s HI)|exact Ha|auto]. Qed.
  Lemma sw2_in_apps b : In b (s_apps s2) <-> b = a2 \/ (In b (s_apps s) /\ ap_id b <> ap_id a).
  Proof. rewrite sw2_apps. apply (in_updk_const ap_id); [apply (ig_app_ids s HI)|exact Ha]. Qed.
  (* the records the nodes list: only the placeholder's copy changes *)
  Lemma sw_h_rec n y : In n (s_nodes s) -> In y (on_allocs n) -> (y <> ph /\ h y = y) \/ (y = ph /\ h y = ph1).
  Proof. intros Hn Hy. unfold h, hk. destruct (N.eqb_spec (oa_key y) phk) as [E1|E1]; [|left; split; [intros ->; apply E1; reflexivity|reflexivity]].
    destruct (N.eqb_spec (oa_app y) (ap_id a)) as [E2|E2].
    - right. assert (y = ph) by (apply (sw_node_ph n y Hn Hy E1 E2)). subst y. auto.
    - left. split; [|reflexivity]. intros ->. apply E2. apply (g_record_app s a ph HI Ha). apply in_records. auto. Qed.
  Lemma sw_h_key y : oa_key (h y) = oa_key y.
  Proof. unfold h, hk. destruct (_ && _); reflexivity. Qed.
  Lemma sw2_in_nodes n2 : In n2 (s_nodes s2) <-> exists n, In n (s_nodes s) /\ n2 = rmap_node h n.
  Proof. rewrite sw2_nodes, in_map_iff. split; intros (n & H1 & H2); exists n; auto. Qed.
  (* a node that does not carry the placeholder is untouched *)
  Lemma sw2_node_same n : In n (s_nodes s) -> on_id n <> oa_node ph -> rmap_node h n = n.
  Proof. intros Hn Hne. unfold rmap_node. rewrite map_id_in; [apply n_with_same|]. intros y Hy.
    destruct (sw_h_rec n y Hn Hy) as [[_ E]|[E _]]; [exact E|]. subst y. exfalso. apply Hne.
    symmetry. apply (k3_node n (ig_nodes s HI n Hn) ph Hy). Qed.

  (* ---------------------------------------------------------------- the lists of the new application record *)
  Lemma sw_a2_requests : ap_requests a2 = map_key phk (fph rk) (map_key rk (fun _ => real1) (ap_requests a)). Proof. reflexivity. Qed.
  Lemma sw_a2_allocs : ap_allocs a2 = map_key phk (fph rk) (ap_allocs a). Proof. reflexivity. Qed.
  Lemma sw_a2_id : ap_id a2 = ap_id a. Proof. reflexivity. Qed.
  Lemma sw_a2_alloc_keys : akeys (ap_allocs a2) = akeys (ap_allocs a).
  Proof. rewrite sw_a2_allocs. apply akeys_map_key. intros y E. exact E. Qed.
  Lemma sw_real1_in : In real1 (ap_requests a2).
  Proof. rewrite sw_a2_requests. apply in_map_key. exists real1. split.
    - apply in_map_key. exists real. split; [exact Hr|]. fold rk. rewrite N.eqb_refl. reflexivity.
    - change (oa_key real1) with rk. destruct (N.eqb_spec rk phk) as [C|_]; [exfalso; apply (sw_ne C)|reflexivity]. Qed.
  Lemma sw_in_req_a2 r' : In r' (ap_requests a2) ->
    r' = real1 \/ oa_key r' = phk \/ (In r' (ap_requests a) /\ oa_key r' <> rk /\ oa_key r' <> phk).
  Proof. rewrite sw_a2_requests. intros H. apply in_map_key in H. destruct H as (z1 & Hz1 & ->). apply in_map_key in Hz1. destruct Hz1 as (z & Hz & ->).
    destruct (N.eqb_spec (oa_key z) rk) as [E|E].
    - change (oa_key real1) with rk. destruct (N.eqb_spec rk phk) as [C|_]; [exfalso; apply (sw_ne C)|]. left. reflexivity.
    - destruct (N.eqb_spec (oa_key z) phk) as [E'|E']; [right; left; exact E'|right; right; auto]. Qed.
  Lemma sw_in_alloc_a2 x' : In x' (ap_allocs a2) <-> x' = ph1 \/ (In x' (ap_allocs a) /\ oa_key x' <> phk).
  Proof. rewrite sw_a2_allocs. apply (in_map_key_nodup phk (fph rk) (ap_allocs a) ph x' (w3_alloc_keys a W) Hph eq_refl). Qed.
  Lemma sw_real1_infl : phk <> 0%N -> infl real1 = true.
  Proof. intros Hnz. unfold infl. cbn [real1 oa_set_link oa_bound oa_ph oa_release]. rewrite Rph. destruct (N.eqb_spec phk 0); [contradiction|reflexivity]. Qed.
  (* no node of s2 lists the key of the real ask *)
  Lemma sw2_rk_fresh m y : In m (s_nodes s2) -> In y (on_allocs m) -> oa_key y <> rk.
  Proof. intros Hm Hy. apply sw2_in_nodes in Hm. destruct Hm as (m0 & Hm0 & ->). cbn [rmap_node n_with on_allocs] in Hy.
    apply in_map_iff in Hy. destruct Hy as (y0 & <- & Hy0). rewrite sw_h_key. apply (pending_key_not_on_node s a real HI Ha Hr Hna m0 y0 Hm0 Hy0). Qed.


  (* ---------------------------------------------------------------- LinkOK of a state described by its node records *)
  Section Link.
    Variable s' : ostate.
    Hypothesis HL : LinkOK s.
    Hypothesis Hsize : forall k, getz (oa_res real) k <= getz (oa_res ph) k.
    Hypothesis Hfree : forall r, In r (ap_requests a) -> oa_key r = oa_release ph -> oa_allocated r = false.
    Hypothesis Hunl : unlinked (ap_allocs a) rk.
    Hypothesis Eapps : s_apps s' = updk ap_id (s_apps s) (ap_id a) (fun _ => a2).
    Hypothesis Hbwd : forall m' y', In m' (s_nodes s') -> In y' (on_allocs m') ->
      (exists m y, In m (s_nodes s) /\ In y (on_allocs m) /\ ((y <> ph /\ y' = y) \/ (y = ph /\ y' = ph1))) \/
      (target <> oa_node ph /\ y' = real1).
    Hypothesis Hfwd : forall m y, In m (s_nodes s) -> In y (on_allocs m) -> y <> ph ->
      exists m', In m' (s_nodes s') /\ on_id m' = on_id m /\ In y (on_allocs m').
    Hypothesis Hnew : target <> oa_node ph -> exists m', In m' (s_nodes s') /\ on_id m' = target /\ In real1 (on_allocs m').

    Lemma swL_in_apps b : In b (s_apps s') <-> b = a2 \/ (In b (s_apps s) /\ ap_id b <> ap_id a).
    Proof. rewrite Eapps. apply (in_updk_const ap_id); [apply (ig_app_ids s HI)|exact Ha]. Qed.

    Lemma swL_l1 : LinkL1 s'.
    Proof. intros m' y' Hm' Hy' Hi. destruct (Hbwd m' y' Hm' Hy') as [(m & y & Hm & Hy & [[Hne ->]|[-> ->]])|[Hne ->]].
      - destruct (lk_1 s HL m y Hm Hy Hi) as (a0 & ph0 & Ha0 & Ea0 & Hph0 & Pph0 & Ek0 & Er0 & En0).
        destruct (N.eq_dec (ap_id a0) (ap_id a)) as [E|E].
        + assert (a0 = a) by (apply (g_same_app s a a0 HI Ha Ha0 E)). subst a0.
          destruct (N.eq_dec (oa_key ph0) phk) as [Ek|Ek].
          * exfalso. assert (ph0 = ph) by (apply sw_same_ph; assumption). subst ph0.
            destruct (g_owner s m y a HI Hm Hy Ha Ea0) as [Ho|(_ & Hyr & Hal & _)].
            -- pose proof (alloc_ninfl a y W Ho) as C. unfold ninfl in C. rewrite Hi in C. discriminate.
            -- rewrite (Hfree y Hyr (eq_sym Er0)) in Hal. discriminate.
          * exists a2, ph0. split; [apply swL_in_apps; auto|]. split; [exact Ea0|]. split; [apply sw_in_alloc_a2; auto|]. repeat split; assumption.
        + exists a0, ph0. split; [apply swL_in_apps; auto|]. repeat split; assumption.
      - exfalso. unfold infl in Hi. cbn [ph1 fph oa_set_released oa_set_link oa_ph] in Hi. rewrite Pph in Hi. discriminate.
      - exists a2, ph1. split; [apply swL_in_apps; auto|]. split; [symmetry; apply (a3_app _ _ sw_real_ok)|].
        split; [apply sw_in_alloc_a2; auto|]. split; [exact Pph|]. split; [reflexivity|]. split; [reflexivity|].
        intros C. apply Hne. symmetry. exact C. Qed.

    Lemma swL_l2 : LinkL2 s'.
    Proof. intros b' p' r' Hb' Hp' Pp' Lp' Hr' Ek' Rp' Ra'. apply swL_in_apps in Hb'.
      assert (Knew : forall m' y', In m' (s_nodes s') -> In y' (on_allocs m') ->
                (exists m y, In m (s_nodes s) /\ In y (on_allocs m) /\ oa_key y' = oa_key y) \/ (target <> oa_node ph /\ y' = real1)).
      { intros m' y' Hm' Hy'. destruct (Hbwd m' y' Hm' Hy') as [(m & y & Hm & Hy & [[_ ->]|[-> ->]])|H];
          [left; exists m, y; auto|left; exists m, ph; auto|right; exact H]. }
      destruct Hb' as [->|[Hb Hne]].
      - apply sw_in_alloc_a2 in Hp'. destruct Hp' as [->|[Hp Kp]].
        + (* the new pair *)
          change (oa_release ph1) with rk in Ek', Lp' |- *. change (oa_key ph1) with phk. change (oa_node ph1) with (oa_node ph). change (oa_res ph1) with (oa_res ph).
          assert (r' = real1).
          { destruct (sw_in_req_a2 r' Hr') as [E|[E|(_ & E & _)]]; [exact E| |contradiction]. exfalso. apply sw_ne. congruence. }
          subst r'. split; [reflexivity|]. split; [exact Hsize|]. split.
          * intros En m' y' Hm' Hy'. change (oa_key real1) with rk. destruct (Knew m' y' Hm' Hy') as [(m & y & Hm & Hy & ->)|[C _]].
            -- apply (pending_key_not_on_node s a real HI Ha Hr Hna m y Hm Hy).
            -- exfalso. apply C. exact En.
          * intros En. apply Hnew. exact En.
        + (* another placeholder of the application *)
          pose proof (w3_link a W p' Hp Pp' Lp') as Hl.
          assert (N1 : oa_release p' <> phk) by (intros C; apply Hl; rewrite C; apply in_map; exact Hph).
          assert (N2 : oa_release p' <> rk) by (apply (Hunl p' Hp Pp' Lp')).
          assert (Hr0 : In r' (ap_requests a)).
          { destruct (sw_in_req_a2 r' Hr') as [E|[E|(H & _)]]; [|congruence|exact H]. subst r'. exfalso. apply N2. symmetry. exact Ek'. }
          destruct (lk_2 s HL a p' r' Ha Hp Pp' Lp' Hr0 Ek' Rp' Ra') as (Q1 & Q2 & Q3 & Q4). split; [exact Q1|]. split; [exact Q2|]. split.
          * intros En m' y' Hm' Hy'. destruct (Knew m' y' Hm' Hy') as [(m & y & Hm & Hy & ->)|[_ ->]].
            -- apply (Q3 En m y Hm Hy).
            -- change (oa_key real1) with rk. congruence.
          * intros En. destruct (Q4 En) as (m & Hm & Em & Hrm). destruct (Hfwd m r' Hm Hrm) as (m' & H1 & H2 & H3).
            { intros ->. apply N1. symmetry. exact Ek'. }
            exists m'. split; [assumption|]. split; [congruence|assumption].
      - (* another application *)
        destruct (lk_2 s HL b' p' r' Hb Hp' Pp' Lp' Hr' Ek' Rp' Ra') as (Q1 & Q2 & Q3 & Q4). split; [exact Q1|]. split; [exact Q2|]. split.
        * intros En m' y' Hm' Hy'. destruct (Knew m' y' Hm' Hy') as [(m & y & Hm & Hy & ->)|[_ ->]].
          -- apply (Q3 En m y Hm Hy).
          -- change (oa_key real1) with rk. intros C. apply Hne. apply (ig_keys s HI b' a r' real Hb Ha); [apply in_records; auto|apply in_records; auto|symmetry; exact C].
        * intros En. destruct (Q4 En) as (m & Hm & Em & Hrm). destruct (Hfwd m r' Hm Hrm) as (m' & H1 & H2 & H3).
          { intros ->. apply Hne. apply (ig_keys s HI b' a ph ph Hb Ha); [apply in_records; auto|apply in_records; auto|reflexivity]. }
          exists m'. split; [assumption|]. split; [congruence|assumption]. Qed.

    Theorem swL_linkok : LinkOK s'. Proof. split; [apply swL_l1|apply swL_l2]. Qed.
  End Link.

  (* the node records of s2 *)
  Lemma sw2_bwd m' y' : In m' (s_nodes s2) -> In y' (on_allocs m') ->
    exists m y, In m (s_nodes s) /\ In y (on_allocs m) /\ ((y <> ph /\ y' = y) \/ (y = ph /\ y' = ph1)).
  Proof. intros Hm' Hy'. apply sw2_in_nodes in Hm'. destruct Hm' as (m & Hm & ->). cbn [rmap_node n_with on_allocs] in Hy'.
    apply in_map_iff in Hy'. destruct Hy' as (y & <- & Hy). exists m, y. split; [assumption|]. split; [assumption|].
    destruct (sw_h_rec m y Hm Hy) as [[H1 H2]|[H1 H2]]; [left|right]; auto. Qed.
  Lemma sw2_fwd m y : In m (s_nodes s) -> In y (on_allocs m) -> y <> ph ->
    exists m', In m' (s_nodes s2) /\ on_id m' = on_id m /\ In y (on_allocs m').
  Proof. intros Hm Hy Hne. exists (rmap_node h m). split; [apply sw2_in_nodes; eauto|]. split; [reflexivity|].
    cbn [rmap_node n_with on_allocs]. destruct (sw_h_rec m y Hm Hy) as [[_ E]|[C _]]; [|contradiction]. rewrite <- E. apply in_map. exact Hy. Qed.

  (* same node: the result is s2 *)
  Theorem swap_same_step : LinkOK s -> target = oa_node ph ->
    (forall k, getz (oa_res real) k <= getz (oa_res ph) k) ->
    (forall r, In r (ap_requests a) -> oa_key r = oa_release ph -> oa_allocated r = false) ->
    unlinked (ap_allocs a) rk ->
    InvG2 s2 /\ BooksG s2.
  Proof. intros HL Et Hsize Hfree Hunl. destruct swB_step as [HI2 HB2]. split; [|exact HB2]. split; [exact HI2|].
    apply (swL_linkok s2 HL Hsize Hfree Hunl sw2_apps).
    - intros m' y' Hm' Hy'. left. apply (sw2_bwd m' y' Hm' Hy').
    - apply sw2_fwd.
    - intros C. contradiction. Qed.

  (* ---------------------------------------------------------------- step C (other node): Node.TryAddAllocation on the target *)
  Section Cross.
    Variables (n n' : onode).
    Hypothesis Hn : In n (s_nodes s).
    Hypothesis En : on_id n = target.
    Hypothesis Hne : target <> oa_node ph.
    Hypothesis Hphk : phk <> 0%N.
    Hypothesis Hadd : n_add n real1 false = Some n'.
    Let s3 := upd_node s2 target (fun _ => n').

    Lemma swC_n' : n' = n_with n (on_occupied n) (addTo (on_allocated n) (oa_res real)) (Prune (subFrom (on_available n) (oa_res real)))
                               (put_alloc real1 (on_allocs n)) (on_foreign n).
    Proof. unfold n_add in Hadd. cbn [orb] in Hadd. destruct (FitIn _ _); [|discriminate].
      assert (F : oa_foreign real1 = false) by apply (a3_native _ _ sw_real_ok). rewrite F in Hadd. inversion Hadd. reflexivity. Qed.
    Lemma swC_n_in2 : In n (s_nodes s2).
    Proof. apply sw2_in_nodes. exists n. split; [exact Hn|]. symmetry. apply (sw2_node_same n Hn). rewrite En. exact Hne. Qed.
    Lemma swC_nodes : s_nodes s3 = updk on_id (s_nodes s2) (on_id n) (fun _ => n').
    Proof. rewrite En. reflexivity. Qed.
    Lemma swC_nid : on_id n' = on_id n. Proof. rewrite swC_n'. reflexivity. Qed.
    Lemma swC_allocs : on_allocs n' = put_alloc real1 (on_allocs n). Proof. rewrite swC_n'. reflexivity. Qed.

    Lemma swC_step : InvG s3 /\ BooksG s3.
    Proof. destruct swB_step as [HI2 HB2]. pose proof swC_n_in2 as Hn2. pose proof swC_nodes as Enodes. pose proof swC_nid as Enid. pose proof swC_allocs as Eal.
      assert (Hfr : ~ In (oa_key real1) (akeys (on_allocs n))).
      { intros C. unfold akeys in C. apply in_map_iff in C. destruct C as (y & E & Hy). apply (sw2_rk_fresh n y Hn2 Hy E). }
      apply (gang_frame_step s2 s3 (fun q => q) HI2 HB2 eq_refl); try reflexivity.
      - symmetry. apply map_id.
      - intros f b x Hf Hb Hx. apply (ig_foreign s2 HI2 f b x Hf Hb Hx).
      - apply (g_node_ids' s2 s3 n n' HI2 Enodes Enid).
      - apply (g_nodes_ok' s2 s3 n n' HI2 Hn2 Enodes).
        apply (nodeok3_put n n' real1 (ig_nodes s HI n Hn) Enid Eal); [symmetry; exact En|rewrite swC_n'; apply addTo_wf, (k3_wf n (ig_nodes s HI n Hn))|].
        intros k. apply find_alloc_none in Hfr. rewrite Hfr, swC_n'. cbn [n_with on_allocated].
        rewrite addTo_getz; [cbn [real1 oa_set_link oa_bound oa_res]; lia|apply (a3_wf _ _ sw_real_ok)|apply (bd_nodes s (b3_base s HBd) n Hn)|apply sw_real_rb].
      - intros m y Hm Hy. apply (g_in_nodes' s2 s3 n n' HI2 Hn2 Enodes) in Hm. change (s_apps s3) with (s_apps s2).
        assert (Hold : forall m0, In m0 (s_nodes s2) -> In y (on_allocs m0) ->
                  exists a0, In a0 (s_apps s2) /\ ap_id a0 = oa_app y /\ (In y (ap_allocs a0) \/
                    (infl y = true /\ In y (ap_requests a0) /\ oa_allocated y = true /\ ~ In (oa_key y) (akeys (ap_allocs a0)))))
          by (intros m0 Hm0 Hy0; apply (ig_owned s2 HI2 m0 y Hm0 Hy0)).
        destruct Hm as [->|[Hm _]]; [|apply (Hold m Hm Hy)]. rewrite Eal in Hy. apply in_put_alloc in Hy. destruct Hy as [->|[Hy _]]; [|apply (Hold n Hn2 Hy)].
        exists a2. split; [apply sw2_a2_in|]. split; [symmetry; apply (a3_app _ _ sw_real_ok)|]. right.
        split; [apply (sw_real1_infl Hphk)|]. split; [apply sw_real1_in|]. split; [reflexivity|]. rewrite sw_a2_alloc_keys. apply sw_rk_fresh.
      - intros b x Hb Hx. change (s_apps s3) with (s_apps s2) in Hb. destruct (ig_onnode s2 HI2 b x Hb Hx) as (m & Hm & Em & Hxm).
        destruct (g_record_kept s2 s3 n n' HI2 Hn2 Enodes Enid m x Hm Hxm) as (m' & Hm' & Em' & Hxm').
        { intros ->. rewrite Eal. apply in_put_alloc. right. split; [assumption|]. apply (sw2_rk_fresh n x Hn2 Hxm). }
        exists m'. split; [assumption|]. split; [congruence|assumption].
      - change (s_nallocs s3) with (s_nallocs s2). change (all_allocs s3) with (all_allocs s2). apply (ig_count s2 HI2).
      - intros k. rewrite (ninfl_put_fresh s2 s3 n n' HI2 Hn2 Enodes Enid real1 k Eal Hfr). unfold ninfl. rewrite (sw_real1_infl Hphk). cbn [negb]. lia. Qed.

    Theorem swap_cross_step : LinkOK s ->
      (forall k, getz (oa_res real) k <= getz (oa_res ph) k) ->
      (forall r, In r (ap_requests a) -> oa_key r = oa_release ph -> oa_allocated r = false) ->
      unlinked (ap_allocs a) rk ->
      InvG2 s3 /\ BooksG s3.
    Proof. intros HL Hsize Hfree Hunl. destruct swC_step as [HI3 HB3]. split; [|exact HB3]. split; [exact HI3|].
      destruct swB_step as [HI2 _]. pose proof swC_n_in2 as Hn2. pose proof swC_nodes as Enodes. pose proof swC_nid as Enid. pose proof swC_allocs as Eal.
      apply (swL_linkok s3 HL Hsize Hfree Hunl sw2_apps).
      - intros m' y' Hm' Hy'. apply (g_in_nodes' s2 s3 n n' HI2 Hn2 Enodes) in Hm'. destruct Hm' as [->|[Hm' _]]; [|left; apply (sw2_bwd m' y' Hm' Hy')].
        rewrite Eal in Hy'. apply in_put_alloc in Hy'. destruct Hy' as [->|[Hy' _]]; [right; auto|]. left. exists n, y'. split; [exact Hn|]. split; [exact Hy'|].
        left. split; [|reflexivity]. intros ->. apply Hne. rewrite <- En. symmetry. apply (k3_node n (ig_nodes s HI n Hn) ph Hy').
      - intros m y Hm Hy Hney. destruct (sw2_fwd m y Hm Hy Hney) as (m2 & Hm2 & Em2 & Hy2).
        destruct (g_record_kept s2 s3 n n' HI2 Hn2 Enodes Enid m2 y Hm2 Hy2) as (m' & Hm' & Em' & Hym').
        { intros ->. rewrite Eal. apply in_put_alloc. right. split; [assumption|]. apply (sw2_rk_fresh n y Hn2 Hy2). }
        exists m'. split; [assumption|]. split; [congruence|assumption].
      - intros _. exists n'. split; [apply (g_in_nodes' s2 s3 n n' HI2 Hn2 Enodes); auto|]. split; [congruence|]. rewrite Eal. apply in_put_alloc. auto. Qed.
  End Cross.
End SwapStart.

(* ================================================================== the dispatcher *)
(* Side hypotheses of the start of a replacement (all decidable on the pre-state and the observed decision):
   - the placeholder's key is not 0: 0 encodes "no link" in the observation format, an ask linked to key 0 would not be
     recognised as in flight ([infl]);
   - the placeholder is not being replaced already: the ask its link names (if any) is not an allocated request.  In the
     Go code the link of a placeholder is set together with [released], and the guard of tryPlaceholderAllocate skips
     released placeholders; [InvG2] does not record this.  Without it the old partner - when it is bound on another
     node - would lose its placeholder (L1);
   - no placeholder of the application is linked to the chosen (pending) real ask already.  In the Go code a link to an
     ask exists only while the ask is allocated.  Without it the ask would link back to one of two placeholders (L2). *)
Definition SwapOK (s obs : ostate) (app phk : N) : Prop :=
  phk <> 0%N /\
  forall a a' ph ph', find_app s app = Some a -> find_app obs app = Some a' ->
    find_alloc (ap_allocs a) phk = Some ph -> find_alloc (ap_allocs a') phk = Some ph' ->
    (forall r, In r (ap_requests a) -> oa_key r = oa_release ph -> oa_allocated r = false) /\
    unlinked (ap_allocs a) (oa_release ph').

Lemma no_negative_le p r : wf p -> wf r -> rb p -> rb r -> HasNegativeValue (Some (Sub (Some p) (Some r))) = false ->
  forall k, getz r k <= getz p k.
Proof. intros Wp Wr Bp Br H k. destruct (Z_le_gt_dec (getz r k) (getz p k)) as [L|G]; [exact L|]. exfalso.
  assert (C : HasNegativeValue (Some (Sub (Some p) (Some r))) = true).
  { apply HasNegativeValue_spec; [apply Sub_wf; exact Wp|]. exists k. cbn [oget]. rewrite Sub_exact by assumption. lia. }
  congruence. Qed.

Theorem g_swap_start_step deny s obs app phk s' : InvG2 s -> BooksG s -> Bounded3 s -> SwapOK s obs app phk ->
  g_swap_start deny s obs app phk = Some s' -> InvG2 s' /\ BooksG s'.
Proof. intros [HI HL] HB HBd [Hnz HOK]. unfold g_swap_start. cbv zeta.
  destruct (find_app s app) as [a|] eqn:Ea; [|discriminate]. destruct (find_app obs app) as [a'|] eqn:Ea'; [|discriminate].
  destruct (negb (no_res a)); [discriminate|].
  destruct (find_alloc (ap_allocs a) phk) as [ph|] eqn:Eph; [|discriminate]. destruct (find_alloc (ap_allocs a') phk) as [ph'|] eqn:Eph'; [|discriminate].
  destruct (HOK a a' ph ph' eq_refl eq_refl Eph Eph') as [Hfree Hunl]. clear HOK.
  destruct (find_alloc (ap_requests a) (oa_release ph')) as [real|] eqn:Er; [|discriminate].
  destruct (find_alloc (ap_requests a') (oa_release ph')) as [real'|]; [|discriminate].
  destruct (IsZero (Some (ap_phalloc a))); [discriminate|].
  destruct (oa_ph real || (oa_tg real =? 0)%N || oa_allocated real) eqn:G1; [discriminate|].
  destruct (negb (oa_ph ph) || oa_released ph || oa_preempted ph || negb (oa_tg real =? oa_tg ph)%N) eqn:G2; [discriminate|].
  destruct (HasNegativeValue _) eqn:G3; [discriminate|].
  destruct (find_app_some s app a Ea) as [Ha Eid]. destruct (find_alloc_some _ _ _ Eph) as [Hph Ekp]. destruct (find_alloc_some _ _ _ Er) as [Hr Ekr].
  apply orb_false_iff in G1. destruct G1 as [G1 Hna]. apply orb_false_iff in G1. destruct G1 as [Rph _].
  apply orb_false_iff in G2. destruct G2 as [G2 _]. apply orb_false_iff in G2. destruct G2 as [G2 _]. apply orb_false_iff in G2. destruct G2 as [Pph _].
  apply negb_false_iff in Pph.
  pose proof (ig_app_wf s HI a Ha) as W. pose proof (bd_apps s (b3_base s HBd) a Ha) as Bd.
  assert (Hsize : forall k, getz (oa_res real) k <= getz (oa_res ph) k).
  { apply no_negative_le; [apply (a3_wf _ _ (w3_alloc a W ph Hph))|apply (a3_wf _ _ (w3_req a W real Hr))|apply (abd_alloc a Bd ph Hph)|apply (abd_req a Bd real Hr)|exact G3]. }
  rewrite <- Ekr in *. subst app phk. set (target := oa_node real').
  destruct (target =? oa_node ph)%N eqn:Et.
  - apply N.eqb_eq in Et. destruct (find_node s target); [|discriminate]. destruct (denied deny (oa_key real) target); [discriminate|]. intros [= <-].
    apply (swap_same_step s a ph real target HI HB HBd Ha Hph Hr Hna Pph Rph HL Et Hsize Hfree Hunl).
  - apply N.eqb_neq in Et. destruct (match find_node s (oa_node ph) with Some _ => _ | None => _ end); [discriminate|].
    destruct (find_node s target) as [n|] eqn:En; [|discriminate]. destruct (negb _); [discriminate|].
    destruct (n_add n _ false) as [n'|] eqn:Eadd; [|discriminate]. intros [= <-]. destruct (find_node_some s target n En) as [Hn Enid].
    apply (swap_cross_step s a ph real target HI HB HBd Ha Hph Hr Hna Pph Rph n n' Hn Enid Et Hnz Eadd HL Hsize Hfree Hunl). Qed.

(* ------------------------------------------------------------------ executable form of the side hypothesis *)
Definition swap_ok_b (s obs : ostate) (app phk : N) : bool :=
  negb (phk =? 0)%N &&
  match find_app s app, find_app obs app with
  | Some a, Some a' =>
      match find_alloc (ap_allocs a) phk, find_alloc (ap_allocs a') phk with
      | Some ph, Some ph' =>
          forallb (fun r => negb (oa_key r =? oa_release ph)%N || negb (oa_allocated r)) (ap_requests a) &&
          forallb (fun y => negb (oa_ph y) || (oa_release y =? 0)%N || negb (oa_release y =? oa_release ph')%N) (ap_allocs a)
      | _, _ => true
      end
  | _, _ => true
  end.
Lemma swap_ok_b_sound s obs app phk : swap_ok_b s obs app phk = true -> SwapOK s obs app phk.
Proof. unfold swap_ok_b. intros H. apply andb_true_iff in H. destruct H as [H0 H]. apply negb_true_iff, N.eqb_neq in H0. split; [exact H0|].
  intros a a' ph ph' Ea Ea' Eph Eph'. rewrite Ea, Ea', Eph, Eph' in H. apply andb_true_iff in H. destruct H as [H1 H2].
  rewrite forallb_forall in H1, H2. split.
  - intros r Hr Ek. specialize (H1 r Hr). apply N.eqb_eq in Ek. rewrite Ek in H1. cbn [negb orb] in H1. apply negb_true_iff in H1. exact H1.
  - intros y Hy Yph Yl C. specialize (H2 y Hy). rewrite Yph in H2. apply N.eqb_neq in Yl. rewrite Yl in H2. apply N.eqb_eq in C. rewrite C in H2. discriminate. Qed.
