(* C09 bridge, part 3: the converse.  What the structural clauses of the oracle decide is [RInvO], a weakening of [RInv]:
     c09_struct s = [] -> Ids s -> ComplClean s -> NodeIds s -> RInvO s        and        RInv s -> Ids s -> QueuesReg s -> RInvO s.
   [RInvO] is [RInv] without three facts the flattened predicates of Core/Reserve.v do not look at (each refuted below by a
   concrete state on which the whole oracle [c09_state] is silent, the side conditions [WF9] hold and [RInv] fails):
     (i)   r_out: "the reserved ask does not require ANOTHER node"  - [only_outstanding] checks registered + not allocated only,
           [one_per_node_unless_required] looks at required nodes only on nodes with two or more reservations;
     (ii)  r_qhome / r_qcount: "the entry is in the reservedApps map of the application's OWN queue" - the projection
           concatenates the reservedApps of all queues;
     (iii) r_qnodup: "one entry per application in a queue" - a duplicated entry carries the right number twice. *)
From Coq Require Import List ZArith NArith Bool Lia ZifyBool.
From YK Require Import Base.Res Core.Obs Core.Reserve Oracles.CoreC09 Core.Model4ProofsR1 Core.Model4ProofsBr1 Core.Model4ProofsBr2.
From YK Require Core.Model4ProofsR12.
Import ListNotations.
Open Scope N_scope.
Set Default Timeout 30.

Record RInvO (s : ostate) : Prop := mkRO {
  o_an : forall a nid k, In a (s_apps s) -> In (nid, k) (ap_reservations a) ->
         exists n, In n (s_nodes s) /\ on_id n = nid /\ In (ap_id a, k) (on_reservations n);
  o_na : forall n aid k, In n (s_nodes s) -> In (aid, k) (on_reservations n) ->
         exists a, In a (s_apps s) /\ ap_id a = aid /\ In (on_id n, k) (ap_reservations a);
  o_akeys : forall a, In a (s_apps s) -> NoDup (map snd (ap_reservations a));
  o_nkeys : forall n, In n (s_nodes s) -> NoDup (map snd (on_reservations n));
  (* registered and not allocated; NOT: does not require another node *)
  o_out : forall a nid k, In a (s_apps s) -> In (nid, k) (ap_reservations a) ->
          exists x, In x (ap_requests a) /\ oa_key x = k /\ oa_allocated x = false;
  (* every entry of every queue is positive and is the number of reservations of a live application; NOT: of that queue, once *)
  o_qentry : forall q en, In q (s_queues s) -> In en (q_reserved q) ->
             0 < snd en /\ exists a, In a (s_apps s) /\ ap_id a = fst en /\ snd en = N.of_nat (length (ap_reservations a));
  o_qsome : forall a, In a (s_apps s) -> ap_reservations a <> [] -> exists q en, In q (s_queues s) /\ In en (q_reserved q) /\ fst en = ap_id a;
  o_nrule : forall n p1 p2, In n (s_nodes s) -> In p1 (on_reservations n) -> In p2 (on_reservations n) -> p1 <> p2 ->
            exists a x, In a (s_apps s) /\ ap_id a = fst p1 /\ In x (ap_requests a) /\ oa_key x = snd p1 /\ oa_reqnode x = on_id n }.

Definition NodeIds (s : ostate) : Prop := forall n, In n (s_nodes s) -> on_id n <> 0.

(* ------------------------------------------------------------------ [RInvO] is a weakening of [RInv] *)
Theorem rinv_rinvo s : RInv s -> Ids s -> QueuesReg s -> RInvO s.
Proof. intros HR HI Hq. constructor.
  - apply (r_an _ s HR).
  - apply (r_na _ s HR).
  - apply (r_akeys _ s HR).
  - apply (r_nkeys _ s HR).
  - intros a nid k Ha Hp. destruct (r_out _ s HR a nid k Ha Hp (exempt_none _ _)) as (x & Hx & Ek & Eal & _). eauto.
  - intros q en Hqin Hen. destruct (r_qhome _ s HR q en Hqin Hen) as (Hpos & a & Ha & E1 & E2). split; [exact Hpos|]. exists a. split; [exact Ha|]. split; [exact E1|].
    pose proof (r_qcount _ s HR a q Ha Hqin (eq_sym E2)) as Hcnt. unfold qcount in Hcnt. rewrite E1 in Hcnt.
    rewrite (find_in_nodup fst (q_reserved q) en (r_qnodup _ s HR q Hqin) Hen) in Hcnt. exact Hcnt.
  - intros a Ha Hne. destruct (Hq a Ha) as (q & Hqin & Eq). pose proof (r_qcount _ s HR a q Ha Hqin Eq) as Hcnt. unfold qcount in Hcnt.
    destruct (find (fun x => fst x =? ap_id a) (q_reserved q)) as [en|] eqn:E.
    + apply find_some in E. destruct E as [Hen E]. apply N.eqb_eq in E. exists q, en. auto.
    + exfalso. destruct (ap_reservations a); [apply Hne; reflexivity|]. cbn [length] in Hcnt. lia.
  - intros n [aid k] p2 Hn Hp1 Hp2 Hne. destruct (r_nrule _ s HR n (aid, k) p2 Hn Hp1 Hp2 Hne) as (a & x & Ha & Eid & Hx & Ek & Hreq).
    cbn [fst snd] in *. subst aid k. destruct (r_na _ s HR n (ap_id a) (oa_key x) Hn Hp1) as (a' & Ha' & Eid' & Hin).
    assert (a' = a) by (apply (nodup_key_eq ap_id (s_apps s)); auto; apply (id_apps s HI)). subst a'.
    destruct (r_out _ s HR a (on_id n) (oa_key x) Ha Hin (exempt_none _ _)) as (x' & Hx' & Ek' & _ & Hr').
    assert (x' = x) by (apply (nodup_key_eq oa_key (ap_requests a)); auto; apply (id_reqkeys s HI a Ha)). subst x'.
    exists a, x. destruct Hr' as [C|E]; [contradiction|auto]. Qed.

(* ------------------------------------------------------------------ the oracle decides [RInvO] *)
Lemma NoDup_flat_map_each9 {A B} (h : A -> list B) l : NoDup (flat_map h l) -> forall a, In a l -> NoDup (h a).
Proof. induction l as [|a t IH]; intros H b Hb; [contradiction|]. cbn [flat_map] in H.
  destruct Hb as [<-|Hb]; [eapply Model4ProofsR12.NoDup_app_l; exact H|apply IH; [eapply Model4ProofsR12.NoDup_app_r; exact H|exact Hb]]. Qed.

Theorem oracle_rinvo s : c09_struct s = [] -> Ids s -> ComplClean s -> NodeIds s -> RInvO s.
Proof. intros H HI Hc Hnid. apply c09_struct_spec in H. destruct H as (H1 & H2 & H3 & H4 & H5 & _). pose proof (ids_ids0 s HI) as HI0.
  unfold views_app_node in H1. rewrite andb_true_iff, !subR_incl, (rv_app_live s Hc), rv_node_eq in H1. destruct H1 as [Han Hna].
  unfold one_per_ask in H3. rewrite andb_true_iff, !nodup_ask_spec, (rv_app_live s Hc), rv_node_eq, !map_flat_map9 in H3. destruct H3 as [Nap Nnd].
  unfold only_outstanding in H4. rewrite andb_true_iff, !forallb_forall, (rv_app_live s Hc) in H4. destruct H4 as [Oap _].
  unfold views_queue in H2. rewrite andb_true_iff, !forallb_forall, (rv_app_live s Hc), rv_queue_eq in H2. destruct H2 as [Qap Qen].
  assert (Oan : forall a nid k, In a (s_apps s) -> In (nid, k) (ap_reservations a) -> exists n, In n (s_nodes s) /\ on_id n = nid /\ In (ap_id a, k) (on_reservations n)).
  { intros a nid k Ha Hp. assert (X : In (mkR (ap_id a) k nid) (flat_map node_tr (s_nodes s))) by (apply Han; apply in_app_tr; exists a, nid, k; auto).
    apply in_node_tr in X. destruct X as (n & aid' & k' & Hn & Hp' & E). inversion E. subst. eauto. }
  assert (Ona : forall n aid k, In n (s_nodes s) -> In (aid, k) (on_reservations n) -> exists a, In a (s_apps s) /\ ap_id a = aid /\ In (on_id n, k) (ap_reservations a)).
  { intros n aid k Hn Hp. assert (X : In (mkR aid k (on_id n)) (flat_map app_tr (s_apps s))) by (apply Hna; apply in_node_tr; exists n, aid, k; auto).
    apply in_app_tr in X. destruct X as (a & nid' & k' & Ha & Hp' & E). inversion E. subst. eauto. }
  assert (Oout : forall a nid k, In a (s_apps s) -> In (nid, k) (ap_reservations a) -> exists x, In x (ap_requests a) /\ oa_key x = k /\ oa_allocated x = false).
  { intros a nid k Ha Hp. assert (X : In (mkR (ap_id a) k nid) (flat_map app_tr (s_apps s))) by (apply in_app_tr; exists a, nid, k; auto).
    specialize (Oap _ X). cbn [r_app r_key] in Oap. unfold outstanding in Oap. destruct (find_ask (proj09 s) (ap_id a) k) as [y|] eqn:E; [|discriminate].
    destruct (find_ask_proj_some _ _ _ _ E) as (a' & x & Ha' & Hx & E1 & E2 & ->). cbn [ra_allocated] in Oap. apply negb_true_iff in Oap.
    assert (a' = a) by (apply (nodup_key_eq ap_id (s_apps s)); auto; apply (id_apps s HI)). subst a'. eauto. }
  constructor; auto.
  - (* o_akeys *) intros a Ha. pose proof (NoDup_flat_map_each9 _ _ Nap a Ha) as X. unfold app_tr in X. rewrite map_map in X. unfold rk in X. cbn [r_app r_key] in X.
    rewrite <- (map_map snd (fun k => (ap_id a, k))) in X. apply NoDup_of_map in X. exact X.
  - (* o_nkeys *) intros n Hn. pose proof (NoDup_flat_map_each9 _ _ Nnd n Hn) as X. unfold node_tr in X. rewrite map_map in X. apply NoDup_of_map in X.
    apply NoDup_map_inj; [|exact X]. intros [a1 k1] [a2 k2] P1 P2 E. cbn [snd] in E. subst k2. f_equal.
    destruct (Ona n a1 k1 Hn P1) as (b1 & Hb1 & <- & R1). destruct (Ona n a2 k1 Hn P2) as (b2 & Hb2 & <- & R2).
    destruct (Oout b1 _ _ Hb1 R1) as (x1 & Hx1 & E1 & _). destruct (Oout b2 _ _ Hb2 R2) as (x2 & Hx2 & E2 & _).
    apply (id_keys s HI b1 b2 x1 x2); auto. congruence.
  - (* o_qentry *) intros q en Hqin Hen. assert (X : In en (flat_map q_reserved (s_queues s))) by (apply in_flat_map; eauto).
    specialize (Qen _ X). rewrite andb_true_iff, N.ltb_lt, N.eqb_eq in Qen. destruct Qen as [Hpos Ecard]. split; [exact Hpos|].
    assert (Y : exists a, In a (s_apps s) /\ ap_id a = fst en).
    { unfold card in Ecard. destruct (filter (fun x => r_app x =? fst en) (flat_map app_tr (s_apps s))) as [|x t] eqn:Ef; [cbn [length] in Ecard; lia|].
      assert (Hx : In x (filter (fun x => r_app x =? fst en) (flat_map app_tr (s_apps s)))) by (rewrite Ef; left; reflexivity).
      apply filter_In in Hx. destruct Hx as [Hx Ex]. apply N.eqb_eq in Ex. apply in_app_tr in Hx. destruct Hx as (a & nid & k & Ha & _ & ->). exists a. auto. }
    destruct Y as (a & Ha & Ea). exists a. split; [exact Ha|]. split; [exact Ea|]. rewrite <- (rv_app_live s Hc), <- Ea, (card_proj s a HI0 Hc Ha) in Ecard. exact Ecard.
  - (* o_qsome *) intros a Ha Hne. destruct (ap_reservations a) as [|[nid k] t] eqn:Er; [contradiction|].
    assert (X : In (mkR (ap_id a) k nid) (flat_map app_tr (s_apps s))) by (apply in_app_tr; exists a, nid, k; rewrite Er; cbn; auto).
    specialize (Qap _ X). cbn [r_app] in Qap. apply N.eqb_eq in Qap. rewrite <- (rv_app_live s Hc), (card_proj s a HI0 Hc Ha), Er in Qap. unfold queue_count in Qap.
    destruct (find (fun x => fst x =? ap_id a) (flat_map q_reserved (s_queues s))) as [en|] eqn:E; [|cbn [length] in Qap; lia].
    apply find_some in E. destruct E as [Hen E]. apply N.eqb_eq in E. apply in_flat_map in Hen. destruct Hen as (q & Hqin & Hen). exists q, en. auto.
  - (* o_nrule *) intros n [aid k] p2 Hn Hp1 Hp2 Hne. cbn [fst snd].
    unfold one_per_node_unless_required in H5. rewrite forallb_forall, rv_node_eq in H5.
    assert (X : In (mkR aid k (on_id n)) (flat_map node_tr (s_nodes s))) by (apply in_node_tr; exists n, aid, k; auto).
    specialize (H5 _ X). cbn [r_node] in H5. rewrite (node_entries_proj s n HI0 Hn) in H5.
    assert (G : forallb (fun e => ask_req (proj09 s) (r_app e) (r_key e) =? on_id n) (node_tr n) = true).
    { unfold node_tr in *. destruct (on_reservations n) as [|q1 [|q2 t]]; [contradiction| |exact H5].
      exfalso. destruct Hp1 as [E1|[]]. destruct Hp2 as [E2|[]]. apply Hne. congruence. }
    rewrite forallb_forall in G. assert (Y : In (mkR aid k (on_id n)) (node_tr n)) by (unfold node_tr; apply in_map_iff; exists (aid, k); auto).
    specialize (G _ Y). cbn [r_app r_key] in G. apply N.eqb_eq in G. unfold ask_req in G.
    destruct (find_ask (proj09 s) aid k) as [y|] eqn:E; [|exfalso; apply (Hnid n Hn); auto].
    destruct (find_ask_proj_some _ _ _ _ E) as (a & x & Ha & Hx & E1 & E2 & ->). cbn [ra_req] in G. exists a, x. auto. Qed.

(* ------------------------------------------------------------------ boolean form of the side conditions *)
Definition wf9_b (s : ostate) : bool :=
  Model4ProofsR12.ids_b s && forallb (fun a => match ap_reservations a with [] => true | _ => false end) (s_completed s) &&
  forallb (fun a => existsb (fun q => q_id q =? ap_queue a) (s_queues s)) (s_apps s).
Lemma wf9_b_sound s : wf9_b s = true -> WF9 s.
Proof. unfold wf9_b. rewrite !andb_true_iff, !forallb_forall. intros [[H1 H2] H3]. constructor.
  - apply Model4ProofsR12.ids_b_sound. exact H1.
  - intros a Ha. specialize (H2 a Ha). destruct (ap_reservations a); [reflexivity|discriminate].
  - intros a Ha. specialize (H3 a Ha). apply existsb_exists in H3. destruct H3 as (q & Hq & E). apply N.eqb_eq in E. eauto. Qed.

(* ------------------------------------------------------------------ the converse fails: three witnesses *)
Definition w_ask (k req : N) : oalloc := mkOA k 1 0 [(1, 5%Z)] false 0 false false false 0 req 0%Z false false false false.
Definition w_app (q : N) (asks : list oalloc) (resv : list (N * N)) : oapp :=
  mkOApp 1 q ST_Running 1 [(1, 5%Z)] [] [] [] asks [] resv [] [] false false false false.
Definition w_node (id : N) (resv : list (N * N)) : onode := mkON id [(1, 10%Z)] [] [] [(1, 10%Z)] true [] [] resv.
Definition w_queue (id : N) (rsv : list (N * N)) : oqueue := mkOQ id 0 true true QS_Active None None [] [] [] 0 0 [] rsv [].
Definition w_state (nodes : list onode) (apps : list oapp) (queues : list oqueue) (nres : Z) : ostate :=
  mkOS nodes apps queues None 0 0 nres [] [] [] [].

(* (i) node 1 reserved for an ask that requires node 2 *)
Definition w1 : ostate := w_state [w_node 1 [(1, 10)]; w_node 2 []] [w_app 3 [w_ask 10 2] [(1, 10)]] [w_queue 3 [(1, 1)]] 1.
(* (ii) the reservation is counted by a queue that is not the application's *)
Definition w2 : ostate := w_state [w_node 1 [(1, 10)]] [w_app 3 [w_ask 10 0] [(1, 10)]] [w_queue 3 []; w_queue 4 [(1, 1)]] 1.
(* (iii) the entry of the application is there twice *)
Definition w3 : ostate := w_state [w_node 1 [(1, 10)]] [w_app 3 [w_ask 10 0] [(1, 10)]] [w_queue 3 [(1, 1); (1, 1)]] 1.

Lemma w1_not_rinv : ~ RInv w1.
Proof. intros HR. destruct (r_out _ w1 HR (w_app 3 [w_ask 10 2] [(1, 10)]) 1 10 (or_introl eq_refl) (or_introl eq_refl) (exempt_none _ _)) as (x & Hx & _ & _ & Hr).
  destruct Hx as [<-|[]]. cbn in Hr. destruct Hr; discriminate. Qed.
Lemma w2_not_rinv : ~ RInv w2.
Proof. intros HR. destruct (r_qhome _ w2 HR (w_queue 4 [(1, 1)]) (1, 1) (or_intror (or_introl eq_refl)) (or_introl eq_refl)) as (_ & a & Ha & _ & E).
  destruct Ha as [<-|[]]. cbn in E. discriminate. Qed.
Lemma w3_not_rinv : ~ RInv w3.
Proof. intros HR. pose proof (r_qnodup _ w3 HR (w_queue 3 [(1, 1); (1, 1)]) (or_introl eq_refl)) as H. cbn in H.
  inversion H as [|? ? Hn _]. apply Hn. left. reflexivity. Qed.

Theorem oracle_rinv_refuted_required : exists s, c09_state s = [] /\ WF9 s /\ NodeIds s /\ ~ RInv s.
Proof. exists w1. split; [vm_compute; reflexivity|]. split; [apply wf9_b_sound; vm_compute; reflexivity|]. split; [|exact w1_not_rinv].
  intros n [<-|[<-|[]]]; cbn; discriminate. Qed.
Theorem oracle_rinv_refuted_home : exists s, c09_state s = [] /\ WF9 s /\ NodeIds s /\ ~ RInv s.
Proof. exists w2. split; [vm_compute; reflexivity|]. split; [apply wf9_b_sound; vm_compute; reflexivity|]. split; [|exact w2_not_rinv].
  intros n [<-|[]]; cbn; discriminate. Qed.
Theorem oracle_rinv_refuted_dup : exists s, c09_state s = [] /\ WF9 s /\ NodeIds s /\ ~ RInv s.
Proof. exists w3. split; [vm_compute; reflexivity|]. split; [apply wf9_b_sound; vm_compute; reflexivity|]. split; [|exact w3_not_rinv].
  intros n [<-|[]]; cbn; discriminate. Qed.
