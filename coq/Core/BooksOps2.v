(* C03: every operation of the operational model preserves the books and the invariant.
   Part 2: recovered (already bound) allocation, scheduling decision, release of a bound allocation. *)
From Coq Require Import List ZArith NArith Bool Lia ZifyBool.
From YK Require Import Base.Int64 Base.Res Base.ResSpec Base.ResLemmas Base.ResLaws Base.ResLaws2 Base.ResLawsPred
  Core.Obs Core.Model Core.Ledger
  Core.BooksLemmas Core.BooksDefs Core.BooksTree Core.BooksQueue Core.BooksApp Core.BooksState Core.BooksDrain Core.BooksStep
  Core.BooksOps.
Import ListNotations.
Open Scope Z_scope.

Lemma asum_put l x k : NoDup (akeys l) ->
  asum (put_alloc x l) k = asum l k + getz (oa_res x) k
                           - match find_alloc l (oa_key x) with Some y => getz (oa_res y) k | None => 0 end.
Proof. intros H. change (put_alloc x l) with (x :: del_alloc (oa_key x) l). rewrite asum_cons, asum_del by assumption. lia. Qed.

(* the node record after binding a native allocation (addAllocationInternal) *)
Definition node_bound (n : onode) (x : oalloc) : onode :=
  n_with n (on_occupied n) (addTo (on_allocated n) (oa_res x)) (Prune (subFrom (on_available n) (oa_res x)))
         (put_alloc x (on_allocs n)) (on_foreign n).
(* ... and after removing one (RemoveAllocation) *)
Definition node_unbound (n : onode) (x : oalloc) : onode :=
  n_with n (on_occupied n) (Prune (subFrom (on_allocated n) (oa_res x))) (addTo (on_available n) (oa_res x))
         (del_alloc (oa_key x) (on_allocs n)) (on_foreign n).

(* ------------------------------------------------------------------ binding an allocation on application and node *)
Section Bind.
  Variables (s s' : ostate) (a a' : oapp) (n : onode) (x : oalloc) (F : oqueue -> oqueue) (dP : tid -> Z).
  Hypothesis HI : Inv s.
  Hypothesis HB : Books0 s.
  Hypothesis HBd : Bounded s.
  Hypothesis Ha : In a (s_apps s).
  Hypothesis Hn : In n (s_nodes s).
  Hypothesis Xok : AllocOK (ap_id a) x.
  Hypothesis Xb : rb (oa_res x).
  Hypothesis Xnode : oa_node x = on_id n.
  Hypothesis Xfresh : forall b, In b (s_apps s) -> ~ In (oa_key x) (akeys (ap_allocs b)).
  Hypothesis Eapps : s_apps s' = updk ap_id (s_apps s) (ap_id a) (fun _ => a').
  Hypothesis Enodes : s_nodes s' = updk on_id (s_nodes s) (on_id n) (fun _ => node_bound n x).
  Hypothesis Eq : s_queues s' = map (fun q => if memN (q_id q) (path_ids s (ap_queue a)) then F q else q) (s_queues s).
  Hypothesis Ef : s_foreign s' = s_foreign s.
  Hypothesis Ec : s_nallocs s' = s_nallocs s + 1.
  Hypothesis Fid : forall q, q_id (F q) = q_id q.
  Hypothesis Fpar : forall q, q_parent (F q) = q_parent q.
  Hypothesis Fleaf : forall q, q_leaf (F q) = q_leaf q.
  Hypothesis QF : forall q, In q (s_queues s) -> In (q_id q) (path_ids s (ap_queue a)) ->
      (wf (q_alloc (F q)) /\ wf (q_pending (F q))) /\
      (forall k, getz (q_alloc (F q)) k = getz (q_alloc q) k + getz (oa_res x) k) /\
      (forall k, getz (q_pending (F q)) k = getz (q_pending q) k + dP k) /\
      (rnonneg (q_alloc (F q)) /\ rnonneg (q_pending (F q))).
  Hypothesis Eid : ap_id a' = ap_id a.
  Hypothesis Equeue : ap_queue a' = ap_queue a.
  Hypothesis Ba' : AppBooks a'.
  Hypothesis Wa' : AppWF a'.
  Hypothesis Hkeys : ReqKeysOK s a a'.
  Hypothesis Ealloc : ap_allocs a' = put_alloc x (ap_allocs a).
  Hypothesis HdA : forall k, getz (ap_allocated a') k + getz (ap_phalloc a') k =
                             getz (ap_allocated a) k + getz (ap_phalloc a) k + getz (oa_res x) k.
  Hypothesis HdP : forall k, getz (ap_pending a') k = getz (ap_pending a) k + dP k.

  Lemma bind_core : Inv s' /\ Books s'.
  Proof.
    pose proof (inv_nodes s HI n Hn) as K. pose proof (owned_P_of s HI (bk_owned s HB)) as HO. pose proof (onnode_P_of s (bk_onnode s HB)) as HP.
    assert (Hfn : find_alloc (on_allocs n) (oa_key x) = None).
    { apply find_alloc_none. apply (fresh_on_nodes s HO x Xfresh n Hn). }
    assert (Hled : forall k, getz (on_allocated (node_bound n x)) k = asum (on_allocs (node_bound n x)) k).
    { intros k. cbn [node_bound n_with on_allocated on_allocs]. rewrite addTo_getz; [|apply (ao_wf _ x Xok)|apply (bd_nodes s HBd n Hn)|exact Xb].
      rewrite asum_put by apply (nk_keys s n K). rewrite Hfn, (nk_ledger s n K k). lia. }
    assert (Hwf : wf (on_allocated (node_bound n x))) by (cbn [node_bound n_with on_allocated]; apply addTo_wf, (nk_wf s n K)).
    apply (native_step s s' a a' F (fun k => getz (oa_res x) k) dP HI HB Ha Eapps Eq Ef); auto.
    - intros q Hq Hin. apply (QF q Hq Hin).
    - intros q Hq Hin. apply (QF q Hq Hin).
    - intros q Hq Hin. apply (QF q Hq Hin).
    - intros q Hq Hin. apply (QF q Hq Hin).
    - apply (node_ids' s s' n (node_bound n x) HI Enodes eq_refl).
    - apply (add_nodes_ok s s' a a' n (node_bound n x) HI HO Ha Hn Eapps Enodes eq_refl x Ealloc eq_refl Xnode (ao_link _ x Xok) Xfresh Hled Hwf).
    - apply (count_step s s' a a' 1 HI Ha Eapps); [|assumption]. rewrite Ealloc.
      change (put_alloc x (ap_allocs a)) with (x :: del_alloc (oa_key x) (ap_allocs a)). rewrite del_alloc_fresh by apply (Xfresh a Ha).
      cbn [length]. lia.
    - apply (add_owned s s' a a' n (node_bound n x) HI HO Ha Hn Eapps Enodes Eid x Ealloc eq_refl (ao_app _ x Xok)).
    - apply (add_onnode s s' a a' n (node_bound n x) HI HP Ha Hn Eapps Enodes eq_refl x Ealloc eq_refl Xnode).
    - intros k. rewrite Enodes. rewrite (sumz_updk on_id on_allocated (s_nodes s) (on_id n) _ n k (inv_node_ids s HI) Hn eq_refl).
      cbn [node_bound n_with on_allocated]. rewrite addTo_getz; [lia|apply (ao_wf _ x Xok)|apply (bd_nodes s HBd n Hn)|exact Xb].
  Qed.
End Bind.

Lemma key_fresh_allocs s key : Inv s -> KeyFresh s key -> forall b, In b (s_apps s) -> ~ In key (akeys (ap_allocs b)).
Proof. intros HI [Hf _] b Hb C. unfold akeys in C. apply in_map_iff in C. destruct C as (y & E & Hy).
  pose proof (alloc_key_in_requests b y (inv_app_wf s HI b Hb) Hy) as Hin. unfold akeys in Hin. apply in_map_iff in Hin.
  destruct Hin as (z & Ez & Hz). apply (Hf b z Hb Hz). congruence. Qed.

(* ================================================================== recovered allocation *)
Theorem recovered_step s s' a n x : Inv s -> Books0 s -> Bounded s -> In a (s_apps s) -> In n (s_nodes s) ->
  AllocOK (ap_id a) x -> rb (oa_res x) -> oa_allocated x = true -> oa_node x = on_id n -> KeyFresh s (oa_key x) ->
  m_recovered s a n x = Some s' -> Inv s' /\ Books s'.
Proof. intros HI HB HBd Ha Hn Xok Xb Xal Xnode Xfresh H.
  unfold m_recovered in H. destruct (oa_ph x) eqn:Xph; [discriminate|].
  unfold n_add in H. cbn [orb] in H. rewrite (ao_native _ x Xok) in H. fold (node_bound n x) in H. fold (recovered_app a x) in H.
  inversion H; subst s'; clear H.
  pose proof (inv_app_wf s HI a Ha) as W. pose proof (bk_apps s HB a Ha) as B. pose proof (bd_apps s HBd a Ha) as Bd.
  assert (Xf : find_alloc (ap_requests a) (oa_key x) = None).
  { apply find_alloc_none. intros C. unfold akeys in C. apply in_map_iff in C. destruct C as (z & E & Hz). apply (proj1 Xfresh a z Ha Hz E). }
  apply (bind_core s _ a (recovered_app a x) n x (F_inc (oa_res x)) (fun _ => 0) HI HB HBd Ha Hn Xok Xb Xnode (key_fresh_allocs s _ HI Xfresh));
    try reflexivity.
  - intros q Hq _. destruct (inv_q_wf s HI q Hq). destruct (bd_queues s HBd q Hq). pose proof (bk_queues s HB q Hq) as QB.
    apply F_inc_facts; auto; try apply (ao_wf _ x Xok); try apply (qb_nn_alloc s q QB); try apply (qb_nn_pend s q QB); try apply (ao_nn _ x Xok).
  - apply recovered_id.
  - apply recovered_queue.
  - apply recovered_books; assumption.
  - apply recovered_wf; assumption.
  - intros r' Hr'. rewrite recovered_requests in Hr'. apply in_put_alloc in Hr'.
    destruct Hr' as [->|[Hr' _]]; [right; exact Xfresh|left; exists r'; auto].
  - apply recovered_allocs.
  - intros k. rewrite recovered_allocated, recovered_phalloc by assumption. lia.
  - intros k. rewrite recovered_pending_eq. lia.
Qed.

(* ================================================================== a scheduling decision *)
Lemma sched_queues s s2 leaf r : s_queues s2 = map (fun q => if memN (q_id q) (path_ids s leaf) then F_inc r q else q) (s_queues s) ->
  s_queues (q_dec_pending s2 leaf r) =
  map (fun q => if memN (q_id q) (path_ids s leaf) then F_dec_pending r (F_inc r q) else q) (s_queues s).
Proof. intros E. rewrite q_dec_pending_queues.
  rewrite (path_ids_map s s2 (fun q => if memN (q_id q) (path_ids s leaf) then F_inc r q else q) leaf E)
    by (intros q; destruct (memN _ _); reflexivity).
  rewrite E, map_map. apply map_ext. intros q. destruct (memN (q_id q) (path_ids s leaf)) eqn:Em.
  - change (q_id (F_inc r q)) with (q_id q). rewrite Em. reflexivity.
  - rewrite Em. reflexivity. Qed.

Theorem sched_alloc_step deny s s' a k nid : Inv s -> Books0 s -> Bounded s -> In a (s_apps s) ->
  m_sched_alloc deny s a k nid = Some s' -> Inv s' /\ Books s'.
Proof. intros HI HB HBd Ha H. unfold m_sched_alloc in H.
  destruct (find_alloc (ap_requests a) k) as [ask|] eqn:Eask; [|discriminate].
  destruct (find_node s nid) as [n|] eqn:En; [|discriminate].
  destruct (oa_allocated ask) eqn:Ana; [discriminate|]. destruct (oa_ph ask) eqn:Aph; [discriminate|]. cbn [orb] in H.
  match type of H with (if ?c then None else _) = _ => destruct c; [discriminate|] end.
  match type of H with (if ?c then None else _) = _ => destruct c; [discriminate|] end.
  apply find_alloc_some in Eask. destruct Eask as [Hask Ek]. apply find_node_some in En. destruct En as [Hn Enid].
  pose proof (inv_app_wf s HI a Ha) as W. pose proof (bk_apps s HB a Ha) as B. pose proof (bd_apps s HBd a Ha) as Bd.
  pose proof (aw_req a W ask Hask) as Aok. pose proof (abd_req a Bd ask Hask) as Ab.
  unfold n_add in H. cbn [orb] in H.
  match type of H with match (if ?c then _ else None) with _ => _ end = _ => destruct c; [|discriminate] end.
  change (oa_foreign (oa_bound ask nid)) with (oa_foreign ask) in H. rewrite (ao_native _ ask Aok) in H.
  unfold q_try_inc in H.
  match type of H with match (if ?c then _ else None) with _ => _ end = _ => destruct c; [|discriminate] end.
  fold (sched_app a ask nid) in H. change (oa_res (oa_bound ask nid)) with (oa_res ask) in H.
  fold (F_inc (oa_res ask)) in H. subst nid. fold (node_bound n (oa_bound ask (on_id n))) in H.
  inversion H; subst s'; clear H.
  set (x := oa_bound ask (on_id n)).
  assert (Xfresh : forall b, In b (s_apps s) -> ~ In (oa_key x) (akeys (ap_allocs b))).
  { intros b Hb C. unfold akeys in C. apply in_map_iff in C. destruct C as (y & E & Hy). change (oa_key x) with (oa_key ask) in E.
    destruct (aw_allocreq b (inv_app_wf s HI b Hb) y Hy) as (r1 & Hr1 & E1 & Hal).
    assert (Eab : ap_id b = ap_id a) by (apply (inv_keys s HI b a r1 ask); auto; congruence).
    assert (b = a) by (apply (nodup_key_inj ap_id (s_apps s)); auto; apply (inv_app_ids s HI)). subst b.
    assert (r1 = ask) by (apply (nodup_key_inj oa_key (ap_requests a)); auto; [apply (aw_req_keys a W)|congruence]). congruence. }
  apply (bind_core s _ a (sched_app a ask (on_id n)) n x (fun q => F_dec_pending (oa_res ask) (F_inc (oa_res ask) q)) (fun k => - getz (oa_res ask) k)
           HI HB HBd Ha Hn (oa_bound_ok _ ask _ Aok) Ab eq_refl Xfresh); try reflexivity.
  - apply sched_queues. reflexivity.
  - intros q Hq Hin. destruct (inv_q_wf s HI q Hq) as [Wqa Wqp]. destruct (bd_queues s HBd q Hq) as [Bqa Bqp]. pose proof (bk_queues s HB q Hq) as QB.
    destruct (F_inc_facts q (oa_res ask) Wqa Wqp (ao_wf _ ask Aok) Bqa Ab (qb_nn_alloc s q QB) (qb_nn_pend s q QB) (ao_nn _ ask Aok))
      as ((I1 & I2) & I3 & I4 & I5 & I6).
    assert (Hle : forall k, getz (oa_res ask) k <= getz (q_pending (F_inc (oa_res ask) q)) k).
    { intros k0. change (q_pending (F_inc (oa_res ask) q)) with (q_pending q).
      pose proof (ask_le_pending a ask W B Hask Ana k0). pose proof (app_pending_dominated s a HI HB Ha q k0 Hq Hin). lia. }
    destruct (F_dec_pending_facts (F_inc (oa_res ask) q) (oa_res ask) I1 I2 (ao_wf _ ask Aok) Bqp Ab I5 Hle)
      as ((D1 & D2) & D3 & D4 & D5 & D6).
    change (oa_res x) with (oa_res ask). split; [split; assumption|]. split; [|split; [|split; assumption]].
    + intros k0. rewrite D3, I3. lia.
    + intros k0. rewrite D4. change (q_pending (F_inc (oa_res ask) q)) with (q_pending q). lia.
  - apply sched_id.
  - apply sched_queue.
  - apply sched_books; assumption.
  - apply sched_wf; assumption.
  - intros r' Hr'. rewrite sched_requests in Hr'. apply in_put_alloc in Hr'. left.
    destruct Hr' as [->|[Hr' _]]; [exists ask; auto|exists r'; auto].
  - apply sched_allocs.
  - intros k0. rewrite sched_allocated, sched_phalloc by assumption. change (oa_res x) with (oa_res ask). lia.
  - intros k0. rewrite sched_pending by assumption. lia.
Qed.
