(* C03 over the gang fragment (Core/Model3.v), operations, part 1.
   A. frame lemmas for [LinkOK] (Core/Model3ProofsD2.v): [linkok_frame] (general), [linkok_same] (queues / counters /
      completed list), [linkok_app_upd] (one application's request list shrinks or gains pending requests),
      [linkok_apps_core] (records with the same lists), [linkok_drop_app], [linkok_add_app], [rmap_flag_linkok] /
      [obj_upd_flag_linkok] / [release_marks_linkok] (flag-only changes of shared objects);
      frame lemmas for [Bounded3]; state-level lemmas [flag_step2], [release_marks_step2], [core_upd_step2],
      [same_state_step2].
   B. [g_app_add_step2], [g_new_ask_step2]: the [InvG2] versions of Core/Model3ProofsG4.v / G5.v.
   C. the flag-only operations: [g_cancel_larger_step2], [g_cancel_all_step2], [g_fire_state_step2],
      [g_fire_state_dead_step2], [g_fire_ph_dead_step2].
   Core/Model3ProofsO1b.v: removeAsksInternal, the placeholder timer, the covered branches of [g_alloc]. *)
From Coq Require Import List ZArith NArith Bool Lia ZifyBool.
From YK Require Import Base.Int64 Base.Res Base.ResSpec Base.ResLemmas Base.ResLaws Base.ResLaws2 Base.ResLawsPred
  Core.Obs Core.Model Core.Model2 Core.Model3 Core.Ledger
  Core.BooksLemmas Core.BooksDefs Core.BooksTree Core.BooksQueue Core.BooksApp Core.BooksState Core.BooksDrain Core.BooksOps
  Core.BooksOps2 Core.Model2ProofsB1 Core.Model2ProofsB2 Core.Model3ProofsD Core.Model3ProofsD2
  Core.Model3ProofsG1 Core.Model3ProofsG2 Core.Model3ProofsG3 Core.Model3ProofsG4 Core.Model3ProofsG5
  Core.Model3ProofsA1 Core.Model3ProofsA2.
Import ListNotations.
Open Scope Z_scope.
Set Default Timeout 30.

(* ================================================================== A. LinkOK frames *)
(* The node lists are untouched.  [Hkeep]: a placeholder that a record on a node points to stays an allocation of (the
   record with the identifier of) its application.  [Hfrom]: every pair (linked placeholder, allocated real request
   under the linked key) of the new state is such a pair of the old state. *)
Lemma linkok_frame s s' : s_nodes s' = s_nodes s ->
  (forall n y a ph, In n (s_nodes s) -> In y (on_allocs n) -> infl y = true -> In a (s_apps s) -> ap_id a = oa_app y ->
     In ph (ap_allocs a) -> oa_ph ph = true -> oa_key ph = oa_release y ->
     exists a', In a' (s_apps s') /\ ap_id a' = ap_id a /\ In ph (ap_allocs a')) ->
  (forall a' ph r, In a' (s_apps s') -> In ph (ap_allocs a') -> oa_ph ph = true -> oa_release ph <> 0%N ->
     In r (ap_requests a') -> oa_key r = oa_release ph -> oa_ph r = false -> oa_allocated r = true ->
     exists a, In a (s_apps s) /\ In ph (ap_allocs a) /\ In r (ap_requests a)) ->
  LinkOK s -> LinkOK s'.
Proof. intros En Hkeep Hfrom [L1 L2]. split.
  - intros n y Hn Hy Hi. rewrite En in Hn. destruct (L1 n y Hn Hy Hi) as (a & ph & Ha & Ea & Hph & Pph & Ek & Er & Hne).
    destruct (Hkeep n y a ph Hn Hy Hi Ha Ea Hph Pph Ek) as (a' & Ha' & Ea' & Hph').
    exists a', ph. repeat split; auto. congruence.
  - intros a' ph r Ha' Hph Pph Hl Hr Ek Pr Hal. destruct (Hfrom a' ph r Ha' Hph Pph Hl Hr Ek Pr Hal) as (a & Ha & Hpha & Hra).
    rewrite En. apply (L2 a ph r Ha Hpha Pph Hl Hra Ek Pr Hal). Qed.

(* (d) only queues, counters, the total, the completed / rejected lists, foreign allocations change *)
Lemma linkok_same s s' : s_nodes s' = s_nodes s -> s_apps s' = s_apps s -> LinkOK s -> LinkOK s'.
Proof. intros En Ea. apply linkok_frame; [assumption| |].
  - intros n y a ph _ _ _ Ha _ Hph _ _. exists a. rewrite Ea. auto.
  - intros a' ph r Ha' Hph _ _ Hr _ _ _. exists a'. rewrite <- Ea. auto. Qed.

(* every application record is replaced by one with the same identifier; allocation lists are kept; the allocated
   real requests of the new record are requests of the old one (requests may vanish, pending / placeholder requests
   may appear) *)
Lemma linkok_apps_rel s s' : s_nodes s' = s_nodes s ->
  (forall a, In a (s_apps s) -> ap_allocs a <> [] -> exists a', In a' (s_apps s') /\ ap_id a' = ap_id a /\ ap_allocs a' = ap_allocs a) ->
  (forall a', In a' (s_apps s') -> ap_allocs a' <> [] -> exists a, In a (s_apps s) /\ ap_allocs a' = ap_allocs a /\
     forall r, In r (ap_requests a') -> oa_ph r = false -> oa_allocated r = true -> In r (ap_requests a)) ->
  LinkOK s -> LinkOK s'.
Proof. intros En H1 H2. apply linkok_frame; [assumption| |].
  - intros n y a ph _ _ _ Ha _ Hph _ _. destruct (H1 a Ha) as (a' & Ha' & Eid & Eal); [intros C; rewrite C in Hph; contradiction|].
    exists a'. rewrite Eal. auto.
  - intros a' ph r Ha' Hph _ _ Hr _ Pr Hal. destruct (H2 a' Ha') as (a & Ha & Eal & Hreq); [intros C; rewrite C in Hph; contradiction|].
    exists a. rewrite <- Eal. auto. Qed.

(* (b) one application record is replaced *)
Lemma linkok_app_upd s s' a a' : InvG s -> In a (s_apps s) ->
  s_apps s' = updk ap_id (s_apps s) (ap_id a) (fun _ => a') -> ap_id a' = ap_id a -> s_nodes s' = s_nodes s ->
  ap_allocs a' = ap_allocs a ->
  (forall r, In r (ap_requests a') -> oa_ph r = false -> oa_allocated r = true -> In r (ap_requests a)) ->
  LinkOK s -> LinkOK s'.
Proof. intros HI Ha Eapps Eid En Eal Hreq. apply linkok_apps_rel; [assumption| |].
  - intros b Hb _. destruct (N.eq_dec (ap_id b) (ap_id a)) as [E|E].
    + assert (b = a) by (apply (g_same_app s a b HI Ha Hb E)). subst b. exists a'. split; [|auto].
      apply (g_in_apps' s s' a a' HI Ha Eapps). auto.
    + exists b. split; [|auto]. apply (g_in_apps' s s' a a' HI Ha Eapps). auto.
  - intros b' Hb' _. apply (g_in_apps' s s' a a' HI Ha Eapps) in Hb'. destruct Hb' as [->|[Hb _]]; [exists a; auto|exists b'; auto]. Qed.

(* the record with identifier id is mapped by a function that keeps identifier and lists ([same_core], Core/Model3ProofsG5.v) *)
Lemma linkok_apps_core s s' id f : s_nodes s' = s_nodes s -> s_apps s' = updk ap_id (s_apps s) id f ->
  (forall b, In b (s_apps s) -> ap_id b = id -> same_core b (f b)) -> LinkOK s -> LinkOK s'.
Proof. intros En Eapps Hf. apply linkok_apps_rel; [assumption| |].
  - intros b Hb _. exists (if (ap_id b =? id)%N then f b else b). split; [rewrite Eapps; apply (in_updk ap_id); eauto|].
    destruct (N.eqb_spec (ap_id b) id) as [E|E]; [|auto]. destruct (Hf b Hb E). auto.
  - intros b' Hb' _. rewrite Eapps in Hb'. apply (in_updk ap_id) in Hb'. destruct Hb' as (b & Hb & ->). exists b. split; [assumption|].
    destruct (N.eqb_spec (ap_id b) id) as [E|E]; [|auto]. destruct (Hf b Hb E) as [_ _ _ _ _ Er Eal]. rewrite Er. auto. Qed.

(* (c) an application without allocations leaves *)
Lemma linkok_drop_app s s' id : s_nodes s' = s_nodes s ->
  s_apps s' = filter (fun b => negb (ap_id b =? id)%N) (s_apps s) ->
  (forall a, In a (s_apps s) -> ap_id a = id -> ap_allocs a = []) -> LinkOK s -> LinkOK s'.
Proof. intros En Ea Hempty. apply linkok_apps_rel; [assumption| |].
  - intros a Ha Hne. exists a. split; [|auto]. rewrite Ea. apply filter_In. split; [assumption|].
    destruct (N.eqb_spec (ap_id a) id) as [E|E]; [|reflexivity]. exfalso. apply Hne. apply (Hempty a Ha E).
  - intros a' Ha' _. rewrite Ea in Ha'. apply filter_In in Ha'. exists a'. tauto. Qed.
(* ... joins *)
Lemma linkok_add_app s s' a0 : s_nodes s' = s_nodes s -> s_apps s' = s_apps s ++ [a0] -> ap_allocs a0 = [] -> LinkOK s -> LinkOK s'.
Proof. intros En Ea E0. apply linkok_apps_rel; [assumption| |].
  - intros a Ha _. exists a. rewrite Ea, in_app_iff. auto.
  - intros a' Ha' Hne. rewrite Ea, in_app_iff in Ha'. destruct Ha' as [Ha'|[<-|[]]]; [exists a'; auto|contradiction]. Qed.

(* (a) a uniform record map that changes flags only ([FlagOnly], Core/Model3ProofsG3.v) *)
Lemma rmap_flag_linkok s h : FlagOnly h -> LinkOK s -> LinkOK (rmap h s).
Proof. intros [F1 F2 F3 F4 F5 F6 F7 F8] [L1 L2].
  assert (Fi : forall y, infl (h y) = infl y) by (intros y; unfold infl; rewrite F5, F8; reflexivity).
  split.
  - intros n' y' Hn' Hy' Hi. apply in_rmap_nodes in Hn'. destruct Hn' as (n & Hn & ->). cbn [rmap_node n_with on_allocs] in Hy'.
    apply in_map_iff in Hy'. destruct Hy' as (y & <- & Hy). rewrite Fi in Hi.
    destruct (L1 n y Hn Hy Hi) as (a & ph & Ha & Ea & Hph & Pph & Ek & Er & Hne).
    exists (rmap_app h a), (h ph). rewrite F1, F2, F3, F5, F8, F1, F3, F8. repeat split; auto.
    + apply in_rmap_apps. eauto.
    + cbn. apply in_map. assumption.
  - intros a' ph' r' Ha' Hph' Pph Hl Hr' Ek Pr Hal. apply in_rmap_apps in Ha'. destruct Ha' as (a & Ha & ->).
    cbn [rmap_app ap_set_lists ap_with ap_allocs ap_requests] in Hph', Hr'. apply in_map_iff in Hph', Hr'.
    destruct Hph' as (ph & <- & Hph). destruct Hr' as (r & <- & Hr). rewrite ?F1, ?F5, ?F7, ?F8 in *.
    destruct (L2 a ph r Ha Hph Pph Hl Hr Ek Pr Hal) as (M1 & M2 & M3 & M4). rewrite !F3, !F4. repeat split; auto.
    + intros E n' y' Hn' Hy'. apply in_rmap_nodes in Hn'. destruct Hn' as (n & Hn & ->). cbn [rmap_node n_with on_allocs] in Hy'.
      apply in_map_iff in Hy'. destruct Hy' as (y & <- & Hy). rewrite F1. apply (M3 E n y Hn Hy).
    + intros E. destruct (M4 E) as (n & Hn & En & Hrn). exists (rmap_node h n). split; [apply in_rmap_nodes; eauto|]. split; [exact En|].
      cbn. apply in_map. assumption. Qed.
Lemma obj_upd_flag_linkok s app k f : InvG s -> FlagOnly f -> LinkOK s -> LinkOK (obj_upd s app k f).
Proof. intros HI F. rewrite (obj_upd_rmapG s app k f HI). apply rmap_flag_linkok. apply flag_only_hk. assumption. Qed.

Theorem flag_step2 s app k f : InvG2 s -> BooksG s -> FlagOnly f -> InvG2 (obj_upd s app k f) /\ BooksG (obj_upd s app k f).
Proof. intros [HI HL] HB F. destruct (flag_step s app k f HI HB F) as [HI' HB']. split; [|assumption].
  split; [assumption|apply obj_upd_flag_linkok; assumption]. Qed.
Theorem release_marks_step2 l : forall s app, InvG2 s -> BooksG s -> InvG2 (release_marks s app l) /\ BooksG (release_marks s app l).
Proof. unfold release_marks. induction l as [|x t IH]; intros s app HI HB; [cbn; auto|]. cbn [fold_left].
  destruct (oa_preempted x); [apply IH; assumption|].
  destruct (flag_step2 s app (oa_key x) (fun y => oa_set_released y true) HI HB (flag_only_released true)) as [HI1 HB1]. apply IH; assumption. Qed.

(* ------------------------------------------------------------------ Bounded3 frames *)
Lemma bounded3_intro s : (forall a, In a (s_apps s) -> AppBounded3 a) -> (forall q, In q (s_queues s) -> rb (q_alloc q) /\ rb (q_pending q)) ->
  (forall n, In n (s_nodes s) -> rb (on_allocated n)) -> Bounded3 s.
Proof. intros H1 H2 H3. split; [constructor; auto|]; intros a Ha; apply (H1 a Ha). Qed.
Lemma bounded3_app s a : Bounded3 s -> In a (s_apps s) -> AppBounded3 a.
Proof. intros [Bd Bp] Ha. split; [apply (bd_apps s Bd a Ha)|apply (Bp a Ha)]. Qed.
Lemma same_core_bounded3 a b : same_core a b -> AppBounded3 a -> AppBounded3 b.
Proof. intros [S1 S2 S3 S4 S5 S6 S7] [[B1 B2 B3 B4] B5]. split; [constructor|]; rewrite ?S3, ?S4, ?S5, ?S6, ?S7; assumption. Qed.
Lemma rmap_flag_bounded3 s h : FlagOnly h -> Bounded3 s -> Bounded3 (rmap h s).
Proof. intros F Bd. pose proof Bd as [[_ Bq Bn] _]. apply bounded3_intro.
  - intros a' Ha'. apply in_rmap_apps in Ha'. destruct Ha' as (a & Ha & ->). destruct (bounded3_app s a Bd Ha) as [[B1 B2 B3 B4] B5].
    split; [constructor|]; cbn; auto; intros y' Hy'; apply in_map_iff in Hy'; destruct Hy' as (y & <- & Hy); rewrite (fo_res h F); auto.
  - exact Bq.
  - intros n' Hn'. apply in_rmap_nodes in Hn'. destruct Hn' as (n & Hn & ->). cbn. apply (Bn n Hn). Qed.
Lemma obj_upd_flag_bounded3 s app k f : InvG s -> FlagOnly f -> Bounded3 s -> Bounded3 (obj_upd s app k f).
Proof. intros HI F. rewrite (obj_upd_rmapG s app k f HI). apply rmap_flag_bounded3. apply flag_only_hk. assumption. Qed.
Lemma release_marks_bounded3 l : forall s app, InvG s -> BooksG s -> Bounded3 s -> Bounded3 (release_marks s app l).
Proof. unfold release_marks. induction l as [|x t IH]; intros s app HI HB Bd; [exact Bd|]. cbn [fold_left].
  destruct (oa_preempted x); [apply IH; assumption|]. destruct (released_step s app (oa_key x) true HI HB) as [HI1 HB1].
  apply IH; try assumption. apply obj_upd_flag_bounded3; [assumption|apply flag_only_released|assumption]. Qed.
Lemma core_upd_bounded3 s id f : (forall b, In b (s_apps s) -> ap_id b = id -> same_core b (f b)) -> Bounded3 s -> Bounded3 (upd_app s id f).
Proof. intros Hf Bd. pose proof Bd as [[_ Bq Bn] _]. apply bounded3_intro; [|exact Bq|exact Bn].
  intros a' Ha'. apply (in_updk ap_id) in Ha'. destruct Ha' as (a & Ha & ->). pose proof (bounded3_app s a Bd Ha).
  destruct (N.eqb_spec (ap_id a) id) as [E|E]; [apply (same_core_bounded3 a); auto|assumption]. Qed.
(* the queue ledger functions keep the application and node bounds *)
Lemma bounded3_queues s s' : same_but_queues s s' -> (forall q, In q (s_queues s') -> rb (q_alloc q) /\ rb (q_pending q)) ->
  Bounded3 s -> Bounded3 s'.
Proof. intros [E1 E2 _ _ _ _ _ _ _ _] Hq Bd. pose proof Bd as [[_ _ Bn] _]. apply bounded3_intro; [|exact Hq|rewrite E1; exact Bn].
  rewrite E2. intros a Ha. apply (bounded3_app s a Bd Ha). Qed.

(* ------------------------------------------------------------------ state-level lemmas *)
(* replacing under the key of an element = replacing by the image of that element *)
Lemma updk_as_const {A} (key : A -> N) l id f a : NoDup (map key l) -> In a l -> key a = id ->
  updk key l id f = updk key l (key a) (fun _ => f a).
Proof. intros Hnd Ha E. unfold updk. apply map_ext_in. intros x Hx. rewrite E. destruct (N.eqb_spec (key x) id) as [Ex|Ex]; [|reflexivity].
  f_equal. apply (nodup_key_inj key l); auto. congruence. Qed.
Lemma updk_absent {A} (key : A -> N) l id f : findk key l id = None -> updk key l id f = l.
Proof. intros H. apply updk_fresh. apply (findk_none key). assumption. Qed.
Lemma upd_app_absent s id f : find_app s id = None -> upd_app s id f = s.
Proof. intros H. unfold upd_app. fold (updk ap_id (s_apps s) id f). rewrite (updk_absent ap_id _ id f H). destruct s; reflexivity. Qed.

(* the record with identifier id changes in fields the invariants do not read (state without entering a terminal state,
   timers, placeholder data, state log ...) *)
Theorem core_upd_step2 s id f : (forall b, In b (s_apps s) -> ap_id b = id -> same_core b (f b)) -> InvG2 s -> BooksG s -> InvG2 (upd_app s id f) /\ BooksG (upd_app s id f).
Proof. intros Hf [HI HL] HB. destruct (find_app s id) as [a|] eqn:Ea; [|rewrite (upd_app_absent s id f Ea); split; [split; assumption|assumption]].
  apply find_app_some in Ea. destruct Ea as [Ha Eid]. pose proof (Hf a Ha Eid) as S. pose proof S as [S1 S2 S3 S4 S5 S6 S7].
  assert (Eapps : s_apps (upd_app s id f) = updk ap_id (s_apps s) (ap_id a) (fun _ => f a)).
  { cbn [upd_app s_apps]. apply (updk_as_const ap_id); [apply (ig_app_ids s HI)|assumption|assumption]. }
  assert (G : InvG (upd_app s id f) /\ BooksG (upd_app s id f)).
  { apply (gang_app_step s (upd_app s id f) a (f a) HI HB Ha Eapps); try reflexivity; auto.
    - apply (same_core_books a); [assumption|apply (bg_apps s HB a Ha)].
    - apply (same_core_wf3 a); [assumption|apply (ig_app_wf s HI a Ha)].
    - apply rec_keys_incl. rewrite (same_core_records a (f a) S). apply incl_refl.
    - intros k. rewrite S4, S5. reflexivity.
    - intros k. rewrite S3. reflexivity.
    - apply (ig_node_ids s HI).
    - apply (ig_nodes s HI).
    - apply (owned_nodes_same s _ a (f a) HI Ha Eapps S1 eq_refl). intros n y _ _. apply same_core_ownedby. assumption.
    - apply (onnode_nodes_same s _ a (f a) HI Ha Eapps eq_refl). rewrite S7. apply incl_refl.
    - apply (g_count_step s _ a (f a) HI Ha Eapps 0); [rewrite S7; lia|cbn; lia]. }
  destruct G as [HI' HB']. split; [|assumption]. split; [assumption|].
  apply (linkok_apps_core s (upd_app s id f) id f eq_refl eq_refl Hf HL). Qed.

(* nothing the invariants read changes (completed list, rejected list, counters other than the allocation counter ...) *)
Theorem same_state_step2 s s' : s_nodes s' = s_nodes s -> s_apps s' = s_apps s -> s_queues s' = s_queues s -> s_foreign s' = s_foreign s ->
  s_nallocs s' = s_nallocs s -> InvG2 s -> BooksG s -> InvG2 s' /\ BooksG s'.
Proof. intros En Ea Eq Ef Ec [HI HL] HB.
  assert (G : InvG s' /\ BooksG s').
  { apply (gang_frame_step s s' (fun q => q) HI HB Ea); try reflexivity.
    - rewrite map_id. assumption.
    - rewrite Ef. apply (ig_foreign s HI).
    - rewrite En. apply (ig_node_ids s HI).
    - rewrite En. apply (ig_nodes s HI).
    - intros n y Hn Hy. rewrite En in Hn. rewrite Ea. apply (ig_owned s HI n y Hn Hy).
    - intros a x Ha Hx. rewrite Ea in Ha. rewrite En. apply (ig_onnode s HI a x Ha Hx).
    - rewrite Ec, (ig_count s HI). unfold all_allocs. rewrite Ea. reflexivity.
    - intros k. rewrite (node_records_same s s' En). reflexivity. }
  destruct G as [HI' HB']. split; [|assumption]. split; [assumption|apply (linkok_same s s' En Ea HL)]. Qed.

(* ================================================================== B. InvG2 versions of the G4 / G5 operations *)
Theorem g_app_add_step2 s s' evs id queue user forced nougi phask tagmaxapps tagmax : InvG2 s -> BooksG s ->
  g_app_add s evs id queue user forced nougi phask tagmaxapps tagmax = Some s' -> InvG2 s' /\ BooksG s'.
Proof. intros [HI HL] HB H. destruct (g_app_add_step s s' evs id queue user forced nougi phask tagmaxapps tagmax HI HB H) as [HI' HB'].
  split; [|assumption]. split; [assumption|]. unfold g_app_add in H. destruct (find_app s id); [discriminate|].
  destruct (nougi || forced || _ || _ || _); [discriminate|]. destruct (find_queue s queue) as [q|]; [|discriminate].
  destruct (q_leaf q && _ && _); [|discriminate]. destruct (has_accept evs id).
  - destruct (match max_queue_set s (path_ids s queue) with Some m => FitInMaxUndef (Some m) phask | None => true end); [|discriminate].
    inversion H; subst s'. apply (linkok_add_app s _ (mkOApp id queue ST_New user [] [] [] (oget phask) [] [] [] [] [] false false forced false)); auto.
  - destruct (has_reject evs id); [|discriminate]. inversion H; subst s'. assumption. Qed.

Theorem g_new_ask_step2 s a x : InvG2 s -> BooksG s -> Bounded3 s -> In a (s_apps s) -> AllocOK3 (ap_id a) x -> rb (oa_res x) ->
  oa_allocated x = false -> KeyFresh3 s (oa_key x) -> InvG2 (g_new_ask s a x) /\ BooksG (g_new_ask s a x).
Proof. intros [HI HL] HB HBd Ha Xok Xb Xna Xfr. destruct (g_new_ask_step s a x HI HB HBd Ha Xok Xb Xna Xfr) as [HI' HB'].
  split; [|assumption]. split; [assumption|].
  destruct (na_fields a x) as (F1 & F2 & F3 & F4 & F5 & F6 & F7).
  refine (linkok_app_upd s (g_new_ask s a x) a _ HI Ha eq_refl F1 eq_refl F5 _ HL).
  intros r Hr _ Hal. rewrite F6 in Hr. apply in_put_alloc in Hr. destruct Hr as [->|[Hr _]]; [congruence|assumption]. Qed.

(* ================================================================== C. flag-only operations *)
(* tryPlaceholderAllocate: cancellation of a placeholder that is smaller than a pending real ask (flag only) *)
Theorem g_cancel_larger_step2 s app k s' : InvG2 s -> BooksG s -> g_cancel_larger s app k = Some s' -> InvG2 s' /\ BooksG s'.
Proof. intros HI HB H. unfold g_cancel_larger in H. destruct (find_app s app) as [a|]; [|discriminate].
  destruct (find_alloc (ap_allocs a) k) as [ph|]; [|discriminate]. destruct (_ && _); [|discriminate]. inversion H; subst s'.
  apply flag_step2; auto. apply flag_only_released. Qed.
Lemma g_cancel_larger_bounded3 s app k s' : InvG s -> Bounded3 s -> g_cancel_larger s app k = Some s' -> Bounded3 s'.
Proof. intros HI Bd H. unfold g_cancel_larger in H. destruct (find_app s app) as [a|]; [|discriminate].
  destruct (find_alloc (ap_allocs a) k) as [ph|]; [|discriminate]. destruct (_ && _); [|discriminate]. inversion H; subst s'.
  apply obj_upd_flag_bounded3; auto. apply flag_only_released. Qed.
Theorem g_cancel_all_step2 l : forall s s', InvG2 s -> BooksG s -> g_cancel_all s l = Some s' -> InvG2 s' /\ BooksG s'.
Proof. induction l as [|[[k app] t] l IH]; intros s s' HI HB H; cbn [g_cancel_all] in H; [inversion H; subst s'; auto|].
  destruct (g_cancel_larger s app k) as [s1|] eqn:E; [|discriminate]. destruct (g_cancel_larger_step2 s app k s1 HI HB E) as [HI1 HB1].
  apply (IH s1 s' HI1 HB1 H). Qed.
Lemma g_cancel_all_bounded3 l : forall s s', InvG2 s -> BooksG s -> Bounded3 s -> g_cancel_all s l = Some s' -> Bounded3 s'.
Proof. induction l as [|[[k app] t] l IH]; intros s s' HI HB Bd H; cbn [g_cancel_all] in H; [inversion H; subst s'; auto|].
  destruct (g_cancel_larger s app k) as [s1|] eqn:E; [|discriminate]. destruct (g_cancel_larger_step2 s app k s1 HI HB E) as [HI1 HB1].
  apply (IH s1 s' HI1 HB1); [|assumption]. apply (g_cancel_larger_bounded3 s app k s1 (ig2_inv s HI) Bd E). Qed.

(* timeoutStateTimer for a Completing application with placeholders: release flags, the state timer is cleared *)
Theorem g_fire_state_step2 s id s' : InvG2 s -> BooksG s -> g_fire_state s id = Some s' -> InvG2 s' /\ BooksG s'.
Proof. intros HI HB H. unfold g_fire_state in H. destruct (find_app s id) as [a|]; [|discriminate].
  destruct (negb (ap_statetimer a)); [discriminate|]. destruct (_ && _); [|discriminate]. inversion H; subst s'.
  destruct (release_marks_step2 (filter (fun x => oa_ph x && negb (oa_released x)) (ap_allocs a)) s id HI HB) as [HI1 HB1].
  apply core_upd_step2; auto. intros b _ _. apply ap_with_ph_core. Qed.

(* timers of an application that is not live: only the completed list changes *)
Theorem g_fire_state_dead_step2 s id s' : InvG2 s -> BooksG s -> g_fire_state_dead s id = Some s' -> InvG2 s' /\ BooksG s'.
Proof. intros HI HB H. unfold g_fire_state_dead in H. destruct (find _ (s_completed s)) as [a|]; [|inversion H; subst s'; auto].
  destruct (negb (ap_statetimer a)); [inversion H; subst s'; auto|]. destruct (is_terminal (ap_state a)); [|discriminate].
  inversion H; subst s'. apply (same_state_step2 s); auto. Qed.
Theorem g_fire_ph_dead_step2 s id s' : InvG2 s -> BooksG s -> g_fire_ph_dead s id = Some s' -> InvG2 s' /\ BooksG s'.
Proof. intros HI HB H. unfold g_fire_ph_dead in H. destruct (find _ (s_completed s)) as [a|]; [|inversion H; subst s'; auto].
  destruct (ap_phtimer a); [discriminate|]. inversion H; subst s'. auto. Qed.
