(* C09 over the operational model, part 7: the steps of the second fragment ([m_step2], Core/Model2.v) preserve the
   reservation invariant; the run theorem for [m_step4]. *)
From Coq Require Import List ZArith NArith Bool Lia ZifyBool ZifyN.
From YK Require Import Base.Int64 Base.Res Core.Obs Core.Model Core.Model2 Core.Ledger Core.Model4 Core.NodeProofs Core.QueueProofs Core.StepProofs
  Core.Model4ProofsF Core.Model4ProofsR1 Core.Model4ProofsR2 Core.Model4ProofsR3 Core.Model4ProofsR4 Core.Model4ProofsR5 Core.Model4ProofsR6.
Import ListNotations.
Open Scope N_scope.
Set Default Timeout 30.

(* ------------------------------------------------------------------ application add *)
Lemma m_app_add_rinv s id queue user forced nougi phask tagmaxapps tagmax s' :
  m_app_add s id queue user forced nougi phask tagmaxapps tagmax = Some s' -> RInv s -> RInv s'.
Proof. unfold m_app_add. intros H HR. destruct (find_app s id) eqn:Ea; [apply Some_inj in H; subst; exact HR|].
  destruct (_ || _); [discriminate|]. destruct (find_queue s queue) as [q0|]; [|discriminate]. destruct (_ && _); [|discriminate].
  apply Some_inj in H. subst s'. apply (add_app_rinv s _ (new_app id queue user forced) HR); try reflexivity.
  intros q Hq _. cbn [new_app ap_id]. unfold qcount. destruct (find (fun x => fst x =? id) (q_reserved q)) as [en|] eqn:Ef; [|reflexivity]. exfalso.
  apply find_some in Ef. destruct Ef as [Hen Een]. apply N.eqb_eq in Een. destruct (r_qhome _ s HR q en Hq Hen) as (_ & b & Hb & E1 & _).
  unfold find_app in Ea. pose proof (find_none _ _ Ea b Hb) as C. cbv beta in C. rewrite E1, Een, N.eqb_refl in C. discriminate. Qed.

(* ------------------------------------------------------------------ walks over allocations *)
Lemma rafn_nf e l : forall s, Ids0 s -> NF e e s (remove_allocs_from_nodes s l).
Proof. induction l as [|x t IH]; intros s HI; [apply NF_refl|]. cbn [remove_allocs_from_nodes].
  destruct (find_node s (oa_node x)) as [n|] eqn:En; [|apply IH; exact HI].
  assert (F : NF e e s (upd_node s (on_id n) (fun _ => n_remove n (oa_key x)))).
  { destruct (find_node_in _ _ _ En) as [_ Enid]. eapply (NF_set_node e s (on_id n) n _ HI); [rewrite Enid; exact En|apply n_remove_id|apply n_remove_res]. }
  eapply NF_trans; [exact F|]. apply IH. eapply NF_ids0; eassumption. Qed.

Lemma rna_nf l : forall s s' c, Ids0 s -> remove_node_allocs s l = (s', c) -> NF None None s s' /\ (forall b', In b' (s_apps s') -> exists b, In b (s_apps s) /\ ap_id b' = ap_id b).
Proof. induction l as [|x t IH]; intros s s' c HI H; cbn [remove_node_allocs] in H.
  - inversion H; subst. split; [apply NF_refl|eauto].
  - destruct (find_app s (oa_app x)) as [a|] eqn:Ea; [|apply (IH _ _ _ HI H)].
    destruct (find_alloc (ap_allocs a) (oa_key x)); [|apply (IH _ _ _ HI H)]. cbv zeta in H.
    match type of H with (let '(s3, n) := remove_node_allocs ?S t in _) = _ => destruct (remove_node_allocs S t) as [s3 n] eqn:E end.
    inversion H; subst s' c; clear H. destruct (find_app_in _ _ _ Ea) as [Ha Eid].
    match type of E with remove_node_allocs (q_dec (upd_app s (ap_id a) (fun _ => ?A2)) _ _) t = _ => set (a2 := A2) in * end.
    assert (K : ap_id a2 = ap_id a /\ ap_queue a2 = ap_queue a /\ ap_reservations a2 = ap_reservations a /\ ap_requests a2 = ap_requests a).
    { unfold a2. match goal with |- context [ap_event a ?st] => destruct (ap_event_fields a st) as (E1 & E2 & E3 & E4 & _) end.
      cbn [ap_with ap_id ap_queue ap_reservations ap_requests]. auto. }
    destruct K as (K1 & K2 & K3 & K4).
    set (s1 := upd_app s (ap_id a) (fun _ => a2)) in *.
    assert (F1 : NF None None s s1).
    { unfold s1. exists (fun b => if ap_id b =? ap_id a then a2 else b), (fun m => m), (fun q => q).
      assert (Sa : forall b, In b (s_apps s) -> ap_id b = ap_id a -> b = a) by (intros b Hb Eb; apply (nodup_key_eq ap_id (s_apps s)); auto; apply (id0_apps s HI)).
      constructor; auto; try (symmetry; apply map_id); try reflexivity.
      - intros b Hb. destruct (N.eqb_spec (ap_id b) (ap_id a)); congruence.
      - intros b Hb. destruct (N.eqb_spec (ap_id b) (ap_id a)) as [Eb|Eb]; [rewrite (Sa b Hb Eb); exact K2|reflexivity].
      - intros b Hb. destruct (N.eqb_spec (ap_id b) (ap_id a)) as [Eb|Eb]; [rewrite (Sa b Hb Eb); exact K3|reflexivity].
      - intros b nid k Hb Hr _ Ho. destruct (N.eqb_spec (ap_id b) (ap_id a)) as [Eb|Eb]; [|exact Ho]. rewrite (Sa b Hb Eb) in Ho.
        unfold outstanding_at in *. rewrite K4. exact Ho.
      - intros p (b & y & Hb & E1 & Hy & E2 & E3) _. destruct (N.eqb_spec (ap_id b) (ap_id a)) as [Eb|Eb].
        + rewrite (Sa b Hb Eb) in *. exists a2, y. cbn [upd_app s_apps]. split; [apply in_map_iff; exists a; rewrite N.eqb_refl; auto|]. rewrite K1, K4. auto.
        + exists b, y. cbn [upd_app s_apps]. split; [apply in_map_iff; exists b; apply N.eqb_neq in Eb; rewrite Eb; auto|auto]. }
    destruct (q_dec_shape s1 (ap_queue a) (oa_res x)) as (g & Eg & Kg & Ea' & En').
    assert (F2 : NF None None s1 (q_dec s1 (ap_queue a) (oa_res x))) by (eapply NF_queues; eassumption).
    assert (HI2 : Ids0 (q_dec s1 (ap_queue a) (oa_res x))) by (eapply NF_ids0; [exact (NF_trans _ _ _ _ _ _ F1 F2)|exact HI]).
    destruct (IH _ _ _ HI2 E) as [F3 Hb3]. split; [exact (NF_trans _ _ _ _ _ _ F1 (NF_trans _ _ _ _ _ _ F2 F3))|].
    intros b' Hb'. destruct (Hb3 b' Hb') as (b1 & Hb1 & E1). rewrite Ea' in Hb1. unfold s1 in Hb1. cbn [upd_app s_apps] in Hb1. apply in_map_iff in Hb1.
    destruct Hb1 as (b & Eb & Hb). exists b. split; [exact Hb|]. rewrite E1, <- Eb. destruct (N.eqb_spec (ap_id b) (ap_id a)); congruence. Qed.

(* ------------------------------------------------------------------ removals of the second fragment *)
Lemma m_app_remove_rinv s id s' : m_app_remove s id = Some s' -> Ids s -> RInv s -> RInv s'.
Proof. unfold m_app_remove. intros H HI HR. destruct (find_app s id) as [a|] eqn:Ea; [|apply Some_inj in H; subst; exact HR].
  destruct (negb (no_res a)) eqn:Enr; [discriminate|]. cbn [orb] in H. destruct (negb (plain_allocs a)); [discriminate|]. cbv zeta in H. apply Some_inj in H. subst s'.
  apply negb_false_iff in Enr. unfold no_res in Enr. destruct (find_app_in _ _ _ Ea) as [Ha Eid].
  match goal with |- RInv (add_counts (set_apps ?S3 _) _ _) => set (s3 := S3) end.
  set (s1 := if IsZero (Some (ap_pending a)) then s else q_dec_pending s (ap_queue a) (ap_pending a)) in *.
  set (s2 := if IsZero (Some (ap_allocated a)) then s1 else q_dec s1 (ap_queue a) (ap_allocated a)) in *.
  assert (F1 : NF None None s s1).
  { unfold s1. destruct (IsZero (Some (ap_pending a))); [apply NF_refl|]. destruct (q_dec_pending_shape s (ap_queue a) (ap_pending a)) as (g & Eg & Kg).
    apply (NF_queues None s _ g); [reflexivity|reflexivity|exact Eg|exact Kg]. }
  assert (F2 : NF None None s1 s2).
  { unfold s2. destruct (IsZero (Some (ap_allocated a))); [apply NF_refl|]. destruct (q_dec_shape s1 (ap_queue a) (ap_allocated a)) as (g & Eg & Kg & Ea' & En').
    apply (NF_queues None s1 _ g); assumption. }
  assert (F12 : NF None None s s2) by exact (NF_trans _ _ _ _ _ _ F1 F2).
  assert (F3 : NF None None s s3).
  { unfold s3. apply (NF_trans None None None s s2 _ F12). apply rafn_nf. eapply NF_ids0; [exact F12|apply ids_ids0; exact HI]. }
  pose proof (NF_rinv _ _ _ _ F3 HR) as HR3.
  (* the applications of s3 are those of s mapped by a function that keeps identity and reservations *)
  assert (HI3 : Ids0 s3) by (eapply NF_ids0; [exact F3|apply ids_ids0; exact HI]).
  destruct F3 as (fa & fn & fq & [A1 A2 A3 A4 A5 A6 A7 A8 A9 A10 A11 A12 A13]).
  apply (drop_app_rinv s3 _ id HI3 HR3); try reflexivity.
  intros b3 Hb3 Eb3. rewrite A1 in Hb3. apply in_map_iff in Hb3. destruct Hb3 as (b & <- & Hb). rewrite (A4 b Hb) in Eb3. rewrite (A6 b Hb).
  assert (b = a) by (apply (nodup_key_eq ap_id (s_apps s)); auto; [apply (id_apps s HI)|congruence]). subst b.
  destruct (ap_reservations a); [reflexivity|discriminate]. Qed.

Lemma m_node_remove_rinv s id s' : m_node_remove s id = Some s' -> Ids s -> RInv s -> RInv s'.
Proof. unfold m_node_remove. intros H HI HR. destruct (find_node s id) as [n|] eqn:En; [|apply Some_inj in H; subst; exact HR].
  destruct (on_reservations n) eqn:Er; [|discriminate]. cbn [negb orb] in H. destruct (negb _); [discriminate|].
  set (s0 := set_nodes s (filter (fun m => negb (on_id m =? id)) (s_nodes s))) in *.
  destruct (remove_node_allocs s0 (on_allocs n)) as [s1 cnt] eqn:E1. apply Some_inj in H. subst s'.
  assert (HR0 : RInv s0).
  { apply (drop_node_rinv s s0 id HR); try reflexivity. intros m Hm Em.
    assert (m = n) by (destruct (find_node_in _ _ _ En) as [Hn Enid]; apply (nodup_key_eq on_id (s_nodes s)); auto; [apply (id_nodes s HI)|congruence]). subst m. exact Er. }
  assert (HI0 : Ids0 s0).
  { destruct HI as [I1 I2 _ _ _]. constructor; [exact I1|]. unfold s0. cbn [set_nodes s_nodes]. apply NoDup_map_filter'. exact I2. }
  destruct (rna_nf _ _ _ _ HI0 E1) as [F1 _].
  eapply NF_rinv; [|exact HR0]. eapply NF_trans; [exact F1|]. eapply NF_trans; [apply part_update_total_nf|apply add_counts_nf]. Qed.

Lemma m_fire_state_rinv s id s' : m_fire_state s id = Some s' -> Ids s -> RInv s -> (forall a, find_app s id = Some a -> ap_reservations a = []) -> RInv s'.
Proof. unfold m_fire_state. intros H HI HR Hn. destruct (find_app s id) as [a|] eqn:Ea; [|discriminate].
  destruct (negb (ap_statetimer a)); [apply Some_inj in H; subst; exact HR|]. destruct (_ && _); [|discriminate]. apply Some_inj in H. subst s'.
  apply (drop_app_rinv s _ id (ids_ids0 _ HI) HR); try reflexivity. intros b Hb Eb.
  destruct (find_app_in _ _ _ Ea) as [Ha Eid]. assert (b = a) by (apply (nodup_key_eq ap_id (s_apps s)); auto; [apply (id_apps s HI)|congruence]). subst b. apply Hn. reflexivity. Qed.

(* an application without reservations: its record replaced by one with the same identity *)
Lemma upd_app_const_nf s a a' : Ids0 s -> In a (s_apps s) -> ap_reservations a = [] -> ap_id a' = ap_id a -> ap_queue a' = ap_queue a -> ap_reservations a' = ap_reservations a ->
  NF None None s (upd_app s (ap_id a) (fun _ => a')).
Proof. intros HI Ha Hn E1 E2 E3. exists (fun b => if ap_id b =? ap_id a then a' else b), (fun m => m), (fun q => q).
  assert (Sa : forall b, In b (s_apps s) -> ap_id b = ap_id a -> b = a) by (intros b Hb Eb; apply (nodup_key_eq ap_id (s_apps s)); auto; apply (id0_apps s HI)).
  constructor; auto; try (symmetry; apply map_id); try reflexivity.
  - intros b Hb. destruct (N.eqb_spec (ap_id b) (ap_id a)); congruence.
  - intros b Hb. destruct (N.eqb_spec (ap_id b) (ap_id a)) as [Eb|Eb]; [rewrite (Sa b Hb Eb); exact E2|reflexivity].
  - intros b Hb. destruct (N.eqb_spec (ap_id b) (ap_id a)) as [Eb|Eb]; [rewrite (Sa b Hb Eb); exact E3|reflexivity].
  - intros b nid k Hb Hr _ Ho. destruct (N.eqb_spec (ap_id b) (ap_id a)) as [Eb|Eb]; [|exact Ho]. rewrite (Sa b Hb Eb), Hn in Hr. contradiction.
  - intros p (b & y & Hb & F1 & Hy & F2 & F3) (b0 & nid & Hb0 & F4 & Hr).
    assert (b0 = b) by (apply (nodup_key_eq ap_id (s_apps s)); auto; [apply (id0_apps s HI)|congruence]). subst b0.
    destruct (N.eqb_spec (ap_id b) (ap_id a)) as [Eb|Eb]; [rewrite (Sa b Hb Eb), Hn in Hr; contradiction|].
    exists b, y. cbn [upd_app s_apps]. split; [apply in_map_iff; exists b; apply N.eqb_neq in Eb; rewrite Eb; auto|auto]. Qed.

Lemma n_update_alloc_res n k nr d : on_id (n_update_alloc n k nr d) = on_id n /\ on_reservations (n_update_alloc n k nr d) = on_reservations n.
Proof. split; reflexivity. Qed.

Lemma m_update_existing_rinv s a x r s' : m_update_existing s a x r = Some s' -> Ids s -> RInv s -> In a (s_apps s) -> RInv s'.
Proof. unfold m_update_existing. intros H HI HR Ha. destruct (oa_ph x || negb (oa_release x =? 0) || negb (no_res a)) eqn:Eg; [discriminate|].
  apply orb_false_iff in Eg. destruct Eg as [_ Enr]. apply negb_false_iff in Enr. unfold no_res in Enr.
  assert (Hnr : ap_reservations a = []) by (destruct (ap_reservations a); [reflexivity|discriminate]). clear Enr. cbv zeta in H.
  match type of H with (if ?c then Some s else _) = _ => destruct c; [apply Some_inj in H; subst; exact HR|] end.
  match type of H with (if _ then Some ?S1 else _) = _ => set (s1 := S1) in * end.
  assert (F1 : NF None None s s1).
  { unfold s1. destruct (negb _); [apply NF_refl|]. destruct (oa_allocated x).
    - match goal with |- NF _ _ _ (match find_node (q_inc (upd_app s _ (fun _ => ?A1)) ?L ?R) _ with _ => _ end) =>
        set (a1 := A1); assert (G1 : NF None None s (q_inc (upd_app s (ap_id a) (fun _ => a1)) L R)) end.
      { destruct (q_inc_shape (upd_app s (ap_id a) (fun _ => a1)) (ap_queue a) (Prune (Sub (Some (oget (rq_res r))) (Some (oa_res x))))) as (g & Eg & Kg).
        eapply NF_trans; [apply (upd_app_const_nf s a a1 (ids_ids0 _ HI) Ha Hnr); reflexivity|]. eapply NF_queues; [reflexivity|reflexivity|exact Eg|exact Kg]. }
      match goal with |- NF _ _ _ (match find_node ?S0 ?N with _ => _ end) => destruct (find_node S0 N) as [n|] eqn:En; [|exact G1] end.
      eapply NF_trans; [exact G1|]. destruct (find_node_in _ _ _ En) as [_ Enid].
      eapply (NF_set_node None _ (on_id n) n); [eapply NF_ids0; [exact G1|apply ids_ids0; exact HI]|rewrite Enid; exact En|reflexivity|reflexivity].
    - match goal with |- NF _ _ _ (q_inc_pending (upd_app s _ (fun _ => ?A1)) ?L ?R) => set (a1 := A1); destruct (q_inc_pending_shape (upd_app s (ap_id a) (fun _ => a1)) L R) as (g & Eg & Kg) end.
      eapply NF_trans; [apply (upd_app_const_nf s a a1 (ids_ids0 _ HI) Ha Hnr); reflexivity|]. eapply NF_queues; [reflexivity|reflexivity|exact Eg|exact Kg]. }
  pose proof (NF_rinv _ _ _ _ F1 HR) as HR1. pose proof (NF_ids0 _ _ _ _ F1 (ids_ids0 _ HI)) as HI1.
  destruct (oa_allocated x || (rq_node r =? 0)); [apply Some_inj in H; subst; exact HR1|].
  destruct (find_app s1 (ap_id a)) as [a1|] eqn:Ea1; [|discriminate]. destruct (find_node s1 (rq_node r)) as [n|] eqn:En; [|discriminate].
  destruct (find_alloc (ap_requests a1) (oa_key x)) as [ask|]; [|discriminate]. destruct (n_add n (oa_bound ask (rq_node r)) true) as [n'|] eqn:Eadd; [|discriminate].
  apply Some_inj in H. subst s'. destruct (find_app_in _ _ _ Ea1) as [Ha1 Eid1]. destruct (n_add_res _ _ _ _ Eadd) as [I1 I2].
  (* the record found in s1 still holds no reservation *)
  assert (Hnr1 : ap_reservations a1 = []).
  { destruct F1 as (fa & fn & fq & [A1 A2 A3 A4 A5 A6 A7 A8 A9 A10 A11 A12 A13]). rewrite A1 in Ha1. apply in_map_iff in Ha1. destruct Ha1 as (b & <- & Hb).
    rewrite (A4 b Hb) in Eid1. assert (b = a) by (apply (nodup_key_eq ap_id (s_apps s)); auto; apply (id_apps s HI)). subst b. rewrite (A6 a Ha). exact Hnr. }
  match goal with |- RInv (add_counts (upd_node (q_inc (q_dec_pending (upd_app s1 _ (fun _ => ?A3)) ?L1 ?R1) ?L2 ?R2) _ _) _ _) => set (a3 := A3) end.
  assert (K3 : ap_id a3 = ap_id a1 /\ ap_queue a3 = ap_queue a1 /\ ap_reservations a3 = ap_reservations a1).
  { unfold a3. destruct (ap_event_fields a1 (fsm_run (ap_state a1))) as (E1 & E2 & E3 & _). cbn [ap_with ap_id ap_queue ap_reservations]. auto. }
  destruct K3 as (K1 & K2 & K3).
  eapply NF_rinv; [|exact HR1]. rewrite <- Eid1.
  eapply NF_trans; [apply (upd_app_const_nf s1 a1 a3 HI1 Ha1 Hnr1 K1 K2 K3)|].
  match goal with |- NF _ _ ?S (add_counts (upd_node (q_inc (q_dec_pending ?S ?L1 ?R1) ?L2 ?R2) _ _) _ _) =>
    set (S0 := S); set (S1 := q_dec_pending S0 L1 R1); set (S2 := q_inc S1 L2 R2);
    destruct (q_dec_pending_shape S0 L1 R1) as (g1 & Eg1 & Kg1); destruct (q_inc_shape S1 L2 R2) as (g2 & Eg2 & Kg2) end.
  assert (G2 : NF None None S0 S2).
  { apply (NF_trans None None None S0 S1 S2); [apply (NF_queues None S0 S1 g1); [reflexivity|reflexivity|exact Eg1|exact Kg1]|apply (NF_queues None S1 S2 g2); [reflexivity|reflexivity|exact Eg2|exact Kg2]]. }
  eapply NF_trans; [exact G2|]. eapply NF_trans; [|apply add_counts_nf].
  destruct (find_node_in _ _ _ En) as [_ Enid].
  eapply (NF_set_node None _ (on_id n) n).
  - eapply NF_ids0; [exact G2|]. eapply NF_ids0; [apply (upd_app_const_nf s1 a1 a3 HI1 Ha1 Hnr1 K1 K2 K3)|exact HI1].
  - rewrite Enid. exact En.
  - exact I1.
  - exact I2. Qed.

Lemma m_alloc2_rinv s r s' : m_alloc2 s r = Some s' -> Ids s -> RInv s -> RInv s'.
Proof. unfold m_alloc2. intros H HI HR. destruct (_ || _); [discriminate|]. destruct (find_app s (rq_app r)) as [a|] eqn:Ea; [|discriminate].
  destruct (negb (rq_node r =? 0) && _); [discriminate|]. destruct (IsZero (rq_res r) || _); [discriminate|].
  destruct (find_alloc (ap_requests a) (rq_key r)) as [x|]; [|discriminate]. destruct (find_app_in _ _ _ Ea) as [Ha _].
  eapply m_update_existing_rinv; eassumption. Qed.

(* C09d.4: the second fragment.  Side condition: the Completing timer moves an application out of the live list only if it
   holds no reservation (it has no pending ask then; follows from the books of C03 for positive ask sizes) *)
Definition fire_ok9 (s : ostate) (st : ostep) : Prop :=
  match st_op st with OpFireState id => forall a, find_app s id = Some a -> ap_reservations a = [] | _ => True end.

Theorem m_step2_rinv deny s st s' : m_step2 deny s st = Some s' -> Ids s -> RInv s -> fire_ok9 s st -> RInv s'.
Proof. unfold m_step2, fire_ok9. intros H HI HR Hf. destruct (m_step deny s st) as [s1|] eqn:E1.
  - apply Some_inj in H. subst s1. eapply m_step_rinv; eassumption.
  - destruct (st_panic st); [discriminate|]. destruct (st_op st); try discriminate.
    + eapply m_node_remove_rinv; eassumption.
    + eapply m_app_add_rinv; eassumption.
    + eapply m_app_remove_rinv; eassumption.
    + eapply m_alloc2_rinv; eassumption.
    + destruct (find_app s app) as [a|]; [|discriminate]. destruct (ap_phtimer a); [discriminate|]. apply Some_inj in H. subst. exact HR.
    + eapply m_fire_state_rinv; eassumption. Qed.

(* ------------------------------------------------------------------ C09d.5: the steps of the fourth fragment *)
(* Full statement: every step [m_step_resv] accepts preserves [RInv].  Proved for scheduling cycles and for the release of one
   allocation / one ask and for node removal (Core/Model4ProofsR10.v); for application removal, the release of all allocations
   of an application and the update of an existing key the proof is done under the side condition [resv_ok9]: the
   application that is addressed holds no reservation. *)
Definition resv_ok9 (s : ostate) (st : ostep) : Prop :=
  match st_op st with
  | OpAppRemove id => forall a, find_app s id = Some a -> ap_reservations a = []
  | OpAlloc r => forall a, find_app s (rq_app r) = Some a -> ap_reservations a = []
  | OpRelease app key _ => key = 0 -> forall a, find_app s app = Some a -> ap_reservations a = []
  | _ => True
  end.
(* the released allocation key holds no reservation (a listed allocation is an allocated request: invariant [Inv] of C03) *)
Definition release_ok9 (s : ostate) (st : ostep) : Prop :=
  match st_op st with
  | OpRelease app key _ => forall a x, find_app s app = Some a -> find_alloc (ap_allocs a) key = Some x -> forall p, In p (ap_reservations a) -> snd p <> key
  | _ => True
  end.
