(* C06 - proofs about the component model Core/Gang.v, part 1: swap guard, timers, timeouts. *)
From Coq Require Import List ZArith NArith Bool Lia ZifyBool ZifyNat ZifyN.
From YK Require Import Base.Int64 Base.Int64Laws Base.Res Base.ResSpec Base.ResLemmas Base.ResLaws.
From YK Require Import Core.Obs Core.GangPred Core.MaxApps Core.Gang.
Import ListNotations.
Open Scope N_scope.
Set Default Timeout 60.

(* ---------- the size guard of the code implies real <= placeholder ---------- *)
Lemma getz_nonneg_of_no_negative (x : res) k : existsb (fun kv => (snd kv <? 0)%Z) x = false -> (0 <= getz x k)%Z.
Proof.
  intro H. rewrite getz_get. destruct (get x k) as [v|] eqn:E; cbn [oz]; [|lia].
  apply get_some_in in E. destruct (Z.ltb_spec v 0); [|lia].
  assert (existsb (fun kv => (snd kv <? 0)%Z) x = true) as X; [|congruence].
  apply existsb_exists. exists (k, v). split; [exact E|]. cbn. lia.
Qed.

Lemma swap_size_ok_le p r :
  wf r -> res_in_range p -> res_in_range r -> swap_size_ok p r = true -> res_le r p = true.
Proof.
  intros Hwr Hp Hr H. unfold swap_size_ok, HasNegativeValue in H. apply negb_true_iff in H.
  unfold res_le. apply forallb_forall. intros k _. apply Z.leb_le.
  pose proof (getz_nonneg_of_no_negative _ k H) as Hk.
  rewrite (Sub_getz (Some p) (Some r) k) in Hk; [|exact Hwr|exact Hp|exact Hr]. cbn [oget] in Hk.
  pose proof (getz_in_range p k Hp) as Rp. pose proof (getz_in_range r k Hr) as Rr.
  destruct (clamp_cases (getz p k - getz r k)) as [[H1 H2]|[[H1 H2]|[H1 H2]]]; unfold MIN, MAX, in_range in *; lia.
Qed.

(* swap_guard: a swap decision the model admits links a pending real ask and an allocated, not yet released
   placeholder of the application (the model is the bookkeeping of ONE application: both objects live in its
   maps) with the same, non-empty task group, and the real ask is not larger than the placeholder *)
Lemma swap_guard_l s rk pk other s' evs :
  gstep s (GSwap rk pk other) = GOk s' evs ->
  exists r p, find_obj s rk = Some r /\ find_obj s pk = Some p /\
    g_ph r = false /\ g_req r = true /\ g_allocated r = false /\
    g_ph p = true /\ g_alloc p = true /\ g_released p = false /\ g_preempted p = false /\
    g_tg r = g_tg p /\ g_tg r <> 0 /\ swap_size_ok (g_res p) (g_res r) = true /\
    (wf (g_res r) -> res_in_range (g_res p) -> res_in_range (g_res r) -> res_le (g_res r) (g_res p) = true) /\
    evs = [GRel pk TT_PlaceholderReplaced].
Proof.
  cbn [gstep]. destruct (find_obj s rk) as [r|] eqn:Er; [|discriminate].
  destruct (find_obj s pk) as [p|] eqn:Ep; [|discriminate].
  destruct (negb (has_ph_alloc s)); [discriminate|].
  destruct (negb (g_req r) || g_ph r || (g_tg r =? 0) || g_allocated r) eqn:E1; [discriminate|].
  destruct (negb (g_alloc p) || negb (g_ph p) || g_released p || g_preempted p || negb (g_tg r =? g_tg p)) eqn:E2; [discriminate|].
  destruct (negb (swap_size_ok (g_res p) (g_res r))) eqn:E3; [discriminate|].
  intro H. exists r, p.
  apply orb_false_iff in E1. destruct E1 as [E1 E1d]. apply orb_false_iff in E1. destruct E1 as [E1 E1c].
  apply orb_false_iff in E1. destruct E1 as [E1a E1b].
  apply orb_false_iff in E2. destruct E2 as [E2 E2e]. apply orb_false_iff in E2. destruct E2 as [E2 E2d].
  apply orb_false_iff in E2. destruct E2 as [E2 E2c]. apply orb_false_iff in E2. destruct E2 as [E2a E2b].
  apply negb_false_iff in E1a, E2a, E2b, E2e, E3. apply N.eqb_neq in E1c. apply N.eqb_eq in E2e.
  repeat (split; [first [reflexivity|assumption]|]).
  split; [intros; apply swap_size_ok_le; assumption|].
  destruct other; inversion H; reflexivity.
Qed.

(* ---------- timers never crash ---------- *)
Lemma timer_no_crash_l s : gstep s GTimeout <> GCrash /\ gstep s GStateTimeout <> GCrash.
Proof.
  split; cbn [gstep].
  - destruct (gs_phtimer s); [destruct (timeout_step s)|]; discriminate.
  - destruct (gs_statetimer s); [destruct (state_timeout_step s)|]; discriminate.
Qed.

(* the state on which the code before fix ef5c585 dereferenced a nil placeholder-data entry: an Accepted gang
   application with an allocated placeholder and a pending real ask without task group *)
Definition crash_state : gst :=
  mkGS ST_Accepted true [(7, (1%Z, (0%Z, 0%Z)))]
       [mkG 1 7 [(1, 4%Z)] 1 true true false false 0 true true; mkG 2 0 [(1, 2%Z)] 0 false false false false 0 true false]
       true false [(1, 1)] (fun _ => 0%Z) (fun _ => 0%Z) (fun _ _ => 0%Z).
Lemma timer_crash_before_fix :
  timeout_crashes_before_fix crash_state = true /\
  exists s' evs, gstep crash_state GTimeout = GOk s' evs /\ gs_state s' = ST_Failing /\ gs_pd s' = [(7, (1%Z, (0%Z, 0%Z)))].
Proof. split; [vm_compute; reflexivity|]. eexists. eexists. split; [vm_compute; reflexivity|]. split; reflexivity. Qed.

(* ---------- facts about the FSM step with callbacks ---------- *)
Lemma gfire_frame s e s' evs : gfire s e = (s', evs) ->
  gs_pd s' = gs_pd s /\ gs_nodes s' = gs_nodes s /\ gs_queue s' = gs_queue s /\ gs_user s' = gs_user s /\
  gs_nodeuse s' = gs_nodeuse s /\ gs_hard s' = gs_hard s /\
  (gs_objs s' = gs_objs s \/ gs_objs s' = map (o_set_req false) (gs_objs s)).
Proof.
  unfold gfire. destruct (fsm (gs_state s) e) as [st'|]; intro H.
  - destruct (st' =? gs_state s); [inversion H; subst; auto 10|].
    destruct ((st' =? ST_Completed) || (st' =? ST_Failed)); inversion H; subst; cbn; auto 10.
  - inversion H; subst. auto 10.
Qed.

Lemma gfire_state s e s' evs : gfire s e = (s', evs) ->
  gs_state s' = match fsm (gs_state s) e with Some x => x | None => gs_state s end.
Proof.
  unfold gfire. destruct (fsm (gs_state s) e) as [st'|]; intro H.
  - destruct (st' =? gs_state s) eqn:E; [inversion H; subst; apply N.eqb_eq in E; congruence|].
    destruct ((st' =? ST_Completed) || (st' =? ST_Failed)); inversion H; subst; reflexivity.
  - inversion H; subst. reflexivity.
Qed.

(* ---------- placeholder timeout before any real allocation ---------- *)
Definition ph_to_release (o : gal) : bool := g_alloc o && g_ph o && negb (g_released o) && negb (g_preempted o).
Definition ph_ask_pending (o : gal) : bool := g_req o && g_ph o && negb (g_allocated o) && negb (g_preempted o).

Lemma asks_check_keeps_state s s' evs :
  asks_state_check s = (s', evs) -> (gs_state s = ST_Failing \/ gs_state s = ST_Resuming) ->
  gs_state s' = gs_state s /\ gs_objs s' = gs_objs s /\ gs_phtimer s' = gs_phtimer s.
Proof.
  unfold asks_state_check. intros H Hs.
  destruct (negb (has_pending s) && negb (has_real_alloc s) && negb (gs_state s =? ST_Failing) &&
            negb (gs_state s =? ST_Completing) && negb (has_ph_alloc s)) eqn:E.
  - destruct Hs as [Hs|Hs].
    + rewrite Hs in E. change (ST_Failing =? ST_Failing) with true in E.
      destruct (has_pending s), (has_real_alloc s), (has_ph_alloc s); cbn in E; discriminate.
    + unfold gfire in H. rewrite Hs in H. change (fsm ST_Resuming EvComplete) with (@None N) in H. inversion H; subst. auto.
  - inversion H; subst. auto.
Qed.

Lemma timeout_case2 s (want : N) ev :
  gs_phtimer s = true -> (gs_state s = ST_New \/ gs_state s = ST_Accepted) ->
  ev = (if gs_hard s then EvFail else EvResume) ->
  want = (if gs_hard s then ST_Failing else ST_Resuming) ->
  forall s' evs, gstep s GTimeout = GOk s' evs ->
  gs_state s' = want /\ gs_phtimer s' = false /\ In (GState want) evs /\
  (forall o, In o (gs_objs s) -> ph_to_release o = true -> In (GRel (g_key o) TT_Timeout) evs) /\
  (forall o, In o (gs_objs s) -> ph_ask_pending o = true -> In (GRel (g_key o) TT_Timeout) evs) /\
  (forall o', In o' (gs_objs s') -> g_req o' = false).
Proof.
  intros Ht Hst Hev Hwant s' evs. cbn [gstep]. rewrite Ht. unfold timeout_step.
  assert (Hc : ((gs_state s =? ST_Running) || (gs_state s =? ST_Completing)) = false).
  { destruct Hst as [H|H]; rewrite H; reflexivity. }
  rewrite Hc. cbn [andb]. rewrite <- Hev.
  destruct (gfire s ev) as [s1 ev1] eqn:Ef.
  pose proof (gfire_state _ _ _ _ Ef) as Hs1. pose proof (gfire_frame _ _ _ _ Ef) as [Fpd [_ [_ [_ [_ [_ Fobjs]]]]]].
  assert (Hfsm : fsm (gs_state s) ev = Some want).
  { subst ev want. destruct Hst as [H|H]; rewrite H; destruct (gs_hard s); reflexivity. }
  rewrite Hfsm in Hs1.
  assert (Hne : (want =? gs_state s) = false).
  { subst want. destruct Hst as [H|H]; rewrite H; destruct (gs_hard s); reflexivity. }
  assert (Hobjs1 : gs_objs s1 = gs_objs s).
  { unfold gfire in Ef. rewrite Hfsm, Hne in Ef.
    assert ((want =? ST_Completed) || (want =? ST_Failed) = false) as X by (subst want; destruct (gs_hard s); reflexivity).
    rewrite X in Ef. inversion Ef; subst. reflexivity. }
  assert (Hev1 : ev1 = [GState want]).
  { unfold gfire in Ef. rewrite Hfsm, Hne in Ef. destruct ((want =? ST_Completed) || (want =? ST_Failed)); inversion Ef; reflexivity. }
  set (objs2 := map (fun o => if (g_alloc o || (g_req o && negb (g_allocated o))) && negb (g_preempted o)
                              then o_set_released true o else o) (gs_objs s1)).
  set (d2 := fold_left (fun d o => if pd_has d (g_tg o) then pd_timedout_inc (g_tg o) d else d)
                       (filter (fun o => g_req o && negb (g_allocated o) && negb (g_preempted o)) (gs_objs s1)) (gs_pd s1)).
  destruct (remove_all_asks_g (set_pd (set_objs s1 objs2) d2)) as [s3 ev3] eqn:Er.
  intro H. inversion H; subst s' evs. clear H.
  assert (Hwant2 : want = ST_Failing \/ want = ST_Resuming) by (subst want; destruct (gs_hard s); auto).
  assert (H3 : gs_state s3 = want /\ (forall o', In o' (gs_objs s3) -> g_req o' = false)).
  { unfold remove_all_asks_g in Er. cbn [set_pd set_objs gs_objs] in Er.
    destruct (negb (existsb g_req objs2)) eqn:En.
    - inversion Er; subst. cbn. split; [exact Hs1|]. intros o' Ho'. apply negb_true_iff in En.
      destruct (g_req o') eqn:Eo; [|reflexivity].
      assert (existsb g_req objs2 = true) as X; [|congruence]. apply existsb_exists. exists o'. auto.
    - apply asks_check_keeps_state in Er; [|cbn; rewrite Hs1; tauto]. destruct Er as [E1 [E2 _]].
      cbn in E1, E2. split; [congruence|]. intros o' Ho'. rewrite E2 in Ho'. apply in_map_iff in Ho'.
      destruct Ho' as [x [Ex _]]. subst o'. reflexivity. }
  destruct H3 as [H3a H3b].
  split; [exact H3a|]. split; [reflexivity|]. split; [rewrite Hev1; left; reflexivity|].
  split; [|split; [|exact H3b]].
  - intros o Ho Hp. apply in_or_app. right. apply in_or_app. right. apply in_or_app. left.
    apply in_map_iff. exists o. split; [reflexivity|]. apply filter_In. rewrite Hobjs1. split; [exact Ho|].
    unfold ph_to_release in Hp. apply andb_true_iff in Hp. destruct Hp as [Hp H4]. apply andb_true_iff in Hp.
    destruct Hp as [Hp _]. apply andb_true_iff in Hp. destruct Hp as [Hp _]. rewrite Hp, H4. reflexivity.
  - intros o Ho Hp. apply in_or_app. right. apply in_or_app. right. apply in_or_app. right.
    apply in_map_iff. exists o. split; [reflexivity|]. apply filter_In. rewrite Hobjs1. split; [exact Ho|].
    unfold ph_ask_pending in Hp. apply andb_true_iff in Hp. destruct Hp as [Hp H4]. apply andb_true_iff in Hp.
    destruct Hp as [Hp H3]. apply andb_true_iff in Hp. destruct Hp as [Hp _]. rewrite Hp, H3, H4. reflexivity.
Qed.

(* timeout_hard / timeout_soft: the timeout fires on a New / Accepted application: Hard -> Failing, Soft ->
   Resuming; the timer is cleared; every allocated, not yet released placeholder and every pending placeholder
   ask is announced released (TIMEOUT); no ask is left in the requests *)
Lemma timeout_hard_l s s' evs :
  gs_phtimer s = true -> gs_hard s = true -> (gs_state s = ST_New \/ gs_state s = ST_Accepted) ->
  gstep s GTimeout = GOk s' evs ->
  gs_state s' = ST_Failing /\ gs_phtimer s' = false /\ In (GState ST_Failing) evs /\
  (forall o, In o (gs_objs s) -> ph_to_release o = true -> In (GRel (g_key o) TT_Timeout) evs) /\
  (forall o, In o (gs_objs s) -> ph_ask_pending o = true -> In (GRel (g_key o) TT_Timeout) evs) /\
  (forall o', In o' (gs_objs s') -> g_req o' = false).
Proof.
  intros Ht Hh Hst H. eapply (timeout_case2 s ST_Failing EvFail); eauto; rewrite Hh; reflexivity.
Qed.
Lemma timeout_soft_l s s' evs :
  gs_phtimer s = true -> gs_hard s = false -> (gs_state s = ST_New \/ gs_state s = ST_Accepted) ->
  gstep s GTimeout = GOk s' evs ->
  gs_state s' = ST_Resuming /\ gs_phtimer s' = false /\ In (GState ST_Resuming) evs /\
  (forall o, In o (gs_objs s) -> ph_to_release o = true -> In (GRel (g_key o) TT_Timeout) evs) /\
  (forall o, In o (gs_objs s) -> ph_ask_pending o = true -> In (GRel (g_key o) TT_Timeout) evs) /\
  (forall o', In o' (gs_objs s') -> g_req o' = false).
Proof.
  intros Ht Hh Hst H. eapply (timeout_case2 s ST_Resuming EvResume); eauto; rewrite Hh; reflexivity.
Qed.
