(* C03 over the fourth fragment of the operational model (Core/Model4.v): [Books] and [Inv] are preserved by the steps
   [m_step_resv] accepts.  Reservation writers, preempting ledger and marks are frames (Model4ProofsF.v, Model4ProofsG.v);
   releases, removals and in-place updates reuse the theorems of Core/BooksOps*.v / Core/Model2ProofsB*.v on the state
   with the reservation list hidden; the scheduling decision [m_bind] is the body of [m_sched_alloc] (same proof). *)
From Coq Require Import List ZArith NArith Bool Lia ZifyBool.
From YK Require Import Base.Int64 Base.Res Base.ResSpec Base.ResLemmas Base.ResLaws Base.ResLaws2 Base.ResLawsPred
  Core.Obs Core.Model Core.Model2 Core.Ledger Core.Model4
  Core.BooksLemmas Core.BooksDefs Core.BooksTree Core.BooksQueue Core.BooksApp Core.BooksState Core.BooksDrain Core.BooksStep
  Core.BooksOps Core.BooksOps2 Core.BooksOps3 Core.BooksOps4 Core.BooksProofs
  Core.Model2ProofsB1 Core.Model2ProofsB2 Core.Model2ProofsB3 Core.Model2ProofsB4 Core.Model2ProofsB5 Core.Model2ProofsB6
  Core.Model4ProofsF Core.Model4ProofsG.
Import ListNotations.
Open Scope Z_scope.
Set Default Timeout 60.

Lemma books_0 s : Books s -> Books0 s. Proof. intros [H _]. exact H. Qed.

(* ------------------------------------------------------------------ the scheduling decision *)
Theorem m_bind_step s s' a ask n : Inv s -> Books0 s -> Bounded s -> In a (s_apps s) -> In ask (ap_requests a) ->
  oa_allocated ask = false -> oa_ph ask = false -> In n (s_nodes s) ->
  m_bind s a ask n (on_id n) = Some s' -> Inv s' /\ Books s'.
Proof. intros HI HB HBd Ha Hask Ana Aph Hn H. unfold m_bind in H.
  pose proof (inv_app_wf s HI a Ha) as W. pose proof (bk_apps s HB a Ha) as B. pose proof (bd_apps s HBd a Ha) as Bd.
  pose proof (aw_req a W ask Hask) as Aok. pose proof (abd_req a Bd ask Hask) as Ab.
  unfold n_add in H. cbn [orb] in H.
  match type of H with match (if ?c then _ else None) with _ => _ end = _ => destruct c; [|discriminate] end.
  change (oa_foreign (oa_bound ask (on_id n))) with (oa_foreign ask) in H. rewrite (ao_native _ ask Aok) in H.
  unfold q_try_inc in H.
  match type of H with match (if ?c then _ else None) with _ => _ end = _ => destruct c; [|discriminate] end.
  fold (sched_app a ask (on_id n)) in H. change (oa_res (oa_bound ask (on_id n))) with (oa_res ask) in H.
  fold (F_inc (oa_res ask)) in H. fold (node_bound n (oa_bound ask (on_id n))) in H.
  inversion H; subst s'; clear H.
  set (x := oa_bound ask (on_id n)).
  assert (Xfresh : forall b, In b (s_apps s) -> ~ In (oa_key x) (akeys (ap_allocs b))).
  { intros b Hb C. unfold akeys in C. apply in_map_iff in C. destruct C as (y & E & Hy). change (oa_key x) with (oa_key ask) in E.
    destruct (aw_allocreq b (inv_app_wf s HI b Hb) y Hy) as (r1 & Hr1 & E1 & Hal).
    assert (Eab : ap_id b = ap_id a) by (apply (inv_keys s HI b a r1 ask); auto; congruence).
    assert (b = a) by (apply (nodup_key_inj ap_id (s_apps s)); auto; apply (inv_app_ids s HI)). subst b.
    assert (r1 = ask) by (apply (nodup_key_inj oa_key (ap_requests a)); auto; [apply (aw_req_keys a W)|congruence]). congruence. }
  apply (bind_core s _ a (sched_app a ask (on_id n)) n x (fun q => F_dec_pending (oa_res ask) (F_inc (oa_res ask) q)) (fun k => - getz (oa_res ask) k)
           HI HB HBd Ha Hn (oa_bound_ok _ ask _ Aok) Ab eq_refl Xfresh); try reflexivity.
  - apply sched_queues. reflexivity.
  - intros q Hq Hin. destruct (inv_q_wf s HI q Hq) as [Wqa Wqp]. destruct (bd_queues s HBd q Hq) as [Bqa Bqp]. pose proof (bk_queues s HB q Hq) as QB.
    destruct (F_inc_facts q (oa_res ask) Wqa Wqp (ao_wf _ ask Aok) Bqa Ab (qb_nn_alloc s q QB) (qb_nn_pend s q QB) (ao_nn _ ask Aok))
      as ((I1 & I2) & I3 & I4 & I5 & I6).
    assert (Hle : forall k, getz (oa_res ask) k <= getz (q_pending (F_inc (oa_res ask) q)) k).
    { intros k0. change (q_pending (F_inc (oa_res ask) q)) with (q_pending q).
      pose proof (ask_le_pending a ask W B Hask Ana k0). pose proof (app_pending_dominated s a HI HB Ha q k0 Hq Hin). lia. }
    destruct (F_dec_pending_facts (F_inc (oa_res ask) q) (oa_res ask) I1 I2 (ao_wf _ ask Aok) Bqp Ab I5 Hle)
      as ((D1 & D2) & D3 & D4 & D5 & D6).
    change (oa_res x) with (oa_res ask). split; [split; assumption|]. split; [|split; [|split; assumption]].
    + intros k0. rewrite D3, I3. lia.
    + intros k0. rewrite D4. change (q_pending (F_inc (oa_res ask) q)) with (q_pending q). lia.
  - apply sched_id.
  - apply sched_queue.
  - apply sched_books; assumption.
  - apply sched_wf; assumption.
  - intros r' Hr'. rewrite sched_requests in Hr'. apply in_put_alloc in Hr'. left.
    destruct Hr' as [->|[Hr' _]]; [exists ask; auto|exists r'; auto].
  - apply sched_allocs.
  - intros k0. rewrite sched_allocated, sched_phalloc by assumption. change (oa_res x) with (oa_res ask). lia.
  - intros k0. rewrite sched_pending by assumption. lia.
Qed.

Lemma m_sched_alloc4_step deny s s' a k nid : Inv s -> Books0 s -> Bounded s -> In a (s_apps s) ->
  m_sched_alloc4 deny s a k nid = Some s' -> Inv s' /\ Books s'.
Proof. intros HI HB HBd Ha H. unfold m_sched_alloc4 in H.
  destruct (find_alloc (ap_requests a) k) as [ask|] eqn:Eask; [|discriminate].
  destruct (find_node s nid) as [n|] eqn:En; [|discriminate].
  destruct (oa_allocated ask) eqn:Ana; [discriminate|]. destruct (oa_ph ask) eqn:Aph; [discriminate|]. cbn [orb] in H.
  destruct (negb _); [discriminate|]. destruct (m_bind s a ask n nid) as [s1|] eqn:Eb; [|discriminate]. inversion H; subst s'; clear H.
  apply find_alloc_some in Eask. destruct Eask as [Hask Ek]. apply find_node_some in En. destruct En as [Hn Enid]. subst nid.
  eapply LFrame_all; [apply LFrame_part_unreserve|]. eapply m_bind_step; eassumption. Qed.

Lemma m_sched_with_step deny s st cnt fx s' : Inv s -> Books s -> Bounded s -> m_sched_with deny s st cnt fx = Some s' -> Inv s' /\ Books s'.
Proof. unfold m_sched_with. cbv zeta. intros HI HB HBd H.
  match type of H with (if ?c then None else _) = _ => destruct c; [discriminate|] end.
  match type of H with (if ?c then None else _) = _ => destruct c; [discriminate|] end.
  match type of H with (if ?c then None else _) = _ => destruct c; [discriminate|] end.
  match type of H with match m_mark_victims ?S1 ?V with _ => _ end = _ => set (s1 := S1) in *; destruct (m_mark_victims s1 V) as [s2|] eqn:Ev; [|discriminate] end.
  assert (F02 : LFrame s s2).
  { eapply LFrame_trans; [apply LFrame_cancel_phase|]. eapply LFrame_mark_victims. exact Ev. }
  destruct (LFrame_all s s2 F02 (conj HI HB)) as [HI2 HB2]. pose proof (LFrame_bounded3 s s2 F02 HBd) as HBd2.
  match type of H with match ?X with Some _ => _ | None => None end = _ => destruct X as [s3|] eqn:Ea; [|discriminate] end.
  assert (H3 : Inv s3 /\ Books s3).
  { destruct (new_allocs (st_events st)) as [|[[[k aid] nid] ph] [|y t]] eqn:En; try (inversion Ea; subst; split; assumption).
    destruct (find_app s2 aid) as [a|] eqn:Eapp; [|discriminate]. destruct (find_app_some _ _ _ Eapp) as [Hina _].
    eapply m_sched_alloc4_step; [exact HI2|apply books_0; exact HB2|exact HBd2|exact Hina|exact Ea]. }
  destruct (sched_added s st) as [|t [|t2 l]]; try (inversion H; subst; exact H3).
  eapply LFrame_all; [eapply LFrame_reserve4; exact H|exact H3]. Qed.

Lemma pick_nres_in target l dflt : pick_nres target l dflt = dflt \/ In (Some (pick_nres target l dflt)) l.
Proof. unfold pick_nres. destruct (find _ l) as [[r|]|] eqn:E; auto. right. apply find_some in E. apply E. Qed.
Lemma m_sched4_some deny s st s' : m_sched4 deny s st = Some s' -> exists cnt fx, m_sched_with deny s st cnt fx = Some s'.
Proof. unfold m_sched4. intros H. destruct (m_sched_with deny s st true false) as [r0|] eqn:E0; [|discriminate].
  assert (H' : pick_nres (s_nres (st_obs st)) [Some r0; m_sched_with deny s st false false; m_sched_with deny s st true true; m_sched_with deny s st false true] r0 = s') by congruence.
  match type of H' with pick_nres ?t ?l ?d = _ => destruct (pick_nres_in t l d) as [Hp|Hin] end.
  - exists true, false. congruence.
  - rewrite H' in Hin. destruct Hin as [Hin|[Hin|[Hin|[Hin|[]]]]]; [exists true, false; congruence|eauto|eauto|eauto]. Qed.
Lemma m_sched4_step deny s st s' : Inv s -> Books s -> Bounded s -> m_sched4 deny s st = Some s' -> Inv s' /\ Books s'.
Proof. intros HI HB HBd H. destruct (m_sched4_some _ _ _ _ H) as (cnt & fx & E). eapply m_sched_with_step; eassumption. Qed.

(* ------------------------------------------------------------------ hiding the reservation list *)
Lemma find_app_upd_app s id g id' : (forall a, ap_id (g a) = ap_id a) ->
  find_app (upd_app s id g) id' = option_map (fun a => if (ap_id a =? id)%N then g a else a) (find_app s id').
Proof. intros Hg. unfold find_app. cbn [upd_app s_apps]. apply (find_map ap_id). intros a. destruct (ap_id a =? id)%N; [apply Hg|reflexivity]. Qed.
Lemma hide_find s id a : find_app s id = Some a -> find_app (hide_res s id) id = Some (ap_set_res a []).
Proof. intros E. unfold hide_res. rewrite find_app_upd_app by reflexivity. rewrite E. cbn [option_map].
  destruct (find_app_some _ _ _ E) as [_ ->]. rewrite N.eqb_refl. reflexivity. Qed.
Lemma hide_in s id a : find_app s id = Some a -> In (ap_set_res a []) (s_apps (hide_res s id)).
Proof. intros E. apply hide_find in E. apply find_app_some in E. apply E. Qed.
Lemma hidden_all s id : Inv s -> Books s -> Bounded s -> Inv (hide_res s id) /\ Books (hide_res s id) /\ Bounded (hide_res s id).
Proof. intros HI HB HBd. pose proof (LFrame_hide s id) as F. destruct (LFrame_all _ _ F (conj HI HB)). split; [assumption|]. split; [assumption|].
  eapply LFrame_bounded3; eassumption. Qed.

(* ------------------------------------------------------------------ releases *)
Lemma m_release_alloc4_step s s' a x ttype : Inv s -> Books s -> Bounded s -> find_app s (ap_id a) = Some a -> In x (ap_allocs a) ->
  m_release_alloc4 s a x ttype = Some s' -> Inv s' /\ Books s'.
Proof. intros HI HB HBd Ea Hx H. unfold m_release_alloc4 in H.
  destruct (m_release_alloc (hide_res s (ap_id a)) (ap_set_res a []) x ttype) as [s1|] eqn:E; [|discriminate]. inversion H; subst s'; clear H.
  destruct (hidden_all s (ap_id a) HI HB HBd) as (HI0 & HB0 & HBd0).
  assert (H1 : Inv s1 /\ Books s1).
  { eapply (release_alloc_step (hide_res s (ap_id a)) s1 (ap_set_res a []) x ttype HI0 (books_0 _ HB0) HBd0); [apply hide_in; exact Ea|exact Hx|exact E]. }
  assert (H2 : Inv (show_res s1 (ap_id a) (ap_reservations a)) /\ Books (show_res s1 (ap_id a) (ap_reservations a))) by (eapply LFrame_all; [apply LFrame_show|exact H1]).
  match goal with |- Inv (if _ then ?A else fst (r_cancel ?B _ _)) /\ _ => assert (H3 : Inv B /\ Books B) end.
  { destruct (_ && _); [eapply LFrame_all; [apply LFrame_dec_preempting|exact H2]|exact H2]. }
  destruct (ttype =? TT_Timeout)%N; [exact H3|]. eapply LFrame_all; [apply LFrame_cancel|exact H3]. Qed.

Lemma m_release_ask4_step s s' a x : Inv s -> Books s -> Bounded s -> In x (ap_requests a) -> find_app s (ap_id a) = Some a ->
  m_release_ask4 s a x = Some s' -> Inv s' /\ Books s'.
Proof. intros HI HB HBd Hx Ea0 H. unfold m_release_ask4 in H.
  set (s1 := fst (r_cancel s (ap_id a) (oa_key x))) in *.
  pose proof (LFrame_cancel s (ap_id a) (oa_key x)) as F1. fold s1 in F1.
  destruct (LFrame_all _ _ F1 (conj HI HB)) as [HI1 HB1]. pose proof (LFrame_bounded3 _ _ F1 HBd) as HBd1.
  destruct (find_app s1 (ap_id a)) as [a1|] eqn:Ea; [|discriminate].
  destruct (m_release_ask (hide_res s1 (ap_id a)) (ap_set_res a1 []) x) as [s2|] eqn:E; [|discriminate]. inversion H; subst s'; clear H.
  destruct (hidden_all s1 (ap_id a) HI1 HB1 HBd1) as (HI0 & HB0 & HBd0).
  eapply LFrame_all; [apply LFrame_show|].
  eapply (release_ask_step (hide_res s1 (ap_id a)) s2 (ap_set_res a1 []) x HI0 (books_0 _ HB0) HBd0); [apply hide_in; exact Ea| |exact E].
  (* the requests of the application are untouched by the cancellation *)
  destruct (RFrame_find_app s s1 (ap_id a) a1 (RFrame_cancel s (ap_id a) (oa_key x)) Ea) as (a0 & Ea0' & Er & _).
  rewrite Ea0 in Ea0'. inversion Ea0'; subst a0. cbn [ap_set_res ap_requests]. rewrite Er. exact Hx. Qed.
